//! C03 operations (division, all rounding conventions, checked variants, hooks).
use crate::io::*;
use num_bigint::{BigInt, BigUint};
use num_integer::Integer;
use num_traits::{CheckedDiv, CheckedEuclid, Euclid};

macro_rules! scalar_op {
    ($ty:expr, $v:expr, |$x:ident| $body:expr) => {
        match $ty {
            "u32" => { let $x: u32 = $v.parse().unwrap(); $body }
            "u64" => { let $x: u64 = $v.parse().unwrap(); $body }
            "u128" => { let $x: u128 = $v.parse().unwrap(); $body }
            _ => panic!("scalar type"),
        }
    };
}

fn uu(q: &BigUint, r: &BigUint) -> String {
    ok2(res_u(q), res_u(r))
}
fn ii(q: &BigInt, r: &BigInt) -> String {
    ok2(res_i(q), res_i(r))
}

pub fn dispatch(op: &str, a: &[&str]) -> Option<String> {
    Some(match op {
        // ---- BigUint
        "u.div_rem" => { let (q, r) = Integer::div_rem(&arg_u(a[0]), &arg_u(a[1])); uu(&q, &r) }
        "u.div" => ok(res_u(&(&arg_u(a[0]) / &arg_u(a[1])))),
        "u.div_val" => ok(res_u(&(arg_u(a[0]) / arg_u(a[1])))),
        "u.rem" => ok(res_u(&(&arg_u(a[0]) % &arg_u(a[1])))),
        "u.rem_val" => ok(res_u(&(arg_u(a[0]) % arg_u(a[1])))),
        "u.div_floor" => ok(res_u(&Integer::div_floor(&arg_u(a[0]), &arg_u(a[1])))),
        "u.mod_floor" => ok(res_u(&Integer::mod_floor(&arg_u(a[0]), &arg_u(a[1])))),
        "u.div_mod_floor" => { let (q, r) = Integer::div_mod_floor(&arg_u(a[0]), &arg_u(a[1])); uu(&q, &r) }
        "u.div_ceil" => ok(res_u(&Integer::div_ceil(&arg_u(a[0]), &arg_u(a[1])))),
        "u.div_euclid" => ok(res_u(&Euclid::div_euclid(&arg_u(a[0]), &arg_u(a[1])))),
        "u.rem_euclid" => ok(res_u(&Euclid::rem_euclid(&arg_u(a[0]), &arg_u(a[1])))),
        "u.div_rem_euclid" => { let (q, r) = Euclid::div_rem_euclid(&arg_u(a[0]), &arg_u(a[1])); uu(&q, &r) }
        "u.checked_div" => opt(CheckedDiv::checked_div(&arg_u(a[0]), &arg_u(a[1])), |r| ok(res_u(r))),
        "u.checked_div_euclid" => opt(CheckedEuclid::checked_div_euclid(&arg_u(a[0]), &arg_u(a[1])), |r| ok(res_u(r))),
        "u.checked_rem_euclid" => opt(CheckedEuclid::checked_rem_euclid(&arg_u(a[0]), &arg_u(a[1])), |r| ok(res_u(r))),
        "u.checked_div_rem_euclid" => opt(CheckedEuclid::checked_div_rem_euclid(&arg_u(a[0]), &arg_u(a[1])), |r| uu(&r.0, &r.1)),
        "u.div_scalar" => {
            let (ty, v) = arg_s(a[1]);
            let x = arg_u(a[0]);
            let r: BigUint = scalar_op!(ty, v, |s| x / s);
            ok(res_u(&r))
        }
        "u.rem_scalar" => {
            let (ty, v) = arg_s(a[1]);
            let x = arg_u(a[0]);
            let r: BigUint = scalar_op!(ty, v, |s| x % s);
            ok(res_u(&r))
        }
        "u.scalar_div" => {
            let (ty, v) = arg_s(a[0]);
            let b = arg_u(a[1]);
            let r: BigUint = scalar_op!(ty, v, |s| s / b);
            ok(res_u(&r))
        }
        "u.scalar_rem" => {
            let (ty, v) = arg_s(a[0]);
            let b = arg_u(a[1]);
            let r: BigUint = match ty {
                "u32" => { let s: u32 = v.parse().unwrap(); s % &b }
                "u64" => { let s: u64 = v.parse().unwrap(); s % b }
                "u128" => { let s: u128 = v.parse().unwrap(); s % b }
                _ => panic!("scalar type"),
            };
            ok(res_u(&r))
        }
        // ---- BigInt
        "i.div_rem" => { let (q, r) = Integer::div_rem(&arg_i(a[0]), &arg_i(a[1])); ii(&q, &r) }
        "i.div" => ok(res_i(&(&arg_i(a[0]) / &arg_i(a[1])))),
        "i.rem" => ok(res_i(&(&arg_i(a[0]) % &arg_i(a[1])))),
        "i.div_floor" => ok(res_i(&Integer::div_floor(&arg_i(a[0]), &arg_i(a[1])))),
        "i.mod_floor" => ok(res_i(&Integer::mod_floor(&arg_i(a[0]), &arg_i(a[1])))),
        "i.div_mod_floor" => { let (q, r) = Integer::div_mod_floor(&arg_i(a[0]), &arg_i(a[1])); ii(&q, &r) }
        "i.div_ceil" => ok(res_i(&Integer::div_ceil(&arg_i(a[0]), &arg_i(a[1])))),
        "i.div_euclid" => ok(res_i(&Euclid::div_euclid(&arg_i(a[0]), &arg_i(a[1])))),
        "i.rem_euclid" => ok(res_i(&Euclid::rem_euclid(&arg_i(a[0]), &arg_i(a[1])))),
        "i.div_rem_euclid" => { let (q, r) = Euclid::div_rem_euclid(&arg_i(a[0]), &arg_i(a[1])); ii(&q, &r) }
        "i.checked_div" => opt(CheckedDiv::checked_div(&arg_i(a[0]), &arg_i(a[1])), |r| ok(res_i(r))),
        "i.checked_div_inherent" => opt(BigInt::checked_div(&arg_i(a[0]), &arg_i(a[1])), |r| ok(res_i(r))),
        "i.checked_div_euclid" => opt(CheckedEuclid::checked_div_euclid(&arg_i(a[0]), &arg_i(a[1])), |r| ok(res_i(r))),
        "i.checked_rem_euclid" => opt(CheckedEuclid::checked_rem_euclid(&arg_i(a[0]), &arg_i(a[1])), |r| ok(res_i(r))),
        "i.checked_div_rem_euclid" => opt(CheckedEuclid::checked_div_rem_euclid(&arg_i(a[0]), &arg_i(a[1])), |r| ii(&r.0, &r.1)),
        // ---- hooks
        #[cfg(num_bigint_verif)]
        "h.div_wide" => {
            let (q, r) = num_bigint::verif::division::div_wide(arg_n(a[0]), arg_n(a[1]), arg_n(a[2]));
            ok2(res_n(q), res_n(r))
        }
        #[cfg(num_bigint_verif)]
        "h.div_rem_digit" => {
            let (q, r) = num_bigint::verif::division::div_rem_digit(arg_u(a[0]), arg_n(a[1]));
            ok2(res_u(&q), res_n(r))
        }
        #[cfg(num_bigint_verif)]
        "h.rem_digit" => ok(res_n(num_bigint::verif::division::rem_digit(&arg_u(a[0]), arg_n(a[1])))),
        #[cfg(num_bigint_verif)]
        "h.sub_mul_digit_same_len" => {
            let (r, br) = num_bigint::verif::division::sub_mul_digit_same_len(arg_d(a[0]), &arg_d(a[1]), arg_n(a[2]));
            ok2(res_d(&r), res_n(br))
        }
        #[cfg(num_bigint_verif)]
        "h.div_rem_core" => {
            let (q, r) = num_bigint::verif::division::div_rem_core(arg_u(a[0]), &arg_d(a[1]));
            uu(&q, &r)
        }
        #[cfg(num_bigint_verif)]
        "h.div_rem" => {
            let (q, r) = num_bigint::verif::division::div_rem(arg_u(a[0]), arg_u(a[1]));
            uu(&q, &r)
        }
        _ => return None,
    })
}
