//! C01 operations.
use crate::io::*;
use num_bigint::BigUint;
use num_traits::{CheckedAdd, CheckedSub};

macro_rules! scalar_op {
    ($ty:expr, $v:expr, |$x:ident| $body:expr) => {
        match $ty {
            "u32" => { let $x: u32 = $v.parse().unwrap(); $body }
            "u64" => { let $x: u64 = $v.parse().unwrap(); $body }
            "u128" => { let $x: u128 = $v.parse().unwrap(); $body }
            _ => panic!("scalar type"),
        }
    };
}

pub fn dispatch(op: &str, a: &[&str]) -> Option<String> {
    Some(match op {
        "u.add" => ok(res_u(&(&arg_u(a[0]) + &arg_u(a[1])))),
        // `x += &y` exactly as written (self may be SHORTER than other: the extend + tail-carry path)
        "u.add_assign" => {
            let mut x = arg_u(a[0]);
            x += &arg_u(a[1]);
            ok(res_u(&x))
        }
        "u.sub" => ok(res_u(&(arg_u(a[0]) - &arg_u(a[1])))),
        "u.sub_ref_val" => ok(res_u(&(&arg_u(a[0]) - arg_u(a[1])))),
        "u.checked_sub" => opt(arg_u(a[0]).checked_sub(&arg_u(a[1])), |r| ok(res_u(r))),
        "u.checked_add" => opt(arg_u(a[0]).checked_add(&arg_u(a[1])), |r| ok(res_u(r))),
        "u.cmp" => ok(res_cmp(arg_u(a[0]).cmp(&arg_u(a[1])))),
        "i.add" => ok(res_i(&(&arg_i(a[0]) + &arg_i(a[1])))),
        "i.sub" => ok(res_i(&(&arg_i(a[0]) - &arg_i(a[1])))),
        "u.add_scalar" => {
            let (ty, v) = arg_s(a[1]);
            let mut x = arg_u(a[0]);
            scalar_op!(ty, v, |s| x += s);
            ok(res_u(&x))
        }
        "u.sub_scalar" => {
            let (ty, v) = arg_s(a[1]);
            let mut x = arg_u(a[0]);
            scalar_op!(ty, v, |s| x -= s);
            ok(res_u(&x))
        }
        "u.scalar_sub" => {
            let (ty, v) = arg_s(a[0]);
            let b: BigUint = arg_u(a[1]);
            let r: BigUint = scalar_op!(ty, v, |s| s - b);
            ok(res_u(&r))
        }
        #[cfg(num_bigint_verif)]
        "h.add2c" => {
            let (r, c) = num_bigint::verif::addition::add2c(arg_d(a[0]), &arg_d(a[1]));
            ok2(res_d(&r), res_n(c))
        }
        #[cfg(num_bigint_verif)]
        "h.sub2" => ok(res_d(&num_bigint::verif::subtraction::sub2(arg_d(a[0]), &arg_d(a[1])))),
        #[cfg(num_bigint_verif)]
        "h.sub2rev" => ok(res_d(&num_bigint::verif::subtraction::sub2rev(&arg_d(a[0]), arg_d(a[1])))),
        #[cfg(num_bigint_verif)]
        "h.schoolbook_add" => {
            let (r, c, d) = num_bigint::verif::addition::schoolbook_add(arg_d(a[0]), &arg_d(a[1]), arg_n(a[2]) as usize);
            ok3(res_d(&r), res_n(c as u8), res_n(d))
        }
        #[cfg(num_bigint_verif)]
        "h.schoolbook_sub" => {
            let (r, c, d) = num_bigint::verif::subtraction::schoolbook_sub(arg_d(a[0]), &arg_d(a[1]), arg_n(a[2]) as usize);
            ok3(res_d(&r), res_n(c as u8), res_n(d))
        }
        _ => return None,
    })
}
