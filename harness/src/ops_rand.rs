//! C18 operations: random generation of the real crate driven by a scripted word stream.
//!
//! `Scripted` implements `rand_core::RngCore`: `next_u32` pops the next scripted word, `next_u64`
//! is two words (low half first), `fill_bytes` yields the little-endian bytes of successive words.
//! Running out of scripted words sets a flag and panics; the op is then reported as `err` (the
//! model reports the same condition as OutOfFuel -> `err`), so no case can spin forever in a
//! rejection loop.
#[cfg(not(feature = "rand"))]
pub fn dispatch(_op: &str, _a: &[&str]) -> Option<String> {
    None
}
#[cfg(feature = "rand")]
pub use imp::dispatch;

#[cfg(feature = "rand")]
mod imp {
    use crate::io::*;
    use num_bigint::{BigInt, BigUint, RandBigInt, RandomBits, UniformBigInt, UniformBigUint};
    use rand::distributions::uniform::UniformSampler;
    use rand::distributions::Distribution;
    use rand::{Error, Rng, RngCore};
    use std::cell::Cell;
    use std::panic::{catch_unwind, resume_unwind, AssertUnwindSafe};

    thread_local! {
        static EXHAUSTED: Cell<bool> = Cell::new(false);
    }

    pub struct Scripted {
        words: Vec<u32>,
        pos: usize,
    }
    impl Scripted {
        fn new(words: Vec<u32>) -> Self {
            Scripted { words, pos: 0 }
        }
        fn pop(&mut self) -> u32 {
            if self.pos >= self.words.len() {
                EXHAUSTED.with(|e| e.set(true));
                panic!("scripted stream exhausted");
            }
            let w = self.words[self.pos];
            self.pos += 1;
            w
        }
    }
    impl RngCore for Scripted {
        fn next_u32(&mut self) -> u32 {
            self.pop()
        }
        fn next_u64(&mut self) -> u64 {
            let lo = self.pop() as u64;
            let hi = self.pop() as u64;
            lo | (hi << 32)
        }
        fn fill_bytes(&mut self, dest: &mut [u8]) {
            for chunk in dest.chunks_mut(4) {
                let b = self.pop().to_le_bytes();
                chunk.copy_from_slice(&b[..chunk.len()]);
            }
        }
        fn try_fill_bytes(&mut self, dest: &mut [u8]) -> Result<(), Error> {
            self.fill_bytes(dest);
            Ok(())
        }
    }

    fn arg_r(s: &str) -> Vec<u32> {
        let h = strip("r:", s);
        if h.is_empty() {
            return vec![];
        }
        h.split(',').map(|w| u32::from_str_radix(w, 16).expect("hex word")).collect()
    }

    /// Run `f` with a scripted RNG; `ok <payload> n:<words consumed>`, or `err` on exhaustion.
    fn with_rng(stream: &str, f: impl FnOnce(&mut Scripted) -> String) -> String {
        let mut rng = Scripted::new(arg_r(stream));
        EXHAUSTED.with(|e| e.set(false));
        let r = catch_unwind(AssertUnwindSafe(|| f(&mut rng)));
        match r {
            Ok(payload) => format!("ok {} n:{}", payload, rng.pos),
            Err(e) => {
                if EXHAUSTED.with(|x| x.get()) {
                    "err".to_string()
                } else {
                    resume_unwind(e)
                }
            }
        }
    }

    pub fn dispatch(op: &str, a: &[&str]) -> Option<String> {
        if !op.starts_with("rnd.") {
            return None;
        }
        Some(match op {
            "rnd.gen_biguint" => with_rng(a[1], |r| res_u(&r.gen_biguint(arg_n(a[0])))),
            "rnd.gen_bigint" => with_rng(a[1], |r| res_i(&r.gen_bigint(arg_n(a[0])))),
            "rnd.bits_u" => with_rng(a[1], |r| {
                let x: BigUint = RandomBits::new(arg_n(a[0])).sample(r);
                res_u(&x)
            }),
            "rnd.bits_i" => with_rng(a[1], |r| {
                let x: BigInt = r.sample(RandomBits::new(arg_n(a[0])));
                res_i(&x)
            }),
            "rnd.below" => with_rng(a[1], |r| res_u(&r.gen_biguint_below(&arg_u(a[0])))),
            "rnd.urange" => with_rng(a[2], |r| res_u(&r.gen_biguint_range(&arg_u(a[0]), &arg_u(a[1])))),
            "rnd.uu_single" => with_rng(a[2], |r| {
                res_u(&UniformBigUint::sample_single(arg_u(a[0]), &arg_u(a[1]), r))
            }),
            "rnd.u_gen_range" => with_rng(a[2], |r| res_u(&r.gen_range(arg_u(a[0])..arg_u(a[1])))),
            "rnd.uu_new" => with_rng(a[2], |r| {
                let u = UniformBigUint::new(&arg_u(a[0]), arg_u(a[1]));
                res_u(&u.sample(r))
            }),
            "rnd.uu_incl" => with_rng(a[2], |r| {
                let u = UniformBigUint::new_inclusive(arg_u(a[0]), &arg_u(a[1]));
                res_u(&u.sample(r))
            }),
            "rnd.u_gen_range_incl" => with_rng(a[2], |r| res_u(&r.gen_range(arg_u(a[0])..=arg_u(a[1])))),
            "rnd.uu_new2" => with_rng(a[2], |r| {
                let u = UniformBigUint::new(arg_u(a[0]), arg_u(a[1]));
                let x = u.sample(r);
                let y = u.clone().sample(r);
                format!("{} {}", res_u(&x), res_u(&y))
            }),
            "rnd.irange" => with_rng(a[2], |r| res_i(&r.gen_bigint_range(&arg_i(a[0]), &arg_i(a[1])))),
            "rnd.ui_single" => with_rng(a[2], |r| {
                res_i(&UniformBigInt::sample_single(arg_i(a[0]), &arg_i(a[1]), r))
            }),
            "rnd.i_gen_range" => with_rng(a[2], |r| res_i(&r.gen_range(arg_i(a[0])..arg_i(a[1])))),
            "rnd.ui_new" => with_rng(a[2], |r| {
                let u = UniformBigInt::new(&arg_i(a[0]), arg_i(a[1]));
                res_i(&u.sample(r))
            }),
            "rnd.ui_incl" => with_rng(a[2], |r| {
                let u = UniformBigInt::new_inclusive(arg_i(a[0]), &arg_i(a[1]));
                res_i(&u.sample(r))
            }),
            "rnd.i_gen_range_incl" => with_rng(a[2], |r| res_i(&r.gen_range(arg_i(a[0])..=arg_i(a[1])))),
            "rnd.ui_new2" => with_rng(a[2], |r| {
                let u = UniformBigInt::new(arg_i(a[0]), arg_i(a[1]));
                let x = u.sample(r);
                let y = u.clone().sample(r);
                format!("{} {}", res_i(&x), res_i(&y))
            }),
            _ => return None,
        })
    }
}
