//! C07 operations: bitwise logic, shifts, bit queries on the real crate.
use crate::io::*;
use num_bigint::{BigInt, BigUint};

/// Run `$body` with `$x` bound to the shift amount parsed at its own primitive type.
macro_rules! with_shift {
    ($ty:expr, $v:expr, |$x:ident| $body:expr) => {
        match $ty {
            "u8" => { let $x: u8 = $v.parse().unwrap(); $body }
            "u16" => { let $x: u16 = $v.parse().unwrap(); $body }
            "u32" => { let $x: u32 = $v.parse().unwrap(); $body }
            "u64" => { let $x: u64 = $v.parse().unwrap(); $body }
            "u128" => { let $x: u128 = $v.parse().unwrap(); $body }
            "usize" => { let $x: usize = $v.parse().unwrap(); $body }
            "i8" => { let $x: i8 = $v.parse().unwrap(); $body }
            "i16" => { let $x: i16 = $v.parse().unwrap(); $body }
            "i32" => { let $x: i32 = $v.parse().unwrap(); $body }
            "i64" => { let $x: i64 = $v.parse().unwrap(); $body }
            "i128" => { let $x: i128 = $v.parse().unwrap(); $body }
            "isize" => { let $x: isize = $v.parse().unwrap(); $body }
            _ => panic!("scalar type"),
        }
    };
}

fn opt_n(o: Option<u64>) -> String {
    match o {
        None => "none".to_string(),
        Some(k) => ok(res_n(k)),
    }
}

pub fn dispatch(op: &str, a: &[&str]) -> Option<String> {
    Some(match op {
        // ---- BigUint logic
        "u.and" => ok(res_u(&(&arg_u(a[0]) & &arg_u(a[1])))),
        "u.or" => ok(res_u(&(&arg_u(a[0]) | &arg_u(a[1])))),
        "u.xor" => ok(res_u(&(&arg_u(a[0]) ^ &arg_u(a[1])))),
        "u.and_assign" => { let mut x = arg_u(a[0]); x &= &arg_u(a[1]); ok(res_u(&x)) }
        "u.or_assign" => { let mut x = arg_u(a[0]); x |= &arg_u(a[1]); ok(res_u(&x)) }
        "u.xor_assign" => { let mut x = arg_u(a[0]); x ^= &arg_u(a[1]); ok(res_u(&x)) }
        // ---- BigInt logic
        "i.and" => ok(res_i(&(&arg_i(a[0]) & &arg_i(a[1])))),
        "i.or" => ok(res_i(&(&arg_i(a[0]) | &arg_i(a[1])))),
        "i.xor" => ok(res_i(&(&arg_i(a[0]) ^ &arg_i(a[1])))),
        "i.and_assign" => { let mut x = arg_i(a[0]); x &= &arg_i(a[1]); ok(res_i(&x)) }
        "i.or_assign" => { let mut x = arg_i(a[0]); x |= &arg_i(a[1]); ok(res_i(&x)) }
        "i.xor_assign" => { let mut x = arg_i(a[0]); x ^= &arg_i(a[1]); ok(res_i(&x)) }
        "i.not" => ok(res_i(&(!arg_i(a[0])))),
        "i.not_ref" => ok(res_i(&(!&arg_i(a[0])))),
        // ---- shifts, each at the primitive type named in the case
        "u.shl" => { let (ty, v) = arg_s(a[1]); let x = arg_u(a[0]); let r: BigUint = with_shift!(ty, v, |s| x << s); ok(res_u(&r)) }
        "u.shl_ref" => { let (ty, v) = arg_s(a[1]); let x = arg_u(a[0]); let r: BigUint = with_shift!(ty, v, |s| &x << s); ok(res_u(&r)) }
        "u.shl_assign" => { let (ty, v) = arg_s(a[1]); let mut x = arg_u(a[0]); with_shift!(ty, v, |s| x <<= s); ok(res_u(&x)) }
        "u.shr" => { let (ty, v) = arg_s(a[1]); let x = arg_u(a[0]); let r: BigUint = with_shift!(ty, v, |s| x >> s); ok(res_u(&r)) }
        "u.shr_ref" => { let (ty, v) = arg_s(a[1]); let x = arg_u(a[0]); let r: BigUint = with_shift!(ty, v, |s| &x >> s); ok(res_u(&r)) }
        "u.shr_assign" => { let (ty, v) = arg_s(a[1]); let mut x = arg_u(a[0]); with_shift!(ty, v, |s| x >>= s); ok(res_u(&x)) }
        "i.shl" => { let (ty, v) = arg_s(a[1]); let x = arg_i(a[0]); let r: BigInt = with_shift!(ty, v, |s| x << s); ok(res_i(&r)) }
        "i.shl_ref" => { let (ty, v) = arg_s(a[1]); let x = arg_i(a[0]); let r: BigInt = with_shift!(ty, v, |s| &x << s); ok(res_i(&r)) }
        "i.shl_assign" => { let (ty, v) = arg_s(a[1]); let mut x = arg_i(a[0]); with_shift!(ty, v, |s| x <<= s); ok(res_i(&x)) }
        "i.shr" => { let (ty, v) = arg_s(a[1]); let x = arg_i(a[0]); let r: BigInt = with_shift!(ty, v, |s| x >> s); ok(res_i(&r)) }
        "i.shr_ref" => { let (ty, v) = arg_s(a[1]); let x = arg_i(a[0]); let r: BigInt = with_shift!(ty, v, |s| &x >> s); ok(res_i(&r)) }
        "i.shr_assign" => { let (ty, v) = arg_s(a[1]); let mut x = arg_i(a[0]); with_shift!(ty, v, |s| x >>= s); ok(res_i(&x)) }
        // ---- bit queries
        "u.bits" => ok(res_n(arg_u(a[0]).bits())),
        "i.bits" => ok(res_n(arg_i(a[0]).bits())),
        "u.trailing_zeros" => opt_n(arg_u(a[0]).trailing_zeros()),
        "i.trailing_zeros" => opt_n(arg_i(a[0]).trailing_zeros()),
        "u.trailing_ones" => ok(res_n(arg_u(a[0]).trailing_ones())),
        "u.count_ones" => ok(res_n(arg_u(a[0]).count_ones())),
        "u.bit" => ok(res_bool(arg_u(a[0]).bit(arg_n(a[1])))),
        "i.bit" => ok(res_bool(arg_i(a[0]).bit(arg_n(a[1])))),
        "u.set_bit" => { let mut x = arg_u(a[0]); x.set_bit(arg_n(a[1]), arg_n(a[2]) != 0); ok(res_u(&x)) }
        "i.set_bit" => { let mut x = arg_i(a[0]); x.set_bit(arg_n(a[1]), arg_n(a[2]) != 0); ok(res_i(&x)) }
        _ => return None,
    })
}
