//! Operations added by the API audit (docs/API_COVERAGE.md): public items of the crate that no other
//! ops_*.rs file called.  Each op names the property that owns it (its cases come from that
//! property's generator, tools/gen/extra_cases.py).
//!
//!   C01  i.checked_add / i.checked_sub          BigInt's INHERENT checked_add / checked_sub
//!   C04  ord.u / ord.i                          partial_cmp, <, <=, >, >=, != (operators, not method calls)
//!        sort.u / sort.i                        slice::sort / sort_unstable / BTreeSet order / Iterator::max,min
//!        hash.u / hash.i                        the byte stream `Hash::hash` feeds to a recording Hasher
//!        histx.u / histx.i / histx.pair         histories with the constructors from_str_radix, parse_bytes,
//!                                               From<primitive>, arbitrary::Arbitrary and BigInt `op= scalar`
//!        arb.u / arb.i / arb.u_rest / arb.i_rest / arb.hint     arbitrary::Arbitrary (feature `arbitrary`)
//!        qc.u / qc.i / qc.shrink_u / qc.shrink_i                quickcheck::Arbitrary (feature `quickcheck`)
//!   C06  u.fmt_debug / i.fmt_debug              `{:?}` with the flag / width / fill set of u.fmt
//!        u.parse_err / i.parse_err              Display, Error::description, Debug, Clone, == of ParseBigIntError
//!   C08  u.try_err / i.try_err                  the same for TryFromBigIntError<()> / <BigUint> / <BigInt>
//!   C10  f.sum0 / f.product0                    Sum / Product over EMPTY iterators (every item type)
//!   C11  {u,i}.{sqrt,cbrt,nth_root}_inh         the INHERENT sqrt / cbrt / nth_root (the other ops call Roots::)
//!   C19  sg.sign_eq / sg.sign_cmp / sg.sign_debug / sg.sign_hash / sg.sign_copy     derives of `Sign`
use crate::io::*;
use crate::ops_hist as H;
use num_bigint::{BigInt, BigUint, Sign};
use std::collections::BTreeSet;
use std::hash::{Hash, Hasher};

fn arg_z(s: &str) -> Sign {
    match strip("z:", s) {
        "-1" => Sign::Minus,
        "0" => Sign::NoSign,
        "1" => Sign::Plus,
        _ => panic!("bad sign"),
    }
}
fn text(s: &str) -> String {
    String::from_utf8(arg_t_bytes(s)).expect("generator emits valid UTF-8 for t: arguments")
}
fn pcmp(o: Option<std::cmp::Ordering>) -> String {
    match o {
        None => "none".to_string(),
        Some(c) => res_cmp(c),
    }
}

/// Hasher that records every byte it is fed (all `write_*` defaults funnel into `write`).
struct Rec(Vec<u8>);
impl Hasher for Rec {
    fn finish(&self) -> u64 {
        0
    }
    fn write(&mut self, bytes: &[u8]) {
        self.0.extend_from_slice(bytes);
    }
}
fn hash_words<T: Hash>(x: &T) -> String {
    let mut h = Rec(Vec::new());
    x.hash(&mut h);
    if h.0.len() % 8 != 0 {
        return format!("ok raw:{}", res_b(&h.0));
    }
    let w: Vec<u64> = h.0.chunks(8).map(|c| u64::from_le_bytes([c[0], c[1], c[2], c[3], c[4], c[5], c[6], c[7]])).collect();
    ok(res_d(&w))
}

/// every way the standard library orders a collection through `Ord`: all must give the same list
fn sorted<T: Ord + Clone>(xs: &[T]) -> Option<Vec<T>> {
    let mut a = xs.to_vec();
    a.sort();
    let mut b = xs.to_vec();
    b.sort_unstable();
    let mut c = xs.to_vec();
    c.sort_by(|x, y| x.partial_cmp(y).unwrap());
    let mut d = xs.to_vec();
    d.sort_by(|x, y| y.cmp(x));
    d.reverse();
    let set: BTreeSet<T> = xs.iter().cloned().collect();
    let mut dedup = a.clone();
    dedup.dedup();
    let same = |p: &Vec<T>, q: &Vec<T>| p.len() == q.len() && p.iter().zip(q.iter()).all(|(x, y)| x == y);
    let setv: Vec<T> = set.into_iter().collect();
    if !(same(&a, &b) && same(&a, &c) && same(&a, &d) && same(&dedup, &setv)) {
        return None;
    }
    if let (Some(mx), Some(mn)) = (xs.iter().max(), xs.iter().min()) {
        if !(mx == a.last().unwrap() && mn == a.first().unwrap()) {
            return None;
        }
    }
    Some(a)
}

// ---- `{:?}` over the same finite set of literal specs as ops_radix (Debug only) -------------------
macro_rules! dbg_pre {
    ($key:expr, $w:expr, $x:expr; $($pre:literal),*) => {
        match $key {
            $( $pre => format!(concat!("{:", $pre, "w$?}"), $x, w = $w), )*
            _ => panic!("fmt spec outside the finite set"),
        }
    };
}
macro_rules! do_dbg {
    ($key:expr, $w:expr, $x:expr) => {
        dbg_pre!($key, $w, $x; "", "0", "#", "#0", "+", "+0", "+#", "+#0", "<", "<0", "<#", "<#0", "<+", "<+0", "<+#", "<+#0", "^", "^0", "^#", "^#0", "^+", "^+0", "^+#", "^+#0", ">", ">0", ">#", ">#0", ">+", ">+0", ">+#", ">+#0", "*<", "*<0", "*<#", "*<#0", "*<+", "*<+0", "*<+#", "*<+#0", "*^", "*^0", "*^#", "*^#0", "*^+", "*^+0", "*^+#", "*^+#0", "*>", "*>0", "*>#", "*>#0", "*>+", "*>+0", "*>+#", "*>+#0", "0<", "0<0", "0<#", "0<#0", "0<+", "0<+0", "0<+#", "0<+#0", "0^", "0^0", "0^#", "0^#0", "0^+", "0^+0", "0^+#", "0^+#0", "0>", "0>0", "0>#", "0>#0", "0>+", "0>+0", "0>+#", "0>+#0", "_<", "_<0", "_<#", "_<#0", "_<+", "_<+0", "_<+#", "_<+#0", "_^", "_^0", "_^#", "_^#0", "_^+", "_^+0", "_^+#", "_^+#0", "_>", "_>0", "_>#", "_>#0", "_>+", "_>+0", "_>+#", "_>+#0")
    };
}
/// `t:<kind>.<flags>.<width>.<fill code>.<align>` (kind is ignored: Debug) → (literal-spec key, width)
fn fmt_spec(s: &str) -> (String, usize) {
    let t = text(s);
    let f: Vec<&str> = t.split('.').collect();
    assert!(f.len() == 5, "fmt spec");
    let mut key = String::new();
    if f[4] != "n" {
        let fill: u8 = f[3].parse().unwrap();
        if fill != 32 {
            key.push(fill as char);
        }
        key.push(match f[4] {
            "l" => '<',
            "c" => '^',
            "r" => '>',
            _ => panic!("align"),
        });
    }
    if f[1].contains('p') {
        key.push('+');
    }
    if f[1].contains('a') {
        key.push('#');
    }
    if f[1].contains('z') {
        key.push('0');
    }
    (key, f[2].parse().unwrap())
}

// ---- error types ---------------------------------------------------------------------------------
/// everything observable about a ParseBigIntError: Display, Error::description, Debug, Clone + PartialEq
fn parse_err_obs(e: num_bigint::ParseBigIntError) -> String {
    let shown = e.to_string();
    #[allow(deprecated)]
    let descr_same = {
        #[cfg(feature = "std")]
        {
            std::error::Error::description(&e) == shown
        }
        #[cfg(not(feature = "std"))]
        {
            true
        }
    };
    let dbg = format!("{:?}", e);
    let clone_eq = e.clone() == e;
    // padded Display: `str`'s Display honours width / fill / alignment
    let padded = format!("{:*>45}|{:<5}|", e, e);
    let pad_ok = padded == format!("{}{}|{}|", "*".repeat(45usize.saturating_sub(shown.len())), shown, shown);
    format!("ok {} {} {} {} {}", res_t(shown.as_bytes()), res_bool(descr_same), res_t(dbg.as_bytes()), res_bool(clone_eq), res_bool(pad_ok))
}
fn try_err_obs<T: std::fmt::Debug + Clone + PartialEq>(e: num_bigint::TryFromBigIntError<T>) -> String {
    let shown = e.to_string();
    #[allow(deprecated)]
    let descr_same = {
        #[cfg(feature = "std")]
        {
            std::error::Error::description(&e) == shown
        }
        #[cfg(not(feature = "std"))]
        {
            true
        }
    };
    let clone_eq = e.clone() == e;
    let dbg = format!("{:?}", e);
    let dbg_ok = dbg == format!("TryFromBigIntError {{ original: {:?} }}", e.clone().into_original());
    format!("ok {} {} {} {}", res_t(shown.as_bytes()), res_bool(descr_same), res_bool(clone_eq), res_bool(dbg_ok))
}

// ---- extended histories ----------------------------------------------------------------------------
macro_rules! prim_all {
    ($ty:expr, $v:expr, |$n:ident| $body:expr) => {
        match $ty {
            "u8" => { let $n: u8 = $v.parse().unwrap(); $body }
            "u16" => { let $n: u16 = $v.parse().unwrap(); $body }
            "u32" => { let $n: u32 = $v.parse().unwrap(); $body }
            "u64" => { let $n: u64 = $v.parse().unwrap(); $body }
            "usize" => { let $n: usize = $v.parse().unwrap(); $body }
            "u128" => { let $n: u128 = $v.parse().unwrap(); $body }
            "i8" => { let $n: i8 = $v.parse().unwrap(); $body }
            "i16" => { let $n: i16 = $v.parse().unwrap(); $body }
            "i32" => { let $n: i32 = $v.parse().unwrap(); $body }
            "i64" => { let $n: i64 = $v.parse().unwrap(); $body }
            "isize" => { let $n: isize = $v.parse().unwrap(); $body }
            "i128" => { let $n: i128 = $v.parse().unwrap(); $body }
            _ => panic!("scalar type"),
        }
    };
}
macro_rules! prim_unsigned {
    ($ty:expr, $v:expr, |$n:ident| $body:expr) => {
        match $ty {
            "u8" => { let $n: u8 = $v.parse().unwrap(); $body }
            "u16" => { let $n: u16 = $v.parse().unwrap(); $body }
            "u32" => { let $n: u32 = $v.parse().unwrap(); $body }
            "u64" => { let $n: u64 = $v.parse().unwrap(); $body }
            "usize" => { let $n: usize = $v.parse().unwrap(); $body }
            "u128" => { let $n: u128 = $v.parse().unwrap(); $body }
            _ => panic!("unsigned scalar type"),
        }
    };
}

fn pct(s: &str) -> Vec<u8> {
    arg_t_bytes(&format!("t:{}", s))
}

fn xctor_u(s: &str) -> BigUint {
    use num_traits::Num;
    let (name, rest) = H::cut(s);
    match name {
        "str" => {
            let (r, t) = H::cut(rest);
            BigUint::from_str_radix(&String::from_utf8(pct(t)).unwrap(), r.parse().unwrap()).expect("text")
        }
        "pb" => {
            let (r, b) = H::cut(rest);
            BigUint::parse_bytes(&H::hexbytes(b), r.parse().unwrap()).expect("text")
        }
        "prim" => {
            let (ty, v) = H::cut(rest);
            prim_unsigned!(ty, v, |n| BigUint::from(n))
        }
        #[cfg(feature = "arbitrary")]
        "arb" => {
            let b = H::hexbytes(rest);
            <BigUint as arbitrary::Arbitrary>::arbitrary(&mut arbitrary::Unstructured::new(&b)).expect("arbitrary")
        }
        #[cfg(feature = "arbitrary")]
        "arbrest" => {
            let b = H::hexbytes(rest);
            <BigUint as arbitrary::Arbitrary>::arbitrary_take_rest(arbitrary::Unstructured::new(&b)).expect("arbitrary")
        }
        _ => H::ctor_u(s),
    }
}
fn xctor_i(s: &str) -> BigInt {
    use num_traits::Num;
    let (name, rest) = H::cut(s);
    match name {
        "str" => {
            let (r, t) = H::cut(rest);
            BigInt::from_str_radix(&String::from_utf8(pct(t)).unwrap(), r.parse().unwrap()).expect("text")
        }
        "pb" => {
            let (r, b) = H::cut(rest);
            BigInt::parse_bytes(&H::hexbytes(b), r.parse().unwrap()).expect("text")
        }
        "prim" => {
            let (ty, v) = H::cut(rest);
            prim_all!(ty, v, |n| BigInt::from(n))
        }
        #[cfg(feature = "arbitrary")]
        "arb" => {
            let b = H::hexbytes(rest);
            <BigInt as arbitrary::Arbitrary>::arbitrary(&mut arbitrary::Unstructured::new(&b)).expect("arbitrary")
        }
        #[cfg(feature = "arbitrary")]
        "arbrest" => {
            let b = H::hexbytes(rest);
            <BigInt as arbitrary::Arbitrary>::arbitrary_take_rest(arbitrary::Unstructured::new(&b)).expect("arbitrary")
        }
        _ => H::ctor_i(s),
    }
}
fn xapply_u(x: &mut BigUint, op: &str) {
    H::apply_u(x, op)
}
/// BigInt `op= scalar` for all twelve primitive types: addp|subp|mulp|divp|remp :<ty>:<dec>
fn xapply_i(x: &mut BigInt, op: &str) {
    let (name, rest) = H::cut(op);
    let (ty, v) = H::cut(rest);
    match name {
        "addp" => prim_all!(ty, v, |n| *x += n),
        "subp" => prim_all!(ty, v, |n| *x -= n),
        "mulp" => prim_all!(ty, v, |n| *x *= n),
        "divp" => prim_all!(ty, v, |n| *x /= n),
        "remp" => prim_all!(ty, v, |n| *x %= n),
        _ => H::apply_i(x, op),
    }
}

#[cfg(feature = "arbitrary")]
fn hint(h: (usize, Option<usize>)) -> String {
    format!("{} {}", res_n(h.0), match h.1 { None => "none".to_string(), Some(k) => res_n(k) })
}

#[cfg(feature = "quickcheck")]
mod qc {
    use crate::io::*;
    use num_bigint::{BigInt, BigUint, Sign};
    use quickcheck::Arbitrary;
    pub fn canon_u(x: &BigUint) -> bool {
        raw_digits(x).last() != Some(&0)
    }
    pub fn canon_i(x: &BigInt) -> bool {
        canon_u(x.magnitude()) && ((x.sign() == Sign::NoSign) == raw_digits(x.magnitude()).is_empty())
    }
    pub fn run_u(size: usize, seed: u64, count: u64) -> String {
        let mut g = quickcheck::Gen::from_size_and_seed(size, seed);
        for _ in 0..count {
            let x = BigUint::arbitrary(&mut g);
            if !canon_u(&x) {
                return format!("err {}", res_u(&x));
            }
            for y in x.shrink().take(40) {
                if !canon_u(&y) {
                    return format!("err {} {}", res_u(&x), res_u(&y));
                }
            }
        }
        ok(res_n(count))
    }
    pub fn run_i(size: usize, seed: u64, count: u64) -> String {
        let mut g = quickcheck::Gen::from_size_and_seed(size, seed);
        for _ in 0..count {
            let x = BigInt::arbitrary(&mut g);
            if !canon_i(&x) {
                return format!("err {}", res_i(&x));
            }
            for y in x.shrink().take(40) {
                if !canon_i(&y) {
                    return format!("err {} {}", res_i(&x), res_i(&y));
                }
            }
        }
        ok(res_n(count))
    }
    /// every shrink candidate of a given value is canonical, differs from the value, and (BigInt)
    /// carries the value's sign unless it is zero
    pub fn shrink_u(x: &BigUint) -> String {
        for y in x.shrink().take(400) {
            if !canon_u(&y) || y == *x {
                return format!("err {}", res_u(&y));
            }
        }
        ok(res_bool(true))
    }
    pub fn shrink_i(x: &BigInt) -> String {
        for y in x.shrink().take(400) {
            if !canon_i(&y) || y == *x || !(y.sign() == x.sign() || y.sign() == Sign::NoSign) {
                return format!("err {}", res_i(&y));
            }
        }
        ok(res_bool(true))
    }
}

pub fn dispatch(op: &str, a: &[&str]) -> Option<String> {
    use num_traits::{One, Zero};
    Some(match op {
        // ---- C01: BigInt's inherent checked_add / checked_sub (method syntax resolves to them)
        "i.checked_add" => opt(BigInt::checked_add(&arg_i(a[0]), &arg_i(a[1])), |r| ok(res_i(r))),
        "i.checked_sub" => opt(BigInt::checked_sub(&arg_i(a[0]), &arg_i(a[1])), |r| ok(res_i(r))),
        // ---- C04: comparison operators
        "ord.u" => {
            let (x, y) = (arg_u(a[0]), arg_u(a[1]));
            format!("ok {} {} {} {} {} {}", pcmp(x.partial_cmp(&y)), res_bool(x < y), res_bool(x <= y), res_bool(x > y), res_bool(x >= y), res_bool(x != y))
        }
        "ord.i" => {
            let (x, y) = (arg_i(a[0]), arg_i(a[1]));
            format!("ok {} {} {} {} {} {}", pcmp(x.partial_cmp(&y)), res_bool(x < y), res_bool(x <= y), res_bool(x > y), res_bool(x >= y), res_bool(x != y))
        }
        "sort.u" => {
            let xs: Vec<BigUint> = a.iter().map(|s| arg_u(s)).collect();
            match sorted(&xs) {
                Some(v) => format!("ok {}", v.iter().map(res_u).collect::<Vec<_>>().join(" ")),
                None => "err t:orderings-disagree".to_string(),
            }
        }
        "sort.i" => {
            let xs: Vec<BigInt> = a.iter().map(|s| arg_i(s)).collect();
            match sorted(&xs) {
                Some(v) => format!("ok {}", v.iter().map(res_i).collect::<Vec<_>>().join(" ")),
                None => "err t:orderings-disagree".to_string(),
            }
        }
        "hash.u" => hash_words(&arg_u(a[0])),
        "hash.i" => hash_words(&arg_i(a[0])),
        "histx.u" => {
            let (obs, _) = H::hist(|| xctor_u(a[0]), xapply_u, res_u, a[1]);
            format!("ok {}", obs.join(" "))
        }
        "histx.i" => {
            let (obs, _) = H::hist(|| xctor_i(a[0]), xapply_i, res_i, a[1]);
            format!("ok {}", obs.join(" "))
        }
        // two extended histories, then everything hist.pair observes (==, cmp, DefaultHasher, exports, max/min)
        "histx.pair" if a[0] == "u" => {
            let (_, x) = H::hist(|| xctor_u(a[1]), xapply_u, res_u, a[2]);
            let (_, y) = H::hist(|| xctor_u(a[3]), xapply_u, res_u, a[4]);
            match (x, y) {
                (Some(x), Some(y)) => H::observe_u(&x, &y),
                _ => "panic".to_string(),
            }
        }
        "histx.pair" => {
            let (_, x) = H::hist(|| xctor_i(a[1]), xapply_i, res_i, a[2]);
            let (_, y) = H::hist(|| xctor_i(a[3]), xapply_i, res_i, a[4]);
            match (x, y) {
                (Some(x), Some(y)) => H::observe_i(&x, &y),
                _ => "panic".to_string(),
            }
        }
        #[cfg(feature = "arbitrary")]
        "arb.u" => {
            let b = arg_b(a[0]);
            let mut u = arbitrary::Unstructured::new(&b);
            let x = <BigUint as arbitrary::Arbitrary>::arbitrary(&mut u).expect("arbitrary");
            ok2(res_u(&x), res_n(u.len()))
        }
        #[cfg(feature = "arbitrary")]
        "arb.i" => {
            let b = arg_b(a[0]);
            let mut u = arbitrary::Unstructured::new(&b);
            let x = <BigInt as arbitrary::Arbitrary>::arbitrary(&mut u).expect("arbitrary");
            ok2(res_i(&x), res_n(u.len()))
        }
        #[cfg(feature = "arbitrary")]
        "arb.u_rest" => {
            let b = arg_b(a[0]);
            ok(res_u(&<BigUint as arbitrary::Arbitrary>::arbitrary_take_rest(arbitrary::Unstructured::new(&b)).expect("arbitrary")))
        }
        #[cfg(feature = "arbitrary")]
        "arb.i_rest" => {
            let b = arg_b(a[0]);
            ok(res_i(&<BigInt as arbitrary::Arbitrary>::arbitrary_take_rest(arbitrary::Unstructured::new(&b)).expect("arbitrary")))
        }
        #[cfg(feature = "arbitrary")]
        "arb.hint" => {
            let d = arg_n(a[0]) as usize;
            format!("ok {} {}", hint(<BigUint as arbitrary::Arbitrary>::size_hint(d)), hint(<BigInt as arbitrary::Arbitrary>::size_hint(d)))
        }
        #[cfg(feature = "quickcheck")]
        "qc.u" => qc::run_u(arg_n(a[0]) as usize, arg_n(a[1]), arg_n(a[2])),
        #[cfg(feature = "quickcheck")]
        "qc.i" => qc::run_i(arg_n(a[0]) as usize, arg_n(a[1]), arg_n(a[2])),
        #[cfg(feature = "quickcheck")]
        "qc.shrink_u" => qc::shrink_u(&arg_u(a[0])),
        #[cfg(feature = "quickcheck")]
        "qc.shrink_i" => qc::shrink_i(&arg_i(a[0])),
        // ---- C06: Debug, ParseBigIntError
        "u.fmt_debug" => {
            let (key, w) = fmt_spec(a[0]);
            let x = arg_u(a[1]);
            ok(res_t(do_dbg!(key.as_str(), w, x).as_bytes()))
        }
        "i.fmt_debug" => {
            let (key, w) = fmt_spec(a[0]);
            let x = arg_i(a[1]);
            ok(res_t(do_dbg!(key.as_str(), w, x).as_bytes()))
        }
        "u.parse_err" => {
            use num_traits::Num;
            match BigUint::from_str_radix(&text(a[0]), arg_n(a[1]) as u32) {
                Ok(_) => "none".to_string(),
                Err(e) => parse_err_obs(e),
            }
        }
        "i.parse_err" => {
            use num_traits::Num;
            match BigInt::from_str_radix(&text(a[0]), arg_n(a[1]) as u32) {
                Ok(_) => "none".to_string(),
                Err(e) => parse_err_obs(e),
            }
        }
        // ---- C08: TryFromBigIntError (borrowed forms carry `()`, owned forms the original value)
        "u.try_err" => {
            let x = arg_u(a[0]);
            let r = match u8::try_from(&x) {
                Ok(_) => "none".to_string(),
                Err(e) => try_err_obs(e),
            };
            let o = match u8::try_from(x.clone()) {
                Ok(_) => "none".to_string(),
                Err(e) => try_err_obs(e),
            };
            if r == o { r } else { format!("err {} {}", r, o) }
        }
        "i.try_err" => {
            let x = arg_i(a[0]);
            let r = match i8::try_from(&x) {
                Ok(_) => "none".to_string(),
                Err(e) => try_err_obs(e),
            };
            let o = match i8::try_from(x.clone()) {
                Ok(_) => "none".to_string(),
                Err(e) => try_err_obs(e),
            };
            let b = match BigUint::try_from(x.clone()) {
                Ok(_) => None,
                Err(e) => Some(try_err_obs(e)),
            };
            match b {
                Some(bb) if r != "none" && bb != r => format!("err {} {}", r, bb),
                _ => if r == o { r } else { format!("err {} {}", r, o) },
            }
        }
        // ---- C10: Sum / Product over empty iterators, every item type the impls accept
        "f.sum0" | "f.product0" => {
            let sum = op == "f.sum0";
            macro_rules! empties {
                ($F:ty, $($T:ty),*) => {{
                    let mut v: Vec<$F> = Vec::new();
                    $( {
                        let e: Vec<$T> = Vec::new();
                        if sum { v.push(e.iter().sum::<$F>()); v.push(e.into_iter().sum::<$F>()); }
                        else { v.push(e.iter().product::<$F>()); v.push(e.into_iter().product::<$F>()); }
                    } )*
                    v
                }};
            }
            match text(a[0]).as_str() {
                "u" => {
                    let v = empties!(BigUint, BigUint, u8, u16, u32, u64, u128, usize);
                    let want = if sum { BigUint::zero() } else { BigUint::one() };
                    let good = v.iter().all(|x| raw_digits(x) == raw_digits(&want));
                    if good { ok(res_n(1)) } else { "err t:fold-of-empty".to_string() }
                }
                _ => {
                    let v = empties!(BigInt, BigInt, u8, u16, u32, u64, u128, usize, i8, i16, i32, i64, i128, isize);
                    let want = if sum { BigInt::zero() } else { BigInt::one() };
                    let good = v.iter().all(|x| x.sign() == want.sign() && raw_digits(x.magnitude()) == raw_digits(want.magnitude()));
                    if good { ok(res_n(1)) } else { "err t:fold-of-empty".to_string() }
                }
            }
        }
        // ---- C11: inherent roots
        "u.sqrt_inh" => ok(res_u(&BigUint::sqrt(&arg_u(a[0])))),
        "u.cbrt_inh" => ok(res_u(&BigUint::cbrt(&arg_u(a[0])))),
        "u.nth_root_inh" => ok(res_u(&BigUint::nth_root(&arg_u(a[0]), arg_n(a[1]) as u32))),
        "i.sqrt_inh" => ok(res_i(&BigInt::sqrt(&arg_i(a[0])))),
        "i.cbrt_inh" => ok(res_i(&BigInt::cbrt(&arg_i(a[0])))),
        "i.nth_root_inh" => ok(res_i(&BigInt::nth_root(&arg_i(a[0]), arg_n(a[1]) as u32))),
        // ---- C19: derives of Sign
        "sg.sign_eq" => {
            let (x, y) = (arg_z(a[0]), arg_z(a[1]));
            ok2(res_bool(x == y), res_bool(x != y))
        }
        "sg.sign_cmp" => {
            let (x, y) = (arg_z(a[0]), arg_z(a[1]));
            format!("ok {} {} {} {} {} {}", res_cmp(x.cmp(&y)), pcmp(x.partial_cmp(&y)), res_bool(x < y), res_bool(x <= y), res_bool(x > y), res_bool(x >= y))
        }
        "sg.sign_debug" => ok(res_t(format!("{:?}", arg_z(a[0])).as_bytes())),
        "sg.sign_hash" => hash_words(&arg_z(a[0])),
        "sg.sign_copy" => {
            let x = arg_z(a[0]);
            let y = x; // Copy
            #[allow(clippy::clone_on_copy)]
            let z = x.clone();
            ok2(res_sign(y), res_sign(z))
        }
        _ => return None,
    })
}
