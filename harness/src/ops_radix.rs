//! C06 operations: radix / text conversions and the five formatters.
use crate::io::*;
use num_bigint::{BigInt, BigUint, Sign};
use num_traits::Num;
use std::str::FromStr;

fn arg_sign(s: &str) -> Sign {
    match s {
        "z:-1" => Sign::Minus,
        "z:0" => Sign::NoSign,
        "z:1" => Sign::Plus,
        _ => panic!("sign"),
    }
}
fn radix(s: &str) -> u32 {
    arg_n(s) as u32
}
fn text(s: &str) -> String {
    String::from_utf8(arg_t_bytes(s)).expect("generator emits valid UTF-8 for t: arguments")
}
fn perr(e: num_bigint::ParseBigIntError) -> String {
    // the error kind is private; it is observable through Display
    let m = e.to_string();
    if m.contains("empty") {
        "err:empty".to_string()
    } else {
        "err:invalid".to_string()
    }
}

// format!("{:<pre><width>$<kind>}") for a finite set of literal specs; the width is a runtime
// argument.  `pre` = [[fill]align]['+']['#']['0'].
macro_rules! with_kind {
    ($pre:literal, $kind:expr, $w:expr, $x:expr) => {
        match $kind {
            "d" => format!(concat!("{:", $pre, "w$}"), $x, w = $w),
            "b" => format!(concat!("{:", $pre, "w$b}"), $x, w = $w),
            "o" => format!(concat!("{:", $pre, "w$o}"), $x, w = $w),
            "x" => format!(concat!("{:", $pre, "w$x}"), $x, w = $w),
            "X" => format!(concat!("{:", $pre, "w$X}"), $x, w = $w),
            _ => panic!("fmt kind"),
        }
    };
}
macro_rules! with_pre {
    ($key:expr, $kind:expr, $w:expr, $x:expr; $($pre:literal),*) => {
        match $key {
            $( $pre => with_kind!($pre, $kind, $w, $x), )*
            _ => panic!("fmt spec outside the finite set"),
        }
    };
}
macro_rules! do_fmt {
    ($key:expr, $kind:expr, $w:expr, $x:expr) => {
        with_pre!($key, $kind, $w, $x; "", "0", "#", "#0", "+", "+0", "+#", "+#0", "<", "<0", "<#", "<#0", "<+", "<+0", "<+#", "<+#0", "^", "^0", "^#", "^#0", "^+", "^+0", "^+#", "^+#0", ">", ">0", ">#", ">#0", ">+", ">+0", ">+#", ">+#0", "*<", "*<0", "*<#", "*<#0", "*<+", "*<+0", "*<+#", "*<+#0", "*^", "*^0", "*^#", "*^#0", "*^+", "*^+0", "*^+#", "*^+#0", "*>", "*>0", "*>#", "*>#0", "*>+", "*>+0", "*>+#", "*>+#0", "0<", "0<0", "0<#", "0<#0", "0<+", "0<+0", "0<+#", "0<+#0", "0^", "0^0", "0^#", "0^#0", "0^+", "0^+0", "0^+#", "0^+#0", "0>", "0>0", "0>#", "0>#0", "0>+", "0>+0", "0>+#", "0>+#0", "_<", "_<0", "_<#", "_<#0", "_<+", "_<+0", "_<+#", "_<+#0", "_^", "_^0", "_^#", "_^#0", "_^+", "_^+0", "_^+#", "_^+#0", "_>", "_>0", "_>#", "_>#0", "_>+", "_>+0", "_>+#", "_>+#0")
    };
}

/// `t:<kind>.<flags>.<width>.<fill code>.<align>` → (kind, literal-spec key, width)
fn fmt_spec(s: &str) -> (String, String, usize) {
    let t = text(s);
    let f: Vec<&str> = t.split('.').collect();
    assert!(f.len() == 5, "fmt spec");
    let mut key = String::new();
    if f[4] != "n" {
        let fill: u8 = f[3].parse().unwrap();
        if fill != 32 {
            key.push(fill as char);
        }
        key.push(match f[4] {
            "l" => '<',
            "c" => '^',
            "r" => '>',
            _ => panic!("align"),
        });
    }
    if f[1].contains('p') {
        key.push('+');
    }
    if f[1].contains('a') {
        key.push('#');
    }
    if f[1].contains('z') {
        key.push('0');
    }
    (f[0].to_string(), key, f[2].parse().unwrap())
}

pub fn dispatch(op: &str, a: &[&str]) -> Option<String> {
    Some(match op {
        "u.to_radix_le" => ok(res_b(&arg_u(a[0]).to_radix_le(radix(a[1])))),
        "u.to_radix_be" => ok(res_b(&arg_u(a[0]).to_radix_be(radix(a[1])))),
        "i.to_radix_le" => {
            let (s, d) = arg_i(a[0]).to_radix_le(radix(a[1]));
            ok2(res_sign(s), res_b(&d))
        }
        "i.to_radix_be" => {
            let (s, d) = arg_i(a[0]).to_radix_be(radix(a[1]));
            ok2(res_sign(s), res_b(&d))
        }
        "u.from_radix_le" => opt(BigUint::from_radix_le(&arg_b(a[0]), radix(a[1])), |r| ok(res_u(r))),
        "u.from_radix_be" => opt(BigUint::from_radix_be(&arg_b(a[0]), radix(a[1])), |r| ok(res_u(r))),
        "i.from_radix_le" => opt(BigInt::from_radix_le(arg_sign(a[0]), &arg_b(a[1]), radix(a[2])), |r| ok(res_i(r))),
        "i.from_radix_be" => opt(BigInt::from_radix_be(arg_sign(a[0]), &arg_b(a[1]), radix(a[2])), |r| ok(res_i(r))),
        "u.to_str" => ok(res_t(arg_u(a[0]).to_str_radix(radix(a[1])).as_bytes())),
        "i.to_str" => ok(res_t(arg_i(a[0]).to_str_radix(radix(a[1])).as_bytes())),
        "u.from_str_radix" => match BigUint::from_str_radix(&text(a[0]), radix(a[1])) {
            Ok(r) => ok(res_u(&r)),
            Err(e) => perr(e),
        },
        "i.from_str_radix" => match BigInt::from_str_radix(&text(a[0]), radix(a[1])) {
            Ok(r) => ok(res_i(&r)),
            Err(e) => perr(e),
        },
        "u.from_str" => match BigUint::from_str(&text(a[0])) {
            Ok(r) => ok(res_u(&r)),
            Err(e) => perr(e),
        },
        "i.from_str" => match text(a[0]).parse::<BigInt>() {
            Ok(r) => ok(res_i(&r)),
            Err(e) => perr(e),
        },
        "u.parse_bytes" => opt(BigUint::parse_bytes(&arg_b(a[0]), radix(a[1])), |r| ok(res_u(r))),
        "i.parse_bytes" => opt(BigInt::parse_bytes(&arg_b(a[0]), radix(a[1])), |r| ok(res_i(r))),
        "u.fmt" => {
            let (kind, key, w) = fmt_spec(a[0]);
            let x = arg_u(a[1]);
            ok(res_t(do_fmt!(key.as_str(), kind.as_str(), w, x).as_bytes()))
        }
        "i.fmt" => {
            let (kind, key, w) = fmt_spec(a[0]);
            let x = arg_i(a[1]);
            ok(res_t(do_fmt!(key.as_str(), kind.as_str(), w, x).as_bytes()))
        }
        "u.rt_str" => {
            let x = arg_u(a[0]);
            match BigUint::from_str_radix(&x.to_str_radix(radix(a[1])), radix(a[1])) {
                Ok(r) => ok(res_u(&r)),
                Err(e) => perr(e),
            }
        }
        "i.rt_str" => {
            let x = arg_i(a[0]);
            match BigInt::from_str_radix(&x.to_str_radix(radix(a[1])), radix(a[1])) {
                Ok(r) => ok(res_i(&r)),
                Err(e) => perr(e),
            }
        }
        "u.rt_radix_le" => opt(BigUint::from_radix_le(&arg_u(a[0]).to_radix_le(radix(a[1])), radix(a[1])), |r| ok(res_u(r))),
        "u.rt_radix_be" => opt(BigUint::from_radix_be(&arg_u(a[0]).to_radix_be(radix(a[1])), radix(a[1])), |r| ok(res_u(r))),
        #[cfg(num_bigint_verif)]
        "h.to_radix_digits_le" => ok(res_b(&num_bigint::verif::convert::to_radix_digits_le(&arg_u(a[0]), radix(a[1])))),
        #[cfg(num_bigint_verif)]
        "h.from_radix_digits_be" => ok(res_u(&num_bigint::verif::convert::from_radix_digits_be(&arg_b(a[0]), radix(a[1])))),
        #[cfg(num_bigint_verif)]
        "h.get_radix_base" => {
            let (b, p) = num_bigint::verif::convert::get_radix_base(radix(a[0]));
            ok2(res_n(b), res_n(p))
        }
        _ => return None,
    })
}
