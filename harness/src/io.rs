//! Wire format shared with the OCaml driver (docs/PROTOCOL.md).
use num_bigint::{BigInt, BigUint, Sign};

// ---- raw digit access: through the verification hooks when available ----
#[cfg(num_bigint_verif)]
pub fn raw_digits(x: &BigUint) -> Vec<u64> {
    num_bigint::verif::data(x).to_vec()
}
#[cfg(not(num_bigint_verif))]
pub fn raw_digits(x: &BigUint) -> Vec<u64> {
    x.to_u64_digits()
}
#[cfg(num_bigint_verif)]
pub fn mk_biguint(d: Vec<u64>) -> BigUint {
    num_bigint::verif::biguint_from_vec(d)
}
#[cfg(not(num_bigint_verif))]
pub fn mk_biguint(d: Vec<u64>) -> BigUint {
    let mut w = Vec::with_capacity(d.len() * 2);
    for x in d {
        w.push(x as u32);
        w.push((x >> 32) as u32);
    }
    BigUint::new(w)
}

#[cfg(num_bigint_verif)]
pub fn probes_reset() {
    num_bigint::verif_probe::reset();
}
#[cfg(not(num_bigint_verif))]
pub fn probes_reset() {}
#[cfg(num_bigint_verif)]
pub fn probes_suffix() -> String {
    let mut s = String::new();
    let mut first = true;
    for i in 0..num_bigint::verif_probe::NPROBES {
        let h = num_bigint::verif_probe::hits(i);
        if h > 0 {
            s += if first { "\tp:" } else { "," };
            first = false;
            s += &format!("{}={}", i, h);
        }
    }
    let w = num_bigint::verif_probe::work();
    if w > 0 {
        s += &format!("\tw:{}", w);
    }
    s
}
#[cfg(not(num_bigint_verif))]
pub fn probes_suffix() -> String {
    String::new()
}

// ---- parsing ----
pub fn strip<'a>(p: &str, s: &'a str) -> &'a str {
    s.strip_prefix(p).unwrap_or_else(|| panic!("expected prefix {} in {}", p, s))
}
pub fn digits(s: &str) -> Vec<u64> {
    if s.is_empty() {
        return vec![];
    }
    s.split(',').map(|h| u64::from_str_radix(h, 16).expect("hex digit")).collect()
}
/// `d:` raw digit slice
pub fn arg_d(s: &str) -> Vec<u64> {
    digits(strip("d:", s))
}
/// `u:` BigUint (normalised by the library's own internal constructor)
pub fn arg_u(s: &str) -> BigUint {
    mk_biguint(digits(strip("u:", s)))
}
/// `i:<sign>:<digits>` BigInt via from_biguint
pub fn arg_i(s: &str) -> BigInt {
    let r = strip("i:", s);
    let sign = match r.as_bytes()[0] {
        b'-' => Sign::Minus,
        b'0' => Sign::NoSign,
        b'+' => Sign::Plus,
        _ => panic!("bad sign"),
    };
    BigInt::from_biguint(sign, mk_biguint(digits(&r[2..])))
}
pub fn arg_n(s: &str) -> u64 {
    strip("n:", s).parse().expect("nat")
}
/// `s:<type>:<dec>` → (type, value as i128 or u128 text)
pub fn arg_s(s: &str) -> (&str, &str) {
    let r = strip("s:", s);
    let i = r.find(':').expect("scalar");
    (&r[..i], &r[i + 1..])
}
pub fn arg_b(s: &str) -> Vec<u8> {
    let h = strip("b:", s);
    (0..h.len() / 2).map(|i| u8::from_str_radix(&h[2 * i..2 * i + 2], 16).unwrap()).collect()
}
pub fn arg_t_bytes(s: &str) -> Vec<u8> {
    let h = strip("t:", s).as_bytes();
    let mut out = Vec::new();
    let mut i = 0;
    while i < h.len() {
        if h[i] == b'%' {
            out.push(u8::from_str_radix(std::str::from_utf8(&h[i + 1..i + 3]).unwrap(), 16).unwrap());
            i += 3;
        } else {
            out.push(h[i]);
            i += 1;
        }
    }
    out
}
pub fn arg_f(s: &str) -> f64 {
    f64::from_bits(u64::from_str_radix(strip("f:", s), 16).unwrap())
}
pub fn arg_g(s: &str) -> f32 {
    f32::from_bits(u32::from_str_radix(strip("g:", s), 16).unwrap())
}

// ---- printing ----
pub fn fmt_digits(d: &[u64]) -> String {
    d.iter().map(|x| format!("{:x}", x)).collect::<Vec<_>>().join(",")
}
pub fn res_d(d: &[u64]) -> String {
    format!("d:{}", fmt_digits(d))
}
pub fn res_u(x: &BigUint) -> String {
    format!("u:{}", fmt_digits(&raw_digits(x)))
}
pub fn res_i(x: &BigInt) -> String {
    let s = match x.sign() {
        Sign::Minus => '-',
        Sign::NoSign => '0',
        Sign::Plus => '+',
    };
    format!("i:{}:{}", s, fmt_digits(&raw_digits(x.magnitude())))
}
pub fn res_n<T: std::fmt::Display>(x: T) -> String {
    format!("n:{}", x)
}
pub fn res_s<T: std::fmt::Display>(ty: &str, x: T) -> String {
    format!("s:{}:{}", ty, x)
}
pub fn res_bool(b: bool) -> String {
    (if b { "n:1" } else { "n:0" }).to_string()
}
pub fn res_b(b: &[u8]) -> String {
    format!("b:{}", b.iter().map(|x| format!("{:02x}", x)).collect::<String>())
}
pub fn res_t(b: &[u8]) -> String {
    let mut s = String::from("t:");
    for &k in b {
        let c = k as char;
        if c.is_ascii_alphanumeric() || c == '-' || c == '_' || c == '.' || c == '+' {
            s.push(c);
        } else {
            s += &format!("%{:02x}", k);
        }
    }
    s
}
pub fn res_f(x: f64) -> String {
    format!("f:{:016x}", x.to_bits())
}
pub fn res_g(x: f32) -> String {
    format!("g:{:08x}", x.to_bits())
}
pub fn res_cmp(o: std::cmp::Ordering) -> String {
    match o {
        std::cmp::Ordering::Less => "o:lt",
        std::cmp::Ordering::Equal => "o:eq",
        std::cmp::Ordering::Greater => "o:gt",
    }
    .to_string()
}
pub fn res_sign(s: Sign) -> String {
    match s {
        Sign::Minus => "z:-1",
        Sign::NoSign => "z:0",
        Sign::Plus => "z:1",
    }
    .to_string()
}
pub fn ok(s: String) -> String {
    format!("ok {}", s)
}
pub fn ok2(a: String, b: String) -> String {
    format!("ok {} {}", a, b)
}
pub fn ok3(a: String, b: String, c: String) -> String {
    format!("ok {} {} {}", a, b, c)
}
pub fn opt<T>(o: Option<T>, f: impl Fn(&T) -> String) -> String {
    match o {
        None => "none".to_string(),
        Some(x) => f(&x),
    }
}
