//! C15 operations: borrowed operands stay untouched, emitted text is ASCII, exact-fit buffers.
use crate::io::*;
use num_bigint::BigUint;

fn exact(d: Vec<u64>) -> Vec<u64> {
    let mut v = Vec::with_capacity(d.len());
    v.extend_from_slice(&d);
    v
}

pub fn dispatch(op: &str, a: &[&str]) -> Option<String> {
    Some(match op {
        // &a op &b leaves both operands bit-for-bit unchanged (raw digits incl. length)
        "c15.preserve" => {
            let x = arg_u(a[1]);
            let y = arg_u(a[2]);
            let (x0, y0) = (raw_digits(&x), raw_digits(&y));
            let r = match a[0] {
                "n:0" => &x + &y,
                "n:1" => if x >= y { &x - &y } else { &y - &x },
                "n:2" => &x * &y,
                _ => if y.bits() == 0 { x.clone() } else { &x / &y },
            };
            let same = raw_digits(&x) == x0 && raw_digits(&y) == y0;
            std::hint::black_box(r);
            ok(res_bool(same))
        }
        // to_str_radix yields only [0-9a-z] (validated byte-wise, independently of `String`)
        "c15.ascii" => {
            let x = arg_u(a[0]);
            let radix = arg_n(a[1]) as u32;
            let s = x.to_str_radix(radix);
            let good = !s.is_empty()
                && s.as_bytes().iter().all(|&c| (b'0'..=b'9').contains(&c) || (b'a'..=b'z').contains(&c));
            let si = (-num_bigint::BigInt::from(x)).to_str_radix(radix);
            let goodi = si.as_bytes().iter().all(|&c| c == b'-' || (b'0'..=b'9').contains(&c) || (b'a'..=b'z').contains(&c));
            ok(res_bool(good && goodi))
        }
        // the asm loops on exact-fit buffers (the guard-page build faults on any overrun)
        #[cfg(num_bigint_verif)]
        "c15.exact_add" => {
            let (r, c) = num_bigint::verif::addition::add2c(exact(arg_d(a[0])), &exact(arg_d(a[1])));
            ok2(res_d(&r), res_n(c))
        }
        #[cfg(num_bigint_verif)]
        "c15.exact_sub" => ok(res_d(&num_bigint::verif::subtraction::sub2(exact(arg_d(a[0])), &exact(arg_d(a[1]))))),
        #[cfg(feature = "rand")]
        "c15.gen_biguint" => {
            use num_bigint::RandBigInt;
            struct Ones;
            impl rand::RngCore for Ones {
                fn next_u32(&mut self) -> u32 { u32::MAX }
                fn next_u64(&mut self) -> u64 { u64::MAX }
                fn fill_bytes(&mut self, d: &mut [u8]) { for b in d.iter_mut() { *b = 0xff; } }
                fn try_fill_bytes(&mut self, d: &mut [u8]) -> Result<(), rand::Error> { self.fill_bytes(d); Ok(()) }
            }
            let n = arg_n(a[0]);
            let x: BigUint = Ones.gen_biguint(n);
            // all-ones stream: the result must be exactly 2^n - 1
            ok(res_bool(x.bits() == n && x.count_ones() == n))
        }
        _ => return None,
    })
}
