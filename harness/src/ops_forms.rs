//! C10 — every overloaded operator form, compared IN-PROCESS with the reference-by-reference
//! BigUint/BigInt operation on the losslessly converted operands.
//!
//! A case `f.<op> <big> <operand>` runs every form of that operator for the operand types of the
//! case and answers `ok n:<number of forms that agreed>` or `err t:<first disagreeing form>`.
//! Form names are `<Trait>.<Self>.<Rhs>` with `r` marking a reference (`Add.rBigInt.ru8` is
//! `impl Add<&u8> for &BigInt`) — the same names tools/extractors/forms.py derives from the source.
//! `forms.list` prints the names of all forms this file instantiates.
//! Every form is called through its fully qualified trait path, so each row is one named impl
//! (a form that disappears from the crate makes this file fail to compile).
use crate::io::*;
use num_bigint::{BigInt, BigUint, Sign};
use num_integer::Integer;
use num_traits::{CheckedAdd, CheckedDiv, CheckedMul, CheckedSub, Pow, Zero};
use std::ops::*;
use std::panic::{catch_unwind, AssertUnwindSafe};

type Repr = (i8, Vec<u64>);
trait HasRepr {
    fn repr(&self) -> Repr;
}
impl HasRepr for BigUint {
    fn repr(&self) -> Repr {
        (1, raw_digits(self))
    }
}
impl HasRepr for BigInt {
    fn repr(&self) -> Repr {
        let s = match self.sign() {
            Sign::Minus => -1,
            Sign::NoSign => 0,
            Sign::Plus => 1,
        };
        (s, raw_digits(self.magnitude()))
    }
}
impl<T: HasRepr> HasRepr for Option<T> {
    fn repr(&self) -> Repr {
        match self {
            None => (9, vec![]),
            Some(x) => x.repr(),
        }
    }
}

pub struct St {
    agreed: u64,
    bad: Option<&'static str>,
    names: Vec<&'static str>,
}
impl St {
    fn new() -> St {
        St { agreed: 0, bad: None, names: Vec::new() }
    }
    fn chk<R: HasRepr>(&mut self, name: &'static str, exp: &Result<R, ()>, f: impl FnOnce() -> R) {
        self.names.push(name);
        let got = catch_unwind(AssertUnwindSafe(f)).map_err(|_| ());
        let same = match (&got, exp) {
            (Ok(a), Ok(b)) => a.repr() == b.repr(),
            (Err(_), Err(_)) => true,
            _ => false,
        };
        if same {
            self.agreed += 1;
        } else if self.bad.is_none() {
            self.bad = Some(name);
        }
    }
    fn result(&self) -> String {
        match self.bad {
            None => ok(res_n(self.agreed)),
            Some(n) => format!("err t:{}", n),
        }
    }
}
fn reference<R>(f: impl FnOnce() -> R) -> Result<R, ()> {
    catch_unwind(AssertUnwindSafe(f)).map_err(|_| ())
}

macro_rules! nm {
    ($tr:ident, $($l:tt)+) => { concat!(stringify!($tr), ".", $($l)+) };
}

// ---- big (op) scalar, scalar (op) big, big (op)= scalar ------------------------------------------
macro_rules! arith_scalar {
    ($st:expr, $F:ident, $T:ident, $Tr:ident, $m:ident, $TrA:ident, $ma:ident, $a:expr, $s:expr) => {{
        let a: &$F = $a;
        let s: $T = $s;
        let sb: $F = <$F>::from(s);
        let e1 = reference(|| <&$F as $Tr<&$F>>::$m(a, &sb));
        let e2 = reference(|| <&$F as $Tr<&$F>>::$m(&sb, a));
        $st.chk(nm!($Tr, stringify!($F), ".", stringify!($T)), &e1, || <$F as $Tr<$T>>::$m(a.clone(), s));
        $st.chk(nm!($Tr, stringify!($F), ".r", stringify!($T)), &e1, || <$F as $Tr<&$T>>::$m(a.clone(), &s));
        $st.chk(nm!($Tr, "r", stringify!($F), ".", stringify!($T)), &e1, || <&$F as $Tr<$T>>::$m(a, s));
        $st.chk(nm!($Tr, "r", stringify!($F), ".r", stringify!($T)), &e1, || <&$F as $Tr<&$T>>::$m(a, &s));
        $st.chk(nm!($Tr, stringify!($T), ".", stringify!($F)), &e2, || <$T as $Tr<$F>>::$m(s, a.clone()));
        $st.chk(nm!($Tr, stringify!($T), ".r", stringify!($F)), &e2, || <$T as $Tr<&$F>>::$m(s, a));
        $st.chk(nm!($Tr, "r", stringify!($T), ".", stringify!($F)), &e2, || <&$T as $Tr<$F>>::$m(&s, a.clone()));
        $st.chk(nm!($Tr, "r", stringify!($T), ".r", stringify!($F)), &e2, || <&$T as $Tr<&$F>>::$m(&s, a));
        $st.chk(nm!($TrA, stringify!($F), ".", stringify!($T)), &e1, || {
            let mut t = a.clone();
            <$F as $TrA<$T>>::$ma(&mut t, s);
            t
        });
    }};
}
macro_rules! arith_ops {
    ($T:ident, $s:ident, $st:expr, $F:ident, $a:expr, $op:expr) => {
        match $op {
            "add" => arith_scalar!($st, $F, $T, Add, add, AddAssign, add_assign, $a, $s),
            "sub" => arith_scalar!($st, $F, $T, Sub, sub, SubAssign, sub_assign, $a, $s),
            "mul" => arith_scalar!($st, $F, $T, Mul, mul, MulAssign, mul_assign, $a, $s),
            "div" => arith_scalar!($st, $F, $T, Div, div, DivAssign, div_assign, $a, $s),
            "rem" => arith_scalar!($st, $F, $T, Rem, rem, RemAssign, rem_assign, $a, $s),
            _ => panic!("op"),
        }
    };
}
// scalar %= BigUint, scalar %= &BigUint  (the result is a primitive; compared as BigInt with
// &BigInt::from(scalar) % &BigInt::from(big))
macro_rules! rem_assign_scalar {
    ($T:ident, $s:ident, $st:expr, $a:expr) => {{
        let a: &BigUint = $a;
        let e = reference(|| <&BigInt as Rem<&BigInt>>::rem(&BigInt::from($s), &BigInt::from(a.clone())));
        $st.chk(nm!(RemAssign, stringify!($T), ".BigUint"), &e, || {
            let mut t: $T = $s;
            <$T as RemAssign<BigUint>>::rem_assign(&mut t, a.clone());
            BigInt::from(t)
        });
        $st.chk(nm!(RemAssign, stringify!($T), ".rBigUint"), &e, || {
            let mut t: $T = $s;
            <$T as RemAssign<&BigUint>>::rem_assign(&mut t, a);
            BigInt::from(t)
        });
    }};
}

macro_rules! dispatch_unsigned {
    ($ty:expr, $v:expr, $mac:ident, $($args:tt)*) => {
        match $ty {
            "u8" => { let s: u8 = $v.parse().unwrap(); $mac!(u8, s, $($args)*) }
            "u16" => { let s: u16 = $v.parse().unwrap(); $mac!(u16, s, $($args)*) }
            "u32" => { let s: u32 = $v.parse().unwrap(); $mac!(u32, s, $($args)*) }
            "u64" => { let s: u64 = $v.parse().unwrap(); $mac!(u64, s, $($args)*) }
            "u128" => { let s: u128 = $v.parse().unwrap(); $mac!(u128, s, $($args)*) }
            "usize" => { let s: usize = $v.parse().unwrap(); $mac!(usize, s, $($args)*) }
            _ => {}
        }
    };
}
macro_rules! dispatch_signed {
    ($ty:expr, $v:expr, $mac:ident, $($args:tt)*) => {
        match $ty {
            "i8" => { let s: i8 = $v.parse().unwrap(); $mac!(i8, s, $($args)*) }
            "i16" => { let s: i16 = $v.parse().unwrap(); $mac!(i16, s, $($args)*) }
            "i32" => { let s: i32 = $v.parse().unwrap(); $mac!(i32, s, $($args)*) }
            "i64" => { let s: i64 = $v.parse().unwrap(); $mac!(i64, s, $($args)*) }
            "i128" => { let s: i128 = $v.parse().unwrap(); $mac!(i128, s, $($args)*) }
            "isize" => { let s: isize = $v.parse().unwrap(); $mac!(isize, s, $($args)*) }
            _ => {}
        }
    };
}

fn arith_u(st: &mut St, op: &str, a: &BigUint, ty: &str, v: &str) {
    dispatch_unsigned!(ty, v, arith_ops, st, BigUint, a, op);
    if op == "rem" {
        dispatch_unsigned!(ty, v, rem_assign_scalar, st, a);
        dispatch_signed!(ty, v, rem_assign_scalar, st, a);
    }
}
fn arith_i(st: &mut St, op: &str, a: &BigInt, ty: &str, v: &str) {
    dispatch_unsigned!(ty, v, arith_ops, st, BigInt, a, op);
    dispatch_signed!(ty, v, arith_ops, st, BigInt, a, op);
}

// ---- big (op) big ------------------------------------------------------------------------------
macro_rules! bigbig {
    ($st:expr, $F:ident, $Tr:ident, $m:ident, $TrA:ident, $ma:ident, $a:expr, $b:expr) => {{
        let a: &$F = $a;
        let b: &$F = $b;
        let e = reference(|| <&$F as $Tr<&$F>>::$m(a, b));
        $st.chk(nm!($Tr, stringify!($F), ".", stringify!($F)), &e, || <$F as $Tr<$F>>::$m(a.clone(), b.clone()));
        $st.chk(nm!($Tr, stringify!($F), ".r", stringify!($F)), &e, || <$F as $Tr<&$F>>::$m(a.clone(), b));
        $st.chk(nm!($Tr, "r", stringify!($F), ".", stringify!($F)), &e, || <&$F as $Tr<$F>>::$m(a, b.clone()));
        $st.chk(nm!($Tr, "r", stringify!($F), ".r", stringify!($F)), &e, || <&$F as $Tr<&$F>>::$m(a, b));
        $st.chk(nm!($TrA, stringify!($F), ".", stringify!($F)), &e, || {
            let mut t = a.clone();
            <$F as $TrA<$F>>::$ma(&mut t, b.clone());
            t
        });
        $st.chk(nm!($TrA, stringify!($F), ".r", stringify!($F)), &e, || {
            let mut t = a.clone();
            <$F as $TrA<&$F>>::$ma(&mut t, b);
            t
        });
        // the same with spare capacity on either side (the `_commutative` forwarders pick the
        // operand to reuse by capacity)
        $st.chk(nm!($Tr, stringify!($F), ".", stringify!($F)), &e, || {
            let mut x = a.clone();
            x <<= 640u32;
            x >>= 640u32;
            <$F as $Tr<$F>>::$m(x, b.clone())
        });
        $st.chk(nm!($Tr, stringify!($F), ".", stringify!($F)), &e, || {
            let mut y = b.clone();
            y <<= 640u32;
            y >>= 640u32;
            <$F as $Tr<$F>>::$m(a.clone(), y)
        });
    }};
}
macro_rules! bigbig_ops {
    ($st:expr, $F:ident, $a:expr, $b:expr, $op:expr) => {
        match $op {
            "add" => bigbig!($st, $F, Add, add, AddAssign, add_assign, $a, $b),
            "sub" => bigbig!($st, $F, Sub, sub, SubAssign, sub_assign, $a, $b),
            "mul" => bigbig!($st, $F, Mul, mul, MulAssign, mul_assign, $a, $b),
            "div" => bigbig!($st, $F, Div, div, DivAssign, div_assign, $a, $b),
            "rem" => bigbig!($st, $F, Rem, rem, RemAssign, rem_assign, $a, $b),
            "and" => bigbig!($st, $F, BitAnd, bitand, BitAndAssign, bitand_assign, $a, $b),
            "or" => bigbig!($st, $F, BitOr, bitor, BitOrAssign, bitor_assign, $a, $b),
            "xor" => bigbig!($st, $F, BitXor, bitxor, BitXorAssign, bitxor_assign, $a, $b),
            _ => panic!("op"),
        }
    };
}

// ---- shifts ----------------------------------------------------------------------------------------
// reference: multiplication / floor division by 2^k through the ref-ref `*`, `/` (div_floor for
// BigInt), with 2^k built from its digits; a negative count must panic.
fn pow2(k: u128) -> BigUint {
    let k = k as usize;
    let mut v = vec![0u32; k / 32];
    v.push(1u32 << (k % 32));
    BigUint::new(v)
}
const HUGE: u128 = 1 << 24;
fn shl_ref_u(a: &BigUint, k: Option<u128>) -> Result<BigUint, ()> {
    match k {
        None => Err(()),
        Some(_) if a.is_zero() => Ok(BigUint::zero()),
        Some(k) if k >= HUGE => panic!("generator: shift too large"),
        Some(k) => Ok(a * &pow2(k)),
    }
}
fn shr_ref_u(a: &BigUint, k: Option<u128>) -> Result<BigUint, ()> {
    match k {
        None => Err(()),
        Some(k) if k >= a.bits() as u128 => Ok(BigUint::zero()),
        Some(k) => Ok(a / &pow2(k)),
    }
}
fn shl_ref_i(a: &BigInt, k: Option<u128>) -> Result<BigInt, ()> {
    match k {
        None => Err(()),
        Some(_) if a.is_zero() => Ok(BigInt::zero()),
        Some(k) if k >= HUGE => panic!("generator: shift too large"),
        Some(k) => Ok(a * &BigInt::from(pow2(k))),
    }
}
fn shr_ref_i(a: &BigInt, k: Option<u128>) -> Result<BigInt, ()> {
    match k {
        None => Err(()),
        Some(k) if k >= a.bits() as u128 => Ok(if a.sign() == Sign::Minus { BigInt::from(-1) } else { BigInt::zero() }),
        Some(k) => Ok(a.div_floor(&BigInt::from(pow2(k)))),
    }
}
macro_rules! shift_forms {
    ($st:expr, $F:ident, $T:ident, $Tr:ident, $m:ident, $TrA:ident, $ma:ident, $a:expr, $s:expr, $e:expr) => {{
        let a: &$F = $a;
        let s: $T = $s;
        let e: Result<$F, ()> = $e;
        $st.chk(nm!($Tr, stringify!($F), ".", stringify!($T)), &e, || <$F as $Tr<$T>>::$m(a.clone(), s));
        $st.chk(nm!($Tr, stringify!($F), ".r", stringify!($T)), &e, || <$F as $Tr<&$T>>::$m(a.clone(), &s));
        $st.chk(nm!($Tr, "r", stringify!($F), ".", stringify!($T)), &e, || <&$F as $Tr<$T>>::$m(a, s));
        $st.chk(nm!($Tr, "r", stringify!($F), ".r", stringify!($T)), &e, || <&$F as $Tr<&$T>>::$m(a, &s));
        $st.chk(nm!($TrA, stringify!($F), ".", stringify!($T)), &e, || {
            let mut t = a.clone();
            <$F as $TrA<$T>>::$ma(&mut t, s);
            t
        });
        $st.chk(nm!($TrA, stringify!($F), ".r", stringify!($T)), &e, || {
            let mut t = a.clone();
            <$F as $TrA<&$T>>::$ma(&mut t, &s);
            t
        });
    }};
}
macro_rules! shift_u {
    ($T:ident, $s:ident, $st:expr, $a:expr, $left:expr) => {{
        #[allow(unused_comparisons)]
        let k: Option<u128> = if $s < 0 { None } else { Some($s as u128) };
        if $left {
            shift_forms!($st, BigUint, $T, Shl, shl, ShlAssign, shl_assign, $a, $s, shl_ref_u($a, k))
        } else {
            shift_forms!($st, BigUint, $T, Shr, shr, ShrAssign, shr_assign, $a, $s, shr_ref_u($a, k))
        }
    }};
}
macro_rules! shift_i {
    ($T:ident, $s:ident, $st:expr, $a:expr, $left:expr) => {{
        #[allow(unused_comparisons)]
        let k: Option<u128> = if $s < 0 { None } else { Some($s as u128) };
        if $left {
            shift_forms!($st, BigInt, $T, Shl, shl, ShlAssign, shl_assign, $a, $s, shl_ref_i($a, k))
        } else {
            shift_forms!($st, BigInt, $T, Shr, shr, ShrAssign, shr_assign, $a, $s, shr_ref_i($a, k))
        }
    }};
}
fn shifts_u(st: &mut St, left: bool, a: &BigUint, ty: &str, v: &str) {
    dispatch_unsigned!(ty, v, shift_u, st, a, left);
    dispatch_signed!(ty, v, shift_u, st, a, left);
}
fn shifts_i(st: &mut St, left: bool, a: &BigInt, ty: &str, v: &str) {
    dispatch_unsigned!(ty, v, shift_i, st, a, left);
    dispatch_signed!(ty, v, shift_i, st, a, left);
}

// ---- pow -------------------------------------------------------------------------------------------
macro_rules! pow_forms {
    ($T:ident, $s:ident, $st:expr, $F:ident, $a:expr) => {{
        let a: &$F = $a;
        let eb = BigUint::from($s.clone());
        let e = reference(|| <&$F as Pow<&BigUint>>::pow(a, &eb));
        $st.chk(nm!(Pow, stringify!($F), ".", stringify!($T)), &e, || <$F as Pow<$T>>::pow(a.clone(), $s.clone()));
        $st.chk(nm!(Pow, stringify!($F), ".r", stringify!($T)), &e, || <$F as Pow<&$T>>::pow(a.clone(), &$s));
        $st.chk(nm!(Pow, "r", stringify!($F), ".", stringify!($T)), &e, || <&$F as Pow<$T>>::pow(a, $s.clone()));
        $st.chk(nm!(Pow, "r", stringify!($F), ".r", stringify!($T)), &e, || <&$F as Pow<&$T>>::pow(a, &$s));
    }};
}
fn pow_u(st: &mut St, a: &BigUint, ty: &str, v: &str) {
    dispatch_unsigned!(ty, v, pow_forms, st, BigUint, a);
}
fn pow_i(st: &mut St, a: &BigInt, ty: &str, v: &str) {
    dispatch_unsigned!(ty, v, pow_forms, st, BigInt, a);
}

// ---- checked_* -------------------------------------------------------------------------------------
macro_rules! checked_forms {
    ($st:expr, $F:ident, $a:expr, $b:expr) => {{
        let a: &$F = $a;
        let b: &$F = $b;
        let some = |r: Result<$F, ()>| -> Result<Option<$F>, ()> { Ok(r.ok()) };
        $st.chk(nm!(CheckedAdd, stringify!($F), ".-"), &some(reference(|| a + b)), || <$F as CheckedAdd>::checked_add(a, b));
        $st.chk(nm!(CheckedSub, stringify!($F), ".-"), &some(reference(|| a - b)), || <$F as CheckedSub>::checked_sub(a, b));
        $st.chk(nm!(CheckedMul, stringify!($F), ".-"), &some(reference(|| a * b)), || <$F as CheckedMul>::checked_mul(a, b));
        $st.chk(nm!(CheckedDiv, stringify!($F), ".-"), &some(reference(|| a / b)), || <$F as CheckedDiv>::checked_div(a, b));
    }};
}

// ---- Sum / Product ---------------------------------------------------------------------------------
macro_rules! fold_forms {
    ($st:expr, $F:ident, $xs:expr, $small:ty, $sum:expr) => {{
        let xs: &Vec<$F> = $xs;
        // scalar items: low 64 / 8 bits of each magnitude
        let lows: Vec<u64> = xs.iter().map(|x| x.iter_u64_digits().next().unwrap_or(0)).collect();
        let smalls: Vec<$small> = lows.iter().map(|x| *x as $small).collect();
        if $sum {
            let e = reference(|| xs.iter().fold(<$F>::zero(), |acc, x| &acc + x));
            let e64 = reference(|| lows.iter().fold(<$F>::zero(), |acc, x| &acc + &<$F>::from(*x)));
            let e8 = reference(|| smalls.iter().fold(<$F>::zero(), |acc, x| &acc + &<$F>::from(*x)));
            let got = reference(|| {
                let r: [$F; 2] = [xs.iter().cloned().sum::<$F>(), xs.iter().sum::<$F>()];
                let r64: [$F; 2] = [lows.iter().cloned().sum::<$F>(), lows.iter().sum::<$F>()];
                let r8: [$F; 2] = [smalls.iter().cloned().sum::<$F>(), smalls.iter().sum::<$F>()];
                (r, r64, r8)
            });
            let good = match (&got, &e, &e64, &e8) {
                (Ok((r, r64, r8)), Ok(e), Ok(e64), Ok(e8)) => {
                    r.iter().all(|x| x.repr() == e.repr()) && r64.iter().all(|x| x.repr() == e64.repr()) && r8.iter().all(|x| x.repr() == e8.repr())
                }
                _ => false,
            };
            $st.chk(nm!(Sum, stringify!($F), ".T"), &Ok(<$F>::zero()), || if good { <$F>::zero() } else { <$F>::from(1u8) });
        } else {
            let one = <$F>::from(1u8);
            let e = reference(|| xs.iter().fold(one.clone(), |acc, x| &acc * x));
            let e64 = reference(|| lows.iter().fold(one.clone(), |acc, x| &acc * &<$F>::from(*x)));
            let e8 = reference(|| smalls.iter().fold(one.clone(), |acc, x| &acc * &<$F>::from(*x)));
            let got = reference(|| {
                let r: [$F; 2] = [xs.iter().cloned().product::<$F>(), xs.iter().product::<$F>()];
                let r64: [$F; 2] = [lows.iter().cloned().product::<$F>(), lows.iter().product::<$F>()];
                let r8: [$F; 2] = [smalls.iter().cloned().product::<$F>(), smalls.iter().product::<$F>()];
                (r, r64, r8)
            });
            let good = match (&got, &e, &e64, &e8) {
                (Ok((r, r64, r8)), Ok(e), Ok(e64), Ok(e8)) => {
                    r.iter().all(|x| x.repr() == e.repr()) && r64.iter().all(|x| x.repr() == e64.repr()) && r8.iter().all(|x| x.repr() == e8.repr())
                }
                _ => false,
            };
            $st.chk(nm!(Product, stringify!($F), ".T"), &Ok(<$F>::zero()), || if good { <$F>::zero() } else { <$F>::from(1u8) });
        }
    }};
}

const UTYPES: [&str; 6] = ["u8", "u16", "u32", "u64", "u128", "usize"];
const ITYPES: [&str; 6] = ["i8", "i16", "i32", "i64", "i128", "isize"];

fn list_all() -> Vec<&'static str> {
    let mut st = St::new();
    let a = BigUint::from(6u8);
    let b = BigUint::from(4u8);
    let ia = BigInt::from(-6i8);
    let ib = BigInt::from(4u8);
    for op in ["add", "sub", "mul", "div", "rem"] {
        for ty in UTYPES.iter().chain(ITYPES.iter()) {
            arith_u(&mut st, op, &a, ty, "3");
            arith_i(&mut st, op, &ia, ty, "3");
        }
    }
    for op in ["add", "sub", "mul", "div", "rem", "and", "or", "xor"] {
        bigbig_ops!(st, BigUint, &a, &b, op);
        bigbig_ops!(st, BigInt, &ia, &ib, op);
    }
    for left in [true, false] {
        for ty in UTYPES.iter().chain(ITYPES.iter()) {
            shifts_u(&mut st, left, &a, ty, "1");
            shifts_i(&mut st, left, &ia, ty, "1");
        }
    }
    for ty in UTYPES.iter() {
        pow_u(&mut st, &a, ty, "2");
        pow_i(&mut st, &ia, ty, "2");
    }
    {
        let e = BigUint::from(2u8);
        pow_forms!(BigUint, e, st, BigUint, &a);
        pow_forms!(BigUint, e, st, BigInt, &ia);
    }
    checked_forms!(st, BigUint, &a, &b);
    checked_forms!(st, BigInt, &ia, &ib);
    let xs = vec![a.clone(), b.clone()];
    let ixs = vec![ia.clone(), ib.clone()];
    fold_forms!(st, BigUint, &xs, u8, true);
    fold_forms!(st, BigUint, &xs, u8, false);
    fold_forms!(st, BigInt, &ixs, i8, true);
    fold_forms!(st, BigInt, &ixs, i8, false);
    assert!(st.bad.is_none(), "forms.list: {} disagrees on benign operands", st.bad.unwrap());
    let mut n = st.names;
    n.sort();
    n.dedup();
    n
}

pub fn dispatch(op: &str, a: &[&str]) -> Option<String> {
    if op == "forms.list" {
        return Some(format!("ok t:{}", list_all().join("+")));
    }
    let o = op.strip_prefix("f.")?;
    let mut st = St::new();
    let is_u = a[0].starts_with("u:");
    match o {
        "add" | "sub" | "mul" | "div" | "rem" | "and" | "or" | "xor" if a[1].starts_with("u:") || a[1].starts_with("i:") => {
            if is_u {
                let (x, y) = (arg_u(a[0]), arg_u(a[1]));
                bigbig_ops!(st, BigUint, &x, &y, o);
            } else {
                let (x, y) = (arg_i(a[0]), arg_i(a[1]));
                bigbig_ops!(st, BigInt, &x, &y, o);
            }
        }
        "add" | "sub" | "mul" | "div" | "rem" => {
            let (ty, v) = arg_s(a[1]);
            if is_u {
                arith_u(&mut st, o, &arg_u(a[0]), ty, v);
            } else {
                arith_i(&mut st, o, &arg_i(a[0]), ty, v);
            }
        }
        "shl" | "shr" => {
            let (ty, v) = arg_s(a[1]);
            if is_u {
                shifts_u(&mut st, o == "shl", &arg_u(a[0]), ty, v);
            } else {
                shifts_i(&mut st, o == "shl", &arg_i(a[0]), ty, v);
            }
        }
        "pow" => {
            if a[1].starts_with("u:") {
                let e = arg_u(a[1]);
                if is_u {
                    pow_forms!(BigUint, e, st, BigUint, &arg_u(a[0]));
                } else {
                    pow_forms!(BigUint, e, st, BigInt, &arg_i(a[0]));
                }
            } else {
                let (ty, v) = arg_s(a[1]);
                if is_u {
                    pow_u(&mut st, &arg_u(a[0]), ty, v);
                } else {
                    pow_i(&mut st, &arg_i(a[0]), ty, v);
                }
            }
        }
        "checked" => {
            if is_u {
                checked_forms!(st, BigUint, &arg_u(a[0]), &arg_u(a[1]));
            } else {
                checked_forms!(st, BigInt, &arg_i(a[0]), &arg_i(a[1]));
            }
        }
        "sum" | "product" => {
            if is_u {
                let xs: Vec<BigUint> = a.iter().map(|s| arg_u(s)).collect();
                fold_forms!(st, BigUint, &xs, u8, o == "sum");
            } else {
                let xs: Vec<BigInt> = a.iter().map(|s| arg_i(s)).collect();
                fold_forms!(st, BigInt, &xs, i8, o == "sum");
            }
        }
        _ => return None,
    }
    // forms exercised twice (capacity variants) count once
    let mut names = st.names.clone();
    names.sort();
    names.dedup();
    if st.bad.is_none() {
        st.agreed = names.len() as u64;
    }
    Some(st.result())
}
