//! bn-harness — runs the real num-bigint on a case file, one canonical result per line.
//! usage: bn-harness <cases> <out>
//! Output: "<id>\tI\t<result>[\tp:<probe hits>][\tw:<work>]"
#![allow(clippy::all)]
#![allow(unexpected_cfgs)]
pub mod io;
#[cfg(feature = "guard")]
mod guard_alloc;
include!(concat!(env!("OUT_DIR"), "/ops_all.rs"));

use std::io::{BufRead, BufWriter, Write};
use std::panic;
use std::sync::atomic::{AtomicU64, Ordering};
use std::time::{Duration, Instant};

/// Milliseconds (since process start) at which the current case began; 0 = idle.
static CASE_START_MS: AtomicU64 = AtomicU64::new(0);

/// Per-case watchdog: a case that runs longer than BN_CASE_TIMEOUT seconds (default 25) ends the
/// process with status 97; the orchestrator records `hang` for the announced case and restarts the
/// worker on the rest of its shard.
fn start_watchdog(t0: Instant) {
    let limit_ms: u64 = std::env::var("BN_CASE_TIMEOUT").ok().and_then(|s| s.parse::<u64>().ok()).unwrap_or(25) * 1000;
    std::thread::spawn(move || loop {
        std::thread::sleep(Duration::from_millis(200));
        let st = CASE_START_MS.load(Ordering::Relaxed);
        if st != 0 {
            let now = t0.elapsed().as_millis() as u64;
            if now > st + limit_ms {
                std::process::exit(97);
            }
        }
    });
}

fn main() {
    let args: Vec<String> = std::env::args().collect();
    let cases = std::fs::File::open(&args[1]).expect("cases");
    let mut out = BufWriter::new(std::fs::File::create(&args[2]).expect("out"));
    panic::set_hook(Box::new(|_| {}));
    let t0 = Instant::now();
    start_watchdog(t0);
    for line in std::io::BufReader::new(cases).lines() {
        let line = line.unwrap();
        if line.is_empty() || line.starts_with('#') {
            continue;
        }
        let toks: Vec<&str> = line.split(' ').collect();
        if toks.len() < 2 {
            continue;
        }
        let (id, op, a) = (toks[0], toks[1], &toks[2..]);
        // announce the case first so that a crash (SIGSEGV/SIGFPE/abort) is attributable
        writeln!(out, "{}\tB", id).unwrap();
        out.flush().unwrap();
        io::probes_reset();
        CASE_START_MS.store(t0.elapsed().as_millis() as u64 + 1, Ordering::Relaxed);
        let a_owned: Vec<String> = a.iter().map(|s| s.to_string()).collect();
        let op_owned = op.to_string();
        let r = panic::catch_unwind(move || {
            let refs: Vec<&str> = a_owned.iter().map(|s| s.as_str()).collect();
            dispatch(&op_owned, &refs)
        });
        CASE_START_MS.store(0, Ordering::Relaxed);
        let res = match r {
            Ok(Some(s)) => s,
            Ok(None) => "unsupported".to_string(),
            Err(_) => "panic".to_string(),
        };
        writeln!(out, "{}\tI\t{}{}", id, res, io::probes_suffix()).unwrap();
    }
    out.flush().unwrap();
}
