//! bn-harness — runs the real num-bigint on a case file, one canonical result per line.
//! usage: bn-harness <cases> <out>
//! Output: "<id>\tI\t<result>[\tp:<probe hits>][\tw:<work>]"
#![allow(clippy::all)]
#![allow(unexpected_cfgs)]
pub mod io;
#[cfg(feature = "guard")]
mod guard_alloc;
include!(concat!(env!("OUT_DIR"), "/ops_all.rs"));

use std::io::{BufRead, BufWriter, Write};
use std::panic;

fn main() {
    let args: Vec<String> = std::env::args().collect();
    let cases = std::fs::File::open(&args[1]).expect("cases");
    let mut out = BufWriter::new(std::fs::File::create(&args[2]).expect("out"));
    panic::set_hook(Box::new(|_| {}));
    for line in std::io::BufReader::new(cases).lines() {
        let line = line.unwrap();
        if line.is_empty() || line.starts_with('#') {
            continue;
        }
        let toks: Vec<&str> = line.split(' ').collect();
        if toks.len() < 2 {
            continue;
        }
        let (id, op, a) = (toks[0], toks[1], &toks[2..]);
        // announce the case first so that a crash (SIGSEGV/SIGFPE/abort) is attributable
        writeln!(out, "{}\tB", id).unwrap();
        out.flush().unwrap();
        io::probes_reset();
        let a_owned: Vec<String> = a.iter().map(|s| s.to_string()).collect();
        let op_owned = op.to_string();
        let r = panic::catch_unwind(move || {
            let refs: Vec<&str> = a_owned.iter().map(|s| s.as_str()).collect();
            dispatch(&op_owned, &refs)
        });
        let res = match r {
            Ok(Some(s)) => s,
            Ok(None) => "unsupported".to_string(),
            Err(_) => "panic".to_string(),
        };
        writeln!(out, "{}\tI\t{}{}", id, res, io::probes_suffix()).unwrap();
    }
    out.flush().unwrap();
}
