//! C04 — histories of in-place mutations on ONE object of the real crate (grammar: see
//! ocaml/ops_hist.ml).  After the constructor and after every operation the raw digit vector
//! (through the hook `verif::data`, so a missing `normalize()` shows as a high zero digit) and,
//! for BigInt, the sign are printed; a panic ends the history with `panic` as last observation.
use crate::io::*;
use num_bigint::{BigInt, BigUint, Sign};
use num_integer::Integer;
use num_integer::Roots;
use num_traits::{Euclid, One, Pow, Signed, Zero};
use std::collections::hash_map::DefaultHasher;
use std::hash::{Hash, Hasher};
use std::panic::{catch_unwind, AssertUnwindSafe};

pub fn cut(s: &str) -> (&str, &str) {
    match s.find(':') {
        Some(i) => (&s[..i], &s[i + 1..]),
        None => (s, ""),
    }
}
pub fn sign_of(s: &str) -> Sign {
    match s {
        "-" => Sign::Minus,
        "0" => Sign::NoSign,
        "+" => Sign::Plus,
        _ => panic!("bad sign"),
    }
}
pub fn words(s: &str) -> Vec<u32> {
    digits(s).into_iter().map(|x| u32::try_from(x).expect("u32 word")).collect()
}
pub fn hexbytes(h: &str) -> Vec<u8> {
    (0..h.len() / 2).map(|i| u8::from_str_radix(&h[2 * i..2 * i + 2], 16).unwrap()).collect()
}

// ---- serde: replay a token sequence into the crate's Deserialize impls ----
#[cfg(feature = "serde")]
mod sd {
    use serde::de::value::{Error, SeqDeserializer};
    use serde::de::{Deserializer, IntoDeserializer, Visitor};
    pub enum Item {
        S(i8),
        W(Vec<u32>),
    }
    pub struct ItemDe(Item);
    impl<'de> IntoDeserializer<'de, Error> for Item {
        type Deserializer = ItemDe;
        fn into_deserializer(self) -> ItemDe {
            ItemDe(self)
        }
    }
    impl<'de> Deserializer<'de> for ItemDe {
        type Error = Error;
        fn deserialize_any<V: Visitor<'de>>(self, v: V) -> Result<V::Value, Error> {
            match self.0 {
                Item::S(s) => v.visit_i8(s),
                Item::W(w) => SeqDeserializer::new(w.into_iter()).deserialize_any(v),
            }
        }
        serde::forward_to_deserialize_any! {
            bool i8 i16 i32 i64 i128 u8 u16 u32 u64 u128 f32 f64 char str string bytes byte_buf
            option unit unit_struct newtype_struct seq tuple tuple_struct map struct enum
            identifier ignored_any
        }
    }
    pub fn biguint(w: Vec<u32>) -> num_bigint::BigUint {
        serde::Deserialize::deserialize(SeqDeserializer::<_, Error>::new(w.into_iter())).expect("de")
    }
    pub fn bigint(s: i8, w: Vec<u32>) -> num_bigint::BigInt {
        let items = vec![Item::S(s), Item::W(w)];
        serde::Deserialize::deserialize(SeqDeserializer::<_, Error>::new(items.into_iter())).expect("de")
    }
}

pub fn ctor_u(s: &str) -> BigUint {
    let (name, rest) = cut(s);
    match name {
        "vec" => mk_biguint(digits(rest)),
        "new" => BigUint::new(words(rest)),
        "slice" => BigUint::from_slice(&words(rest)),
        "le" => BigUint::from_bytes_le(&hexbytes(rest)),
        "be" => BigUint::from_bytes_be(&hexbytes(rest)),
        #[cfg(feature = "serde")]
        "serde" => sd::biguint(words(rest)),
        "radle" => {
            let (r, b) = cut(rest);
            BigUint::from_radix_le(&hexbytes(b), r.parse().unwrap()).expect("radix digits")
        }
        "radbe" => {
            let (r, b) = cut(rest);
            BigUint::from_radix_be(&hexbytes(b), r.parse().unwrap()).expect("radix digits")
        }
        _ => panic!("bad ctor"),
    }
}
pub fn ctor_i(s: &str) -> BigInt {
    let (name, rest) = cut(s);
    match name {
        "sle" => return BigInt::from_signed_bytes_le(&hexbytes(rest)),
        "sbe" => return BigInt::from_signed_bytes_be(&hexbytes(rest)),
        "fromu" => return BigInt::from(mk_biguint(digits(rest))),
        _ => {}
    }
    let (sg, body) = cut(rest);
    let sg = sign_of(sg);
    match name {
        "parts" => BigInt::from_biguint(sg, mk_biguint(digits(body))),
        "new" => BigInt::new(sg, words(body)),
        "slice" => BigInt::from_slice(sg, &words(body)),
        "le" => BigInt::from_bytes_le(sg, &hexbytes(body)),
        "be" => BigInt::from_bytes_be(sg, &hexbytes(body)),
        "radle" => {
            let (r, b) = cut(body);
            BigInt::from_radix_le(sg, &hexbytes(b), r.parse().unwrap()).expect("radix digits")
        }
        "radbe" => {
            let (r, b) = cut(body);
            BigInt::from_radix_be(sg, &hexbytes(b), r.parse().unwrap()).expect("radix digits")
        }
        #[cfg(feature = "serde")]
        "serde" => sd::bigint(
            match sg {
                Sign::Minus => -1,
                Sign::NoSign => 0,
                Sign::Plus => 1,
            },
            words(body),
        ),
        _ => panic!("bad ctor"),
    }
}

/// shift amounts go through several of the primitive types the operators are implemented for
macro_rules! shift {
    ($x:expr, $op:tt, $n:expr) => {{
        let n: i128 = $n.parse().unwrap();
        if n < 0 {
            *$x $op n as i64;
        } else if n % 3 == 0 {
            *$x $op n as usize;
        } else if n % 3 == 1 && n < (1 << 31) {
            *$x $op n as i32;
        } else {
            *$x $op n as u64;
        }
    }};
}

macro_rules! scalar {
    ($x:expr, $op:tt, $rest:expr) => {{
        let (w, v) = cut($rest);
        match w {
            "32" => *$x $op v.parse::<u32>().unwrap(),
            "64" => *$x $op v.parse::<u64>().unwrap(),
            "128" => *$x $op v.parse::<u128>().unwrap(),
            _ => panic!("bad width"),
        }
    }};
}

pub fn apply_u(x: &mut BigUint, op: &str) {
    let (name, rest) = cut(op);
    match name {
        "add" => *x += &arg_u(rest),
        "sub" => *x -= &arg_u(rest),
        "div" => *x /= &arg_u(rest),
        "rem" => *x %= &arg_u(rest),
        "and" => *x &= &arg_u(rest),
        "or" => *x |= &arg_u(rest),
        "xor" => *x ^= &arg_u(rest),
        "clone" => x.clone_from(&arg_u(rest)),
        "divfloor" => *x = Integer::div_floor(&*x, &arg_u(rest)),
        "modfloor" => *x = Integer::mod_floor(&*x, &arg_u(rest)),
        "diveuclid" => *x = Euclid::div_euclid(&*x, &arg_u(rest)),
        "remeuclid" => *x = Euclid::rem_euclid(&*x, &arg_u(rest)),
        "divceil" => *x = Integer::div_ceil(&*x, &arg_u(rest)),
        "shl" => shift!(x, <<=, rest),
        "shr" => shift!(x, >>=, rest),
        "setbit" => {
            let (i, v) = cut(rest);
            x.set_bit(i.parse().unwrap(), v == "1")
        }
        "zero" => x.set_zero(),
        "one" => x.set_one(),
        "assign" => {
            let (_, w) = cut(rest);
            x.assign_from_slice(&words(w))
        }
        "mul" => *x *= &arg_u(rest),
        "muls" => scalar!(x, *=, rest),
        "pow" => {
            let t = std::mem::take(x);
            *x = Pow::pow(t, rest.parse::<u32>().unwrap())
        }
        "sqrt" => *x = Roots::sqrt(&*x),
        "cbrt" => *x = Roots::cbrt(&*x),
        "nthroot" => *x = Roots::nth_root(&*x, rest.parse::<u32>().unwrap()),
        "gcd" => *x = Integer::gcd(&*x, &arg_u(rest)),
        "lcm" => *x = Integer::lcm(&*x, &arg_u(rest)),
        "adds" => scalar!(x, +=, rest),
        "subs" => scalar!(x, -=, rest),
        "divs" => scalar!(x, /=, rest),
        "rems" => scalar!(x, %=, rest),
        _ => panic!("bad op"),
    }
}

pub fn apply_i(x: &mut BigInt, op: &str) {
    let (name, rest) = cut(op);
    match name {
        "add" => *x += &arg_i(rest),
        "sub" => *x -= &arg_i(rest),
        "div" => *x /= &arg_i(rest),
        "rem" => *x %= &arg_i(rest),
        "and" => *x &= &arg_i(rest),
        "or" => *x |= &arg_i(rest),
        "xor" => *x ^= &arg_i(rest),
        "clone" => x.clone_from(&arg_i(rest)),
        "divfloor" => *x = Integer::div_floor(&*x, &arg_i(rest)),
        "modfloor" => *x = Integer::mod_floor(&*x, &arg_i(rest)),
        "diveuclid" => *x = Euclid::div_euclid(&*x, &arg_i(rest)),
        "remeuclid" => *x = Euclid::rem_euclid(&*x, &arg_i(rest)),
        "divceil" => *x = Integer::div_ceil(&*x, &arg_i(rest)),
        "shl" => shift!(x, <<=, rest),
        "shr" => shift!(x, >>=, rest),
        "setbit" => {
            let (i, v) = cut(rest);
            x.set_bit(i.parse().unwrap(), v == "1")
        }
        "zero" => x.set_zero(),
        "one" => x.set_one(),
        "assign" => {
            let (s, w) = cut(rest);
            x.assign_from_slice(sign_of(s), &words(w))
        }
        "mul" => *x *= &arg_i(rest),
        "pow" => {
            let t = std::mem::take(x);
            *x = Pow::pow(t, rest.parse::<u32>().unwrap())
        }
        "sqrt" => *x = Roots::sqrt(&*x),
        "cbrt" => *x = Roots::cbrt(&*x),
        "nthroot" => *x = Roots::nth_root(&*x, rest.parse::<u32>().unwrap()),
        "gcd" => *x = Integer::gcd(&*x, &arg_i(rest)),
        "lcm" => *x = Integer::lcm(&*x, &arg_i(rest)),
        "neg" => {
            let t = std::mem::take(x);
            *x = -t
        }
        "not" => {
            let t = std::mem::take(x);
            *x = !t
        }
        "abs" => *x = x.abs(),
        "signum" => *x = x.signum(),
        _ => panic!("bad op"),
    }
}

pub fn ops_of(h: &str) -> Vec<&str> {
    let h = strip("h:", h);
    if h.is_empty() {
        vec![]
    } else {
        h.split(';').collect()
    }
}

pub fn hist<T>(mk: impl FnOnce() -> T, apply: impl Fn(&mut T, &str), show: impl Fn(&T) -> String, h: &str) -> (Vec<String>, Option<T>) {
    let mut obs = Vec::new();
    let mut x = match catch_unwind(AssertUnwindSafe(mk)) {
        Ok(x) => x,
        Err(_) => {
            obs.push("panic".to_string());
            return (obs, None);
        }
    };
    obs.push(show(&x));
    for op in ops_of(h) {
        if catch_unwind(AssertUnwindSafe(|| apply(&mut x, op))).is_err() {
            obs.push("panic".to_string());
            // the object may have been left in an unspecified state (e.g. taken by mem::replace): stop
            return (obs, None);
        }
        obs.push(show(&x));
    }
    (obs, Some(x))
}

fn hash_of<T: Hash>(x: &T) -> u64 {
    let mut h = DefaultHasher::new();
    x.hash(&mut h);
    h.finish()
}

fn common<T: Ord + Hash + Clone>(a: &T, b: &T) -> Vec<String> {
    vec![res_bool(a == b), res_cmp(a.cmp(b)), res_bool(hash_of(a) == hash_of(b))]
}
fn order<T: Ord + Clone>(a: &T, b: &T) -> Vec<String> {
    vec![res_bool(a.clone().max(b.clone()) == *a), res_bool(a.clone().min(b.clone()) == *a)]
}

/// what `hist.pair` (and `histx.pair`, ops_extra.rs) print about two BigUint values
pub fn observe_u(x: &BigUint, y: &BigUint) -> String {
    let mut r = common(x, y);
    r.push(res_bool(x.to_u32_digits() == y.to_u32_digits()));
    r.push(res_bool(x.to_u64_digits() == y.to_u64_digits()));
    r.push(res_bool(x.to_bytes_le() == y.to_bytes_le()));
    r.push(res_bool(x.to_bytes_be() == y.to_bytes_be()));
    r.push(res_bool(x.bits() == y.bits()));
    r.push(res_bool(x.count_ones() == y.count_ones()));
    r.push(res_bool(x.trailing_zeros() == y.trailing_zeros()));
    r.push(res_bool(x.to_str_radix(10) == y.to_str_radix(10)));
    r.push(res_bool(x.to_str_radix(16) == y.to_str_radix(16)));
    r.extend(order(x, y));
    r.push(res_bool(true));
    r.push(res_bool(true));
    r.push(res_u(x));
    r.push(res_u(y));
    format!("ok {}", r.join(" "))
}
/// the same for two BigInt values
pub fn observe_i(x: &BigInt, y: &BigInt) -> String {
    let mut r = common(x, y);
    r.push(res_bool(x.to_u32_digits() == y.to_u32_digits()));
    r.push(res_bool(x.to_u64_digits() == y.to_u64_digits()));
    r.push(res_bool(x.to_bytes_le() == y.to_bytes_le()));
    r.push(res_bool(x.to_bytes_be() == y.to_bytes_be()));
    r.push(res_bool(x.to_signed_bytes_le() == y.to_signed_bytes_le()));
    r.push(res_bool(x.to_signed_bytes_be() == y.to_signed_bytes_be()));
    r.push(res_bool(x.bits() == y.bits()));
    r.push(res_bool(x.trailing_zeros() == y.trailing_zeros()));
    r.push(res_bool(x.to_str_radix(10) == y.to_str_radix(10)));
    r.push(res_bool(x.to_str_radix(16) == y.to_str_radix(16)));
    r.extend(order(x, y));
    r.push(res_bool((x.sign() == Sign::NoSign) == x.is_zero()));
    r.push(res_bool((y.sign() == Sign::NoSign) == y.is_zero()));
    r.push(res_i(x));
    r.push(res_i(y));
    format!("ok {}", r.join(" "))
}

pub fn dispatch(op: &str, a: &[&str]) -> Option<String> {
    Some(match op {
        "hist.u" => {
            let (obs, _) = hist(|| ctor_u(a[0]), apply_u, res_u, a[1]);
            format!("ok {}", obs.join(" "))
        }
        "hist.i" => {
            let (obs, _) = hist(|| ctor_i(a[0]), apply_i, res_i, a[1]);
            format!("ok {}", obs.join(" "))
        }
        "hist.pair" if a[0] == "u" => {
            let (_, x) = hist(|| ctor_u(a[1]), apply_u, res_u, a[2]);
            let (_, y) = hist(|| ctor_u(a[3]), apply_u, res_u, a[4]);
            let (x, y) = match (x, y) {
                (Some(x), Some(y)) => (x, y),
                _ => return Some("panic".to_string()),
            };
            observe_u(&x, &y)
        }
        "hist.pair" => {
            let (_, x) = hist(|| ctor_i(a[1]), apply_i, res_i, a[2]);
            let (_, y) = hist(|| ctor_i(a[3]), apply_i, res_i, a[4]);
            let (x, y) = match (x, y) {
                (Some(x), Some(y)) => (x, y),
                _ => return Some("panic".to_string()),
            };
            observe_i(&x, &y)
        }
        _ => return None,
    })
}
