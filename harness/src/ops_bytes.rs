//! C09 (bytes / digit vectors / iterators) and C17 (serde) operations on the real crate.
//! Token forms beyond the guide's: `h:<script>` (iterator calls, ';'-separated: next back len
//! hint nth<k> last count), `h:<n>|h:none` (serde size hint), results `l:<n>` (length),
//! `w:<words>` (u32 words), `h:<lo>,<hi|none>` (size_hint observation).
use crate::io::*;
use num_bigint::{BigInt, BigUint, Sign};
use std::fmt::Display;

fn arg_z(s: &str) -> Sign {
    match strip("z:", s) {
        "-1" => Sign::Minus,
        "0" => Sign::NoSign,
        "1" => Sign::Plus,
        _ => panic!("bad sign"),
    }
}
fn words(s: &str) -> Vec<u32> {
    arg_d(s).into_iter().map(|x| u32::try_from(x).expect("u32 word")).collect()
}
fn res_d32(d: &[u32]) -> String {
    format!("d:{}", d.iter().map(|x| format!("{:x}", x)).collect::<Vec<_>>().join(","))
}
fn sign_pair(s: Sign, p: String) -> String {
    ok2(res_sign(s), p)
}

/// Run a call script on a double-ended exact-size iterator; one observation per call.
fn run_script<T: Display, I: DoubleEndedIterator<Item = T> + ExactSizeIterator>(it: I, script: &str) -> String {
    let mut out = vec!["ok".to_string()];
    let item = |x: Option<T>| match x {
        None => "none".to_string(),
        Some(v) => format!("n:{}", v),
    };
    let mut it = Some(it);
    let script = strip("h:", script);
    if !script.is_empty() {
        for call in script.split(';') {
            let cur = it.as_mut().expect("iterator consumed");
            match call {
                "next" => out.push(item(cur.next())),
                "back" => out.push(item(cur.next_back())),
                "len" => out.push(format!("l:{}", cur.len())),
                "hint" => {
                    let (lo, hi) = cur.size_hint();
                    out.push(format!("h:{},{}", lo, hi.map_or("none".to_string(), |h| h.to_string())));
                }
                "last" => {
                    out.push(item(it.take().unwrap().last()));
                    break;
                }
                "count" => {
                    out.push(format!("l:{}", it.take().unwrap().count()));
                    break;
                }
                c if c.starts_with("nth") => {
                    let k: usize = c[3..].parse().expect("nth index");
                    out.push(item(cur.nth(k)));
                }
                _ => panic!("bad call {}", call),
            }
        }
    }
    out.join(" ")
}

pub fn dispatch(op: &str, a: &[&str]) -> Option<String> {
    use num_traits::{FromBytes, ToBytes};
    Some(match op {
        // ---- u32 words
        "u.new" => ok(res_u(&BigUint::new(words(a[0])))),
        "u.from_slice" => ok(res_u(&BigUint::from_slice(&words(a[0])))),
        "u.assign_from_slice" => {
            let mut x = arg_u(a[0]);
            x.assign_from_slice(&words(a[1]));
            ok(res_u(&x))
        }
        "i.new" => ok(res_i(&BigInt::new(arg_z(a[0]), words(a[1])))),
        "i.from_slice" => ok(res_i(&BigInt::from_slice(arg_z(a[0]), &words(a[1])))),
        "i.assign_from_slice" => {
            let mut x = arg_i(a[0]);
            x.assign_from_slice(arg_z(a[1]), &words(a[2]));
            ok(res_i(&x))
        }
        // ---- bytes
        "u.from_bytes_le" => ok(res_u(&BigUint::from_bytes_le(&arg_b(a[0])))),
        "u.from_bytes_be" => ok(res_u(&BigUint::from_bytes_be(&arg_b(a[0])))),
        "u.tr_from_le" => ok(res_u(&<BigUint as FromBytes>::from_le_bytes(&arg_b(a[0])[..]))),
        "u.tr_from_be" => ok(res_u(&<BigUint as FromBytes>::from_be_bytes(&arg_b(a[0])[..]))),
        "u.to_bytes_le" => ok(res_b(&arg_u(a[0]).to_bytes_le())),
        "u.to_bytes_be" => ok(res_b(&arg_u(a[0]).to_bytes_be())),
        "u.tr_to_le" => ok(res_b(&ToBytes::to_le_bytes(&arg_u(a[0])))),
        "u.tr_to_be" => ok(res_b(&ToBytes::to_be_bytes(&arg_u(a[0])))),
        "u.to_u32_digits" => ok(res_d32(&arg_u(a[0]).to_u32_digits())),
        "u.to_u64_digits" => ok(res_d(&arg_u(a[0]).to_u64_digits())),
        "i.from_bytes_le" => ok(res_i(&BigInt::from_bytes_le(arg_z(a[0]), &arg_b(a[1])))),
        "i.from_bytes_be" => ok(res_i(&BigInt::from_bytes_be(arg_z(a[0]), &arg_b(a[1])))),
        "i.to_bytes_le" => {
            let (s, b) = arg_i(a[0]).to_bytes_le();
            sign_pair(s, res_b(&b))
        }
        "i.to_bytes_be" => {
            let (s, b) = arg_i(a[0]).to_bytes_be();
            sign_pair(s, res_b(&b))
        }
        "i.to_u32_digits" => {
            let (s, d) = arg_i(a[0]).to_u32_digits();
            sign_pair(s, res_d32(&d))
        }
        "i.to_u64_digits" => {
            let (s, d) = arg_i(a[0]).to_u64_digits();
            sign_pair(s, res_d(&d))
        }
        // ---- signed bytes
        "i.from_signed_bytes_le" => ok(res_i(&BigInt::from_signed_bytes_le(&arg_b(a[0])))),
        "i.from_signed_bytes_be" => ok(res_i(&BigInt::from_signed_bytes_be(&arg_b(a[0])))),
        "i.tr_from_le" => ok(res_i(&<BigInt as FromBytes>::from_le_bytes(&arg_b(a[0])[..]))),
        "i.tr_from_be" => ok(res_i(&<BigInt as FromBytes>::from_be_bytes(&arg_b(a[0])[..]))),
        "i.to_signed_bytes_le" => ok(res_b(&arg_i(a[0]).to_signed_bytes_le())),
        "i.to_signed_bytes_be" => ok(res_b(&arg_i(a[0]).to_signed_bytes_be())),
        "i.tr_to_le" => ok(res_b(&ToBytes::to_le_bytes(&arg_i(a[0])))),
        "i.tr_to_be" => ok(res_b(&ToBytes::to_be_bytes(&arg_i(a[0])))),
        // ---- iterators
        "u.iter32" => {
            let x = arg_u(a[0]);
            run_script(x.iter_u32_digits(), a[1])
        }
        "u.iter64" => {
            let x = arg_u(a[0]);
            run_script(x.iter_u64_digits(), a[1])
        }
        "i.iter32" => {
            let x = arg_i(a[0]);
            run_script(x.iter_u32_digits(), a[1])
        }
        "i.iter64" => {
            let x = arg_i(a[0]);
            run_script(x.iter_u64_digits(), a[1])
        }
        // ---- hook level: bit regrouping
        #[cfg(num_bigint_verif)]
        "h.bd_from" => ok(res_u(&num_bigint::verif::convert::from_bitwise_digits_le(&arg_b(a[0]), arg_n(a[1]) as u8))),
        #[cfg(num_bigint_verif)]
        "h.bd_from_inexact" => {
            ok(res_u(&num_bigint::verif::convert::from_inexact_bitwise_digits_le(&arg_b(a[0]), arg_n(a[1]) as u8)))
        }
        #[cfg(num_bigint_verif)]
        "h.bd_to" => ok(res_b(&num_bigint::verif::convert::to_bitwise_digits_le(&arg_u(a[0]), arg_n(a[1]) as u8))),
        #[cfg(num_bigint_verif)]
        "h.bd_to_inexact" => {
            ok(res_b(&num_bigint::verif::convert::to_inexact_bitwise_digits_le(&arg_u(a[0]), arg_n(a[1]) as u8)))
        }
        // ---- serde
        #[cfg(feature = "serde")]
        "u.ser" => sd::ser_line(&arg_u(a[0]), false),
        #[cfg(feature = "serde")]
        "i.ser" => sd::ser_line(&arg_i(a[0]), true),
        #[cfg(feature = "serde")]
        "u.de" => {
            let t = sd::Tok::Seq(sd::arg_hint(a[0]), arg_d(a[1]));
            sd::de_line::<BigUint>(&t, |x| res_u(x))
        }
        #[cfg(feature = "serde")]
        "i.de" => {
            let sv: i64 = arg_s(a[0]).1.parse().expect("sign value");
            let t = sd::Tok::Tuple(vec![sd::Tok::Int(sv), sd::Tok::Seq(sd::arg_hint(a[1]), arg_d(a[2]))]);
            sd::de_line::<BigInt>(&t, |x| res_i(x))
        }
        #[cfg(feature = "serde")]
        "u.serde_rt" => match sd::record(&arg_u(a[0])).and_then(|t| sd::tokens_to_tok(&t)) {
            Some(t) => sd::de_line::<BigUint>(&t, |x| res_u(x)),
            None => "ok raw:unparsable".to_string(),
        },
        #[cfg(feature = "serde")]
        "i.serde_rt" => match sd::record(&arg_i(a[0])).and_then(|t| sd::tokens_to_tok(&t)) {
            Some(t) => sd::de_line::<BigInt>(&t, |x| res_i(x)),
            None => "ok raw:unparsable".to_string(),
        },
        _ => return None,
    })
}

/// A recording `Serializer` and a token-replay `Deserializer` (serde data model restricted to
/// what the crate uses: sequences of u32 with a declared length / size hint, an i8, a 2-tuple).
#[cfg(feature = "serde")]
mod sd {
    use crate::io::strip;
    use serde::de::{self, DeserializeSeed, SeqAccess, Visitor};
    use serde::ser::{self, Impossible, Serialize};
    use std::fmt;

    #[derive(Debug)]
    pub struct E(String);
    impl fmt::Display for E {
        fn fmt(&self, f: &mut fmt::Formatter<'_>) -> fmt::Result {
            f.write_str(&self.0)
        }
    }
    impl std::error::Error for E {}
    impl ser::Error for E {
        fn custom<T: fmt::Display>(m: T) -> Self {
            E(m.to_string())
        }
    }
    impl de::Error for E {
        fn custom<T: fmt::Display>(m: T) -> Self {
            E(m.to_string())
        }
    }

    // ------------------------------------------------------------------ recording serializer
    #[derive(Debug, Clone, PartialEq)]
    pub enum Ev {
        I8(i8),
        U32(u32),
        SeqStart(Option<usize>),
        SeqEnd,
        TupleStart(usize),
        TupleEnd,
        Other(&'static str),
    }
    #[derive(Default)]
    pub struct Rec {
        pub ev: Vec<Ev>,
    }
    macro_rules! other {
        ($($name:ident($($ty:ty),*);)*) => {$(
            fn $name(self $(, _: $ty)*) -> Result<(), E> {
                self.ev.push(Ev::Other(stringify!($name)));
                Ok(())
            }
        )*};
    }
    impl<'a> ser::Serializer for &'a mut Rec {
        type Ok = ();
        type Error = E;
        type SerializeSeq = Self;
        type SerializeTuple = Self;
        type SerializeTupleStruct = Impossible<(), E>;
        type SerializeTupleVariant = Impossible<(), E>;
        type SerializeMap = Impossible<(), E>;
        type SerializeStruct = Impossible<(), E>;
        type SerializeStructVariant = Impossible<(), E>;
        fn serialize_i8(self, v: i8) -> Result<(), E> {
            self.ev.push(Ev::I8(v));
            Ok(())
        }
        fn serialize_u32(self, v: u32) -> Result<(), E> {
            self.ev.push(Ev::U32(v));
            Ok(())
        }
        other! {
            serialize_bool(bool); serialize_i16(i16); serialize_i32(i32); serialize_i64(i64);
            serialize_u8(u8); serialize_u16(u16); serialize_u64(u64); serialize_f32(f32);
            serialize_f64(f64); serialize_char(char); serialize_str(&str); serialize_bytes(&[u8]);
            serialize_none(); serialize_unit(); serialize_unit_struct(&'static str);
            serialize_unit_variant(&'static str, u32, &'static str);
        }
        fn serialize_some<T: ?Sized + Serialize>(self, _: &T) -> Result<(), E> {
            self.ev.push(Ev::Other("some"));
            Ok(())
        }
        fn serialize_newtype_struct<T: ?Sized + Serialize>(self, _: &'static str, _: &T) -> Result<(), E> {
            self.ev.push(Ev::Other("newtype_struct"));
            Ok(())
        }
        fn serialize_newtype_variant<T: ?Sized + Serialize>(
            self,
            _: &'static str,
            _: u32,
            _: &'static str,
            _: &T,
        ) -> Result<(), E> {
            self.ev.push(Ev::Other("newtype_variant"));
            Ok(())
        }
        fn serialize_seq(self, len: Option<usize>) -> Result<Self, E> {
            self.ev.push(Ev::SeqStart(len));
            Ok(self)
        }
        fn serialize_tuple(self, len: usize) -> Result<Self, E> {
            self.ev.push(Ev::TupleStart(len));
            Ok(self)
        }
        fn serialize_tuple_struct(self, _: &'static str, _: usize) -> Result<Self::SerializeTupleStruct, E> {
            Err(E("tuple_struct".into()))
        }
        fn serialize_tuple_variant(
            self,
            _: &'static str,
            _: u32,
            _: &'static str,
            _: usize,
        ) -> Result<Self::SerializeTupleVariant, E> {
            Err(E("tuple_variant".into()))
        }
        fn serialize_map(self, _: Option<usize>) -> Result<Self::SerializeMap, E> {
            Err(E("map".into()))
        }
        fn serialize_struct(self, _: &'static str, _: usize) -> Result<Self::SerializeStruct, E> {
            Err(E("struct".into()))
        }
        fn serialize_struct_variant(
            self,
            _: &'static str,
            _: u32,
            _: &'static str,
            _: usize,
        ) -> Result<Self::SerializeStructVariant, E> {
            Err(E("struct_variant".into()))
        }
    }
    impl<'a> ser::SerializeSeq for &'a mut Rec {
        type Ok = ();
        type Error = E;
        fn serialize_element<T: ?Sized + Serialize>(&mut self, v: &T) -> Result<(), E> {
            v.serialize(&mut **self)
        }
        fn end(self) -> Result<(), E> {
            self.ev.push(Ev::SeqEnd);
            Ok(())
        }
    }
    impl<'a> ser::SerializeTuple for &'a mut Rec {
        type Ok = ();
        type Error = E;
        fn serialize_element<T: ?Sized + Serialize>(&mut self, v: &T) -> Result<(), E> {
            v.serialize(&mut **self)
        }
        fn end(self) -> Result<(), E> {
            self.ev.push(Ev::TupleEnd);
            Ok(())
        }
    }

    pub fn record<T: Serialize>(x: &T) -> Option<Vec<Ev>> {
        let mut r = Rec::default();
        x.serialize(&mut r).ok()?;
        Some(r.ev)
    }

    /// `[SeqStart(n), U32.., SeqEnd]` -> (declared, words)
    fn parse_seq(ev: &[Ev]) -> Option<(Option<usize>, Vec<u32>)> {
        let (first, rest) = ev.split_first()?;
        let (last, mid) = rest.split_last()?;
        let n = match first {
            Ev::SeqStart(n) => *n,
            _ => return None,
        };
        if *last != Ev::SeqEnd {
            return None;
        }
        let mut w = Vec::new();
        for e in mid {
            match e {
                Ev::U32(v) => w.push(*v),
                _ => return None,
            }
        }
        Some((n, w))
    }
    fn parse_int(ev: &[Ev]) -> Option<(i8, (Option<usize>, Vec<u32>))> {
        if ev.len() < 4 || ev[0] != Ev::TupleStart(2) || *ev.last()? != Ev::TupleEnd {
            return None;
        }
        let s = match ev[1] {
            Ev::I8(v) => v,
            _ => return None,
        };
        Some((s, parse_seq(&ev[2..ev.len() - 1])?))
    }
    fn seq_text(p: &(Option<usize>, Vec<u32>)) -> String {
        format!(
            "l:{} w:{}",
            p.0.map_or("none".to_string(), |n| n.to_string()),
            p.1.iter().map(|x| format!("{:x}", x)).collect::<Vec<_>>().join(",")
        )
    }
    /// result line of `u.ser` / `i.ser`; an event stream of another shape is shown raw (and so
    /// differs from the model)
    pub fn ser_line<T: Serialize>(x: &T, signed: bool) -> String {
        let ev = match record(x) {
            Some(ev) => ev,
            None => return "err".to_string(),
        };
        let parsed = if signed {
            parse_int(&ev).map(|(s, p)| format!("ok s:i8:{} {}", s, seq_text(&p)))
        } else {
            parse_seq(&ev).map(|p| format!("ok {}", seq_text(&p)))
        };
        parsed.unwrap_or_else(|| format!("ok raw:{:?}", ev).replace(' ', ""))
    }

    // ------------------------------------------------------------------ token-replay deserializer
    pub enum Tok {
        Seq(Option<usize>, Vec<u64>),
        Int(i64),
        Tuple(Vec<Tok>),
    }
    pub fn arg_hint(s: &str) -> Option<usize> {
        match strip("h:", s) {
            "none" => None,
            k => Some(k.parse().expect("hint")),
        }
    }
    /// the recorded events of a serialization, as input tokens (declared length = size hint)
    pub fn tokens_to_tok(ev: &[Ev]) -> Option<Tok> {
        if let Some((n, w)) = parse_seq(ev) {
            return Some(Tok::Seq(n, w.into_iter().map(u64::from).collect()));
        }
        let (s, (n, w)) = parse_int(ev)?;
        Some(Tok::Tuple(vec![Tok::Int(s.into()), Tok::Seq(n, w.into_iter().map(u64::from).collect())]))
    }

    struct De<'a>(&'a Tok);
    impl<'de, 'a> de::Deserializer<'de> for De<'a> {
        type Error = E;
        fn deserialize_any<V: Visitor<'de>>(self, visitor: V) -> Result<V::Value, E> {
            match self.0 {
                Tok::Seq(hint, el) => visitor.visit_seq(SeqAcc { hint: *hint, el, i: 0 }),
                Tok::Int(v) => visitor.visit_i64(*v),
                Tok::Tuple(el) => visitor.visit_seq(TupAcc { el, i: 0 }),
            }
        }
        serde::forward_to_deserialize_any! {
            bool i8 i16 i32 i64 i128 u8 u16 u32 u64 u128 f32 f64 char str string bytes byte_buf
            option unit unit_struct newtype_struct seq tuple tuple_struct map struct enum
            identifier ignored_any
        }
    }
    struct ElemDe(u64);
    impl<'de> de::Deserializer<'de> for ElemDe {
        type Error = E;
        fn deserialize_any<V: Visitor<'de>>(self, visitor: V) -> Result<V::Value, E> {
            match u32::try_from(self.0) {
                Ok(v) => visitor.visit_u32(v),
                Err(_) => visitor.visit_u64(self.0),
            }
        }
        serde::forward_to_deserialize_any! {
            bool i8 i16 i32 i64 i128 u8 u16 u32 u64 u128 f32 f64 char str string bytes byte_buf
            option unit unit_struct newtype_struct seq tuple tuple_struct map struct enum
            identifier ignored_any
        }
    }
    struct SeqAcc<'a> {
        hint: Option<usize>,
        el: &'a [u64],
        i: usize,
    }
    impl<'de, 'a> SeqAccess<'de> for SeqAcc<'a> {
        type Error = E;
        fn next_element_seed<T: DeserializeSeed<'de>>(&mut self, seed: T) -> Result<Option<T::Value>, E> {
            if self.i < self.el.len() {
                self.i += 1;
                seed.deserialize(ElemDe(self.el[self.i - 1])).map(Some)
            } else {
                Ok(None)
            }
        }
        fn size_hint(&self) -> Option<usize> {
            self.hint
        }
    }
    struct TupAcc<'a> {
        el: &'a [Tok],
        i: usize,
    }
    impl<'de, 'a> SeqAccess<'de> for TupAcc<'a> {
        type Error = E;
        fn next_element_seed<T: DeserializeSeed<'de>>(&mut self, seed: T) -> Result<Option<T::Value>, E> {
            if self.i < self.el.len() {
                self.i += 1;
                seed.deserialize(De(&self.el[self.i - 1])).map(Some)
            } else {
                Ok(None)
            }
        }
        fn size_hint(&self) -> Option<usize> {
            Some(self.el.len() - self.i)
        }
    }

    pub fn de_line<T: for<'de> serde::Deserialize<'de>>(t: &Tok, pr: impl Fn(&T) -> String) -> String {
        match T::deserialize(De(t)) {
            Ok(x) => format!("ok {}", pr(&x)),
            Err(_) => "err".to_string(),
        }
    }
}
