//! Guard-page global allocator (feature `guard`, C15): every heap block is placed so that it
//! ends exactly at an inaccessible page (mode "end", default) or starts right after one
//! (mode "start", env BN_GUARD=start).  An out-of-bounds read or write by unsafe code
//! faults the process, which the orchestrator records as `crash` for the current case.
use std::alloc::{GlobalAlloc, Layout};
use std::sync::atomic::{AtomicU8, Ordering};

const PAGE: usize = 4096;
static MODE: AtomicU8 = AtomicU8::new(0); // 0 = unknown, 1 = end, 2 = start

fn mode() -> u8 {
    let m = MODE.load(Ordering::Relaxed);
    if m != 0 {
        return m;
    }
    // getenv without allocating
    let v = unsafe { libc::getenv(b"BN_GUARD\0".as_ptr() as *const libc::c_char) };
    let m = if !v.is_null() && unsafe { *v } as u8 == b's' { 2 } else { 1 };
    MODE.store(m, Ordering::Relaxed);
    m
}

fn span(layout: &Layout) -> usize {
    let sz = layout.size().max(1);
    (sz + PAGE - 1) / PAGE * PAGE
}

pub struct Guard;

unsafe impl GlobalAlloc for Guard {
    unsafe fn alloc(&self, layout: Layout) -> *mut u8 {
        if layout.align() > PAGE {
            return std::ptr::null_mut();
        }
        let data = span(&layout);
        let total = data + PAGE;
        let base = libc::mmap(
            std::ptr::null_mut(),
            total,
            libc::PROT_READ | libc::PROT_WRITE,
            libc::MAP_PRIVATE | libc::MAP_ANONYMOUS,
            -1,
            0,
        );
        if base == libc::MAP_FAILED {
            return std::ptr::null_mut();
        }
        let base = base as *mut u8;
        if mode() == 2 {
            // guard page first, block starts right after it
            libc::mprotect(base as *mut libc::c_void, PAGE, libc::PROT_NONE);
            base.add(PAGE)
        } else {
            // guard page last, block ends right before it (up to align-1 bytes of slack)
            libc::mprotect(base.add(data) as *mut libc::c_void, PAGE, libc::PROT_NONE);
            let start = data - layout.size();
            base.add(start - start % layout.align())
        }
    }
    unsafe fn dealloc(&self, ptr: *mut u8, layout: Layout) {
        let data = span(&layout);
        let total = data + PAGE;
        let base = if mode() == 2 {
            ptr.sub(PAGE)
        } else {
            ((ptr as usize) / PAGE * PAGE) as *mut u8
        };
        libc::munmap(base as *mut libc::c_void, total);
    }
}

#[global_allocator]
static GLOBAL: Guard = Guard;
