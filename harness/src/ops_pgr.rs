//! C11 (roots), C12 (pow), C13 (gcd / lcm / Bezout / multiples) operations: public API only.
use crate::io::*;
use num_bigint::{BigInt, BigUint};
use num_integer::{Integer, Roots};
use num_traits::{Pow, Signed, Zero};

macro_rules! with_exp {
    ($ty:expr, $v:expr, |$e:ident| $body:expr) => {
        match $ty {
            "u8" => { let $e: u8 = $v.parse().unwrap(); $body }
            "u16" => { let $e: u16 = $v.parse().unwrap(); $body }
            "u32" => { let $e: u32 = $v.parse().unwrap(); $body }
            "u64" => { let $e: u64 = $v.parse().unwrap(); $body }
            "usize" => { let $e: usize = $v.parse().unwrap(); $body }
            "u128" => { let $e: u128 = $v.parse().unwrap(); $body }
            _ => panic!("exponent type"),
        }
    };
}

fn egcd_str(e: &num_integer::ExtendedGcd<BigInt>) -> String {
    format!("{} {} {}", res_i(&e.gcd), res_i(&e.x), res_i(&e.y))
}

pub fn dispatch(op: &str, a: &[&str]) -> Option<String> {
    Some(match op {
        // ------------------------------------------------------------ C12
        "u.pow.vv" => { let (t, v) = arg_s(a[1]); let x = arg_u(a[0]); ok(res_u(&with_exp!(t, v, |e| Pow::pow(x, e)))) }
        "u.pow.vr" => { let (t, v) = arg_s(a[1]); let x = arg_u(a[0]); ok(res_u(&with_exp!(t, v, |e| Pow::pow(x, &e)))) }
        "u.pow.rv" => { let (t, v) = arg_s(a[1]); let x = arg_u(a[0]); ok(res_u(&with_exp!(t, v, |e| Pow::pow(&x, e)))) }
        "u.pow.rr" => { let (t, v) = arg_s(a[1]); let x = arg_u(a[0]); ok(res_u(&with_exp!(t, v, |e| Pow::pow(&x, &e)))) }
        "i.pow.vv" => { let (t, v) = arg_s(a[1]); let x = arg_i(a[0]); ok(res_i(&with_exp!(t, v, |e| Pow::pow(x, e)))) }
        "i.pow.vr" => { let (t, v) = arg_s(a[1]); let x = arg_i(a[0]); ok(res_i(&with_exp!(t, v, |e| Pow::pow(x, &e)))) }
        "i.pow.rv" => { let (t, v) = arg_s(a[1]); let x = arg_i(a[0]); ok(res_i(&with_exp!(t, v, |e| Pow::pow(&x, e)))) }
        "i.pow.rr" => { let (t, v) = arg_s(a[1]); let x = arg_i(a[0]); ok(res_i(&with_exp!(t, v, |e| Pow::pow(&x, &e)))) }
        "u.pow_big.vv" => ok(res_u(&Pow::pow(arg_u(a[0]), arg_u(a[1])))),
        "u.pow_big.vr" => ok(res_u(&Pow::pow(arg_u(a[0]), &arg_u(a[1])))),
        "u.pow_big.rv" => ok(res_u(&Pow::pow(&arg_u(a[0]), arg_u(a[1])))),
        "u.pow_big.rr" => ok(res_u(&Pow::pow(&arg_u(a[0]), &arg_u(a[1])))),
        "i.pow_big.vv" => ok(res_i(&Pow::pow(arg_i(a[0]), arg_u(a[1])))),
        "i.pow_big.vr" => ok(res_i(&Pow::pow(arg_i(a[0]), &arg_u(a[1])))),
        "i.pow_big.rv" => ok(res_i(&Pow::pow(&arg_i(a[0]), arg_u(a[1])))),
        "i.pow_big.rr" => ok(res_i(&Pow::pow(&arg_i(a[0]), &arg_u(a[1])))),
        "u.pow_u32" => { let (_, v) = arg_s(a[1]); ok(res_u(&arg_u(a[0]).pow(v.parse::<u32>().unwrap()))) }
        "i.pow_u32" => { let (_, v) = arg_s(a[1]); ok(res_i(&arg_i(a[0]).pow(v.parse::<u32>().unwrap()))) }
        // ------------------------------------------------------------ C13
        "u.gcd" => ok(res_u(&arg_u(a[0]).gcd(&arg_u(a[1])))),
        "u.lcm" => ok(res_u(&arg_u(a[0]).lcm(&arg_u(a[1])))),
        "u.gcd_lcm" => { let (g, l) = arg_u(a[0]).gcd_lcm(&arg_u(a[1])); ok2(res_u(&g), res_u(&l)) }
        "u.is_multiple_of" => ok(res_bool(arg_u(a[0]).is_multiple_of(&arg_u(a[1])))),
        #[allow(deprecated)]
        "u.divides" => ok(res_bool(arg_u(a[0]).divides(&arg_u(a[1])))),
        "u.next_multiple_of" => ok(res_u(&arg_u(a[0]).next_multiple_of(&arg_u(a[1])))),
        "u.prev_multiple_of" => ok(res_u(&arg_u(a[0]).prev_multiple_of(&arg_u(a[1])))),
        "u.is_even" => ok(res_bool(arg_u(a[0]).is_even())),
        "u.is_odd" => ok(res_bool(arg_u(a[0]).is_odd())),
        "u.inc" => { let mut x = arg_u(a[0]); x.inc(); ok(res_u(&x)) }
        "u.dec" => { let mut x = arg_u(a[0]); x.dec(); ok(res_u(&x)) }
        "i.gcd" => ok(res_i(&arg_i(a[0]).gcd(&arg_i(a[1])))),
        "i.lcm" => ok(res_i(&arg_i(a[0]).lcm(&arg_i(a[1])))),
        "i.gcd_lcm" => { let (g, l) = arg_i(a[0]).gcd_lcm(&arg_i(a[1])); ok2(res_i(&g), res_i(&l)) }
        "i.extended_gcd" => { let e = arg_i(a[0]).extended_gcd(&arg_i(a[1])); ok(egcd_str(&e)) }
        "i.extended_gcd_lcm" => {
            let (e, l) = arg_i(a[0]).extended_gcd_lcm(&arg_i(a[1]));
            ok2(egcd_str(&e), res_i(&l))
        }
        "i.bezout" => {
            let (x, y) = (arg_i(a[0]), arg_i(a[1]));
            let e = x.extended_gcd(&y);
            let good = &x * &e.x + &y * &e.y == e.gcd && e.gcd == x.gcd(&y) && !e.gcd.is_negative()
                && (e.gcd.is_zero() == (x.is_zero() && y.is_zero()));
            ok(res_bool(good))
        }
        "i.is_multiple_of" => ok(res_bool(arg_i(a[0]).is_multiple_of(&arg_i(a[1])))),
        #[allow(deprecated)]
        "i.divides" => ok(res_bool(arg_i(a[0]).divides(&arg_i(a[1])))),
        "i.next_multiple_of" => ok(res_i(&arg_i(a[0]).next_multiple_of(&arg_i(a[1])))),
        "i.prev_multiple_of" => ok(res_i(&arg_i(a[0]).prev_multiple_of(&arg_i(a[1])))),
        "i.is_even" => ok(res_bool(arg_i(a[0]).is_even())),
        "i.is_odd" => ok(res_bool(arg_i(a[0]).is_odd())),
        "i.inc" => { let mut x = arg_i(a[0]); x.inc(); ok(res_i(&x)) }
        "i.dec" => { let mut x = arg_i(a[0]); x.dec(); ok(res_i(&x)) }
        // ------------------------------------------------------------ C11
        "u.nth_root" => ok(res_u(&Roots::nth_root(&arg_u(a[0]), arg_n(a[1]) as u32))),
        "u.sqrt" => ok(res_u(&Roots::sqrt(&arg_u(a[0])))),
        "u.cbrt" => ok(res_u(&Roots::cbrt(&arg_u(a[0])))),
        "i.nth_root" => ok(res_i(&Roots::nth_root(&arg_i(a[0]), arg_n(a[1]) as u32))),
        "i.sqrt" => ok(res_i(&Roots::sqrt(&arg_i(a[0])))),
        "i.cbrt" => ok(res_i(&Roots::cbrt(&arg_i(a[0])))),
        _ => return None,
    })
}
