//! C05 operations: modpow / modinv (public API) and the Montgomery kernel (hooks).
use crate::io::*;

pub fn dispatch(op: &str, a: &[&str]) -> Option<String> {
    Some(match op {
        "u.modpow" => ok(res_u(&arg_u(a[0]).modpow(&arg_u(a[1]), &arg_u(a[2])))),
        "i.modpow" => ok(res_i(&arg_i(a[0]).modpow(&arg_i(a[1]), &arg_i(a[2])))),
        "u.modinv" => opt(arg_u(a[0]).modinv(&arg_u(a[1])), |r| ok(res_u(r))),
        "i.modinv" => opt(arg_i(a[0]).modinv(&arg_i(a[1])), |r| ok(res_i(r))),
        #[cfg(num_bigint_verif)]
        "h.inv_mod_alt" => ok(res_n(num_bigint::verif::monty::inv_mod_alt(arg_n(a[0])))),
        #[cfg(num_bigint_verif)]
        "h.add_mul_vvw" => {
            let (z, c) = num_bigint::verif::monty::add_mul_vvw(arg_d(a[0]), &arg_d(a[1]), arg_n(a[2]));
            ok2(res_d(&z), res_n(c))
        }
        #[cfg(num_bigint_verif)]
        "h.sub_vv" => {
            let (z, c) = num_bigint::verif::monty::sub_vv(arg_d(a[0]), &arg_d(a[1]), &arg_d(a[2]));
            ok2(res_d(&z), res_n(c))
        }
        #[cfg(num_bigint_verif)]
        "h.montgomery" => {
            let r = num_bigint::verif::monty::montgomery(
                &mk_biguint(arg_d(a[0])),
                &mk_biguint(arg_d(a[1])),
                &mk_biguint(arg_d(a[2])),
                arg_n(a[3]),
                arg_n(a[4]) as usize,
            );
            ok(res_d(&raw_digits(&r)))
        }
        #[cfg(num_bigint_verif)]
        "h.monty_modpow" => ok(res_u(&num_bigint::verif::monty::monty_modpow(&arg_u(a[0]), &arg_u(a[1]), &arg_u(a[2])))),
        #[cfg(num_bigint_verif)]
        "h.plain_modpow" => ok(res_u(&num_bigint::verif::power::plain_modpow(&arg_u(a[0]), &arg_d(a[1]), &arg_u(a[2])))),
        _ => return None,
    })
}
