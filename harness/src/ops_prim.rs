//! C08 operations: primitive integer / float conversions of the real crate.
use crate::io::*;
use core::convert::TryFrom;
use num_bigint::{BigInt, BigUint, ToBigInt, ToBigUint};
use num_traits::{FromPrimitive, ToPrimitive};

/// run `$body` with `$T` bound to the primitive type called `$ty`
macro_rules! with_type {
    ($ty:expr, $T:ident, $body:expr) => {
        match $ty {
            "u8" => { type $T = u8; $body }
            "u16" => { type $T = u16; $body }
            "u32" => { type $T = u32; $body }
            "u64" => { type $T = u64; $body }
            "usize" => { type $T = usize; $body }
            "u128" => { type $T = u128; $body }
            "i8" => { type $T = i8; $body }
            "i16" => { type $T = i16; $body }
            "i32" => { type $T = i32; $body }
            "i64" => { type $T = i64; $body }
            "isize" => { type $T = isize; $body }
            "i128" => { type $T = i128; $body }
            _ => panic!("scalar type"),
        }
    };
}
macro_rules! with_unsigned {
    ($ty:expr, $T:ident, $body:expr) => {
        match $ty {
            "u8" => { type $T = u8; $body }
            "u16" => { type $T = u16; $body }
            "u32" => { type $T = u32; $body }
            "u64" => { type $T = u64; $body }
            "usize" => { type $T = usize; $body }
            "u128" => { type $T = u128; $body }
            _ => panic!("unsigned scalar type"),
        }
    };
}
macro_rules! with_signed {
    ($ty:expr, $T:ident, $body:expr) => {
        match $ty {
            "i8" => { type $T = i8; $body }
            "i16" => { type $T = i16; $body }
            "i32" => { type $T = i32; $body }
            "i64" => { type $T = i64; $body }
            "isize" => { type $T = isize; $body }
            "i128" => { type $T = i128; $body }
            _ => panic!("signed scalar type"),
        }
    };
}

/// the twelve `ToPrimitive::to_T`
macro_rules! to_prim {
    ($x:expr, $ty:expr) => {
        match $ty {
            "u8" => $x.to_u8().map(|r| res_s("u8", r)),
            "u16" => $x.to_u16().map(|r| res_s("u16", r)),
            "u32" => $x.to_u32().map(|r| res_s("u32", r)),
            "u64" => $x.to_u64().map(|r| res_s("u64", r)),
            "usize" => $x.to_usize().map(|r| res_s("usize", r)),
            "u128" => $x.to_u128().map(|r| res_s("u128", r)),
            "i8" => $x.to_i8().map(|r| res_s("i8", r)),
            "i16" => $x.to_i16().map(|r| res_s("i16", r)),
            "i32" => $x.to_i32().map(|r| res_s("i32", r)),
            "i64" => $x.to_i64().map(|r| res_s("i64", r)),
            "isize" => $x.to_isize().map(|r| res_s("isize", r)),
            "i128" => $x.to_i128().map(|r| res_s("i128", r)),
            _ => panic!("scalar type"),
        }
    };
}
/// the twelve `FromPrimitive::from_T`
macro_rules! from_prim {
    ($B:ty, $ty:expr, $v:expr) => {
        match $ty {
            "u8" => <$B>::from_u8($v.parse().unwrap()),
            "u16" => <$B>::from_u16($v.parse().unwrap()),
            "u32" => <$B>::from_u32($v.parse().unwrap()),
            "u64" => <$B>::from_u64($v.parse().unwrap()),
            "usize" => <$B>::from_usize($v.parse().unwrap()),
            "u128" => <$B>::from_u128($v.parse().unwrap()),
            "i8" => <$B>::from_i8($v.parse().unwrap()),
            "i16" => <$B>::from_i16($v.parse().unwrap()),
            "i32" => <$B>::from_i32($v.parse().unwrap()),
            "i64" => <$B>::from_i64($v.parse().unwrap()),
            "isize" => <$B>::from_isize($v.parse().unwrap()),
            "i128" => <$B>::from_i128($v.parse().unwrap()),
            _ => panic!("scalar type"),
        }
    };
}

fn ty_of(s: &str) -> String {
    String::from_utf8(arg_t_bytes(s)).unwrap()
}
fn some_or(o: Option<String>, none: &str) -> String {
    match o {
        Some(s) => ok(s),
        None => none.to_string(),
    }
}

pub fn dispatch(op: &str, a: &[&str]) -> Option<String> {
    Some(match op {
        // ---- big -> integer
        "u.to" => {
            let ty = ty_of(a[0]);
            let x = arg_u(a[1]);
            some_or(to_prim!(x, ty.as_str()), "none")
        }
        "i.to" => {
            let ty = ty_of(a[0]);
            let x = arg_i(a[1]);
            some_or(to_prim!(x, ty.as_str()), "none")
        }
        "u.try_into" => {
            let ty = ty_of(a[0]);
            let x = arg_u(a[1]);
            with_type!(ty.as_str(), T, match T::try_from(&x) {
                Ok(r) => ok(res_s(&ty, r)),
                Err(e) => { let () = e.into_original(); "err".to_string() }
            })
        }
        "i.try_into" => {
            let ty = ty_of(a[0]);
            let x = arg_i(a[1]);
            with_type!(ty.as_str(), T, match T::try_from(&x) {
                Ok(r) => ok(res_s(&ty, r)),
                Err(e) => { let () = e.into_original(); "err".to_string() }
            })
        }
        "u.try_into_owned" => {
            let ty = ty_of(a[0]);
            let x = arg_u(a[1]);
            with_type!(ty.as_str(), T, match T::try_from(x) {
                Ok(r) => ok(res_s(&ty, r)),
                Err(e) => format!("err {}", res_u(&e.into_original())),
            })
        }
        "i.try_into_owned" => {
            let ty = ty_of(a[0]);
            let x = arg_i(a[1]);
            with_type!(ty.as_str(), T, match T::try_from(x) {
                Ok(r) => ok(res_s(&ty, r)),
                Err(e) => format!("err {}", res_i(&e.into_original())),
            })
        }
        // ---- integer -> big
        "u.from" => {
            let (ty, v) = arg_s(a[0]);
            with_unsigned!(ty, T, { let n: T = v.parse().unwrap(); ok(res_u(&BigUint::from(n))) })
        }
        "u.from_bool" => ok(res_u(&BigUint::from(arg_n(a[0]) != 0))),
        "u.from_prim" => {
            let (ty, v) = arg_s(a[0]);
            opt(from_prim!(BigUint, ty, v), |r| ok(res_u(r)))
        }
        "u.try_from_prim" => {
            let (ty, v) = arg_s(a[0]);
            with_signed!(ty, T, { let n: T = v.parse().unwrap(); match BigUint::try_from(n) {
                Ok(r) => ok(res_u(&r)),
                Err(e) => { let () = e.into_original(); "err".to_string() }
            }})
        }
        "i.from" => {
            let (ty, v) = arg_s(a[0]);
            with_type!(ty, T, { let n: T = v.parse().unwrap(); ok(res_i(&BigInt::from(n))) })
        }
        "i.from_bool" => ok(res_i(&BigInt::from(arg_n(a[0]) != 0))),
        "i.from_prim" => {
            let (ty, v) = arg_s(a[0]);
            opt(from_prim!(BigInt, ty, v), |r| ok(res_i(r)))
        }
        "p.to_biguint" => {
            let r = match &a[0][..2] {
                "s:" => { let (ty, v) = arg_s(a[0]); with_type!(ty, T, { let n: T = v.parse().unwrap(); n.to_biguint() }) }
                "f:" => arg_f(a[0]).to_biguint(),
                _ => arg_g(a[0]).to_biguint(),
            };
            opt(r, |r| ok(res_u(r)))
        }
        "p.to_bigint" => {
            let r = match &a[0][..2] {
                "s:" => { let (ty, v) = arg_s(a[0]); with_type!(ty, T, { let n: T = v.parse().unwrap(); n.to_bigint() }) }
                "f:" => arg_f(a[0]).to_bigint(),
                _ => arg_g(a[0]).to_bigint(),
            };
            opt(r, |r| ok(res_i(r)))
        }
        // ---- BigUint <-> BigInt
        "i.from_biguint" => ok(res_i(&BigInt::from(arg_u(a[0])))),
        "u.to_bigint" => opt(arg_u(a[0]).to_bigint(), |r| ok(res_i(r))),
        "i.to_biguint" => opt(arg_i(a[0]).to_biguint(), |r| ok(res_u(r))),
        "i.try_into_biguint" => match BigUint::try_from(&arg_i(a[0])) {
            Ok(r) => ok(res_u(&r)),
            Err(e) => { let () = e.into_original(); "err".to_string() }
        },
        "i.try_into_biguint_owned" => match BigUint::try_from(arg_i(a[0])) {
            Ok(r) => ok(res_u(&r)),
            Err(e) => format!("err {}", res_i(&e.into_original())),
        },
        // ---- big -> float (bit patterns)
        "u.to_f64" => opt(arg_u(a[0]).to_f64(), |r| ok(res_f(*r))),
        "u.to_f32" => opt(arg_u(a[0]).to_f32(), |r| ok(res_g(*r))),
        "i.to_f64" => opt(arg_i(a[0]).to_f64(), |r| ok(res_f(*r))),
        "i.to_f32" => opt(arg_i(a[0]).to_f32(), |r| ok(res_g(*r))),
        // ---- float -> big
        "u.from_f64" => opt(BigUint::from_f64(arg_f(a[0])), |r| ok(res_u(r))),
        "u.from_f32" => opt(BigUint::from_f32(arg_g(a[0])), |r| ok(res_u(r))),
        "i.from_f64" => opt(BigInt::from_f64(arg_f(a[0])), |r| ok(res_i(r))),
        "i.from_f32" => opt(BigInt::from_f32(arg_g(a[0])), |r| ok(res_i(r))),
        // ---- hook level
        #[cfg(num_bigint_verif)]
        "h.high_bits_to_u64" => {
            let v = mk_biguint(arg_d(a[0]));
            ok(res_n(num_bigint::verif::convert::high_bits_to_u64(&v)))
        }
        _ => return None,
    })
}
