//! C19 operations: sign / negation / identity helpers on the real crate.
//! The leading `n:<mode>` argument selects how the operand's buffer is produced, so that values
//! whose in-place predecessor had a (much) larger capacity are covered:
//!   0 = as parsed, 1 = `x <<= 4000; x >>= 4000`, 2 = `x += 2^4100; x -= 2^4100`, 3 = clone of 1.
use crate::io::*;
use num_bigint::{BigInt, BigUint, Sign, ToBigInt, ToBigUint};
use num_traits::{ConstZero, One, Signed, Zero};
use std::convert::TryFrom;

fn arg_z(s: &str) -> Sign {
    match strip("z:", s) {
        "-1" => Sign::Minus,
        "0" => Sign::NoSign,
        "1" => Sign::Plus,
        _ => panic!("bad sign"),
    }
}
fn arg_r(s: &str) -> Vec<u32> {
    let h = strip("r:", s);
    if h.is_empty() {
        return vec![];
    }
    h.split(',').map(|w| u32::from_str_radix(w, 16).expect("hex word")).collect()
}
fn fat_u(mode: u64, x: BigUint) -> BigUint {
    match mode {
        0 => x,
        1 => {
            let mut y = x;
            y <<= 4000usize;
            y >>= 4000usize;
            y
        }
        2 => {
            let big = BigUint::one() << 4100usize;
            let mut y = x;
            y += &big;
            y -= &big;
            y
        }
        3 => fat_u(1, x).clone(),
        _ => panic!("mode"),
    }
}
fn fat_i(mode: u64, x: BigInt) -> BigInt {
    match mode {
        0 => x,
        1 => {
            let mut y = x;
            y <<= 4000usize;
            y >>= 4000usize;
            y
        }
        2 => {
            let big = BigInt::one() << 4100usize;
            let mut y = x;
            if y.is_negative() {
                y -= &big;
                y += &big;
            } else {
                y += &big;
                y -= &big;
            }
            y
        }
        3 => fat_i(1, x).clone(),
        _ => panic!("mode"),
    }
}
fn gi(a: &[&str]) -> BigInt {
    fat_i(arg_n(a[0]), arg_i(a[1]))
}
fn gu(a: &[&str]) -> BigUint {
    fat_u(arg_n(a[0]), arg_u(a[1]))
}
fn ri(x: &BigInt) -> String {
    ok(res_i(x))
}
fn ru(x: &BigUint) -> String {
    ok(res_u(x))
}
fn rb(b: bool) -> String {
    ok(res_bool(b))
}

pub fn dispatch(op: &str, a: &[&str]) -> Option<String> {
    if !op.starts_with("sg.") {
        return None;
    }
    Some(match op {
        "sg.neg" => ri(&(-gi(a))),
        "sg.neg_ref" => ri(&(-&gi(a))),
        "sg.neg_inverse" => {
            let x = gi(a);
            ri(&(&x + &(-&x)))
        }
        "sg.abs" => ri(&gi(a).abs()),
        "sg.signum" => ri(&gi(a).signum()),
        "sg.is_positive" => rb(gi(a).is_positive()),
        "sg.is_negative" => rb(gi(a).is_negative()),
        "sg.sign" => ok(res_sign(gi(a).sign())),
        "sg.magnitude" => ru(gi(a).magnitude()),
        "sg.into_parts" => {
            let (s, m) = gi(a).into_parts();
            ok2(res_sign(s), res_u(&m))
        }
        "sg.roundtrip" => {
            let (s, m) = gi(a).into_parts();
            ri(&BigInt::from_biguint(s, m))
        }
        "sg.abs_sub" => {
            let m = arg_n(a[0]);
            let x = fat_i(m, arg_i(a[1]));
            let y = fat_i(m, arg_i(a[2]));
            ri(&x.abs_sub(&y))
        }
        "sg.cmp" => {
            let m = arg_n(a[0]);
            let x = fat_i(m, arg_i(a[1]));
            let y = fat_i(m, arg_i(a[2]));
            ok(res_cmp(x.cmp(&y)))
        }
        // arg_i is BigInt::from_biguint(sign, magnitude) on the raw pair
        "sg.from_biguint" => ri(&arg_i(a[0])),
        "sg.new" => ri(&BigInt::new(arg_z(a[0]), arg_r(a[1]))),
        "sg.from_slice" => ri(&BigInt::from_slice(arg_z(a[0]), &arg_r(a[1]))),
        "sg.assign_from_slice" => {
            let mut x = gi(a);
            x.assign_from_slice(arg_z(a[2]), &arg_r(a[3]));
            ri(&x)
        }
        "sg.u_from_slice" => {
            let w = arg_r(a[0]);
            let x = BigUint::from_slice(&w);
            let y = BigUint::new(w.clone());
            let mut z = BigUint::from(77u32) << 300usize;
            z.assign_from_slice(&w);
            if x != y || raw_digits(&x) != raw_digits(&y) || raw_digits(&x) != raw_digits(&z) {
                return Some("ok mismatch-between-constructors".to_string());
            }
            ru(&x)
        }
        "sg.to_biguint" => opt(gi(a).to_biguint(), |r| ru(r)),
        "sg.to_biguint_trait" => opt(ToBigUint::to_biguint(&gi(a)), |r| ru(r)),
        "sg.try_from" => opt(BigUint::try_from(gi(a)).ok(), |r| ru(r)),
        "sg.try_from_ref" => opt(BigUint::try_from(&gi(a)).ok(), |r| ru(r)),
        "sg.i_to_bigint" => opt(gi(a).to_bigint(), |r| ri(r)),
        "sg.u_to_bigint" => opt(gu(a).to_bigint(), |r| ri(r)),
        "sg.u_to_biguint" => opt(ToBigUint::to_biguint(&gu(a)), |r| ru(r)),
        "sg.from_u" => ri(&BigInt::from(gu(a))),
        "sg.u_zero" => ru(&<BigUint as Zero>::zero()),
        "sg.u_const_zero" => ru(&BigUint::ZERO),
        "sg.u_zero_trait_const" => ru(&<BigUint as ConstZero>::ZERO),
        "sg.u_default" => ru(&BigUint::default()),
        "sg.u_one" => ru(&<BigUint as One>::one()),
        "sg.i_zero" => ri(&<BigInt as Zero>::zero()),
        "sg.i_const_zero" => ri(&BigInt::ZERO),
        "sg.i_zero_trait_const" => ri(&<BigInt as ConstZero>::ZERO),
        "sg.i_default" => ri(&BigInt::default()),
        "sg.i_one" => ri(&<BigInt as One>::one()),
        "sg.u_is_zero" => rb(gu(a).is_zero()),
        "sg.u_is_one" => rb(gu(a).is_one()),
        "sg.i_is_zero" => rb(gi(a).is_zero()),
        "sg.i_is_one" => rb(gi(a).is_one()),
        "sg.u_set_zero" => {
            let mut x = gu(a);
            x.set_zero();
            ru(&x)
        }
        "sg.u_set_one" => {
            let mut x = gu(a);
            x.set_one();
            ru(&x)
        }
        "sg.i_set_zero" => {
            let mut x = gi(a);
            x.set_zero();
            ri(&x)
        }
        "sg.i_set_one" => {
            let mut x = gi(a);
            x.set_one();
            ri(&x)
        }
        "sg.sign_neg" => ok(res_sign(-arg_z(a[0]))),
        "sg.sign_mul" => ok(res_sign(arg_z(a[0]) * arg_z(a[1]))),
        _ => return None,
    })
}
