//! C02 / C20 operations.
use crate::io::*;
use num_bigint::{BigInt, BigUint};
use num_traits::CheckedMul;

macro_rules! uscalar_op {
    ($ty:expr, $v:expr, |$x:ident| $body:expr) => {
        match $ty {
            "u32" => { let $x: u32 = $v.parse().unwrap(); $body }
            "u64" => { let $x: u64 = $v.parse().unwrap(); $body }
            "u128" => { let $x: u128 = $v.parse().unwrap(); $body }
            _ => panic!("scalar type"),
        }
    };
}
macro_rules! iscalar_op {
    ($ty:expr, $v:expr, |$x:ident| $body:expr) => {
        match $ty {
            "u32" => { let $x: u32 = $v.parse().unwrap(); $body }
            "u64" => { let $x: u64 = $v.parse().unwrap(); $body }
            "u128" => { let $x: u128 = $v.parse().unwrap(); $body }
            "i32" => { let $x: i32 = $v.parse().unwrap(); $body }
            "i64" => { let $x: i64 = $v.parse().unwrap(); $body }
            "i128" => { let $x: i128 = $v.parse().unwrap(); $body }
            _ => panic!("scalar type"),
        }
    };
}

/// The fixed operand bank of C20 (same LCG as MulCost.lcg_digits).
#[allow(dead_code)]
fn lcg_digits(n: usize, seed: u64) -> Vec<u64> {
    let mut x = seed;
    let mut out = Vec::with_capacity(n);
    for _ in 0..n {
        let x1 = (x * 1664525 + 1013904223) % 4294967296;
        let x2 = (x1 * 1664525 + 1013904223) % 4294967296;
        out.push((x1 | 1) + 4294967296 * (x2 | 1));
        x = x2;
    }
    out
}

pub fn dispatch(op: &str, a: &[&str]) -> Option<String> {
    Some(match op {
        "u.mul" => ok(res_u(&(&arg_u(a[0]) * &arg_u(a[1])))),
        "u.mul_assign" => {
            let mut x = arg_u(a[0]);
            x *= &arg_u(a[1]);
            ok(res_u(&x))
        }
        "u.checked_mul" => opt(arg_u(a[0]).checked_mul(&arg_u(a[1])), |r| ok(res_u(r))),
        "u.mul_scalar" => {
            let (ty, v) = arg_s(a[1]);
            let x = arg_u(a[0]);
            let r: BigUint = uscalar_op!(ty, v, |s| x * s);
            ok(res_u(&r))
        }
        "i.mul" => ok(res_i(&(&arg_i(a[0]) * &arg_i(a[1])))),
        "i.mul_assign" => {
            let mut x = arg_i(a[0]);
            x *= &arg_i(a[1]);
            ok(res_i(&x))
        }
        "i.checked_mul" => opt(arg_i(a[0]).checked_mul(&arg_i(a[1])), |r| ok(res_i(r))),
        "i.mul_scalar" => {
            let (ty, v) = arg_s(a[1]);
            let x = arg_i(a[0]);
            let r: BigInt = iscalar_op!(ty, v, |s| x * s);
            ok(res_i(&r))
        }
        #[cfg(num_bigint_verif)]
        "h.mac3" => ok(res_d(&num_bigint::verif::multiplication::mac3(arg_d(a[0]), &arg_d(a[1]), &arg_d(a[2])))),
        #[cfg(num_bigint_verif)]
        "h.mac_digit" => {
            let c: u64 = arg_s(a[2]).1.parse().unwrap();
            ok(res_d(&num_bigint::verif::multiplication::mac_digit(arg_d(a[0]), &arg_d(a[1]), c)))
        }
        #[cfg(num_bigint_verif)]
        "h.mul3" => ok(res_u(&num_bigint::verif::multiplication::mul3(&arg_d(a[0]), &arg_d(a[1])))),
        #[cfg(num_bigint_verif)]
        "h.sub_sign" => {
            let (s, r) = num_bigint::verif::multiplication::sub_sign(&arg_d(a[0]), &arg_d(a[1]));
            ok2(res_sign(s), res_u(&r))
        }
        #[cfg(num_bigint_verif)]
        "h.scalar_mul" => {
            let c: u64 = arg_s(a[1]).1.parse().unwrap();
            ok(res_u(&num_bigint::verif::multiplication::scalar_mul(arg_u(a[0]), c)))
        }
        #[cfg(num_bigint_verif)]
        "h.mul_cost" => {
            let (x, y) = (arg_u(a[0]), arg_u(a[1]));
            let w0 = num_bigint::verif_probe::work();
            let r = &x * &y;
            let w1 = num_bigint::verif_probe::work();
            std::hint::black_box(&r);
            ok(res_n(w1 - w0))
        }
        #[cfg(num_bigint_verif)]
        "h.bank_cost" => {
            let x = mk_biguint(lcg_digits(arg_n(a[0]) as usize, 12345));
            let y = mk_biguint(lcg_digits(arg_n(a[1]) as usize, 67890));
            let w0 = num_bigint::verif_probe::work();
            let r = &x * &y;
            let w1 = num_bigint::verif_probe::work();
            std::hint::black_box(&r);
            ok(res_n(w1 - w0))
        }
        _ => return None,
    })
}
