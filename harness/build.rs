// build.rs — collect src/ops_*.rs into one dispatch table (so areas can be added
// without editing main.rs).
use std::{env, fs, path::Path};
fn main() {
    let src = Path::new(&env::var("CARGO_MANIFEST_DIR").unwrap()).join("src");
    let mut mods: Vec<String> = fs::read_dir(&src)
        .unwrap()
        .filter_map(|e| e.ok())
        .map(|e| e.file_name().into_string().unwrap())
        .filter(|n| n.starts_with("ops_") && n.ends_with(".rs"))
        .map(|n| n.trim_end_matches(".rs").to_string())
        .collect();
    mods.sort();
    let mut out = String::new();
    for m in &mods {
        out += &format!("#[path = \"{}/{}.rs\"]\npub mod {};\n", src.display(), m, m);
    }
    out += "pub fn dispatch(op: &str, a: &[&str]) -> Option<String> {\n";
    for m in &mods {
        out += &format!("    if let Some(r) = {}::dispatch(op, a) {{ return Some(r); }}\n", m);
    }
    out += "    None\n}\n";
    fs::write(Path::new(&env::var("OUT_DIR").unwrap()).join("ops_all.rs"), out).unwrap();
    println!("cargo:rerun-if-changed=src");
    println!("cargo:rustc-check-cfg=cfg(num_bigint_verif)");
}
