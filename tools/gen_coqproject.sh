#!/bin/bash
# Regenerate coq/_CoqProject from the directory contents (so areas can add files without
# editing a shared list).  Only rewrites the file when its content changes.
cd "$(dirname "$0")/../coq"
{
  for d in base spec model proofs gen inst props findings; do echo "-Q $d BigNum"; done
  echo "-arg -w -arg -notation-overridden,-deprecated-hint-without-locality,-deprecated-syntactic-definition"
  for d in base spec model proofs gen inst props findings; do ls $d/*.v 2>/dev/null | grep -v '/_at_'; done
} > _CoqProject.new
if ! cmp -s _CoqProject.new _CoqProject; then mv _CoqProject.new _CoqProject; rm -f Makefile Makefile.conf; else rm _CoqProject.new; fi
[ -f Makefile ] || coq_makefile -f _CoqProject -o Makefile >/dev/null 2>&1
