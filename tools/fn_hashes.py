#!/usr/bin/env python3
"""Drift sentinel (DESIGN §3-C): normalised hashes of every function body of /repo/src.

  tools/fn_hashes.py pin      rewrite tools/fn_hashes.json from the current tree (done when the
                              models are (re)validated against the source)
  tools/fn_hashes.py diff     print JSON {"changed": [...], "added": [...], "removed": [...]}

A changed hash is NOT a violation; `check` reports it in the evidence and escalates the case
budget of the properties anchored in the affected files.
"""
import sys, os, re, json, hashlib
ROOT = os.path.dirname(os.path.dirname(os.path.abspath(__file__)))
REPO = os.environ.get("VERIF_REPO", "/repo")
BASE = os.path.join(ROOT, "tools", "fn_hashes.json")

def strip(text):
    text = re.sub(r"//[^\n]*", "", text)
    text = re.sub(r"/\*.*?\*/", "", text, flags=re.S)
    # verification-only instrumentation is not part of the modelled code
    text = re.sub(r"#\[cfg\(num_bigint_verif\)\]\s*\n?\s*[^\n;{]*;", "", text)
    return text

KEYWORDS = set("""as break const continue crate else enum extern false fn for if impl in let loop match mod move mut
pub ref return self Self static struct super trait true type unsafe use where while dyn async await""".split())

def alpha(body):
    """Rename the local binders of one function (parameters, `let`, `for`, closure parameters, tuple
    patterns of those) to v0, v1, ... in order of first binding, so that a consistent renaming of
    local variables does not change the hash.  Field and method names (after `.`), paths (`a::b`)
    and macro / function names are left alone; a name is only renamed if it is bound somewhere in
    this function, and every unqualified occurrence of it is renamed the same way, so two bodies
    with the same normal form differ by a consistent renaming of locals only."""
    bound = []
    def add(names):
        for n in re.findall(r"\b[a-z_][a-z0-9_]*\b", names):
            if n not in KEYWORDS and n != "_" and n not in bound:
                bound.append(n)
    sig = re.match(r"fn\s+\w+\s*(?:<[^{(]*>)?\s*\(", body)
    events = []
    if sig:
        depth, k = 1, sig.end()
        while k < len(body) and depth:
            depth += body[k] == "("
            depth -= body[k] == ")"
            k += 1
        params = body[sig.end():k - 1]
        for m in re.finditer(r"(?:^|,)\s*(?:mut\s+)?(\w+)\s*:", params):
            events.append((sig.end() + m.start(), m.group(1)))
    for m in re.finditer(r"\blet\s+(?:mut\s+)?(\w+)\b", body):
        events.append((m.start(), m.group(1)))
    for m in re.finditer(r"\b(?:let|for)\s+(?:mut\s+)?\(([^=]*?)\)\s*(?:=|in\b|:)", body):
        events.append((m.start(), re.sub(r"\bmut\b|\bref\b", " ", m.group(1))))
    for m in re.finditer(r"\bfor\s+(?:mut\s+)?(\w+)\s+in\b", body):
        events.append((m.start(), m.group(1)))
    for m in re.finditer(r"(?<![|])\|([^|{};]{0,80})\|(?![|])", body):
        inner = re.sub(r":[^,|]*", "", m.group(1))
        if re.fullmatch(r"[\s\w,&()]*", inner):
            events.append((m.start(), re.sub(r"\bmut\b|\bref\b", " ", inner)))
    for m in re.finditer(r"\b(?:Some|Ok|Err)\(\s*(?:mut\s+|ref\s+)*(\w+)\s*\)\s*(?:=>|=(?!=)|if\b)", body):
        events.append((m.start(), m.group(1)))
    for m in re.finditer(r"[{,]\s*([a-z_]\w*)\s*=>", body):
        events.append((m.start(), m.group(1)))
    for _, names in sorted(events):
        add(names)
    if not bound:
        return body
    idx = {n: "v%d" % i for i, n in enumerate(bound)}
    def sub(m):
        n = m.group(0)
        if n not in idx:
            return n
        pre = body[max(0, m.start() - 2):m.start()]
        post = body[m.end():m.end() + 2]
        if pre.endswith(".") and not pre.endswith(".."):
            return n
        if pre.endswith("::") or post.startswith("::") or post.startswith("!"):
            return n
        return idx[n]
    return re.sub(r"\b[a-z_][a-z0-9_]*\b", sub, body)

def functions(path):
    code = strip(open(path, errors="replace").read())
    out = {}
    for m in re.finditer(r"\bfn\s+(\w+)", code):
        i = code.find("{", m.end())
        j = code.find(";", m.end())
        if i < 0 or (0 <= j < i):
            continue
        depth = 0
        for k in range(i, len(code)):
            if code[k] == "{":
                depth += 1
            elif code[k] == "}":
                depth -= 1
                if depth == 0:
                    body = alpha(re.sub(r"\s+", " ", code[m.start():k + 1]).strip())
                    name = m.group(1)
                    n = sum(1 for key in out if key.split("#")[0] == name)
                    out[name if n == 0 else "%s#%d" % (name, n)] = hashlib.sha256(body.encode()).hexdigest()[:12]
                    break
    return out

def current():
    res = {}
    for d, _, fs in os.walk(os.path.join(REPO, "src")):
        for f in sorted(fs):
            if f.endswith(".rs") and f != "verif_probe.rs":
                rel = os.path.relpath(os.path.join(d, f), REPO)
                for k, v in functions(os.path.join(d, f)).items():
                    res["%s::%s" % (rel, k)] = v
    return res

def diff():
    base = json.load(open(BASE)) if os.path.exists(BASE) else {}
    cur = current()
    return {"changed": sorted(k for k in cur if k in base and base[k] != cur[k]),
            "added": sorted(k for k in cur if k not in base),
            "removed": sorted(k for k in base if k not in cur)}

if __name__ == "__main__":
    if len(sys.argv) > 1 and sys.argv[1] == "pin":
        json.dump(current(), open(BASE, "w"), indent=0, sort_keys=True)
        print("pinned", len(current()), "functions")
    else:
        json.dump(diff(), sys.stdout, indent=1)
        print()
