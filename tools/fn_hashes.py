#!/usr/bin/env python3
"""Drift sentinel (DESIGN §3-C): normalised hashes of every function body of /repo/src.

  tools/fn_hashes.py pin      rewrite tools/fn_hashes.json (+ fn_binders.json) from the current tree
                              (done when the models are (re)validated against the source)
  tools/fn_hashes.py diff     print JSON {"changed": [...], "added": [...], "removed": [...]}

The hash of a function ignores comments, whitespace, verification-only instrumentation and the
NAMES of its local binders (parameters, `let`, `for`, closure parameters, `Some(x)`/match-arm
binders): they are renamed v0, v1, ... in order of first binding.  `canonicalise(rel, text)` uses
the pinned binder lists to rename the locals of an alpha-equivalent function back to the pinned
names, so that the extractors (whose anchors mention local names) read a consistently renamed
function exactly as they read the pinned one.

A changed hash is NOT a violation by itself; `check` reports it in the evidence, escalates the
case budget of the properties whose model restates the function (tools/drift_map.py) and, for
those, reports the broken tie when nothing else explains it.
"""
import sys, os, re, json, hashlib
ROOT = os.path.dirname(os.path.dirname(os.path.abspath(__file__)))
REPO = os.environ.get("VERIF_REPO", "/repo")
BASE = os.path.join(ROOT, "tools", "fn_hashes.json")
BINDERS = os.path.join(ROOT, "tools", "fn_binders.json")

KEYWORDS = set("""as break const continue crate else enum extern false fn for if impl in let loop match mod move mut
pub ref return self Self static struct super trait true type unsafe use where while dyn async await""".split())

def mask(text):
    """Same-length copies of `text`: (code, nostr) where comments are blanked in both and the
    contents of string / char literals are additionally blanked in `nostr`.  Newlines are kept."""
    code, nostr = list(text), list(text)
    i, n = 0, len(text)
    def blank(arr, a, b):
        for k in range(a, b):
            if arr[k] != "\n":
                arr[k] = " "
    while i < n:
        c = text[i]
        if text.startswith("//", i):
            j = text.find("\n", i)
            j = n if j < 0 else j
            blank(code, i, j); blank(nostr, i, j)
            i = j
        elif text.startswith("/*", i):
            depth, j = 1, i + 2
            while j < n and depth:
                if text.startswith("/*", j):
                    depth += 1; j += 2
                elif text.startswith("*/", j):
                    depth -= 1; j += 2
                else:
                    j += 1
            blank(code, i, j); blank(nostr, i, j)
            i = j
        elif c == '"':
            j = i + 1
            while j < n and text[j] != '"':
                j += 2 if text[j] == "\\" else 1
            blank(nostr, i + 1, min(j, n))
            i = j + 1
        elif c == "r" and re.match(r'r#*"', text[i:i + 8]) and (i == 0 or not (text[i - 1].isalnum() or text[i - 1] == "_")):
            m = re.match(r'r(#*)"', text[i:])
            close = '"' + m.group(1)
            j = text.find(close, i + m.end())
            j = n if j < 0 else j
            blank(nostr, i + m.end(), j)
            i = j + len(close)
        elif c == "'":
            m = re.match(r"'(\\.[^']*|[^'\\])'", text[i:i + 12])
            if m:                                   # char literal (a lifetime has no closing quote)
                blank(nostr, i + 1, i + m.end() - 1)
                i += m.end()
            else:
                i += 1
        else:
            i += 1
    return "".join(code), "".join(nostr)

def binders(ns):
    """Ordered list of the local binder names of one function; `ns` is its text with comments and
    literal contents blanked."""
    bound, events = [], []
    sig = re.match(r"fn\s+\$?\w+\s*(?:<[^{(]*>)?\s*\(", ns)
    if sig:
        depth, k = 1, sig.end()
        while k < len(ns) and depth:
            depth += ns[k] == "("
            depth -= ns[k] == ")"
            k += 1
        params = ns[sig.end():k - 1]
        for m in re.finditer(r"(?:^|,)\s*(?:mut\s+)?(\w+)\s*:", params):
            events.append((sig.end() + m.start(), m.group(1)))
    for m in re.finditer(r"\blet\s+(?:mut\s+)?(\w+)\b", ns):
        events.append((m.start(), m.group(1)))
    for m in re.finditer(r"\b(?:let|for)\s+(?:mut\s+)?\(([^=]*?)\)\s*(?:=|in\b|:)", ns):
        events.append((m.start(), re.sub(r"\bmut\b|\bref\b", " ", m.group(1))))
    for m in re.finditer(r"\bfor\s+(?:mut\s+)?(\w+)\s+in\b", ns):
        events.append((m.start(), m.group(1)))
    for m in re.finditer(r"(?<![|])\|([^|{};]{0,80})\|(?![|])", ns):
        inner = re.sub(r":[^,|]*", "", m.group(1))
        if re.fullmatch(r"[\s\w,&()]*", inner):
            events.append((m.start(), re.sub(r"\bmut\b|\bref\b", " ", inner)))
    for m in re.finditer(r"\b(?:Some|Ok|Err)\(\s*(?:mut\s+|ref\s+)*(\w+)\s*\)\s*(?:=>|=(?!=)|if\b)", ns):
        events.append((m.start(), m.group(1)))
    for m in re.finditer(r"[{,]\s*([a-z_]\w*)\s*=>", ns):
        events.append((m.start(), m.group(1)))
    for _, names in sorted(events):
        for n in re.findall(r"\b[a-z_][a-z0-9_]*\b", names):
            if n not in KEYWORDS and n != "_" and n not in bound:
                bound.append(n)
    return bound

def rename(text, ns, mapping):
    """Replace every unqualified occurrence (found in `ns`, applied to `text`; same length) of a
    name in `mapping`.  Field and method names (after `.`), paths (`a::b`), macro names and
    lifetimes are left alone."""
    out, last = [], 0
    for m in re.finditer(r"\b[a-z_][a-z0-9_]*\b", ns):
        n = m.group(0)
        if n not in mapping:
            continue
        pre = ns[max(0, m.start() - 2):m.start()]
        post = ns[m.end():m.end() + 2]
        if (pre.endswith(".") and not pre.endswith("..")) or pre.endswith("::") or pre.endswith("'") \
           or post.startswith("::") or post.startswith("!"):
            continue
        out.append(text[last:m.start()])
        out.append(mapping[n])
        last = m.end()
    out.append(text[last:])
    return "".join(out)

VERIF_STMT = re.compile(r"#\[cfg\(num_bigint_verif\)\]\s*[^\n;{]*;")

def spans(code):
    """(key, start, end) of every function with a body, in file order; keys as in fn_hashes.json."""
    seen = {}
    for m in re.finditer(r"\bfn\s+(\$?\w+)", code):     # `fn $method` inside macro definitions too
        i = code.find("{", m.end())
        j = code.find(";", m.end())
        if i < 0 or (0 <= j < i):
            continue
        depth = 0
        for k in range(i, len(code)):
            if code[k] == "{":
                depth += 1
            elif code[k] == "}":
                depth -= 1
                if depth == 0:
                    name = m.group(1)
                    n = seen.get(name, 0)
                    seen[name] = n + 1
                    yield (name if n == 0 else "%s#%d" % (name, n)), m.start(), k + 1
                    break

def normal_form(code_seg, ns_seg):
    """(hash, binder list) of one function given its comment-blanked text and literal-blanked text."""
    # blank verification-only statements in both copies (same length)
    for m in list(VERIF_STMT.finditer(code_seg)):
        pad = re.sub(r"[^\n]", " ", m.group(0))
        code_seg = code_seg[:m.start()] + pad + code_seg[m.end():]
        ns_seg = ns_seg[:m.start()] + pad + ns_seg[m.end():]
    b = binders(ns_seg)
    body = rename(code_seg, ns_seg, {n: "v%d" % i for i, n in enumerate(b)})
    body = re.sub(r"\s+", " ", body).strip()
    return hashlib.sha256(body.encode()).hexdigest()[:12], b

def functions_text(text):
    code, ns = mask(text)
    out = {}
    for key, a, b in spans(code):
        out[key] = normal_form(code[a:b], ns[a:b]) + (a, b)
    return out

def items_hash(text):
    """Hash of everything OUTSIDE function bodies (items, macro definitions and invocations, impl
    headers, consts, attributes), comments and whitespace ignored."""
    code, _ = mask(text)
    out, last = [], 0
    for _, a, b in spans(code):
        if a < last:
            continue
        out.append(code[last:a]); last = b
    out.append(code[last:])
    t = re.sub(r"\s+", " ", VERIF_STMT.sub("", "".join(out))).strip()
    return hashlib.sha256(t.encode()).hexdigest()[:12]

def functions(path):
    return {k: v[0] for k, v in functions_text(open(path, errors="replace").read()).items()}

def in_impl(text):
    """keys of the functions of `text` that are defined directly inside an `impl` block (methods and
    trait-method implementations, as opposed to free functions and functions nested in them)"""
    code, _ = mask(text)
    starts = {a: key for key, a, b in spans(code)}
    out, stack = set(), []
    for i, ch in enumerate(code):
        if i in starts and stack:
            j = stack[-1]
            k = max(code.rfind(";", 0, j), code.rfind("}", 0, j), code.rfind("{", 0, j))
            if re.search(r"\bimpl\b", code[k + 1:j]):
                out.add(starts[i])
        if ch == "{":
            stack.append(i)
        elif ch == "}" and stack:
            stack.pop()
    return out

def _pins(_cache={}):
    if "pins" not in _cache:
        try:
            hashes, pinned = json.load(open(BASE)), json.load(open(BINDERS))
        except Exception:
            hashes, pinned = {}, {}
        by = {}
        for k, h in hashes.items():
            by[(k.split("#")[0], h)] = pinned.get(k)
        _cache["pins"] = by
    return _cache["pins"]

def canonicalise(rel, text):
    """`text` of source file `rel` with the locals of every function that is alpha-equivalent to
    a pinned function of the same file and name renamed back to the pinned names (outermost
    functions only; nested ones are part of their parent's normal form).  Anything else is
    returned unchanged."""
    by = _pins()
    code, ns = mask(text)
    pieces, last = [], 0
    for key, (h, b, s, e) in sorted(functions_text(text).items(), key=lambda kv: kv[1][2]):
        if s < last:
            continue
        want = by.get(("%s::%s" % (rel, key.split("#")[0]), h))
        if want is None or want == b or len(want) != len(b):
            continue
        # two-step renaming (via fresh placeholders) so that swapped names do not collide
        tmp = {n: "\x01%d\x02" % i for i, n in enumerate(b)}
        seg = rename(text[s:e], ns[s:e], tmp)
        for i, n in enumerate(want):
            seg = seg.replace("\x01%d\x02" % i, n)
        pieces.append(text[last:s]); pieces.append(seg)
        last = e
    pieces.append(text[last:])
    return "".join(pieces)

def current(with_binders=False):
    res, bnd = {}, {}
    for d, _, fs in os.walk(os.path.join(REPO, "src")):
        for f in sorted(fs):
            if f.endswith(".rs") and f != "verif_probe.rs":
                rel = os.path.relpath(os.path.join(d, f), REPO)
                text = open(os.path.join(d, f), errors="replace").read()
                for k, v in functions_text(text).items():
                    res["%s::%s" % (rel, k)] = v[0]
                    bnd["%s::%s" % (rel, k)] = v[1]
                res["%s::<items>" % rel] = items_hash(text)
    return (res, bnd) if with_binders else res

def diff():
    """Functions are compared as multisets per (file, name), so inserting or removing one of several
    same-named functions (`fn from` ...) does not shift the others.  `changed`: a current function whose
    normal form matches no pinned function of that file and name while a pinned one is unmatched too;
    `added` / `removed`: the surplus on either side.  `<items>` keys are the per-file hashes of
    everything outside function bodies."""
    base = json.load(open(BASE)) if os.path.exists(BASE) else {}
    cur = current()
    def group(d):
        g = {}
        for k, h in d.items():
            g.setdefault(k.split("#")[0], []).append((h, k))
        return g
    gb, gc = group(base), group(cur)
    changed, added, removed = [], [], []
    for name in sorted(set(gb) | set(gc)):
        pb = [h for h, _ in gb.get(name, [])]
        extra = []
        for h, k in gc.get(name, []):
            if h in pb:
                pb.remove(h)
            else:
                extra.append(k)
        n = min(len(pb), len(extra))
        changed += extra[:n]
        added += extra[n:]
        removed += [name] * (len(pb) - n)
    # an ADDED function that sits directly in an impl block can override a default trait method
    # (Iterator::nth, Integer::div_ceil, PartialOrd::lt ...) and so change behaviour without
    # touching any existing body; such keys are reported separately
    added_in_impl = []
    if added:
        for rel in sorted(set(k.split("::")[0] for k in added)):
            try:
                inside = in_impl(open(os.path.join(REPO, rel), errors="replace").read())
            except OSError:
                continue
            added_in_impl += [k for k in added if k.startswith(rel + "::") and k.split("::", 1)[1] in inside]
    return {"changed": sorted(changed), "added": sorted(added), "removed": sorted(removed), "added_in_impl": sorted(added_in_impl)}

if __name__ == "__main__":
    if len(sys.argv) > 1 and sys.argv[1] == "pin":
        h, b = current(with_binders=True)
        json.dump(h, open(BASE, "w"), indent=0, sort_keys=True)
        json.dump(b, open(BINDERS, "w"), indent=0, sort_keys=True)
        # functions that contain a cfg(feature = ...) site (C16's strict drift map)
        cfg = set()
        for d, _, fs in os.walk(os.path.join(REPO, "src")):
            for f in sorted(fs):
                if f.endswith(".rs") and f != "verif_probe.rs":
                    rel = os.path.relpath(os.path.join(d, f), REPO)
                    code, _ns = mask(open(os.path.join(d, f), errors="replace").read())
                    for key, a0, b0 in spans(code):
                        if re.search(r"cfg\(\s*(not\(\s*)?feature", code[a0:b0]):
                            cfg.add("%s::%s" % (rel, key.split("#")[0]))
        json.dump(sorted(cfg), open(os.path.join(ROOT, "tools", "cfg_fns.json"), "w"), indent=0)
        print("pinned", len(h), "functions")
    else:
        json.dump(diff(), sys.stdout, indent=1)
        print()
