#!/usr/bin/env python3
"""Drift sentinel (DESIGN §3-C): normalised hashes of every function body of /repo/src.

  tools/fn_hashes.py pin      rewrite tools/fn_hashes.json from the current tree (done when the
                              models are (re)validated against the source)
  tools/fn_hashes.py diff     print JSON {"changed": [...], "added": [...], "removed": [...]}

A changed hash is NOT a violation; `check` reports it in the evidence and escalates the case
budget of the properties anchored in the affected files.
"""
import sys, os, re, json, hashlib
ROOT = os.path.dirname(os.path.dirname(os.path.abspath(__file__)))
REPO = os.environ.get("VERIF_REPO", "/repo")
BASE = os.path.join(ROOT, "tools", "fn_hashes.json")

def strip(text):
    text = re.sub(r"//[^\n]*", "", text)
    text = re.sub(r"/\*.*?\*/", "", text, flags=re.S)
    # verification-only instrumentation is not part of the modelled code
    text = re.sub(r"#\[cfg\(num_bigint_verif\)\]\s*\n?\s*[^\n;{]*;", "", text)
    return text

def functions(path):
    code = strip(open(path, errors="replace").read())
    out = {}
    for m in re.finditer(r"\bfn\s+(\w+)", code):
        i = code.find("{", m.end())
        j = code.find(";", m.end())
        if i < 0 or (0 <= j < i):
            continue
        depth = 0
        for k in range(i, len(code)):
            if code[k] == "{":
                depth += 1
            elif code[k] == "}":
                depth -= 1
                if depth == 0:
                    body = re.sub(r"\s+", " ", code[m.start():k + 1]).strip()
                    name = m.group(1)
                    n = sum(1 for key in out if key.split("#")[0] == name)
                    out[name if n == 0 else "%s#%d" % (name, n)] = hashlib.sha256(body.encode()).hexdigest()[:12]
                    break
    return out

def current():
    res = {}
    for d, _, fs in os.walk(os.path.join(REPO, "src")):
        for f in sorted(fs):
            if f.endswith(".rs") and f != "verif_probe.rs":
                rel = os.path.relpath(os.path.join(d, f), REPO)
                for k, v in functions(os.path.join(d, f)).items():
                    res["%s::%s" % (rel, k)] = v
    return res

def diff():
    base = json.load(open(BASE)) if os.path.exists(BASE) else {}
    cur = current()
    return {"changed": sorted(k for k in cur if k in base and base[k] != cur[k]),
            "added": sorted(k for k in cur if k not in base),
            "removed": sorted(k for k in base if k not in cur)}

if __name__ == "__main__":
    if len(sys.argv) > 1 and sys.argv[1] == "pin":
        json.dump(current(), open(BASE, "w"), indent=0, sort_keys=True)
        print("pinned", len(current()), "functions")
    else:
        json.dump(diff(), sys.stdout, indent=1)
        print()
