#!/bin/bash
# build_driver.sh — (re)extract the model to OCaml and build ocaml/driver (cached by content hash).
set -e
ROOT=$(cd "$(dirname "$0")/.." && pwd)
cd "$ROOT"
CACHE=${VERIF_CACHE:-$ROOT/.cache}
mkdir -p "$CACHE"
MODS_V=$(ls coq/model/*.v coq/spec/*.v 2>/dev/null)
KEY=$(cat coq/base/Base.v coq/base/X86.v $MODS_V coq/gen/Extracted.v coq/extract/Extract.v ocaml/*.ml tools/build_driver.sh | sha256sum | cut -c1-16)
if [ -f "$CACHE/driver.key" ] && [ "$(cat $CACHE/driver.key)" = "$KEY" ] && [ -x "$CACHE/driver" ]; then
  echo "driver: cached ($KEY)"; exit 0
fi
# 1. compile what extraction needs
TARGETS=""
for f in $MODS_V coq/gen/Extracted.v; do TARGETS="$TARGETS ${f#coq/}o"; done
coq_build() { ( cd coq && ../tools/gen_coqproject.sh && timeout 1800 make -j16 $TARGETS >"$CACHE/driver_make.log" 2>&1 ); }
if ! coq_build; then
  # a compiled file left truncated or stale by an interrupted run (killed check, timeout) is not a
  # property of the source: remove the compiled files and rebuild once
  if grep -qE "bad magic number|truncated|premature end of file|Try to rebuild|inconsistent assumptions|End_of_file|corrupted|Bad version|input_value|not a valid object file" "$CACHE/driver_make.log"; then
    find coq -name "*.vo" -o -name "*.vos" -o -name "*.vok" -o -name "*.glob" -o -name ".*.aux" | xargs rm -f
    coq_build || { echo "driver: coq build failed"; tail -5 "$CACHE/driver_make.log"; exit 2; }
  else
    echo "driver: coq build failed"; tail -5 "$CACHE/driver_make.log"; exit 2
  fi
fi
# 2. extract
EX=$CACHE/extract
rm -rf "$EX"; mkdir -p "$EX"
MODS="Base X86"
for f in $MODS_V; do MODS="$MODS $(basename $f .v)"; done
MODS="$MODS Extracted"
{ cat coq/extract/Extract.v; echo "From BigNum Require Import $MODS."; echo "Separate Extraction $MODS."; } > "$EX/E.v"
( cd "$EX" && timeout 600 coqc -noglob $(grep -E '^-Q' $ROOT/coq/_CoqProject | sed "s# \([a-z]*\) BigNum# $ROOT/coq/\1 BigNum#" | tr '\n' ' ') E.v >/dev/null 2>extract.err ) || { echo "driver: extraction failed"; cat $EX/extract.err | head -20; exit 2; }
rm -f "$EX"/E.* "$EX"/*.mli
# 3. driver sources
cp ocaml/*.ml "$EX/"
{ echo "let init () ="; for f in ocaml/ops_*.ml; do m=$(basename $f .ml); [ "$m" = ops_all ] && continue; echo "  ${m^}.init ();"; done; echo "  ()"; } > "$EX/ops_all.ml"
# 4. compile
( cd "$EX" && ORDER=$(ocamlfind ocamldep -sort *.ml) && ocamlfind ocamlopt -package zarith -linkpkg -w -a -O2 -unboxed-types 2>/dev/null $ORDER -o driver 2>/dev/null || ocamlfind ocamlopt -package zarith -linkpkg -w -a $ORDER -o driver ) || { echo "driver: ocaml build failed"; exit 2; }
cp "$EX/driver" "$CACHE/driver"
echo "$KEY" > "$CACHE/driver.key"
echo "driver: built ($KEY)"
