#!/bin/bash
# eval_seed.sh <seeded/dir> <Cnn> [<Cnn>...] — run checks against a seeded change WITHOUT touching
# /repo: the change is applied in a scratch worktree and the checks run with VERIF_REPO pointing
# at it (own cache dir so the normal caches stay valid).  For the final confirmation the brief's
# procedure (git -C /repo apply; check; git -C /repo checkout -- .) gives the same result.
D=$(cd "$1" && pwd); shift
W=/tmp/seedrepo_$$
git -C /repo worktree add -q --detach $W HEAD || exit 2
trap "git -C /repo worktree remove --force $W" EXIT
git -C $W apply "$D/patch.diff" || { echo "patch does not apply"; exit 2; }
cd "$(dirname "$0")/.."
for p in "$@"; do
  VERIF_REPO=$W ./check $p 2>&1 | grep -E "^\[C..\] (coq|cases|ok|FAIL)|VIOLATION|guard|matrix|transcripts|release"
done
# restore caches bound to /repo
python3 tools/extract.py >/dev/null
