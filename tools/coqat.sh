#!/bin/bash
# usage: coqat.sh <file.v> <line>   — show the proof state after <line> (run from /verif/coq)
f=$1; n=$2
tmp=$(dirname $f)/_at_$$.v
head -n $n $f > $tmp
echo "Show. " >> $tmp
timeout 300 coqc -noglob $(grep -E '^-Q' _CoqProject | tr '\n' ' ') $tmp 2>&1 | tail -${3:-40}
rm -f $tmp $(dirname $f)/_at_$$.vo* $(dirname $f)/._at_$$.aux $(dirname $f)/_at_$$.glob
