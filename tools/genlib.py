"""genlib.py — shared helpers for case generators (tools/gen/<prop>.py).

Every random choice comes from the `random.Random` instance passed in (seeded from
VERIF_SEED), so runs replay exactly.
"""
import random

B = 1 << 64
MAXD = B - 1

DIGIT_ALPHABET = [0, 1, 2, (1 << 63) - 1, 1 << 63, MAXD - 1, MAXD, (1 << 32) - 1, 1 << 32]

def rand_digit(rng):
    k = rng.random()
    if k < 0.35:
        return rng.choice(DIGIT_ALPHABET)
    if k < 0.5:
        return 1 << rng.randrange(64)            # sparse
    if k < 0.6:
        return MAXD ^ (1 << rng.randrange(64))   # dense with one hole
    return rng.getrandbits(64)

def rand_digits(rng, n, pattern=None):
    """n little-endian digits; top digit non-zero unless n == 0."""
    if n == 0:
        return []
    pattern = pattern or rng.choice(["rand", "rand", "alpha", "ones", "sparse", "zeros_inside", "runs"])
    if pattern == "ones":
        d = [MAXD] * n
    elif pattern == "sparse":
        d = [0] * n
        d[rng.randrange(n)] = rand_digit(rng) or 1
    elif pattern == "alpha":
        d = [rng.choice(DIGIT_ALPHABET) for _ in range(n)]
    elif pattern == "zeros_inside":
        d = [rand_digit(rng) if rng.random() < 0.4 else 0 for _ in range(n)]
    elif pattern == "runs":
        d = []
        while len(d) < n:
            v = rng.choice([0, MAXD, rand_digit(rng)])
            d += [v] * rng.randint(1, 7)
        d = d[:n]
    else:
        d = [rng.getrandbits(64) for _ in range(n)]
    if d[-1] == 0:
        d[-1] = rng.choice([1, MAXD, 1 << 63, rng.getrandbits(64) | 1])
    return d

def val(digits):
    v = 0
    for i, d in enumerate(digits):
        v |= d << (64 * i)
    return v

def to_digits(v):
    assert v >= 0
    out = []
    while v:
        out.append(v & MAXD)
        v >>= 64
    return out

def fmt_digits(digits):
    return ",".join("%x" % d for d in digits)

def U(x):
    """BigUint argument from an int or a digit list (digit lists may be non-canonical)."""
    if isinstance(x, int):
        x = to_digits(x)
    return "u:" + fmt_digits(x)

def D(digits):
    return "d:" + fmt_digits(digits)

def I(x):
    """BigInt argument from an int."""
    if isinstance(x, int):
        s = "-" if x < 0 else ("0" if x == 0 else "+")
        return "i:%s:%s" % (s, fmt_digits(to_digits(abs(x))))
    sign, digits = x            # explicit (sign char, digits), possibly inconsistent
    return "i:%s:%s" % (sign, fmt_digits(digits))

def N(n):
    return "n:%d" % n

def S(ty, v):
    return "s:%s:%d" % (ty, v)

def Bytes(b):
    return "b:" + bytes(b).hex()

def T(text):
    if isinstance(text, str):
        text = text.encode()
    out = []
    for k in text:
        c = chr(k)
        if c.isascii() and (c.isalnum() or c in "-_.+"):
            out.append(c)
        else:
            out.append("%%%02x" % k)
    return "t:" + "".join(out)

def F(bits):
    return "f:%016x" % bits

def G(bits):
    return "g:%08x" % bits

def rand_big(rng, lens):
    return val(rand_digits(rng, rng.choice(lens)))

def rand_signed(rng, lens):
    v = rand_big(rng, lens)
    return -v if rng.random() < 0.5 else v

def nontrivial_default(case_line):
    """Default rule: a case is non-trivial if some argument has >= 2 digits."""
    for tok in case_line.split(" ")[1:]:
        if tok[:2] in ("u:", "d:") and "," in tok:
            return True
        if tok[:2] == "i:" and "," in tok:
            return True
    return False

# ---------------------------------------------------------------- Coq term rendering (in-Coq cross-check)
PANIC_COQ = {"divzero": "DivZero", "subunderflow": "SubUnderflow", "negshift": "NegShift",
             "badradix": "BadRadix", "zeromodulus": "ZeroModulus", "negexponent": "NegExponent",
             "imagroot": "ImagRoot", "zeroroot": "ZeroRoot", "emptyrange": "EmptyRange",
             "memoverflow": "MemOverflow"}

def coq_z(v):
    return "(%d)" % v

def parse_digits(tok):
    """'u:1,ff' / 'd:...' -> list of ints"""
    s = tok.split(":", 1)[1]
    return [int(h, 16) for h in s.split(",")] if s else []

def coq_list(tok_or_list):
    l = parse_digits(tok_or_list) if isinstance(tok_or_list, str) else tok_or_list
    return "[" + "; ".join("%d" % d for d in l) + "]"

def coq_bigint(tok):
    _, s, digs = tok.split(":", 2)
    sg = {"-": "Minus", "0": "NoSign", "+": "Plus"}[s]
    l = [int(h, 16) for h in digs.split(",")] if digs else []
    return "(mkint %s %s)" % (sg, coq_list(l))

def coq_scalar(tok):
    _, ty, v = tok.split(":")
    return ty, int(v)

def coq_cmp(tok):
    return {"o:lt": "Lt", "o:eq": "Eq", "o:gt": "Gt"}[tok]

def coq_payload(tok):
    """Render one payload token generically."""
    if tok[:2] in ("u:", "d:"):
        return coq_list(tok)
    if tok[:2] == "i:":
        return coq_bigint(tok)
    if tok[:2] == "n:":
        return "(%s)" % tok[2:]
    if tok[:2] == "o:":
        return coq_cmp(tok)
    if tok[:2] == "z:":
        return {"z:-1": "Minus", "z:0": "NoSign", "z:1": "Plus"}[tok]
    raise ValueError(tok)

def coq_result(line, some=False, render=None):
    """Coq term of type `outcome T` for a model result line.
    some=True wraps an `ok` payload in `Some` (and `none` becomes `Ret None`)."""
    if line.startswith("panic:"):
        k = line[6:]
        if k == "outoffuel":
            return "OutOfFuel"
        if k.startswith("internal"):
            return "Panic (Internal %s)" % k[8:]
        return "Panic %s" % PANIC_COQ[k]
    if line == "none":
        return "Ret None"
    if line.startswith("ok"):
        toks = line.split(" ")[1:]
        if render:
            body = render(toks)
        elif len(toks) == 1:
            body = coq_payload(toks[0])
        else:
            body = "(" + ", ".join(coq_payload(t) for t in toks) + ")"
        return "Ret (Some %s)" % body if some else "Ret %s" % body
    return None
