#!/bin/bash
# regress_seeds.sh [ids...] — re-evaluate every seeded change (seeded/<id>/) against the check of its
# primary property and report whether a VIOLATION with a concrete failing input is still printed.
cd "$(dirname "$0")/.."
ids="$@"; [ -z "$ids" ] && ids=$(ls seeded)
for id in $ids; do
  [ -f seeded/$id/meta.json ] || continue
  prop=$(python3 -c "import json; print(json.load(open('seeded/$id/meta.json'))['property'])")
  rm -f replays/*.json
  out=$(tools/eval_seed.sh seeded/$id $prop 2>&1 | grep -E "VIOLATION|ok in|FAIL")
  if echo "$out" | grep -q "VIOLATION property=$prop replay=[^ ]*$"; then verdict="CAUGHT (failing input)";
  elif echo "$out" | grep -q "no-failing-input-found"; then verdict="caught (no-failing-input-found)";
  else verdict="MISSED"; fi
  echo "$id $prop $verdict"
done
rm -f replays/*.json
python3 tools/extract.py > /dev/null
