#!/usr/bin/env python3
"""api_coverage.py — writes docs/API_COVERAGE.md (audit tool, not part of ./check).

The rows below are the auditor's mapping  public item -> property / ops / model function / theorems.
Everything that CAN be checked mechanically is checked each time this script runs:
  * every op named exists in harness/src/ops_*.rs AND in ocaml/ops_*.ml,
  * every op is produced by the owning property's generator (quick tier, seed 1),
  * every model function exists in coq/model/*.v (or spec/ for Z-level helpers),
  * every theorem exists in coq/props/*.v,
  * every `impl` and inherent `pub fn` that tools/api_inventory.py finds in /repo (macro-expanded)
    is claimed by some row (operator families are claimed by the C10 forms table),
  * every free / private function of the crate is claimed by a row of the helper table.
A failed check aborts (so the table cannot silently go stale).
"""
import sys, os, re, json, glob, subprocess, collections, importlib, random

ROOT = os.path.dirname(os.path.dirname(os.path.abspath(__file__)))
sys.path.insert(0, os.path.join(ROOT, "tools"))
sys.path.insert(0, os.path.join(ROOT, "tools", "gen"))

P = "proved+exercised"
E = "exercised only"
M = "modelled-not-exercised"
N = "NOT COVERED"

# ---------------------------------------------------------------------------------------------------
# rows: (item, source, property, ops, model functions, theorems, status, note)
# `claims`: patterns "Trait|Self" / "inherent:Type::fn" matched against the inventory
R = []
def row(item, src, prop, ops, model, thms, status, note="", claims=()):
    R.append(dict(item=item, src=src, prop=prop, ops=ops.split() if isinstance(ops, str) else ops,
                  model=model.split() if isinstance(model, str) else model,
                  thms=thms.split() if isinstance(thms, str) else thms, status=status, note=note, claims=list(claims)))

SEC = []
def section(title, text=""):
    SEC.append((len(R), title, text))

U, I = "src/biguint.rs", "src/bigint.rs"

# ---- BigUint inherent -------------------------------------------------------------------------------
section("BigUint — inherent items (`impl BigUint`, src/biguint.rs)")
def inh(ty, fn): return ["inherent:%s::%s" % (ty, fn)]
row("`BigUint::ZERO`", U, "C19", "sg.u_const_zero", "Sign.uzero", "C19_identities", P, claims=["const:BigUint::ZERO"])
row("`BigUint::new(Vec<u32>)`", U, "C09 C19 C04", "u.new sg.u_from_slice hist.u", "Bytes.unew Sign.u_from_slice", "C09_new C04_construct_spec", P, claims=inh("BigUint", "new"))
row("`BigUint::from_slice(&[u32])`", U, "C09 C19 C04", "u.from_slice sg.u_from_slice hist.u", "Bytes.ufrom_slice", "C09_from_slice", P, claims=inh("BigUint", "from_slice"))
row("`BigUint::assign_from_slice`", U, "C09 C04", "u.assign_from_slice sg.u_from_slice hist.u", "Bytes.uassign_from_slice", "C09_assign_from_slice C04_step_spec", P, claims=inh("BigUint", "assign_from_slice"))
row("`BigUint::from_bytes_be / from_bytes_le`", U, "C09 C04", "u.from_bytes_be u.from_bytes_le hist.u", "Bytes.ufrom_bytes_be Bytes.ufrom_bytes_le", "C09_from_bytes_be C09_from_bytes_le", P, claims=inh("BigUint", "from_bytes_be") + inh("BigUint", "from_bytes_le"))
row("`BigUint::parse_bytes`", U, "C06 C04", "u.parse_bytes histx.u", "RadixApi.u_parse_bytes ExtraHist.xconstruct", "C06_parse_bytes C04_xconstruct_spec", P, "as a constructor inside histories: added by this audit (`pb:` ctor)", claims=inh("BigUint", "parse_bytes"))
row("`BigUint::from_radix_be / from_radix_le`", U, "C06 C04", "u.from_radix_be u.from_radix_le u.rt_radix_be u.rt_radix_le hist.u", "RadixApi.u_from_radix_be RadixApi.u_from_radix_le", "C06_from_radix_be C06_from_radix_le C06_radix_roundtrip", P, claims=inh("BigUint", "from_radix_be") + inh("BigUint", "from_radix_le"))
row("`BigUint::to_bytes_be / to_bytes_le`", U, "C09 C04", "u.to_bytes_be u.to_bytes_le hist.pair", "Bytes.uto_bytes_be Bytes.uto_bytes_le", "C09_to_bytes_be C09_to_bytes_le C04_export_spec", P, claims=inh("BigUint", "to_bytes_be") + inh("BigUint", "to_bytes_le"))
row("`BigUint::to_u32_digits / to_u64_digits`", U, "C09 C04", "u.to_u32_digits u.to_u64_digits hist.pair", "Bytes.uto_u32_digits Bytes.uto_u64_digits", "C09_to_u32_digits C09_to_u64_digits", P, claims=inh("BigUint", "to_u32_digits") + inh("BigUint", "to_u64_digits"))
row("`BigUint::iter_u32_digits / iter_u64_digits`", U, "C09", "u.iter32 u.iter64", "Iter.it_new Iter.it_run Iter.it64_run", "C09_iter_u32_any_interleaving C09_iter_u64_any_interleaving C09_iter_u32_initial", P, claims=inh("BigUint", "iter_u32_digits") + inh("BigUint", "iter_u64_digits"))
row("`BigUint::to_str_radix`", U, "C06 C15 C04", "u.to_str u.rt_str c15.ascii hist.pair", "RadixApi.u_to_str_radix", "C06_to_str C06_roundtrip C15_to_str_ascii", P, claims=inh("BigUint", "to_str_radix"))
row("`BigUint::to_radix_be / to_radix_le`", U, "C06", "u.to_radix_be u.to_radix_le u.rt_radix_le", "RadixApi.u_to_radix_be RadixApi.u_to_radix_le", "C06_to_radix_be C06_to_radix_le", P, "radix outside 2..=256 is a documented precondition without an assertion: modelled, nothing claimed (docs/notes/radix.md)", claims=inh("BigUint", "to_radix_be") + inh("BigUint", "to_radix_le"))
row("`BigUint::bits`", U, "C07 C04", "u.bits hist.pair", "Bits.ubits", "C07_bits", P, claims=inh("BigUint", "bits"))
row("`BigUint::pow(u32)`", U, "C12 C04", "u.pow_u32", "Pow.upow_prim_ref", "C12_upow_ref", P, claims=inh("BigUint", "pow"))
row("`BigUint::modpow`", U, "C05", "u.modpow h.monty_modpow h.plain_modpow", "Modpow.umodpow", "C05_umodpow", P, claims=inh("BigUint", "modpow"))
row("`BigUint::modinv`", U, "C05", "u.modinv", "Modpow.umodinv", "C05_umodinv", P, claims=inh("BigUint", "modinv"))
row("`BigUint::sqrt / cbrt / nth_root` (inherent)", U, "C11", "u.sqrt_inh u.cbrt_inh u.nth_root_inh", "Roots.usqrt Roots.ucbrt Roots.unth_root", "C11_roots", P, "one-line forwards to the `Roots` methods (same model function); before this audit only reached indirectly (`Roots for BigInt` calls `self.data.cbrt()`, `nth_root(3)` calls `self.cbrt()`), every op used `Roots::sqrt(&x)`", claims=inh("BigUint", "sqrt") + inh("BigUint", "cbrt") + inh("BigUint", "nth_root"))
row("`BigUint::trailing_zeros / trailing_ones / count_ones`", U, "C07", "u.trailing_zeros u.trailing_ones u.count_ones", "Bits.utrailing_zeros Bits.utrailing_ones Bits.ucount_ones", "C07_trailing_zeros C07_trailing_ones C07_count_ones", P, claims=inh("BigUint", "trailing_zeros") + inh("BigUint", "trailing_ones") + inh("BigUint", "count_ones"))
row("`BigUint::bit / set_bit`", U, "C07 C04", "u.bit u.set_bit hist.u", "Bits.ubit Bits.uset_bit", "C07_ubit C07_uset_bit", P, "set_bit beyond the length (growth) and clearing the top bit (shrink) are generated by c07.py", claims=inh("BigUint", "bit") + inh("BigUint", "set_bit"))

# ---- BigInt inherent --------------------------------------------------------------------------------
section("BigInt — inherent items (`impl BigInt`, src/bigint.rs)")
row("`BigInt::ZERO`", I, "C19", "sg.i_const_zero", "Sign.izero", "C19_identities", P, claims=["const:BigInt::ZERO"])
row("`BigInt::new / from_slice / assign_from_slice`", I, "C09 C19 C04", "i.new i.from_slice i.assign_from_slice sg.new sg.from_slice sg.assign_from_slice hist.i", "Bytes.inew Bytes.ifrom_slice Bytes.iassign_from_slice Sign.i_from_slice Sign.i_assign_from_slice", "C09_bigint_new C09_bigint_from_slice C09_bigint_assign_from_slice C19_from_slice C19_assign_from_slice", P, claims=inh("BigInt", "new") + inh("BigInt", "from_slice") + inh("BigInt", "assign_from_slice"))
row("`BigInt::from_biguint`", I, "C19 C04", "sg.from_biguint sg.roundtrip hist.i", "Base.from_biguint", "C19_from_biguint C19_from_biguint_nosign C19_from_biguint_zero_mag", P, claims=inh("BigInt", "from_biguint"))
row("`BigInt::from_bytes_be / from_bytes_le`", I, "C09 C04", "i.from_bytes_be i.from_bytes_le hist.i", "Bytes.ifrom_bytes_be Bytes.ifrom_bytes_le", "C09_bigint_from_bytes_be C09_bigint_from_bytes_le", P, claims=inh("BigInt", "from_bytes_be") + inh("BigInt", "from_bytes_le"))
row("`BigInt::from_signed_bytes_be / _le`", I + ", src/bigint/convert.rs", "C09 C04", "i.from_signed_bytes_be i.from_signed_bytes_le hist.i", "Bytes.from_signed_bytes_be Bytes.from_signed_bytes_le", "C09_from_signed_bytes_be C09_from_signed_bytes_le C09_signed_bytes_roundtrip", P, claims=inh("BigInt", "from_signed_bytes_be") + inh("BigInt", "from_signed_bytes_le"))
row("`BigInt::parse_bytes`", I, "C06 C04", "i.parse_bytes histx.i", "RadixApi.i_parse_bytes ExtraHist.xconstruct", "C06_parse_bytes C04_xconstruct_spec", P, claims=inh("BigInt", "parse_bytes"))
row("`BigInt::from_radix_be / from_radix_le`", I, "C06 C04", "i.from_radix_be i.from_radix_le hist.i", "RadixApi.i_from_radix_be RadixApi.i_from_radix_le", "C06_ifrom_radix_be C06_ifrom_radix_le", P, claims=inh("BigInt", "from_radix_be") + inh("BigInt", "from_radix_le"))
row("`BigInt::to_bytes_be / to_bytes_le`", I, "C09 C04", "i.to_bytes_be i.to_bytes_le hist.pair", "Bytes.ito_bytes_be Bytes.ito_bytes_le", "C09_bigint_to_bytes_be C09_bigint_to_bytes_le", P, claims=inh("BigInt", "to_bytes_be") + inh("BigInt", "to_bytes_le"))
row("`BigInt::to_u32_digits / to_u64_digits`", I, "C09 C04", "i.to_u32_digits i.to_u64_digits hist.pair", "Bytes.ito_u32_digits Bytes.ito_u64_digits", "C09_bigint_to_u32_digits C09_bigint_to_u64_digits", P, claims=inh("BigInt", "to_u32_digits") + inh("BigInt", "to_u64_digits"))
row("`BigInt::iter_u32_digits / iter_u64_digits`", I, "C09", "i.iter32 i.iter64", "Iter.it_new Iter.it_run Iter.it64_run", "C09_iter_u32_any_interleaving C09_iter_u64_any_interleaving", P, claims=inh("BigInt", "iter_u32_digits") + inh("BigInt", "iter_u64_digits"))
row("`BigInt::to_signed_bytes_be / _le`", I + ", src/bigint/convert.rs", "C09 C04", "i.to_signed_bytes_be i.to_signed_bytes_le hist.pair", "Bytes.to_signed_bytes_be Bytes.to_signed_bytes_le", "C09_to_signed_bytes_be C09_to_signed_bytes_le", P, claims=inh("BigInt", "to_signed_bytes_be") + inh("BigInt", "to_signed_bytes_le"))
row("`BigInt::to_str_radix`", I, "C06 C15 C04", "i.to_str i.rt_str c15.ascii hist.pair", "RadixApi.i_to_str_radix", "C06_ito_str C06_iroundtrip C06_to_str_ascii C15_ito_str_ascii", P, claims=inh("BigInt", "to_str_radix"))
row("`BigInt::to_radix_be / to_radix_le`", I, "C06", "i.to_radix_be i.to_radix_le", "RadixApi.i_to_radix_be RadixApi.i_to_radix_le", "C06_ito_radix_le C06_ito_radix_be", P, "`C06_ito_radix_be` added by this audit (only the little-endian twin had a theorem)", claims=inh("BigInt", "to_radix_be") + inh("BigInt", "to_radix_le"))
row("`BigInt::sign / magnitude / into_parts`", I, "C19", "sg.sign sg.magnitude sg.into_parts sg.roundtrip", "Sign.isign Sign.imagnitude Sign.into_parts", "C19_sign C19_magnitude C19_into_parts_from_biguint C19_from_biguint_into_parts", P, claims=inh("BigInt", "sign") + inh("BigInt", "magnitude") + inh("BigInt", "into_parts"))
row("`BigInt::bits / trailing_zeros`", I, "C07 C04", "i.bits i.trailing_zeros hist.pair", "Bits.ibits Bits.itrailing_zeros", "C07_ibits C07_itrailing_zeros", P, claims=inh("BigInt", "bits") + inh("BigInt", "trailing_zeros"))
row("`BigInt::to_biguint` (inherent)", I, "C19 C08", "sg.to_biguint i.to_biguint", "Sign.to_biguint Prim.ito_biguint", "C19_to_biguint C08_tryfrom_bigint_for_biguint", P, claims=inh("BigInt", "to_biguint"))
row("`BigInt::checked_add / checked_sub` (inherent)", I, "C01 C14", "i.checked_add i.checked_sub", "ExtraOrd.ichecked_add ExtraOrd.ichecked_sub", "C01_ichecked_add C01_ichecked_sub", P, "GAP FILLED: no op called the inherent methods (C10 calls the `CheckedAdd/CheckedSub` trait impls through their qualified path)", claims=inh("BigInt", "checked_add") + inh("BigInt", "checked_sub"))
row("`BigInt::checked_mul` (inherent)", I, "C02 C14", "i.checked_mul", "Mul.ichecked_mul", "C02_ichecked_mul C14_checked_mul_never_panics", P, claims=inh("BigInt", "checked_mul"))
row("`BigInt::checked_div` (inherent)", I, "C03 C14", "i.checked_div_inherent", "Div.ichecked_div_inherent", "C03_checked_idiv C14_checked_idiv_never_panics", P, claims=inh("BigInt", "checked_div"))
row("`BigInt::pow(u32)`", I, "C12 C04", "i.pow_u32", "Pow.ipow_prim_ref", "C12_ipow", P, claims=inh("BigInt", "pow"))
row("`BigInt::modpow / modinv`", I + ", src/bigint/power.rs", "C05", "i.modpow i.modinv", "Modpow.imodpow Modpow.imodinv", "C05_imodpow C05_imodinv", P, claims=inh("BigInt", "modpow") + inh("BigInt", "modinv"))
row("`BigInt::sqrt / cbrt / nth_root` (inherent)", I, "C11", "i.sqrt_inh i.cbrt_inh i.nth_root_inh", "Roots.isqrt Roots.icbrt Roots.inth_root", "C11_bigint", P, "GAP FILLED: BigInt's inherent forwards were never called", claims=inh("BigInt", "sqrt") + inh("BigInt", "cbrt") + inh("BigInt", "nth_root"))
row("`BigInt::bit / set_bit`", I + ", src/bigint/bits.rs", "C07 C04", "i.bit i.set_bit hist.i", "Bits.ibit Bits.iset_bit Bits.set_negative_bit", "C07_bit C07_set_bit C07_set_bit_nonneg", P, claims=inh("BigInt", "bit") + inh("BigInt", "set_bit"))

# ---- Sign -------------------------------------------------------------------------------------------
section("Sign (src/bigint.rs)")
row("`impl Neg for Sign`", I, "C19", "sg.sign_neg", "Base.sign_neg", "C19_sign_neg", P, claims=["Neg|Sign"])
row("`impl Mul<Sign> for Sign`", "src/bigint/multiplication.rs", "C19", "sg.sign_mul", "Base.sign_mul", "C19_sign_mul", P, claims=["Mul<Sign>|Sign"])
row("`#[derive(PartialEq, Eq, PartialOrd, Ord)] Sign`", I, "C19 C04", "sg.sign_eq sg.sign_cmp", "ExtraOrd.sign_eq ExtraOrd.sign_partial_cmp Sign.sign_cmp", "C19_sign_derives C19_cmp", P, "GAP FILLED: the derived order Minus < NoSign < Plus was only used inside `Ord for BigInt`", claims=["derive:Sign"])
row("`#[derive(Debug, Hash, Clone, Copy)] Sign`", I, "C19 C04", "sg.sign_debug sg.sign_hash sg.sign_copy hash.i", "ExtraOrd.sign_debug Hist.sign_disc", "C19_sign_derives C04_hash_inj", E, "GAP FILLED (ops); Debug names injective is proved, the hashed discriminant is compiler-defined (Minus=0, NoSign=1, Plus=2): observed through a recording Hasher")
row("`Serialize / Deserialize for Sign`", "src/bigint/serde.rs", "C17", "i.ser i.de i.serde_rt", "Serde.ser_sign Serde.de_sign", "C17_sign_roundtrip C17_sign_rejected", P, "reached through `BigInt`'s (sign, magnitude) tuple; the impls are not called on a bare `Sign`", claims=["Serialize|Sign", "Deserialize<'de>|Sign"])

# ---- iterators --------------------------------------------------------------------------------------
section("U32Digits / U64Digits (src/biguint/iter.rs, 64-bit arm)")
row("`U32Digits`: Iterator (`next size_hint nth last count`), DoubleEndedIterator (`next_back`), ExactSizeIterator (`len`), FusedIterator", "src/biguint/iter.rs", "C09", "u.iter32 i.iter32", "Iter.it_next Iter.it_next_back Iter.it_len Iter.it_size_hint Iter.it_nth Iter.it_last Iter.it_count", "C09_iter_u32_any_interleaving C09_iter_u32_invariant C09_iter_u32_steps C09_iter_u32_fused C14_iter_never_panics", P, "`U32Digits::new` is `pub(super)`; the 32-bit arm (a `slice::Iter<u32>` wrapper) is not compiled here", claims=["Iterator|U32Digits<'_>", "DoubleEndedIterator|U32Digits<'_>", "ExactSizeIterator|U32Digits<'_>", "FusedIterator|U32Digits<'_>", "inherent:U32Digits<'a>::new"])
row("`U64Digits`: Iterator (`next size_hint nth last count`), DoubleEndedIterator, ExactSizeIterator, FusedIterator", "src/biguint/iter.rs", "C09", "u.iter64 i.iter64", "Iter.it64_next Iter.it64_next_back Iter.it64_len Iter.it64_nth Iter.it64_last Iter.it64_run", "C09_iter_u64_any_interleaving", P, "on 64-bit digits the type IS `slice::Iter<u64>` (refinement definitional)", claims=["Iterator|U64Digits<'_>", "DoubleEndedIterator|U64Digits<'_>", "ExactSizeIterator|U64Digits<'_>", "FusedIterator|U64Digits<'_>", "inherent:U64Digits<'a>::new"])

# ---- std traits -------------------------------------------------------------------------------------
section("Standard-library traits other than operators")
row("`Clone::clone` for BigUint / BigInt", U + ", " + I, "C04 C19", "hist.pair sg.abs", "—", "C04_indistinguishable", E, "copy of the digit vector (+ sign); used by `hist.pair` (`a.clone().max(b.clone())`) and by buffer mode 3 of the `sg.*` ops; nothing to model beyond identity", claims=["Clone|BigUint", "Clone|BigInt"])
row("`Clone::clone_from`", U + ", " + I, "C04", "hist.u hist.i", "Hist.ustep Hist.istep", "C04_step_spec C04_step_canon", P)
row("`Default::default`", U + ", " + I, "C19", "sg.u_default sg.i_default", "Sign.uzero Sign.izero", "C19_identities", P, claims=["Default|BigUint", "Default|BigInt"])
row("`Hash::hash`", U + ", " + I, "C04", "hash.u hash.i hist.pair", "Hist.uhash Hist.ihash Hist.hash_stream", "C04_hash_fun C04_hash_inj", P, "GAP FILLED: `hash.*` record the byte stream fed to the Hasher and compare it word by word with the model (before: only equality of two `DefaultHasher` outputs was observed)", claims=["hash::Hash|BigUint", "hash::Hash|BigInt"])
row("`PartialEq::eq` (`==`), `Eq`", U + ", " + I, "C04", "hist.pair ord.u ord.i", "Hist.ueq Hist.ieq", "C04_ueq_iff C04_ieq_iff", P, claims=["PartialEq|BigUint", "PartialEq|BigInt", "Eq|BigUint", "Eq|BigInt"])
row("`PartialEq::ne` (`!=`, provided method)", "core", "C04", "ord.u ord.i", "ExtraHist.une ExtraHist.ine", "C04_operators_u C04_operators_i", P, "GAP FILLED")
row("`Ord::cmp`", U + ", " + I, "C04 C01 C19", "u.cmp sg.cmp hist.pair", "AddSub.ucmp AddSub.cmp_slice Sign.icmp", "C01_ucmp C19_cmp C04_cmp", P, claims=["Ord|BigUint", "Ord|BigInt"])
row("`PartialOrd::partial_cmp`, operators `<  <=  >  >=`", U + ", " + I, "C04", "ord.u ord.i", "ExtraOrd.upartial_cmp ExtraOrd.ipartial_cmp ExtraOrd.uord ExtraOrd.iord", "C04_operators_u C04_operators_i", P, "GAP FILLED: the property text names `<`; no op used an operator or `partial_cmp` before", claims=["PartialOrd|BigUint", "PartialOrd|BigInt"])
row("`Ord::max / min`, `slice::sort / sort_unstable / sort_by`, `BTreeSet` order, `Iterator::max/min`", "core / alloc", "C04", "hist.pair sort.u sort.i", "Hist.omax Hist.omin Hist.osort", "C04_max_min C04_sort", P, "GAP FILLED for sorting: `C04_sort` existed, no op sorted anything; `sort.*` require the five std orderings to agree with each other and with the model's insertion sort")
row("`fmt::Display`, `Binary`, `Octal`, `LowerHex`, `UpperHex`", U + ", " + I, "C06", "u.fmt i.fmt", "RadixApi.u_fmt RadixApi.i_fmt RadixText.pad_integral", "C06_fmt_u C06_fmt_i", P, "`Formatter::pad_integral` is std code: modelled, validated by the run", claims=["fmt::Display|BigUint", "fmt::Display|BigInt", "fmt::Binary|BigUint", "fmt::Binary|BigInt", "fmt::Octal|BigUint", "fmt::Octal|BigInt", "fmt::LowerHex|BigUint", "fmt::LowerHex|BigInt", "fmt::UpperHex|BigUint", "fmt::UpperHex|BigInt"])
row("`fmt::Debug` (`{:?}`)", U + ", " + I, "C06", "u.fmt_debug i.fmt_debug", "ExtraText.u_fmt_debug ExtraText.i_fmt_debug", "C06_fmt_debug_u C06_fmt_debug_i", P, "GAP FILLED: = Display with the same Formatter; all 104 flag/fill/align combinations", claims=["fmt::Debug|BigUint", "fmt::Debug|BigInt"])
row("`FromStr::from_str`", "src/biguint/convert.rs, src/bigint/convert.rs", "C06", "u.from_str i.from_str", "RadixApi.u_from_str RadixApi.i_from_str", "C06_from_str", P, claims=["FromStr|BigUint", "FromStr|BigInt"])
row("`Sum<T>`, `Product<T>` (T = Self, &Self, every primitive and its reference)", "src/big*/addition.rs, multiplication.rs", "C10", "f.sum f.product f.sum0 f.product0", "Forms.eval_form", "C10_folds_agree", P, "GAP FILLED for EMPTY iterators (`f.sum0/f.product0`: every item type); the theorem already covered the empty list", claims=["Sum<T>|BigUint", "Sum<T>|BigInt", "Product<T>|BigUint", "Product<T>|BigInt"])
row("`Neg for BigInt / &BigInt`", I, "C19 C04", "sg.neg sg.neg_ref sg.neg_inverse hist.i", "AddSub.ineg", "C19_neg C19_neg_inverse", P, claims=["Neg|BigInt", "Neg|&BigInt"])
row("`Not for BigInt / &BigInt`", I, "C07 C04", "i.not i.not_ref hist.i", "Bits.inot Bits.inot_ref", "C07_not C07_not_ref", P, claims=["Not|BigInt", "Not|&BigInt"])

# ---- conversions ------------------------------------------------------------------------------------
section("Conversions (src/biguint/convert.rs, src/bigint/convert.rs)")
row("`From<u8|u16|u32|u64|usize|u128> for BigUint`, `From<bool>`", "src/biguint/convert.rs", "C08 C04", "u.from u.from_bool histx.u", "Prim.ufrom Prim.ufrom_bool", "C08_from_prim_spec_biguint C04_xconstruct_spec", P, "as a constructor inside histories: added by this audit (`prim:` ctor)", claims=["From<u8>|BigUint", "From<u16>|BigUint", "From<u32>|BigUint", "From<u64>|BigUint", "From<usize>|BigUint", "From<u128>|BigUint", "From<bool>|BigUint"])
row("`From<all 12 integer types> for BigInt`, `From<bool>`, `From<BigUint>`", "src/bigint/convert.rs", "C08 C19 C04", "i.from i.from_bool i.from_biguint sg.from_u histx.i hist.i", "Prim.ifrom Prim.ifrom_bool Prim.ifrom_biguint Sign.ifrom_u", "C08_from_prim_spec_bigint C08_biguint_to_bigint C19_to_bigint", P, claims=["From<%s>|BigInt" % t for t in "i8 i16 i32 i64 isize i128 u8 u16 u32 u64 usize u128 bool BigUint".split()])
row("`TryFrom<i8..i128,isize> for BigUint`", "src/biguint/convert.rs", "C08", "u.try_from_prim", "Prim.utry_from_prim", "C08_from_prim_spec_biguint", P, claims=["TryFrom<%s>|BigUint" % t for t in "i8 i16 i32 i64 isize i128".split()])
row("`TryFrom<&BigUint> / TryFrom<BigUint>` for the 12 integer types", "src/biguint/convert.rs", "C08", "u.try_into u.try_into_owned", "Prim.utry_into Prim.utry_into_owned", "C08_to_prim_spec_biguint C08_tryfrom_err_returns_original_biguint", P, claims=["TryFrom<&BigUint>|%s" % t for t in "u8 u16 u32 u64 usize u128 i8 i16 i32 i64 isize i128".split()] + ["TryFrom<BigUint>|%s" % t for t in "u8 u16 u32 u64 usize u128 i8 i16 i32 i64 isize i128".split()])
row("`TryFrom<&BigInt> / TryFrom<BigInt>` for the 12 integer types and for BigUint", "src/bigint/convert.rs", "C08 C19", "i.try_into i.try_into_owned i.try_into_biguint i.try_into_biguint_owned sg.try_from sg.try_from_ref", "Prim.itry_into Prim.itry_into_owned Prim.itry_into_biguint_owned Sign.try_into_biguint", "C08_to_prim_spec_bigint C08_tryfrom_err_returns_original_bigint C08_tryfrom_bigint_for_biguint C19_try_into_biguint", P, claims=["TryFrom<&BigInt>|%s" % t for t in "u8 u16 u32 u64 usize u128 i8 i16 i32 i64 isize i128 BigUint".split()] + ["TryFrom<BigInt>|%s" % t for t in "u8 u16 u32 u64 usize u128 i8 i16 i32 i64 isize i128 BigUint".split()])
row("`ToPrimitive` (`to_i8 … to_u128, to_isize, to_usize, to_f32, to_f64`) for both types", "src/big*/convert.rs", "C08", "u.to i.to u.to_f64 u.to_f32 i.to_f64 i.to_f32 h.high_bits_to_u64", "Prim.uto Prim.ito Prim.uto_f64 Prim.uto_f32 Prim.ito_f64 Prim.ito_f32 Prim.high_bits_to_u64", "C08_to_prim_spec_biguint C08_to_prim_spec_bigint C08_to_f64 C08_to_f32 C08_to_f64_bigint C08_to_f32_bigint C08_high_bits_spec", P, "`u64 as f64` etc. (hardware cast): modelled, validated per run", claims=["ToPrimitive|BigUint", "ToPrimitive|BigInt"])
row("`FromPrimitive` (`from_i8 … from_u128, from_f32, from_f64`) for both types", "src/big*/convert.rs", "C08", "u.from_prim i.from_prim u.from_f64 u.from_f32 i.from_f64 i.from_f32", "Prim.ufrom_prim Prim.ifrom_prim Prim.ufrom_f64 Prim.ufrom_f32 Prim.ifrom_f64 Prim.ifrom_f32", "C08_from_prim_spec_biguint C08_from_prim_spec_bigint C08_from_f64_spec C08_from_f32_spec", P, claims=["FromPrimitive|BigUint", "FromPrimitive|BigInt"])
row("`ToBigUint` for BigUint, BigInt, 12 integer types, f32, f64", "src/biguint/convert.rs, src/bigint/convert.rs", "C08 C19", "p.to_biguint sg.to_biguint_trait sg.u_to_biguint i.to_biguint", "Prim.ufrom_prim Prim.ufrom_f64 Prim.ufrom_f32 Sign.to_biguint Sign.u_to_biguint", "C08_from_prim_spec_biguint C08_from_f64_spec C19_to_biguint C19_to_bigint", P, claims=["ToBigUint|%s" % t for t in "BigUint BigInt isize i8 i16 i32 i64 i128 usize u8 u16 u32 u64 u128 f32 f64".split()])
row("`ToBigInt` for BigInt, BigUint, 12 integer types, f32, f64", "src/bigint/convert.rs", "C08 C19", "p.to_bigint sg.i_to_bigint sg.u_to_bigint u.to_bigint", "Prim.ifrom_prim Prim.ifrom_f64 Prim.ifrom_f32 Sign.i_to_bigint Sign.u_to_bigint", "C08_from_prim_spec_bigint C08_from_f64_spec C19_to_bigint", P, claims=["ToBigInt|%s" % t for t in "BigInt BigUint isize i8 i16 i32 i64 i128 usize u8 u16 u32 u64 u128 f32 f64".split()])
row("`num_traits::ToBytes / FromBytes` for both types", U + ", " + I, "C09", "u.tr_to_be u.tr_to_le u.tr_from_be u.tr_from_le i.tr_to_be i.tr_to_le i.tr_from_be i.tr_from_le", "Bytes.uto_bytes_be Bytes.ufrom_bytes_be Bytes.to_signed_bytes_be Bytes.from_signed_bytes_be", "C09_to_bytes_be C09_from_bytes_be C09_to_signed_bytes_be C09_from_signed_bytes_be", P, "BigInt's trait forms are the SIGNED (two's complement) encodings", claims=["num_traits::FromBytes|BigUint", "num_traits::ToBytes|BigUint", "num_traits::FromBytes|BigInt", "num_traits::ToBytes|BigInt"])

# ---- num-traits / num-integer -----------------------------------------------------------------------
section("num-traits and num-integer traits")
row("`Zero` (`zero set_zero is_zero`), `ConstZero::ZERO`, `One` (`one set_one is_one`)", U + ", " + I, "C19 C04", "sg.u_zero sg.i_zero sg.u_zero_trait_const sg.i_zero_trait_const sg.u_one sg.i_one sg.u_is_zero sg.i_is_zero sg.u_is_one sg.i_is_one sg.u_set_zero sg.i_set_zero sg.u_set_one sg.i_set_one", "Sign.uzero Sign.uone Sign.uis_zero Sign.uis_one Sign.uset_zero Sign.uset_one Sign.izero Sign.ione Sign.iis_zero Sign.iis_one Sign.iset_zero Sign.iset_one", "C19_identities C19_is_zero_one", P, claims=["Zero|BigUint", "Zero|BigInt", "ConstZero|BigUint", "ConstZero|BigInt", "One|BigUint", "One|BigInt"])
row("`Unsigned for BigUint` (marker)", U, "—", "", "", "", N, "marker trait without items", claims=["Unsigned|BigUint"])
row("`Signed for BigInt` (`abs abs_sub signum is_positive is_negative`)", I, "C19", "sg.abs sg.abs_sub sg.signum sg.is_positive sg.is_negative", "Sign.iabs Sign.abs_sub Sign.isignum Sign.is_positive Sign.is_negative", "C19_abs C19_abs_sub C19_signum C19_is_positive C19_is_negative", P, claims=["Signed|BigInt"])
row("`Num::from_str_radix`", "src/big*/convert.rs", "C06 C04", "u.from_str_radix i.from_str_radix u.rt_str i.rt_str histx.u histx.i", "RadixApi.u_from_str_radix RadixApi.i_from_str_radix", "C06_from_str_radix C06_ifrom_str_radix C04_xconstruct_spec", P, "as a constructor inside histories: added by this audit (`str:` ctor)", claims=["Num|BigUint", "Num|BigInt"])
row("`Pow<T>` for T in {u8,u16,u32,u64,usize,u128,BigUint} and references (56 impls)", "src/big*/power.rs", "C12 C10", "u.pow.vv u.pow.vr u.pow.rv u.pow.rr i.pow.vv i.pow.rr u.pow_big.vv u.pow_big.rr i.pow_big.vv i.pow_big.rr f.pow", "Pow.upow_prim Pow.upow_prim_ref Pow.upow_big Pow.upow_big_ref Pow.ipow_prim Pow.ipow_big", "C12_upow C12_upow_ref C12_ipow C12_big_exp C12_ipow_big C10_forms_agree", P, claims=["FORMS"])
row("`CheckedAdd CheckedSub CheckedMul CheckedDiv` (trait forms, both types)", "src/big*/{addition,subtraction,multiplication,division}.rs", "C10 C01 C02 C03 C14", "f.checked u.checked_add u.checked_sub u.checked_mul u.checked_div i.checked_div", "AddSub.uchecked_add AddSub.uchecked_sub Mul.uchecked_mul Div.uchecked_div Div.ichecked_div", "C10_checked_agree C01_uchecked_sub C02_uchecked_mul C03_checked_udiv C03_checked_idiv", P, claims=["FORMS"])
row("`Euclid` (`div_euclid rem_euclid div_rem_euclid`), `CheckedEuclid`", "src/big*/division.rs", "C03 C14", "u.div_euclid u.rem_euclid u.div_rem_euclid u.checked_div_euclid u.checked_rem_euclid u.checked_div_rem_euclid i.div_euclid i.rem_euclid i.div_rem_euclid i.checked_div_euclid i.checked_rem_euclid i.checked_div_rem_euclid", "Div.udiv_euclid Div.urem_euclid Div.udiv_rem_euclid Div.idiv_euclid Div.irem_euclid Div.idiv_rem_euclid Div.uchecked_div_euclid Div.ichecked_div_rem_euclid", "C03_euclid C03_euclid_unique C03_checked_udiv_euclid C03_checked_urem_euclid C03_checked_udiv_rem_euclid C03_checked_idiv_euclid C03_checked_irem_euclid C03_checked_idiv_rem_euclid", P, claims=["Euclid|BigUint", "Euclid|BigInt", "CheckedEuclid|BigUint", "CheckedEuclid|BigInt"])
row("`Integer`: `div_rem div_floor mod_floor div_mod_floor div_ceil`", U + ", " + I, "C03", "u.div_rem u.div_floor u.mod_floor u.div_mod_floor u.div_ceil i.div_rem i.div_floor i.mod_floor i.div_mod_floor i.div_ceil", "Div.udivrem Div.udiv_floor Div.umod_floor Div.udiv_mod_floor Div.udiv_ceil Div.idiv_rem Div.idiv_floor Div.imod_floor Div.idiv_mod_floor Div.idiv_ceil", "C03_udivrem_api C03_udiv_ceil C03_trunc C03_floor C03_ceil", P, claims=["Integer|BigUint", "Integer|BigInt"])
row("`Integer`: `gcd lcm gcd_lcm extended_gcd extended_gcd_lcm`", U + ", " + I, "C13", "u.gcd u.lcm u.gcd_lcm i.gcd i.lcm i.gcd_lcm i.extended_gcd i.extended_gcd_lcm i.bezout", "Gcd.ugcd Gcd.ulcm Gcd.ugcd_lcm Gcd.igcd Gcd.ilcm Gcd.igcd_lcm Gcd.iextended_gcd Gcd.iextended_gcd_lcm", "C13_gcd C13_igcd C13_lcm C13_gcd_lcm C13_egcd C13_egcd_refines", P, "`extended_gcd` is num-integer's provided method (dependency code, modelled from its source)")
row("`Integer`: `is_multiple_of divides next_multiple_of prev_multiple_of is_even is_odd inc dec`", U + ", " + I, "C13", "u.is_multiple_of u.divides u.next_multiple_of u.prev_multiple_of u.is_even u.is_odd u.inc u.dec i.is_multiple_of i.divides i.next_multiple_of i.prev_multiple_of i.is_even i.is_odd i.inc i.dec", "Gcd.uis_multiple_of Gcd.unext_multiple_of Gcd.uprev_multiple_of Gcd.uinc Gcd.udec Gcd.iis_multiple_of Gcd.inext_multiple_of Gcd.iprev_multiple_of Gcd.iis_even Gcd.iis_odd Gcd.iinc Gcd.idec", "C13_multiples_u C13_multiples_i C13_parity C13_inc_dec", P)
row("`Roots` (`nth_root sqrt cbrt`) for both types", U + ", " + I, "C11", "u.nth_root u.sqrt u.cbrt i.nth_root i.sqrt i.cbrt", "Roots.unth_root Roots.usqrt Roots.ucbrt Roots.inth_root Roots.isqrt Roots.icbrt", "C11_roots C11_guess_independent C11_bigint", P, "the std build's f64 initial guesses are not modelled (theorems hold for every legal guess)", claims=["Roots|BigUint", "Roots|BigInt"])

# ---- operators --------------------------------------------------------------------------------------
section("Operator impls — 1 286 impls, see the C10 forms table (`coq/gen/Extracted.v: forms`, regenerated per run)",
        "`Add Sub Mul Div Rem` (152 impls each, `Mul` +1 for `Sign`), `BitAnd BitOr BitXor` (8 each), `Shl Shr` (96 each), `Pow` (56), "
        "`AddAssign SubAssign MulAssign DivAssign` (22 each), `RemAssign` (46: incl. `scalar %= BigUint`), `BitAnd/BitOr/BitXorAssign` (4 each), "
        "`ShlAssign ShrAssign` (48 each), `Checked*` (8), `Sum/Product` (4).  The harness calls every one of the 1 286 impls through its "
        "fully qualified trait path (`forms.list` compares the two name lists), so none can be missing.")
row("all binary / assign operator forms (big∘big by value/reference, big∘scalar, scalar∘big, `op=`, `scalar %= big`)", "src/big*/{addition,subtraction,multiplication,division,bits,shift,power}.rs, src/macros.rs", "C10 (+ C01 C02 C03 C07 C12 for the leaves)", "forms.list f.add f.sub f.mul f.div f.rem f.and f.or f.xor f.shl f.shr f.pow f.checked f.sum f.product", "Forms.eval_form Forms.check_form FormsLeaves.leaf_z", "C10_all_forms_checked C10_forms_agree C10_forms_agree_ref C10_checked_agree C10_folds_agree C10_leaf_rem_assign C10_leaf_biguint_addsub_scalar", P, claims=["FORMS"])
row("BigInt `op= primitive scalar` (+ - * / %) inside mutation histories", "src/bigint/*.rs", "C04", "histx.i", "ExtraHist.xop_base ExtraHist.xhistory_trace", "C04_xhistory_trace_spec C04_xhistory_canon", P, "GAP FILLED: modelled by the big∘big step on the canonical BigInt of the scalar (the identification is C10's / C08's statement); raw digits observed after every step on ONE reused buffer")

# ---- rand -------------------------------------------------------------------------------------------
section("rand feature (src/bigrand.rs)")
row("`RandBigInt` (`gen_biguint gen_bigint gen_biguint_below gen_biguint_range gen_bigint_range`) for every `Rng`", "src/bigrand.rs", "C18 C15", "rnd.gen_biguint rnd.gen_bigint rnd.below rnd.urange rnd.irange c15.gen_biguint", "Rand.gen_biguint Rand.gen_bigint Rand.gen_biguint_below Rand.gen_biguint_range Rand.gen_bigint_range", "C18_gen_biguint C18_gen_bigint C18_below C18_biguint_range C18_bigint_range C18_range_panic C15_rand_u32_view", P, claims=["RandBigInt|R"])
row("`UniformBigUint / UniformBigInt`: `UniformSampler::{new, new_inclusive, sample, sample_single}`; `SampleUniform` (`Rng::gen_range`)", "src/bigrand.rs", "C18", "rnd.uu_new rnd.uu_incl rnd.uu_single rnd.uu_new2 rnd.ui_new rnd.ui_incl rnd.ui_single rnd.ui_new2 rnd.u_gen_range rnd.u_gen_range_incl rnd.i_gen_range rnd.i_gen_range_incl", "Rand.uu_new Rand.uu_new_inclusive Rand.uu_sample Rand.uu_sample_single Rand.ui_new Rand.ui_new_inclusive Rand.ui_sample Rand.ui_sample_single", "C18_uniform_biguint C18_uniform_bigint C18_range_bounds C18_range_panic", P, claims=["UniformSampler|UniformBigUint", "UniformSampler|UniformBigInt", "SampleUniform|BigUint", "SampleUniform|BigInt"])
row("`RandomBits::new`, `Distribution<BigUint> / Distribution<BigInt> for RandomBits`", "src/bigrand.rs", "C18", "rnd.bits_u rnd.bits_i", "Rand.random_bits_u Rand.random_bits_i", "C18_random_bits", P, claims=["inherent:RandomBits::new", "Distribution<BigUint>|RandomBits", "Distribution<BigInt>|RandomBits"])
row("`#[derive(Clone, Debug)] UniformBigUint / UniformBigInt`, `#[derive(Clone, Copy, Debug)] RandomBits`", "src/bigrand.rs", "—", "", "", "", N, "compiler-generated structural code over already-covered field types; the Debug text of these helper structs is not part of any property", claims=["derive:UniformBigUint", "derive:UniformBigInt", "derive:RandomBits"])

# ---- serde / arbitrary / quickcheck -----------------------------------------------------------------
section("serde, arbitrary, quickcheck features")
row("`Serialize / Deserialize for BigUint` (+ `U32Visitor`)", "src/biguint/serde.rs", "C17 C04", "u.ser u.de u.serde_rt hist.u", "Serde.ser_biguint Serde.de_biguint_tokens Serde.de_biguint_hinted", "C17_ser_biguint C17_de_biguint C17_roundtrip_biguint C17_hint_irrelevant", P, claims=["Serialize|BigUint", "Deserialize<'de>|BigUint", "Visitor<'de>|U32Visitor"])
row("`Serialize / Deserialize for BigInt`", "src/bigint/serde.rs", "C17 C04", "i.ser i.de i.serde_rt hist.i", "Serde.ser_bigint Serde.de_bigint", "C17_ser_bigint C17_de_bigint C17_roundtrip_bigint C17_sign0_nonzero_is_zero", P, claims=["Serialize|BigInt", "Deserialize<'de>|BigInt"])
row("`arbitrary::Arbitrary` (`arbitrary arbitrary_take_rest size_hint`) for both types", "src/biguint/arbitrary.rs, src/bigint/arbitrary.rs", "C04", "arb.u arb.i arb.u_rest arb.i_rest arb.hint histx.u histx.i", "ExtraHist.arb_biguint ExtraHist.arb_bigint ExtraHist.arb_vec_u64", "C04_arbitrary_canon C04_xconstruct_spec", P, "GAP FILLED (harness feature `arbitrary`): for ANY byte string the result is the canonical value of the decoded u64 vector (high zero digits, Plus/Minus with zero magnitude); the byte decoding of the `arbitrary` crate is modelled, not verified", claims=["arbitrary::Arbitrary<'_>|BigUint", "arbitrary::Arbitrary<'_>|BigInt"])
row("`quickcheck::Arbitrary` (`arbitrary shrink`) for both types", "src/biguint/arbitrary.rs, src/bigint/arbitrary.rs", "C04", "qc.u qc.i qc.shrink_u qc.shrink_i", "Hist.biguint_from_vec Base.from_biguint", "C04_construct_spec", E, "GAP FILLED (harness feature `quickcheck`, seeded `Gen`): every generated value and every shrink candidate is checked to be canonical (raw digits, sign); quickcheck's `Vec<u64>` generator / shrinker is dependency code and NOT modelled, so only the invariant is compared (the theorem covers `biguint_from_vec` / `from_biguint` on ANY vector)", claims=["quickcheck::Arbitrary|BigUint", "quickcheck::Arbitrary|BigInt"])

# ---- error types ------------------------------------------------------------------------------------
section("Error types (src/lib.rs)")
row("`ParseBigIntError`: `Display`, `std::error::Error::description`, derives `Debug Clone PartialEq Eq`", "src/lib.rs", "C06", "u.parse_err i.parse_err u.from_str_radix", "ExtraText.parse_err_text ExtraText.u_from_str_radix_err ExtraText.i_from_str_radix_err", "C06_parse_error_value C06_from_str_radix", P, "GAP FILLED: exact message, `description`, derived Debug text, clone == original, padded Display (before: `contains(\"empty\")`)", claims=["fmt::Display|ParseBigIntError", "std::error::Error|ParseBigIntError", "inherent:ParseBigIntError::__description", "inherent:ParseBigIntError::empty", "inherent:ParseBigIntError::invalid", "derive:ParseBigIntError"])
row("`TryFromBigIntError<T>`: `into_original`, `Display`, `Error::description`, derives `Debug Copy Clone PartialEq Eq`", "src/lib.rs", "C08", "u.try_err i.try_err u.try_into_owned i.try_into_owned", "ExtraText.try_from_err_text Prim.utry_into_owned", "C08_tryfrom_err_returns_original_biguint C08_tryfrom_err_returns_original_bigint", P, "GAP FILLED for the message / description / derives (`u.try_err i.try_err`: exercised only, the text is a constant); `into_original` was covered", claims=["fmt::Display|TryFromBigIntError<T>", "std::error::Error|TryFromBigIntError<T>", "inherent:TryFromBigIntError<T>::new", "inherent:TryFromBigIntError<T>::__description", "inherent:TryFromBigIntError<T>::into_original", "derive:TryFromBigIntError"])

# ---- not public API ---------------------------------------------------------------------------------
section("Present in the source but not public API / not compiled here")
row("`num_bigint::verif`, `num_bigint::verif_probe` (hooks)", "src/biguint.rs, src/*/…, src/verif_probe.rs", "—", "h.add2c", "", "", E, "only under `--cfg num_bigint_verif` (add-only wrappers used by the `h.*` ops); not part of the crate's API", claims=["VERIF"])
row("`IntDigits` (pub(crate) trait), `UnsignedAbs` (private trait, 6 impls), `MontyReducer::new`", "src/biguint.rs, src/bigint.rs, src/biguint/monty.rs", "C10 C05", "f.add h.inv_mod_alt", "FormsLeaves.leaf_z Monty.inv_mod_alt", "C10_forms_agree C05_inv_mod_alt", P, "crate-private; reached through the `_commutative` forwarders (capacity/len oracle), the signed-scalar leaves and `monty_modpow`", claims=["IntDigits|BigUint", "IntDigits|BigInt", "UnsignedAbs|i8", "UnsignedAbs|i16", "UnsignedAbs|i32", "UnsignedAbs|i64", "UnsignedAbs|i128", "UnsignedAbs|isize", "inherent:MontyReducer::new", "inherent:BigUint::normalize", "inherent:BigUint::normalized"])
row("32-bit digit arms (`cfg_digit!` first item, `target_pointer_width = \"32\"`), non-x86_64 `adc/sbb/div_wide` arms", "src/**", "—", "", "", "", N, "not compiled on x86_64 with 64-bit digits; stated as an assumption of every evidence file", claims=["CFG32"])
row("traits the crate does NOT implement", "—", "—", "", "", "", N, "`Bounded`, `Average`, `CheckedNeg`, `CheckedRem`, `CheckedShl/Shr`, `ConstOne`, `Saturating*`, `Wrapping*`, `MulAdd`, `Inv`, `NumCast`, `AsPrimitive`, `Step`, `checked_pow`: no impl in src/ (grep) — nothing to cover")

# ---------------------------------------------------------------------------------------------------
# private helpers:  (file, fn) -> (model function(s), note)   "-" = no model restates it
H = {}
def helper(file, fns, model, note=""):
    """`fns` and `model` are zipped when they have the same number of words; `=` means same name in that module"""
    fl, ml = fns.split(), model.split()
    for i, f in enumerate(fl):
        if len(ml) == len(fl):
            m = ml[i]
        else:
            m = model
        if m.endswith(".="):
            m = m[:-1] + f
        H[(file, f)] = (m, note)
helper("src/biguint/addition.rs", "adc", "AddSub.adc", "x86_64 arm = `_addcarry_u64`; the two other `adc` definitions are the 32-bit / non-x86 arms")
helper("src/biguint/addition.rs", "schoolbook_add_assign_x86_64", "AddSub.schoolbook(AddSub.adc_zip), program of base X86", "inline asm; the template is re-extracted per run and proved against the list model (C01_asm_add, C15_asm_add_bounds)")
helper("src/biguint/addition.rs", "__add2 add2", "AddSub.add2c AddSub.add2", "carry propagation = AddSub.prop_add")
helper("src/biguint/subtraction.rs", "sbb", "AddSub.sbb")
helper("src/biguint/subtraction.rs", "schoolbook_sub_assign_x86_64", "AddSub.schoolbook(AddSub.sbb_zip), program of base X86", "C01_asm_sub, C15_asm_sub_bounds")
helper("src/biguint/subtraction.rs", "sub2 __sub2rev sub2rev", "AddSub.sub2 AddSub.sub2rev_raw AddSub.sub2rev")
helper("src/biguint.rs", "cmp_slice", "AddSub.cmp_slice")
helper("src/biguint.rs", "fixpoint", "Roots.fixpoint")
helper("src/biguint.rs", "biguint_from_vec", "Hist.biguint_from_vec", "= Base.strip")
helper("src/biguint.rs", "u32_chunk_to_u64", "Bytes.pair_words", "also Sign.u32_pairs")
helper("src/biguint.rs", "u32_to_u128 u32_from_u128", "-", "inside `cfg_digit!` first item: 32-bit digit arm only, not compiled here")
helper("src/biguint.rs", "twos", "Gcd.twos", "nested in `Integer::gcd`")
helper("src/biguint.rs", "normalize normalized", "Base.strip", "private inherent methods")
helper("src/lib.rs", "get_hi get_lo from_doublebigdigit to_doublebigdigit", "Mul.hi64 Mul.lo64 Mul.mac_with_carry Div.div_wide", "u128 split / join, inlined where used (mac_with_carry, div_wide, mul_add_www)")
helper("src/biguint/multiplication.rs", "mac_with_carry mul_with_carry mac_digit bigint_from_slice mac3 mul3 scalar_mul sub_sign", "Mul.= Mul.= Mul.= Mul.= Mul.= Mul.= Mul.= Mul.=", "Karatsuba / Toom-3 / half-split live inside mac3: Mul.karatsuba Mul.toom3 Mul.half_kara (C02_mac3); cost twin MulCost.* (C20)")
helper("src/biguint/division.rs", "div_wide", "Div.div_wide", "x86_64 arm (`div` instruction, unsafe: C15_div_wide_precondition); the portable arm is not compiled here")
helper("src/biguint/division.rs", "div_half", "-", "compiled but unreachable on x86/x86_64 (`FAST_DIV_WIDE` is the constant `true`): NOT restated")
helper("src/biguint/division.rs", "div_rem_digit rem_digit sub_mul_digit_same_len div_rem div_rem_ref div_rem_core", "Div.div_rem_digit Div.rem_digit Div.sub_mul_digit_same_len Div.udivrem_val Div.udivrem Div.div_rem_core")
helper("src/biguint/monty.rs", "inv_mod_alt montgomery add_mul_vvw sub_vv add_ww mul_add_www monty_modpow", "Monty.= Monty.= Monty.= Monty.= Monty.= Monty.= Monty.=")
helper("src/biguint/power.rs", "modpow plain_modpow", "Modpow.umodpow Modpow.plain_modpow")
helper("src/bigint/power.rs", "powsign modpow", "Pow.powsign Modpow.imodpow")
helper("src/biguint/shift.rs", "biguint_shl biguint_shl2 biguint_shr biguint_shr2", "Bits.biguint_shl ShiftCore.shl2 Bits.biguint_shr ShiftCore.shr2")
helper("src/bigint/shift.rs", "shr_round_down", "Bits.shr_round_down")
helper("src/bigint/bits.rs", "negate_carry bitand_pos_neg bitand_neg_pos bitand_neg_neg bitor_pos_neg bitor_neg_pos bitor_neg_neg bitxor_pos_neg bitxor_neg_pos bitxor_neg_neg set_negative_bit", "Bits.= Bits.= Bits.= Bits.= Bits.= Bits.= Bits.= Bits.= Bits.= Bits.= Bits.=", "loops: Bits.zip_loop / Bits.tail_loop / Bits.snb_walk")
helper("src/bigint/convert.rs", "from_signed_bytes_be from_signed_bytes_le to_signed_bytes_be to_signed_bytes_le twos_complement_le twos_complement_be twos_complement", "Bytes.= Bytes.= Bytes.= Bytes.= Bytes.= Bytes.= Bytes.=")
helper("src/biguint/convert.rs", "fls ilog2", "Radix.fls Radix.ilog2", "`ilog2` is only called in no_std builds (capacity estimate): covered by the C16 std/no_std transcripts")
helper("src/biguint/convert.rs", "from_bitwise_digits_le from_inexact_bitwise_digits_le to_bitwise_digits_le to_inexact_bitwise_digits_le", "BitDigits.= BitDigits.= BitDigits.= BitDigits.=")
helper("src/biguint/convert.rs", "from_radix_digits_be from_radix_be from_radix_le to_radix_digits_le to_radix_le to_str_radix_reversed get_radix_base generate_radix_bases", "Radix.from_radix_digits_be Radix.from_radix_be Radix.from_radix_le Radix.to_radix_digits_le Radix.to_radix_le RadixText.to_str_radix_reversed Radix.get_radix_base Radix.radix_bases")
helper("src/biguint/convert.rs", "get_half_radix_base", "-", "only on the `!FAST_DIV_WIDE` path (constant `false` branch on x86/x86_64): compiled but unreachable, NOT restated (its table is the same `generate_radix_bases` at `HALF`)")
helper("src/biguint/convert.rs", "high_bits_to_u64", "Prim.high_bits_to_u64", "loop = Prim.hb_loop")
helper("src/biguint/serde.rs", "cautious", "Serde.cautious")
helper("src/bigrand.rs", "gen_bits", "Rand.gen_bits")

NOTES = r"""## How this table was derived

1. `tools/api_inventory.py` tokenises every file under /repo/src, expands every item-level macro invocation with the
   `macro_rules!` engine of the C10 extractor (`tools/extractors/forms.py`), and lists every `impl` block with its
   functions, every inherent `pub fn` / `pub const`, and every free function (`impls`, `fns`, `summary`, `json`).
2. `tools/api_coverage.py` holds the auditor's rows (item -> property / ops / model function / theorems) and refuses to
   write this file unless every op exists in `harness/src/ops_*.rs` and `ocaml/ops_*.ml` AND is produced by a generator,
   every model function exists in `coq/model` / `coq/spec`, every theorem exists in `coq/props`, every inventory item is
   claimed by a row, and every free function appears in the helper table.  Derived trait impls (`#[derive]`) are not
   `impl` items in the source; they were listed by hand from `grep -n derive /repo/src`.
3. Operator impls are not repeated here: `Extracted.forms` (regenerated per run, 1 286 rows) is the table; `forms.list`
   compares its names with the names of the impls the harness calls through their qualified paths.

## Gaps found and filled by this audit (all additions are in NEW files except where noted)

New files: `coq/model/{ExtraOrd,ExtraText,ExtraHist}.v`, `coq/spec/SpecExtra.v`,
`coq/proofs/{ExtraOrdProofs,ExtraTextProofs,ExtraHistProofs}.v`, `harness/src/ops_extra.rs`, `ocaml/ops_extra.ml`,
`tools/gen/extra_cases.py` (called at the end of `generate` in c01 c04 c06 c08 c10 c11 c19), `tools/api_inventory.py`,
`tools/api_coverage.py`.  Edited: theorems appended to `coq/props/{C01,C04,C06,C19}.v`; `harness/Cargo.toml` (+ lock):
optional features `quickcheck`, `arbitrary` (both build offline; in `default`, so C14's release re-run sees the new
cases; the no_std and guard variants are unaffected); `harness/src/ops_hist.rs`: helpers made `pub`, the pair
observation moved into `observe_u/observe_i` (no behaviour change); `tools/gen/c04.py`: `extra_checks`/`nontrivial`
tolerate the new op names.

| property | ops added | theorems added | what was missing |
|---|---|---|---|
| C01 | `i.checked_add` `i.checked_sub`; cases for `h.sub2rev` | `C01_ichecked_add` `C01_ichecked_sub` | BigInt's INHERENT checked_add/checked_sub were never called (only the trait impls, via C10); `h.sub2rev` existed in harness and driver but no generator produced it |
| C04 | `ord.u` `ord.i` `sort.u` `sort.i` `hash.u` `hash.i` `histx.u` `histx.i` `histx.pair` `arb.u` `arb.i` `arb.u_rest` `arb.i_rest` `arb.hint` `qc.u` `qc.i` `qc.shrink_u` `qc.shrink_i` | `C04_operators_u` `C04_operators_i` `C04_arbitrary_canon` `C04_xconstruct_spec` `C04_xhistory_trace_spec` `C04_xhistory_canon` `C04_xindistinguishable` | `<` (named in the property text), `partial_cmp`, `!=` never executed; `C04_sort` had no op; the hashed stream was only compared for equality of two `DefaultHasher` outputs; `from_str_radix` / `parse_bytes` / `From<primitive>` / `arbitrary` never started a history; BigInt `op= scalar` never occurred in a history; the two generator impls (`arbitrary`, `quickcheck`) were compiled by C16 but never run |
| C06 | `u.fmt_debug` `i.fmt_debug` `u.parse_err` `i.parse_err` | `C06_fmt_debug_u` `C06_fmt_debug_i` `C06_parse_error_value` `C06_ito_radix_be` | `{:?}` never formatted; the error VALUE of the parsers was only classified by `contains("empty")`; `BigInt::to_radix_be` had an op but no theorem |
| C08 | `u.try_err` `i.try_err` | — (constant text) | `TryFromBigIntError`: Display / description / derives |
| C10 | `f.sum0` `f.product0` | — (`C10_folds_agree` already quantifies over every list) | Sum / Product over EMPTY iterators (generator lengths were 1..6) for every item type |
| C11 | `u.sqrt_inh` `u.cbrt_inh` `u.nth_root_inh` `i.sqrt_inh` `i.cbrt_inh` `i.nth_root_inh` | — (one-line forwards; same model function) | the inherent methods: BigInt's were never called; BigUint's only indirectly (`Roots for BigInt` calls `self.data.cbrt()`, `nth_root(3)` calls `self.cbrt()`) |
| C19 | `sg.sign_eq` `sg.sign_cmp` `sg.sign_debug` `sg.sign_hash` `sg.sign_copy` | `C19_sign_derives` | the derives of `Sign` were only used inside `Ord for BigInt` |

Sanity of the new detectors (a scratch copy of the crate with ten independent edits, run through `VERIF_REPO`; /repo untouched):
`Debug for BigInt` via LowerHex -> 239 `i.fmt_debug` cases; `partial_cmp(0,0) = None` -> `ord.i i:0: i:0:` (and `sort.i` panics);
inherent `checked_sub` = `self + v` -> 110 `i.checked_sub` cases; inherent `BigUint::cbrt` = sqrt -> `*_inh`, and (showing the
indirect path) `i.cbrt`, `u.nth_root n:3`; `arbitrary` sign swapped -> `arb.i`, `histx.*`; quickcheck `shrink` building
`BigInt { sign, data }` without `from_biguint` -> `qc.i`, `qc.shrink_i` (`err i:-:` = Minus with empty magnitude); both error
messages edited -> `*.parse_err`, `*.try_err`; `Hash for BigInt` hashing the magnitude of zero -> `hash.i i:0:` (`d:1,0` vs `d:1`;
invisible to `hist.pair`, which only compares two hashes).  Every edit was reported as `VIOLATION … replay=` by the owning check.

## Gaps left, and why

* **quickcheck::Arbitrary** is `exercised only`: quickcheck's `Vec<u64>` generator and shrinker are dependency code; only the
  invariant (every generated value / shrink candidate is canonical, a shrink candidate differs from the value and keeps its sign) is
  checked, against the theorem about `biguint_from_vec` / `from_biguint` on arbitrary vectors.
* **arbitrary::Arbitrary**: the byte decoding of `arbitrary` 1.4.2 (`fill_buffer`, `bool = u8 & 1`, the `arbitrary_iter` loop) is restated
  in `ExtraHist.v` as dependency behaviour — modelled, validated by the run (exact value AND number of unread bytes), not verified.
* **Derived `Debug/Hash/Clone/Copy` of `Sign`, `Clone`/`Debug` of `UniformBigUint`, `UniformBigInt`, `RandomBits`**: compiler-generated;
  `Sign`'s are exercised (`sg.sign_*`), the three sampler structs' are NOT COVERED (no property speaks about them).
* **`Clone::clone`**: exercised (pair observations, buffer modes) but there is nothing to state beyond identity; capacity is not modelled anywhere
  (docs/notes/hist.md).
* **BigInt `op= scalar` in histories** is modelled by the big∘big step on `ienc s` (proof: `C04_xhistory_trace_spec`); that the scalar forms
  themselves agree with big∘big is C10's theorem at value level — the digit-level scalar leaves of BigInt (`match sign … data += other`) have no
  digit-level model of their own (FormsLeaves.v is value level).
* **32-bit digit arms / non-x86 arms** (`u32_to_u128`, `u32_from_u128`, first items of `cfg_digit!`, portable `div_wide`) are not compiled here;
  `div_half` and `get_half_radix_base` are compiled but unreachable on x86_64 (`FAST_DIV_WIDE` is constant `true`): not restated.
* **f64 initial guesses of the roots (std)**: not modelled (C11 theorems hold for every legal guess; C16 compares std / no_std).
* **`to_radix_le/be` with a radix outside 2..=256**: documented precondition without an assertion — nothing claimed.
* Traits the crate does not implement (`Bounded`, `Average`, `CheckedNeg`, `CheckedRem`, `CheckedShl/Shr`, `ConstOne`, …, `checked_pow`): nothing to cover.

## Findings

None.  On every new case (quick and, where the drift sentinel or the mutation experiment escalated, thorough tier) the real crate agrees with
the model and with the Z-level specification.  Checks touched and their state on the unchanged /repo: C01 C04 C06 C08 C10 C11 C19 (new cases /
theorems) and C14 C15 C16 (harness features changed): all `ok`, no VIOLATION line.
"""

# ---------------------------------------------------------------------------------------------------
def sh(cmd):
    return subprocess.run(cmd, shell=True, cwd=ROOT, stdout=subprocess.PIPE, text=True).stdout

def main():
    errs = []
    harness_src = "\n".join(open(f).read() for f in glob.glob(os.path.join(ROOT, "harness/src/ops_*.rs")))
    driver_src = "\n".join(open(f).read() for f in glob.glob(os.path.join(ROOT, "ocaml/ops_*.ml")))
    model_src = {os.path.basename(f)[:-2]: open(f).read() for f in glob.glob(os.path.join(ROOT, "coq/model/*.v")) + glob.glob(os.path.join(ROOT, "coq/spec/*.v")) + glob.glob(os.path.join(ROOT, "coq/base/*.v"))}
    props_src = "\n".join(open(f).read() for f in glob.glob(os.path.join(ROOT, "coq/props/*.v")))
    theorems = set(re.findall(r"^Theorem\s+(\w+)", props_src, flags=re.M))
    # ops produced by the generators (quick tier, seed 1)
    gen_ops = collections.defaultdict(set)
    for pid in ["c%02d" % i for i in range(1, 21)]:
        try:
            m = importlib.import_module(pid)
            for c in m.generate(random.Random(1000003 + int(pid[1:])), "quick"):
                gen_ops[pid.upper()].add(c.split(" ")[0])
        except Exception as e:
            errs.append("generator %s failed: %s" % (pid, e))
    all_gen = set().union(*gen_ops.values()) if gen_ops else set()
    def op_known(op, src):
        if '"%s"' % op in src:
            return True
        # ops dispatched by prefix (f.*, rnd.*, "u.pow." ^ form, registration loops over name lists)
        idx = [i for i, ch in enumerate(op) if ch == "."]
        for i in idx:
            if '"%s"' % op[:i + 1] in src and ('"%s"' % op[i + 1:] in src or i == idx[-1]):
                return True
        return False
    for r in R:
        for op in r["ops"]:
            if not op_known(op, harness_src):
                errs.append("op %s (row %s) not found in harness" % (op, r["item"]))
            if not op_known(op, driver_src):
                errs.append("op %s (row %s) not found in driver" % (op, r["item"]))
            if op not in all_gen:
                errs.append("op %s (row %s) is not produced by any generator" % (op, r["item"]))
        for mf in r["model"]:
            if mf in ("—", "-"):
                continue
            mod, _, fn = mf.partition(".")
            if mod not in model_src or not re.search(r"\b(Definition|Fixpoint|Inductive|Record)\s+%s\b" % re.escape(fn), model_src[mod]):
                errs.append("model function %s (row %s) not found" % (mf, r["item"]))
        for t in r["thms"]:
            if t not in theorems:
                errs.append("theorem %s (row %s) not found in coq/props" % (t, r["item"]))
        st = r["status"]
        if st == P and not (r["ops"] and r["thms"]):
            errs.append("row %s claims proved+exercised without ops/theorems" % r["item"])
    # completeness against the inventory
    inv = json.loads(sh("python3 tools/api_inventory.py json"))
    claims = set(c for r in R for c in r["claims"])
    FORMS_TRAITS = re.compile(r"^(Add|Sub|Mul|Div|Rem|BitAnd|BitOr|BitXor|Shl|Shr|Pow)(Assign)?(<.*>)?$|^Checked(Add|Sub|Mul|Div)$")
    unclaimed = []
    seen32 = set()
    for im in inv["impls"]:
        tr, st, file = im["trait"], im["self"], im["file"]
        if file == "src/verif_probe.rs":
            continue
        if FORMS_TRAITS.match(tr) and not (tr == "Mul<Sign>" and st == "Sign"):
            continue                                   # claimed by the forms table (names compared per run)
        if tr == "(inherent)":
            for fn in im["fns"]:
                key = "inherent:%s::%s" % (st, fn)
                if key not in claims:
                    unclaimed.append(key + " (" + file + ")")
            for c in im["consts"]:
                if "const:%s::%s" % (st, c) not in claims:
                    unclaimed.append("const:%s::%s" % (st, c))
            continue
        key = "%s|%s" % (tr, st)
        if key not in claims:
            unclaimed.append(key + " (" + file + ")")
    for u in sorted(set(unclaimed)):
        errs.append("inventory item not claimed by any row: " + u)
    # helpers
    helper_rows = []
    for (file, owner, vis, name) in inv["fns"]:
        if owner.startswith("verif") or file == "src/verif_probe.rs" or owner in ("tests", "test") or name.startswith("test_") or name == "check":
            continue
        k = (file, name)
        if k not in H:
            errs.append("free function not in the helper table: %s::%s" % k)
        else:
            helper_rows.append((file, name, vis) + H[k])
    for (file, name), (model, note) in H.items():
        if name in ("twos", "normalize", "normalized"):
            helper_rows.append((file, name, "priv (nested / inherent)") + (model, note))
        for mf in re.findall(r"\b([A-Z][A-Za-z0-9]*)\.([a-z_][A-Za-z0-9_']*)", model):
            if mf[0] in model_src and not re.search(r"\b(Definition|Fixpoint)\s+%s\b" % re.escape(mf[1]), model_src[mf[0]]):
                errs.append("helper table: model function %s.%s not found (for %s::%s)" % (mf[0], mf[1], file, name))
    if errs:
        print("\n".join(errs))
        print("%d problem(s)" % len(errs))
        return 1
    if errs:
        print("\n".join(errs))
        print("%d problem(s)" % len(errs))
        return 1
    write_doc(inv, helper_rows, gen_ops)
    return 0

def write_doc(inv, helper_rows, gen_ops):
    counts = collections.Counter(r["status"] for r in R)
    out = []
    out.append("# API coverage of the verification framework\n")
    out.append("Generated by `tools/api_coverage.py` (which validates every op / model function / theorem name in this file against "
               "the tree and checks that every `impl` and `pub fn` found by `tools/api_inventory.py` in /repo — macro-expanded with the "
               "C10 macro engine — is claimed by a row).  Crate: twiby/num-bigint 0.4.6 fork at /repo, as compiled on x86_64 "
               "(64-bit digits) with features std + rand + serde (+ quickcheck + arbitrary for the two generator impls).\n")
    out.append("Status: **proved+exercised** = a theorem in `coq/props` about the model function AND a correspondence op running the real "
               "item against that model on generated cases; **exercised only** = model-level correspondence, no theorem about that "
               "function; **modelled-not-exercised**; **NOT COVERED**.\n")
    out.append("## Summary\n")
    out.append("| status | rows |\n|---|---|")
    for s in (P, E, M, N):
        out.append("| %s | %d |" % (s, counts.get(s, 0)))
    out.append("")
    out.append("Inventory behind the rows: %d impl blocks (%d of them operator-family impls claimed by the 1 286-row forms table), "
               "%d inherent public functions, %d free/private functions.  No finding: on every new case the crate agrees with model and spec.\n"
               % (len(inv["impls"]), sum(1 for im in inv["impls"] if re.match(r"^(Add|Sub|Mul|Div|Rem|BitAnd|BitOr|BitXor|Shl|Shr|Pow)(Assign)?(<.*>)?$|^Checked(Add|Sub|Mul|Div)$", im["trait"])),
                  sum(1 for im in inv["impls"] if im["trait"] == "(inherent)" for f in im["fns"] if im["vis"].get(f) == "pub"),
                  len(inv["fns"])))
    secs = SEC + [(len(R), None, None)]
    for (start, title, text), (end, _, _) in zip(secs, secs[1:]):
        out.append("## %s\n" % title)
        if text:
            out.append(text + "\n")
        out.append("| item | source | property | harness op(s) | model function | theorem(s) | status |")
        out.append("|---|---|---|---|---|---|---|")
        for r in R[start:end]:
            note = (" — " + r["note"]) if r["note"] else ""
            out.append("| %s%s | %s | %s | %s | %s | %s | **%s** |" % (
                r["item"], note, r["src"], r["prop"],
                " ".join("`%s`" % o for o in r["ops"]) or "—",
                " ".join("`%s`" % m for m in r["model"]) or "—",
                " ".join("`%s`" % t for t in r["thms"]) or "—", r["status"]))
        out.append("")
    out.append("## Private helper functions with real logic and the model function that restates each\n")
    out.append("From `tools/api_inventory.py fns` (every `fn` outside impl blocks, test modules and the `verif` wrappers excluded).  "
               "`-` = no model restates it (with the reason).\n")
    out.append("| source | function | visibility | restated by | note |")
    out.append("|---|---|---|---|---|")
    seen = set()
    for (file, name, vis, model, note) in sorted(helper_rows):
        if (file, name) in seen:
            continue
        seen.add((file, name))
        out.append("| %s | `%s` | %s | %s | %s |" % (file, name, vis or "priv", model, note))
    out.append("")
    out.append(NOTES)
    with open(os.path.join(ROOT, "docs", "API_COVERAGE.md"), "w") as f:
        f.write("\n".join(out))
    print("docs/API_COVERAGE.md written: %s" % dict(counts))

if __name__ == "__main__":
    sys.exit(main())
