#!/usr/bin/env python3
"""Regenerate MANIFEST.json from tools/props/Cnn.json (claimed properties) and properties.jsonl."""
import json, os, glob
ROOT = os.path.dirname(os.path.dirname(os.path.abspath(__file__)))
props = [json.loads(l) for l in open(os.path.join(ROOT, "properties.jsonl"))]
cfg = {}
for p in glob.glob(os.path.join(ROOT, "tools", "props", "C*.json")):
    pid = os.path.basename(p)[:-5]
    pv = os.path.join(ROOT, "coq", "props", pid + ".v")
    if not os.path.exists(pv) or "Print Assumptions" not in open(pv).read():
        continue        # not claimed until its props file holds theorems
    cfg[pid] = json.load(open(p))
DEFAULT_TEXT = ("Refinement theorems in Coq 8.16 (executable Gallina model = Z-level specification, for all canonical "
                "operands of any length), instantiated at parameters re-extracted from /repo's source on every run; "
                "the model is tied to the Rust code by a differential correspondence run (public API and, through "
                "cfg-guarded hooks, internal functions with branch probes), and the extraction is cross-checked inside Coq.")
DEFAULT_NOTE = ("Trusted: Coq kernel incl. vm_compute; tools/extract.py; OCaml extraction directives (cross-checked "
                "in-Coq each run); the hand-written Gallina restatement of the Rust functions (tied by correspondence); "
                "x86 fragment semantics; rustc/LLVM. 64-bit x86_64 configuration only.")
checks = []
for p in props:
    pid = p["id"]
    if pid not in cfg:
        continue
    c = cfg[pid]
    checks.append({
        "property_id": pid,
        "quick_cmd": "./check %s --tier quick" % pid,
        "thorough_cmd": "./check %s --tier thorough" % pid,
        "evidence_file": "evidence/%s.json" % pid,
        "replay_cmd_template": "./check replay {path}",
        "engine": "coq-model+correspondence",
        "level_claimed": {"category": c.get("category", "proof"),
                          "text": c.get("level_text", DEFAULT_TEXT),
                          "design_ref": "DESIGN.md §6 " + pid},
        "level_note": c.get("level_note", DEFAULT_NOTE) + (" " + " ".join(c.get("assumptions", [])) if c.get("assumptions") else ""),
        "technique": c.get("technique", "machine-checked proof in Coq (refinement of an executable model to a Z-level spec) + source-regenerated parameters + model/implementation correspondence"),
    })
na = [{"property_id": p["id"], "reason": "not yet built in this revision of /verif (work in progress; see DESIGN.md §11 order of work)"}
      for p in props if p["id"] not in cfg]
hooks_commits = ["0aa8ecb"]
extra = os.path.join(ROOT, "tools", "hook_commits.txt")
if os.path.exists(extra):
    hooks_commits = [l.strip() for l in open(extra) if l.strip()]
m = {"version": 1,
     "setup_cmd": "./check setup",
     "hooks": {"guard": "num_bigint_verif",
               "enable": "RUSTFLAGS=\"--cfg num_bigint_verif\" (set by ./check when it builds harness/)",
               "baseline_off_cmd": "cd /repo && cargo test --workspace --no-fail-fast --offline",
               "source_commits": hooks_commits, "add_only": True},
     "engines": [{"name": "coq-model+correspondence", "path": "check", "serves_properties": sorted(cfg.keys()),
                  "kind_free_text": "Coq 8.16 proofs over an executable Gallina model; parameters regenerated from source (tools/extract.py); OCaml-extracted model vs Rust harness correspondence"}],
     "checks": checks,
     "notes": "See DESIGN.md. known_findings.txt lists the six defects found and fixed (fix: commits in /repo).",
     "not_applicable": na}
json.dump(m, open(os.path.join(ROOT, "MANIFEST.json"), "w"), indent=1)
print("claimed:", sorted(cfg.keys()))
