#!/usr/bin/env python3
"""Print the prompt for an independent mutation sub-agent: only the property text + its worktree."""
import json, sys
pid, wt = sys.argv[1], sys.argv[2]
hint = sys.argv[3] if len(sys.argv) > 3 else ""
p = [json.loads(l) for l in open("/verif/properties.jsonl") if json.loads(l)["id"] == pid][0]
print(f"""You are helping to evaluate a verification tool by planting a realistic bug. You are given a Rust crate (a fork of num-bigint, arbitrary-precision integers) in the git worktree `{wt}`. Work ONLY inside `{wt}`. Do not read or list any other directory on this machine (in particular nothing under /verif, /root, /repo or other /tmp/m or /tmp/w directories) — your work must be independent.

The property under test — "{p['title']}":
"{p['statement']}"
(Quantified over: {p['quantifier']['text']})

Your task: make ONE small, realistic change to the crate's source (under `src/`) — the kind of slip a maintainer could make during a refactor or optimisation — such that
 (a) the crate still compiles (default features, and ideally `--no-default-features` too),
 (b) the existing test suite still passes completely: `cargo test --offline` in `{wt}` (all unit, integration and doc tests green),
 (c) the property above is violated for SOME inputs, and the violation needs something specific to manifest — an unusual input shape, a particular size/boundary, a rare branch, a multi-step sequence of operations, a rarely used operand form, or two cooperating code sites that each look fine alone — NOT something that ordinary use or a casual smoke test would expose at once.
{hint}
Code guarded by `#[cfg(num_bigint_verif)]` is test instrumentation: do not touch it and do not rely on it.

Deliverables, all inside `{wt}`:
 1. the change applied to the working tree (do NOT commit);
 2. `patch.diff` at the worktree root = output of `git diff -- src` (only the source change);
 3. a demonstration `tests/mutation_demo.rs` (an integration test using only the public API; if it needs optional features such as rand or serde, say which `--features` to pass) that FAILS with your change and PASSES on the original source; verify both directions yourself (e.g. `git diff -- src > patch.diff; git checkout -- src; cargo test --offline --test mutation_demo` must pass; `git apply patch.diff; cargo test --offline --test mutation_demo` must fail);
 4. `MUTATION.md`: what you changed, why it still passes the suite, exactly which inputs make it manifest.
Leave the worktree with the change applied and those three files present. Keep builds inside the worktree (default `target/`). Finish with a 5-line summary.""")
