#!/bin/bash
# confirm_seed.sh <seeded/dir> [extra cargo test args for the demo]
# Confirms a seeded change in a scratch worktree of /repo: compiles, the existing suite passes,
# the demonstration fails with the change and passes without it.  Removes the worktree afterwards.
set -u
D=$(cd "$1" && pwd); shift
EXTRA="$*"
W=/tmp/confirm_$$
git -C /repo worktree add -q --detach $W HEAD || exit 2
cleanup() { git -C /repo worktree remove --force $W; }
trap cleanup EXIT
cd $W
export CARGO_NET_OFFLINE=true
git apply "$D/patch.diff" || { echo "patch does not apply"; exit 2; }
echo "== suite with change (demo not yet present)"
cargo test --offline --no-fail-fast 2>&1 | grep -E "^test result|FAILED|error(\[|:)" | sort | uniq -c | head -20
cp "$D/mutation_demo.rs" tests/mutation_demo.rs
echo "== demo with change (expected: FAIL)"
timeout 600 cargo test --offline --test mutation_demo $EXTRA 2>&1 | grep -E "^test result|FAILED|panicked|overflow|signal" | head -5
git checkout -q -- src Cargo.toml
echo "== demo without change (expected: pass)"
timeout 600 cargo test --offline --test mutation_demo $EXTRA 2>&1 | grep -E "^test result|FAILED" | head -5
