"""Which source functions each property's MODEL restates (function-level, for the drift sentinel).

relevant(pid, key) -> bool, where key is "<file>::<fn>[#k]" as pinned in tools/fn_hashes.json.
A changed body of a relevant function escalates the case budget and, if nothing else explains it,
is reported as a broken correspondence (`corr:source-drift:<key>`, no-failing-input-found)."""
import re, json, os

OPS = r"(add|sub|mul|div|rem|bitand|bitor|bitxor|shl|shr|pow|neg|not)(_assign)?|checked_\w+|sum|product"

RULES = {
 "C01": [r"src/biguint/(addition|subtraction)\.rs::", r"src/bigint/(addition|subtraction)\.rs::", r"src/biguint\.rs::(cmp_slice|cmp|partial_cmp|normalize|normalized)\b"],
 "C02": [r"src/biguint/multiplication\.rs::", r"src/bigint/multiplication\.rs::"],
 "C03": [r"src/biguint/division\.rs::", r"src/bigint/division\.rs::", r"src/big(u)?int\.rs::(div_rem|div_floor|mod_floor|div_mod_floor|div_ceil|checked_div|div_euclid|rem_euclid)\b"],
 "C05": [r"src/biguint/monty\.rs::", r"src/biguint/power\.rs::(modpow|plain_modpow)\b", r"src/bigint/power\.rs::modpow\b", r"src/big(u)?int\.rs::(modpow|modinv)\b"],
 "C06": [r"src/biguint/convert\.rs::(fls|ilog2|from_str|from_radix\w*|from_str_radix|to_radix\w*|to_str_radix_reversed|get_radix_base|get_half_radix_base|generate_radix_bases|\w*bitwise_digits_le)\b",
         r"src/bigint/convert\.rs::(from_str|from_str_radix)\b", r"src/big(u)?int\.rs::(fmt|to_str_radix|to_radix_\w+|from_radix_\w+|parse_bytes)\b"],
 "C07": [r"src/biguint/(bits|shift)\.rs::", r"src/bigint/(bits|shift)\.rs::", r"src/big(u)?int\.rs::(bits|trailing_zeros|trailing_ones|count_ones|bit|set_bit|not)\b", r"src/big(u)?int/shift\.rs::\$shx"],
 "C08": [r"src/big(u)?int/convert\.rs::(to_[iuf]\w+|from_[iuf]\w+|high_bits_to_u64|from|try_from|into_original|__description)\b", r"src/lib\.rs::",
         # only the macro-generated primitive -> big impls of ToBigInt/ToBigUint (big -> big is C19's)
         r"src/bigint/convert\.rs::to_bigint#2$", r"src/biguint/convert\.rs::to_biguint#1$"],
 "C09": [r"src/biguint/iter\.rs::", r"src/biguint/convert\.rs::\w*bitwise_digits_le\b", r"src/bigint/convert\.rs::(from_signed_bytes\w*|to_signed_bytes\w*|twos_complement\w*|from_bytes\w*|to_bytes\w*)\b",
         r"src/big(u)?int\.rs::(new|from_slice|assign_from_slice|from_bytes_\w+|to_bytes_\w+|from_signed_bytes_\w+|to_signed_bytes_\w+|to_u32_digits|to_u64_digits|iter_u32_digits|iter_u64_digits|u32_chunk_to_u64|ensure_big_digit|biguint_from_vec)\b"],
 "C10": [r"src/big(u)?int/\w+\.rs::(%s)\b" % OPS, r"src/big(u)?int\.rs::(%s)\b" % OPS, r"src/macros\.rs::", r"::\$\w+",
         # helpers that only some operand forms reach (in-place vs allocating paths): a slip there makes the forms disagree
         r"src/big(u)?int/(addition|subtraction|multiplication|division|bits|shift|power)\.rs::"],
 "C11": [r"src/big(u)?int\.rs::(fixpoint|nth_root|sqrt|cbrt)\b"],
 "C12": [r"src/big(u)?int/power\.rs::(pow|powsign)\b", r"src/big(u)?int\.rs::pow\b"],
 "C13": [r"src/big(u)?int\.rs::(gcd|lcm|gcd_lcm|extended_gcd_lcm|divides|is_multiple_of|is_even|is_odd|next_multiple_of|prev_multiple_of|dec|inc|twos)\b"],
 "C15": [r"src/biguint/addition\.rs::(schoolbook_add_assign_x86_64|adc|__add2)\b", r"src/biguint/subtraction\.rs::(schoolbook_sub_assign_x86_64|sbb|sub2|__sub2rev)\b",
         r"src/biguint/division\.rs::(div_wide|div_rem_digit|rem_digit|div_rem_core)\b", r"src/big(u)?int\.rs::to_str_radix\b",
         r"src/biguint/convert\.rs::to_str_radix_reversed\b", r"src/bigrand\.rs::(gen_bits|gen_biguint)\b"],
 "C17": [r"src/big(u)?int/serde\.rs::"],
 "C18": [r"src/bigrand\.rs::"],
 "C19": [r"src/bigint\.rs::(neg|abs|abs_sub|signum|is_positive|is_negative|sign|magnitude|into_parts|from_biguint|to_biguint|zero|one|is_zero|is_one|set_zero|set_one|default|cmp|partial_cmp)\b",
         r"src/biguint\.rs::(zero|one|is_zero|is_one|set_zero|set_one|default)\b", r"src/bigint/convert\.rs::(to_biguint|to_bigint|from|try_from)\b", r"src/biguint/convert\.rs::to_biguint$", r"src/bigint/multiplication\.rs::mul\b"],
 "C20": [r"src/biguint/multiplication\.rs::"],
}
# C04: every function that normalises in the reviewed baseline + equality/order/hash/clone
_ROOT = os.path.dirname(os.path.abspath(__file__))
try:
    _norm = set(k.split("#")[0] for k in json.load(open(os.path.join(_ROOT, "norm_baseline.json"))))
except Exception:
    _norm = set()

try:
    _cfg_fns = set(json.load(open(os.path.join(_ROOT, "cfg_fns.json"))))
except Exception:
    _cfg_fns = set()

def relevant(pid, key):
    base = key.split("#")[0]
    if pid == "C16":
        # the functions that contain a cfg(feature = ...) site (tools/cfg_fns.json, regenerated with the pins):
        # only there can the std and no_std builds take different paths inside one function
        return base in _cfg_fns
    if pid == "C04":
        return base in _norm or re.search(r"::(eq|cmp|partial_cmp|hash|clone_from|cmp_slice|normalize|normalized|biguint_from_vec)$", base) is not None
    for pat in RULES.get(pid, []):
        if re.search(pat, key):
            return True
    return False

def file_relevant(pid, key):
    """budget-only relevance: the key's FILE is one a rule of the property mentions (used for added /
    removed functions and for the per-file `<items>` hash of everything outside function bodies)"""
    rel = key.split("::")[0] + "::"
    if pid == "C04":
        return any(k.startswith(rel) for k in _norm) or rel in ("src/biguint.rs::", "src/bigint.rs::")
    if pid == "C10":
        return True                     # operator impls and forwarding macros live in every file
    return any(re.search(pat.split("::")[0] + "::", rel) for pat in RULES.get(pid, []))

STRICT = set(RULES) | {"C04", "C16"}     # C14 decides through its source-wide panic-site list; C16 is strict on the cfg-site functions only
