#!/usr/bin/env python3
"""asm_tv.py <binary>... — translation validation of the COMPILED inline-asm loops (C15).

Disassembles the given harness binaries, finds every instance of the 5-lane add/sub loop and
checks that, after renaming machine registers to the asm operands, the instruction sequence is
exactly the canonical program the Coq proofs are about (coq/proofs/AddSubProofs.v canon_prog):
same order, same offsets, the loop branch targets the first load, and the 14 operands a, b, idx,
size, a_tmp1..5, b_tmp1..5 sit in 14 pairwise distinct registers (the `c` output may reuse an
input register: it is `lateout`).  Prints a JSON summary; exit 1 if an instance deviates or none
is found.  This checks the binaries that were built here, not the compiler in general.
"""
import sys, re, json, subprocess

LOAD = re.compile(r"^mov\s+(?:(0x[0-9a-f]+|\d+))?\(%(\w+),%(\w+),8\),%(\w+)$")
STORE = re.compile(r"^mov\s+%(\w+),(?:(0x[0-9a-f]+|\d+))?\(%(\w+),%(\w+),8\)$")
OP = re.compile(r"^(adc|sbb)\s+%(\w+),%(\w+)$")

def off(s):
    return int(s, 16) if s and s.startswith("0x") else int(s or 0)

def instances(binary):
    out = subprocess.run(["objdump", "-d", "--no-show-raw-insn", binary], capture_output=True, text=True).stdout
    insns = []
    for ln in out.splitlines():
        m = re.match(r"^\s*([0-9a-f]+):\s+(.*?)\s*(?:#.*)?$", ln)
        if m:
            insns.append((int(m.group(1), 16), re.sub(r"\s+<.*>$", "", m.group(2)).strip()))
    res = []
    for k, (addr, txt) in enumerate(insns):
        if txt != "clc" or k + 30 >= len(insns):
            continue
        win = insns[k:k + 30]
        if not LOAD.match(win[1][1]):
            continue
        res.append(check(win))
    return res

def check(win):
    txt = [t for _, t in win]
    addr = [a for a, _ in win]
    try:
        loads = [LOAD.match(t) for t in txt[1:11]]
        ops = [OP.match(t) for t in txt[11:16]]
        stores = [STORE.match(t) for t in txt[16:21]]
        if not all(loads) or not all(ops) or not all(stores):
            return {"ok": False, "at": hex(addr[0]), "why": "shape"}
        A, I = loads[0].group(2), loads[0].group(3)
        Bp = loads[5].group(2)
        ta = [m.group(4) for m in loads[:5]]
        tb = [m.group(4) for m in loads[5:]]
        kind = ops[0].group(1)
        for j in range(5):
            if (loads[j].group(2), loads[j].group(3), off(loads[j].group(1))) != (A, I, 8 * j): return {"ok": False, "at": hex(addr[0]), "why": "load a %d" % j}
            if (loads[5 + j].group(2), loads[5 + j].group(3), off(loads[5 + j].group(1))) != (Bp, I, 8 * j): return {"ok": False, "at": hex(addr[0]), "why": "load b %d" % j}
            if (ops[j].group(1), ops[j].group(2), ops[j].group(3)) != (kind, tb[j], ta[j]): return {"ok": False, "at": hex(addr[0]), "why": "op %d" % j}
            if (stores[j].group(1), stores[j].group(3), stores[j].group(4), off(stores[j].group(2))) != (ta[j], A, I, 8 * j): return {"ok": False, "at": hex(addr[0]), "why": "store %d" % j}
        if txt[21:26] != ["inc    %" + I] * 5 and [re.sub(r"\s+", " ", t) for t in txt[21:26]] != ["inc %" + I] * 5:
            return {"ok": False, "at": hex(addr[0]), "why": "inc"}
        md = re.match(r"^dec\s+%(\w+)$", txt[26])
        mj = re.match(r"^jne\s+([0-9a-f]+)$", txt[27])
        ms = re.match(r"^setb\s+%(\w+)$", txt[28])
        if not md or not mj or not ms or txt[29] != "clc":
            return {"ok": False, "at": hex(addr[0]), "why": "tail"}
        if int(mj.group(1), 16) != addr[1]:
            return {"ok": False, "at": hex(addr[0]), "why": "branch target"}
        S = md.group(1)
        regs = [A, Bp, I, S] + ta + tb
        if len(set(regs)) != 14:
            return {"ok": False, "at": hex(addr[0]), "why": "registers not distinct: %s" % regs}
        return {"ok": True, "at": hex(addr[0]), "kind": kind, "regs": {"a": A, "b": Bp, "idx": I, "size": S, "a_tmp": ta, "b_tmp": tb, "c": ms.group(1)}}
    except Exception as e:
        return {"ok": False, "at": hex(addr[0]), "why": "exception %s" % e}

def main():
    summary = {"binaries": {}, "ok": True}
    for b in sys.argv[1:]:
        inst = instances(b)
        bad = [i for i in inst if not i["ok"]]
        n_adc = sum(1 for i in inst if i.get("kind") == "adc")
        n_sbb = sum(1 for i in inst if i.get("kind") == "sbb")
        summary["binaries"][b] = {"instances": len(inst), "adc": n_adc, "sbb": n_sbb, "deviating": bad[:5],
                                  "sample": next((i for i in inst if i["ok"]), None)}
        if bad or n_adc == 0 or n_sbb == 0:
            summary["ok"] = False
    json.dump(summary, sys.stdout, indent=1)
    print()
    sys.exit(0 if summary["ok"] else 1)

if __name__ == "__main__":
    main()
