"""Normalisation call sites → `Extracted.norm_sites` (C04).

For every function of the source that, in the reviewed baseline tools/norm_baseline.json, calls
`normalize()`, `normalized()`, `biguint_from_vec(`, `from_biguint(` or `.into()`-free canonical
constructors, emit (line of the fn, number of such calls now, number in the baseline).  A function
that lost a call has calls < expected and fails `norm_ok`; a function that disappeared is emitted
with calls = 0.
"""
import re, json, os
PAT = re.compile(r"\.normalize\(\)|\.normalized\(\)|\bbiguint_from_vec\(|\bfrom_biguint\(|\bnormalize\(\s*\)")

def count_sites(src):
    out = {}
    for rel in src.all_files():
        if rel.endswith("verif_probe.rs"):
            continue
        code = src.code(rel)
        # strip verification-only modules
        code = re.sub(r"#\[cfg\(num_bigint_verif\)\]\s*pub mod verif \{.*?\n\}\n", "", code, flags=re.S)
        for m in re.finditer(r"\bfn\s+(\w+)", code):
            i = code.find("{", m.end()); j = code.find(";", m.end())
            if i < 0 or (0 <= j < i):
                continue
            depth = 0
            for k in range(i, len(code)):
                if code[k] == "{": depth += 1
                elif code[k] == "}":
                    depth -= 1
                    if depth == 0:
                        body = code[i:k + 1]
                        n = len(PAT.findall(body))
                        key = "%s::%s" % (rel, m.group(1))
                        idx = sum(1 for q in out if q.split("#")[0] == key)
                        key_n = key if idx == 0 else "%s#%d" % (key, idx)
                        out[key_n] = (n, code[:m.start()].count("\n") + 1)
                        break
    return out

def extract(src):
    here = os.path.dirname(os.path.dirname(os.path.abspath(__file__)))
    bp = os.path.join(here, "norm_baseline.json")
    cur = count_sites(src)
    if os.environ.get("VERIF_PIN_NORM") == "1":
        json.dump({k: v[0] for k, v in cur.items() if v[0] > 0}, open(bp, "w"), indent=0, sort_keys=True)
    base = json.load(open(bp)) if os.path.exists(bp) else {}
    rows, lost = [], []
    for k in sorted(base):
        n, line = cur.get(k, (0, 0))
        rows.append("{| ns_line := %d; ns_calls := %d; ns_expected := %d |}" % (line, n, base[k]))
        if n < base[k]:
            lost.append("%s: %d < %d" % (k, n, base[k]))
    text = "Definition norm_sites : list norm_site := [\n  %s].\n" % ";\n  ".join(rows)
    return ["Base", "Cfg"], text, {"functions": len(base), "lost": lost}
