"""Source fragments of src/biguint/{addition,subtraction}.rs → `Extracted.addsub`."""
import re

REGS = {"idx": "Ridx", "size": "Rsize", "c": "Rc"}
for i in range(1, 10):
    REGS["a_tmp%d" % i] = "(RA %d)" % i
    REGS["b_tmp%d" % i] = "(RB %d)" % i

def reg(name, unknown):
    if name in REGS:
        return REGS[name]
    unknown.append(name)
    return "(Rother %d)" % (sum(map(ord, name)) % 1000)

MEM = r"qword ptr \[\{(a|b)\} \+ 8\*\{idx\}(?: \+ (\d+))?\]"

def parse_asm(fn_text, rep):
    """Translate the asm! template lines into X86.instr constructors."""
    m = re.search(r"asm!\s*\((.*?)\)\s*;", fn_text, flags=re.S)
    if not m:
        rep["anchor_missing"] = "asm!"
        return ["Unknown 1"], {}
    body = m.group(1)
    lines = re.findall(r'"([^"]*)"', body)
    out, unknown = [], []
    for ln in lines:
        ln = ln.strip()
        mm = None
        if ln == "clc":
            out.append("Clc")
        elif re.fullmatch(r"(\d+):", ln):
            out.append("Label %s" % ln[:-1])
        elif (mm := re.fullmatch(r"jnz (\d+)b", ln)):
            out.append("Jnz %s" % mm.group(1))
        elif (mm := re.fullmatch(r"mov \{(\w+)\}, " + MEM, ln)):
            off = int(mm.group(3) or 0)
            if off % 8:
                out.append("Unknown 2")
            else:
                out.append("Load %s %s %d" % (reg(mm.group(1), unknown), "MA" if mm.group(2) == "a" else "MB", off // 8))
        elif (mm := re.fullmatch(r"mov " + MEM + r", \{(\w+)\}", ln)):
            off = int(mm.group(2) or 0)
            if off % 8:
                out.append("Unknown 3")
            else:
                out.append("Store %s %d %s" % ("MA" if mm.group(1) == "a" else "MB", off // 8, reg(mm.group(3), unknown)))
        elif (mm := re.fullmatch(r"(adc|sbb) \{(\w+)\}, \{(\w+)\}", ln)):
            out.append("%s %s %s" % (mm.group(1).capitalize(), reg(mm.group(2), unknown), reg(mm.group(3), unknown)))
        elif (mm := re.fullmatch(r"(inc|dec) \{(\w+)\}", ln)):
            out.append("%s %s" % (mm.group(1).capitalize(), reg(mm.group(2), unknown)))
        elif (mm := re.fullmatch(r"setc \{(\w+)\}", ln)):
            out.append("Setc %s" % reg(mm.group(1), unknown))
        else:
            out.append("Unknown 9")
            rep.setdefault("unparsed", []).append(ln)
    # operand declarations
    ops = dict(re.findall(r"(\w+)\s*=\s*((?:in|out|inout|lateout|inlateout)\(\w+\))", body))
    if unknown:
        rep["unknown_regs"] = unknown
    return out, ops

def extract(src):
    rep = {}
    res = {}
    for which, rel, fn in (("add", "src/biguint/addition.rs", "schoolbook_add_assign_x86_64"),
                           ("sub", "src/biguint/subtraction.rs", "schoolbook_sub_assign_x86_64")):
        body = src.fn_body(rel, fn, 0)
        if body is None:
            rep["anchor_missing_" + which] = fn
            res[which] = (["Unknown 0"], {}, -1)
            continue
        prog, ops = parse_asm(body, rep)
        m = re.search(r"size\s*/=\s*(\d+)\s*;", body)
        blk = int(m.group(1)) if m else -1
        early = re.search(r"if\s+size\s*==\s*0\s*\{\s*return\s*\(\s*false\s*,\s*0\s*\)", body) is not None
        if not early:
            rep["early_return_missing_" + which] = True
            blk = -1
        # operand classes the proof relies on
        want = {"size": "in(reg)", "a": "in(reg)", "b": "in(reg)", "idx": "inout(reg)", "c": "lateout(reg_byte)"}
        for k, v in want.items():
            if ops.get(k) != v:
                rep.setdefault("operand_class_" + which, {})[k] = ops.get(k)
                prog = prog + ["Unknown 7"]
        for k, v in ops.items():
            if k.startswith(("a_tmp", "b_tmp")) and v != "out(reg)":
                rep.setdefault("operand_class_" + which, {})[k] = v
                prog = prog + ["Unknown 8"]
        # observation recorded in the evidence (DESIGN §7): `dec {size}` writes an `in` operand
        rep["writes_in_operand_" + which] = any(p == "Dec Rsize" for p in prog) and ops.get("size") == "in(reg)"
        res[which] = (prog, ops, blk)
    blk = res["add"][2] if res["add"][2] == res["sub"][2] else -1
    # AddAssign<&BigUint>: `let carry = if self_len < other.data.len() {`
    code = src.code("src/biguint/addition.rs")
    m = re.search(r"let\s+carry\s*=\s*if\s+self_len\s*(<=|<|>=|>|==|!=)\s*other\.data\.len\(\)", code)
    lencmp = {"<": "Clt", "<=": "Cle", "==": "Ceq", "!=": "Cne", ">=": "Cge", ">": "Cgt"}[m.group(1)] if m else "Cne"
    if not m:
        rep["anchor_missing_lencmp"] = True
    # the two call sites of the asm loops: pointers and length must describe the common prefix
    subc = src.code("src/biguint/subtraction.rs")
    pats_add = [r"let\s*\(a_lo\s*,\s*a_hi\)\s*=\s*a\.split_at_mut\(b\.len\(\)\)\s*;",
                r"schoolbook_add_assign_x86_64\(\s*a_lo\.as_mut_ptr\(\)\s*,\s*b\.as_ptr\(\)\s*,\s*b\.len\(\)\s*\)"]
    pats_sub = [r"let\s+len\s*=\s*Ord::min\(a\.len\(\)\s*,\s*b\.len\(\)\)\s*;",
                r"let\s*\(a_lo\s*,\s*a_hi\)\s*=\s*a\.split_at_mut\(len\)\s*;",
                r"let\s*\(b_lo\s*,\s*b_hi\)\s*=\s*b\.split_at\(len\)\s*;",
                r"schoolbook_sub_assign_x86_64\(\s*a_lo\.as_mut_ptr\(\)\s*,\s*b_lo\.as_ptr\(\)\s*,\s*len\s*\)"]
    add2_body = src.fn_body("src/biguint/addition.rs", "__add2", 0) or ""
    sub2_body = src.fn_body("src/biguint/subtraction.rs", "sub2", 0) or ""
    callsites = all(re.search(p_, add2_body) for p_ in pats_add) and all(re.search(p_, sub2_body) for p_ in pats_sub)
    rep["callsites_ok"] = callsites
    def lst(p):
        return "[" + ";\n    ".join(p) + "]"
    text = "Definition addsub : addsub_params := {|\n  ap_blk := %d;\n  ap_add_prog := %s;\n  ap_sub_prog := %s;\n  ap_add_len_cmp := %s;\n  ap_callsites := %s |}.\n" % (
        blk if blk >= 0 else -1, lst(res["add"][0]), lst(res["sub"][0]), lencmp, "true" if callsites else "false")
    text = text.replace(":= -1;", ":= (-1);")
    rep["blk"] = blk
    rep["add_instrs"] = len(res["add"][0])
    rep["sub_instrs"] = len(res["sub"][0])
    return ["Base", "X86", "AddSub"], text, rep
