"""Regular decision points of the bitwise / shift / bit-query code -> `Extracted.bits`.

Every field is the comparison operator found at a fixed textual anchor; an anchor that is not
found yields `Cne`, which `Bits.bits_ok` never accepts (fail closed)."""
import re

OPS = {"<": "Clt", "<=": "Cle", "==": "Ceq", "!=": "Cne", ">=": "Cge", ">": "Cgt"}
OP = r"(<=|>=|==|!=|<|>)"

# field -> (file, fn name, nth occurrence of that fn, regex with one group = the operator)
ANCHORS = [
    ("bp_uand_len", "src/biguint/bits.rs", "bitand", 0,
     r"if\s+self\.data\.len\(\)\s*" + OP + r"\s*other\.data\.len\(\)"),
    ("bp_uor_len", "src/biguint/bits.rs", "bitor_assign", 0,
     r"if\s+other\.data\.len\(\)\s*" + OP + r"\s*self\.data\.len\(\)"),
    ("bp_uxor_len", "src/biguint/bits.rs", "bitxor_assign", 0,
     r"if\s+other\.data\.len\(\)\s*" + OP + r"\s*self\.data\.len\(\)"),
    ("bp_round", "src/bigint/shift.rs", "shr_round_down", 0,
     r"\.map\(\s*\|shift\|\s*zeros\s*" + OP + r"\s*shift\s*\)\s*\.unwrap_or\(\s*true\s*\)"),
    ("bp_round_pos", "src/bigint/shift.rs", "shr_round_down", 0,
     r"shift\s*" + OP + r"\s*T::zero\(\)\s*&&"),
    ("bp_ibit_hi", "src/bigint.rs", "bit", 0,
     r"if\s+bit\s*" + OP + r"\s*u64::from\(crate::big_digit::BITS\)\s*\*\s*self\.len\(\)\s+as\s+u64"),
    ("bp_snb_hi", "src/bigint/bits.rs", "set_negative_bit", 0,
     r"if\s+bit\s*" + OP + r"\s*bits_per_digit\s*\*\s*data\.len\(\)\s+as\s+u64"),
    ("bp_snb_gt", "src/bigint/bits.rs", "set_negative_bit", 0,
     r"unwrap\(\)\s*;\s*if\s+bit\s*" + OP + r"\s*trailing_zeros\s*\{\s*data\.set_bit\(bit,\s*!value\)"),
    ("bp_snb_eq", "src/bigint/bits.rs", "set_negative_bit", 0,
     r"else\s+if\s+bit\s*" + OP + r"\s*trailing_zeros\s*&&\s*!value\s*\{"),
    ("bp_snb_lt", "src/bigint/bits.rs", "set_negative_bit", 0,
     r"else\s+if\s+bit\s*" + OP + r"\s*trailing_zeros\s*&&\s*value\s*\{"),
    ("bp_set_ge", "src/biguint.rs", "set_bit", 0,
     r"if\s+value\s*\{\s*if\s+digit_index\s*" + OP + r"\s*self\.data\.len\(\)"),
    ("bp_set_lt", "src/biguint.rs", "set_bit", 0,
     r"else\s+if\s+digit_index\s*" + OP + r"\s*self\.data\.len\(\)"),
    ("bp_iand_len", "src/bigint/bits.rs", "bitand", 0,
     r"\(Minus,\s*Minus\)\s*=>\s*\{\s*if\s+self\.len\(\)\s*" + OP + r"\s*other\.len\(\)"),
    ("bp_ior_len", "src/bigint/bits.rs", "bitor", 0,
     r"\(Minus,\s*Minus\)\s*=>\s*\{\s*if\s+self\.len\(\)\s*" + OP + r"\s*other\.len\(\)"),
]

def extract(src):
    rep = {}
    fields = []
    for field, rel, fn, nth, rx in ANCHORS:
        val = "Cne"
        try:
            body = src.fn_body(rel, fn, nth)
        except Exception:
            body = None
        if body is None:
            rep.setdefault("anchor_missing", []).append("%s: fn %s" % (field, fn))
        else:
            ms = re.findall(rx, body)
            if len(ms) == 1:
                val = OPS[ms[0]]
            else:
                rep.setdefault("anchor_missing", []).append("%s (%d matches)" % (field, len(ms)))
        fields.append("%s := %s" % (field, val))
        rep[field] = val
    text = "Definition bits : bits_params := {|\n  " + ";\n  ".join(fields) + " |}.\n"
    return ["Base", "X86", "AddSub", "Bits"], text, rep
