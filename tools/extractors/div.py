"""Source fragments of src/biguint/division.rs, src/bigint/division.rs, src/bigint.rs
→ `Extracted.div` (record `Div.div_params`).

Read from the source on every run:
  * the three Knuth decision operators of `div_rem_core`
      `if a0 < b0`, `while r <= MAX && [r,a2] < q0*b1`, `if borrow > a0`
  * the order of the pre-checks of `div_rem` and `div_rem_ref`
  * `if shift == 0` (both copies must agree)
  * presence of the `to_u32` short-cut in the two `Rem` impls of BigUint and in BigInt's
  * presence of the `is_zero` guard (before the `Some(..)`) of each checked_* method
Anything not found is emitted as a value that cannot satisfy `div_ok` (fail closed).
"""
import re

CMP = {"<": "Clt", "<=": "Cle", "==": "Ceq", "!=": "Cne", ">=": "Cge", ">": "Cgt"}
OPS = r"(<=|>=|==|!=|<|>)"
BAD_CMP = "Cne"          # never the expected operator at any of the anchors below

def cmp_at(text, pattern, rep, key):
    m = re.search(pattern, text or "", flags=re.S)
    if not m:
        rep["anchor_missing_" + key] = True
        return BAD_CMP
    return CMP[m.group(1)]

def pre_order(body, rep, key):
    """Positions of the four pre-checks inside the function body, sorted."""
    if body is None:
        rep["anchor_missing_" + key] = True
        return []
    anchors = {
        "PcDZero": r"if\s+d\.is_zero\(\)\s*\{\s*panic!",
        "PcUZero": r"if\s+u\.is_zero\(\)\s*\{\s*return\s*\(\s*BigUint::ZERO\s*,\s*BigUint::ZERO\s*\)",
        "PcLen1": r"if\s+d\.data\.len\(\)\s*==\s*1\s*\{",
        "PcCmp": r"match\s+u\.cmp\(\s*&?d\s*\)\s*\{",
    }
    pos = []
    for name, pat in anchors.items():
        ms = list(re.finditer(pat, body))
        if len(ms) != 1:
            rep.setdefault("precheck_anchor_" + key, []).append(name)
            continue
        pos.append((ms[0].start(), name))
    # the Knuth path must come after all of them
    k = body.find("leading_zeros")
    if k < 0 or any(p > k for p, _ in pos):
        rep["precheck_after_knuth_" + key] = True
        return []
    return [n for _, n in sorted(pos)]

def guard_present(body, zero_call):
    """`if v.is_zero() { return None; }` occurs before the `Some(` of the method."""
    if body is None:
        return False
    g = re.search(r"if\s+v\.is_zero\(\)\s*\{\s*return\s+None\s*;\s*\}", body)
    s = body.find("Some(")
    return bool(g) and s >= 0 and g.start() < s

def impl_block(code, header_regex):
    m = re.search(header_regex, code)
    if not m:
        return None
    i = code.index("{", m.end() - 1) if code[m.end() - 1] != "{" else m.end() - 1
    depth = 0
    for j in range(i, len(code)):
        if code[j] == "{":
            depth += 1
        elif code[j] == "}":
            depth -= 1
            if depth == 0:
                return code[m.start(): j + 1]
    return None

def fn_in(block, name):
    if block is None:
        return None
    m = re.search(r"\bfn\s+%s\b" % name, block)
    if not m:
        return None
    i = block.index("{", m.end())
    depth = 0
    for j in range(i, len(block)):
        if block[j] == "{":
            depth += 1
        elif block[j] == "}":
            depth -= 1
            if depth == 0:
                return block[m.start(): j + 1]
    return None

def b(x):
    return "true" if x else "false"

def extract(src):
    rep = {}
    U = "src/biguint/division.rs"
    I = "src/bigint/division.rs"
    core = src.fn_body(U, "div_rem_core")
    if core is None:
        rep["anchor_missing_core"] = True
        core = ""
    a0 = cmp_at(core, r"=\s*if\s+a0\s*" + OPS + r"\s*b0\s*\{", rep, "a0_cmp")
    mw = re.search(r"while\s+r\s*" + OPS + r"\s*big_digit::MAX\s+as\s+DoubleBigDigit\s*&&\s*"
                   r"big_digit::to_doublebigdigit\(\s*r\s+as\s+BigDigit\s*,\s*a2\s*\)\s*" + OPS +
                   r"\s*q0\s+as\s+DoubleBigDigit\s*\*\s*b1\s+as\s+DoubleBigDigit\s*\{", core, flags=re.S)
    if mw:
        rc, qc = CMP[mw.group(1)], CMP[mw.group(2)]
    else:
        rep["anchor_missing_while"] = True
        rc, qc = BAD_CMP, BAD_CMP
    bc = cmp_at(core, r"if\s+borrow\s*" + OPS + r"\s*a0\s*\{", rep, "borrow_cmp")
    # the decrement/update statements the model hard-wires
    for key, pat in (("q0_dec", r"q0\s*-=\s*1\s*;"), ("r_inc", r"r\s*\+=\s*b0\s+as\s+DoubleBigDigit\s*;"),
                     ("add_back", r"borrow\s*-=\s*__add2\(\s*&mut\s+a\.data\[j\.\.\]\s*,\s*b\s*\)\s*;"),
                     ("sub_mul", r"sub_mul_digit_same_len\(\s*&mut\s+a\.data\[j\.\.\]\s*,\s*b\s*,\s*q0\s*\)")):
        if not re.search(pat, core):
            rep["shape_" + key] = False
            a0 = BAD_CMP
    dv = src.fn_body(U, "div_rem")
    dr = src.fn_body(U, "div_rem_ref")
    pre_v = pre_order(dv, rep, "div_rem")
    pre_r = pre_order(dr, rep, "div_rem_ref")
    sh = []
    for body, key in ((dv, "div_rem"), (dr, "div_rem_ref")):
        sh.append(cmp_at(body, r"if\s+shift\s*" + OPS + r"\s*0\s*\{", rep, "shift_" + key))
    shift = sh[0] if sh[0] == sh[1] else BAD_CMP
    ucode = src.code(U)
    icode = src.code(I)
    # to_u32 short-cuts
    r1 = fn_in(impl_block(ucode, r"impl\s+Rem<BigUint>\s+for\s+BigUint\s*\{"), "rem")
    r2 = fn_in(impl_block(ucode, r"impl\s+Rem<&BigUint>\s+for\s+&BigUint\s*\{"), "rem")
    r3 = fn_in(impl_block(icode, r"impl\s+Rem<&BigInt>\s+for\s+&BigInt\s*\{"), "rem")
    short_pat = r"if\s+let\s+Some\(other\)\s*=\s*other\.to_u32\(\)\s*\{"
    shorts = [bool(x and re.search(short_pat, x)) for x in (r1, r2, r3)]
    i32_short = bool(r3 and re.search(r"else\s+if\s+let\s+Some\(other\)\s*=\s*other\.to_i32\(\)\s*\{", r3))
    rep["to_u32_shortcuts"] = shorts + [i32_short]
    u32_short = all(shorts) and i32_short
    # checked API
    ucd = impl_block(ucode, r"impl\s+CheckedDiv\s+for\s+BigUint\s*\{")
    uce = impl_block(ucode, r"impl\s+CheckedEuclid\s+for\s+BigUint\s*\{")
    icd = impl_block(icode, r"impl\s+CheckedDiv\s+for\s+BigInt\s*\{")
    ice = impl_block(icode, r"impl\s+CheckedEuclid\s+for\s+BigInt\s*\{")
    inh = src.fn_body("src/bigint.rs", "checked_div")
    guards = {
        "dp_g_udiv": guard_present(fn_in(ucd, "checked_div"), "v"),
        "dp_g_udiv_euclid": guard_present(fn_in(uce, "checked_div_euclid"), "v"),
        "dp_g_urem_euclid": guard_present(fn_in(uce, "checked_rem_euclid"), "v"),
        "dp_g_udiv_rem_euclid": guard_present(fn_in(uce, "checked_div_rem_euclid"), "v"),
        "dp_g_idiv": guard_present(fn_in(icd, "checked_div"), "v"),
        "dp_g_idiv_euclid": guard_present(fn_in(ice, "checked_div_euclid"), "v"),
        "dp_g_irem_euclid": guard_present(fn_in(ice, "checked_rem_euclid"), "v"),
        "dp_g_idiv_rem_euclid": guard_present(fn_in(ice, "checked_div_rem_euclid"), "v"),
        "dp_g_idiv_inherent": guard_present(inh, "v"),
    }
    rep["guards"] = guards
    rep["pre_val"], rep["pre_ref"] = pre_v, pre_r
    rep["cmps"] = [a0, rc, qc, bc, shift]
    lst = lambda l: "[" + "; ".join(l) + "]"
    fields = [
        "dp_as := addsub",
        "dp_a0_cmp := %s" % a0, "dp_r_cmp := %s" % rc, "dp_q_cmp := %s" % qc, "dp_borrow_cmp := %s" % bc,
        "dp_pre_val := %s" % lst(pre_v), "dp_pre_ref := %s" % lst(pre_r),
        "dp_shift_cmp := %s" % shift, "dp_u32_short := %s" % b(u32_short),
    ] + ["%s := %s" % (k, b(v)) for k, v in guards.items()]
    text = "Definition div : div_params := {|\n  " + ";\n  ".join(fields) + " |}.\n"
    return ["Base", "X86", "AddSub", "Div"], text, rep
