"""Decision points of the 64-bit-digit arm of `U32Digits` (src/biguint/iter.rs) -> `Extracted.iter`
(record `Iter.iter_params`).

Read on every run (the arm is recognised by its state fields `next_is_lo` / `last_hi_is_zero`,
not by position):
  new        `last_hi == 0` (operator), `.unwrap_or(false)`, `next_is_lo: true`
  next       `self.next_is_lo = !next_is_lo` (is the `!` there), `if next_is_lo` (is it negated),
             `data.is_empty() && self.last_hi_is_zero` (both polarities and the connective),
             `self.last_hi_is_zero = false`
  next_back  the four mirror fragments (`self.last_hi_is_zero = !last_is_lo`, `if last_is_lo`,
             `data.is_empty() && !self.next_is_lo`, `self.next_is_lo = true`)
  len        `self.data.len() * 2 - usize::from(self.last_hi_is_zero) - usize::from(!self.next_is_lo)`:
             the factor, the two operators, the two polarities
  last       which of `next_back` / `next` it forwards to
A fragment that is not found exactly once is emitted with a value `Iter.iter_ok` rejects
(fail closed) and listed under `anchor_missing`."""
import re
from ._util import CMP, OP, fn_bodies, pick, one, b, Fields

REL = "src/biguint/iter.rs"
NEG = r"(!?)\s*"


def btest(n1, conn, n2):
    return "{| bt_neg1 := %s; bt_and := %s; bt_neg2 := %s |}" % (b(n1), b(conn == "&&"), b(n2))


BAD_TEST = "{| bt_neg1 := true; bt_and := false; bt_neg2 := true |}"


def extract(src):
    rep = {}
    F = Fields(rep)
    code = src.code(REL)
    marker = r"next_is_lo|last_hi_is_zero"
    new = pick(fn_bodies(code, "new"), marker)
    nxt = pick(fn_bodies(code, "next"), marker)
    back = pick(fn_bodies(code, "next_back"), marker)
    ln = pick(fn_bodies(code, "len"), marker)
    last = pick(fn_bodies(code, "last"), r"fn\s+last\s*\(\s*mut\s+self\s*\)\s*->\s*Option<u32>")

    # ---- new
    m = one(r"let\s+last_hi\s*=\s*\(\s*last\s*>>\s*32\s*\)\s*as\s+u32\s*;\s*last_hi\s*" + OP + r"\s*0\b", new)
    F.put("itp_new_hi_cmp", CMP[m.group(1)]) if m else F.miss("itp_new_hi_cmp", "Cne")
    m = one(r"\.unwrap_or\(\s*(true|false)\s*\)", new)
    F.put("itp_new_default", m.group(1)) if m else F.miss("itp_new_default", "true")
    m = one(r"\bnext_is_lo\s*:\s*(true|false)\b", new)
    F.put("itp_new_nil", m.group(1)) if m else F.miss("itp_new_nil", "false")

    # ---- next
    m = one(r"let\s+next_is_lo\s*=\s*self\.next_is_lo\s*;\s*self\.next_is_lo\s*=\s*" + NEG + r"next_is_lo\s*;", nxt)
    F.put("itp_next_flip", b(m.group(1) == "!")) if m else F.miss("itp_next_flip", "false")
    m = one(r"if\s+" + NEG + r"next_is_lo\s*\{\s*Some\(\s*first\s+as\s+u32\s*\)\s*\}\s*else\s*\{\s*self\.data\s*=\s*data\s*;", nxt)
    F.put("itp_next_test_neg", b(m.group(1) == "!")) if m else F.miss("itp_next_test_neg", "true")
    m = one(r"if\s+" + NEG + r"data\.is_empty\(\)\s*(&&|\|\|)\s*" + NEG + r"self\.last_hi_is_zero\s*\{\s*"
            r"self\.last_hi_is_zero\s*=\s*(true|false)\s*;\s*None\s*\}\s*else\s*\{\s*"
            r"Some\(\s*\(\s*first\s*>>\s*32\s*\)\s*as\s+u32\s*\)", nxt)
    if m:
        F.put("itp_next_end", btest(m.group(1) == "!", m.group(2), m.group(3) == "!"))
        F.put("itp_next_reset", m.group(4))
    else:
        F.miss("itp_next_end", BAD_TEST)
        F.miss("itp_next_reset", "true")

    # ---- next_back
    m = one(r"let\s+last_is_lo\s*=\s*self\.last_hi_is_zero\s*;\s*self\.last_hi_is_zero\s*=\s*" + NEG + r"last_is_lo\s*;", back)
    F.put("itp_back_flip", b(m.group(1) == "!")) if m else F.miss("itp_back_flip", "false")
    m = one(r"if\s+" + NEG + r"last_is_lo\s*\{\s*self\.data\s*=\s*data\s*;", back)
    F.put("itp_back_test_neg", b(m.group(1) == "!")) if m else F.miss("itp_back_test_neg", "true")
    m = one(r"if\s+" + NEG + r"data\.is_empty\(\)\s*(&&|\|\|)\s*" + NEG + r"self\.next_is_lo\s*\{\s*"
            r"self\.next_is_lo\s*=\s*(true|false)\s*;\s*None\s*\}\s*else\s*\{\s*Some\(\s*last\s+as\s+u32\s*\)\s*\}\s*"
            r"\}\s*else\s*\{\s*Some\(\s*\(\s*last\s*>>\s*32\s*\)\s*as\s+u32\s*\)", back)
    if m:
        F.put("itp_back_end", btest(m.group(1) == "!", m.group(2), m.group(3) == "!"))
        F.put("itp_back_reset", m.group(4))
    else:
        F.miss("itp_back_end", BAD_TEST)
        F.miss("itp_back_reset", "false")

    # ---- len
    m = one(r"\{\s*self\.data\.len\(\)\s*\*\s*(\d+)\s*([-+])\s*usize::from\(\s*" + NEG + r"self\.last_hi_is_zero\s*\)\s*"
            r"([-+])\s*usize::from\(\s*" + NEG + r"self\.next_is_lo\s*\)\s*\}", ln)
    if m:
        F.put("itp_len_mul", m.group(1))
        F.put("itp_len_sub1", b(m.group(2) == "-"))
        F.put("itp_len_lhz_neg", b(m.group(3) == "!"))
        F.put("itp_len_sub2", b(m.group(4) == "-"))
        F.put("itp_len_nil_neg", b(m.group(5) == "!"))
    else:
        F.miss("itp_len_mul", "(-1)")
        for k, v in (("itp_len_sub1", "false"), ("itp_len_lhz_neg", "true"), ("itp_len_sub2", "false"),
                     ("itp_len_nil_neg", "false")):
            F.put(k, v)

    # ---- last
    m = one(r"\{\s*self\.(next_back|next)\(\)\s*\}", last)
    F.put("itp_last_back", b(m.group(1) == "next_back")) if m else F.miss("itp_last_back", "false")

    return ["Base", "SrcLit", "Iter"], F.render("iter", "iter_params"), rep
