"""Source fragments of src/biguint/{monty,power}.rs, src/bigint/power.rs, src/bigint.rs
→ `Extracted.modpow` (window width, Montgomery carry tests, final-reduction comparisons,
parity dispatch, the sign-arm tables of BigInt::modpow / BigInt::modinv, the zero guard)."""
import re

CMP = {"<": "Clt", "<=": "Cle", "==": "Ceq", "!=": "Cne", ">=": "Cge", ">": "Cgt"}
OP = r"(<=|>=|==|!=|<|>)"
ARM = r"\(\s*(true|false)\s*,\s*(true|false)\s*\)\s*=>\s*\(\s*(Plus|Minus|NoSign)\s*,\s*(result|&modulus\.data\s*-\s*result)\s*\)\s*,"

def arms_of(body, scrutinee_re, rep, tag):
    """Parse `match (<scrutinee>) { (b,b) => (Sign, mag), … }`; [] (fail closed) if the shape differs."""
    if body is None:
        rep["anchor_missing_" + tag] = "fn"
        return []
    m = re.search(r"let\s*\(\s*sign\s*,\s*mag\s*\)\s*=\s*match\s*" + scrutinee_re + r"\s*\{(.*?)\}\s*;", body, flags=re.S)
    if not m:
        rep["anchor_missing_" + tag] = "match"
        return []
    inner = m.group(1)
    arms = re.findall(ARM, inner)
    # everything in the match body must be accounted for by the recognised arms
    rest = re.sub(ARM, "", inner).strip()
    if rest:
        rep["unparsed_" + tag] = rest[:80]
        return []
    # the result must be built with from_biguint(sign, mag)
    if not re.search(r"BigInt::from_biguint\(\s*sign\s*,\s*mag\s*\)", body):
        rep["anchor_missing_" + tag] = "from_biguint"
        return []
    return [(a == "true", b == "true", s, mag != "result") for a, b, s, mag in arms]

def coq_bool(b):
    return "true" if b else "false"

def coq_arms(arms):
    return "[" + "; ".join("(%s, %s, (%s, %s))" % (coq_bool(a), coq_bool(b), s, coq_bool(f)) for a, b, s, f in arms) + "]"

def extract(src):
    rep = {}
    # ---- monty.rs
    mont = src.fn_body("src/biguint/monty.rs", "montgomery", 0) or ""
    mm = src.fn_body("src/biguint/monty.rs", "monty_modpow", 0) or ""
    m = re.search(r"let\s+n\s*=\s*(\d+)\s*;", mm)
    window = int(m.group(1)) if m else -1
    if not m:
        rep["anchor_missing_window"] = True
    m = re.search(r"if\s+cx\s*" + OP + r"\s*c2\s*\|\|\s*cy\s*" + OP + r"\s*c3\s*\{\s*c\s*=\s*1\s*;\s*\}\s*else\s*\{\s*c\s*=\s*0\s*;\s*\}", mont)
    if m:
        cx, cy = CMP[m.group(1)], CMP[m.group(2)]
    else:
        rep["anchor_missing_carry"] = True
        cx, cy = "Cne", "Cne"
    m = re.search(r"if\s+c\s*" + OP + r"\s*0\s*\{\s*z\.data\s*=\s*z\.data\[n\.\.\]\.to_vec\(\)\s*;", mont)
    if m:
        ccmp = CMP[m.group(1)]
    else:
        rep["anchor_missing_c0"] = True
        ccmp = "Cgt"
    fins = re.findall(r"if\s+zz\s*" + OP + r"\s*\*m\s*\{", mm)
    if len(fins) == 2:
        fin1, fin2 = CMP[fins[0]], CMP[fins[1]]
    else:
        rep["anchor_missing_final"] = len(fins)
        fin1, fin2 = "Cne", "Cne"
    # ---- power.rs parity dispatch
    mp = src.fn_body("src/biguint/power.rs", "modpow", 0) or ""
    m = re.search(r"if\s+modulus\.is_(odd|even)\(\)\s*\{\s*(monty_modpow|plain_modpow)\(\s*x\s*,\s*&?exponent(?:\.data)?\s*,\s*modulus\s*\)\s*\}\s*else\s*\{\s*(monty_modpow|plain_modpow)\(\s*x\s*,\s*&?exponent(?:\.data)?\s*,\s*modulus\s*\)\s*\}", mp)
    if m and m.group(2) != m.group(3):
        odd_monty = (m.group(1) == "odd") == (m.group(2) == "monty_modpow")
    else:
        rep["anchor_missing_parity"] = True
        odd_monty = False
    # ---- BigInt sign arms
    ipow = src.fn_body("src/bigint/power.rs", "modpow", 0)
    pow_arms = arms_of(ipow, r"\(\s*x\.is_negative\(\)\s*&&\s*exponent\.is_odd\(\)\s*,\s*modulus\.is_negative\(\)\s*\)", rep, "pow_arms")
    # the zero short-cut before the match in modpow is part of the shape
    if ipow is None or not re.search(r"if\s+result\.is_zero\(\)\s*\{\s*return\s+BigInt::ZERO\s*;\s*\}", ipow):
        rep["anchor_missing_pow_zero"] = True
        pow_arms = []
    iinv = src.fn_body("src/bigint.rs", "modinv", 0)
    inv_arms = arms_of(iinv, r"\(\s*self\.is_negative\(\)\s*,\s*modulus\.is_negative\(\)\s*\)", rep, "inv_arms")
    guard = False
    if iinv is not None:
        g = re.search(r"if\s+result\.is_zero\(\)\s*\{\s*return\s+Some\(\s*BigInt::ZERO\s*\)\s*;\s*\}", iinv)
        mt = re.search(r"let\s*\(\s*sign\s*,\s*mag\s*\)\s*=\s*match", iinv)
        guard = bool(g and mt and g.start() < mt.start())
    rep.update({"window": window, "cx": cx, "cy": cy, "c": ccmp, "fin1": fin1, "fin2": fin2,
                "odd_monty": odd_monty, "pow_arms": len(pow_arms), "inv_arms": len(inv_arms),
                "inv_zero_guard": guard})
    text = ("Definition modpow : modpow_params := {|\n"
            "  mp_window := %s;\n  mp_cx_cmp := %s;\n  mp_cy_cmp := %s;\n  mp_c_cmp := %s;\n"
            "  mp_fin1_cmp := %s;\n  mp_fin2_cmp := %s;\n  mp_odd_monty := %s;\n"
            "  mp_pow_arms := %s;\n  mp_inv_arms := %s;\n  mp_inv_zero_guard := %s |}.\n") % (
        "(%d)" % window, cx, cy, ccmp, fin1, fin2, coq_bool(odd_monty),
        coq_arms(pow_arms), coq_arms(inv_arms), coq_bool(guard))
    return ["Base", "Monty"], text, rep
