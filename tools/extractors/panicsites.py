"""Unconditional panic sites of the non-test source → `Extracted.panic_sites` (C14).

A site = an occurrence of panic!/assert!/assert_eq!/assert_ne!/unreachable!/.unwrap()/.expect(
outside `#[test]` functions, `#[cfg(test)]` modules, doc comments and cfg(num_bigint_verif) code
(debug_assert*! are compiled out in release and are modelled as live `Internal` checks instead).
Each site is keyed by (file, enclosing fn, normalised line text) and classified by the reviewed
baseline tools/panic_baseline.json; a site that is not in the baseline is `Unclassified`.
"""
import re, json, os

KIND = re.compile(r"\b(panic|assert|assert_eq|assert_ne|unreachable)!\s*\(|\.unwrap\(\)|\.expect\(")

def sites_of(src):
    out = []
    for rel in src.all_files():
        if rel.endswith("verif_probe.rs"):
            continue
        lines = src.read(rel).split("\n")
        skip_until_depth = None
        depth = 0
        fn_stack = []
        pending_test = False
        pending_verif = False
        i = 0
        in_block_skip = None
        for idx, ln in enumerate(lines):
            code = re.sub(r"//.*", "", ln)
            s = code.strip()
            if re.match(r"#\[test\]", s) or re.match(r"#\[cfg\(test\)\]", s):
                pending_test = True
            if re.match(r"#\[cfg\(num_bigint_verif\)\]", s):
                pending_verif = True
            opens = code.count("{")
            closes = code.count("}")
            m = re.match(r"^\s*(?:pub(?:\([^)]*\))?\s+)?(?:const\s+)?(?:unsafe\s+)?fn\s+(\w+)", code)
            if (pending_test or pending_verif) and (m or re.match(r"^\s*(pub\s+)?mod\s+\w+", code)) and in_block_skip is None:
                if "{" in code:
                    in_block_skip = depth
                    pending_test = pending_verif = False
            elif pending_verif and s and not s.startswith("#[") and in_block_skip is None:
                # single statement guarded by cfg(num_bigint_verif)
                pending_verif = False
                depth += opens - closes
                continue
            if m and in_block_skip is None:
                fn_stack.append((m.group(1), depth))
            if in_block_skip is None and not ln.strip().startswith("//"):
                for k in KIND.finditer(code):
                    fn = fn_stack[-1][0] if fn_stack else "<top>"
                    text = re.sub(r"\s+", " ", s)[:120]
                    out.append((rel, idx + 1, fn, text))
            depth += opens - closes
            if in_block_skip is not None and depth <= in_block_skip and closes:
                in_block_skip = None
            while fn_stack and depth <= fn_stack[-1][1] and closes and "fn " not in code:
                fn_stack.pop()
    return out

def extract(src):
    here = os.path.dirname(os.path.dirname(os.path.abspath(__file__)))
    base_path = os.path.join(here, "panic_baseline.json")
    baseline = json.load(open(base_path)) if os.path.exists(base_path) else {}
    sites = sites_of(src)
    rows, rep, unknown = [], {}, []
    seen = {}
    for rel, line, fn, text in sites:
        key = "%s::%s::%s" % (rel, fn, text)
        n = seen.get(key, 0)
        seen[key] = n + 1
        key_n = key if n == 0 else "%s#%d" % (key, n)
        cls = baseline.get(key_n)
        if cls is None:
            cls = "Unclassified"
            unknown.append("%s:%d %s" % (rel, line, text))
        rows.append("{| ps_line := %d; ps_class := %s |}" % (line, cls if " " not in cls else "(%s)" % cls))
    text = "Definition panic_sites : list panic_site := [\n  %s].\n" % ";\n  ".join(rows)
    rep["count"] = len(sites)
    rep["unclassified"] = unknown
    rep["removed_from_baseline"] = [k for k in baseline if k.split("#")[0] not in seen][:20]
    return ["Base", "Cfg"], text, rep

if __name__ == "__main__":
    # helper: print the current site keys (used once to draft the baseline)
    import sys
    sys.path.insert(0, os.path.dirname(os.path.dirname(os.path.abspath(__file__))))
    from extract import SourceTree
    src = SourceTree(os.environ.get("VERIF_REPO", "/repo"))
    seen = {}
    for rel, line, fn, text in sites_of(src):
        key = "%s::%s::%s" % (rel, fn, text)
        n = seen.get(key, 0); seen[key] = n + 1
        print("%s\t%d\t%s" % (key if n == 0 else "%s#%d" % (key, n), line, text))
