"""Decision points of src/biguint/serde.rs (64-bit-digit arm) and src/bigint/serde.rs
-> `Extracted.serde` (record `Serde.serde_params`).

Read on every run:
  Serialize for BigUint   `let last_hi = (last >> 32) as u32` (shift), the declared length
                          `data.len() * 2 + 1 + (last_hi != 0) as usize` (factor, constant, operator),
                          `seq.serialize_element(&((x >> 32) as u32))` (shift),
                          `if last_hi != 0 { seq.serialize_element(&last_hi) }` (operator)
  U32Visitor::visit_seq   `value |= BigDigit::from(hi) << 32` (shift)
  Serialize for Sign      the three arms `Sign::Minus => (-1i8)`, `Sign::NoSign => 0i8`, `Sign::Plus => 1i8`
  Deserialize for Sign    the arms `-1 => Ok(Sign::Minus)`, ... in order; the wildcard arm must be `Err(`
  Deserialize for BigInt  the value is rebuilt with `BigInt::from_biguint(sign, data)`
A fragment that is not found exactly once is emitted with a value `serde_ok` rejects (fail closed)."""
import re
from ._util import CMP, OP, fn_bodies, pick, one, impl_block, b, Fields

UREL = "src/biguint/serde.rs"
IREL = "src/bigint/serde.rs"
SIGNS = ("Minus", "NoSign", "Plus")


def extract(src):
    rep = {}
    F = Fields(rep)
    ucode = src.code(UREL)
    icode = src.code(IREL)

    # ---- Serialize for BigUint (the arm that splits the last digit)
    ser = pick(fn_bodies(ucode, "serialize"), r"split_last")
    m = one(r"let\s+last_hi\s*=\s*\(\s*last\s*>>\s*(\d+)\s*\)\s*as\s+u32\s*;", ser)
    F.put("sdp_last_shift", m.group(1)) if m else F.miss("sdp_last_shift", "(-1)")
    m = one(r"let\s+u32_len\s*=\s*data\.len\(\)\s*\*\s*(\d+)\s*\+\s*(\d+)\s*\+\s*\(\s*last_hi\s*" + OP +
            r"\s*0\s*\)\s*as\s+usize\s*;\s*let\s+mut\s+seq\s*=\s*serializer\.serialize_seq\(\s*Some\(\s*u32_len\s*\)\s*\)", ser)
    if m:
        F.put("sdp_len_mul", m.group(1)); F.put("sdp_len_one", m.group(2)); F.put("sdp_len_cmp", CMP[m.group(3)])
    else:
        F.miss("sdp_len_mul", "(-1)"); F.put("sdp_len_one", "(-1)"); F.put("sdp_len_cmp", "Clt")
    m = one(r"seq\.serialize_element\(\s*&\(\s*x\s+as\s+u32\s*\)\s*\)\s*\?\s*;\s*"
            r"seq\.serialize_element\(\s*&\(\s*\(\s*x\s*>>\s*(\d+)\s*\)\s*as\s+u32\s*\)\s*\)\s*\?\s*;", ser)
    F.put("sdp_elem_shift", m.group(1)) if m else F.miss("sdp_elem_shift", "(-1)")
    m = one(r"seq\.serialize_element\(\s*&last_lo\s*\)\s*\?\s*;\s*if\s+last_hi\s*" + OP +
            r"\s*0\s*\{\s*seq\.serialize_element\(\s*&last_hi\s*\)\s*\?\s*;\s*\}\s*seq\.end\(\)", ser)
    F.put("sdp_emit_cmp", CMP[m.group(1)]) if m else F.miss("sdp_emit_cmp", "Clt")

    # ---- U32Visitor::visit_seq (the arm that pairs the words)
    vis = pick(fn_bodies(ucode, "visit_seq"), r"BigDigit::from\(\s*lo\s*\)")
    m = one(r"if\s+let\s+Some\(\s*hi\s*\)\s*=\s*seq\.next_element::<u32>\(\)\s*\?\s*\{\s*"
            r"value\s*\|=\s*BigDigit::from\(\s*hi\s*\)\s*<<\s*(\d+)\s*;\s*data\.push\(\s*value\s*\)\s*;\s*\}\s*"
            r"else\s*\{\s*data\.push\(\s*value\s*\)\s*;\s*break\s*;", vis)
    F.put("sdp_de_shift", m.group(1)) if m else F.miss("sdp_de_shift", "(-1)")

    # ---- Sign
    sser = None
    blk = impl_block(icode, r"impl\s+Serialize\s+for\s+Sign\s*\{")
    if blk:
        sser = pick(fn_bodies(blk, "serialize"), r"match")
    for name in SIGNS:
        m = one(r"Sign::%s\s*=>\s*\(?\s*(-?\d+)\s*i8\s*\)?\s*\.serialize\(\s*serializer\s*\)" % name, sser)
        key = "sdp_ser_%s" % name.lower()
        F.put(key, "(%s)" % m.group(1)) if m else F.miss(key, "7")
    sde = None
    blk = impl_block(icode, r"impl\s*<\s*'de\s*>\s*Deserialize\s*<\s*'de\s*>\s+for\s+Sign\s*\{")
    if blk:
        sde = pick(fn_bodies(blk, "deserialize"), r"match")
    arms = re.findall(r"(-?\d+)\s*=>\s*Ok\(\s*Sign::(Minus|NoSign|Plus)\s*\)", sde or "")
    wild = one(r"\b_\s*=>\s*Err\(", sde)
    total = len(re.findall(r"=>", sde or ""))
    if sde and wild and arms and total == len(arms) + 1 and one(r"let\s+sign\s*=\s*i8::deserialize\(\s*deserializer\s*\)\s*\?\s*;\s*match\s+sign\s*\{", sde):
        F.put("sdp_de_arms", "[" + "; ".join("((%s), %s)" % a for a in arms) + "]")
    else:
        F.miss("sdp_de_arms", "[]")

    # ---- Deserialize for BigInt
    ide = None
    blk = impl_block(icode, r"impl\s*<\s*'de\s*>\s*Deserialize\s*<\s*'de\s*>\s+for\s+BigInt\s*\{")
    if blk:
        ide = pick(fn_bodies(blk, "deserialize"), r"Ok\(")
    m = one(r"let\s*\(\s*sign\s*,\s*data\s*\)\s*=\s*Deserialize::deserialize\(\s*deserializer\s*\)\s*\?\s*;\s*"
            r"Ok\(\s*BigInt::from_biguint\(\s*sign\s*,\s*data\s*\)\s*\)", ide)
    F.put("sdp_from_biguint", "true") if m else F.miss("sdp_from_biguint", "false")

    return ["Base", "Serde"], F.render("serde", "serde_params"), rep
