"""Source fragments of pow (src/biguint/power.rs pow_impl!), gcd (src/biguint.rs Integer::gcd)
and roots (src/biguint.rs fixpoint / Roots for BigUint) -> `Extracted.pgr_pow`,
`Extracted.pgr_gcd`, `Extracted.pgr_roots`.

Every anchor is a regular fragment (a comparison operator or a small literal).  A missing
anchor yields a value that cannot satisfy `pow_ok` / `gcd_ok` / `roots_ok` (operator `Cne`,
literal -7), i.e. the extractor fails closed."""
import re

CMP = {"<": "Clt", "<=": "Cle", "==": "Ceq", "!=": "Cne", ">=": "Cge", ">": "Cgt"}
OPS = r"(<=|>=|==|!=|<|>)"
BAD_INT = -7
BAD_CMP = "Cne"


def z(v):
    return "(%d)" % v if v < 0 else "%d" % v


class Grab:
    def __init__(self, text, rep, area):
        self.text = text or ""
        self.rep = rep
        self.area = area
        if text is None:
            rep["anchor_missing_%s" % area] = "function body"

    def _miss(self, name):
        self.rep.setdefault("anchor_missing", []).append("%s:%s" % (self.area, name))

    def cmp(self, name, pattern):
        """pattern has exactly one group: the operator"""
        m = re.search(pattern, self.text)
        if not m:
            self._miss(name)
            return BAD_CMP
        return CMP[m.group(1)]

    def int(self, name, pattern, group=1):
        m = re.search(pattern, self.text)
        if not m:
            self._miss(name)
            return BAD_INT
        return int(m.group(group))

    def cmp_int(self, name, pattern):
        """two groups: operator, literal"""
        m = re.search(pattern, self.text)
        if not m:
            self._miss(name)
            return BAD_CMP, BAD_INT
        return CMP[m.group(1)], int(m.group(2))


def macro_body(code, name):
    m = re.search(r"macro_rules!\s*%s\s*\{" % re.escape(name), code)
    if not m:
        return None
    i = m.end() - 1
    depth = 0
    for j in range(i, len(code)):
        if code[j] == "{":
            depth += 1
        elif code[j] == "}":
            depth -= 1
            if depth == 0:
                return code[i:j + 1]
    return None


def extract(src):
    rep = {}
    # ---------------------------------------------------------------- pow
    code = src.code("src/biguint/power.rs")
    mb = macro_body(code, "pow_impl")
    # the first `fn pow(self, mut exp: $T)` inside the macro
    body = None
    if mb:
        m = re.search(r"fn\s+pow\s*\(\s*self\s*,\s*mut\s+exp\s*:\s*\$T\s*\)", mb)
        if m:
            i = mb.index("{", m.end())
            depth = 0
            for j in range(i, len(mb)):
                if mb[j] == "{":
                    depth += 1
                elif mb[j] == "}":
                    depth -= 1
                    if depth == 0:
                        body = mb[i:j + 1]
                        break
    g = Grab(body, rep, "pow")
    zero_op, zero = g.cmp_int("exp==0", r"if\s+exp\s*" + OPS + r"\s*(\d+)\s*\{\s*return\s+BigUint::one\(\)")
    strip_op, strip_bit = g.cmp_int("strip", r"while\s+exp\s*&\s*1\s*" + OPS + r"\s*(\d+)\s*\{\s*base\s*=\s*&base\s*\*\s*&base\s*;\s*exp\s*>>=\s*1\s*;")
    exit_op, exit_v = g.cmp_int("exp==1", r"if\s+exp\s*" + OPS + r"\s*(\d+)\s*\{\s*return\s+base\s*;")
    loop_cmp, loop_bound = g.cmp_int("while exp>1", r"while\s+exp\s*" + OPS + r"\s*(\d+)\s*\{\s*exp\s*>>=\s*1\s*;\s*base\s*=\s*&base\s*\*\s*&base\s*;")
    acc_op, acc_bit = g.cmp_int("acc bit", r"if\s+exp\s*&\s*1\s*" + OPS + r"\s*(\d+)\s*\{\s*acc\s*\*=\s*&base\s*;")
    # equality tests must be `==`; otherwise poison the literal
    if zero_op != "Ceq": zero = BAD_INT
    if strip_op != "Ceq": strip_bit = BAD_INT
    if exit_op != "Ceq": exit_v = BAD_INT
    if acc_op != "Ceq": acc_bit = BAD_INT
    text = ("Definition pgr_pow : pow_params := {|\n  pw_strip_bit := %s;\n  pw_exit := %s;\n"
            "  pw_loop_cmp := %s;\n  pw_loop_bound := %s;\n  pw_acc_bit := %s;\n  pw_zero := %s |}.\n"
            % (z(strip_bit), z(exit_v), loop_cmp, z(loop_bound), z(acc_bit), z(zero)))
    rep["pow"] = {"strip_bit": strip_bit, "exit": exit_v, "loop": [loop_cmp, loop_bound], "acc_bit": acc_bit, "zero": zero}

    # ---------------------------------------------------------------- gcd
    g = Grab(src.fn_body("src/biguint.rs", "gcd", 0), rep, "gcd")
    swap = g.cmp("n>m", r"if\s+n\s*" + OPS + r"\s*m\s*\{\s*mem::swap\(\s*&mut\s+n\s*,\s*&mut\s+m\s*\)")
    m = re.search(r"let\s+shift\s*=\s*cmp::(min|max)\(\s*twos\(&n\)\s*,\s*twos\(&m\)\s*\)", g.text)
    if m:
        shift_min = "true" if m.group(1) == "min" else "false"
    else:
        g._miss("shift=min")
        shift_min = "false"
    # shape the model relies on (not parameters): loop test, shifts and subtraction
    for name, pat in (("loop", r"while\s*!\s*m\.is_zero\(\)\s*\{\s*m\s*>>=\s*twos\(&m\)\s*;"),
                      ("sub", r"m\s*-=\s*&n\s*;"),
                      ("pre", r"n\s*>>=\s*twos\(&n\)\s*;"),
                      ("post", r"n\s*<<\s*shift")):
        if not re.search(pat, g.text):
            g._miss(name)
            swap = BAD_CMP
    text += ("Definition pgr_gcd : gcd_params := {|\n  gc_swap_cmp := %s;\n  gc_shift_min := %s |}.\n"
             % (swap, shift_min))
    rep["gcd"] = {"swap": swap, "shift_min": shift_min}

    # ---------------------------------------------------------------- roots
    g = Grab(src.fn_body("src/biguint.rs", "fixpoint", 0), rep, "fixpoint")
    climb = g.cmp("x<xn", r"while\s+x\s*" + OPS + r"\s*xn\s*\{\s*x\s*=\s*if")
    sat = g.cmp("bits>max", r"if\s+xn\.bits\(\)\s*" + OPS + r"\s*max_bits\s*\{\s*BigUint::one\(\)\s*<<\s*max_bits\s*\}\s*else\s*\{\s*xn\s*\}")
    desc = g.cmp("x>xn", r"while\s+x\s*" + OPS + r"\s*xn\s*\{\s*x\s*=\s*xn\s*;")
    g = Grab(src.fn_body("src/biguint.rs", "nth_root", 0), rep, "nth_root")
    bits_cmp = g.cmp("bits<=n", r"if\s+bits\s*" + OPS + r"\s*n64\s*\{\s*return\s+BigUint::one\(\)")
    nth_add = g.int("bits/n+1", r"let\s+max_bits\s*=\s*bits\s*/\s*n64\s*\+\s*(\d+)\s*;")
    nm1 = g.int("n-1", r"let\s+n_min_1\s*=\s*n\s*-\s*(\d+)\s*;")
    for name, pat in (("step q", r"let\s+q\s*=\s*self\s*/\s*s\.pow\(n_min_1\)\s*;"),
                      ("step t", r"let\s+t\s*=\s*n_min_1\s*\*\s*s\s*\+\s*q\s*;\s*t\s*/\s*n\b")):
        if not re.search(pat, g.text):
            g._miss(name)
            nm1 = BAD_INT
    g = Grab(src.fn_body("src/biguint.rs", "sqrt", 0), rep, "sqrt")
    m = re.search(r"let\s+max_bits\s*=\s*bits\s*/\s*(\d+)\s*\+\s*(\d+)\s*;", g.text)
    sq_div, sq_add = (int(m.group(1)), int(m.group(2))) if m else (BAD_INT, BAD_INT)
    if not m: g._miss("bits/2+1")
    sq_shr = g.int(">>1", r"let\s+q\s*=\s*self\s*/\s*s\s*;\s*let\s+t\s*=\s*s\s*\+\s*q\s*;\s*t\s*>>\s*(\d+)")
    g = Grab(src.fn_body("src/biguint.rs", "cbrt", 0), rep, "cbrt")
    m = re.search(r"let\s+max_bits\s*=\s*bits\s*/\s*(\d+)\s*\+\s*(\d+)\s*;", g.text)
    cb_div, cb_add = (int(m.group(1)), int(m.group(2))) if m else (BAD_INT, BAD_INT)
    if not m: g._miss("bits/3+1")
    m = re.search(r"let\s+q\s*=\s*self\s*/\s*\(\s*s\s*\*\s*s\s*\)\s*;\s*let\s+t\s*=\s*\(\s*s\s*<<\s*(\d+)\s*\)\s*\+\s*q\s*;\s*t\s*/\s*(\d+)u32", g.text)
    cb_shl, cb_den = (int(m.group(1)), int(m.group(2))) if m else (BAD_INT, BAD_INT)
    if not m: g._miss("cbrt step")
    text += ("Definition pgr_roots : roots_params := {|\n  rt_climb_cmp := %s;\n  rt_sat_cmp := %s;\n"
             "  rt_descend_cmp := %s;\n  rt_bits_cmp := %s;\n  rt_nth_add := %s;\n  rt_sqrt_div := %s;\n"
             "  rt_sqrt_add := %s;\n  rt_cbrt_div := %s;\n  rt_cbrt_add := %s;\n  rt_nm1 := %s;\n"
             "  rt_sqrt_shr := %s;\n  rt_cbrt_shl := %s;\n  rt_cbrt_den := %s |}.\n"
             % (climb, sat, desc, bits_cmp, z(nth_add), z(sq_div), z(sq_add), z(cb_div), z(cb_add),
                z(nm1), z(sq_shr), z(cb_shl), z(cb_den)))
    rep["roots"] = {"climb": climb, "sat": sat, "descend": desc, "bits_cmp": bits_cmp,
                    "nth_add": nth_add, "sqrt": [sq_div, sq_add, sq_shr], "cbrt": [cb_div, cb_add, cb_shl, cb_den], "nm1": nm1}
    # the two kinds of `cfg(feature = "std")` guess sites must stay "guess only": each of the three
    # functions has exactly one `#[cfg(feature = "std")] let guess` and one `#[cfg(not(...))] let guess`
    raw = src.read("src/biguint.rs")
    n_std = len(re.findall(r'#\[cfg\(feature\s*=\s*"std"\)\]\s*let\s+guess\s*=', raw))
    n_nostd = len(re.findall(r'#\[cfg\(not\(feature\s*=\s*"std"\)\)\]\s*let\s+guess\s*=\s*BigUint::one\(\)\s*<<\s*max_bits\s*;', raw))
    rep["roots"]["guess_sites"] = [n_std, n_nostd]
    if (n_std, n_nostd) != (3, 3):
        rep.setdefault("anchor_missing", []).append("roots:guess sites")
    return ["Base", "Pow", "Gcd", "Roots"], text, rep
