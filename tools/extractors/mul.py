"""Source fragments of src/biguint/multiplication.rs -> `Extracted.mul`.

Reads the regular decision points of `mac3` / `mul3`: the operand swap comparison, the three
regime tests (operator and threshold), the split divisors, the temporary / product sizing
expressions and the Toom-3 `i`.  An anchor that is not found yields `Cne` / `-1`, which cannot
satisfy `mul_ok` (fail closed)."""
import re

CMP = {"<": "Clt", "<=": "Cle", "==": "Ceq", "!=": "Cne", ">=": "Cge", ">": "Cgt"}
OP = r"(<=|>=|==|!=|<|>)"
REL = "src/biguint/multiplication.rs"

def z(v):
    return "(%d)" % v if v < 0 else "%d" % v

def extract(src):
    rep = {}
    body = src.fn_body(REL, "mac3", 0) or ""
    if not body:
        rep["anchor_missing"] = "fn mac3"
    vals = {}

    def grab(name, text, pattern, kinds):
        """kinds: one of 'c' (cmp operator) / 'n' (integer) per regex group"""
        m = re.search(pattern, text)
        if not m:
            rep.setdefault("anchors_missing", []).append(name)
            return ["Cne" if k == "c" else -1 for k in kinds]
        out = []
        for k, g in zip(kinds, m.groups()):
            out.append(CMP[g] if k == "c" else int(g))
        return out

    # `let (x, y) = if b.len() < c.len() { (b, c) } else { (c, b) };`
    (vals["swap"],) = grab("swap", body,
        r"let\s*\(\s*x\s*,\s*y\s*\)\s*=\s*if\s+b\.len\(\)\s*" + OP + r"\s*c\.len\(\)\s*\{\s*\(\s*b\s*,\s*c\s*\)\s*\}\s*else\s*\{\s*\(\s*c\s*,\s*b\s*\)\s*\}", "c")
    # the three regime tests, in this order
    m = re.search(r"if\s+x\.len\(\)\s*" + OP + r"\s*(\d+)\s*\{(.*?)\}\s*else\s+if\s+x\.len\(\)\s*\*\s*(\d+)\s*" + OP +
                  r"\s*y\.len\(\)\s*\{(.*?)\}\s*else\s+if\s+x\.len\(\)\s*" + OP + r"\s*(\d+)\s*\{", body, flags=re.S)
    if m:
        vals["long_cmp"], vals["long_max"] = CMP[m.group(1)], int(m.group(2))
        vals["half_mul"], vals["half_cmp"] = int(m.group(4)), CMP[m.group(5)]
        vals["kara_cmp"], vals["kara_max"] = CMP[m.group(7)], int(m.group(8))
        # the long arm must be the mac_digit loop, the half arm the two recursive calls
        if not re.search(r"for\s*\(\s*i\s*,\s*xi\s*\)\s*in\s+x\.iter\(\)\.enumerate\(\)\s*\{\s*mac_digit\(\s*&mut\s+acc\[i\.\.\]\s*,\s*y\s*,\s*\*xi\s*\)\s*;\s*\}", m.group(3)):
            rep.setdefault("anchors_missing", []).append("long-arm")
            vals["long_cmp"] = "Cne"
        if not re.search(r"mac3\(\s*acc\s*,\s*x\s*,\s*low2\s*\)\s*;\s*mac3\(\s*&mut\s+acc\[m2\.\.\]\s*,\s*x\s*,\s*high2\s*\)\s*;", m.group(6)):
            rep.setdefault("anchors_missing", []).append("half-arm")
            vals["half_cmp"] = "Cne"
    else:
        rep.setdefault("anchors_missing", []).append("regime-chain")
        vals.update(long_cmp="Cne", long_max=-1, half_mul=-1, half_cmp="Cne", kara_cmp="Cne", kara_max=-1)
    (vals["half_split"],) = grab("half_split", body, r"let\s+m2\s*=\s*y\.len\(\)\s*/\s*(\d+)\s*;", "n")
    (vals["kara_split"],) = grab("kara_split", body, r"let\s+b\s*=\s*x\.len\(\)\s*/\s*(\d+)\s*;", "n")
    (vals["kara_extra"],) = grab("kara_extra", body, r"let\s+len\s*=\s*x1\.len\(\)\s*\+\s*y1\.len\(\)\s*\+\s*(\d+)\s*;", "n")
    vals["toom_div"], vals["toom_extra"] = grab("toom_i", body, r"let\s+i\s*=\s*y\.len\(\)\s*/\s*(\d+)\s*\+\s*(\d+)\s*;", "nn")
    mul3 = src.fn_body(REL, "mul3", 0) or ""
    (vals["prod_extra"],) = grab("prod_extra", mul3, r"let\s+len\s*=\s*x\.len\(\)\s*\+\s*y\.len\(\)\s*\+\s*(\d+)\s*;", "n")
    if not re.search(r"vec!\[\s*0\s*;\s*len\s*\]", mul3):
        rep.setdefault("anchors_missing", []).append("mul3-buffer")
        vals["prod_extra"] = -1
    if not re.search(r"vec!\[\s*0\s*;\s*len\s*\]", body):
        rep.setdefault("anchors_missing", []).append("kara-buffer")
        vals["kara_extra"] = -1

    text = ("Definition mul : mul_params := {|\n"
            "  mp_as := addsub;\n"
            "  mp_swap_cmp := %s;\n  mp_long_cmp := %s;\n  mp_long_max := %s;\n"
            "  mp_half_mul := %s;\n  mp_half_cmp := %s;\n  mp_kara_cmp := %s;\n  mp_kara_max := %s;\n"
            "  mp_half_split := %s;\n  mp_kara_split := %s;\n  mp_kara_extra := %s;\n"
            "  mp_toom_div := %s;\n  mp_toom_extra := %s;\n  mp_prod_extra := %s |}.\n") % (
        vals["swap"], vals["long_cmp"], z(vals["long_max"]), z(vals["half_mul"]), vals["half_cmp"],
        vals["kara_cmp"], z(vals["kara_max"]), z(vals["half_split"]), z(vals["kara_split"]),
        z(vals["kara_extra"]), z(vals["toom_div"]), z(vals["toom_extra"]), z(vals["prod_extra"]))
    rep.update({k: v for k, v in vals.items()})
    return ["Base", "AddSub", "Mul"], text, rep
