"""Source fragments of src/biguint/convert.rs and src/bigint/convert.rs → `Extracted.prim`.

Regular decision points only: the operand of `bits -= …` in high_bits_to_u64 (defect D6 lived
here), the `64 - ret_bits` width, the two shift amounts and the sticky guard, the `MAX_EXP`
cut-off comparisons of to_f32/to_f64, the `1 << 63` / `1 << 127` edges of BigInt::to_i64 /
to_i128 and the `bits >= 64` / `bits >= 128` tests of BigUint::to_u64 / to_u128.
Fails closed: a missing anchor yields `HOther` / `Cne` / `(-1)`, none of which satisfies
`prim_ok`."""
import re

CMP = {"<": "Clt", "<=": "Cle", "==": "Ceq", "!=": "Cne", ">=": "Cge", ">": "Cgt"}
OPND = {"digit_bits": "HDigitBits", "bits_want": "HBitsWant"}
MAXEXP = {"f64": 1024, "f32": 128}

def opnd(name):
    return OPND.get(name, "HOther")

def z(v):
    return "(%d)" % v if v < 0 else "%d" % v

def extract(src):
    rep = {}
    U = "src/biguint/convert.rs"
    I = "src/bigint/convert.rs"
    miss = []

    # ---- high_bits_to_u64
    hb = src.fn_body(U, "high_bits_to_u64", 0) or ""
    if not hb:
        miss.append("high_bits_to_u64")
    subs = re.findall(r"\bbits\s*-=\s*(\w+)\s*;", hb)
    hb_sub = opnd(subs[0]) if len(subs) == 1 else "HOther"
    if len(subs) != 1:
        miss.append("bits -=")
    rep["bits_sub_operand"] = subs
    m = re.search(r"let\s+bits_want\s*=\s*Ord::min\(\s*(\d+)\s*-\s*ret_bits\s*,\s*digit_bits\s*\)", hb)
    hb_width = int(m.group(1)) if m else -1
    if not m:
        miss.append("64 - ret_bits")
    m = re.search(r">>\s*\(\s*(\w+)\s*-\s*(\w+)\s*\)\s*;", hb)
    hb_shr = (opnd(m.group(1)), opnd(m.group(2))) if m else ("HOther", "HOther")
    if not m:
        miss.append(">> (digit_bits - bits_want)")
    m = re.search(r"if\s+(\w+)\s*-\s*(\w+)\s*!=\s*0\s*\{", hb)
    hb_guard = (opnd(m.group(1)), opnd(m.group(2))) if m else ("HOther", "HOther")
    if not m:
        miss.append("if digit_bits - bits_want != 0")
    m = re.search(r"<<\s*\(\s*(\d+)\s*-\s*\(\s*(\w+)\s*-\s*(\w+)\s*\)\s*as\s+u32\s*\)\s*;", hb)
    hb_mask_c = int(m.group(1)) if m else -1
    hb_mask = (opnd(m.group(2)), opnd(m.group(3))) if m else ("HOther", "HOther")
    if not m:
        miss.append("<< (64 - (digit_bits - bits_want) as u32)")
    # shape checks the model relies on (structure, not arithmetic): fail closed if they move
    shape = [r"let\s+digit_bits\s*=\s*\(bits\s*-\s*1\)\s*%\s*u64::from\(big_digit::BITS\)\s*\+\s*1\s*;",
             r"if\s+bits_want\s*!=\s*0\s*\{", r"if\s+bits_want\s*!=\s*64\s*\{", r"ret\s*<<=\s*bits_want\s*;",
             r"ret\s*\|=\s*d0\s*;", r"ret\s*\|=\s*\(masked\s*!=\s*0\)\s*as\s+u64\s*;",
             r"ret_bits\s*\+=\s*bits_want\s*;", r"for\s+d\s+in\s+v\.data\.iter\(\)\.rev\(\)"]
    for s in shape:
        if not re.search(s, hb):
            miss.append("shape:" + s)
            hb_sub = "HOther"

    # ---- to_f64 / to_f32 cut-off
    fl = {}
    for ty in ("f64", "f32"):
        body = src.fn_body(U, "to_" + ty, 0) or ""
        m = re.search(r"if\s+exponent\s*(<=|<|>=|>|==|!=)\s*(f64|f32)::MAX_EXP\s+as\s+u64\s*\{", body)
        if m and m.group(2) == ty and re.search(r"let\s+exponent\s*=\s*self\.bits\(\)\s*-\s*u64::from\(fls\(mantissa\)\)\s*;", body):
            fl[ty] = (CMP[m.group(1)], MAXEXP[ty])
        else:
            fl[ty] = ("Cne", -1)
            miss.append("to_%s MAX_EXP" % ty)

    # ---- BigInt::to_i64 / to_i128 edges
    def edge(fn, ty):
        body = src.fn_body(I, fn, 0) or ""
        m = re.search(r"let\s+m\s*:\s*%s\s*=\s*1\s*<<\s*(\d+)\s*;" % ty, body)
        if not m:
            miss.append(fn + " edge")
            return -1
        return int(m.group(1))
    e64 = edge("to_i64", "u64")
    e128 = edge("to_i128", "u128")

    # ---- BigUint::to_u64 / to_u128 position tests
    def lim(fn):
        body = src.fn_body(U, fn, 0) or ""
        m = re.search(r"if\s+bits\s*(<=|<|>=|>|==|!=)\s*(\d+)\s*\{\s*return\s+None\s*;", body)
        if not m:
            miss.append(fn + " bits test")
            return ("Cne", -1)
        return (CMP[m.group(1)], int(m.group(2)))
    l64 = lim("to_u64")
    l128 = lim("to_u128")

    if miss:
        rep["anchor_missing"] = miss
    pr = lambda t: "(%s, %s)" % t
    text = ("Definition prim : prim_params := {|\n"
            "  pp_hb_sub := %s;\n  pp_hb_width := %s;\n  pp_hb_shr := %s;\n  pp_hb_guard := %s;\n"
            "  pp_hb_mask_c := %s;\n  pp_hb_mask := %s;\n"
            "  pp_f64_cmp := %s;  pp_f64_max := %s;\n  pp_f32_cmp := %s;  pp_f32_max := %s;\n"
            "  pp_i64_edge := %s;\n  pp_i128_edge := %s;\n"
            "  pp_u64_cmp := %s;  pp_u64_lim := %s;\n  pp_u128_cmp := %s;  pp_u128_lim := %s |}.\n") % (
        hb_sub, z(hb_width), pr(hb_shr), pr(hb_guard), z(hb_mask_c), pr(hb_mask),
        fl["f64"][0], z(fl["f64"][1]), fl["f32"][0], z(fl["f32"][1]),
        z(e64), z(e128), l64[0], z(l64[1]), l128[0], z(l128[1]))
    rep.update({"hb_sub": hb_sub, "hb_width": hb_width, "f64": fl["f64"], "f32": fl["f32"],
                "i64_edge": e64, "i128_edge": e128, "u64": l64, "u128": l128})
    return ["Base", "Prim"], text, rep
