"""Decision points of the sign helpers of BigInt (src/bigint.rs, src/bigint/convert.rs)
-> `Extracted.signs` (record `Sign.sign_params`; not `sign`, which is the type of signs in Base.v).

Read on every run:
  Signed for BigInt   abs       the arm that converts through `BigInt::from(self.data.clone())` (the others clone)
                      abs_sub   `if *self <= *other { Self::ZERO } else { self - other }` (operator)
                      signum    the three arms `Plus => BigInt::one()`, `Minus => -BigInt::one()`, `NoSign => Self::ZERO`
                      is_positive / is_negative   `self.sign == Plus` / `self.sign == Minus` (operator, sign)
  Zero for BigInt     is_zero   `self.sign == NoSign`
  Ord for BigInt      cmp       `if scmp != Equal { return scmp; }` (operator), `NoSign => Equal`,
                                `Plus => self.data.cmp(&other.data)`, `Minus => other.data.cmp(&self.data)` (directions)
  BigInt              from_biguint   `if sign == NoSign { data.assign_from_slice(&[]); } else if data.is_zero()
                                     { sign = NoSign; }` (shape guard: the model function lives in Base.v)
                      to_biguint     arms `Plus => Some(self.data.clone())`, `NoSign => Some(BigUint::ZERO)`, `Minus => None`
  convert.rs          ToBigUint for BigInt   the same three arms (over `self.sign()`)
                      TryFrom<BigInt> for BigUint   `if value.sign() == Sign::Minus { Err(..) } else { Ok(value.data) }`
                      From<BigUint> for BigInt      `if n.is_zero() { Self::ZERO } else { BigInt { sign: Plus, data: n } }`
A fragment that is not found exactly once is emitted with a value `sign_ok` rejects (fail closed)."""
import re
from ._util import CMP, OP, fn_bodies, pick, one, impl_block, b, Fields

IREL = "src/bigint.rs"
CREL = "src/bigint/convert.rs"
SG = r"(?:Sign::)?(Minus|NoSign|Plus)"
EQ = r"(==|!=)"


def fn_in(blk, name, marker=r"."):
    return pick(fn_bodies(blk or "", name), marker) if blk else None


def tobu(body, head):
    """arms of `match <head> { Plus => Some(self.data.clone()), NoSign => Some(BigUint::ZERO), Minus => None }`"""
    m = one(r"match\s+" + head + r"\s*\{(.*?)\}\s*\}\s*$", body)
    if not m:
        return None
    arms = {}
    for sg, rhs in re.findall(SG + r"\s*=>\s*(Some\(\s*self\.data\.clone\(\)\s*\)|Some\(\s*BigUint::ZERO\s*\)|None)\s*,", m.group(1)):
        if sg in arms:
            return None
        arms[sg] = "TbNone" if rhs == "None" else ("TbZero" if "ZERO" in rhs else "TbData")
    if set(arms) != {"Minus", "NoSign", "Plus"} or m.group(1).count("=>") != 3:
        return None
    return "{| tb_plus := %s; tb_nosign := %s; tb_minus := %s |}" % (arms["Plus"], arms["NoSign"], arms["Minus"])


BAD_TB = "{| tb_plus := TbNone; tb_nosign := TbNone; tb_minus := TbNone |}"


def extract(src):
    rep = {}
    F = Fields(rep)
    icode = src.code(IREL)
    ccode = src.code(CREL)
    signed = impl_block(icode, r"impl\s+Signed\s+for\s+BigInt\s*\{")
    zero = impl_block(icode, r"impl\s+Zero\s+for\s+BigInt\s*\{")
    ordb = impl_block(icode, r"impl\s+Ord\s+for\s+BigInt\s*\{")

    # ---- abs
    body = fn_in(signed, "abs")
    m = one(r"match\s+self\.sign\s*\{(.*?)\}\s*\}\s*$", body)
    conv = re.findall(SG + r"\s*=>\s*BigInt::from\(\s*self\.data\.clone\(\)\s*\)\s*,", m.group(1)) if m else []
    clone = re.findall(r"((?:(?:Sign::)?(?:Minus|NoSign|Plus)\s*\|?\s*)+)=>\s*self\.clone\(\)\s*,", m.group(1)) if m else []
    rest = sorted(re.findall(r"Minus|NoSign|Plus", " ".join(clone)))
    if m and len(conv) == 1 and sorted(rest + conv) == ["Minus", "NoSign", "Plus"] and m.group(1).count("=>") == 2:
        F.put("sgp_abs_conv", conv[0])
    else:
        F.miss("sgp_abs_conv", "NoSign")

    # ---- abs_sub
    body = fn_in(signed, "abs_sub")
    m = one(r"\{\s*if\s+\*self\s*" + OP + r"\s*\*other\s*\{\s*Self::ZERO\s*\}\s*else\s*\{\s*self\s*-\s*other\s*\}\s*\}", body)
    F.put("sgp_abs_sub_cmp", CMP[m.group(1)]) if m else F.miss("sgp_abs_sub_cmp", "Cne")

    # ---- signum
    body = fn_in(signed, "signum")
    m = one(r"match\s+self\.sign\s*\{(.*?)\}\s*\}\s*$", body)
    arms = {}
    if m:
        for sg, rhs in re.findall(SG + r"\s*=>\s*(-\s*BigInt::one\(\)|BigInt::one\(\)|Self::ZERO|BigInt::ZERO)\s*,", m.group(1)):
            arms[sg] = "(-1)" if rhs.startswith("-") else ("1" if "one" in rhs else "0")
    if m and set(arms) == {"Minus", "NoSign", "Plus"} and m.group(1).count("=>") == 3:
        F.put("sgp_signum_plus", arms["Plus"]); F.put("sgp_signum_minus", arms["Minus"]); F.put("sgp_signum_nosign", arms["NoSign"])
    else:
        F.miss("sgp_signum_plus", "7"); F.put("sgp_signum_minus", "7"); F.put("sgp_signum_nosign", "7")

    # ---- is_positive / is_negative / is_zero
    for key, blk, fn in (("pos", signed, "is_positive"), ("neg", signed, "is_negative"), ("zero", zero, "is_zero")):
        body = fn_in(blk, fn)
        m = one(r"->\s*bool\s*\{\s*self\.sign\s*" + EQ + r"\s*" + SG + r"\s*\}", body)
        if m:
            F.put("sgp_%s_eq" % key, b(m.group(1) == "==")); F.put("sgp_%s_sign" % key, m.group(2))
        else:
            F.miss("sgp_%s_eq" % key, "false"); F.put("sgp_%s_sign" % key, {"pos": "NoSign", "neg": "NoSign", "zero": "Plus"}[key])

    # ---- Ord::cmp
    body = fn_in(ordb, "cmp")
    m = one(r"let\s+scmp\s*=\s*self\.sign\.cmp\(\s*&other\.sign\s*\)\s*;\s*if\s+scmp\s*" + EQ + r"\s*(Equal|Less|Greater)\s*\{\s*return\s+scmp\s*;\s*\}\s*"
            r"match\s+self\.sign\s*\{(.*?)\}\s*\}\s*$", body)
    ok = False
    if m:
        arms = m.group(3)
        ns = one(r"NoSign\s*=>\s*(Equal|Less|Greater)\s*,", arms)
        pl = one(r"Plus\s*=>\s*(self|other)\.data\.cmp\(\s*&(self|other)\.data\s*\)\s*,", arms)
        mi = one(r"Minus\s*=>\s*(self|other)\.data\.cmp\(\s*&(self|other)\.data\s*\)\s*,", arms)
        if ns and pl and mi and arms.count("=>") == 3 and pl.group(1) != pl.group(2) and mi.group(1) != mi.group(2):
            ordn = {"Equal": "Eq", "Less": "Lt", "Greater": "Gt"}
            F.put("sgp_cmp_ne", b(m.group(1) == "!=")); F.put("sgp_cmp_lit", ordn[m.group(2)])
            F.put("sgp_cmp_nosign", ordn[ns.group(1)])
            F.put("sgp_cmp_plus_fwd", b(pl.group(1) == "self")); F.put("sgp_cmp_minus_fwd", b(mi.group(1) == "self"))
            ok = True
    if not ok:
        F.miss("sgp_cmp_ne", "false"); F.put("sgp_cmp_lit", "Lt"); F.put("sgp_cmp_nosign", "Lt")
        F.put("sgp_cmp_plus_fwd", "false"); F.put("sgp_cmp_minus_fwd", "true")

    # ---- from_biguint (shape guard)
    body = pick(fn_bodies(icode, "from_biguint"), r"mut\s+sign")
    m = one(r"\{\s*if\s+sign\s*==\s*NoSign\s*\{\s*data\.assign_from_slice\(\s*&\[\s*\]\s*\)\s*;\s*\}\s*"
            r"else\s+if\s+data\.is_zero\(\)\s*\{\s*sign\s*=\s*NoSign\s*;\s*\}\s*BigInt\s*\{\s*sign\s*,\s*data\s*\}\s*\}", body)
    F.put("sgp_from_biguint_shape", "true") if m else F.miss("sgp_from_biguint_shape", "false")

    # ---- to_biguint (inherent, trait)
    v = tobu(pick(fn_bodies(icode, "to_biguint"), r"match"), r"self\.sign")
    F.put("sgp_tobu", v) if v else F.miss("sgp_tobu", BAD_TB)
    blk = impl_block(ccode, r"impl\s+ToBigUint\s+for\s+BigInt\s*\{")
    v = tobu(fn_in(blk, "to_biguint"), r"self\.sign\(\)")
    F.put("sgp_tobu_trait", v) if v else F.miss("sgp_tobu_trait", BAD_TB)

    # ---- TryFrom<BigInt> for BigUint
    blk = impl_block(ccode, r"impl\s+TryFrom<BigInt>\s+for\s+BigUint\s*\{")
    body = fn_in(blk, "try_from")
    m = one(r"\{\s*if\s+value\.sign\(\)\s*" + EQ + r"\s*" + SG + r"\s*\{\s*Err\(\s*TryFromBigIntError::new\(\s*value\s*\)\s*\)\s*\}\s*"
            r"else\s*\{\s*Ok\(\s*value\.data\s*\)\s*\}\s*\}", body)
    if m:
        F.put("sgp_try_eq", b(m.group(1) == "==")); F.put("sgp_try_sign", m.group(2))
    else:
        F.miss("sgp_try_eq", "false"); F.put("sgp_try_sign", "NoSign")

    # ---- From<BigUint> for BigInt
    blk = impl_block(ccode, r"impl\s+From<BigUint>\s+for\s+BigInt\s*\{")
    body = fn_in(blk, "from")
    m = one(r"\{\s*if\s+(!?)\s*n\.is_zero\(\)\s*\{\s*Self::ZERO\s*\}\s*else\s*\{\s*BigInt\s*\{\s*sign\s*:\s*" + SG +
            r"\s*,\s*data\s*:\s*n\s*,?\s*\}\s*\}\s*\}", body)
    if m:
        F.put("sgp_from_u_neg", b(m.group(1) == "!")); F.put("sgp_from_u_sign", m.group(2))
    else:
        F.miss("sgp_from_u_neg", "true"); F.put("sgp_from_u_sign", "NoSign")

    return ["Base", "Sign"], F.render("signs", "sign_params"), rep
