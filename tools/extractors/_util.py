"""Helpers shared by the iter / serde / bytes / rand / sign extractors (not an extractor itself:
tools/extract.py skips modules whose name starts with `_`)."""
import re

CMP = {"<": "Clt", "<=": "Cle", "==": "Ceq", "!=": "Cne", ">=": "Cge", ">": "Cgt"}
OP = r"(<=|>=|==|!=|<|>)"


def block_from(text, start):
    """Text from `start` to the brace matching the first `{` at or after `start`."""
    i = text.find("{", start)
    if i < 0:
        return None
    depth = 0
    for j in range(i, len(text)):
        if text[j] == "{":
            depth += 1
        elif text[j] == "}":
            depth -= 1
            if depth == 0:
                return text[start: j + 1]
    return None


def fn_bodies(code, name):
    """All functions called `name` in `code` (comment-free text), in source order."""
    out = []
    for m in re.finditer(r"\bfn\s+%s\b" % re.escape(name), code or ""):
        b = block_from(code, m.start())
        if b is not None:
            out.append(b)
    return out


def pick(bodies, marker_rx):
    """The unique body that matches `marker_rx`, else None."""
    hits = [b for b in bodies if re.search(marker_rx, b, flags=re.S)]
    return hits[0] if len(hits) == 1 else None


def impl_block(code, header_rx):
    """The unique `impl ... {` block whose header matches `header_rx` (which must end before the `{`)."""
    ms = list(re.finditer(header_rx, code or "", flags=re.S))
    if len(ms) != 1:
        return None
    return block_from(code, ms[0].start())


def one(rx, text):
    """The match object if `rx` occurs exactly once in `text`, else None."""
    ms = list(re.finditer(rx, text or "", flags=re.S))
    return ms[0] if len(ms) == 1 else None


def b(x):
    return "true" if x else "false"


class Fields:
    """Collects `name := value` pairs; `miss` records an anchor that was not found and stores the
    fail-closed value instead."""
    def __init__(self, rep):
        self.rep = rep
        self.items = []

    def put(self, name, value):
        self.items.append((name, value))
        self.rep[name] = value

    def miss(self, name, bad):
        self.rep.setdefault("anchor_missing", []).append(name)
        self.put(name, bad)

    def render(self, ident, ty):
        return "Definition %s : %s := {|\n  %s |}.\n" % (
            ident, ty, ";\n  ".join("%s := %s" % kv for kv in self.items))
