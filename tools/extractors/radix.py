"""Source fragments of src/biguint/convert.rs → `Extracted.radix` (C06).

Reads: the radix range assertions (text 2..=36, digit vectors 2..=256), the `radix != 256`
guard, the big-base threshold `digits.data.len() >= 64`, the loop conditions
`big_base.data.len() < target_len`, `digits > big_base`, `digits.data.len() > 1`, the chunk
arithmetic `if r == 0 { power } else { r }`, the bounds and the comparison of
generate_radix_bases, the byte→digit arms of from_str_radix and the digit→ASCII arms of
to_str_radix_reversed.  Anything not found is emitted as a value that cannot satisfy
`radix_ok` (fail closed)."""
import re

CMP = {"<": "Clt", "<=": "Cle", "==": "Ceq", "!=": "Cne", ">=": "Cge", ">": "Cgt"}
OP = r"(<=|>=|==|!=|<|>)"
REL = "src/biguint/convert.rs"

def z(v):
    return "(%d)" % v if v < 0 else "%d" % v

def extract(src):
    rep = {}
    bad = []

    def miss(name):
        bad.append(name)
        rep.setdefault("anchor_missing", []).append(name)

    def body(fn, nth=0):
        b = src.fn_body(REL, fn, nth)
        if b is None:
            miss("fn " + fn)
            return ""
        return b

    def range_assert(text, name):
        m = re.search(r"assert!\s*\(\s*(\d+)\s*<=\s*radix\s*&&\s*radix\s*<=\s*(\d+)\s*,", text)
        if not m:
            miss("assert " + name)
            return (-1, -1)
        return (int(m.group(1)), int(m.group(2)))

    # ---- text range: from_str_radix (BigUint) and to_str_radix_reversed must agree
    fsr = body("from_str_radix")
    tsr = body("to_str_radix_reversed")
    a1, a2 = range_assert(fsr, "from_str_radix"), range_assert(tsr, "to_str_radix_reversed")
    if a1 != a2:
        miss("text range mismatch")
        a1 = (-1, -1)
    str_lo, str_hi = a1
    # ---- digit-vector range and guard: from_radix_be / from_radix_le must agree
    fbe, fle = body("from_radix_be"), body("from_radix_le")
    d1, d2 = range_assert(fbe, "from_radix_be"), range_assert(fle, "from_radix_le")
    if d1 != d2:
        miss("digit range mismatch")
        d1 = (-1, -1)
    dig_lo, dig_hi = d1
    guards = []
    for t in (fbe, fle):
        m = re.search(r"if\s+radix\s*!=\s*(\d+)\s*&&\s*buf\.iter\(\)\.any\(\|&b\|\s*b\s*>=\s*radix\s+as\s+u8\s*\)", t)
        guards.append(int(m.group(1)) if m else None)
    if guards[0] is None or guards[0] != guards[1]:
        miss("radix != 256 guard")
        guard = -1
    else:
        guard = guards[0]
    # both functions must dispatch the same way (power of two → bit regrouping)
    for t, nm in ((fbe, "from_radix_be"), (fle, "from_radix_le"), (fsr, "from_str_radix")):
        if not re.search(r"if\s+radix\.is_power_of_two\(\)\s*\{", t) or \
           not re.search(r"if\s+big_digit::BITS\s*%\s*bits\s*==\s*0\s*\{\s*from_bitwise_digits_le", t):
            miss("pow2 dispatch " + nm)
    # ---- to_radix_digits_le
    trd = body("to_radix_digits_le")
    m = re.search(r"if\s+digits\.data\.len\(\)\s*" + OP + r"\s*(\d+)\s*\{", trd)
    big_len_cmp, big_len = (CMP[m.group(1)], int(m.group(2))) if m else (miss("big threshold") or ("Cne", -1))
    m = re.search(r"while\s+big_base\.data\.len\(\)\s*" + OP + r"\s*target_len\s*\{", trd)
    target_cmp = CMP[m.group(1)] if m else (miss("target loop") or "Cne")
    m = re.search(r"while\s+digits\s*" + OP + r"\s*big_base\s*\{", trd)
    big_cmp = CMP[m.group(1)] if m else (miss("digits > big_base") or "Cne")
    m = re.search(r"while\s+digits\.data\.len\(\)\s*" + OP + r"\s*(\d+)\s*\{", trd)
    small_cmp, small_len = (CMP[m.group(1)], int(m.group(2))) if m else (miss("small loop") or ("Cne", -1))
    if not re.search(r"let\s+target_len\s*=\s*digits\.data\.len\(\)\.sqrt\(\)\s*;", trd):
        miss("target_len = sqrt")
    if not re.search(r"big_base\s*=\s*&big_base\s*\*\s*&big_base\s*;\s*big_power\s*\*=\s*2\s*;", trd):
        miss("squaring step")
    if not re.search(r"for\s+_\s+in\s+0\.\.big_power\s*\{\s*let\s*\(q,\s*mut\s+r\)\s*=\s*div_rem_digit\(big_r,\s*base\);\s*big_r\s*=\s*q;\s*for\s+_\s+in\s+0\.\.power", trd):
        miss("super-chunk loop")
    # ---- from_radix_digits_be chunk arithmetic
    frd = body("from_radix_digits_be")
    m = re.search(r"let\s+r\s*=\s*v\.len\(\)\s*%\s*power\s*;\s*let\s+i\s*=\s*if\s+r\s*" + OP +
                  r"\s*(\d+)\s*\{\s*(power|r)\s*\}\s*else\s*\{\s*(power|r)\s*\}\s*;", frd)
    if m and m.group(3) != m.group(4):
        chunk_cmp, chunk_rhs, then_power = CMP[m.group(1)], int(m.group(2)), m.group(3) == "power"
    else:
        miss("chunk arithmetic")
        chunk_cmp, chunk_rhs, then_power = "Cne", -1, False
    # ---- generate_radix_bases
    grb = body("generate_radix_bases")
    m1 = re.search(r"let\s+mut\s+radix\s*:\s*BigDigit\s*=\s*(\d+)\s*;", grb)
    m2 = re.search(r"while\s+radix\s*<\s*(\d+)\s*\{", grb)
    m3 = re.search(r"while\s+let\s+Some\(b\)\s*=\s*base\.checked_mul\(radix\)\s*\{\s*if\s+b\s*" + OP + r"\s*max\s*\{\s*break;", grb)
    gen_lo = int(m1.group(1)) if m1 else (miss("gen radix start") or -1)
    gen_hi = int(m2.group(1)) if m2 else (miss("gen radix end") or -1)
    gen_cmp = CMP[m3.group(1)] if m3 else (miss("gen compare") or "Cne")
    if not re.search(r"if\s+!radix\.is_power_of_two\(\)\s*\{\s*let\s+mut\s+power\s*=\s*1\s*;\s*let\s+mut\s+base\s*=\s*radix\s*;", grb):
        miss("gen init")
    grb_get = body("get_radix_base")
    if not re.search(r"generate_radix_bases\(big_digit::MAX\)", grb_get):
        miss("BASES = generate_radix_bases(MAX)")
    # ---- byte → digit arms
    arms = []
    for m in re.finditer(r"b'(.)'\s*\.\.=\s*b'(.)'\s*=>\s*b\s*-\s*b'(.)'\s*(?:\+\s*(\d+))?\s*,", fsr):
        lo, hi, sub, add = ord(m.group(1)), ord(m.group(2)), ord(m.group(3)), int(m.group(4) or 0)
        if sub != lo:
            miss("arm subtrahend")
            continue
        arms.append((lo, hi, add))
    if not arms:
        miss("digit arms")
    m = re.search(r"b'(.)'\s*=>\s*continue\s*,", fsr)
    skip = ord(m.group(1)) if m else (miss("skip arm") or -1)
    if not re.search(r"_\s*=>\s*u8::MAX\s*,", fsr):
        miss("default arm u8::MAX")
    if not re.search(r"if\s+d\s*<\s*radix\s+as\s+u8\s*\{\s*v\.push\(d\);", fsr):
        miss("d < radix as u8")
    if not re.search(r"if\s+s\.starts_with\('_'\)", fsr) or not re.search(r"s\.strip_prefix\('\+'\)", fsr):
        miss("prefix rules")
    # ---- digit → ASCII arms
    m = re.search(r"if\s+\*r\s*<\s*(\d+)\s*\{\s*\*r\s*\+=\s*b'(.)'\s*;\s*\}\s*else\s*\{\s*\*r\s*\+=\s*b'(.)'\s*-\s*(\d+)\s*;", tsr)
    if m and m.group(1) == m.group(4):
        ten, digit0, lettera = int(m.group(1)), ord(m.group(2)), ord(m.group(3))
    else:
        miss("ascii arms")
        ten, digit0, lettera = -1, -1, -1
    # ---- sign rules of BigInt::from_str_radix
    try:
        ib = src.fn_body("src/bigint/convert.rs", "from_str_radix", 0) or ""
    except Exception:
        ib = ""
    if not re.search(r"s\.strip_prefix\('-'\)\s*\{\s*if\s+!tail\.starts_with\('\+'\)\s*\{\s*s\s*=\s*tail\s*\}\s*Minus\s*\}\s*else\s*\{\s*Plus\s*\}", ib):
        miss("bigint sign rule")
    if bad:
        # fail closed: no admissible value for the text range
        str_lo = -1
    text = ("Definition radix : radix_params := {|\n"
            "  rp_as := addsub;\n  rp_mul := mul;\n  rp_div := div;\n"
            "  rp_str_lo := %s; rp_str_hi := %s;\n"
            "  rp_dig_lo := %s; rp_dig_hi := %s;\n"
            "  rp_guard := %s;\n"
            "  rp_big_len_cmp := %s; rp_big_len := %s;\n"
            "  rp_target_cmp := %s;\n"
            "  rp_big_cmp := %s;\n"
            "  rp_small_cmp := %s; rp_small_len := %s;\n"
            "  rp_chunk_cmp := %s; rp_chunk_rhs := %s; rp_chunk_then_power := %s;\n"
            "  rp_gen_lo := %s; rp_gen_hi := %s; rp_gen_cmp := %s;\n"
            "  rp_arms := [%s];\n"
            "  rp_skip := %s;\n"
            "  rp_ten := %s; rp_digit0 := %s; rp_lettera := %s |}.\n") % (
        z(str_lo), z(str_hi), z(dig_lo), z(dig_hi), z(guard),
        big_len_cmp, z(big_len), target_cmp, big_cmp, small_cmp, z(small_len),
        chunk_cmp, z(chunk_rhs), "true" if then_power else "false",
        z(gen_lo), z(gen_hi), gen_cmp,
        "; ".join("(%d, %d, %d)" % a for a in arms), z(skip), z(ten), z(digit0), z(lettera))
    rep.update({"str_range": [str_lo, str_hi], "dig_range": [dig_lo, dig_hi], "big_len": big_len,
                "big_cmp": big_cmp, "arms": arms})
    return ["Base", "AddSub", "Mul", "Div", "Radix"], text, rep
