"""Decision points of src/bigrand.rs -> `Extracted.rand` (record `Rand.rand_params`).

Read on every run:
  gen_bits            `if rem > 0 { let last = data.len() - 1; data[last] >>= 32 - rem; }` (operator, width, the `-`)
  gen_biguint (64-bit-digit arm)  `bit_size.div_rem(&32)`, `(digits + (rem > 0) as u64)`, `Integer::div_ceil(&bit_size, &64)`
  gen_bigint          `if biguint.is_zero() { if self.gen() { continue; } else { NoSign } } else if self.gen() { Plus }
                      else { Minus }` (polarity of the zero test, which branch re-draws, the three signs)
  gen_biguint_below   `assert!(!bound.is_zero())` (the `!`), `if n < *bound { return n; }` (operator)
  gen_biguint_range   `assert!(*lbound < *ubound)` (operator), `if lbound.is_zero()` (polarity)
  gen_bigint_range    `assert!(*lbound < *ubound)`, `if lbound.is_zero()`, `else if ubound.is_zero()`
  UniformBigUint / UniformBigInt  `assert!(low < high)` in `new`, `assert!(low <= high)` in `new_inclusive`
A fragment that is not found exactly once is emitted with a value `rand_ok` rejects (fail closed)."""
import re
from ._util import CMP, OP, fn_bodies, pick, one, impl_block, b, Fields

REL = "src/bigrand.rs"
SIGNS = ("Minus", "NoSign", "Plus")


def extract(src):
    rep = {}
    F = Fields(rep)
    code = src.code(REL)

    # ---- gen_bits
    body = pick(fn_bodies(code, "gen_bits"), r"rng\.fill")
    m = one(r"rng\.fill\(\s*data\s*\)\s*;\s*if\s+rem\s*" + OP + r"\s*0\s*\{\s*let\s+last\s*=\s*data\.len\(\)\s*-\s*1\s*;\s*"
            r"data\[last\]\s*>>=\s*(\d+)\s*([-+])\s*rem\s*;\s*\}\s*\}", body)
    if m:
        F.put("rnp_bits_rem_cmp", CMP[m.group(1)]); F.put("rnp_bits_width", m.group(2)); F.put("rnp_bits_sub", b(m.group(3) == "-"))
    else:
        F.miss("rnp_bits_rem_cmp", "Cne"); F.put("rnp_bits_width", "(-1)"); F.put("rnp_bits_sub", "false")

    # ---- gen_biguint: the arm that builds native u64 digits
    body = pick(fn_bodies(code, "gen_biguint"), r"native_len")
    m = one(r"let\s*\(\s*digits\s*,\s*rem\s*\)\s*=\s*bit_size\.div_rem\(\s*&(\d+)\s*\)\s*;\s*"
            r"let\s+len\s*=\s*\(\s*digits\s*\+\s*\(\s*rem\s*" + OP + r"\s*0\s*\)\s*as\s+u64\s*\)", body)
    m2 = one(r"let\s+native_digits\s*=\s*Integer::div_ceil\(\s*&bit_size\s*,\s*&(\d+)\s*\)\s*;\s*"
             r"let\s+native_len\s*=\s*native_digits\.to_usize\(\)", body)
    m3 = one(r"gen_bits\(\s*self\s*,\s*data\s*,\s*rem\s*\)\s*;", body)
    if m and m2 and m3:
        F.put("rnp_word_bits", m.group(1)); F.put("rnp_len_rem_cmp", CMP[m.group(2)]); F.put("rnp_native_bits", m2.group(1))
    else:
        F.miss("rnp_word_bits", "(-1)"); F.put("rnp_len_rem_cmp", "Cne"); F.put("rnp_native_bits", "(-1)")

    # ---- gen_bigint
    body = pick(fn_bodies(code, "gen_bigint"), r"loop")
    arm = r"(continue\s*;|NoSign|Plus|Minus)"
    m = one(r"loop\s*\{\s*let\s+biguint\s*=\s*self\.gen_biguint\(\s*bit_size\s*\)\s*;\s*"
            r"let\s+sign\s*=\s*if\s+(!?)\s*biguint\.is_zero\(\)\s*\{\s*if\s+self\.gen\(\)\s*\{\s*" + arm + r"\s*\}\s*else\s*\{\s*" + arm +
            r"\s*\}\s*\}\s*else\s+if\s+self\.gen\(\)\s*\{\s*(NoSign|Plus|Minus)\s*\}\s*else\s*\{\s*(NoSign|Plus|Minus)\s*\}\s*;\s*"
            r"return\s+BigInt::from_biguint\(\s*sign\s*,\s*biguint\s*\)\s*;", body)
    ok = False
    if m:
        t, e = m.group(2), m.group(3)
        if t.startswith("continue") != e.startswith("continue"):
            F.put("rnp_zero_neg", b(m.group(1) == "!"))
            F.put("rnp_redraw_then", b(t.startswith("continue")))
            F.put("rnp_zero_sign", e if t.startswith("continue") else t)
            F.put("rnp_true_sign", m.group(4)); F.put("rnp_false_sign", m.group(5))
            ok = True
    if not ok:
        F.miss("rnp_zero_neg", "true"); F.put("rnp_redraw_then", "false"); F.put("rnp_zero_sign", "Plus")
        F.put("rnp_true_sign", "NoSign"); F.put("rnp_false_sign", "NoSign")

    # ---- gen_biguint_below
    body = pick(fn_bodies(code, "gen_biguint_below"), r"loop")
    m = one(r"assert!\(\s*(!?)\s*bound\.is_zero\(\)\s*\)\s*;\s*let\s+bits\s*=\s*bound\.bits\(\)\s*;\s*loop\s*\{\s*"
            r"let\s+n\s*=\s*self\.gen_biguint\(\s*bits\s*\)\s*;\s*if\s+n\s*" + OP + r"\s*\*bound\s*\{\s*return\s+n\s*;\s*\}\s*\}", body)
    if m:
        F.put("rnp_below_assert_neg", b(m.group(1) == "!")); F.put("rnp_below_cmp", CMP[m.group(2)])
    else:
        F.miss("rnp_below_assert_neg", "false"); F.put("rnp_below_cmp", "Cne")

    # ---- gen_biguint_range
    body = pick(fn_bodies(code, "gen_biguint_range"), r"assert!")
    m = one(r"assert!\(\s*\*lbound\s*" + OP + r"\s*\*ubound\s*\)\s*;\s*if\s+(!?)\s*lbound\.is_zero\(\)\s*\{\s*"
            r"self\.gen_biguint_below\(\s*ubound\s*\)\s*\}\s*else\s*\{\s*"
            r"lbound\s*\+\s*self\.gen_biguint_below\(\s*&\(\s*ubound\s*-\s*lbound\s*\)\s*\)\s*\}", body)
    if m:
        F.put("rnp_urange_cmp", CMP[m.group(1)]); F.put("rnp_urange_zero_neg", b(m.group(2) == "!"))
    else:
        F.miss("rnp_urange_cmp", "Cne"); F.put("rnp_urange_zero_neg", "true")

    # ---- gen_bigint_range
    body = pick(fn_bodies(code, "gen_bigint_range"), r"assert!")
    m = one(r"assert!\(\s*\*lbound\s*" + OP + r"\s*\*ubound\s*\)\s*;\s*if\s+(!?)\s*lbound\.is_zero\(\)\s*\{\s*"
            r"BigInt::from\(\s*self\.gen_biguint_below\(\s*ubound\.magnitude\(\)\s*\)\s*\)\s*\}\s*"
            r"else\s+if\s+(!?)\s*ubound\.is_zero\(\)\s*\{\s*"
            r"lbound\s*\+\s*BigInt::from\(\s*self\.gen_biguint_below\(\s*lbound\.magnitude\(\)\s*\)\s*\)\s*\}\s*"
            r"else\s*\{\s*let\s+delta\s*=\s*ubound\s*-\s*lbound\s*;\s*"
            r"lbound\s*\+\s*BigInt::from\(\s*self\.gen_biguint_below\(\s*delta\.magnitude\(\)\s*\)\s*\)\s*\}", body)
    if m:
        F.put("rnp_irange_cmp", CMP[m.group(1)]); F.put("rnp_irange_lo_neg", b(m.group(2) == "!")); F.put("rnp_irange_hi_neg", b(m.group(3) == "!"))
    else:
        F.miss("rnp_irange_cmp", "Cne"); F.put("rnp_irange_lo_neg", "true"); F.put("rnp_irange_hi_neg", "true")

    # ---- Uniform samplers
    for key, ty in (("uu", "UniformBigUint"), ("ui", "UniformBigInt")):
        blk = impl_block(code, r"impl\s+UniformSampler\s+for\s+%s\s*\{" % ty)
        new = pick(fn_bodies(blk or "", "new"), r"assert!") if blk else None
        inc = pick(fn_bodies(blk or "", "new_inclusive"), r"assert!") if blk else None
        m = one(r"assert!\(\s*low\s*" + OP + r"\s*high\s*\)\s*;\s*%s\s*\{" % ty, new)
        F.put("rnp_%s_new_cmp" % key, CMP[m.group(1)]) if m else F.miss("rnp_%s_new_cmp" % key, "Cne")
        m = one(r"assert!\(\s*low\s*" + OP + r"\s*high\s*\)\s*;\s*Self::new\(\s*low\s*,\s*high\s*\+\s*1u32\s*\)", inc)
        F.put("rnp_%s_incl_cmp" % key, CMP[m.group(1)]) if m else F.miss("rnp_%s_incl_cmp" % key, "Cne")

    return ["Base", "Rand"], F.render("rand", "rand_params"), rep
