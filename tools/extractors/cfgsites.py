"""cfg(feature = ..) sites of the source → `Extracted.cfg_sites` (C16).

Each site is classified structurally:
  FileGate      `#![cfg(...)]` inner attribute
  ItemGate      outer attribute at indent 0 on mod/use/impl/fn/extern crate/macro invocation
  LetCapacity   attribute on `let NAME = ..` inside a fn, where every other use of NAME in that fn
                is inside `with_capacity( .. )`
  LetRootGuess  attribute on `let guess = ..` inside a fn, where every other use is `fixpoint(guess,`
  CfgOther      anything else (fails `cfg_ok`)
"""
import re

def enclosing_fn(lines, idx, indent):
    for j in range(idx, -1, -1):
        m = re.match(r"^(\s*)(?:pub(?:\([^)]*\))?\s+)?(?:unsafe\s+)?fn\s+(\w+)", lines[j])
        if m and len(m.group(1)) < indent:
            return m.group(2), j
    return None, None

def fn_extent(lines, start):
    depth, seen = 0, False
    for j in range(start, len(lines)):
        for ch in re.sub(r"//.*", "", lines[j]):
            if ch == "{":
                depth += 1; seen = True
            elif ch == "}":
                depth -= 1
        if seen and depth == 0:
            return j
    return len(lines) - 1

def uses_only(body_lines, name, skip, pattern):
    """every occurrence of `name` outside the lines in `skip` matches `pattern` on its line"""
    for j, ln in body_lines:
        if j in skip:
            continue
        code = re.sub(r"//.*", "", ln)
        for m in re.finditer(r"\b%s\b" % re.escape(name), code):
            if not re.search(pattern % re.escape(name), code):
                return False
    return True

def extract(src):
    sites, rep = [], {"sites": []}
    for rel in src.all_files():
        lines = src.read(rel).split("\n")
        for idx, ln in enumerate(lines):
            if "feature" not in ln or "cfg_attr" in ln:
                continue
            m = re.match(r"^(\s*)#(!?)\[cfg\((.*)\)\]\s*$", ln)
            if not m:
                if re.search(r"cfg!?\(.*feature", ln):
                    sites.append((rel, idx + 1, "CfgOther 1", ln.strip()))
                continue
            indent, inner, expr = len(m.group(1)), m.group(2) == "!", m.group(3)
            if inner:
                sites.append((rel, idx + 1, "FileGate", expr)); continue
            # next non-attribute line
            k = idx + 1
            while k < len(lines) and (lines[k].strip().startswith("#[") or not lines[k].strip()):
                k += 1
            nxt = lines[k].strip() if k < len(lines) else ""
            if indent == 0:
                if re.match(r"^(pub(\([^)]*\))?\s+)?(mod|use|impl|fn|extern crate|unsafe fn|const|static|type|struct|enum|trait)\b", nxt) or re.match(r"^\w+!\s*[({]", nxt):
                    sites.append((rel, idx + 1, "ItemGate", expr))
                else:
                    sites.append((rel, idx + 1, "CfgOther 2", nxt))
                continue
            ml = re.match(r"^let\s+(?:mut\s+)?(\w+)\b", nxt)
            fn, fstart = enclosing_fn(lines, idx, indent)
            if not ml or fn is None:
                sites.append((rel, idx + 1, "CfgOther 3", nxt)); continue
            name = ml.group(1)
            fend = fn_extent(lines, fstart)
            # lines belonging to cfg'd let blocks of this name (skip them when looking at uses)
            skip = set()
            for j in range(fstart, fend + 1):
                if re.match(r"^\s*let\s+(?:mut\s+)?%s\b" % re.escape(name), lines[j]):
                    e = j
                    depth = 0
                    while e <= fend:
                        code = re.sub(r"//.*", "", lines[e])
                        depth += code.count("{") - code.count("}")
                        if depth <= 0 and code.rstrip().endswith(";"):
                            break
                        e += 1
                    skip.update(range(j, e + 1))
            body = [(j, lines[j]) for j in range(fstart, fend + 1)]
            if name == "guess" and uses_only(body, name, skip, r"fixpoint\(\s*%s\s*,"):
                sites.append((rel, idx + 1, "LetRootGuess", "%s::%s" % (fn, name)))
            elif uses_only(body, name, skip, r"with_capacity\(\s*%s\b[^;]*\)"):
                sites.append((rel, idx + 1, "LetCapacity", "%s::%s" % (fn, name)))
            else:
                sites.append((rel, idx + 1, "CfgOther 4", "%s::%s" % (fn, name)))
    rows = ";\n  ".join("{| cs_line := %d; cs_kind := %s |}" % (ln, k if " " not in k else "(%s)" % k) for _, ln, k, _ in sites)
    text = "Definition cfg_sites : list cfg_site := [\n  %s].\n" % rows
    rep["sites"] = ["%s:%d %s %s" % s for s in sites]
    rep["count"] = len(sites)
    return ["Base", "Cfg"], text, rep
