"""Decision points of the byte import/export code -> `Extracted.byteio` (record `Bytes.bytes_params`).

Read on every run:
  src/biguint.rs   to_bytes_le    `if self.is_zero() { vec![0] } else { convert::to_bitwise_digits_le(self, 8) }`
                                  (polarity of the test, the literal, the width)
                   from_bytes_le  `if bytes.is_empty() { Self::ZERO } else { convert::from_bitwise_digits_le(bytes, 8) }`
                                  (polarity, width)
  src/bigint/convert.rs
     from_signed_bytes_{be,le}   `Some(v) if *v > 0x7f => Sign::Minus, Some(_) => Sign::Plus` (operator, constant,
                                  both signs), `if sign == Sign::Minus { ..twos_complement.. }` (operator, sign)
     to_signed_bytes_{be,le}     `first_byte > 0x7f && !(first_byte == 0x80 && bytes.iter().skip(1).all(Zero::is_zero)
                                  && x.sign == Sign::Minus)` (both operators and constants, the `!`, the skip count,
                                  the sign test), `bytes.insert(0, 0)` / `bytes.push(0)` (the extension byte),
                                  `if x.sign == Sign::Minus { twos_complement_..(&mut bytes) }` (operator, sign)
A fragment that is not found exactly once is emitted with a value `bytes_ok` rejects (fail closed)."""
import re
from ._util import CMP, OP, fn_bodies, pick, one, b, Fields

UREL = "src/biguint.rs"
CREL = "src/bigint/convert.rs"
NUM = r"(0x[0-9a-fA-F_]+|\d[\d_]*)"
SIGNS = {"Minus": "Minus", "NoSign": "NoSign", "Plus": "Plus"}
D = r"\s*\.\s*"          # a method-chain dot, possibly on a new line


def num(tok):
    return str(int(tok.replace("_", ""), 0))


def sign(tok):
    return SIGNS.get(tok)


BAD_FS = "{| fs_cmp := Cne; fs_k := (-1); fs_neg := NoSign; fs_pos := NoSign; fs_tc_eq := false; fs_tc_sign := NoSign |}"
BAD_TS = ("{| ts_hi_cmp := Cne; ts_hi_k := (-1); ts_exc_neg := false; ts_exc_cmp := Cne; ts_exc_k := (-1); "
          "ts_exc_skip := 0%nat; ts_exc_eq := false; ts_exc_sign := NoSign; ts_ext := (-1); ts_tc_eq := false; "
          "ts_tc_sign := NoSign |}")


def from_signed(body, end):
    first = {"be": "first", "le": "last"}[end]
    rx = (r"let\s+sign\s*=\s*match\s+digits" + D + first + r"\(\)\s*\{\s*"
          r"Some\(\s*v\s*\)\s+if\s+\*v\s*" + OP + r"\s*" + NUM + r"\s*=>\s*Sign::(\w+)\s*,\s*"
          r"Some\(\s*_\s*\)\s*=>\s*Sign::(\w+)\s*,\s*None\s*=>\s*return\s+BigInt::ZERO\s*,?\s*\}\s*;\s*"
          r"if\s+sign\s*(==|!=)\s*Sign::(\w+)\s*\{\s*let\s+mut\s+digits\s*=\s*Vec::from\(\s*digits\s*\)\s*;\s*"
          r"twos_complement_" + end + r"\(\s*&mut\s+digits\s*\)\s*;\s*"
          r"BigInt::from_biguint\(\s*sign\s*,\s*BigUint::from_bytes_" + end + r"\(\s*&digits\s*\)\s*\)\s*\}\s*"
          r"else\s*\{\s*BigInt::from_biguint\(\s*sign\s*,\s*BigUint::from_bytes_" + end + r"\(\s*digits\s*\)\s*\)\s*\}")
    m = one(rx, body)
    if not m or not all(sign(m.group(i)) for i in (3, 4, 6)):
        return None
    return ("{| fs_cmp := %s; fs_k := %s; fs_neg := %s; fs_pos := %s; fs_tc_eq := %s; fs_tc_sign := %s |}"
            % (CMP[m.group(1)], num(m.group(2)), sign(m.group(3)), sign(m.group(4)), b(m.group(5) == "=="), sign(m.group(6))))


def to_signed(body, end):
    if end == "be":
        var, get, it, ext = "first_byte", "first", r"bytes" + D + r"iter\(\)", r"bytes" + D + r"insert\(\s*0\s*,\s*" + NUM + r"\s*\)"
    else:
        var, get, it, ext = "last_byte", "last", r"bytes" + D + r"iter\(\)" + D + r"rev\(\)", r"bytes" + D + r"push\(\s*" + NUM + r"\s*\)"
    rx = (r"let\s+mut\s+bytes\s*=\s*x\.data" + D + r"to_bytes_" + end + r"\(\)\s*;\s*"
          r"let\s+" + var + r"\s*=\s*bytes" + D + get + r"\(\)" + D + r"cloned\(\)" + D + r"unwrap_or\(\s*0\s*\)\s*;\s*"
          r"if\s+" + var + r"\s*" + OP + r"\s*" + NUM + r"\s*&&\s*(!?)\s*\(\s*" + var + r"\s*" + OP + r"\s*" + NUM + r"\s*&&\s*"
          + it + D + r"skip\(\s*(\d+)\s*\)" + D + r"all\(\s*Zero::is_zero\s*\)\s*&&\s*x\.sign\s*(==|!=)\s*Sign::(\w+)\s*\)\s*"
          r"\{\s*" + ext + r"\s*;\s*\}\s*"
          r"if\s+x\.sign\s*(==|!=)\s*Sign::(\w+)\s*\{\s*twos_complement_" + end + r"\(\s*&mut\s+bytes\s*\)\s*;\s*\}\s*bytes\s*\}")
    m = one(rx, body)
    if not m or not all(sign(m.group(i)) for i in (8, 11)):
        return None
    return ("{| ts_hi_cmp := %s; ts_hi_k := %s; ts_exc_neg := %s; ts_exc_cmp := %s; ts_exc_k := %s; ts_exc_skip := %s%%nat; "
            "ts_exc_eq := %s; ts_exc_sign := %s; ts_ext := %s; ts_tc_eq := %s; ts_tc_sign := %s |}"
            % (CMP[m.group(1)], num(m.group(2)), b(m.group(3) == "!"), CMP[m.group(4)], num(m.group(5)), m.group(6),
               b(m.group(7) == "=="), sign(m.group(8)), num(m.group(9)), b(m.group(10) == "=="), sign(m.group(11))))


def extract(src):
    rep = {}
    F = Fields(rep)
    ucode = src.code(UREL)
    ccode = src.code(CREL)

    body = pick(fn_bodies(ucode, "to_bytes_le"), r"to_bitwise_digits_le")
    m = one(r"\{\s*if\s+(!?)\s*self\.is_zero\(\)\s*\{\s*vec!\[([^\]]*)\]\s*\}\s*else\s*\{\s*"
            r"convert::to_bitwise_digits_le\(\s*self\s*,\s*(\d+)\s*\)\s*\}\s*\}", body)
    lit = None
    if m:
        toks = [t.strip() for t in m.group(2).split(",") if t.strip()]
        if all(re.fullmatch(NUM + r"(u8)?", t) for t in toks):
            lit = "[" + "; ".join(num(re.sub(r"u8$", "", t)) for t in toks) + "]"
    if m and lit is not None:
        F.put("byp_zero_neg", b(m.group(1) == "!")); F.put("byp_zero_bytes", lit); F.put("byp_to_bits", m.group(3))
    else:
        F.miss("byp_zero_neg", "true"); F.put("byp_zero_bytes", "[]"); F.put("byp_to_bits", "(-1)")

    body = pick(fn_bodies(ucode, "from_bytes_le"), r"from_bitwise_digits_le")
    m = one(r"\{\s*if\s+(!?)\s*bytes\.is_empty\(\)\s*\{\s*Self::ZERO\s*\}\s*else\s*\{\s*"
            r"convert::from_bitwise_digits_le\(\s*bytes\s*,\s*(\d+)\s*\)\s*\}\s*\}", body)
    if m:
        F.put("byp_empty_neg", b(m.group(1) == "!")); F.put("byp_from_bits", m.group(2))
    else:
        F.miss("byp_empty_neg", "true"); F.put("byp_from_bits", "(-1)")

    for end in ("be", "le"):
        bodies = fn_bodies(ccode, "from_signed_bytes_" + end)
        v = from_signed(bodies[0], end) if len(bodies) == 1 else None
        F.put("byp_fs_" + end, v) if v else F.miss("byp_fs_" + end, BAD_FS)
    for end in ("be", "le"):
        bodies = fn_bodies(ccode, "to_signed_bytes_" + end)
        v = to_signed(bodies[0], end) if len(bodies) == 1 else None
        F.put("byp_ts_" + end, v) if v else F.miss("byp_ts_" + end, BAD_TS)

    return ["Base", "Bytes"], F.render("byteio", "bytes_params"), rep
