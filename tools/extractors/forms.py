"""Operator-form table (C10): src/macros.rs + every operator impl in src/**/*.rs → `Extracted.forms`.

How it works (no knowledge of individual macro names is built in):
  1. a small tokenizer turns each source file into token trees;
  2. every `macro_rules!` definition (macros.rs = global, the others file-local) is parsed into
     (pattern, transcription) rules; a tiny `macro_rules` matcher/transcriber (fragments `ident`,
     `ty`, `tt`, `expr`; `$( … ) sep */+` repetitions) expands every item-level invocation
     recursively, so `promote_all_scalars!` → `promote_scalars!` → `forward_all_scalar_…!` → … ends
     in plain `impl Trait<Rhs> for Self { fn … }` items;
  3. every `impl` of an operator trait (hand-written or generated) becomes one row: its header gives
     the operand kinds, its (normalised) method body is classified as
        Fwd      one call `Trait::method(e1, e2)` / `self.method(e2)` / `self OP= e2; self` /
                 `*self = e1 OP e2`, e ∈ {self, other} × {val, &, *, .clone(), &*} × {as T}
        FwdComm  `if self.capacity()|len() >= other.… { call } else { call }`
        Chk…     the checked_* bodies, FoldShape the Sum/Product bodies
        Leaf     anything else (hand-written leaf — must be a leaf known to coq/model/Forms.v)
        Unknown  header or types the extractor does not understand (cannot pass `check_form`).
"""
import re, hashlib, os, json

SCALARS = ["u8", "u16", "u32", "u64", "u128", "usize", "i8", "i16", "i32", "i64", "i128", "isize"]
BIN = {"Add": "add", "Sub": "sub", "Mul": "mul", "Div": "div", "Rem": "rem", "BitAnd": "bitand",
       "BitOr": "bitor", "BitXor": "bitxor", "Shl": "shl", "Shr": "shr", "Pow": "pow"}
SYM = {"+": "Add", "-": "Sub", "*": "Mul", "/": "Div", "%": "Rem", "&": "BitAnd", "|": "BitOr",
       "^": "BitXor", "<<": "Shl", ">>": "Shr"}
CHECKED = {"CheckedAdd": ("checked_add", "Add"), "CheckedSub": ("checked_sub", "Sub"),
           "CheckedMul": ("checked_mul", "Mul"), "CheckedDiv": ("checked_div", "Div")}
FOLDS = {"Sum": ("sum", "Add"), "Product": ("product", "Mul")}
FILES = ["src/biguint.rs", "src/bigint.rs"] + \
        ["src/%s/%s.rs" % (d, f) for d in ("biguint", "bigint")
         for f in ("addition", "subtraction", "multiplication", "division", "power", "shift", "bits")]

# ------------------------------------------------------------------------------------ tokenizer
OPEN = {"(": ")", "[": "]", "{": "}"}

def tokenize(text):
    """Flat token list: ('id',s) ('lit',s) ('life',s) ('p',c) and group markers ('o',c) ('c',c)."""
    toks, i, n = [], 0, len(text)
    while i < n:
        c = text[i]
        if c.isspace():
            i += 1
        elif text.startswith("//", i):
            j = text.find("\n", i)
            i = n if j < 0 else j
        elif text.startswith("/*", i):
            j = text.find("*/", i + 2)
            i = n if j < 0 else j + 2
        elif c.isalpha() or c == "_":
            j = i + 1
            while j < n and (text[j].isalnum() or text[j] == "_"):
                j += 1
            w = text[i:j]
            if w in ("r", "br", "b") and j < n and text[j] in "\"#":     # raw / byte strings
                m = re.match(r'(?:b?r(#*)"(?:.|\n)*?"\1|b"(?:[^"\\]|\\.)*")', text[i:])
                if m:
                    toks.append(("lit", m.group(0)))
                    i += m.end()
                    continue
            toks.append(("id", w))
            i = j
        elif c.isdigit():
            j = i + 1
            while j < n and (text[j].isalnum() or text[j] == "_" or
                             (text[j] == "." and j + 1 < n and text[j + 1].isdigit())):
                j += 1
            toks.append(("lit", text[i:j]))
            i = j
        elif c == '"':
            j = i + 1
            while j < n and text[j] != '"':
                j += 2 if text[j] == "\\" else 1
            toks.append(("lit", text[i:j + 1]))
            i = j + 1
        elif c == "'":
            m = re.match(r"'(?:[^'\\]|\\(?:x[0-9a-fA-F]{2}|u\{[0-9a-fA-F]+\}|.))'", text[i:])
            if m:
                toks.append(("lit", m.group(0)))
                i += m.end()
            else:
                j = i + 1
                while j < n and (text[j].isalnum() or text[j] == "_"):
                    j += 1
                toks.append(("life", text[i:j]))
                i = j
        elif c in "([{":
            toks.append(("o", c))
            i += 1
        elif c in ")]}":
            toks.append(("c", c))
            i += 1
        else:
            toks.append(("p", c))
            i += 1
    return toks

def tree(toks):
    """Nest groups: a group is ('g', open_delim, [children])."""
    stack = [[]]
    delims = []
    for t in toks:
        if t[0] == "o":
            stack.append([])
            delims.append(t[1])
        elif t[0] == "c":
            if not delims or OPEN[delims[-1]] != t[1]:
                raise ValueError("unbalanced delimiter")
            ch = stack.pop()
            stack[-1].append(("g", delims.pop(), ch))
        else:
            stack[-1].append(t)
    if delims:
        raise ValueError("unclosed delimiter")
    return stack[0]

def render(ts):
    """Canonical text of a token-tree list (one space only between word-like tokens)."""
    out = []
    def word(t):
        return t[0] in ("id", "lit", "life")
    prev = None
    for t in ts:
        if t[0] == "g":
            s = t[1] + render(t[2]) + OPEN[t[1]]
        else:
            s = t[1]
        if prev is not None and word(prev) and word(t):
            out.append(" ")
        out.append(s)
        prev = t
    return "".join(out)

def is_p(t, c):
    return t is not None and t[0] == "p" and t[1] == c

def is_id(t, w=None):
    return t is not None and t[0] == "id" and (w is None or t[1] == w)

# ------------------------------------------------------------------------------- macro_rules engine
FRAGS = ("ident", "ty", "tt", "expr", "literal", "lifetime", "path", "pat", "stmt", "block", "item", "meta", "vis")

class NoMatch(Exception):
    pass

def parse_type(ts, i):
    """Greedy parse of a (simple) Rust type starting at ts[i]; returns end index or None."""
    n = len(ts)
    j = i
    while j < n and is_p(ts[j], "&"):
        j += 1
        if j < n and ts[j][0] == "life":
            j += 1
        if j < n and is_id(ts[j], "mut"):
            j += 1
    if j < n and ts[j][0] == "g" and ts[j][1] in "([":
        return j + 1
    if j < n and is_p(ts[j], "<"):          # qualified path <T as Tr>::X
        j = skip_angle(ts, j)
        if j is None:
            return None
    elif not (j < n and is_id(ts[j])):
        return None
    else:
        j += 1
    while True:
        if j < n and is_p(ts[j], "<"):
            k = skip_angle(ts, j)
            if k is None:
                return None
            j = k
        if j + 2 < n and is_p(ts[j], ":") and is_p(ts[j + 1], ":") and is_id(ts[j + 2]):
            j += 3
            continue
        return j

def skip_angle(ts, j):
    depth = 0
    n = len(ts)
    while j < n:
        if is_p(ts[j], "<"):
            depth += 1
        elif is_p(ts[j], ">"):
            if j > 0 and is_p(ts[j - 1], "-"):
                pass
            else:
                depth -= 1
                if depth == 0:
                    return j + 1
        elif is_p(ts[j], ";"):
            return None
        j += 1
    return None

def parse_pattern(ts):
    """Pattern/transcription token trees → list of nodes:
       ('tok',t) | ('grp',delim,[nodes]) | ('var',name,frag) | ('use',name) | ('rep',[nodes],sep,op)"""
    out, i, n = [], 0, len(ts)
    while i < n:
        t = ts[i]
        if is_p(t, "$") and i + 1 < n:
            nx = ts[i + 1]
            if nx[0] == "g" and nx[1] == "(":
                inner = parse_pattern(nx[2])
                j = i + 2
                sep = None
                if j < n and not (ts[j][0] == "p" and ts[j][1] in "*+?"):
                    sep = ts[j]
                    j += 1
                if not (j < n and ts[j][0] == "p" and ts[j][1] in "*+?"):
                    raise ValueError("bad repetition")
                out.append(("rep", inner, sep, ts[j][1]))
                i = j + 1
                continue
            if nx[0] == "id":
                if i + 3 < n and is_p(ts[i + 2], ":") and is_id(ts[i + 3]) and ts[i + 3][1] in FRAGS:
                    out.append(("var", nx[1], ts[i + 3][1]))
                    i += 4
                else:
                    out.append(("use", nx[1]))
                    i += 2
                continue
        if t[0] == "g":
            out.append(("grp", t[1], parse_pattern(t[2])))
        else:
            out.append(("tok", t))
        i += 1
    return out

def fix_uses(nodes, in_pattern):
    """In a pattern `$x:frag` is a binder; in a transcription `$x:ident`-looking text cannot occur,
    but `$imp::$method` must be read as uses.  parse_pattern is greedy for binders, so re-split."""
    out = []
    for nd in nodes:
        if nd[0] == "var" and not in_pattern:
            out += [("use", nd[1]), ("tok", ("p", ":")), ("tok", ("id", nd[2]))]
        elif nd[0] == "grp":
            out.append(("grp", nd[1], fix_uses(nd[2], in_pattern)))
        elif nd[0] == "rep":
            out.append(("rep", fix_uses(nd[1], in_pattern), nd[2], nd[3]))
        else:
            out.append(nd)
    return out

def match_nodes(nodes, ts, i, env):
    """Match pattern nodes against ts[i:]; returns the end index (no backtracking except in reps)."""
    for k, nd in enumerate(nodes):
        kind = nd[0]
        if kind == "tok":
            if i < len(ts) and ts[i] == nd[1]:
                i += 1
            else:
                raise NoMatch()
        elif kind == "grp":
            if i < len(ts) and ts[i][0] == "g" and ts[i][1] == nd[1]:
                e = match_nodes(nd[2], ts[i][2], 0, env)
                if e != len(ts[i][2]):
                    raise NoMatch()
                i += 1
            else:
                raise NoMatch()
        elif kind == "var":
            name, frag = nd[1], nd[2]
            if frag in ("ident",):
                if i < len(ts) and ts[i][0] == "id":
                    env[name] = [ts[i]]
                    i += 1
                else:
                    raise NoMatch()
            elif frag in ("ty", "path"):
                e = parse_type(ts, i)
                if e is None:
                    raise NoMatch()
                env[name] = ts[i:e]
                i = e
            elif frag in ("tt", "literal", "lifetime"):
                if i < len(ts):
                    env[name] = [ts[i]]
                    i += 1
                else:
                    raise NoMatch()
            elif frag == "item":
                j = i
                while j + 1 < len(ts) and is_p(ts[j], "#") and ts[j + 1][0] == "g":
                    j += 2
                st = j
                while j < len(ts) and not (ts[j][0] == "g" and ts[j][1] == "{") and not is_p(ts[j], ";"):
                    j += 1
                if j >= len(ts):
                    raise NoMatch()
                j += 1
                if j < len(ts) and is_p(ts[j], ";") and st < len(ts) and ts[st][0] == "id" and ts[st][1] in ("const", "static"):
                    j += 1
                env[name] = ts[i:j]
                i = j
            elif frag == "expr":
                # up to the next top-level `,` or `;` or `=>` (enough for this crate)
                j = i
                while j < len(ts) and not (ts[j][0] == "p" and ts[j][1] in ",;"):
                    j += 1
                if j == i:
                    raise NoMatch()
                env[name] = ts[i:j]
                i = j
            else:
                raise NoMatch()
        elif kind == "rep":
            inner, sep, op = nd[1], nd[2], nd[3]
            reps = []
            first = True
            while True:
                j = i
                if not first and sep is not None:
                    if j < len(ts) and ts[j] == sep:
                        j += 1
                    else:
                        break
                sub = {}
                try:
                    e = match_nodes(inner, ts, j, sub)
                except NoMatch:
                    break
                if e == j:
                    break
                reps.append(sub)
                i = e
                first = False
                if op == "?":
                    break
            if op == "+" and not reps:
                raise NoMatch()
            names = binders(inner)
            for nm in names:
                env[nm] = ("reps", [r.get(nm) for r in reps])
        else:
            raise NoMatch()
    return i

def binders(nodes):
    out = []
    for nd in nodes:
        if nd[0] == "var":
            out.append(nd[1])
        elif nd[0] == "grp":
            out += binders(nd[2])
        elif nd[0] == "rep":
            out += binders(nd[1])
    return out

def uses(nodes):
    out = []
    for nd in nodes:
        if nd[0] == "use":
            out.append(nd[1])
        elif nd[0] == "grp":
            out += uses(nd[2])
        elif nd[0] == "rep":
            out += uses(nd[1])
    return out

def transcribe(nodes, env):
    out = []
    for nd in nodes:
        if nd[0] == "tok":
            out.append(nd[1])
        elif nd[0] == "grp":
            out.append(("g", nd[1], transcribe(nd[2], env)))
        elif nd[0] == "use":
            v = env.get(nd[1])
            if v is None or (isinstance(v, tuple) and v and v[0] == "reps"):
                raise NoMatch()
            out += v
        elif nd[0] == "rep":
            names = [u for u in uses(nd[1]) if isinstance(env.get(u), tuple) and env[u][0] == "reps"]
            if not names:
                raise NoMatch()
            cnt = len(env[names[0]][1])
            for k in range(cnt):
                sub = dict(env)
                for nm in names:
                    sub[nm] = env[nm][1][k]
                if k and nd[2] is not None:
                    out.append(nd[2])
                out += transcribe(nd[1], sub)
    return out

def parse_macro_def(body_group):
    """`{ (pat) => {body}; … }` → list of (pattern nodes, transcription nodes)."""
    ts = body_group[2]
    rules, i = [], 0
    while i < len(ts):
        if is_p(ts[i], ";"):
            i += 1
            continue
        if not (ts[i][0] == "g" and i + 3 < len(ts) + 0 and is_p(ts[i + 1], "=") and is_p(ts[i + 2], ">") and ts[i + 3][0] == "g"):
            raise ValueError("bad macro rule")
        rules.append((fix_uses(parse_pattern(ts[i][2]), True), fix_uses(parse_pattern(ts[i + 3][2]), False)))
        i += 4
    return rules

def collect_macros(ts, table):
    """Find `macro_rules! name {…}` at any depth of the item tree (not inside macro bodies)."""
    i = 0
    while i < len(ts):
        if is_id(ts[i], "macro_rules") and i + 3 < len(ts) + 0 and is_p(ts[i + 1], "!") and is_id(ts[i + 2]) and ts[i + 3][0] == "g":
            try:
                table[ts[i + 2][1]] = parse_macro_def(ts[i + 3])
            except (ValueError, IndexError):
                table[ts[i + 2][1]] = None          # unparsable macro: invocations become Unknown
            i += 4
            continue
        i += 1

def expand_items(ts, macros, unknown, depth=0):
    """Expand every item-position invocation `name!(…)`/`name!{…}` of a macro in `macros`."""
    out, i = [], 0
    while i < len(ts):
        t = ts[i]
        if is_id(t, "macro_rules") and i + 3 < len(ts) and is_p(ts[i + 1], "!"):
            i += 4
            continue
        if is_id(t) and i + 2 < len(ts) and is_p(ts[i + 1], "!") and ts[i + 2][0] == "g" and t[1] in macros:
            rules = macros[t[1]]
            args = ts[i + 2][2]
            res = None
            if rules is not None and depth < 12:
                for pat, body in rules:
                    env = {}
                    try:
                        e = match_nodes(pat, args, 0, env)
                        if e != len(args):
                            continue
                        res = transcribe(body, env)
                        break
                    except NoMatch:
                        continue
            if res is None:
                unknown.append((t[1], render(args)[:120]))
            else:
                out += expand_items(res, macros, unknown, depth + 1)
            i += 3
            if i < len(ts) and is_p(ts[i], ";"):
                i += 1
            continue
        out.append(t)
        i += 1
    return out

# --------------------------------------------------------------------------------------- impl items
def find_impls(ts):
    """Top-level `impl … { … }` items → (header tokens, body group, attrs text)."""
    out, i = [], 0
    attrs = []
    while i < len(ts):
        t = ts[i]
        if is_p(t, "#") and i + 1 < len(ts) and ts[i + 1][0] == "g":
            attrs.append(render(ts[i + 1][2]))
            i += 2
            continue
        if is_id(t, "impl"):
            j = i + 1
            while j < len(ts) and not (ts[j][0] == "g" and ts[j][1] == "{"):
                j += 1
            if j < len(ts):
                out.append((ts[i + 1:j], ts[j], list(attrs)))
            attrs = []
            i = j + 1
            continue
        if t[0] == "g" or is_p(t, ";"):
            attrs = []
        i += 1
    return out

def find_fns(body_ts):
    """fns directly in an impl body (descending into cfg_digit!(…)-style wrappers): name → [(params, ret, body)]."""
    out = []
    def walk(ts):
        i = 0
        while i < len(ts):
            t = ts[i]
            if is_id(t, "fn") and i + 2 < len(ts) and is_id(ts[i + 1]):
                name = ts[i + 1][1]
                j = i + 2
                if j < len(ts) and is_p(ts[j], "<"):
                    j = skip_angle(ts, j) or j
                params = ts[j] if j < len(ts) and ts[j][0] == "g" else None
                k = j + 1
                while k < len(ts) and not (ts[k][0] == "g" and ts[k][1] == "{") and not is_p(ts[k], ";"):
                    k += 1
                if params is not None and k < len(ts) and ts[k][0] == "g":
                    out.append((name, params[2], ts[j + 1:k], ts[k][2]))
                i = k + 1
                continue
            if is_id(t) and i + 2 < len(ts) and is_p(ts[i + 1], "!") and ts[i + 2][0] == "g":
                walk(ts[i + 2][2])
                i += 3
                continue
            i += 1
    walk(body_ts)
    return out

class Ctx:
    def __init__(self, aliases):
        self.aliases = aliases

def kind_of(ts, ctx):
    """Operand type tokens → (coq okind text, name text) or None."""
    s = render(ts)
    ref = False
    if s.startswith("&"):
        ref = True
        s = s[1:]
        if s.startswith("&") or s.startswith("mut "):
            return None
    s = ctx.aliases.get(s, s)
    if s in ("BigUint", "BigInt"):
        return ("(kb %s %s)" % ("FamU" if s == "BigUint" else "FamI", "true" if ref else "false"), ("r" if ref else "") + s, s, ref)
    if s in SCALARS:
        return ("(ks T%s %s)" % (s, "true" if ref else "false"), ("r" if ref else "") + s, s, ref)
    return None

def split_args(ts):
    """Split a token list at top-level commas."""
    out, cur = [], []
    for t in ts:
        if is_p(t, ","):
            out.append(cur)
            cur = []
        else:
            cur.append(t)
    if cur:
        out.append(cur)
    return out

def aexp(s, pnames, ctx, moved=None):
    """Normalised argument text → coq `aexp` or None.  pnames = (self name, other name)."""
    cast = None
    m = re.fullmatch(r"(.+) as (\w+)", s)
    if m:
        s, cast = m.group(1), ctx.aliases.get(m.group(2), m.group(2))
        if cast not in SCALARS:
            return None
    mod = "MVal"
    if s.startswith("&*"):
        mod, s = "MReborrow", s[2:]
    elif s.startswith("&"):
        mod, s = "MRef", s[1:]
    elif s.startswith("*"):
        mod, s = "MDeref", s[1:]
    if s.endswith(".clone()"):
        if mod != "MVal":
            return None
        mod, s = "MClone", s[:-8]
    if s == pnames[0] or (moved is not None and s == moved):
        src = "ASelf"
    elif s == pnames[1]:
        src = "AOther"
    else:
        return None
    return "(ax %s %s %s)" % (src, mod, "None" if cast is None else "(Some T%s)" % cast)

OPS_RE = r"(<<|>>|[-+*/%&|^])"

def classify(role, op, method, params, body, ctx):
    """Body classification → coq shape text."""
    ps = split_args(params)
    if len(ps) != 2:
        return "SLeaf"
    p0 = render(ps[0])
    if p0 not in ("self", "mut self", "&mut self", "&self"):
        return "(SUnknown 3)"
    m = re.fullmatch(r"(?:mut )?(\w+):.*", render(ps[1]))
    if not m:
        return "(SUnknown 4)"
    pn = ("self", m.group(1))
    b = render(body)
    def call2(txt, moved=None):
        """`Trait::method(e1,e2)` or `self.method(e2)` → (role, op, a1, a2) or None"""
        mm = re.fullmatch(r"(\w+)::(\w+)\((.*)\)", txt)
        if mm:
            tr, me = mm.group(1), mm.group(2)
            args = [render(a) for a in split_args(tree(tokenize(mm.group(3))))]
            if len(args) != 2:
                return None
        else:
            mm = re.fullmatch(r"self\.(\w+)\((.*)\)", txt)
            if not mm:
                return None
            me = mm.group(1)
            tr = None
            args = ["self"] + [render(a) for a in split_args(tree(tokenize(mm.group(2))))]
            if len(args) != 2:
                return None
        trole, top = None, None
        for t, mth in BIN.items():
            if me == mth and tr in (None, t):
                trole, top = "RBinop", "Op" + t
            if me == mth + "_assign" and tr in (None, t + "Assign"):
                trole, top = "RAssign", "Op" + t
        if top is None:
            return None
        a1, a2 = aexp(args[0], pn, ctx, moved), aexp(args[1], pn, ctx, moved)
        if a1 is None or a2 is None:
            return None
        return (trole, top, a1, a2)
    if role in ("Binop", "Assign"):
        txt = b[:-1] if b.endswith(";") else b
        c = call2(txt)
        if c:
            return "(SFwd %s %s %s %s)" % c
        mm = re.fullmatch(r"if self\.(capacity|len)\(\)>=%s\.\1\(\)\{(.*)\}else\{(.*)\}" % pn[1], b)
        if mm:
            c1, c2 = call2(mm.group(2)), call2(mm.group(3))
            if c1 and c2:
                return "(SFwdComm %s %s %s %s %s %s %s %s)" % (c1 + c2)
            return "(SUnknown 5)"
        if role == "Binop":
            # `self OP= e; self`
            mm = re.fullmatch(r"self" + OPS_RE + r"=([^;]+);self", b)
            if mm and p0 == "mut self":
                a2 = aexp(mm.group(2), pn, ctx)
                if a2:
                    return "(SFwd RAssign Op%s (ax ASelf MVal None) %s)" % (SYM[mm.group(1)], a2)
        if role == "Assign":
            # `*self = e1 OP e2;`  /  `let n = mem::replace(self, Self::ZERO); *self = n OP e2;`  /  `*self OP= e2;`
            moved = None
            t2 = b
            mm = re.fullmatch(r"let (\w+)=mem::replace\(self,Self::ZERO\);(.*)", b)
            if mm:
                moved, t2 = mm.group(1), mm.group(2)
            mm = re.fullmatch(r"\*self=(&\*self|\w+)" + OPS_RE + r"([^;]+);?", t2)
            if mm and (mm.group(1) == "&*self" or mm.group(1) == moved):
                a1 = aexp(mm.group(1), pn, ctx, moved)
                a2 = aexp(mm.group(3), pn, ctx, moved)
                if a1 and a2:
                    return "(SFwd RBinop Op%s %s %s)" % (SYM[mm.group(2)], a1, a2)
            mm = re.fullmatch(r"\*self" + OPS_RE + r"=([^;]+);?", b)
            if mm:
                a2 = aexp(mm.group(2), pn, ctx)
                if a2:
                    return "(SFwd RAssign Op%s (ax ASelf MVal None) %s)" % (SYM[mm.group(1)], a2)
        return "SLeaf"
    if role == "Checked":
        mth = BIN[op]
        if b == "Some(self.%s(%s))" % (mth, pn[1]):
            return "SChkSome"
        if b == "if %s.is_zero(){return None;}Some(self.%s(%s))" % (pn[1], mth, pn[1]):
            return "SChkNonZero"
        return "SLeaf"
    return "(SUnknown 6)"

def extract(src):
    rep = {}
    code_lib = src.code("src/lib.rs")
    aliases = {}
    for nm in ("UsizePromotion", "IsizePromotion"):
        m = re.search(r'#\[cfg\(target_pointer_width\s*=\s*"64"\)\]\s*type\s+%s\s*=\s*(\w+)\s*;' % nm, code_lib)
        aliases[nm] = m.group(1) if m else "unknown_alias"
        if not m:
            rep.setdefault("anchor_missing", []).append(nm)
    ctx = Ctx(aliases)
    gmacros = {}
    collect_macros(tree(tokenize(src.read("src/macros.rs"))), gmacros)
    rep["global_macros"] = len(gmacros)
    rows, seen, ignored, unknown_inv = [], {}, [], []
    leaf_hashes = {}
    files = [f for f in src.all_files() if f in FILES]
    for f in FILES:
        if f not in files:
            rep.setdefault("anchor_missing", []).append(f)
    # operator impls outside the expected files are reported (and fail closed below)
    for rel in src.all_files():
        try:
            ts = tree(tokenize(src.read(rel)))
        except ValueError as e:
            rep.setdefault("untokenizable", []).append(rel)
            if rel in FILES:
                rows.append(("Unknown.%s" % rel, "mkForm RBinop OpAdd (kb FamU false) (kb FamU false) (SUnknown 1)"))
            continue
        macros = dict(gmacros)
        if rel != "src/macros.rs":
            collect_macros(ts, macros)
        unk = []
        items = expand_items(ts, macros, unk)
        for (nm, args) in unk:
            unknown_inv.append("%s:%s!(%s)" % (rel, nm, args))
            if re.search(r"\b(Add|Sub|Mul|Div|Rem|BitAnd|BitOr|BitXor|Shl|Shr|Pow)(Assign)?\b", args) or rel in FILES:
                rows.append(("Unknown.%s.%d" % (nm, len(rows)), "mkForm RBinop OpAdd (kb FamU false) (kb FamU false) (SUnknown 2)"))
        for hdr, body, attrs in find_impls(items):
            h = list(hdr)
            generic = False
            if h and is_p(h[0], "<"):
                e = skip_angle(h, 0)
                if e is None:
                    continue
                generic = True
                h = h[e:]
            # split at `for`
            k = next((i for i, t in enumerate(h) if is_id(t, "for")), None)
            if k is None:
                continue
            tr = h[:k]
            rest = h[k + 1:]
            w = next((i for i, t in enumerate(rest) if is_id(t, "where")), None)
            selft = rest if w is None else rest[:w]
            if not tr or not is_id(tr[0]):
                continue
            trait = tr[0][1]
            targs = tr[1:]
            if targs and is_p(targs[0], "<") and is_p(targs[-1], ">"):
                rhs_t = targs[1:-1]
            elif not targs:
                rhs_t = None
            else:
                continue
            role = op = None
            if trait in BIN:
                role, op, method = "Binop", trait, BIN[trait]
            elif trait.endswith("Assign") and trait[:-6] in BIN:
                role, op, method = "Assign", trait[:-6], BIN[trait[:-6]] + "_assign"
            elif trait in CHECKED:
                role, op, method = "Checked", CHECKED[trait][1], CHECKED[trait][0]
            elif trait in FOLDS:
                role, op, method = "Fold", FOLDS[trait][1], FOLDS[trait][0]
            else:
                if trait in ("Neg", "Not", "CheckedEuclid", "Euclid", "Roots", "Integer"):
                    ignored.append("%s for %s" % (render(tr), render(selft)))
                continue
            sk = kind_of(selft, ctx)
            if sk is None or (sk[2] in SCALARS and rel not in FILES):
                if render(selft) in ("Sign",):
                    ignored.append("%s for %s" % (render(tr), render(selft)))
                    continue
            cfgs = [a for a in attrs if a.startswith("cfg") and a != 'cfg(target_pointer_width="64")']
            if 'cfg(not(target_pointer_width="64"))' in cfgs:
                continue
            fns = [fn for fn in find_fns(body[2]) if fn[0] == method]
            if role == "Fold":
                name = "%s.%s.T" % (trait, sk[1] if sk else "?")
                shape = "(SUnknown 7)"
                if sk and generic and rhs_t is not None and render(rhs_t) == "T" and len(fns) == 1:
                    b = render(fns[0][3])
                    mm = re.fullmatch(r"iter\.fold\((Self::ZERO|One::one\(\)),<(\w+)>::(\w+)\)", b)
                    if mm and mm.group(2) == sk[2]:
                        fop = next((t for t, mth in BIN.items() if mth == mm.group(3)), None)
                        if fop:
                            shape = "(SFold %s Op%s)" % ("0" if mm.group(1) == "Self::ZERO" else "1", fop)
                row = "mkForm RFold Op%s %s %s %s" % (op, sk[0] if sk else "(kb FamU false)", sk[0] if sk else "(kb FamU false)", shape)
                rows.append((name, row))
                continue
            if role == "Checked":
                rk = (sk[0].replace("false", "true"), "-") if sk else None
            else:
                rk = kind_of(rhs_t, ctx) if rhs_t is not None else sk
            name = "%s.%s.%s" % (trait, sk[1] if sk else "X" + hashlib.sha1(render(selft).encode()).hexdigest()[:6],
                                 rk[1] if rk else "X" + hashlib.sha1(render(rhs_t or []).encode()).hexdigest()[:6])
            if sk is None or rk is None or cfgs or generic or rel not in FILES:
                shape = "(SUnknown 8)"
            elif not fns:
                shape = "(SUnknown 9)"
            else:
                # with cfg_digit!(fn32 fn64) the LAST definition is the 64-bit one
                fn = fns[-1]
                shape = classify(role, op, method, fn[1], fn[3], ctx)
                if shape == "SLeaf":
                    leaf_hashes[name] = hashlib.sha256(render(fn[3]).encode()).hexdigest()[:12]
            lk = sk[0] if sk else "(kb FamU false)"
            if role == "Checked" and sk:
                lk = sk[0].replace("false", "true")          # checked_*(&self, &v)
            row = "mkForm R%s Op%s %s %s %s" % (role, op, lk, rk[0] if rk else "(kb FamU false)", shape)
            if name in seen:
                row = "mkForm R%s Op%s %s %s (SUnknown 10)" % (role, op, lk, rk[0] if rk else "(kb FamU false)")
                rep.setdefault("duplicate_impls", []).append(name)
            seen[name] = True
            rows.append((name, row))
    rows.sort(key=lambda r: r[0])
    text = "Definition forms : list form := [\n  " + ";\n  ".join(r[1] for r in rows) + "\n].\n"
    text += "Definition forms_count : Z := %d.\n" % len(rows)
    rep["forms"] = len(rows)
    shapes = {}
    for nme, r in rows:
        k = re.sub(r"^mkForm \w+ \w+ \([^)]*\) \([^)]*\) ", "", r).lstrip("(").split(" ")[0].rstrip(")")[1:]
        shapes[k] = shapes.get(k, 0) + 1
    rep["shapes"] = shapes
    rep["unknown_invocations"] = unknown_inv[:20]
    rep["ignored_operator_impls"] = sorted(set(ignored))
    # drift sentinel (DESIGN 3-C): hand-written leaf bodies against the hashes the leaf models were
    # written against; a changed hash is reported, it is not a violation
    pin_path = os.path.join(os.path.dirname(os.path.abspath(__file__)), "forms_leaves.json")
    if os.environ.get("VERIF_PIN_LEAF_HASHES"):
        with open(pin_path, "w") as f:
            json.dump(leaf_hashes, f, indent=0, sort_keys=True)
    try:
        pinned = json.load(open(pin_path))
    except Exception:
        pinned = None
    if pinned is None:
        rep["leaf_drift"] = "no pin file"
    else:
        rep["leaf_drift"] = sorted(n for n in set(pinned) | set(leaf_hashes) if pinned.get(n) != leaf_hashes.get(n))[:40]
    rep["leaves"] = len(leaf_hashes)
    rep["names_sha"] = hashlib.sha256("+".join(r[0] for r in rows).encode()).hexdigest()[:16]
    return ["Base", "Forms"], text, rep
