"""C06 — text and radix conversions.

Values: 0, one digit, 63/64/65 and ~130 u64 digits (the `digits.data.len() >= 64` big-base
threshold of to_radix_digits_le), multiples of base^k / big_base^k (long zero runs in the
output, `digits == big_base` boundary), radix^k and radix^k ± 1; every radix 2..=36 (text)
and 2..=256 (digit vectors) including the power-of-two radices whose width divides 64
(2, 4, 16, 256) and does not (8, 32, 64, 128).  Inputs: emitted text mutated by case flips,
underscores (leading / trailing / doubled), leading zeros, sign permutations, invalid
characters, empty, non-ASCII and non-UTF-8 bytes; digit slices at every residue of the chunk
size, with a digit == radix, > radix, radix 256 with 0xff, bad radices.  Formatters: the
cross product of `+ # 0`, fill/align, width × 5 formatters × signs."""
from genlib import *
import math

THEOREMS = ["C06_radix_bases_ok", "C06_from_radix_le", "C06_from_radix_be", "C06_ifrom_radix_le", "C06_ifrom_radix_be", "C06_from_str_radix", "C06_ifrom_str_radix", "C06_from_str", "C06_parse_bytes", "C06_to_radix_le", "C06_to_radix_be", "C06_ito_radix_le", "C06_to_str", "C06_ito_str", "C06_to_str_ascii_spec", "C06_to_str_ascii", "C06_fmt_u", "C06_fmt_i", "C06_str_roundtrip_spec", "C06_roundtrip", "C06_iroundtrip", "C06_radix_roundtrip", "C06_from_radix_digits_be", "C06_to_radix_digits_le"]
RULE = "non-trivial: value or slice with >= 2 u64 digits / >= 20 small digits, or a rejected/malformed input"

MAX = (1 << 64) - 1
DIGITS = "0123456789abcdefghijklmnopqrstuvwxyz"
POW2_EXACT = [2, 4, 16, 256]
POW2_INEXACT = [8, 32, 64, 128]

def is_pow2(r):
    return r > 0 and r & (r - 1) == 0

def radix_base(r):
    base, power = r, 1
    while base * r <= MAX:
        base *= r
        power += 1
    return base, power

def ndig(v):
    return (v.bit_length() + 63) // 64

def big_base_for(r, ulen):
    """big_base, big_power as to_radix_digits_le computes them for an operand of ulen digits."""
    base, power = radix_base(r)
    bb, bp = base, 1
    target = math.isqrt(ulen)
    while ndig(bb) < target:
        bb, bp = bb * bb, bp * 2
    return bb, bp

def to_digits_radix(v, r):
    out = []
    while v:
        out.append(v % r)
        v //= r
    return out            # little-endian, [] for 0

def to_str(v, r):
    if v == 0:
        return "0"
    s = "".join(DIGITS[d] for d in reversed(to_digits_radix(abs(v), r)))
    return ("-" if v < 0 else "") + s

def rand_len_value(rng, nd):
    return val(rand_digits(rng, nd))

def values_small(rng, r):
    """boundary values for radix r (small: up to ~3 u64 digits)"""
    base, power = radix_base(r) if not is_pow2(r) else (r, 1)
    vs = [0, 1, r - 1, r, r + 1, base - 1, base, base + 1, MAX, MAX + 1, base * base, base * base - 1]
    k = rng.randrange(2, 70)
    vs += [r ** k, r ** k - 1, r ** k + 1]
    k = rng.choice([62, 63, 64])                 # 63 / 64 / 65 output digits
    vs += [r ** k, r ** (k + 1) - 1, r ** k + rng.randrange(r ** k)]
    vs += [rand_len_value(rng, rng.choice([1, 2, 3, 5]))]
    return vs

def values_big(rng, r, tier):
    """values around the 64-digit threshold and on the big-base path"""
    out = []
    for nd in (63, 64, 65):
        out.append(rand_len_value(rng, nd))
    out.append((1 << (64 * 63)) - 1)          # 63 digits all ones
    out.append(1 << (64 * 63))                # 64 digits: 1 followed by zeros
    if not is_pow2(r):
        bb, bp = big_base_for(r, 72)
        k = 1
        while ndig(bb ** k) < 66:
            k += 1
        for v in (bb ** k, bb ** k - 1, bb ** k + 1, bb ** k * rng.randrange(1, r) + rng.randrange(r)):
            if ndig(v) >= 64 and big_base_for(r, ndig(v))[0] == bb:
                out.append(v)
        base, power = radix_base(r)
        out.append(base ** rng.randrange(70, 90) * rng.randrange(1, 1 << 64))      # zero run
    out.append(rand_len_value(rng, 130 if tier != "thorough" else rng.choice([130, 200, 300])))
    return out

def mutate(rng, s, r):
    """one mutation of a valid text"""
    k = rng.randrange(14)
    body = s.lstrip("+-")
    sign = s[:len(s) - len(body)]
    if not body:
        return s + rng.choice(["", "_", "+", "-", "0"])
    if k == 0:      # case flips
        return sign + "".join(c.upper() if rng.random() < 0.5 else c for c in body)
    if k == 1:      # underscore inside
        i = rng.randrange(1, len(body) + 1)
        return sign + body[:i] + "_" + body[i:]
    if k == 2:      # leading underscore (invalid)
        return sign + "_" + body
    if k == 3:      # trailing / doubled underscores
        return sign + body[:1] + "__" + body[1:] + "_"
    if k == 4:      # leading zeros
        return sign + "0" * rng.randrange(1, 70) + body
    if k == 5:      # sign permutations
        return rng.choice(["+", "-", "++", "+-", "-+", "--", "+_", "-_", "+0", "-0", "-00", "+_0", "-+0"]) + body
    if k == 6:      # invalid character somewhere
        i = rng.randrange(len(body) + 1)
        c = rng.choice([" ", ".", "/", ":", "@", "[", "`", "{", "~", "\t", "\n", "+", "-", DIGITS[r] if r < 36 else "!", "é", "٣", "\x00"])
        return sign + body[:i] + c + body[i:]
    if k == 7:      # digit == radix / radix upper-case
        if r < 36:
            i = rng.randrange(len(body) + 1)
            return sign + body[:i] + rng.choice([DIGITS[r], DIGITS[r].upper()]) + body[i:]
        return sign + body
    if k == 8:      # only sign / empty / only underscores
        return rng.choice(["", "+", "-", "_", "__", "+_", "-_", "+-", "-+", "++", "--", " ", "0", "-0", "+0", "00", "0_", "0_0"])
    if k == 9:      # whitespace around
        return rng.choice([" " + s, s + " ", s + "\n"])
    if k == 10:     # upper-case all
        return s.upper()
    if k == 11:     # plus sign on a valid body
        return "+" + body
    if k == 12:     # minus sign on a valid body
        return "-" + body
    return s

FILLS = [32, 42, 48, 95]        # ' ', '*', '0', '_'

def fmt_token(kind, plus, alt, zero, width, fill, align):
    flags = ("p" if plus else "") + ("a" if alt else "") + ("z" if zero else "") or "-"
    return T("%s.%s.%d.%d.%s" % (kind, flags, width, fill, align))

def generate(rng, tier):
    cases = []
    thorough = tier == "thorough"
    # ------------------------------------------------------------------ hooks: base table
    for r in range(0, 260):
        cases.append("h.get_radix_base %s" % N(r))
    # ------------------------------------------------------------------ to_radix / to_str, all radices, small values
    for r in range(2, 257):
        vs = values_small(rng, r)
        picks = vs if thorough else [vs[0]] + rng.sample(vs[1:], 4)
        for v in picks:
            op = rng.choice(["u.to_radix_le", "u.to_radix_be"])
            cases.append("%s %s %s" % (op, U(v), N(r)))
        v = rng.choice(vs)
        cases.append("u.rt_radix_le %s %s" % (U(v), N(r)))
        cases.append("i.to_radix_%s %s %s" % (rng.choice(["le", "be"]), I(rng.choice([-1, 1]) * rng.choice(vs)), N(r)))
        if not is_pow2(r) and 3 <= r < 256:
            nz = [x for x in vs if x]
            cases.append("h.to_radix_digits_le %s %s" % (U(rng.choice(nz)), N(r)))
    for r in range(2, 37):
        vs = values_small(rng, r)
        for v in vs if thorough else [0] + rng.sample(vs[1:], 5):
            cases.append("u.to_str %s %s" % (U(v), N(r)))
            cases.append("i.to_str %s %s" % (I(-v), N(r)))
        cases.append("u.rt_str %s %s" % (U(rng.choice(vs)), N(r)))
        cases.append("i.rt_str %s %s" % (I(-rng.choice(vs)), N(r)))
    # ------------------------------------------------------------------ big values (threshold, big-base path)
    big_radices = [3, 10, 36, 255, 7, 100] + POW2_EXACT + POW2_INEXACT
    big_radices += rng.sample([r for r in range(3, 256) if not is_pow2(r)], 20 if thorough else 4)
    for r in big_radices:
        for v in values_big(rng, r, tier):
            k = rng.random()
            if r <= 36 and k < 0.35:
                cases.append("u.to_str %s %s" % (U(v), N(r)))
            elif r <= 36 and k < 0.5:
                cases.append("i.rt_str %s %s" % (I(-v), N(r)))
            elif k < 0.6 and not is_pow2(r):
                cases.append("h.to_radix_digits_le %s %s" % (U(v), N(r)))
            elif k < 0.7:
                cases.append("u.rt_radix_be %s %s" % (U(v), N(r)))
            else:
                cases.append("u.to_radix_le %s %s" % (U(v), N(r)))
    # ------------------------------------------------------------------ from_radix: digit slices
    for r in list(range(2, 257)):
        base, power = radix_base(r) if not is_pow2(r) else (r, 64 // max(1, r.bit_length() - 1) or 1)
        lens = [0, 1, 2, power - 1, power, power + 1, 2 * power, 2 * power + 1, 3 * power - 1]
        lens = [l for l in lens if l >= 0]
        for l in (lens if thorough else rng.sample(lens, 3)) + [rng.randrange(1, 200)]:
            ds = [rng.randrange(r) for _ in range(l)]
            k = rng.random()
            if k < 0.15 and l:
                z0 = rng.randrange(1, l + 1)             # zeros at the most significant end
                ds = ds[:l - z0] + [0] * z0
            elif k < 0.25 and l:
                ds = [0] * l
            elif k < 0.35 and l:
                ds = [r - 1] * l
            elif k < 0.45 and l > 3:                     # zero chunks inside (data.last() == 0 path)
                i = rng.randrange(l)
                ds[i:i + power] = [0] * len(ds[i:i + power])
            end = rng.choice(["le", "be"])
            cases.append("u.from_radix_%s %s %s" % (end, Bytes(ds), N(r)))
            if not is_pow2(r) and l and rng.random() < 0.4:
                cases.append("h.from_radix_digits_be %s %s" % (Bytes(ds), N(r)))
        # invalid digits
        if r < 256:
            l = rng.randrange(1, 3 * power + 2)
            ds = [rng.randrange(r) for _ in range(l)]
            ds[rng.randrange(l)] = rng.choice([r, r, min(255, r + 1), 255, rng.randrange(r, 256)])
            cases.append("u.from_radix_%s %s %s" % (rng.choice(["le", "be"]), Bytes(ds), N(r)))
        if rng.random() < 0.3:
            l = rng.randrange(0, 2 * power + 2)
            ds = [rng.randrange(r) for _ in range(l)]
            s = rng.choice(["z:-1", "z:0", "z:1"])
            cases.append("i.from_radix_%s %s %s %s" % (rng.choice(["le", "be"]), s, Bytes(ds), N(r)))
    for _ in range(12):
        l = rng.randrange(1, 40)
        cases.append("u.from_radix_%s %s %s" % (rng.choice(["le", "be"]), Bytes([rng.choice([255, 255, 0, rng.randrange(256)]) for _ in range(l)]), N(256)))
    for r in (0, 1, 257, 258, 1000, 65536, (1 << 32) - 1):
        cases.append("u.from_radix_le %s %s" % (Bytes([0, 1]), N(r)))
        cases.append("u.from_radix_be %s %s" % (Bytes([]), N(r)))
        cases.append("i.from_radix_be z:1 %s %s" % (Bytes([1]), N(r)))
        cases.append("u.from_str_radix %s %s" % (T("1"), N(r)))
        cases.append("i.from_str_radix %s %s" % (T("-1"), N(r)))
        cases.append("u.from_str_radix %s %s" % (T(""), N(r)))
        cases.append("u.to_str %s %s" % (U(5), N(r)))
        cases.append("u.to_str %s %s" % (U(0), N(r)))
        cases.append("i.to_str %s %s" % (I(-5), N(r)))
        cases.append("u.parse_bytes %s %s" % (Bytes(b"1"), N(r)))
        cases.append("u.parse_bytes %s %s" % (Bytes(b"\xff"), N(r)))       # not UTF-8: None before the assert
        cases.append("i.parse_bytes %s %s" % (Bytes(b"\xc3\xa9"), N(r)))   # valid UTF-8: reaches the assert
    for r in (37, 64, 255, 256):
        cases.append("u.to_str %s %s" % (U(5), N(r)))
        cases.append("u.from_str_radix %s %s" % (T("10"), N(r)))
    # large slices: zero runs, 64-digit results
    for r in [3, 10, 36, 255] + POW2_EXACT + POW2_INEXACT:
        v = rand_len_value(rng, rng.choice([63, 64, 65, 100]))
        ds = to_digits_radix(v, r) + [0] * rng.randrange(0, 3)
        cases.append("u.from_radix_le %s %s" % (Bytes(ds), N(r)))
        cases.append("u.from_radix_be %s %s" % (Bytes(list(reversed(ds))), N(r)))
        if not is_pow2(r):
            base, power = radix_base(r)
            ds2 = to_digits_radix(v * base ** 5, r)
            cases.append("h.from_radix_digits_be %s %s" % (Bytes(list(reversed(ds2))), N(r)))
    # ------------------------------------------------------------------ from_str_radix: valid and mutated text
    nstr = 260 if thorough else 40
    for r in range(2, 37):
        base, power = radix_base(r) if not is_pow2(r) else (r, 8)
        for j in range(nstr):
            k = rng.random()
            if k < 0.5:
                v = rng.choice(values_small(rng, r))
            elif k < 0.9:
                l = rng.choice([1, power - 1, power, power + 1, 2 * power, 2 * power + 1, rng.randrange(1, 5 * power)])
                v = rng.randrange(r ** max(l, 1))
            else:
                v = rand_len_value(rng, rng.choice([3, 8, 20]))
            signed = rng.random() < 0.5
            if signed and rng.random() < 0.5:
                v = -v
            s = to_str(v, r)
            if rng.random() < 0.75:
                s = mutate(rng, s, r)
                if rng.random() < 0.2:
                    s = mutate(rng, s, r)
            k2 = rng.random()
            if k2 < 0.4:
                cases.append("u.from_str_radix %s %s" % (T(s), N(r)))
            elif k2 < 0.8:
                cases.append("i.from_str_radix %s %s" % (T(s), N(r)))
            elif k2 < 0.9:
                cases.append("%s.parse_bytes %s %s" % (rng.choice("ui"), Bytes(s.encode()), N(r)))
            else:
                cases.append("%s.from_str %s" % (rng.choice("ui"), T(s)))
    # the corner rules by name
    for s in ["+_1", "-+1", "++1", "+", "-", "", "-0", "+0", "0", "-_1", "_1", "1_", "1__2", "--1", "+-1", "-+", "+1", "-1",
              "00", "-00", "1_000_000", "_", "1 ", " 1", "0x10", "1e3", "-", "+_", "é", "1é", "１"]:
        for r in (2, 10, 16, 36):
            cases.append("u.from_str_radix %s %s" % (T(s), N(r)))
            cases.append("i.from_str_radix %s %s" % (T(s), N(r)))
        cases.append("u.from_str %s" % T(s))
        cases.append("i.from_str %s" % T(s))
        cases.append("u.parse_bytes %s %s" % (Bytes(s.encode()), N(10)))
        cases.append("i.parse_bytes %s %s" % (Bytes(s.encode()), N(10)))
    # non-UTF-8 / odd UTF-8 byte strings for parse_bytes
    BAD = [b"\xff", b"1\xff", b"\x80", b"12\xc3", b"\xc3\x28", b"\xe2\x82", b"\xe2\x28\xa1", b"\xf0\x9f\x98", b"\xf0\x28\x8c\xbc",
           b"\xc0\x80", b"\xc1\xbf", b"\xe0\x80\x80", b"\xed\xa0\x80", b"\xf4\x90\x80\x80", b"\xf5\x80\x80\x80", b"\xf8\x88\x80\x80\x80",
           b"\xe0\x9f\xbf", b"\xf0\x8f\xbf\xbf", b"-\xff", b"+\x80", b"_\xff"]
    GOODU = ["é".encode(), "€".encode(), "😀".encode(), b"\xed\x9f\xbf", b"\xee\x80\x80", b"\xf4\x8f\xbf\xbf", b"\xf0\x90\x80\x80", b"\xe0\xa0\x80", b"\xc2\x80", b"\xdf\xbf"]
    for b in BAD + GOODU:
        for r in (10, 36, 99 if thorough else 16):
            cases.append("u.parse_bytes %s %s" % (Bytes(b), N(r)))
            cases.append("i.parse_bytes %s %s" % (Bytes(b"12" + b), N(r)))
    for _ in range(300 if thorough else 60):
        l = rng.randrange(1, 8)
        b = bytes(rng.choice([rng.randrange(256), rng.choice(b"0123456789abcXYZ_+-"), rng.choice([0x80, 0xbf, 0xc2, 0xe0, 0xed, 0xf0, 0xf4, 0xa0, 0x9f, 0x90, 0x8f])]) for _ in range(l))
        cases.append("%s.parse_bytes %s %s" % (rng.choice("ui"), Bytes(b), N(rng.choice([10, 16, 36]))))
    # ------------------------------------------------------------------ formatters
    aligns = [("n", 32)] + [(a, f) for a in "lcr" for f in FILLS]
    for kind in "dboxX":
        for (al, fill) in aligns:
            for plus in (0, 1):
                for alt in (0, 1):
                    for zero in (0, 1):
                        for rep in range(4 if thorough else 2):
                            v = rng.choice([0, 1, 255, rng.getrandbits(rng.choice([8, 40, 64, 70, 200]))])
                            neg = rng.random() < 0.5
                            r = {"d": 10, "b": 2, "o": 8, "x": 16, "X": 16}[kind]
                            ln = len(to_str(v, r)) + (2 if alt and kind != "d" else 0) + (1 if (neg and v) or plus else 0)
                            width = 0 if rep == 0 and rng.random() < 0.3 else rng.choice([ln - 1, ln, ln + 1, ln + 2, ln + 5, ln + 6, rng.randrange(0, 80)])
                            tok = fmt_token(kind, plus, alt, zero, max(width, 0), fill, al)
                            if rng.random() < 0.4:
                                cases.append("u.fmt %s %s" % (tok, U(v)))
                            else:
                                cases.append("i.fmt %s %s" % (tok, I(-v if neg else v)))
    # a few large values through each formatter
    for kind in "dboxX":
        v = rand_len_value(rng, rng.choice([64, 65]))
        cases.append("i.fmt %s %s" % (fmt_token(kind, 1, 1, 1, 30000 if kind == "b" else 2000, 42, "c"), I(-v)))
        cases.append("u.fmt %s %s" % (fmt_token(kind, 0, 1, 0, 0, 32, "n"), U(v)))
    import extra_cases          # API-audit additions (docs/API_COVERAGE.md); produced after the original cases
    return cases + extra_cases.c06(rng, tier)

def nontrivial(case):
    toks = case.split(" ")
    if nontrivial_default(case):
        return True
    for t in toks[1:]:
        if t[:2] == "b:" and len(t) >= 42:
            return True
        if t[:2] == "t:" and len(t) >= 22:
            return True
    return False

# ---- in-Coq cross-check of the extraction -------------------------------------------------
COQ_IMPORTS = "Base AddSub Mul Div Radix RadixText RadixKernels RadixApi"

def coq_bytes(tok):
    h = tok.split(":", 1)[1]
    return "[" + "; ".join(str(int(h[2 * i:2 * i + 2], 16)) for i in range(len(h) // 2)) + "]"

def text_bytes(tok):
    h = tok[2:]
    out, i = [], 0
    while i < len(h):
        if h[i] == "%":
            out.append(int(h[i + 1:i + 3], 16)); i += 3
        else:
            out.append(ord(h[i])); i += 1
    return "[" + "; ".join(map(str, out)) + "]"

def _payload(tok):
    if tok[:2] == "b:":
        return coq_bytes(tok)
    if tok[:2] == "t:":
        return text_bytes(tok)
    return coq_payload(tok)

def _result(model, wrap=None):
    """model line -> Coq outcome term; wrap in ('some'|'pok') adds the constructor."""
    if model.startswith("err:"):
        return "Ret (PErr %s)" % {"err:empty": "PEmpty", "err:invalid": "PInvalid"}[model]
    if model == "none":
        return "Ret None"
    if model.startswith("panic"):
        return coq_result(model)
    toks = model.split(" ")[1:]
    body = _payload(toks[0]) if len(toks) == 1 else "(" + ", ".join(_payload(t) for t in toks) + ")"
    if wrap == "some":
        return "Ret (Some %s)" % body
    if wrap == "pok":
        return "Ret (POk %s)" % body
    return "Ret %s" % body

def coq_term(case, model):
    toks = case.split(" ")
    op, a = toks[0], toks[1:]
    if sum(len(x) for x in a) > 160:
        return None
    n = lambda t: "(%s)" % t[2:]
    if op in ("u.to_radix_le", "u.to_radix_be"):
        return "u_%s radix %s %s" % (op[2:], coq_list(a[0]), n(a[1])), _result(model)
    if op in ("u.from_radix_le", "u.from_radix_be"):
        return "u_%s radix %s %s" % (op[2:], coq_bytes(a[0]), n(a[1])), _result(model, "some")
    if op == "u.to_str":
        return "u_to_str_radix radix %s %s" % (coq_list(a[0]), n(a[1])), _result(model)
    if op == "i.to_str":
        return "i_to_str_radix radix %s %s" % (coq_bigint(a[0]), n(a[1])), _result(model)
    if op == "u.from_str_radix":
        return "u_from_str_radix radix %s %s" % (text_bytes(a[0]), n(a[1])), _result(model, "pok")
    if op == "i.from_str_radix":
        return "i_from_str_radix radix %s %s" % (text_bytes(a[0]), n(a[1])), _result(model, "pok")
    if op == "u.parse_bytes":
        return "u_parse_bytes radix %s %s" % (coq_bytes(a[0]), n(a[1])), _result(model, "some")
    if op == "h.get_radix_base":
        return "get_radix_base radix %s" % n(a[0]), _result(model)
    if op == "h.from_radix_digits_be":
        return "u_from_radix_digits_be radix %s %s" % (coq_bytes(a[0]), n(a[1])), _result(model)
    if op == "h.to_radix_digits_le":
        return "u_to_radix_digits_le radix %s %s" % (coq_list(a[0]), n(a[1])), _result(model)
    return None
