"""C19 — sign / negation / identity helpers: every helper on zero, +-1, single- and multi-digit
values of both signs, each also on operands whose buffer was left over-sized by an in-place
predecessor (harness modes 1..3), all (Sign, magnitude) pairs incl. inconsistent ones, abs_sub over
all sign/order cases, the full Sign tables."""
from genlib import *

RULE = ("sign/identity helpers on all value shapes x buffer histories | non-trivial: an operand "
        "with >= 2 digits, or an inconsistent (Sign, magnitude) pair, or a word slice with high "
        "zeros; distinct: distinct case lines")

SIGNS = ["-1", "0", "1"]
I1 = ["sg.neg", "sg.neg_ref", "sg.neg_inverse", "sg.abs", "sg.signum", "sg.is_positive",
      "sg.is_negative", "sg.sign", "sg.magnitude", "sg.into_parts", "sg.roundtrip",
      "sg.to_biguint", "sg.to_biguint_trait", "sg.try_from", "sg.try_from_ref", "sg.i_to_bigint",
      "sg.i_is_zero", "sg.i_is_one", "sg.i_set_zero", "sg.i_set_one"]
U1 = ["sg.u_to_bigint", "sg.u_to_biguint", "sg.from_u", "sg.u_is_zero", "sg.u_is_one",
      "sg.u_set_zero", "sg.u_set_one"]
C0 = ["sg.u_zero", "sg.u_const_zero", "sg.u_zero_trait_const", "sg.u_default", "sg.u_one",
      "sg.i_zero", "sg.i_const_zero", "sg.i_zero_trait_const", "sg.i_default", "sg.i_one"]

def R(words):
    return "r:" + ",".join("%x" % w for w in words)

def Zs(s):
    return "z:" + s

def special_values():
    vs = [0, 1, 2, MAXD, MAXD - 1, 1 << 63, 1 << 32, (1 << 32) - 1, B, B + 1, B * B - 1, B * B,
          (1 << 64 * 3) - 1, 1 << 64 * 5, (1 << 64 * 5) + 1]
    return vs + [-x for x in vs if x]

def rand_value(rng, lens):
    return rand_signed(rng, lens)

def rand_words(rng):
    n = rng.choice([0, 1, 2, 3, 4, 5, 8, 9])
    w = [rng.choice([0, 1, 0xffffffff, 0x80000000, rng.getrandbits(32)]) for _ in range(n)]
    k = rng.random()
    if k < 0.35:
        w += [0] * rng.choice([1, 2, 3, 4])       # high zeros
    elif k < 0.5:
        w = [0] * len(w)                          # all-zero slice of positive length
    return w

def generate(rng, tier):
    thorough = tier == "thorough"
    lens = [0, 1, 1, 2, 2, 3, 4, 5, 8, 16] + ([63, 64, 65, 200] if thorough else [40])
    cases = []
    # constants and Sign tables (finite)
    cases += C0
    for s in SIGNS:
        cases.append("sg.sign_neg %s" % Zs(s))
        for t in SIGNS:
            cases.append("sg.sign_mul %s %s" % (Zs(s), Zs(t)))
    # every unary helper on every special value in every buffer mode
    for x in special_values():
        for op in I1:
            for mode in range(4):
                cases.append("%s %s %s" % (op, N(mode), I(x)))
        if x >= 0:
            for op in U1:
                for mode in range(4):
                    cases.append("%s %s %s" % (op, N(mode), U(x)))
    # random values
    n = 4000 if thorough else 400
    for _ in range(n):
        x = rand_value(rng, lens)
        cases.append("%s %s %s" % (rng.choice(I1), N(rng.randrange(4)), I(x)))
        if rng.random() < 0.4:
            cases.append("%s %s %s" % (rng.choice(U1), N(rng.randrange(4)), U(abs(x))))
    # abs_sub / cmp over sign and order cases
    pairs = []
    sv = special_values()
    for x in sv[:9] + sv[15:21]:
        for y in sv[:9] + sv[15:21]:
            pairs.append((x, y))
    for _ in range(3000 if thorough else 300):
        x = rand_value(rng, lens)
        k = rng.random()
        if k < 0.2:
            y = x
        elif k < 0.35:
            y = -x
        elif k < 0.5:
            y = x + rng.choice([-1, 1])
        elif k < 0.6:
            y = x + rng.choice([-1, 1]) * (1 << (64 * rng.randrange(0, 4)))
        else:
            y = rand_value(rng, lens)
        pairs.append((x, y))
    for x, y in pairs:
        mode = rng.randrange(4)
        cases.append("sg.abs_sub %s %s %s" % (N(mode), I(x), I(y)))
        if rng.random() < 0.5:
            cases.append("sg.cmp %s %s %s" % (N(mode), I(x), I(y)))
    # from_biguint on all (Sign, magnitude) pairs, incl. inconsistent ones and high zeros
    mags = [[], [1], [MAXD], [0, 1], [5, MAXD], [0, 0, 1 << 63]]
    for _ in range(200 if thorough else 30):
        mags.append(rand_digits(rng, rng.choice([1, 1, 2, 3, 5, 9])))
    for m in mags:
        for s in "-0+":
            cases.append("sg.from_biguint %s" % I((s, m)))
            if m:
                cases.append("sg.from_biguint %s" % I((s, m + [0] * rng.choice([1, 2]))))
    for s in "-0+":
        cases.append("sg.from_biguint %s" % I((s, [0])))
        cases.append("sg.from_biguint %s" % I((s, [0, 0, 0])))
    # constructors from base-2^32 words
    for _ in range(1500 if thorough else 150):
        w = rand_words(rng)
        s = rng.choice(SIGNS)
        k = rng.random()
        if k < 0.3:
            cases.append("sg.new %s %s" % (Zs(s), R(w)))
        elif k < 0.55:
            cases.append("sg.from_slice %s %s" % (Zs(s), R(w)))
        elif k < 0.85:
            x = rand_value(rng, [0, 1, 2, 5])
            cases.append("sg.assign_from_slice %s %s %s %s" % (N(rng.randrange(4)), I(x), Zs(s), R(w)))
        else:
            cases.append("sg.u_from_slice %s" % R(w))
    for s in SIGNS:
        for w in ([], [0], [0, 0], [0, 0, 0], [1], [0, 1], [0, 0, 1], [1, 0, 0], [0xffffffff] * 3):
            cases.append("sg.new %s %s" % (Zs(s), R(w)))
            cases.append("sg.assign_from_slice %s %s %s %s" % (N(1), I(-(B + 5)), Zs(s), R(w)))
    rng.shuffle(cases)      # so that the in-Coq sample (first cases) sees every op
    import extra_cases          # API-audit additions (docs/API_COVERAGE.md); produced after the original cases
    return cases + extra_cases.c19(rng, tier)

def nontrivial(case):
    toks = case.split(" ")
    if nontrivial_default(case):
        return True
    if toks[0] == "sg.from_biguint":
        _, s, digs = toks[1].split(":", 2)
        nz = any(int(h, 16) for h in digs.split(",")) if digs else False
        return (s == "0") == nz or (digs != "" and digs.split(",")[-1] == "0")
    for t in toks[1:]:
        if t.startswith("r:") and t.endswith(",0"):
            return True
    return False

# ---- in-Coq cross-check of the extraction -------------------------------------------------
COQ_IMPORTS = "Base AddSub Sign"

SIGN_COQ = {"z:-1": "Minus", "z:0": "NoSign", "z:1": "Plus"}

def _words(tok):
    s = tok[2:]
    return "[" + "; ".join("%d" % int(h, 16) for h in s.split(",")) + "]" if s else "[]"

def _bool(model):
    return {"ok n:1": "true", "ok n:0": "false"}[model]

def _opt(model, render):
    if model == "none":
        return "None"
    return "Some %s" % render(model.split(" ")[1])

def coq_term(case, model):
    toks = case.split(" ")
    op, a = toks[0], toks[1:]
    if len(case) > 400:
        return None
    # `i:` arguments produced by I(int) are canonical, so the raw pair is what the model sees
    un_i = {"sg.neg": "ineg", "sg.abs": "iabs signs", "sg.signum": "isignum signs", "sg.i_set_zero": "iset_zero",
            "sg.i_set_one": "iset_one"}
    if op in un_i:
        return "%s %s" % (un_i[op], coq_bigint(a[1])), coq_bigint(model.split(" ")[1])
    un_b = {"sg.is_positive": "is_positive signs", "sg.is_negative": "is_negative signs", "sg.i_is_zero": "iis_zero signs",
            "sg.i_is_one": "iis_one"}
    if op in un_b:
        return "%s %s" % (un_b[op], coq_bigint(a[1])), _bool(model)
    if op == "sg.abs_sub":
        return "abs_sub signs addsub %s %s" % (coq_bigint(a[1]), coq_bigint(a[2])), coq_result(model)
    if op == "sg.cmp":
        return "icmp signs %s %s" % (coq_bigint(a[1]), coq_bigint(a[2])), coq_result(model)
    if op == "sg.to_biguint":
        return "to_biguint signs %s" % coq_bigint(a[1]), _opt(model, coq_list)
    if op == "sg.try_from":
        return "try_into_biguint signs %s" % coq_bigint(a[1]), _opt(model, coq_list)
    if op in ("sg.new", "sg.from_slice"):
        return "i_from_slice %s %s" % (SIGN_COQ[a[0]], _words(a[1])), coq_bigint(model.split(" ")[1])
    if op == "sg.assign_from_slice":
        return ("i_assign_from_slice %s %s %s" % (coq_bigint(a[1]), SIGN_COQ[a[2]], _words(a[3])),
                coq_bigint(model.split(" ")[1]))
    if op == "sg.u_from_slice":
        return "u_from_slice %s" % _words(a[0]), coq_list(model.split(" ")[1])
    if op == "sg.from_biguint":
        _, s, digs = a[0].split(":", 2)
        sg = {"-": "Minus", "0": "NoSign", "+": "Plus"}[s]
        l = [int(h, 16) for h in digs.split(",")] if digs else []
        return "from_biguint %s (strip %s)" % (sg, coq_list(l)), coq_bigint(model.split(" ")[1])
    if op == "sg.sign_mul":
        return "sign_mul %s %s" % (SIGN_COQ[a[0]], SIGN_COQ[a[1]]), SIGN_COQ[model.split(" ")[1]]
    if op == "sg.sign_neg":
        return "sign_neg %s" % SIGN_COQ[a[0]], SIGN_COQ[model.split(" ")[1]]
    return None
