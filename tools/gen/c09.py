"""C09 — bytes / digit vectors / iterators.  Exhaustive iterator call scripts on a bank of
digit shapes (zero; one digit with zero / non-zero upper half; 2-3 digits with zero /
non-zero top half), random long scripts; signed bytes around +-2^(8k-1) and +-2^(8k-1)+-1
for k <= 40, negative powers of two; byte / u32-word slices: empty, all-zero, odd word
counts, 0x00../0xff.. padding; the four bit-regrouping routines for every width 1..8."""
from genlib import *
import itertools
import zlib

THEOREMS = []

W = 1 << 32

# ---- the value bank for iterator scripts (digit lists, canonical)
BANK = [
    [],
    [5], [W - 1],                                   # one digit, upper half zero
    [W], [W + 5], [MAXD], [(7 << 32) | 0],          # one digit, upper half non-zero (lower zero / non-zero)
    [7, 3], [0, W - 1],                             # two digits, top digit upper half zero
    [7, (2 << 32) | 3], [0, 3 << 32], [MAXD, MAXD], # two digits, top digit upper half non-zero
    [1, 2, 3], [0, 0, 1],                           # three digits, top upper half zero
    [1, 2, 4 << 32], [MAXD, 0, MAXD],               # three digits, top upper half non-zero
]
BANK_Q = [BANK[i] for i in (0, 1, 3, 4, 7, 9, 10, 12, 14)]

MUT = ["next", "back", "nth1", "nth2"]       # nth0 is literally next() in the default nth
TERM = ["last", "count"]

def scripts_exhaustive(depth):
    """Every sequence of `depth` state-changing calls with len observed after every call (len
    takes &self: observing it between any two calls covers every interleaving with len), and
    every shorter prefix ended by the consuming calls last / count."""
    out = []
    for seq in itertools.product(MUT, repeat=depth):
        s = ["len"]
        for c in seq:
            s += [c, "len"]
        out.append(";".join(s))
    for L in range(0, depth):
        for seq in itertools.product(MUT, repeat=L):
            for t in TERM:
                s = []
                for c in seq:
                    s += [c, "len"]
                out.append(";".join(s + [t]))
    return out

FULL = ["next", "back", "len", "hint", "nth0", "nth1", "nth3", "last", "count"]

def scripts_full(depth):
    """Every sequence over the full alphabet (explicit len / hint positions, last / count only
    in final position since they consume the iterator)."""
    out = []
    nonterm = [c for c in FULL if c not in TERM]
    for L in range(1, depth + 1):
        for seq in itertools.product(nonterm, repeat=L - 1):
            for t in FULL:
                out.append(";".join(list(seq) + [t]))
    return out

def rand_script(rng, n):
    s = []
    for _ in range(n):
        r = rng.random()
        if r < 0.3:
            s.append("next")
        elif r < 0.6:
            s.append("back")
        elif r < 0.75:
            s.append("len")
        elif r < 0.8:
            s.append("hint")
        else:
            s.append("nth%d" % rng.choice([0, 0, 1, 1, 2, 3, 5, 40]))
    if rng.random() < 0.5:
        s.append(rng.choice(TERM))
    return ";".join(s)

def H(script):
    return "h:" + script

def le_bytes(v, n):
    return [(v >> (8 * i)) & 0xff for i in range(n)]

def signed_len(x):
    n = 1
    while not (-(1 << (8 * n - 1)) <= x < (1 << (8 * n - 1))):
        n += 1
    return n

def word_alpha(rng):
    return rng.choice([0, 0, 1, W - 1, 1 << 31, rng.getrandbits(32), rng.getrandbits(32)])

def Z(s):
    return "z:%d" % s

def generate(rng, tier):
    thorough = tier == "thorough"
    cases = []
    # ------------------------------------------------------------------ iterators
    depth = 7 if thorough else 6
    bank = BANK
    ex = scripts_exhaustive(depth)
    for d in bank:
        for s in ex:
            cases.append("u.iter32 %s %s" % (U(d), H(s)))
    full = scripts_full(4 if thorough else 3)
    for d in bank:
        for s in full:
            cases.append("u.iter32 %s %s" % (U(d), H(s)))
    for d in BANK:
        for s in scripts_full(2) + scripts_exhaustive(3):
            cases.append("u.iter64 %s %s" % (U(d), H(s)))
    for _ in range(6000 if thorough else 600):
        d = rand_digits(rng, rng.choice([0, 1, 1, 2, 2, 3, 4, 5, 8, 17]))
        if d and rng.random() < 0.5:
            d[-1] = rng.choice([1, W - 1, W, rng.getrandbits(32) or 1, (rng.getrandbits(32) or 1) << 32])
        s = rand_script(rng, rng.choice([3, 8, 8, 20, 45]))
        op = rng.choice(["u.iter32", "u.iter32", "u.iter32", "u.iter64", "i.iter32", "i.iter64"])
        arg = U(d) if op[0] == "u" else I(rng.choice([1, -1]) * val(d))
        cases.append("%s %s %s" % (op, arg, H(s)))
    # ------------------------------------------------------------------ digit vectors out
    vals = [val(d) for d in BANK]
    for _ in range(400 if thorough else 80):
        vals.append(val(rand_digits(rng, rng.choice([1, 2, 3, 4, 7, 20]))))
    for k in range(0, 200, 1 if thorough else 3):
        vals += [1 << k, (1 << k) - 1]
    for v in vals:
        cases.append("u.to_u32_digits %s" % U(v))
        cases.append("u.to_u64_digits %s" % U(v))
        cases.append("%s %s" % (rng.choice(["u.to_bytes_le", "u.tr_to_le"]), U(v)))
        cases.append("%s %s" % (rng.choice(["u.to_bytes_be", "u.tr_to_be"]), U(v)))
        sv = rng.choice([1, -1]) * v
        cases.append("%s %s" % (rng.choice(["i.to_u32_digits", "i.to_u64_digits", "i.to_bytes_le", "i.to_bytes_be"]), I(sv)))
    # ------------------------------------------------------------------ u32 word slices in
    slices = [[], [0], [0, 0], [0, 0, 0], [0] * 4, [0] * 5, [1], [1, 0], [1, 0, 0], [0, 1], [0, 0, 1],
              [0, 0, 1, 0], [0, 0, 1, 0, 0], [W - 1] * 3, [W - 1] * 4, [5, 0, 0, 0, 0, 0, 0]]
    for _ in range(1500 if thorough else 250):
        n = rng.choice([1, 2, 3, 4, 5, 6, 7, 8, 9, 15, 16, 17, 21, 40])
        w = [word_alpha(rng) for _ in range(n)]
        w += [0] * rng.choice([0, 0, 1, 2, 3, 4])
        slices.append(w)
    for w in slices:
        cases.append("u.new %s" % D(w))
        cases.append("u.from_slice %s" % D(w))
        old = rand_digits(rng, rng.choice([0, 1, 3]))
        cases.append("u.assign_from_slice %s %s" % (U(old), D(w)))
        for s in (-1, 0, 1):
            cases.append("%s %s %s" % (rng.choice(["i.new", "i.from_slice"]), Z(s), D(w)))
        cases.append("i.assign_from_slice %s %s %s" % (I(rng.choice([1, -1]) * val(old)), Z(rng.choice([-1, 0, 1])), D(w)))
    # ------------------------------------------------------------------ byte slices in
    bs = [[], [0], [0, 0], [0] * 8, [0] * 9, [0] * 17, [1], [0, 1], [1, 0], [0xff] * 8, [0xff] * 9, [0x80], [0, 0x80]]
    for _ in range(1500 if thorough else 300):
        n = rng.choice([1, 2, 3, 7, 8, 9, 15, 16, 17, 24, 25, 33, 64, 100])
        b = [rng.choice([0, 0xff, 0x80, 0x7f, rng.getrandbits(8), rng.getrandbits(8)]) for _ in range(n)]
        pad = rng.choice([0, 0, 1, 2, 8, 9])
        b += [rng.choice([0, 0, 0xff])] * pad
        bs.append(b)
    for b in bs:
        rb = list(reversed(b))
        cases.append("%s %s" % (rng.choice(["u.from_bytes_le", "u.tr_from_le"]), Bytes(b)))
        cases.append("%s %s" % (rng.choice(["u.from_bytes_be", "u.tr_from_be"]), Bytes(rb)))
        cases.append("%s %s %s" % (rng.choice(["i.from_bytes_le", "i.from_bytes_be"]), Z(rng.choice([-1, 0, 1])), Bytes(b)))
        cases.append("%s %s" % (rng.choice(["i.from_signed_bytes_le", "i.tr_from_le"]), Bytes(b)))
        cases.append("%s %s" % (rng.choice(["i.from_signed_bytes_be", "i.tr_from_be"]), Bytes(rb)))
    # ------------------------------------------------------------------ signed bytes at the length changes
    svals = [0, 1, -1, 127, 128, -128, -129, 255, 256, -255, -256, -257]
    for k in range(1, 41):
        p = 1 << (8 * k - 1)
        svals += [p, p - 1, p + 1, -p, -p + 1, -p - 1, 2 * p, 2 * p - 1, -2 * p, -2 * p + 1, -2 * p - 1]
    for j in range(0, 330, 1 if thorough else 2):
        svals.append(-(1 << j))
    for _ in range(1000 if thorough else 150):
        svals.append(rand_signed(rng, [1, 1, 2, 3, 5]))
    for x in svals:
        cases.append("%s %s" % (rng.choice(["i.to_signed_bytes_le", "i.tr_to_le"]), I(x)))
        cases.append("%s %s" % (rng.choice(["i.to_signed_bytes_be", "i.tr_to_be"]), I(x)))
        # re-import the shortest encoding with 0..3 bytes of sign-extension padding
        n = signed_len(x) + rng.choice([0, 0, 1, 2, 3, 9])
        enc = le_bytes(x % (1 << (8 * n)), n)
        cases.append("i.from_signed_bytes_le %s" % Bytes(enc))
        cases.append("i.from_signed_bytes_be %s" % Bytes(list(reversed(enc))))
    # ------------------------------------------------------------------ hook level: regrouping, every width
    for bits in range(1, 9):
        exact = 64 % bits == 0
        per = 64 // bits
        lens = [1, 2, per - 1, per, per + 1, 2 * per - 1, 2 * per, 2 * per + 1, 3 * per + 2, 5 * per]
        reps = 12 if thorough else 3
        for n in lens:
            for _ in range(reps):
                if n <= 0:
                    continue
                v = [rng.choice([0, (1 << bits) - 1, rng.getrandbits(bits), rng.getrandbits(bits)]) for _ in range(n)]
                if rng.random() < 0.3:
                    v += [0] * rng.choice([1, 2, per, per + 1])
                cases.append("%s %s %s" % ("h.bd_from" if exact else "h.bd_from_inexact", Bytes(v), N(bits)))
        for nd in [1, 1, 2, 2, 3, 4, 6]:
            for _ in range(reps):
                d = rand_digits(rng, nd)
                if rng.random() < 0.5:
                    d[-1] = rng.choice([1, 2, 3, 1 << 63, (1 << 63) - 1, 1 << rng.randrange(64), (1 << rng.randrange(1, 64)) - 1])
                cases.append("%s %s %s" % ("h.bd_to" if exact else "h.bd_to_inexact", U(d), N(bits)))
        # failure stream: digit out of range, empty input, zero value (debug assertions)
        if bits < 8:
            cases.append("%s %s %s" % ("h.bd_from" if exact else "h.bd_from_inexact", Bytes([1, 1 << bits]), N(bits)))
        cases.append("%s %s %s" % ("h.bd_from" if exact else "h.bd_from_inexact", Bytes([]), N(bits)))
        cases.append("%s %s %s" % ("h.bd_to" if exact else "h.bd_to_inexact", U([]), N(bits)))
        # wrong routine for the width
        cases.append("%s %s %s" % ("h.bd_from_inexact" if exact else "h.bd_from", Bytes([1, 0, 1]), N(bits)))
        cases.append("%s %s %s" % ("h.bd_to_inexact" if exact else "h.bd_to", U([5, 9]), N(bits)))
    return cases

RULE = ("non-trivial: an operand with >= 2 native digits, a byte string of >= 9 bytes, a word slice "
        "of >= 3 words, or an iterator script of >= 3 calls; distinct: distinct case lines")

def nontrivial(case):
    if nontrivial_default(case):
        return True
    for tok in case.split(" ")[1:]:
        if tok.startswith("b:") and len(tok) >= 2 + 18:
            return True
        if tok.startswith("d:") and tok.count(",") >= 2:
            return True
        if tok.startswith("h:") and tok.count(";") >= 2:
            return True
    return False

# ---- in-Coq cross-check of the extraction -------------------------------------------------
COQ_IMPORTS = "Base BitDigits Iter Bytes"

def coq_bytes(tok):
    h = tok[2:]
    return "[" + "; ".join(str(int(h[2 * i:2 * i + 2], 16)) for i in range(len(h) // 2)) + "]"

def coq_script(tok):
    m = {"next": "CNext", "back": "CBack", "len": "CLen", "hint": "CHint", "last": "CLast", "count": "CCount"}
    items = [x for x in tok[2:].split(";") if x]
    return "[" + "; ".join(m[x] if x in m else "CNth %d%%nat" % int(x[3:]) for x in items) + "]"

def coq_obs(toks):
    out = []
    for t in toks:
        if t == "none":
            out.append("OItem None")
        elif t.startswith("n:"):
            out.append("OItem (Some %s)" % t[2:])
        elif t.startswith("l:"):
            out.append("OLen %s" % t[2:])
        elif t.startswith("h:"):
            lo, hi = t[2:].split(",")
            out.append("OHint %s %s" % (lo, "None" if hi == "none" else "(Some %s)" % hi))
        else:
            raise ValueError(t)
    return "[" + "; ".join(out) + "]"

def coq_sign(tok):
    return {"z:-1": "Minus", "z:0": "NoSign", "z:1": "Plus"}[tok]

def coq_term(case, model):
    toks = case.split(" ")
    op, a = toks[0], toks[1:]
    if len(case) > 500 or not model.startswith("ok"):
        return None
    # deterministic sub-sample so that the <= 150 checked cases cover every op
    h = zlib.crc32(case.encode())
    if op in ("u.iter32", "i.iter32"):
        if op[0] == "i" or h % 1200 != 0:
            return None
        return ("it_run iter %s (it_new iter (strip %s))" % (coq_script(a[1]), coq_list(a[0])),
                coq_obs(model.split(" ")[1:]))
    rb = lambda t: coq_bytes(t[0])
    if not op.startswith("h.") and h % 12 != 0:
        return None
    if op.startswith("h.") and h % 5 != 0:
        return None
    if op == "u.new":
        return "unew %s" % coq_list(a[0]), coq_list(model.split(" ")[1])
    if op == "u.from_bytes_le":
        return "ufrom_bytes_le byteio %s" % coq_bytes(a[0]), coq_result(model)
    if op == "u.from_bytes_be":
        return "ufrom_bytes_be byteio %s" % coq_bytes(a[0]), coq_result(model)
    if op == "u.to_bytes_le":
        return "uto_bytes_le byteio (strip %s)" % coq_list(a[0]), coq_result(model, render=rb)
    if op == "u.to_u32_digits":
        return "uto_u32_digits iter (strip %s)" % coq_list(a[0]), coq_result(model)
    if op == "i.to_signed_bytes_le":
        return "to_signed_bytes_le byteio %s" % coq_bigint(a[0]), coq_result(model, render=rb)
    if op == "i.to_signed_bytes_be":
        return "to_signed_bytes_be byteio %s" % coq_bigint(a[0]), coq_result(model, render=rb)
    if op == "i.from_signed_bytes_le":
        return "from_signed_bytes_le byteio %s" % coq_bytes(a[0]), coq_result(model)
    if op == "i.from_signed_bytes_be":
        return "from_signed_bytes_be byteio %s" % coq_bytes(a[0]), coq_result(model)
    if op == "i.new":
        return "inew %s %s" % (coq_sign(a[0]), coq_list(a[1])), coq_bigint(model.split(" ")[1])
    hk = {"h.bd_from": "from_bitwise_digits_le", "h.bd_from_inexact": "from_inexact_bitwise_digits_le"}
    if op in hk:
        return "%s %s %s" % (hk[op], coq_bytes(a[0]), a[1][2:]), coq_result(model)
    hk = {"h.bd_to": "to_bitwise_digits_le", "h.bd_to_inexact": "to_inexact_bitwise_digits_le"}
    if op in hk:
        return "%s (strip %s) %s" % (hk[op], coq_list(a[0]), a[1][2:]), coq_result(model, render=rb)
    return None
