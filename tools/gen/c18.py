"""C18 — random generation over scripted word streams: every bit size 0..=130 and multiples of
32/64 +-1, bounds 1 / 2^k / 2^k+-1 / random, ranges of width 1, negative, zero-crossing, zero lower
and zero upper bound, empty and inverted ranges, zero bound; streams all-zeros, all-ones, counters,
random, and scripted streams whose first k candidates are rejected (boundary values: exactly the
bound, the all-ones candidate) before an accepted one (bound-1, 0, random).  Every case runs on a
finite scripted stream; a stream that ends early is `err` on both sides."""
from genlib import *

RULE = ("random generation on scripted streams | non-trivial: a bit size / bound of more than 64 "
        "bits, or at least one rejected candidate / zero re-draw before the result, or an "
        "empty-range panic; distinct: distinct case lines")

M32 = 0xffffffff

def R(words):
    return "r:" + ",".join("%x" % w for w in words)

# ---------------------------------------------------------------- reference (mirrors SpecRand.v)
def nwords(n):
    return (n + 31) // 32

def cand(n, ws):
    if not ws:
        return 0
    sh = (32 - n % 32) % 32
    v = 0
    for i, w in enumerate(ws[:-1]):
        v |= w << (32 * i)
    return v | ((ws[-1] >> sh) << (32 * (len(ws) - 1)))

def py_below(bound, words):
    """(value, consumed, retries) or None when the stream ends first."""
    bits = bound.bit_length()
    k = nwords(bits)
    pos, retries = 0, 0
    while pos + k <= len(words):
        c = cand(bits, words[pos:pos + k])
        pos += k
        if c < bound:
            return c, pos, retries
        retries += 1
    return None

def words_for(n, value, rng):
    """nwords(n) words whose candidate is `value` (< 2^n); the discarded low bits are random."""
    k = nwords(n)
    sh = (32 - n % 32) % 32
    ws = [(value >> (32 * i)) & M32 for i in range(k)]
    if k:
        ws[-1] = ((ws[-1] << sh) & M32) | (rng.getrandbits(sh) if sh else 0)
    return ws

def below_stream(rng, bound, retries, tail=None):
    """A stream whose first `retries` candidates are >= bound and whose next one is < bound."""
    bits = bound.bit_length()
    top = (1 << bits) - 1
    ws = []
    for _ in range(retries):
        r = rng.choice([bound, top, rng.randint(bound, top)])
        ws += words_for(bits, r, rng)
    a = rng.choice([bound - 1, 0, rng.randrange(bound), rng.randrange(bound)])
    ws += words_for(bits, a, rng)
    ws += [rng.getrandbits(32) for _ in range(rng.choice([0, 0, 1, 3]) if tail is None else tail)]
    return ws

def plain_stream(rng, kind, n):
    if kind == "zeros":
        return [0] * n
    if kind == "ones":
        return [M32] * n
    if kind == "counter":
        s = rng.choice([0, 1, 0x7ffffffe, 0xfffffff0, rng.getrandbits(32)])
        return [(s + i) & M32 for i in range(n)]
    if kind == "topbits":
        return [rng.choice([0x80000000, 0x7fffffff, 1, 0xfffffffe]) for _ in range(n)]
    return [rng.getrandbits(32) for _ in range(n)]

KINDS = ["zeros", "ones", "counter", "topbits", "random", "random"]

def bit_sizes(thorough):
    s = set(range(0, 131))
    for m in range(32, 1025 if not thorough else 4097, 32):
        s.update([m - 1, m, m + 1])
    return sorted(s)

def bounds(rng, thorough):
    ks = list(range(0, 131)) + [159, 160, 161, 191, 192, 193, 255, 256, 257, 511, 512, 513]
    if thorough:
        ks += [1023, 1024, 1025, 2047, 2048, 4095, 4096]
    out = set([1, 2, 3])
    for k in ks:
        out.update([1 << k, (1 << k) + 1, max(1, (1 << k) - 1)])
    return sorted(out)

def generate(rng, tier):
    thorough = tier == "thorough"
    cases = []
    reps = 3 if thorough else 1
    # --- gen_biguint / RandomBits: every bit size, every stream kind
    for n in bit_sizes(thorough):
        k = nwords(n)
        for kind in KINDS * reps:
            ws = plain_stream(rng, kind, k + rng.choice([0, 1, 2]))
            op = "rnd.gen_biguint" if rng.random() < 0.8 else "rnd.bits_u"
            cases.append("%s %s %s" % (op, N(n), R(ws)))
        if k:
            # a stream one word too short: err on both sides
            cases.append("rnd.gen_biguint %s %s" % (N(n), R(plain_stream(rng, "random", k - 1))))
    # --- gen_bigint / RandomBits: zero re-draws, both signs
    for n in bit_sizes(thorough):
        if n > 260 and rng.random() < 0.6:
            continue
        k = nwords(n)
        for _ in range(3 * reps):
            ws = []
            for _ in range(rng.choice([0, 0, 1, 2, 5])):            # re-draws: zero magnitude + `true`
                ws += words_for(n, 0, rng) + [rng.choice([0x80000000, M32, 0x80000000 | rng.getrandbits(31)])]
            mode = rng.random()
            if mode < 0.25 or n == 0:
                ws += words_for(n, 0, rng) + [rng.choice([0, 0x7fffffff, rng.getrandbits(31)])]   # zero, `false`
            else:
                v = rng.choice([1, (1 << n) - 1, rng.randrange(1, 1 << n)])
                ws += words_for(n, v, rng) + [rng.choice([0, 0x7fffffff, 0x80000000, M32, rng.getrandbits(32)])]
            ws += plain_stream(rng, "random", rng.choice([0, 1]))
            op = "rnd.gen_bigint" if rng.random() < 0.8 else "rnd.bits_i"
            cases.append("%s %s %s" % (op, N(n), R(ws)))
        kind = rng.choice(["zeros", "counter", "topbits", "random"] + (["ones"] if n else []))
        cases.append("rnd.gen_bigint %s %s" % (N(n), R(plain_stream(rng, kind, 2 * k + 4))))
    # gen_bigint(0) on all-`true` sign words never terminates: the finite stream ends -> err
    cases.append("rnd.gen_bigint %s %s" % (N(0), R([M32] * 7)))
    cases.append("rnd.gen_bigint %s %s" % (N(0), R([])))
    # --- gen_biguint_below: every bound shape x retries
    for b in bounds(rng, thorough):
        for retries in ([0, 1, 3] if not thorough else [0, 1, 2, 3, 6]):
            cases.append("rnd.below %s %s" % (U(b), R(below_stream(rng, b, retries))))
        kind = rng.choice(["zeros", "counter", "random"])
        cases.append("rnd.below %s %s" % (U(b), R(plain_stream(rng, kind, 4 * nwords(b.bit_length()) + 2))))
    # all-ones never offers a candidate below any bound: ends -> err; zero bound panics
    cases.append("rnd.below %s %s" % (U(5), R([M32] * 6)))
    cases.append("rnd.below %s %s" % (U(1 << 64), R([M32] * 9)))
    cases.append("rnd.below %s %s" % (U(0), R([1, 2, 3])))
    cases.append("rnd.below %s %s" % (U(0), R([])))
    cases.append("rnd.below %s %s" % (U(7), R([])))
    # --- ranges
    UOPS = ["rnd.urange", "rnd.uu_single", "rnd.u_gen_range", "rnd.uu_new", "rnd.uu_incl",
            "rnd.u_gen_range_incl", "rnd.uu_new2"]
    IOPS = ["rnd.irange", "rnd.ui_single", "rnd.i_gen_range", "rnd.ui_new", "rnd.ui_incl",
            "rnd.i_gen_range_incl", "rnd.ui_new2"]
    widths = [1, 2, 3, MAXD, B, B + 1, (1 << 32) - 1, 1 << 32, (1 << 32) + 1, 1 << 127, (1 << 128) - 1,
              (1 << 128) + 1, 1 << 200]
    def width(rng):
        k = rng.random()
        if k < 0.5:
            return rng.choice(widths)
        if k < 0.7:
            e = rng.randrange(1, 300)
            return rng.choice([1 << e, (1 << e) + 1, (1 << e) - 1])
        return rand_big(rng, [1, 1, 2, 3, 5]) or 1
    def range_case(op, lo, w, signed):
        incl = op.endswith("incl")
        twice = op.endswith("2")
        hi = lo + w - (1 if incl else 0)
        retries = rng.choice([0, 0, 1, 2])
        ws = below_stream(rng, w, retries, tail=0)
        if twice:
            ws += below_stream(rng, w, rng.choice([0, 1]), tail=0)
        ws += plain_stream(rng, "random", rng.choice([0, 2]))
        enc = I if signed else U
        return "%s %s %s %s" % (op, enc(lo), enc(hi), R(ws))
    nr = 1500 if thorough else 260
    for _ in range(nr):
        w = width(rng)
        lo = rng.choice([0, 0, 1, MAXD, B, rand_big(rng, [1, 2, 3, 4]), w])
        cases.append(range_case(rng.choice(UOPS), lo, w, False))
    for _ in range(nr * 2):
        w = width(rng)
        k = rng.random()
        if k < 0.15:
            lo = 0                                       # zero lower bound
        elif k < 0.3:
            lo = -w                                      # zero upper bound (exclusive)
        elif k < 0.4:
            lo = -w + 1                                  # inclusive upper bound 0 / exclusive 1
        elif k < 0.6:
            lo = -rng.randrange(0, w + 1)                # zero-crossing
        elif k < 0.8:
            lo = -w - rand_big(rng, [0, 1, 2, 3])        # entirely negative
        else:
            lo = rand_big(rng, [1, 2, 3])                # entirely positive
        cases.append(range_case(rng.choice(IOPS), lo, w, True))
    # --- empty and inverted ranges panic (inclusive: lo == hi is a valid one-point range)
    for op in UOPS:
        for lo, hi in [(0, 0), (5, 5), (6, 5), (B, B), (B + 1, B), (1, 0), (1 << 130, (1 << 130) - 1)]:
            ws = plain_stream(rng, "zeros", 6)
            cases.append("%s %s %s %s" % (op, U(lo), U(hi), R(ws)))
    for op in IOPS:
        for lo, hi in [(0, 0), (-5, -5), (-5, -6), (5, -5), (0, -1), (1, 0), (-B, -B), (-B, -B - 1),
                       (B, -B), (1, -1)]:
            ws = plain_stream(rng, "zeros", 6)
            cases.append("%s %s %s %s" % (op, I(lo), I(hi), R(ws)))
    # --- ranges on unscripted streams (may end early: err on both sides)
    for _ in range(600 if thorough else 80):
        w = width(rng)
        kind = rng.choice(["zeros", "counter", "random", "topbits"])
        ws = plain_stream(rng, kind, 3 * nwords(w.bit_length()) + 1)
        if rng.random() < 0.5:
            lo = rng.choice([0, 1, rand_big(rng, [1, 2])])
            cases.append("%s %s %s %s" % (rng.choice(UOPS[:4]), U(lo), U(lo + w), R(ws)))
        else:
            lo = rng.choice([0, -w, -rng.randrange(0, w + 1), rand_signed(rng, [1, 2])])
            cases.append("%s %s %s %s" % (rng.choice(IOPS[:4]), I(lo), I(lo + w), R(ws)))
    rng.shuffle(cases)
    return cases

def _int_of(tok):
    if tok.startswith("u:"):
        return val(parse_digits(tok))
    _, s, d = tok.split(":", 2)
    m = val([int(h, 16) for h in d.split(",")] if d else [])
    return -m if s == "-" else m

def nontrivial(case):
    toks = case.split(" ")
    op, a = toks[0], toks[1:]
    ws = [int(h, 16) for h in a[-1][2:].split(",")] if len(a[-1]) > 2 else []
    if op in ("rnd.gen_biguint", "rnd.bits_u"):
        return int(a[0][2:]) > 64
    if op in ("rnd.gen_bigint", "rnd.bits_i"):
        n = int(a[0][2:])
        k = nwords(n)
        return n > 64 or (len(ws) > k and cand(n, ws[:k]) == 0 and ws[k] >= 0x80000000)
    if op == "rnd.below":
        b = _int_of(a[0])
        if b == 0:
            return True
        r = py_below(b, ws)
        return b.bit_length() > 64 or (r is not None and r[2] > 0)
    lo, hi = _int_of(a[0]), _int_of(a[1])
    w = hi - lo + (1 if op.endswith("incl") else 0)
    if w <= 0:
        return True
    r = py_below(w, ws)
    return w.bit_length() > 64 or (r is not None and r[2] > 0)

# ---- in-Coq cross-check of the extraction -------------------------------------------------
COQ_IMPORTS = "Base AddSub Sign Rand"

def _wl(ws):
    return "[" + "; ".join("%d" % w for w in ws) + "]"

def coq_term(case, model):
    toks = case.split(" ")
    op, a = toks[0], toks[1:]
    if len(case) > 300:
        return None
    ws = [int(h, 16) for h in a[-1][2:].split(",")] if len(a[-1]) > 2 else []
    if model == "err":
        rhs = "OutOfFuel"
    elif model.startswith("panic:"):
        rhs = coq_result(model)
    else:
        m = model.split(" ")
        if len(m) != 3:
            return None
        rhs = "Ret (%s, %s)" % (coq_payload(m[1]), _wl(ws[int(m[2][2:]):]))
    if op == "rnd.gen_biguint":
        return "gen_biguint rand %s %s" % (a[0][2:], _wl(ws)), rhs
    if op == "rnd.gen_bigint":
        return "gen_bigint rand %s %s" % (a[0][2:], _wl(ws)), rhs
    if op == "rnd.below":
        return "gen_biguint_below rand %s %s" % (coq_list(a[0]), _wl(ws)), rhs
    if op == "rnd.urange":
        return "gen_biguint_range rand addsub %s %s %s" % (coq_list(a[0]), coq_list(a[1]), _wl(ws)), rhs
    if op == "rnd.irange":
        return "gen_bigint_range rand signs addsub %s %s %s" % (coq_bigint(a[0]), coq_bigint(a[1]), _wl(ws)), rhs
    if op == "rnd.uu_incl":
        return ("(do u <- uu_new_inclusive rand addsub %s %s; uu_sample rand addsub u %s)"
                % (coq_list(a[0]), coq_list(a[1]), _wl(ws))), rhs
    if op == "rnd.ui_incl":
        return ("(do u <- ui_new_inclusive rand signs addsub %s %s; ui_sample rand signs addsub u %s)"
                % (coq_bigint(a[0]), coq_bigint(a[1]), _wl(ws))), rhs
    return None
