"""C02 — multiplication: operand lengths on both sides of every regime threshold (long <= 32,
half-Karatsuba 2x, Karatsuba <= 256, Toom-3), every length ratio, worst-case carry patterns,
forced sign arms of the Karatsuba middle term, low/inside/high zero digits, squares, scalar and
power-of-two fast paths, all sign combinations; hook-level mac3 / mac_digit / sub_sign /
scalar_mul incl. undersized accumulators (must panic on both sides)."""
from genlib import *

SHORT = [1, 2, 3, 31, 32, 33, 34, 63, 64, 65, 66, 96, 127, 128, 129, 130]
BIG = [255, 256, 257, 258, 300, 384, 512, 513, 514, 515, 770]
RATIOS = ["eq", "p1", "2m1", "2x", "2p1", "3x", "64x"]

THEOREMS = ["C02_umul", "C02_imul"]

def longer(s, ratio):
    return {"eq": s, "p1": s + 1, "2m1": max(2 * s - 1, s), "2x": 2 * s, "2p1": 2 * s + 1,
            "3x": 3 * s, "64x": 64 * s}[ratio]

PATTERNS = ["rand", "rand", "ones", "sparse", "zeros_inside", "runs", "alpha",
            "halves_eq", "low_half_big", "high_half_big", "zeros_low", "pow"]

def shaped(rng, n, pattern=None):
    """n canonical digits with a shape aimed at the Karatsuba/Toom-3 sign and zero handling."""
    if n == 0:
        return []
    pattern = pattern or rng.choice(PATTERNS)
    if pattern == "halves_eq" and n >= 2:          # x1 == x0  => NoSign (even n)
        h = rand_digits(rng, n // 2, "rand")
        d = h + h
        if n % 2:
            d.append(rng.choice([1, MAXD]))
        return d
    if pattern == "low_half_big" and n >= 2:       # x1 < x0 (even n): small top digit
        d = rand_digits(rng, n, "rand")
        d[n // 2 - 1] = MAXD
        d[-1] = 1
        return d
    if pattern == "high_half_big" and n >= 2:      # x1 > x0
        d = rand_digits(rng, n, "rand")
        b = n // 2
        d[b - 1] = rng.choice([0, 1])
        d[-1] = MAXD
        return d
    if pattern == "zeros_low":
        k = rng.randrange(0, n)
        d = [0] * k + rand_digits(rng, n - k, rng.choice(["rand", "ones"]))
        return d
    if pattern == "pow":
        return [0] * (n - 1) + [rng.choice([1, 1 << 63, MAXD])]
    return rand_digits(rng, n, pattern)

def pair(rng, s, ratio, cap):
    l = min(longer(s, ratio), cap)
    k = rng.random()
    if k < 0.12:
        a = shaped(rng, s)
        return a, list(a) if l == s else shaped(rng, l)         # squares
    if k < 0.30:
        return shaped(rng, s, "ones"), shaped(rng, l, "ones")
    if k < 0.40:                                                # forces the Minus arm
        return shaped(rng, s, "low_half_big"), shaped(rng, l, "high_half_big")
    if k < 0.48:                                                # forces the Plus arm (both less)
        return shaped(rng, s, "low_half_big"), shaped(rng, l, "low_half_big")
    if k < 0.55:
        return shaped(rng, s, "halves_eq"), shaped(rng, l)
    return shaped(rng, s), shaped(rng, l)

SCALARS = {
    "u32": [0, 1, 2, 3, 1 << 31, (1 << 32) - 1, 10],
    "u64": [0, 1, 2, 1 << 32, 1 << 63, (1 << 64) - 1, 3, (1 << 63) + 1],
    "u128": [0, 1, 2, 1 << 63, (1 << 64) - 1, 1 << 64, (1 << 64) + 1, 1 << 127, (1 << 128) - 1, 3 << 64],
    "i32": [0, 1, -1, 2, -2, -(1 << 31), (1 << 31) - 1, -3],
    "i64": [0, 1, -1, -(1 << 63), (1 << 63) - 1, 1 << 40, -(1 << 40)],
    "i128": [0, -1, -(1 << 127), (1 << 127) - 1, 1 << 64, -(1 << 64), -((1 << 64) + 5)],
}
BITS = {"u32": 32, "u64": 64, "u128": 128, "i32": 32, "i64": 64, "i128": 128}

def rand_scalar(rng, ty):
    if rng.random() < 0.6:
        return rng.choice(SCALARS[ty])
    bits = BITS[ty]
    if ty[0] == "u":
        return rng.getrandbits(rng.choice([bits, bits, bits // 2, 7]))
    v = rng.getrandbits(rng.choice([bits - 1, bits - 1, bits // 2, 7]))
    return -v if rng.random() < 0.5 else v

def api_case(rng, a, b):
    va, vb = val(a), val(b)
    if rng.random() < 0.5:
        a, b, va, vb = b, a, vb, va
    r = rng.random()
    if r < 0.45:
        return "u.mul %s %s" % (U(a), U(b))
    if r < 0.55:
        return "u.mul_assign %s %s" % (U(a), U(b))
    if r < 0.58:
        return "u.checked_mul %s %s" % (U(a), U(b))
    sa, sb = rng.choice([1, -1]), rng.choice([1, -1])
    if r < 0.85:
        return "i.mul %s %s" % (I(sa * va), I(sb * vb))
    if r < 0.95:
        return "i.mul_assign %s %s" % (I(sa * va), I(sb * vb))
    return "i.checked_mul %s %s" % (I(sa * va), I(sb * vb))

def room_acc(rng, lb, lc, extra):
    """an accumulator of lb+lc+extra digits that leaves room for b*c (top digits zero)"""
    n = lb + lc + extra
    k = rng.random()
    if k < 0.4:
        return [0] * n
    acc = [rng.choice([MAXD, rng.getrandbits(64)]) for _ in range(n)]
    for j in range(max(0, min(lb, lc) - 1 if k < 0.7 else lb + lc - 1), n):
        acc[j] = 0
    if k >= 0.7 and lb + lc - 1 >= 0 and n > lb + lc:
        # acc < B^(lb+lc) - (product bound): keep the digit below the top free
        acc[lb + lc - 1] = 0
    return acc

def hook_cases(rng, tier):
    out = []
    lens = [0, 1, 2, 3, 4, 5, 8, 31, 32, 33, 34, 40, 64, 65, 66, 70, 100, 130]
    n = 1500 if tier == "thorough" else 260
    for _ in range(n):
        lb, lc = rng.choice(lens), rng.choice(lens)
        b = shaped(rng, lb) if lb else []
        c = shaped(rng, lc) if lc else []
        k = rng.random()
        if k < 0.25 and lb:                      # non-canonical slices: high zero digits
            b = b[:-1] + [0] if rng.random() < 0.5 else b
            c = (c[:-1] + [0]) if lc and rng.random() < 0.5 else c
        if k > 0.85:                             # all-zero operand
            b = [0] * lb
        extra = rng.choice([1, 1, 1, 2, 5])
        acc = room_acc(rng, lb, lc, extra)
        out.append("h.mac3 %s %s %s" % (D(acc), D(b), D(c)))
    # undersized accumulators: the implementation's assertions / slice checks must fire
    for _ in range(60 if tier == "thorough" else 24):
        lb, lc = rng.choice([1, 2, 3, 33, 40, 66]), rng.choice([1, 2, 5, 33, 70])
        b, c = rand_digits(rng, lb, "ones"), rand_digits(rng, lc, "ones")
        short = rng.choice([0, 1, lb, lc, max(lb + lc - 1, 0), lb + lc])
        out.append("h.mac3 %s %s %s" % (D([0] * short), D(b), D(c)))
    for _ in range(300 if tier == "thorough" else 80):
        lb = rng.choice([0, 1, 2, 3, 5, 9, 10, 11, 32, 33])
        b = rand_digits(rng, lb, rng.choice(["ones", "rand", "alpha"])) if lb else []
        c = rng.choice([0, 1, 2, MAXD, MAXD, 1 << 63, rng.getrandbits(64)])
        extra = rng.choice([0, 1, 1, 2, 4])
        acc = [rng.choice([MAXD, MAXD, rng.getrandbits(64)]) for _ in range(lb)] + \
              [rng.choice([MAXD, 0, rng.getrandbits(64)]) for _ in range(extra)]
        if extra and rng.random() < 0.8:
            acc[-1] = 0
        out.append("h.mac_digit %s %s %s" % (D(acc), D(b), S("u64", c)))
    for _ in range(300 if tier == "thorough" else 80):
        la, lb = rng.choice([0, 1, 2, 3, 5, 16, 17, 64]), rng.choice([0, 1, 2, 3, 5, 16, 17, 64])
        a = rand_digits(rng, la) if la else []
        k = rng.random()
        if k < 0.25:
            b = list(a)
        elif k < 0.4 and la:
            b = list(a); b[0] ^= 1
        elif k < 0.5 and la:
            b = list(a); b[-1] = (b[-1] - 1) or 1
        else:
            b = rand_digits(rng, lb) if lb else []
        if rng.random() < 0.4:
            a = a + [0] * rng.randrange(3)
        if rng.random() < 0.4:
            b = b + [0] * rng.randrange(3)
        out.append("h.sub_sign %s %s" % (D(a), D(b)))
    for _ in range(200 if tier == "thorough" else 60):
        la = rng.choice([0, 1, 2, 3, 10, 40])
        a = rand_digits(rng, la, rng.choice(["ones", "rand", "alpha"])) if la else []
        c = rng.choice([0, 1, 2, 4, 1 << 31, 1 << 63, 3, MAXD, (1 << 63) + 1, 1 << rng.randrange(64), rng.getrandbits(64)])
        out.append("h.scalar_mul %s %s" % (U(a), S("u64", c)))
    for _ in range(40 if tier == "thorough" else 12):
        la, lb = rng.choice([0, 1, 2, 33, 70]), rng.choice([0, 1, 2, 33, 70])
        a = rand_digits(rng, la) + [0] * rng.randrange(2) if la else []
        b = rand_digits(rng, lb) + [0] * rng.randrange(2) if lb else []
        out.append("h.mul3 %s %s" % (D(a), D(b)))
    return out

def generate(rng, tier):
    cases = []
    thorough = tier == "thorough"
    cap = 800 if thorough else 400
    # every (shorter, ratio) pair at least twice
    reps = 8 if thorough else 2
    for s in SHORT:
        for ratio in RATIOS:
            if ratio == "64x" and s > (12 if thorough else 3):
                continue
            for _ in range(reps):
                a, b = pair(rng, s, ratio, cap)
                cases.append(api_case(rng, a, b))
    # random mix below 130 digits
    for _ in range(12000 if thorough else 900):
        s = rng.choice(SHORT)
        ratio = rng.choice(RATIOS[:-1])
        a, b = pair(rng, s, ratio, 260 if not thorough else 400)
        cases.append(api_case(rng, a, b))
    # zero / one / single digit operands
    for _ in range(400 if thorough else 80):
        a = rand_digits(rng, rng.choice([0, 0, 1, 1, 2, 3, 40]))
        b = rand_digits(rng, rng.choice([0, 1, 1, 2, 40]), rng.choice(["pow", "rand", "ones"]) if rng.random() < 0.5 else None) \
            if rng.random() < 0.9 else []
        if b and len(b) == 1 and rng.random() < 0.5:
            b = [rng.choice([1, 2, 1 << 63, 1 << 32, MAXD, 3])]
        cases.append(api_case(rng, a, b))
    # scalar forms
    for _ in range(1500 if thorough else 220):
        a = rand_digits(rng, rng.choice([0, 1, 1, 2, 3, 5, 33, 70]), rng.choice(["ones", "rand", "alpha"]))
        if rng.random() < 0.5:
            ty = rng.choice(["u32", "u64", "u128"])
            cases.append("u.mul_scalar %s %s" % (U(a), S(ty, rand_scalar(rng, ty))))
        else:
            ty = rng.choice(["u32", "u64", "u128", "i32", "i64", "i128"])
            sa = rng.choice([1, -1])
            cases.append("i.mul_scalar %s %s" % (I(sa * val(a)), S(ty, rand_scalar(rng, ty))))
    # big ones: Toom-3 entry and its recursion
    nbig = 2000 if thorough else 40
    for k in range(nbig):
        s = BIG[k % len(BIG)]
        ratio = rng.choice(RATIOS[:5] if s > 300 else RATIOS[:6])
        a, b = pair(rng, s, ratio, 1600)
        cases.append(api_case(rng, a, b))
    cases += hook_cases(rng, tier)
    return cases

def nontrivial(case):
    return nontrivial_default(case)

# ---- in-Coq cross-check of the extraction -------------------------------------------------
COQ_IMPORTS = "Base AddSub Mul"

def coq_term(case, model):
    toks = case.split(" ")
    op, a = toks[0], toks[1:]
    if sum(len(x) for x in a) > 700:
        return None
    if op == "u.mul":
        return "umul mul %s %s" % (coq_list(a[0]), coq_list(a[1])), coq_result(model)
    if op == "u.mul_assign":
        return "umul_assign mul %s %s" % (coq_list(a[0]), coq_list(a[1])), coq_result(model)
    if op in ("i.mul", "i.mul_assign"):
        f = "imul" if op == "i.mul" else "imul_assign"
        return "%s mul %s %s" % (f, coq_bigint(a[0]), coq_bigint(a[1])), coq_result(model)
    if op == "h.mac3":
        b, c = coq_list(a[1]), coq_list(a[2])
        return "mac3 (fuel3 %s %s) mul %s %s %s" % (b, c, coq_list(a[0]), b, c), coq_result(model)
    if op == "h.mac_digit":
        return "mac_digit mul %s %s %s" % (coq_list(a[0]), coq_list(a[1]), coq_z(coq_scalar(a[2])[1])), coq_result(model)
    if op == "h.sub_sign":
        return "sub_sign addsub %s %s" % (coq_list(a[0]), coq_list(a[1])), coq_result(model)
    if op == "h.scalar_mul":
        return "scalar_mul %s %s" % (coq_list(a[0]), coq_z(coq_scalar(a[1])[1])), coq_result(model)
    if op == "u.mul_scalar":
        ty, v = coq_scalar(a[1])
        f = "umul_u128 mul" if ty == "u128" else "umul_digit"
        return "%s %s %s" % (f, coq_list(a[0]), coq_z(v)), coq_result(model)
    return None
