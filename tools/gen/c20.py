"""C20 — multiplication work counter: the model's count of elementary digit multiplications
(sum of row lengths passed to mac_digit with a non-zero multiplier) must equal the
implementation's counter exactly, on the fixed bank (balanced n = 256..16384, unbalanced
n x (2n-1), n x 2n, n x 64n for n = 256, 512, 1024; LCG operands) and on random shapes; the
bank counts must satisfy cost(2n) <= 3.25 cost(n), cost(4096) < 4096^2/4, unbalanced <= lx*ly."""
import os, re
from genlib import *

BALANCED = [256, 512, 1024, 2048, 4096, 8192, 16384]
UNBAL_N = [256, 512, 1024]

# further unbalanced shapes (not powers of two) on which the universal clause "an unbalanced product
# costs no more than the schoolbook count" (theorem C20_quadratic, for ALL operands) is also observed
# on the implementation's counter; a shape that exceeds lx*ly is a failing input for the property
EXTRA_UNBAL = [(257, 3 * 257), (257, 64 * 257), (300, 900), (300, 2400), (300, 19200), (330, 21120),
               (400, 25600), (513, 1026), (513, 32832), (700, 2100), (1000, 3000), (33, 64 * 33), (65, 64 * 65)]

def bank(tier):
    out = [(n, n) for n in BALANCED]
    for n in UNBAL_N:
        out += [(n, 2 * n - 1), (n, 2 * n), (n, 64 * n)]
    return out

# shapes whose model count takes > 10 s in the OCaml driver: model-vs-hook comparison in the
# thorough tier only (the implementation-side criteria below cover them in every tier)
SLOW_MODEL = {(8192, 8192), (16384, 16384), (1024, 65536)}

def generate(rng, tier):
    # the slowest model counts (minutes in the OCaml driver) only in a real thorough run, not when the
    # drift sentinel merely escalated a quick run: the implementation-side criteria in extra_checks
    # cover those shapes in every tier anyway
    slow_ok = tier == "thorough" and not os.environ.get("VERIF_ESCALATED")
    shapes = [s for s in bank(tier) if slow_ok or s not in SLOW_MODEL]
    cases = ["h.bank_cost %s %s" % (N(a), N(b)) for a, b in shapes]
    cases += ["h.bank_cost %s %s" % (N(b), N(a)) for a, b in shapes if a != b and b <= 4096]
    lens = [1, 2, 3, 31, 32, 33, 34, 63, 64, 65, 66, 96, 127, 128, 129, 130, 255, 256, 257, 258, 300, 384, 512, 513, 600]
    n = 2000 if tier == "thorough" else 200
    for _ in range(n):
        la = rng.choice(lens)
        lb = rng.choice(lens) if rng.random() < 0.5 else min(rng.choice([la, la + 1, 2 * la - 1, 2 * la, 2 * la + 1, 3 * la]), 1300)
        a = rand_digits(rng, la, rng.choice(["rand", "rand", "ones", "sparse", "zeros_inside", "runs"]))
        b = rand_digits(rng, max(lb, 1), rng.choice(["rand", "rand", "ones", "sparse", "zeros_inside", "runs"]))
        if rng.random() < 0.15:
            b = list(a)
        cases.append("h.mul_cost %s %s" % (U(a), U(b)))
    return cases

def nontrivial(case):
    return True

RULE = ("each case multiplies two operands and reports the work counter; non-trivial: every case "
        "(operands have >= 1 digit and the count is compared exactly); distinct: distinct case lines")

KEY_FILES = ["base/Base.v", "base/X86.v", "model/AddSub.v", "model/ShiftCore.v", "model/Div.v", "model/Mul.v",
             "model/MulCost.v", "gen/Extracted.v", "slow/MulCostBank.v", "slow/MulCostBankBig.v"]

def bank_theorem(ctx, name, timeout):
    """Compile coq/slow/<name>.v (kernel VM evaluation of the bank) unless an up-to-date .vo exists;
    the output of its `Print Assumptions` must be closed."""
    import hashlib
    coq = os.path.join(ctx["root"], "coq")
    h = hashlib.sha256()
    for f in KEY_FILES:
        try:
            h.update(open(os.path.join(coq, f), "rb").read())
        except OSError:
            h.update(b"missing:" + f.encode())
    key = h.hexdigest()
    keyf = os.path.join(coq, "slow", name + ".key.aux")
    vo = os.path.join(coq, "slow", name + ".vo")
    if os.path.exists(vo) and os.path.exists(keyf) and open(keyf).read().strip() == key:
        return "checked (cached %s)" % key[:12]
    if os.path.exists(keyf):
        os.remove(keyf)
    rc, out = ctx["run"]("coqc -noglob $(grep -E '^-Q' _CoqProject | tr '\\n' ' ') -Q slow BigNum slow/%s.v" % name,
                         cwd=coq, timeout=timeout, shell=True)
    if rc == 0 and "Closed under the global context" in out and "Axioms:" not in out:
        with open(keyf, "w") as f:
            f.write(key)
        return "checked %s" % key[:12]
    return "FAILED rc=%s %s" % (rc, out[-300:])

def extra_checks(ctx):
    """Decide the three cost criteria on the implementation's own counter over the whole bank."""
    cov, broken, viol = {}, [], []
    ok, hbin, hlog = ctx["build_harness"]()
    if not ok:
        return {"coverage": {"bank": "hooks unavailable: " + hlog[:200]}, "broken": ["corr:work-counter-unavailable"]}
    shapes = bank(ctx["tier"]) + EXTRA_UNBAL
    lines = ["%d h.bank_cost n:%d n:%d" % (i, a, b) for i, (a, b) in enumerate(shapes)]
    res = ctx["run_sharded"](hbin, lines, "bank", ctx["workdir"])
    cost = {}
    for i, sh in enumerate(shapes):
        r = (res.get(str(i), {}).get("I") or ["missing"])[0]
        m = re.match(r"ok n:(\d+)$", r)
        if not m:
            broken.append("bank:%dx%d:%s" % (sh[0], sh[1], r[:40]))
            continue
        cost[sh] = int(m.group(1))
    cov["bank_counts"] = {"%dx%d" % k: v for k, v in cost.items()}
    ratios = {}
    for n in BALANCED[:-1]:
        if (n, n) in cost and (2 * n, 2 * n) in cost:
            r = cost[(2 * n, 2 * n)] / cost[(n, n)]
            ratios["%d->%d" % (n, 2 * n)] = round(r, 4)
            if 4 * cost[(2 * n, 2 * n)] > 13 * cost[(n, n)]:
                viol.append({"kind": "cost-doubling", "note": "cost(%d)=%d > 3.25*cost(%d)=3.25*%d" % (2 * n, cost[(2 * n, 2 * n)], n, cost[(n, n)]),
                             "case": "h.bank_cost n:%d n:%d" % (2 * n, 2 * n)})
    cov["bank_ratios"] = ratios
    if (4096, 4096) in cost and not 4 * cost[(4096, 4096)] < 4096 * 4096:
        viol.append({"kind": "cost-4096", "note": "cost(4096)=%d >= 4096^2/4" % cost[(4096, 4096)], "case": "h.bank_cost n:4096 n:4096"})
    for (a, b), c in cost.items():
        if c > a * b:
            viol.append({"kind": "cost-schoolbook", "note": "cost(%dx%d)=%d > %d" % (a, b, c, a * b), "case": "h.bank_cost n:%d n:%d" % (a, b)})
    # the in-Coq bank (coq/slow/, outside _CoqProject): quick part in every tier (cached), big part
    # in the thorough tier
    st = bank_theorem(ctx, "MulCostBank", 900)
    cov["bank_quick_theorem"] = st
    if st.startswith("FAILED"):
        broken.append("obligation:bank_quick (slow/MulCostBank.v)")
    elif ctx["tier"] == "thorough":
        st2 = bank_theorem(ctx, "MulCostBankBig", 5400)
        cov["bank_big_theorem"] = st2
        if st2.startswith("FAILED"):
            broken.append("obligation:bank_big (slow/MulCostBankBig.v)")
    else:
        cov["bank_big_theorem"] = "not built in the quick tier (coq/slow/MulCostBankBig.v, ~12 min)"
    return {"coverage": cov, "broken": broken, "violations": viol}

# ---- in-Coq cross-check of the extraction (small shapes only) ----------------------------
COQ_IMPORTS = "Base AddSub Mul MulCost"

def coq_term(case, model):
    toks = case.split(" ")
    if toks[0] != "h.mul_cost" or sum(len(x) for x in toks[1:]) > 1400:
        return None
    return "cost mul %s %s" % (coq_list(toks[1]), coq_list(toks[2])), coq_result(model)
