"""C01 — addition/subtraction: every length residue mod 5, carry chains across block
boundaries and into the tail / the longer operand."""
from genlib import *

LENS = list(range(0, 13)) + [14, 15, 16, 19, 20, 21, 24, 25, 26, 49, 50, 51, 100]
LENS_T = LENS + [255, 256, 1000]

THEOREMS = ["C01_uadd", "C01_usub", "C01_usub_ref_val", "C01_uchecked_sub", "C01_iadd", "C01_isub"]

def carry_pair(rng, la, lb):
    """a + b with an all-ones run in a met by a carry from b: chains across blocks."""
    a = [MAXD] * la
    if la:
        k = rng.randrange(la)
        a[k] = rng.choice([MAXD, MAXD - 1, rng.getrandbits(64)])
    b = rand_digits(rng, lb, rng.choice(["ones", "sparse", "rand"])) if lb else []
    if lb:
        b[0] |= 1
    return a, b

def borrow_pair(rng, la, lb):
    """a - b with a = B^k (borrow runs to the top digit)."""
    a = [0] * (la - 1) + [1] if la else []
    b = rand_digits(rng, min(lb, max(la - 1, 0)), rng.choice(["ones", "sparse", "rand"]))
    return a, b

def generate(rng, tier):
    lens = LENS_T if tier == "thorough" else LENS
    cases = []
    # systematic: all length pairs up to 12 x 12 with adversarial carry patterns (hook level)
    for la in range(0, 13):
        for lb in range(0, la + 1):
            a, b = carry_pair(rng, la, lb)
            cases.append("h.add2c %s %s" % (D(a), D(b)))
            a2, b2 = borrow_pair(rng, la, lb)
            cases.append("h.sub2 %s %s" % (D(a2), D(b2)))
    # `x += &y` with self SHORTER than other: low part carries out into the appended tail, whose
    # digits are all ones for 0, 1, 2, ... positions (the carry may run off the top)
    for la in range(0, 8):
        for extra in range(1, 5):
            for ones in range(0, extra + 1):
                a = [MAXD] * la
                b = [rng.choice([1, MAXD])] * la + [MAXD] * ones + ([rand_digit(rng) | 1] * (extra - ones))
                cases.append("u.add_assign %s %s" % (U(a), U(b)))
                if la:
                    a2 = rand_digits(rng, la, "ones")
                    cases.append("u.add_assign %s %s" % (U(a2), U([1] + [0] * (la - 1) + [MAXD] * extra)))
    n = 3000 if tier == "thorough" else 500
    for _ in range(n):
        la, lb = rng.choice(lens), rng.choice(lens)
        k = rng.random()
        if k < 0.3:
            a, b = carry_pair(rng, la, lb)
        elif k < 0.45:
            a, b = borrow_pair(rng, la, lb)
        else:
            a, b = rand_digits(rng, la), rand_digits(rng, lb)
        va, vb = val(a), val(b)
        r = rng.random()
        if r < 0.1:
            cases.append("u.add %s %s" % (U(a), U(b)))
        elif r < 0.2:
            cases.append("u.add_assign %s %s" % (U(a), U(b)))
        elif r < 0.3:
            cases.append("u.sub %s %s" % (U(a), U(b)))            # may underflow: must panic
        elif r < 0.4:
            hi, lo = (a, b) if va >= vb else (b, a)
            cases.append("u.sub %s %s" % (U(hi), U(lo)))
        elif r < 0.5:
            hi, lo = (a, b) if va >= vb else (b, a)
            cases.append("u.sub_ref_val %s %s" % (U(hi), U(lo)))
        elif r < 0.55:
            cases.append("u.sub_ref_val %s %s" % (U(a), U(b)))
        elif r < 0.62:
            cases.append("u.checked_sub %s %s" % (U(a), U(b)))
        elif r < 0.65:
            cases.append("u.checked_add %s %s" % (U(a), U(b)))
        elif r < 0.75:
            sa, sb = rng.choice([1, -1]), rng.choice([1, -1])
            cases.append("i.add %s %s" % (I(sa * va), I(sb * vb)))
        elif r < 0.85:
            sa, sb = rng.choice([1, -1]), rng.choice([1, -1])
            cases.append("i.sub %s %s" % (I(sa * va), I(sb * vb)))
        elif r < 0.88:
            # equal magnitudes, opposite/equal signs: result zero must be NoSign
            sa, sb = rng.choice([1, -1]), rng.choice([1, -1])
            cases.append("%s %s %s" % (rng.choice(["i.add", "i.sub"]), I(sa * va), I(sb * va)))
        elif r < 0.92:
            ty = rng.choice(["u32", "u64", "u128"])
            bits = {"u32": 32, "u64": 64, "u128": 128}[ty]
            s = rng.choice([0, 1, (1 << bits) - 1, rng.getrandbits(bits), 1 << (bits - 1)])
            cases.append("u.add_scalar %s %s" % (U(a), S(ty, s)))
        elif r < 0.96:
            ty = rng.choice(["u32", "u64", "u128"])
            bits = {"u32": 32, "u64": 64, "u128": 128}[ty]
            s = rng.choice([0, 1, (1 << bits) - 1, rng.getrandbits(bits)])
            cases.append("u.sub_scalar %s %s" % (U(a), S(ty, s)))
        elif r < 0.98:
            ty = rng.choice(["u32", "u64", "u128"])
            bits = {"u32": 32, "u64": 64, "u128": 128}[ty]
            s = rng.choice([0, 1, (1 << bits) - 1, rng.getrandbits(bits)])
            small = rand_digits(rng, rng.choice([0, 1, 1, 2, 2, 3]))
            if rng.random() < 0.4:
                # subtrahend LONGER than the scalar's width but with small low digits: must panic
                # (a truncating pad of the subtrahend would silently drop the high digits)
                small = [rng.choice([0, 1, 7]), 0] + [0] * rng.choice([0, 1, 2]) + [rng.choice([1, 5, MAXD])]
            cases.append("u.scalar_sub %s %s" % (S(ty, s), U(small)))
        else:
            cases.append("u.cmp %s %s" % (U(a), U(b)))
    # hook level: the asm loops alone, every size 0..27 with exact-fit buffers
    for size in range(0, 28):
        a = rand_digits(rng, size, rng.choice(["ones", "rand"])) if size else []
        b = rand_digits(rng, size, rng.choice(["ones", "rand", "sparse"])) if size else []
        cases.append("h.schoolbook_add %s %s %s" % (D(a), D(b), N(size)))
        cases.append("h.schoolbook_sub %s %s %s" % (D(a), D(b), N(size)))
    import extra_cases          # API-audit additions (docs/API_COVERAGE.md); produced after the original cases
    return cases + extra_cases.c01(rng, tier)

def nontrivial(case):
    return nontrivial_default(case)

# ---- in-Coq cross-check of the extraction -------------------------------------------------
COQ_IMPORTS = "Base X86 AddSub ExtraOrd"

def coq_term(case, model):
    toks = case.split(" ")
    op, a = toks[0], toks[1:]
    if sum(len(x) for x in a) > 400:
        return None
    two = lambda f: "%s %s %s" % (f, coq_list(a[0]), coq_list(a[1]))
    if op in ("u.add", "u.add_assign"):
        return two("uadd addsub"), coq_result(model)
    if op == "u.sub":
        return two("usub addsub"), coq_result(model)
    if op == "u.sub_ref_val":
        return two("usub_ref_val addsub"), coq_result(model)
    if op == "u.checked_sub":
        return two("uchecked_sub addsub"), coq_result(model, some=True)
    if op == "u.cmp":
        return two("ucmp"), coq_result(model)
    if op in ("i.add", "i.sub"):
        f = "iadd" if op == "i.add" else "isub"
        return "%s addsub %s %s" % (f, coq_bigint(a[0]), coq_bigint(a[1])), coq_result(model)
    if op in ("i.checked_add", "i.checked_sub"):     # API-audit additions (ExtraOrd.v)
        return "%s addsub %s %s" % (op[2:].replace("checked", "ichecked"), coq_bigint(a[0]), coq_bigint(a[1])), coq_result(model, some=True)
    if op == "h.sub2rev":
        return two("sub2rev"), coq_result(model)
    if op == "h.add2c":
        return two("add2c addsub"), coq_result(model)
    if op == "h.sub2":
        return two("sub2 addsub"), coq_result(model)
    return None
