"""C08 — primitive integer and float conversions.  Integers: every value within +-2 of every
primitive MIN/MAX and of 0, 2^64, 2^128 (both signs) against all twelve target types, through
to_T, TryFrom<&Big>, TryFrom<Big> (error returns the original) and back through From /
FromPrimitive / TryFrom<iN> / ToBigUint / ToBigInt.  Floats (compared as bit patterns): exact
53-/24-bit mantissas; exact-half, half-1ulp, half+1ulp tails; the deciding (sticky) bit at EVERY
position of every lower digit of 2..5-digit values (the stream that found defect D6); all-ones
mantissas (round up to the next power of two); magnitudes around 2^128 (f32 overflow) and 2^1024
(f64 overflow), both signs.  from_f64/from_f32: +-0, subnormals, every exponent around the integer
threshold, MIN/MAX, NaN, +-inf."""
from genlib import *

TYPES = {"u8": (False, 8), "u16": (False, 16), "u32": (False, 32), "u64": (False, 64),
         "usize": (False, 64), "u128": (False, 128),
         "i8": (True, 8), "i16": (True, 16), "i32": (True, 32), "i64": (True, 64),
         "isize": (True, 64), "i128": (True, 128)}
TNAMES = list(TYPES)

RULE = ("non-trivial: an integer case whose value lies within 2 of a primitive MIN/MAX or of 2^64/2^128 or has "
        ">= 2 digits; a float case whose operand has >= 2 digits or whose bit pattern is not +-0; "
        "distinct: distinct case lines")

def lo_hi(ty):
    s, b = TYPES[ty]
    return (-(1 << (b - 1)), (1 << (b - 1)) - 1) if s else (0, (1 << b) - 1)

def Ty(ty):
    return T(ty)

def big_to_cases(rng, x, types, full=True):
    """all the big -> integer routes for the value x against the given target types"""
    out = []
    for ty in types:
        t = Ty(ty)
        if x >= 0:
            out.append("u.to %s %s" % (t, U(x)))
            if full:
                out.append("u.try_into_owned %s %s" % (t, U(x)))
                if rng.random() < 0.3:
                    out.append("u.try_into %s %s" % (t, U(x)))
        out.append("i.to %s %s" % (t, I(x)))
        if full:
            out.append("i.try_into_owned %s %s" % (t, I(x)))
            if rng.random() < 0.3:
                out.append("i.try_into %s %s" % (t, I(x)))
    return out

def prim_from_cases(ty, n):
    s = S(ty, n)
    out = ["i.from %s" % s, "i.from_prim %s" % s, "u.from_prim %s" % s, "p.to_biguint %s" % s, "p.to_bigint %s" % s]
    if TYPES[ty][0]:
        out.append("u.try_from_prim %s" % s)
    else:
        out.append("u.from %s" % s)
    return out

def int_stream(rng, tier):
    cases = []
    # boundary values: +-2 around every MIN/MAX, 0, +-2^64, +-2^128
    centres = set([0, 1 << 64, 1 << 128, -(1 << 64), -(1 << 128), 1 << 63, 1 << 127, 1 << 192])
    for ty in TNAMES:
        lo, hi = lo_hi(ty)
        centres.add(lo)
        centres.add(hi)
    values = sorted(set(c + d for c in centres for d in (-2, -1, 0, 1, 2)))
    for x in values:
        # against every type with the same or neighbouring width, plus two random ones
        near = [ty for ty in TNAMES if abs(x) >> max(TYPES[ty][1] - 2, 0) in (0, 1, 2, 3, 4, 7, 8)] or []
        tys = sorted(set(near + rng.sample(TNAMES, 2)))
        if tier == "thorough":
            tys = TNAMES
        cases += big_to_cases(rng, x, tys)
    # random values of 0..4 digits against random types
    for _ in range(1500 if tier == "thorough" else 250):
        x = rand_signed(rng, [0, 1, 1, 2, 2, 3, 4])
        if rng.random() < 0.3:
            x >>= rng.randrange(0, 70)
        cases += big_to_cases(rng, x, [rng.choice(TNAMES)], full=rng.random() < 0.5)
    # integer -> big
    for ty in TNAMES:
        lo, hi = lo_hi(ty)
        vals = set([lo, lo + 1, lo + 2, hi, hi - 1, hi - 2, 0, 1, 2])
        if TYPES[ty][0]:
            vals |= set([-1, -2])
        b = TYPES[ty][1]
        if b > 64:
            vals |= set(v for v in [(1 << 64) - 1, 1 << 64, (1 << 64) + 1, -(1 << 64), -(1 << 64) + 1, -(1 << 64) - 1,
                                    (1 << 63), -(1 << 63)] if lo <= v <= hi)
        for _ in range(20 if tier == "thorough" else 4):
            vals.add(rng.randrange(lo, hi + 1))
            vals.add(rng.randrange(lo, hi + 1) >> rng.randrange(0, b))
        for n in sorted(vals):
            cases += prim_from_cases(ty, n)
    cases += ["u.from_bool n:0", "u.from_bool n:1", "i.from_bool n:0", "i.from_bool n:1"]
    # BigUint <-> BigInt
    for _ in range(200 if tier == "thorough" else 40):
        x = rand_signed(rng, [0, 0, 1, 2, 3, 5])
        if x >= 0:
            cases.append("i.from_biguint %s" % U(x))
            cases.append("u.to_bigint %s" % U(x))
        cases.append("i.to_biguint %s" % I(x))
        cases.append("i.try_into_biguint %s" % I(x))
        cases.append("i.try_into_biguint_owned %s" % I(x))
    return cases

def to_float_case(rng, x, p, hook_share=0.08, neg_share=0.15):
    """one conversion case for the non-negative value x and precision p (53 -> f64, 24 -> f32)"""
    name = "f64" if p == 53 else "f32"
    r = rng.random()
    if r < hook_share and x >> 64:
        return "h.high_bits_to_u64 %s" % D(to_digits(x))
    if r < hook_share + neg_share:
        return "i.to_%s %s" % (name, I(-x if rng.random() < 0.7 else x))
    return "u.to_%s %s" % (name, U(x))

def compose(M, p, s, tail):
    """M (p bits, top bit set) above s lower bits holding `tail`"""
    assert M >> (p - 1) == 1 and 0 <= tail < (1 << s)
    return (M << s) | tail

def rand_mant(rng, p, parity=None):
    M = (1 << (p - 1)) | rng.getrandbits(p - 1)
    k = rng.random()
    if k < 0.15:
        M = (1 << p) - 1                      # all ones: a round-up carries into the next power of two
    elif k < 0.25:
        M = 1 << (p - 1)
    if parity is not None:
        M = (M & ~1) | parity
    return M

def float_stream(rng, tier, p):
    cases = []
    add = lambda x, **kw: cases.append(to_float_case(rng, x, p, **kw))
    # small and exact values
    for x in [0, 1, 2, 3, (1 << p) - 1, 1 << p, (1 << p) + 1, (1 << p) + 2, (1 << p) + 3,
              (1 << 63), (1 << 64) - 1, 1 << 64, (1 << 64) + 1, (1 << 64) - (1 << (63 - p)), (1 << 64) - (1 << (64 - p))]:
        add(x, hook_share=0)
    # exactly-p-bit mantissas at many exponents
    for s in list(range(0, 140, 7)) + [64 - p, 128 - p, 192 - p, 11, 12, 40, 41, 200, 300]:
        add(compose(rand_mant(rng, p), p, s, 0))
    # tie / just below / just above, with the tail length running over 1..5 digits
    lens = list(range(1, 330, 5 if tier == "quick" else 2))
    for s in lens:
        half = 1 << (s - 1)
        for par in (0, 1):
            M = rand_mant(rng, p, par)
            add(compose(M, p, s, half))
            if s >= 2:
                add(compose(M, p, s, half - 1))
                add(compose(M, p, s, half + 1))
    # the sticky stream: total size 2..5 digits, a few top-digit bit lengths, deciding bit at EVERY position
    for nd in (2, 3, 4, 5):
        dbs = sorted(set([rng.randrange(1, 65) for _ in range(2 if tier == "quick" else 8)] + ([64, 1] if tier != "quick" else [rng.choice([1, 56, 64])])))
        for db in dbs:
            total = 64 * (nd - 1) + db
            s = total - p
            if s < 2:
                continue
            half = 1 << (s - 1)
            for j in range(0, s - 1):
                M = rand_mant(rng, p, j & 1)
                kind = rng.random()
                if kind < 0.6:
                    tail = half + (1 << j)            # just above the tie: the bit at j decides "up"
                elif kind < 0.8:
                    tail = 1 << j                     # far below half: stays
                else:
                    tail = half - (1 << j)            # just below the tie
                add(compose(M, p, s, tail))
    # sticky information spread over SEVERAL whole digits below an exact tie (even and odd mantissa):
    # the digits are drawn from a small special set and include equal pairs, complementary pairs
    # (d, 2^64 - d) and (d, !d), so that a sticky bit accumulated with +, ^ or & instead of "any
    # non-zero" collapses to zero (seed r6e: wrapping sum of the dropped pieces)
    special = [1, 2, (1 << 63), (1 << 64) - 1, (1 << 64) - 2, (1 << 63) + 1, (1 << 63) - 1, 1 << 32, (1 << 64) - (1 << 32)]
    for _ in range(60 if tier == "quick" else 600):
        nlow = rng.choice([2, 2, 2, 3, 3, 4])
        d0 = rng.choice(special) if rng.random() < 0.7 else rng.getrandbits(64) | 1
        kind = rng.random()
        if kind < 0.4:
            low = [d0, ((1 << 64) - d0) & ((1 << 64) - 1)]
        elif kind < 0.6:
            low = [d0, d0]
        elif kind < 0.75:
            low = [d0, d0 ^ ((1 << 64) - 1)]
        else:
            low = [rng.choice(special) for _ in range(nlow)]
        while len(low) < nlow:
            low.insert(rng.randrange(len(low) + 1), 0)
        rng.shuffle(low)
        lowv = sum(d << (64 * i) for i, d in enumerate(low))
        r = rng.choice([0, 0, 1, 5, 11, 32, 63])          # extra dropped bits in the straddling digit
        s = 64 * len(low) + r + (64 - p if rng.random() < 0.5 else rng.randrange(1, 64))
        half = 1 << (s - 1)
        rem = rng.choice([0, 0, 1, (1 << r) - 1]) if r else 0
        tail = half + ((rem % (1 << r)) << (64 * len(low)) if r else 0) + lowv
        if tail >= (1 << s):
            continue
        add(compose(rand_mant(rng, p, rng.choice([0, 0, 1])), p, s, tail), hook_share=0.2)
    # all-ones patterns 2^k - 1, largest exact 2^k - 2^(k-p), the tie above it and its neighbours
    for k in list(range(1, 200, 3)) + [64, 65, 127, 128, 129, 191, 192, 193, 255, 256, 257, 320]:
        add((1 << k) - 1)
        if k > p + 2:
            add((1 << k) - (1 << (k - p)))
            add((1 << k) - (1 << (k - p - 1)))
            add((1 << k) - (1 << (k - p - 1)) - 1)
            add((1 << k) - (1 << (k - p - 1)) + 1)
    # overflow thresholds: 2^128 for f32, 2^1024 for f64 (and both for both: f32 far beyond, f64 far below)
    for top in (128, 1024):
        for pp in (24, 53):
            base = [(1 << top), (1 << top) - 1, (1 << top) + 1,
                    (1 << top) - (1 << (top - pp)),                # largest finite of that precision
                    (1 << top) - (1 << (top - pp - 1)),            # the tie that rounds to 2^top
                    (1 << top) - (1 << (top - pp - 1)) - 1,
                    (1 << top) - (1 << (top - pp - 1)) + 1,
                    (1 << top) - (1 << (top - pp - 1)) + (1 << rng.randrange(0, top - pp - 2)),
                    (1 << top) - (1 << (top - pp - 1)) - (1 << rng.randrange(0, top - pp - 2)),
                    (1 << (top - 1)), (1 << (top + 1)), (1 << (top + 64)) + 5]
            for x in base:
                add(x, hook_share=0.05, neg_share=0.35)
    for _ in range(60 if tier == "quick" else 400):
        top = rng.choice([128, 1024])
        bits = top + rng.choice([-2, -1, 0, 0, 1, 2, 64])
        x = (1 << (bits - 1)) | rng.getrandbits(bits - 1)
        if rng.random() < 0.5:
            x |= ((1 << (p + 1)) - 1) << (bits - p - 1)       # top p+1 bits ones: rounds into 2^bits
        add(x, neg_share=0.3)
    # random values
    for _ in range(150 if tier == "quick" else 1500):
        add(rand_big(rng, [1, 2, 2, 3, 3, 4, 5, 8, 17]))
    return cases

def f64_bits(sign, E, frac):
    return (sign << 63) | (E << 52) | frac

def f32_bits(sign, E, frac):
    return (sign << 31) | (E << 23) | frac

def from_float_stream(rng, tier):
    cases = []
    def add64(b):
        op = rng.choice(["u.from_f64", "u.from_f64", "i.from_f64", "i.from_f64", "p.to_biguint", "p.to_bigint"])
        cases.append("%s %s" % (op, F(b)))
    def add32(b):
        op = rng.choice(["u.from_f32", "u.from_f32", "i.from_f32", "i.from_f32", "p.to_biguint", "p.to_bigint"])
        cases.append("%s %s" % (op, G(b)))
    FM, GM = (1 << 52) - 1, (1 << 23) - 1
    special64 = [0, 1, 2, FM, FM + 1, FM + 2,                       # +0, subnormals, min normal
                 f64_bits(0, 1022, 0), f64_bits(0, 1022, FM), f64_bits(0, 1023, 0), f64_bits(0, 1023, 1),
                 f64_bits(0, 1023, 1 << 51), f64_bits(0, 1023, FM), f64_bits(0, 1024, 0),
                 f64_bits(0, 1075, 0), f64_bits(0, 1075, FM), f64_bits(0, 1074, FM), f64_bits(0, 1076, 1),
                 f64_bits(0, 1086, 0), f64_bits(0, 1087, 0), f64_bits(0, 1150, FM), f64_bits(0, 1151, 0),
                 f64_bits(0, 2046, FM), f64_bits(0, 2046, 0),           # MAX
                 f64_bits(0, 2047, 0),                                  # inf
                 f64_bits(0, 2047, 1), f64_bits(0, 2047, 1 << 51), f64_bits(0, 2047, FM)]   # NaNs
    for b in special64:
        for s in (0, 1):
            for op in ("u.from_f64", "i.from_f64"):
                cases.append("%s %s" % (op, F(b | (s << 63))))
    special32 = [0, 1, 2, GM, GM + 1, f32_bits(0, 126, 0), f32_bits(0, 126, GM), f32_bits(0, 127, 0), f32_bits(0, 127, 1),
                 f32_bits(0, 127, 1 << 22), f32_bits(0, 127, GM), f32_bits(0, 150, 0), f32_bits(0, 150, GM), f32_bits(0, 149, GM),
                 f32_bits(0, 151, 1), f32_bits(0, 190, 0), f32_bits(0, 191, 0), f32_bits(0, 254, GM), f32_bits(0, 254, 0),
                 f32_bits(0, 255, 0), f32_bits(0, 255, 1), f32_bits(0, 255, 1 << 22), f32_bits(0, 255, GM)]
    for b in special32:
        for s in (0, 1):
            for op in ("u.from_f32", "i.from_f32"):
                cases.append("%s %s" % (op, G(b | (s << 31))))
    # every exponent around the integer threshold, a few fractions each; a sample of the others
    Es = list(range(1015, 1095)) + [0, 1, 2, 500, 1000, 1200, 1500, 2000, 2045, 2046, 2047]
    if tier == "thorough":
        Es = list(range(0, 2048, 1))
    for E in Es:
        for frac in (0, 1, FM, rng.getrandbits(52), rng.getrandbits(52) | 1, (1 << rng.randrange(52)),
                     FM ^ ((1 << rng.randrange(52)) - 1)):
            add64(f64_bits(rng.randrange(2) if rng.random() < 0.4 else 0, E, frac))
    for E in range(0, 256):
        for frac in (0, GM, rng.getrandbits(23), (1 << rng.randrange(23))):
            add32(f32_bits(rng.randrange(2) if rng.random() < 0.4 else 0, E, frac))
    return cases

def generate(rng, tier):
    cases = []
    cases += int_stream(rng, tier)
    cases += float_stream(rng, tier, 53)
    cases += float_stream(rng, tier, 24)
    cases += from_float_stream(rng, tier)
    # the recorded D6 witness (and its f32 / negative twins), at both levels
    w = 0xadac7f77c5a6a4 * (1 << 108) + (1 << 50)
    cases += ["u.to_f64 %s" % U(w), "i.to_f64 %s" % I(-w), "u.to_f32 %s" % U(w), "h.high_bits_to_u64 %s" % D(to_digits(w))]
    import extra_cases          # API-audit additions (docs/API_COVERAGE.md); produced after the original cases
    return cases + extra_cases.c08(rng, tier)

def nontrivial(case):
    toks = case.split(" ")
    op = toks[0]
    if nontrivial_default(case):
        return True
    for t in toks[1:]:
        if t[:2] in ("f:", "g:"):
            return int(t[2:], 16) & ~(1 << (63 if t[0] == "f" else 31)) != 0
        if t[:2] == "s:":
            ty, v = t.split(":")[1:]
            lo, hi = lo_hi(ty)
            return min(abs(int(v) - lo), abs(int(v) - hi)) <= 2 or abs(int(v)) >= (1 << 64) - 2
        if t[:2] in ("u:", "i:"):
            v = val(parse_digits("u:" + t.split(":")[-1]))
            for ty in TNAMES:
                lo, hi = lo_hi(ty)
                if min(abs(v - abs(lo)), abs(v - hi)) <= 2:
                    return True
    return False

# ---- in-Coq cross-check of the extraction -------------------------------------------------
COQ_IMPORTS = "Base Prim"
COQ_T = {"u8": "U8", "u16": "U16", "u32": "U32", "u64": "U64", "usize": "Usize", "u128": "U128",
         "i8": "I8", "i16": "I16", "i32": "I32", "i64": "I64", "isize": "Isize", "i128": "I128"}

def _scalar_payload(tok):
    return "(%s)" % tok.split(":")[2]

def _opt_scalar(model):
    if model == "none" or model == "err":
        return "Ret None"
    if model.startswith("ok s:"):
        return "Ret (Some %s)" % _scalar_payload(model[3:])
    return coq_result(model)

def _float(model):
    if model.startswith("ok f:") or model.startswith("ok g:"):
        return "Ret (%d)" % int(model[5:], 16)
    return coq_result(model)

def _opt_big(model):
    if model in ("none", "err"):
        return "Ret None"
    return coq_result(model, some=True)

def coq_term(case, model):
    toks = case.split(" ")
    op, a = toks[0], toks[1:]
    if sum(len(x) for x in a) > 200:
        return None
    if op in ("u.to", "u.try_into"):
        return "uto prim %s %s" % (COQ_T[a[0][2:]], coq_list(a[1])), _opt_scalar(model)
    if op in ("i.to", "i.try_into"):
        return "ito prim %s %s" % (COQ_T[a[0][2:]], coq_bigint(a[1])), _opt_scalar(model)
    if op == "u.to_f64":
        return "uto_f64 prim %s" % coq_list(a[0]), _float(model)
    if op == "u.to_f32":
        return "uto_f32 prim %s" % coq_list(a[0]), _float(model)
    if op == "i.to_f64":
        return "ito_f64 prim %s" % coq_bigint(a[0]), _float(model)
    if op == "i.to_f32":
        return "ito_f32 prim %s" % coq_bigint(a[0]), _float(model)
    if op == "h.high_bits_to_u64":
        return "high_bits_to_u64 prim %s" % coq_list(a[0]), coq_result(model)
    if op == "u.from_f64":
        return "ufrom_f64 (%d)" % int(a[0][2:], 16), _opt_big(model)
    if op == "u.from_f32":
        return "ufrom_f32 (%d)" % int(a[0][2:], 16), _opt_big(model)
    if op == "i.from_f64":
        return "ifrom_f64 (%d)" % int(a[0][2:], 16), _opt_big(model)
    if op == "i.from_f32":
        return "ifrom_f32 (%d)" % int(a[0][2:], 16), _opt_big(model)
    if op == "u.from_prim":
        ty, v = coq_scalar(a[0])
        return "ufrom_prim %s (%d)" % (COQ_T[ty], v), _opt_big(model)
    if op == "i.from":
        ty, v = coq_scalar(a[0])
        return "ifrom %s (%d)" % (COQ_T[ty], v), coq_result(model)
    if op == "u.from":
        ty, v = coq_scalar(a[0])
        return "ufrom %s (%d)" % (COQ_T[ty], v), coq_result(model)
    return None
