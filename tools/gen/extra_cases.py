"""extra_cases.py — cases for the operations added by the API audit (docs/API_COVERAGE.md).

Each owning generator ends with `return cases + extra_cases.cNN(rng, tier[, cases])`, so the
cases run under that property's check and all randomness still comes from the generator's rng
(the extra cases are produced AFTER the original ones: the original stream is unchanged).
Ops: harness/src/ops_extra.rs = ocaml/ops_extra.ml.
"""
from genlib import *

TYPES_U = ["u8", "u16", "u32", "u64", "usize", "u128"]
TYPES_I = ["i8", "i16", "i32", "i64", "isize", "i128"]

def _lo_hi(ty):
    bits = {"8": 8, "16": 16, "32": 32, "64": 64, "size": 64, "128": 128}[ty[1:]]
    return (-(1 << (bits - 1)), (1 << (bits - 1)) - 1) if ty[0] == "i" else (0, (1 << bits) - 1)

def _big(rng, lens=(0, 1, 1, 2, 2, 3, 5, 9)):
    n = rng.choice(lens)
    return val(rand_digits(rng, n)) if n else 0

def _near(rng, x):
    """values that are easily confused with x"""
    return rng.choice([x, x + 1, x - 1, -x, x + (1 << 64), x - (1 << 64), x ^ 1, x << 64, x >> 64, -x - 1])

# --------------------------------------------------------------------------------------- C01
def c01(rng, tier):
    """BigInt's inherent checked_add / checked_sub: all sign combinations, carries into a new digit,
    cancellation to zero and to a shorter magnitude."""
    cases = []
    n = 1500 if tier == "thorough" else 160
    for _ in range(n):
        a = _big(rng) * rng.choice([1, -1])
        k = rng.random()
        if k < 0.25:
            b = _near(rng, a)
        elif k < 0.4:
            b = -a + rng.choice([0, 1, -1, 1 << 64, -(1 << 64)])
        elif k < 0.5:
            nd = max(1, len(to_digits(abs(a))))
            b = rng.choice([1, -1]) * ((1 << (64 * nd)) - 1 - rng.choice([0, abs(a) % (1 << 64)]))
        else:
            b = _big(rng) * rng.choice([1, -1])
        cases.append("i.%s %s %s" % (rng.choice(["checked_add", "checked_sub"]), I(a), I(b)))
    for a in (0, 1, -1, MAXD, -MAXD, 1 << 64, -(1 << 64)):
        for b in (0, 1, -1, MAXD, -MAXD, 1 << 64, -(1 << 64)):
            cases.append("i.checked_add %s %s" % (I(a), I(b)))
            cases.append("i.checked_sub %s %s" % (I(a), I(b)))
    # hook level: `sub2rev(a, b)`: b := a - b in the longer-or-equal buffer b (the `&a - b` path); the op
    # existed in harness and driver but no generator produced it.  |b| >= |a| is its debug precondition
    # (violated in a few cases: both sides must then report the assertion), b > a must panic.
    for _ in range(1200 if tier == "thorough" else 150):
        la = rng.choice([0, 1, 2, 4, 5, 6, 9, 10, 11])
        lb = la + rng.choice([0, 0, 0, 1, 2, 5])
        a = rand_digits(rng, la, rng.choice(["rand", "ones", "sparse"])) if la else []
        k = rng.random()
        if k < 0.5:       # b <= a: low part below a, high part zero
            x = val(a)
            y = rng.choice([x, 0, x - 1 if x else 0, rng.randrange(0, x + 1)])
            b = to_digits(y)
            b = b + [0] * (lb - len(b)) if len(b) <= lb else b
        elif k < 0.75:    # borrow out of the common part
            b = [MAXD] * la + [0] * (lb - la)
        else:             # non-zero tail: b > a
            b = (rand_digits(rng, la, "rand") if la else []) + [0] * (lb - la)
            if lb > la:
                b[-1] = rng.choice([1, MAXD])
        cases.append("h.sub2rev %s %s" % (D(a), D(b)))
    cases += ["h.sub2rev d: d:", "h.sub2rev d:1 d:", "h.sub2rev d:1,2 d:1", "h.sub2rev d:5 d:5,0,0", "h.sub2rev d:5 d:6", "h.sub2rev d:0,1 d:1,0"]
    return cases

# --------------------------------------------------------------------------------------- C04
def _text(rng, v, radix, signed):
    digs = "0123456789abcdefghijklmnopqrstuvwxyz"
    s, x = "", abs(v)
    while True:
        s = digs[x % radix] + s
        x //= radix
        if not x:
            break
    s = "".join(c.upper() if rng.random() < 0.3 else c for c in s)
    s = "0" * rng.choice([0, 0, 1, 3, 40]) + s                     # leading zeros: same value
    if rng.random() < 0.3 and len(s) > 1:
        i = rng.randrange(1, len(s) + 1)
        s = s[:i] + "_" * rng.choice([1, 2]) + s[i:]
    if v < 0:
        s = "-" + s
    elif rng.random() < 0.3:
        s = "+" + s
    if v == 0 and signed and rng.random() < 0.5:
        s = "-" + s.lstrip("+")                                     # "-0": NoSign
    return s

def _arb_bytes(rng, digits, sign=None, slack=True):
    """bytes from which arbitrary 1.4.2 decodes exactly `digits` (u64, high zeros allowed)"""
    out = bytearray()
    if sign is not None:
        out.append(rng.choice([1, 3, 0xff]) if sign >= 0 else rng.choice([0, 2, 0xfe]))
    for i, d in enumerate(digits):
        out.append(rng.choice([1, 0x81, 0xff]))
        out += d.to_bytes(8, "little")
    if slack and digits and rng.random() < 0.3:
        # truncate the last digit: missing bytes are zero-filled, so drop only zero bytes
        while out and out[-1] == 0 and rng.random() < 0.7:
            out.pop()
    elif rng.random() < 0.5:
        out.append(rng.choice([0, 2, 0x80]))                        # explicit stop
        out += bytes(rng.getrandbits(8) for _ in range(rng.choice([0, 1, 9])))
    return bytes(out)

def _scalar_for(rng, x):
    ty = rng.choice(TYPES_U + TYPES_I)
    lo, hi = _lo_hi(ty)
    k = rng.random()
    if k < 0.3:
        s = rng.choice([lo, hi, 0, 1, hi - 1, lo + 1 if lo < 0 else 1])
    elif k < 0.6 and lo <= x <= hi:
        s = x
    elif k < 0.7 and lo <= -x <= hi:
        s = -x
    elif k < 0.8:
        s = max(lo, min(hi, (x % (1 << 64)) * rng.choice([1, -1]) + rng.choice([0, 1, -1])))
    else:
        s = rng.randrange(lo, hi + 1)
    return ty, s

def _histx(rng, kind, tier):
    signed = kind == "i"
    lens = (0, 1, 1, 2, 3, 5) if tier != "thorough" else (0, 1, 1, 2, 3, 5, 9, 17)
    v = _big(rng, lens) * (rng.choice([1, -1]) if signed else 1)
    k = rng.random()
    if k < 0.3:
        r = rng.choice([2, 8, 10, 16, 36, rng.randrange(2, 37)])
        ctor = "str:%d:%s" % (r, T(_text(rng, v, r, signed))[2:])
    elif k < 0.45:
        r = rng.choice([2, 10, 16, 36])
        ctor = "pb:%d:%s" % (r, _text(rng, v, r, signed).encode().hex())
    elif k < 0.6:
        ty = rng.choice(TYPES_U + (TYPES_I if signed else []))
        lo, hi = _lo_hi(ty)
        v = rng.choice([lo, hi, 0, 1, hi - 1, rng.randrange(lo, hi + 1)])
        ctor = "prim:%s:%d" % (ty, v)
    else:
        digits = to_digits(abs(v)) + [0] * rng.choice([0, 0, 1, 3])    # high zero digits: must be stripped
        if rng.random() < 0.15:
            digits = [0] * rng.choice([1, 2, 5])                        # all zero: value 0, NoSign
            v = 0
        sign = None
        if signed:
            sign = 1 if v >= 0 else -1
            if v == 0:
                sign = rng.choice([1, -1])                              # Plus / Minus with zero magnitude
        ctor = "%s:%s" % (rng.choice(["arb", "arbrest"]), _arb_bytes(rng, digits, sign).hex())
    ops = []
    x = v
    for _ in range(rng.choice([0, 1, 2, 4, 8])):
        if signed:
            ty, s = _scalar_for(rng, x)
            name = rng.choice(["addp", "addp", "subp", "subp", "mulp", "divp", "remp"])
            if name in ("divp", "remp") and s == 0 and rng.random() < 0.9:
                s = 1 if _lo_hi(ty)[0] == 0 else -1
            ops.append("%s:%s:%d" % (name, ty, s))
            if name == "addp":
                x += s
            elif name == "subp":
                x -= s
            elif name == "mulp":
                x *= s
            elif s == 0:
                break
            else:
                q = abs(x) // abs(s) * (1 if (x < 0) == (s < 0) else -1)
                x = q if name == "divp" else x - q * s
        else:
            w = rng.choice([32, 64, 128])
            s = rng.choice([0, 1, (1 << w) - 1, x % (1 << w), rng.getrandbits(w)])
            name = rng.choice(["adds", "subs", "muls", "divs", "rems"])
            if name in ("divs", "rems") and s == 0:
                s = 1
            if name == "subs" and s > x and rng.random() < 0.9:
                s = x % (1 << w)
            ops.append("%s:%d:%d" % (name, w, s))
            if name == "adds":
                x += s
            elif name == "subs":
                if s > x:
                    break
                x -= s
            elif name == "muls":
                x *= s
            elif name == "divs":
                x //= s
            else:
                x %= s
    return "histx.%s %s h:%s" % (kind, ctor, ";".join(ops))

def _ctor_for(rng, kind, v):
    """some constructor (old or new) whose result is exactly v"""
    signed = kind == "i"
    routes = ["str", "str", "pb", "arb", "arb", "arbrest", "raw"]
    fitting = [ty for ty in (TYPES_U + (TYPES_I if signed else [])) if _lo_hi(ty)[0] <= v <= _lo_hi(ty)[1]]
    if fitting:
        routes += ["prim", "prim"]
    r = rng.choice(routes)
    if r == "str":
        radix = rng.choice([2, 10, 16, 36, rng.randrange(2, 37)])
        return "str:%d:%s" % (radix, T(_text(rng, v, radix, signed))[2:])
    if r == "pb":
        radix = rng.choice([2, 10, 16, 36])
        return "pb:%d:%s" % (radix, _text(rng, v, radix, signed).encode().hex())
    if r == "prim":
        return "prim:%s:%d" % (rng.choice(fitting), v)
    digits = to_digits(abs(v)) + [0] * rng.choice([0, 0, 1, 3])
    if r == "raw":
        if signed:
            return "parts:%s:%s" % ("-" if v < 0 else rng.choice("+0") if v == 0 else "+", fmt_digits(digits))
        return "vec:%s" % fmt_digits(digits)
    sign = None
    if signed:
        sign = (1 if v > 0 else -1) if v else rng.choice([1, -1])
    return "%s:%s" % (r, _arb_bytes(rng, digits, sign, slack=False).hex())

def _detour(rng, kind, v):
    """operations that leave v unchanged"""
    ops = []
    for _ in range(rng.choice([0, 0, 1, 2])):
        if kind == "i":
            ty = rng.choice(TYPES_U + TYPES_I)
            lo, hi = _lo_hi(ty)
            s = rng.choice([hi, lo if lo else 1, 1, rng.randrange(lo, hi + 1)]) or 1
            ops += rng.choice([["addp:%s:%d" % (ty, s), "subp:%s:%d" % (ty, s)], ["subp:%s:%d" % (ty, s), "addp:%s:%d" % (ty, s)],
                               ["mulp:%s:%d" % (ty, s), "divp:%s:%d" % (ty, s)], ["neg", "neg"], ["not", "not"]])
        else:
            w = rng.choice([32, 64, 128])
            s = rng.choice([(1 << w) - 1, 1, rng.getrandbits(w) or 1])
            ops += rng.choice([["adds:%d:%d" % (w, s), "subs:%d:%d" % (w, s)], ["muls:%d:%d" % (w, s), "divs:%d:%d" % (w, s)],
                               ["shl:%d" % (s % 200), "shr:%d" % (s % 200)]])
    return ";".join(ops)

def _xpair(rng, tier):
    kind = rng.choice("ui")
    lens = (0, 1, 1, 2, 3, 5) if tier != "thorough" else (0, 1, 1, 2, 3, 5, 9)
    a = _big(rng, lens) * (rng.choice([1, -1]) if kind == "i" else 1)
    if rng.random() < 0.3 and a.bit_length() > 100:
        a = a % (1 << rng.choice([7, 8, 63, 64, 127]))            # values that fit primitives: more routes
    b = a
    if rng.random() < 0.3:
        b = rng.choice([a + 1, a - 1, -a, a + (1 << 64), a ^ (1 << 64), a << 64, _near(rng, a)])
        if kind == "u":
            b = abs(b)
    return "histx.pair %s %s h:%s %s h:%s" % (kind, _ctor_for(rng, kind, a), _detour(rng, kind, a),
                                               _ctor_for(rng, kind, b), _detour(rng, kind, b))

def c04(rng, tier):
    cases = []
    thorough = tier == "thorough"
    # comparison operators, sort, hash
    for _ in range(3000 if thorough else 300):
        a = _big(rng)
        b = rng.choice([_near(rng, a), _big(rng)])
        if rng.random() < 0.5:
            cases.append("ord.u %s %s" % (U(abs(a)), U(abs(b))))
        else:
            sa, sb = rng.choice([1, -1]), rng.choice([1, -1])
            cases.append("ord.i %s %s" % (I(sa * a), I(sb * b)))
    # equal top digits, different low digits (direction of the digit comparison)
    for nd in (2, 3, 5):
        top = rand_digits(rng, 1)
        lo1, lo2 = rand_digits(rng, nd - 1, "rand"), rand_digits(rng, nd - 1, "rand")
        x, y = val(lo1 + top), val(lo2 + top)
        for s in (1, -1):
            cases.append("ord.i %s %s" % (I(s * x), I(s * y)))
        cases.append("ord.u %s %s" % (U(x), U(y)))
    for _ in range(400 if thorough else 60):
        n = rng.choice([0, 1, 2, 3, 7, 12])
        base = _big(rng)
        xs = [rng.choice([_near(rng, base), _big(rng), base]) for _ in range(n)]
        if rng.random() < 0.5:
            cases.append(("sort.u " + " ".join(U(abs(x)) for x in xs)).rstrip())
        else:
            cases.append(("sort.i " + " ".join(I(x * rng.choice([1, -1])) for x in xs)).rstrip())
    for _ in range(600 if thorough else 80):
        a = _big(rng)
        cases.append("hash.u %s" % U(a))
        cases.append("hash.i %s" % I(a * rng.choice([1, -1])))
    cases += ["hash.u u:", "hash.i i:0:", "hash.u u:0,1", "hash.i i:-:0,1", "hash.i i:+:1", "hash.i i:-:1"]
    # histories with the extra constructors / BigInt scalar operations
    for i in range(6000 if thorough else 500):
        cases.append(_histx(rng, "ui"[i % 2], tier))
    # two values obtained through different constructors / detours: equal integers must be indistinguishable
    for _ in range(4000 if thorough else 400):
        cases.append(_xpair(rng, tier))
    # documented panics inside a history: bad radix in the constructor, scalar division by zero
    # (texts that do not parse are the business of u.parse_err / i.parse_err, C06: here the harness would
    # `expect` on the error, which is a failure of the script, not of the crate)
    cases += ["histx.i str:37:5 h:", "histx.u str:1:0 h:", "histx.i prim:i128:%d h:divp:i8:0" % -(1 << 127),
              "histx.i prim:i8:-128 h:remp:u128:0;addp:u8:1"]
    # arbitrary: raw decoding, incl. truncated element, empty input, stop byte, trailing garbage
    for _ in range(1500 if thorough else 200):
        nd = rng.choice([0, 1, 2, 3, 6])
        digits = [rng.choice([0, 0, MAXD, rng.getrandbits(64)]) for _ in range(nd)]
        kind = rng.choice("ui")
        b = _arb_bytes(rng, digits, rng.choice([1, -1]) if kind == "i" else None)
        if rng.random() < 0.3:
            b = bytes(rng.getrandbits(8) for _ in range(rng.choice([0, 1, 8, 9, 10, 17, 40])))
        cases.append("arb.%s%s %s" % (kind, rng.choice(["", "_rest"]), Bytes(b)))
    cases += ["arb.u b:", "arb.i b:", "arb.i b:01", "arb.i b:00", "arb.u b:01", "arb.u b:00", "arb.hint n:0", "arb.hint n:3",
              "arb.u b:01" + "00" * 8 + "01" + "00" * 8, "arb.i b:0101" + "00" * 8]
    # quickcheck: seeded generators of several sizes; shrink candidates of structured values
    for size in (1, 2, 10, 100) + ((400,) if thorough else ()):
        for seed in range(8 if thorough else 3):
            cases.append("qc.u n:%d n:%d n:%d" % (size, seed * 7919 + size, 40))
            cases.append("qc.i n:%d n:%d n:%d" % (size, seed * 104729 + size, 40))
    for _ in range(200 if thorough else 30):
        d = [rng.choice([0, 1, MAXD, rng.getrandbits(64)]) for _ in range(rng.choice([1, 2, 3, 6]))]
        d[-1] = d[-1] or 1
        cases.append("qc.shrink_u %s" % U(d))
        cases.append("qc.shrink_i %s" % I(val(d) * rng.choice([1, -1])))
    cases += ["qc.shrink_u u:", "qc.shrink_i i:0:", "qc.shrink_u u:0,1", "qc.shrink_i i:-:0,1", "qc.shrink_u u:1", "qc.shrink_i i:-:1"]
    return cases

# --------------------------------------------------------------------------------------- C06
def _fmt_token(kind, plus, alt, zero, width, fill, align):
    flags = ("p" if plus else "") + ("a" if alt else "") + ("z" if zero else "") or "-"
    return T("%s.%s.%d.%d.%s" % (kind, flags, width, fill, align))

def c06(rng, tier):
    """`{:?}` through the whole flag / fill / alignment cross product of the Display cases, and the
    error values of the parsers."""
    cases = []
    aligns = [("n", 32)] + [(a, f) for a in "lcr" for f in (32, 42, 48, 95)]
    for (al, fill) in aligns:
        for plus in (0, 1):
            for alt in (0, 1):
                for zero in (0, 1):
                    for rep in range(3 if tier == "thorough" else 1):
                        v = rng.choice([0, 1, 255, rng.getrandbits(rng.choice([8, 40, 64, 70, 200]))])
                        neg = rng.random() < 0.5
                        ln = len(str(v)) + (1 if (neg and v) or plus else 0)
                        width = rng.choice([0, ln - 1, ln, ln + 1, ln + 5, ln + 6, rng.randrange(0, 60)])
                        tok = _fmt_token("d", plus, alt, zero, max(width, 0), fill, al)
                        cases.append("u.fmt_debug %s %s" % (tok, U(v)))
                        cases.append("i.fmt_debug %s %s" % (tok, I(-v if neg else v)))
    big = val(rand_digits(rng, 65))
    cases.append("u.fmt_debug %s %s" % (_fmt_token("d", 0, 1, 0, 0, 32, "n"), U(big)))
    cases.append("i.fmt_debug %s %s" % (_fmt_token("d", 1, 1, 1, 1300, 42, "c"), I(-big)))
    texts = ["", "+", "-", "_", "_1", "1_", "+_1", "-_1", "++1", "-+1", "+-1", "12", "-12", "+12", "1 2", "12x", "zz", "1__2",
             "0", "-0", "+0", "00", "g", "9", "a", "A", "1é", "é", " 1", "1 ", "0x10", "1e3", "-", "--1", "1-", "1+"]
    for t in texts:
        for r in (2, 10, 16, 36):
            cases.append("u.parse_err %s %s" % (T(t), N(r)))
            cases.append("i.parse_err %s %s" % (T(t), N(r)))
    for t in ("1", "", "x"):
        for r in (0, 1, 37, 256):                                     # bad radix: panics before any error value
            cases.append("%s.parse_err %s %s" % (rng.choice("ui"), T(t), N(r)))
    return cases

# --------------------------------------------------------------------------------------- C08
def c08(rng, tier):
    cases = []
    for x in [0, 1, 127, 128, 129, 255, 256, 257, MAXD, 1 << 64, (1 << 128) - 1, 1 << 128] + [_big(rng) for _ in range(40)]:
        cases.append("u.try_err %s" % U(x))
        cases.append("i.try_err %s" % I(x))
        cases.append("i.try_err %s" % I(-x))
    for x in (-128, -129, -127, -1):
        cases.append("i.try_err %s" % I(x))
    return cases

# --------------------------------------------------------------------------------------- C10
def c10(rng, tier):
    return ["f.sum0 t:u", "f.sum0 t:i", "f.product0 t:u", "f.product0 t:i"]

# --------------------------------------------------------------------------------------- C11
def c11(rng, tier, cases):
    """the inherent sqrt / cbrt / nth_root on a share of the cases generated for the Roots methods
    (all of the failure cases, the f64-guess boundary values, every 3rd of the rest)"""
    out = []
    for i, c in enumerate(cases):
        op, rest = c.split(" ", 1)
        if op.split(".")[1] in ("sqrt", "cbrt", "nth_root") and not op.endswith("_inh"):
            toks = rest.split(" ")
            degree0 = len(toks) > 1 and toks[1] == "n:0"
            negative = toks[0].startswith("i:-")
            if degree0 or negative or i % 3 == 0:
                out.append("%s_inh %s" % (op, rest))
    return out

# --------------------------------------------------------------------------------------- C19
def c19(rng, tier):
    cases = []
    zs = ["z:-1", "z:0", "z:1"]
    for a in zs:
        cases += ["sg.sign_debug " + a, "sg.sign_hash " + a, "sg.sign_copy " + a]
        for b in zs:
            cases += ["sg.sign_eq %s %s" % (a, b), "sg.sign_cmp %s %s" % (a, b)]
    return cases
