"""C15 — unsafe code stays in bounds: the asm add/sub loops on exact-fit buffers for every length
residue mod 5 (run a second and third time under a guard-page allocator: every heap block ends at /
starts after an inaccessible page, so any out-of-bounds access faults), borrowed operands compared
with saved copies, emitted text validated byte-wise as ASCII, gen_biguint for every bit size."""
from genlib import *
import os, random

def generate(rng, tier):
    cases = []
    top = 64 if tier == "thorough" else 31
    for la in range(0, top):
        for lb in sorted(set([0, 1, 4, 5, 6, la // 2, max(la - 1, 0), la])):
            if lb > la:
                continue
            a = rand_digits(rng, la, rng.choice(["ones", "rand"])) if la else []
            b = rand_digits(rng, lb, rng.choice(["ones", "rand", "sparse"])) if lb else []
            cases.append("c15.exact_add %s %s" % (D(a), D(b)))
            cases.append("c15.exact_sub %s %s" % (D(a), D(b)))       # a < b: must panic, in bounds
            if la != lb:
                cases.append("c15.exact_sub %s %s" % (D(b), D(a)))   # subtrahend LONGER than the minuend
    for _ in range(300 if tier == "thorough" else 80):
        a = rand_digits(rng, rng.choice([0, 1, 4, 5, 6, 9, 10, 11, 25, 40]))
        b = rand_digits(rng, rng.choice([0, 1, 4, 5, 6, 9, 10, 11, 25, 40]))
        cases.append("c15.preserve %s %s %s" % (N(rng.randrange(4)), U(a), U(b)))
    for radix in range(2, 37):
        for n in ([0, 1, 2, 5] if tier == "quick" else [0, 1, 2, 3, 5, 9, 70]):
            cases.append("c15.ascii %s %s" % (U(rand_digits(rng, n)), N(radix)))
    for bits in list(range(0, 131)) + [191, 192, 193, 255, 256, 257, 1023, 1024, 1025]:
        cases.append("c15.gen_biguint %s" % N(bits))
    return cases

def nontrivial(case):
    return not case.startswith("c15.gen_biguint n:0") and len(case) > 30

def unsafe_reaching_cases(rng, tier):
    """API cases of the properties whose code reaches the unsafe blocks: add/sub (asm loops), division
    (hardware divide), text output (from_utf8_unchecked), random generation (u32 view)."""
    import importlib
    out = []
    for name, per in (("c01", 400), ("c03", 900), ("c06", 500), ("c18", 500), ("c02", 150)):
        try:
            mod = importlib.import_module(name)
            cs = [c for c in mod.generate(rng, "quick") if not c.startswith("h.") and len(c) < 5000]
        except Exception:
            continue
        rng.shuffle(cs)
        out += cs[: per * (3 if tier == "thorough" else 1)]
    return out

def extra_checks(ctx):
    """Re-run the same cases under the guard-page allocator, both placements (debug build); then a
    RELEASE build under the guard allocator (debug assertions off: an out-of-bounds access hidden
    behind a debug_assert!, or a hardware-divide fault, shows as a signal) on these cases plus the
    API cases of the properties whose code reaches the unsafe blocks."""
    out = {"coverage": {}, "broken": [], "violations": []}
    ok, binp, log = ctx["build_harness"](release=False, features="std,rand,serde,guard", target="target_guard")
    if not ok:
        out["broken"].append("corr:guard-harness-build")
        out["coverage"]["guard_log"] = log[:500]
        return out
    rng = random.Random(ctx["seed"] * 131 + 15)
    cases = generate(rng, ctx["tier"])
    lines = ["%d %s" % (i, c) for i, c in enumerate(cases)]
    total = 0
    okr, binr, logr = ctx["build_harness"](release=True, features="std,rand,serde,guard", target="target_guard")
    if okr:
        os.environ["BN_GUARD"] = "end"; ctx["env"]["BN_GUARD"] = "end"
        rcases = cases + unsafe_reaching_cases(rng, ctx.get("gen_tier", ctx["tier"]))
        rlines = ["%d %s" % (i, c) for i, c in enumerate(rcases)]
        wd = os.path.join(ctx["workdir"], "guard_release")
        os.makedirs(wd, exist_ok=True)
        res = ctx["run_sharded"](binr, rlines, "gr", wd)
        badr = 0
        for i, c in enumerate(rcases):
            r = res.get(str(i), {}).get("I", ["missing"])[0]
            if r.startswith("crash") or r in ("missing", "hang") or (c.startswith(("c15.preserve", "c15.ascii", "c15.gen_biguint")) and (r == "ok n:0" or r.startswith("panic"))):
                badr += 1
                if badr <= 2:
                    out["violations"].append({"kind": "guard-release", "case": c, "impl": r,
                                              "note": "signal / hang / failed observation in the release build under the guard-page allocator"})
        out["coverage"]["guard_release_cases"] = len(rcases)
        out["coverage"]["guard_release_faults"] = badr
        ctx["log"]("[C15] release build under the guard allocator: %d cases, %d faults" % (len(rcases), badr))
    else:
        out["broken"].append("corr:guard-release-harness-build")
    for mode in ("end", "start"):
        os.environ["BN_GUARD"] = mode
        ctx["env"]["BN_GUARD"] = mode
        wd = os.path.join(ctx["workdir"], "guard_" + mode)
        os.makedirs(wd, exist_ok=True)
        res = ctx["run_sharded"](binp, lines, "g", wd)
        bad = 0
        for i, c in enumerate(cases):
            r = res.get(str(i), {}).get("I", ["missing"])[0]
            total += 1
            if r.startswith("crash") or r in ("missing", "hang") or r == "ok n:0" or (r.startswith("panic") and c.startswith(("c15.preserve", "c15.ascii", "c15.gen_biguint"))):
                bad += 1
                if bad <= 2:
                    out["violations"].append({"kind": "guard-%s" % mode, "case": c, "impl": r,
                                              "note": "faulted / failed under the guard-page allocator (%s placement)" % mode})
        out["coverage"]["guard_%s_cases" % mode] = len(cases)
        out["coverage"]["guard_%s_faults" % mode] = bad
    ctx["env"].pop("BN_GUARD", None)
    os.environ.pop("BN_GUARD", None)
    # translation validation of the compiled asm loops in the binaries built here (debug + release)
    import json, sys
    bins = []
    for kw in (dict(release=False), dict(release=True)):
        okb, b, _ = ctx["build_harness"](hooks=True, **kw)
        if okb:
            bins.append(b)
    rc, tv = ctx["run"]([sys.executable, os.path.join(ctx["root"], "tools", "asm_tv.py")] + bins)
    try:
        tvj = json.loads(tv)
    except Exception:
        tvj = {"ok": False, "error": tv[-300:]}
    out["coverage"]["compiled_asm"] = {os.path.basename(os.path.dirname(k)): {"instances": v["instances"], "adc": v["adc"], "sbb": v["sbb"],
                                        "deviating": v["deviating"], "sample_registers": (v["sample"] or {}).get("regs")}
                                       for k, v in tvj.get("binaries", {}).items()}
    if not tvj.get("ok"):
        out["violations"].append({"kind": "compiled-asm", "note": "a compiled instance of the asm loop deviates from the proved program (or none was found): %s" % json.dumps(tvj)[:600]})
    ctx["log"]("[C15] compiled asm loops: %s" % {k: (v["instances"], len(v["deviating"])) for k, v in tvj.get("binaries", {}).items()})
    ctx["log"]("[C15] guard allocator: %d executions, violations %d" % (total, len(out["violations"])))
    return out
