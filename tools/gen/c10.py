"""C10 — every operator form vs the ref-ref operation.  One case = one operator x one operand pair;
the harness runs every form of that operator for the operand types of the case (by value / by
reference on either side, scalar on the left or right, compound assignment, scalar %= big,
checked_*, Sum/Product) and compares each in-process with the ref-ref result on the losslessly
converted operands.  Scalars: 0, 1, 2, MAX, MAX-1, MIN, MIN+1, -1, 2^31, 2^32, 2^63, ... per type;
bigs: 0..3+ digits, shorter and longer than the scalar, values around the scalar's magnitude,
both signs; extremes such as iN::MIN %= 2^(N-1); shifts by 0/1/63/64/65/MAX/negative counts;
big-big operands of different lengths in both orders (the `_commutative` forwarders reuse the
operand with the larger capacity)."""
import os, json
from genlib import *

UT = ["u8", "u16", "u32", "u64", "u128", "usize"]
IT = ["i8", "i16", "i32", "i64", "i128", "isize"]
BITS = {"u8": 8, "u16": 16, "u32": 32, "u64": 64, "u128": 128, "usize": 64,
        "i8": 8, "i16": 16, "i32": 32, "i64": 64, "i128": 128, "isize": 64}
ARITH = ["add", "sub", "mul", "div", "rem"]
BIGBIG = ARITH + ["and", "or", "xor"]

RULE = ("one case = one operator x one operand pair, run through every form of that operator for the operand "
        "types (see tools/gen/c10.py docstring); non-trivial: at least one operand is non-zero (forms.list excluded); "
        "distinct: distinct case lines")

def lo(ty):
    return -(1 << (BITS[ty] - 1)) if ty[0] == "i" else 0

def hi(ty):
    return (1 << (BITS[ty] - 1)) - 1 if ty[0] == "i" else (1 << BITS[ty]) - 1

def scalars(rng, ty):
    n = BITS[ty]
    c = [0, 1, 2, 3, hi(ty), hi(ty) - 1, lo(ty), lo(ty) + 1, -1, -2,
         1 << 7, (1 << 8) - 1, 1 << 15, 1 << 16, (1 << 31) - 1, 1 << 31, (1 << 32) - 1, 1 << 32, (1 << 32) + 1,
         (1 << 63) - 1, 1 << 63, (1 << 64) - 1, 1 << 64, (1 << 64) + 1, (1 << 96) + 5, (1 << 127) - 1, 1 << 127,
         -(1 << 31), -(1 << 32), -(1 << 63), -(1 << 64), -(1 << 31) - 1, -(1 << 63) - 1]
    c += [rng.randrange(lo(ty), hi(ty) + 1) for _ in range(3)]
    out = []
    for v in c:
        if lo(ty) <= v <= hi(ty) and v not in out:
            out.append(v)
    return out

def bigs_for(rng, s, signed_big):
    """Big operands for scalar s: tiny, around |s|, 1/2/3/5 digits."""
    m = abs(s)
    c = [0, 1, 2, m, m + 1, max(m - 1, 0), 2 * m + 1, m // 2 + 1,
         (1 << 32) - 1, 1 << 32, (1 << 63), (1 << 64) - 1, 1 << 64, (1 << 64) + 1, (1 << 127), (1 << 128) - 1, 1 << 128,
         (1 << 128) + 1, (1 << 192) - 1, m << 64, (m << 64) + 1,
         val(rand_digits(rng, 1)), val(rand_digits(rng, 2)), val(rand_digits(rng, 3)), val(rand_digits(rng, 5, "ones"))]
    if signed_big:
        c = c + [-v for v in c]
    out = []
    for v in c:
        if v not in out:
            out.append(v)
    return out

def big_arg(fam, v):
    return U(v) if fam == "u" else I(v)

def gen_scalar_arith(rng, tier, cases):
    per = 3 if tier == "quick" else 30
    for fam, types in (("u", UT), ("i", UT + IT)):
        for ty in types:
            ss = scalars(rng, ty)
            for op in ARITH:
                for s in ss:
                    bs = bigs_for(rng, s, fam == "i")
                    pick = rng.sample(bs, min(per, len(bs)))
                    # always: the scalar's own magnitude (cancellation / quotient 1) once per scalar
                    if abs(s) not in pick and rng.random() < 0.5:
                        pick.append(abs(s) if fam == "u" else rng.choice([abs(s), -abs(s)]))
                    for b in pick:
                        cases.append("f.%s %s %s" % (op, big_arg(fam, b), S(ty, s)))
    # scalar %= BigUint for the signed types (BigUint has no other forms with signed scalars) and the
    # extremes of all 12 types: MIN %= 2^(N-1), MIN %= 2^(N-1) +- 1, divisor just above the unsigned range
    for ty in UT + IT:
        n = BITS[ty]
        ext = [(lo(ty), 1 << (n - 1)), (lo(ty), (1 << (n - 1)) + 1), (lo(ty), (1 << (n - 1)) - 1), (lo(ty), 1), (lo(ty), 2),
               (lo(ty), (1 << n) - 1), (lo(ty), 1 << n), (hi(ty), 1 << n), (hi(ty), (1 << n) - 1), (hi(ty), hi(ty)),
               (hi(ty), hi(ty) + 1), (-1 if ty[0] == "i" else 1, 1), (lo(ty), 0), (hi(ty), 0), (0, 0), (0, 5),
               (lo(ty) + 1, 1 << (n - 1)), (lo(ty) + 1, (1 << (n - 1)) - 1), (hi(ty), 1 << 200), (lo(ty), (1 << 64) + 1)]
        for s, b in ext:
            cases.append("f.rem %s %s" % (U(b), S(ty, s)))
        if ty in IT:
            for s in scalars(rng, ty):
                for b in rng.sample(bigs_for(rng, s, False), 3 if tier == "quick" else 10):
                    cases.append("f.rem %s %s" % (U(b), S(ty, s)))

def gen_bigbig(rng, tier, cases):
    lens = [0, 1, 2, 3, 5, 8] if tier == "quick" else [0, 1, 2, 3, 4, 5, 8, 13, 33, 70]
    for fam in ("u", "i"):
        for op in BIGBIG:
            for la in lens:
                for lb in lens:
                    if tier == "quick" and rng.random() < 0.45:
                        continue
                    a = val(rand_digits(rng, la, rng.choice(["ones", "rand", "sparse"]))) if la else 0
                    b = val(rand_digits(rng, lb, rng.choice(["ones", "rand", "sparse"]))) if lb else 0
                    if op == "sub" and fam == "u" and a < b and rng.random() < 0.7:
                        a, b = b, a
                    if fam == "i":
                        a, b = rng.choice([a, -a]), rng.choice([b, -b])
                    cases.append("f.%s %s %s" % (op, big_arg(fam, a), big_arg(fam, b)))
            # equal operands, divisor fitting u32 / i32 (Rem short-cuts), zero divisor
            x = val(rand_digits(rng, 3))
            for a, b in ((x, x), (x, 7), (x, (1 << 32) - 1), (x, 1 << 32), (x, 0), (0, x), (x, 1), (x, (1 << 31))):
                if fam == "i":
                    for sa, sb in ((1, 1), (-1, 1), (1, -1), (-1, -1)):
                        cases.append("f.%s %s %s" % (op, I(sa * a), I(sb * b)))
                else:
                    cases.append("f.%s %s %s" % (op, U(a), U(b)))

# ---- big-big shape families (same families as tools/gen/c07.py) -----------------------------------
STRUCT_PATS = ["Bn", "ones", "pow2", "pow2m1", "tz", "t1"]
OTHER_PATS = ["hole", "sparse", "rand", "tzd"]
SHORT_PATS = ["rand", "ones", "sparse", "small", "Bn", "t1"]

def magnitude(rng, n, pat):
    """a positive integer with exactly n digits (n >= 1) of the given shape"""
    top = 64 * (n - 1)
    if pat == "pow2":
        return 1 << (top + rng.choice([0, 1, 31, 62, 63]))
    if pat == "pow2m1":
        return (1 << (top + rng.choice([1, 2, 32, 63, 64]))) - 1
    if pat == "Bn":
        return 1 << top                                   # 2^(64(n-1)): all lower digits zero
    if pat == "ones":
        return (1 << (64 * n)) - 1                        # 2^(64n) - 1
    if pat == "tz":                                       # zero run through whole digits, random high part
        z = rng.choice([top, top + rng.randrange(64), 64 * rng.randrange(n) + rng.randrange(64)])
        hi_bits = 64 * n - z
        return (rng.getrandbits(hi_bits) | 1 | (1 << (hi_bits - 1))) << z
    if pat == "tzd":                                      # k low digits zero, the rest random digits
        k = rng.randrange(n)
        return val([0] * k + rand_digits(rng, n - k))
    if pat == "t1":                                       # one run through whole digits
        z = rng.choice([top, top + rng.randrange(64), 64 * rng.randrange(n) + rng.randrange(64)])
        hi_bits = 64 * n - z
        hi = (rng.getrandbits(hi_bits) | (1 << (hi_bits - 1))) & ~1
        if hi == 0:
            hi = 1 << (hi_bits - 1) if hi_bits > 1 else 0
        v = (hi << z) | ((1 << z) - 1)
        return v if v >> top else v | (1 << top)
    if pat == "hole":
        return ((1 << (64 * n)) - 1) ^ (1 << rng.randrange(64 * n - 1))
    if pat == "sparse":
        v = val(rand_digits(rng, n, "sparse"))
        return v if v >> top else v | (1 << top)
    if pat == "small":
        return rng.choice([1, 2, 5, 255]) if n == 1 else (1 << top) + rng.choice([0, 1, 5])
    return val(rand_digits(rng, n))

def gen_bigbig_shapes(rng, tier, cases):
    """Every big-big operator x the nine sign combinations x unequal (and equal) lengths 0..4, 8, the
    longer operand structured (low zero digits, +-2^(64k), +-(2^(64k)-1), trailing zero / one runs
    through whole digits, all-ones, sparse), in both operand orders: the by-value / by-reference /
    assign variants take different code paths (e.g. bitor_pos_neg vs bitor_neg_pos) that only
    differ on such shapes."""
    lens = [0, 1, 2, 3, 4, 8]
    k = 0
    for fam in ("u", "i"):
        signs = [(1, 1)] if fam == "u" else [(1, 1), (1, -1), (-1, 1), (-1, -1)]
        for op in BIGBIG:
            for la in lens:
                for lb in lens:
                    if la == 0 and lb == 0:
                        continue
                    pats = list(STRUCT_PATS)
                    if tier == "quick":
                        pats.append(OTHER_PATS[k % len(OTHER_PATS)])
                    else:
                        pats += OTHER_PATS
                    for pat in pats:
                        for (sa, sb) in signs:
                            k += 1
                            sp = SHORT_PATS[k % len(SHORT_PATS)]
                            # the longer operand carries the structured shape (on a tie: the right one)
                            if la > lb:
                                a = magnitude(rng, la, pat)
                                b = magnitude(rng, lb, sp) if lb else 0
                            else:
                                b = magnitude(rng, lb, pat)
                                a = magnitude(rng, la, sp) if la else 0
                            cases.append("f.%s %s %s" % (op, big_arg(fam, sa * a), big_arg(fam, sb * b)))
    # zero against every shape (the remaining five of the nine sign combinations), and the documented
    # witness shape: small positive | -(2^(64k))
    for fam in ("u", "i"):
        for op in BIGBIG:
            for n in (1, 2, 3):
                for pat in ("Bn", "ones", "tz"):
                    m = magnitude(rng, n, pat)
                    for v in ([m] if fam == "u" else [m, -m]):
                        cases.append("f.%s %s %s" % (op, big_arg(fam, 0), big_arg(fam, v)))
                        cases.append("f.%s %s %s" % (op, big_arg(fam, v), big_arg(fam, 0)))
            cases.append("f.%s %s %s" % (op, big_arg(fam, 0), big_arg(fam, 0)))
    for op in BIGBIG:
        for kk in (1, 2, 4):
            for small in (5, (1 << 64) - 1):
                for (sa, sb) in ((1, -1), (-1, 1), (1, 1), (-1, -1)):
                    cases.append("f.%s %s %s" % (op, I(sa * small), I(sb * (1 << (64 * kk)))))
                    cases.append("f.%s %s %s" % (op, I(sa * (1 << (64 * kk))), I(sb * small)))

def gen_shifts(rng, tier, cases):
    for fam in ("u", "i"):
        for ty in UT + IT:
            n = BITS[ty]
            ks = [0, 1, 2, 31, 32, 33, 63, 64, 65, 127, 128, 129, 200, -1, lo(ty), hi(ty)]
            ks = [k for k in dict.fromkeys(ks) if lo(ty) <= k <= hi(ty)]
            for left in (True, False):
                for k in ks:
                    bs = [0, 1, val(rand_digits(rng, 1)), val(rand_digits(rng, 3)), 1 << 64, (1 << 64) - 1, 1 << 127, 3 << 64,
                          (1 << 200) + (1 << 70)]
                    bs = rng.sample(bs, 3 if tier == "quick" else 7)
                    for b in bs:
                        if fam == "i":
                            b = rng.choice([b, -b, -b])
                        if left and k > 100000 and b != 0:
                            b = 0                      # a huge left shift of a non-zero value cannot be allocated
                        cases.append("f.%s %s %s" % ("shl" if left else "shr", big_arg(fam, b), S(ty, k)))

def gen_pow(rng, tier, cases):
    for fam in ("u", "i"):
        for ty in UT + ["big"]:
            top = hi(ty) if ty != "big" else (1 << 130) + 7
            pairs = []
            for base in [0, 1, 2, 3, 10, (1 << 32) - 1, (1 << 64) - 1, 1 << 64, val(rand_digits(rng, 2))]:
                for e in [0, 1, 2, 3, 5, 17, 64]:
                    if base.bit_length() * e < 20000:
                        pairs.append((base, e))
            for base in [0, 1]:
                pairs += [(base, top), (base, top - 1), (base, (1 << 64)), (base, (1 << 64) - 1), (base, 1 << 32)]
            if ty == "big":
                pairs += [(2, 1 << 128), (3, (1 << 128) + 1), (2, (1 << 64) * 0 + 70)]
            pairs = [(b, e) for (b, e) in pairs if e <= top]
            if tier == "quick":
                pairs = rng.sample(pairs, min(14, len(pairs))) + [(1, top), (0, top), (0, 0), (2, 64)]
            for b, e in pairs:
                bb = b if fam == "u" else rng.choice([b, -b])
                ex = U(e) if ty == "big" else S(ty, e)
                cases.append("f.pow %s %s" % (big_arg(fam, bb), ex))

def gen_checked_folds(rng, tier, cases):
    n = 30 if tier == "quick" else 300
    for fam in ("u", "i"):
        for _ in range(n):
            a, b = rand_big(rng, [0, 1, 1, 2, 3, 6]), rand_big(rng, [0, 0, 1, 1, 2, 3])
            if fam == "i":
                a, b = rng.choice([a, -a]), rng.choice([b, -b])
            cases.append("f.checked %s %s" % (big_arg(fam, a), big_arg(fam, b)))
        cases.append("f.checked %s %s" % (big_arg(fam, 5), big_arg(fam, 5)))
        cases.append("f.checked %s %s" % (big_arg(fam, 0), big_arg(fam, 0)))
        for _ in range(n // 2):
            k = rng.choice([1, 1, 2, 3, 6])
            xs = [rand_big(rng, [0, 1, 1, 2, 3]) for _ in range(k)]
            if fam == "i":
                xs = [rng.choice([x, -x]) for x in xs]
            for op in ("sum", "product"):
                cases.append("f.%s %s" % (op, " ".join(big_arg(fam, x) for x in xs)))

def generate(rng, tier):
    cases = ["forms.list"]
    gen_scalar_arith(rng, tier, cases)
    gen_bigbig(rng, tier, cases)
    gen_bigbig_shapes(rng, tier, cases)
    gen_shifts(rng, tier, cases)
    gen_pow(rng, tier, cases)
    gen_checked_folds(rng, tier, cases)
    # interleave so that the in-Coq sample (first 150 cases with a term) sees every operator
    head = [c for c in cases[1:]]
    rng.shuffle(head)
    import extra_cases          # API-audit additions (docs/API_COVERAGE.md); produced after the original cases
    return [cases[0]] + head + extra_cases.c10(rng, tier)

def nontrivial(case):
    toks = case.split(" ")
    if toks[0] == "forms.list":
        return False
    for t in toks[1:]:
        if t.startswith("u:") and t != "u:":
            return True
        if t.startswith("i:") and not t.startswith("i:0"):
            return True
        if t.startswith("s:") and not t.endswith(":0"):
            return True
    return False

# ---- in-Coq cross-check of the extraction ----------------------------------------------------------
COQ_IMPORTS = "Base Forms FormsLeaves"
OPS = {"add": "OpAdd", "sub": "OpSub", "mul": "OpMul", "div": "OpDiv", "rem": "OpRem", "and": "OpBitAnd",
       "or": "OpBitOr", "xor": "OpBitXor", "shl": "OpShl", "shr": "OpShr", "pow": "OpPow"}

def _bigval(tok):
    if tok.startswith("u:"):
        return "FamU", val(parse_digits(tok))
    sgn = tok[2]
    v = val(parse_digits("u:" + tok[4:]))
    return "FamI", (-v if sgn == "-" else v)

def coq_term(case, model):
    toks = case.split(" ")
    op = toks[0][2:] if toks[0].startswith("f.") else None
    if op not in OPS or len(toks) != 3 or not model.startswith("ok n:"):
        return None
    fam, bv = _bigval(toks[1])
    if toks[2][:2] in ("u:", "i:"):
        fam2, sv = _bigval(toks[2])
        sel = "sel_big %s %s %s" % (fam, fam2, OPS[op])
    else:
        _, ty, v = toks[2].split(":")
        sv = int(v)
        sel = "sel_scalar %s %s T%s" % (fam, OPS[op], ty)
    if op in ("shl", "pow") and abs(sv) > 300:
        return None
    n = int(model[5:])
    return "run_sel forms (%s) %s %s" % (sel, coq_z(bv), coq_z(sv)), "(%d, %d)" % (n, n)

# ---- table vs harness cross-check -------------------------------------------------------------------
def extra_checks(ctx):
    """The extractor's table against the list of form names the harness instantiates."""
    out = {"coverage": {}, "broken": [], "violations": []}
    cache, run = ctx["cache"], ctx["run"]
    hb = os.path.join(cache, "target", "debug", "bn-harness")
    drv = os.path.join(cache, "driver")
    wd = ctx["workdir"]
    cf = os.path.join(wd, "formslist.cases")
    with open(cf, "w") as f:
        f.write("0 forms.list\n")
    names = {}
    for tag, binp in (("harness", hb), ("table", drv)):
        of = os.path.join(wd, "formslist_%s.out" % tag)
        if not os.path.exists(binp):
            out["coverage"]["forms_crosscheck"] = "skipped: %s not built" % tag
            return out
        run([binp, cf, of])
        got = None
        if os.path.exists(of):
            for ln in open(of):
                p = ln.rstrip("\n").split("\t")
                if len(p) >= 3 and p[1] in ("I", "M") and p[2].startswith("ok t:"):
                    got = set(p[2][5:].split("+"))
        if got is None:
            out["broken"].append("corr:forms.list-%s" % tag)
            return out
        names[tag] = got
    only_t = sorted(names["table"] - names["harness"])
    only_h = sorted(names["harness"] - names["table"])
    out["coverage"]["forms_in_table"] = len(names["table"])
    out["coverage"]["forms_exercised_by_harness"] = len(names["harness"])
    out["coverage"]["forms_in_table_not_exercised"] = only_t[:50]
    out["coverage"]["forms_exercised_not_in_table"] = only_h[:50]
    if only_t or only_h:
        out["broken"].append("corr:form-table-vs-harness:%s" % (only_t + only_h)[0])
    return out
