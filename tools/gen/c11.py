"""C11 — integer roots: x below / above 2^64 (primitive fast path), up to 2^1024 (finite f64
guess in std), beyond (~2^1100, ~2^2100: scaled recursive guess in std); perfect powers r^n and
r^n +- 1; bit length <= n; degrees {1,2,3,4,5,7,10,64,65,1000,u32::MAX}; BigInt sign handling;
n = 0 and even roots of negatives (must panic).  The same cases are run by C16 on the std and
the no_std harness builds: the results must not depend on the guess."""
from genlib import *

DEGREES = [1, 2, 3, 4, 5, 7, 10, 64, 65, 1000, (1 << 32) - 1]
U32MAX = (1 << 32) - 1

def iroot(x, n):
    """floor n-th root (python reference used only to BUILD perfect powers)"""
    if x < 2:
        return x
    hi = 1 << (x.bit_length() // n + 1)
    lo = 0
    while lo < hi - 1:
        mid = (lo + hi) // 2
        if mid.bit_length() * n - n > x.bit_length() or mid ** n > x:
            hi = mid
        else:
            lo = mid
    return lo

def rand_bits(rng, bits):
    if bits <= 0:
        return 0
    k = rng.random()
    if k < 0.15:
        return 1 << (bits - 1)
    if k < 0.3:
        return (1 << bits) - 1
    if k < 0.4:
        return (1 << (bits - 1)) + 1
    return rng.getrandbits(bits - 1) | (1 << (bits - 1))

def emit_u(cases, rng, x, n):
    if n == 2 and rng.random() < 0.5:
        cases.append("u.sqrt %s" % U(x))
    elif n == 3 and rng.random() < 0.5:
        cases.append("u.cbrt %s" % U(x))
    else:
        cases.append("u.nth_root %s %s" % (U(x), N(n)))

def emit_i(cases, rng, x, n):
    if n == 2 and rng.random() < 0.5:
        cases.append("i.sqrt %s" % I(x))
    elif n == 3 and rng.random() < 0.5:
        cases.append("i.cbrt %s" % I(x))
    else:
        cases.append("i.nth_root %s %s" % (I(x), N(n)))

def emit(cases, rng, x, n):
    if rng.random() < 0.7:
        emit_u(cases, rng, x, n)
    else:
        s = -1 if (n % 2 == 1 and rng.random() < 0.5) else 1
        emit_i(cases, rng, s * x, n)

def generate(rng, tier):
    cases = []
    reps = 10 if tier == "thorough" else 1
    regimes = [1, 2, 8, 31, 32, 33, 63, 64, 65, 66, 100, 127, 128, 129, 200, 500, 1000, 1023, 1024, 1025,
               1100, 1500, 2100]
    for _ in range(reps):
        # every regime x every degree
        for bits in regimes:
            for n in DEGREES:
                emit(cases, rng, rand_bits(rng, bits), n)
                emit(cases, rng, rand_bits(rng, bits), n)
        # bits <= n boundary: bits in {n-1, n, n+1, 2n}
        for n in [4, 5, 7, 10, 64, 65, 1000]:
            for bits in (n - 1, n, n + 1, n + 2, 2 * n, 2 * n + 1):
                emit(cases, rng, rand_bits(rng, bits), n)
                emit(cases, rng, 1 << (bits - 1), n)
                emit(cases, rng, (1 << bits) - 1, n)
        # perfect powers r^n, r^n +- 1 with r of various sizes (result kept <= ~2200 bits)
        for n in [1, 2, 3, 4, 5, 7, 10, 64, 65, 1000]:
            for rb in [1, 2, 3, 8, 16, 31, 32, 33, 63, 64, 65, 100, 128, 300, 512, 700, 1050]:
                if rb * n > 2300:
                    continue
                for _k in range(2):
                    r = rand_bits(rng, rb)
                    p = r ** n
                    for d in (-1, 0, 1):
                        if p + d >= 0:
                            emit(cases, rng, p + d, n)
        # around 2^64 (fast-path boundary) and around f64 range end
        for x in [(1 << 64) - 1, 1 << 64, (1 << 64) + 1, (1 << 32) ** 2 - 1, ((1 << 32) + 1) ** 2, ((1 << 32) + 1) ** 2 - 1,
                  (1 << 1024) - 1, 1 << 1024, (1 << 1024) + 1, (1 << 1023), ((1 << 53) - 1) << 971, (((1 << 53) - 1) << 971) + 1]:
            for n in [2, 3, 4, 5, 7, 64]:
                emit(cases, rng, x, n)
        # random mid-size
        for _k in range(300):
            bits = rng.choice([rng.randrange(1, 130), rng.randrange(65, 1100), rng.randrange(1024, 2200)])
            emit(cases, rng, rand_bits(rng, bits), rng.choice([2, 2, 3, 3, 4, 5, 7, 10, rng.randrange(2, 40)]))
    # boundary where the std f64 guess stops being finite (bits > 1024) and the scaled recursive
    # guess starts, and its multiples: EVERY k in the ranges, so every residue of bits mod n occurs;
    # all-ones, powers of two, +1, and values whose top 54 bits are all ones (f64 rounds up to 2^k)
    ks = list(range(1018, 1033)) + list(range(2046, 2053)) + list(range(3070, 3076)) + list(range(4094, 4101))
    for k in ks:
        top54 = (((1 << 54) - 1) << (k - 54)) | rng.getrandbits(k - 54)
        top54b = (((1 << 54) - 1) << (k - 54)) | rng.getrandbits(k - 54)
        for x in ((1 << k) - 1, 1 << k, (1 << k) + 1, top54, top54b):
            cases.append("u.sqrt %s" % U(x))
            cases.append("u.cbrt %s" % U(x))
            for n in range(2, 7):
                cases.append("u.nth_root %s %s" % (U(x), N(n)))
        # BigInt wrappers on the same boundary (negative operands for odd degrees)
        cases.append("i.cbrt %s" % I(-top54))
        cases.append("i.sqrt %s" % I(top54))
        cases.append("i.nth_root %s %s" % (I(-top54b), N(rng.choice([3, 5]))))
    # zero / one / failures
    for n in DEGREES:
        for x in (0, 1):
            cases.append("u.nth_root %s %s" % (U(x), N(n)))
            cases.append("i.nth_root %s %s" % (I(x), N(n)))
        cases.append("i.nth_root %s %s" % (I(-1), N(n)))          # panics for even n
        cases.append("i.nth_root %s %s" % (I(-rand_bits(rng, rng.choice([3, 64, 65, 300]))), N(n)))
    for x in [0, 1, 2, MAXD, 1 << 64, rand_bits(rng, 300)]:
        cases.append("u.nth_root %s %s" % (U(x), N(0)))           # n = 0: must panic
        cases.append("i.nth_root %s %s" % (I(x), N(0)))
        cases.append("i.nth_root %s %s" % (I(-x), N(0)))
        cases.append("i.sqrt %s" % I(-x))                          # imaginary unless x = 0
        cases.append("i.cbrt %s" % I(-x))
        cases.append("i.nth_root %s %s" % (I(-x), N(rng.choice([2, 4, 64, 1000]))))
    for x in (0, 1):
        cases += ["u.sqrt %s" % U(x), "u.cbrt %s" % U(x), "i.sqrt %s" % I(x), "i.cbrt %s" % I(x)]
    import extra_cases          # API-audit additions (docs/API_COVERAGE.md); produced after the original cases
    return cases + extra_cases.c11(rng, tier, cases)

def nontrivial(case):
    toks = case.split(" ")
    # Newton iteration actually runs: operand above 2^64 and (for nth_root) bits > n
    digs = toks[1].split(":")[-1]
    nd = len(digs.split(",")) if digs else 0
    if nd < 2:
        return False
    if len(toks) > 2:
        n = int(toks[2][2:])
        return 0 < n < 64 * (nd - 1)
    return True

RULE = ("C11 generator: regimes <2^64 / <=2^1024 / ~2^1100 / ~2^2100, perfect powers r^n and r^n+-1, bits<=n, "
        "degrees {1,2,3,4,5,7,10,64,65,1000,u32::MAX}, negatives, n=0 | non-trivial: operand >= 2^64 and degree below its bit length (Newton iteration runs)")

# ---- in-Coq cross-check of the extraction -------------------------------------------------
COQ_IMPORTS = "Base X86 AddSub PgrLoop Pow Gcd SpecRoots Roots Div Mul Extracted"

def coq_term(case, model):
    toks = case.split(" ")
    op, a = toks[0], toks[1:]
    if len(case) > 120 or len(model) > 120:
        return None
    big = "(Mul.umul Extracted.mul) (Div.udivrem Extracted.div) addsub"
    if op == "u.nth_root":
        return "unth_root %s pgr_pow pgr_roots guess_nostd %s %s" % (big, coq_list(a[0]), a[1][2:]), coq_result(model)
    if op == "u.sqrt":
        return "usqrt (Div.udivrem Extracted.div) addsub pgr_roots guess_nostd %s" % coq_list(a[0]), coq_result(model)
    if op == "u.cbrt":
        return "ucbrt %s pgr_roots guess_nostd %s" % (big, coq_list(a[0])), coq_result(model)
    if op == "i.nth_root":
        return "inth_root %s pgr_pow pgr_roots guess_nostd %s %s" % (big, coq_bigint(a[0]), a[1][2:]), coq_result(model)
    if op == "i.sqrt":
        return "isqrt (Div.udivrem Extracted.div) addsub pgr_roots guess_nostd %s" % coq_bigint(a[0]), coq_result(model)
    if op == "i.cbrt":
        return "icbrt %s pgr_roots guess_nostd %s" % (big, coq_bigint(a[0])), coq_result(model)
    return None
