"""C04 — equal integers are indistinguishable.
Random histories (1..40 in-place operations) over ONE BigUint / BigInt object whose buffer grows
and shrinks, started from constructor inputs with redundant high zero words / padding bytes /
inconsistent (sign, magnitude); operands are chosen from the CURRENT value (tracked here with
Python integers) so that results often lose digits.  Second stream: pairs of different histories
that reach the same value (and near misses), observed with ==, cmp, Hash, exports, max/min.
Grammar of the script tokens: ocaml/ops_hist.ml."""
from genlib import *

STATS = {"pair_same": 0, "pair_diff": 0, "panic": 0}
THEOREMS = ["C04_step_spec", "C04_step_canon", "C04_reachable_canon", "C04_history_spec", "C04_history_trace_spec", "C04_export_spec", "C04_indistinguishable"]
RULE = "a history is non-trivial if it has at least 3 operations or reaches a value of >= 2 digits"

LENS = [0, 1, 1, 2, 2, 3, 4, 5, 6, 8, 11, 16, 17, 33]
LENS_T = LENS + [64, 65, 130]
MAXBITS = 24000


def fd(v):
    return fmt_digits(to_digits(v))


def pad_digits(rng, v):
    """u64 digits of v with 0..3 redundant high zero digits"""
    return fmt_digits(to_digits(v) + [0] * rng.choice([0, 0, 1, 2, 3]))


def words_of(v):
    out = []
    while v:
        out.append(v & 0xFFFFFFFF)
        v >>= 32
    return out


def pad_words(rng, v):
    return ",".join("%x" % w for w in words_of(v) + [0] * rng.choice([0, 0, 1, 2, 3, 5]))


def bytes_le(v):
    return list(v.to_bytes((v.bit_length() + 7) // 8, "little"))


def signed_le(rng, v):
    n = 1
    while not (-(1 << (8 * n - 1)) <= v < (1 << (8 * n - 1))):
        n += 1
    n += rng.choice([0, 0, 1, 2, 7, 9])          # sign-extension padding
    return list((v % (1 << (8 * n))).to_bytes(n, "little"))


SIGN = {1: "+", 0: "0", -1: "-"}


def sgn(v):
    return (v > 0) - (v < 0)


def radix_digits(rng, v, be):
    """'<radix>:<hex digit bytes>' of v >= 0 with redundant high zero digits"""
    r = rng.choice([2, 3, 7, 10, 16, 36, 100, 255, 256])
    d = []
    while v:
        d.append(v % r)
        v //= r
    d += [0] * rng.choice([0, 0, 1, 2, 5])
    if be:
        d = d[::-1]
    return "%d:%s" % (r, bytes(d).hex())


def ctor_u(rng, v):
    k = rng.choice(["vec", "vec", "new", "slice", "le", "be", "serde", "radle", "radbe"])
    if k in ("radle", "radbe"):
        if v.bit_length() > 1200:
            k = "vec"
        else:
            return "%s:%s" % (k, radix_digits(rng, v, k == "radbe"))
    if k == "vec":
        return "vec:" + pad_digits(rng, v)
    if k in ("new", "slice", "serde"):
        return k + ":" + pad_words(rng, v)
    b = bytes_le(v) + [0] * rng.choice([0, 0, 1, 3, 8, 9])
    if k == "be":
        b = b[::-1]
    return k + ":" + bytes(b).hex()


def ctor_i(rng, v):
    """a constructor call that yields v; for v = 0 the request may be inconsistent"""
    m = abs(v)
    if v == 0:
        r = rng.random()
        if r < 0.35:     # NoSign with a non-zero magnitude
            junk = val(rand_digits(rng, rng.choice([1, 2, 3])))
            k = rng.choice(["parts", "new", "slice", "le", "be", "serde", "radle", "radbe"])
            if k in ("radle", "radbe"):
                return "%s:0:%s" % (k, radix_digits(rng, junk, k == "radbe"))
            if k == "parts":
                return "parts:0:" + pad_digits(rng, junk)
            if k in ("new", "slice", "serde"):
                return "%s:0:%s" % (k, pad_words(rng, junk))
            return "%s:0:%s" % (k, bytes(bytes_le(junk)).hex())
        if r < 0.7:      # Plus / Minus with a zero magnitude
            s = rng.choice("+-")
            k = rng.choice(["parts", "new", "slice", "le", "be", "serde"])
            if k == "parts":
                return "parts:%s:%s" % (s, fmt_digits([0] * rng.choice([0, 1, 3])))
            if k in ("new", "slice", "serde"):
                return "%s:%s:%s" % (k, s, ",".join(["0"] * rng.choice([0, 1, 2, 3])))
            return "%s:%s:%s" % (k, s, "00" * rng.choice([0, 1, 9]))
    k = rng.choice(["parts", "parts", "new", "slice", "le", "be", "sle", "sbe", "serde", "fromu", "radle", "radbe"])
    s = SIGN[sgn(v)]
    if k in ("radle", "radbe"):
        if m.bit_length() > 1200:
            k = "parts"
        else:
            return "%s:%s:%s" % (k, s, radix_digits(rng, m, k == "radbe"))
    if k == "fromu" and v < 0:
        k = "parts"
    if k == "parts":
        return "parts:%s:%s" % (s, pad_digits(rng, m))
    if k in ("new", "slice", "serde"):
        return "%s:%s:%s" % (k, s, pad_words(rng, m))
    if k in ("le", "be"):
        b = bytes_le(m) + [0] * rng.choice([0, 0, 1, 3, 8, 9])
        return "%s:%s:%s" % (k, s, bytes(b if k == "le" else b[::-1]).hex())
    if k in ("sle", "sbe"):
        b = signed_le(rng, v)
        return "%s:%s" % (k, bytes(b if k == "sle" else b[::-1]).hex())
    return "fromu:" + pad_digits(rng, m)


def iroot(n, x):
    """floor n-th root of x >= 0"""
    if x < 2:
        return x
    lo, hi = 1, 1 << (x.bit_length() // n + 1)
    while lo < hi:
        mid = (lo + hi + 1) // 2
        if mid ** n <= x:
            lo = mid
        else:
            hi = mid - 1
    return lo


def tquot(a, b):
    q = abs(a) // abs(b)
    return q if (a < 0) == (b < 0) else -q


class Sim:
    """one object: kind, current value, script so far; `dead` once an op panics"""

    def __init__(self, rng, kind, v, lens):
        self.rng, self.kind, self.v, self.lens = rng, kind, v, lens
        self.ctor = ctor_u(rng, v) if kind == "u" else ctor_i(rng, v)
        self.ops = []
        self.dead = False
        self.maxbits = v.bit_length()
        self.minbits_after_max = self.maxbits

    # -- operand rendering (raw: may carry high zeros / for BigInt a consistent sign)
    def Y(self, y):
        z = [0] * self.rng.choice([0, 0, 0, 1, 2])
        if self.kind == "u":
            return "u:" + fmt_digits(to_digits(y) + z)
        if y == 0 and self.rng.random() < 0.3:         # inconsistent request for a zero operand
            if self.rng.random() < 0.5:
                return "i:0:" + fmt_digits(rand_digits(self.rng, self.rng.choice([1, 2])))
            return "i:%s:%s" % (self.rng.choice("+-"), fmt_digits([0] * self.rng.choice([0, 1, 2])))
        return "i:%s:%s" % (SIGN[sgn(y)], fmt_digits(to_digits(abs(y)) + (z if y else [])))

    def push(self, tok, newv):
        self.ops.append(tok)
        if newv is None:
            self.dead = True
            return
        self.v = newv
        b = newv.bit_length()
        if b > self.maxbits:
            self.maxbits = b
            self.minbits_after_max = b
        self.minbits_after_max = min(self.minbits_after_max, b)

    def rnd(self, n=None):
        n = self.rng.choice(self.lens) if n is None else n
        y = val(rand_digits(self.rng, n))
        if self.kind == "i" and self.rng.random() < 0.5:
            y = -y
        return y

    def near(self):
        """a value close to the current one (same high digits)"""
        r = self.rng
        d = r.choice([0, 0, 1, 1, 2, r.getrandbits(64), r.getrandbits(r.choice([1, 8, 63, 64, 65, 128]))])
        y = abs(self.v) - d if r.random() < 0.7 else abs(self.v) + d
        if y < 0:
            y = 0
        if self.kind == "i" and self.v < 0:
            y = -y
        return y

    # -- one random operation
    def step(self, allow_panic=False):
        r, v, u = self.rng, self.v, self.kind == "u"
        big = v.bit_length() > MAXBITS
        k = r.random()
        if allow_panic:
            c = r.choice(["subunder", "div0", "rem0", "negshl", "negshr", "divs0", "divfloor0", "root0", "imag"])
            if c == "root0":
                return self.push("nthroot:0", None)
            if c == "imag" and v < 0:
                return self.push(r.choice(["sqrt", "nthroot:2", "nthroot:4"]), None)
            if c == "subunder" and u:
                return self.push("sub:" + self.Y(v + 1 + r.getrandbits(r.choice([1, 64, 70]))), None)
            if c == "div0":
                return self.push("div:" + ("u:" + r.choice(["", "0", "0,0"]) if u else "i:%s:%s" % (r.choice("0+-"), r.choice(["", "0,0"]))), None)
            if c == "rem0":
                return self.push("rem:" + ("u:" if u else "i:0:"), None)
            if c == "negshl":
                return self.push("shl:-%d" % r.choice([1, 64, 4000]), None)
            if c == "negshr":
                return self.push("shr:-%d" % r.choice([1, 64, 4000]), None)
            if c == "divs0" and u:
                return self.push("%s:%s:0" % (r.choice(["divs", "rems"]), r.choice(["32", "64", "128"])), None)
            return self.push("%s:%s" % (r.choice(["divfloor", "modfloor", "diveuclid", "remeuclid", "divceil"]), "u:0" if u else "i:+:0"), None)
        if r.random() < 0.13:      # products, powers, roots, gcd / lcm
            import math
            c = r.choice(["mul", "mul", "muldiv", "muls", "pow", "sqrt", "cbrt", "nthroot", "gcd", "lcm"])
            small = abs(self.rnd(r.choice([0, 1, 1, 2, 3])))
            if not u and r.random() < 0.5:
                small = -small
            if c == "mul":
                y = r.choice([0, 1, 2]) if big else r.choice([small, small, 0, 1, 1 << 64, self.rnd()])
                if u:
                    y = abs(y)
                return self.push("mul:" + self.Y(y), v * y)
            if c == "muldiv" and not big and small != 0:          # x * y / y
                if u:
                    small = abs(small)
                self.push("mul:" + self.Y(small), v * small)
                return self.push("div:" + self.Y(small), v)
            if c == "muls" and u and not big:
                w = r.choice([32, 64, 128])
                sc = r.choice([0, 1, 2, 1 << (w - 1), (1 << w) - 1, r.getrandbits(w)])
                return self.push("muls:%d:%d" % (w, sc), v * sc)
            if c == "pow" and abs(v).bit_length() < 1500:
                e = r.choice([0, 1, 2, 3, 5])
                return self.push("pow:%d" % e, v ** e)
            if c == "sqrt" and v >= 0:
                return self.push("sqrt", math.isqrt(v))
            if c == "cbrt":
                return self.push("cbrt", sgn(v) * iroot(3, abs(v)))
            if c == "nthroot":
                n = r.choice([1, 2, 3, 4, 7, 64, 1000])
                if v < 0 and n % 2 == 0:
                    n += 1
                return self.push("nthroot:%d" % n, sgn(v) * iroot(n, abs(v)))
            if c == "gcd":
                y = r.choice([v * r.choice([1, 2, 3]), small, 0, self.rnd(), v // r.choice([1, 2, 3, 1 << 64]) if u else -v])
                if u:
                    y = abs(y)
                return self.push("gcd:" + self.Y(y), math.gcd(v, y))
            if c == "lcm" and not big:
                y = abs(small) if u else small
                g = math.gcd(v, y)
                return self.push("lcm:" + self.Y(y), 0 if v == 0 or y == 0 else abs(v * y) // g)
        if k < 0.10:       # add
            y = r.choice([self.rnd(), (1 << (64 * ((abs(v).bit_length() + 63) // 64))) - abs(v) + r.choice([0, 0, 1]), 1, 0])
            if not u and r.random() < 0.5:
                y = r.choice([-v, -v + 1, -v - 1, -self.near(), y])      # cancel exactly / nearly
            return self.push("add:" + self.Y(y), v + y)
        if k < 0.24:       # sub: nearly equal values, exactly zero
            y = r.choice([self.near(), self.near(), v, abs(self.rnd()) % (abs(v) + 1), 0])
            if u:
                y = abs(y)
                if y > v:
                    y = v - min(v, r.getrandbits(8))
            elif r.random() < 0.2:
                y = self.rnd()
            return self.push("sub:" + self.Y(y), v - y)
        if k < 0.31:       # xor with equal top digits
            y = r.choice([self.near(), v, v ^ r.getrandbits(r.choice([1, 8, 64, 65])), self.rnd()]) if u else \
                r.choice([self.near(), v, v ^ r.getrandbits(r.choice([1, 8, 64, 65])), self.rnd(), ~v, -v])
            if u:
                y = abs(y)
            return self.push("xor:" + self.Y(y), v ^ y)
        if k < 0.38:       # and with disjoint / low masks
            nb = abs(v).bit_length()
            lowmask = (1 << r.randrange(0, nb + 1)) - 1
            cand = [lowmask, ((1 << nb) - 1) & ~abs(v), abs(v) >> 1, 0, self.rnd()]
            if not u:
                cand += [~v, -v, -lowmask - 1, -1]
            y = r.choice(cand)
            if u:
                y = abs(y)
            return self.push("and:" + self.Y(y), v & y)
        if k < 0.42:       # or
            y = r.choice([self.rnd(), 0, v, 1 << r.randrange(0, abs(v).bit_length() + 130)])
            if not u and r.random() < 0.4:
                y = r.choice([~v, -1, -self.rnd(1) - 1])
            if u:
                y = abs(y)
            return self.push("or:" + self.Y(y), v | y)
        if k < 0.50:       # rem: divisors of the value, the value itself, value + 1
            tz = (abs(v) & -abs(v)).bit_length() - 1 if v else 0
            cand = [1 << r.randrange(0, tz + 1), abs(v), abs(v) + 1, max(1, abs(v) // r.choice([2, 3, 7, 1 << 64])), abs(self.rnd()) or 1, 1]
            y = r.choice(cand) or 1
            if not u and r.random() < 0.5:
                y = -y
            name = r.choice(["rem", "rem", "rem", "modfloor", "remeuclid"])
            if name == "rem":
                nv = v - y * tquot(v, y)
            elif name == "modfloor":
                nv = v % y
            else:
                nv = v % abs(y)
            return self.push("%s:%s" % (name, self.Y(y)), nv)
        if k < 0.57:       # div
            cand = [abs(self.near()) or 1, abs(v) + 1, max(1, abs(v) >> r.choice([1, 63, 64, 65])), abs(self.rnd()) or 1, 1, 1 << r.choice([1, 64, 128])]
            y = r.choice(cand) or 1
            if not u and r.random() < 0.5:
                y = -y
            name = r.choice(["div", "div", "div", "divfloor", "diveuclid", "divceil"])
            if name == "div":
                nv = tquot(v, y)
            elif name == "divfloor":
                nv = v // y
            elif name == "diveuclid":
                q = v // abs(y)
                nv = q if y > 0 else -q
            else:
                nv = -((-v) // y)
            return self.push("%s:%s" % (name, self.Y(y)), nv)
        if k < 0.65:       # shl
            n = r.choice([0, 1, 7, 63, 64, 65, 128, 1000, 4000, r.randrange(0, 300)])
            if big:
                n = r.choice([0, 1])
            return self.push("shl:%d" % n, v << n)
        if k < 0.75:       # shr: by 3990 after the 4000, past the length, random
            nb = abs(v).bit_length()
            n = r.choice([0, 1, 63, 64, 65, 3990, 4000, nb, nb + 1, max(0, nb - 1), max(0, nb - 64), nb + 500, r.randrange(0, nb + 2), (1 << 64) - 1, 1 << 40])
            return self.push("shr:%d" % n, v >> n if n < (1 << 32) else (-1 if v < 0 else 0))
        if k < 0.82:       # set_bit
            nb = abs(v).bit_length()
            i = r.choice([max(nb - 1, 0), max(nb - 1, 0), nb, nb + 1, nb + 63, nb + 64, nb + 700, r.randrange(0, nb + 2), 0, 63, 64])
            b = r.random() < 0.4
            if big:
                b = False
            if (not b) and r.random() < 0.15:
                i = r.choice([(1 << 64) - 1, 1 << 40])          # far above: no-op for v >= 0
            if v < 0 and not b and i > nb + 4000:
                i = nb + 70                                       # clearing a far bit of a negative value allocates
            if b and i > nb + 4000:
                i = nb + 70
            nv = v | (1 << i) if b else (v & ~(1 << i) if i < nb + 5000 else v)
            return self.push("setbit:%d:%d" % (i, 1 if b else 0), nv)
        if k < 0.85:
            return self.push("zero", 0)
        if k < 0.865:
            return self.push("one", 1)
        if k < 0.90:       # clone_from a (usually shorter) value
            y = self.rnd(r.choice([0, 0, 1, 1, 2, 3]))
            if u:
                y = abs(y)
            return self.push("clone:" + self.Y(y), y)
        if k < 0.925:      # assign_from_slice
            y = abs(self.rnd(r.choice([0, 1, 1, 2, 3])))
            s = 1 if u else r.choice([1, 1, -1, -1, 0])
            tok = "assign:%s:%s" % (SIGN[s], pad_words(r, y))
            return self.push(tok, y if u else s * y)
        if u:              # scalar right operands
            w = r.choice([32, 64, 128])
            name = r.choice(["adds", "subs", "subs", "divs", "rems"])
            s = r.choice([0, 1, (1 << w) - 1, r.getrandbits(w), 1 << (w - 1)])
            if name == "subs":
                if v < (1 << w) and r.random() < 0.6:
                    s = v                                         # to exactly zero
                elif s > v:
                    s = v & ((1 << w) - 1)
                    if s > v:
                        s = 0
                return self.push("subs:%d:%d" % (w, s), v - s)
            if name == "adds":
                return self.push("adds:%d:%d" % (w, s), v + s)
            s = s or 1
            return self.push("%s:%d:%d" % (name, w, s), v // s if name == "divs" else v % s)
        name = r.choice(["neg", "neg", "not", "not", "abs", "signum"])
        nv = {"neg": -v, "not": ~v, "abs": abs(v), "signum": sgn(v)}[name]
        if name == "signum" and r.random() < 0.7:
            name, nv = "neg", -v
        return self.push(name, nv)

    def line(self):
        return "hist.%s %s h:%s" % (self.kind, self.ctor, ";".join(self.ops))


def scripted(rng, kind, lens):
    """fixed scenarios named in the property text: the buffer grows and shrinks"""
    x = val(rand_digits(rng, rng.choice([1, 2, 3, 5])))
    y = val(rand_digits(rng, rng.choice([1, 2, 3]))) or 1
    s = Sim(rng, kind, x if kind == "u" or rng.random() < 0.5 else -x, lens)
    s.push("shl:4000", s.v << 4000)
    s.push("shr:3990", s.v >> 3990)
    s.push("shl:4000", s.v << 4000)
    s.push("clone:" + s.Y(y), y)                  # a short value into the long buffer
    s.push("shl:130", s.v << 130)
    s.push("zero", 0)
    s.push("add:" + s.Y(y), y)                    # set_zero then +=
    s.push("shl:4000", s.v << 4000)
    s.push("shr:4064", s.v >> 4064)
    s.push("sub:" + s.Y(s.v), 0)                  # -= to exactly zero
    s.push("one", 1)
    s.push("shl:640", 1 << 640)
    s.push("setbit:640:0", 0)                     # set_bit(top, false)
    s.push("setbit:7000:1", 1 << 7000)
    s.push("setbit:7000:0", 0)
    return [s.line()]


def history(rng, kind, lens, maxlen=40):
    v = val(rand_digits(rng, rng.choice(lens)))
    if kind == "i" and rng.random() < 0.5:
        v = -v
    if kind == "i" and rng.random() < 0.12:
        v = 0
    s = Sim(rng, kind, v, lens)
    n = rng.randint(1, maxlen) if maxlen >= 1 else 0
    panic_at = rng.randrange(n) if n and rng.random() < 0.06 else -1
    for i in range(n):
        s.step(allow_panic=(i == panic_at))
        if s.dead:
            break
    return s


def detour(rng, s):
    """operations that leave the value unchanged"""
    r, v, u = rng, s.v, s.kind == "u"
    c = r.choice(["muldiv", "mulsdivs", "powroot", "addsub", "xorxor", "shlshr", "shl_add_shr", "orand", "zero_add", "clone", "negneg", "notnot", "setclr", "divexact", "assign"])
    t = abs(s.rnd(r.choice([1, 2, 3]))) or 1
    if c == "muldiv":
        if not u and r.random() < 0.5:
            t = -t
        s.push("mul:" + s.Y(t), v * t); s.push("div:" + s.Y(t), v)
    elif c == "mulsdivs" and u:
        w = r.choice([32, 64, 128]); sc = r.getrandbits(w) or 1
        s.push("muls:%d:%d" % (w, sc), v * sc); s.push("divs:%d:%d" % (w, sc), v)
    elif c == "powroot" and abs(v).bit_length() < 700 and (u or v >= 0):
        e = r.choice([2, 3, 5])
        s.push("pow:%d" % e, v ** e); s.push({2: "sqrt", 3: "cbrt", 5: "nthroot:5"}[e], v)
    elif c == "addsub":
        s.push("add:" + s.Y(t), v + t); s.push("sub:" + s.Y(t), v)
    elif c == "xorxor":
        s.push("xor:" + s.Y(t), v ^ t); s.push("xor:" + s.Y(t), v)
    elif c == "shlshr":
        k = r.choice([1, 64, 130, 4000]); s.push("shl:%d" % k, v << k); s.push("shr:%d" % k, v)
    elif c == "shl_add_shr":
        k = r.choice([3, 64, 131, 4000]); y = r.getrandbits(k)
        s.push("shl:%d" % k, v << k); s.push("add:" + s.Y(y), (v << k) + y); s.push("shr:%d" % k, v)
    elif c == "orand" and v >= 0:
        nb = v.bit_length(); hi = t << (nb + r.choice([0, 1, 64]))
        s.push("or:" + s.Y(hi), v | hi); s.push("and:" + s.Y((1 << nb) - 1), v)
    elif c == "zero_add" and (u or v >= 0):
        s.push("zero", 0); s.push("add:" + s.Y(v), v)
    elif c == "clone":
        s.push("shl:%d" % r.choice([200, 4000]), v << 200); s.push("clone:" + s.Y(v), v)
    elif c == "negneg" and not u:
        s.push("neg", -v); s.push("neg", v)
    elif c == "notnot" and not u:
        s.push("not", ~v); s.push("not", v)
    elif c == "setclr":
        i = abs(v).bit_length() + r.choice([0, 1, 64, 500])
        if v >= 0:
            s.push("setbit:%d:1" % i, v | (1 << i)); s.push("setbit:%d:0" % i, v)
        else:
            s.push("setbit:%d:0" % i, v & ~(1 << i)); s.push("setbit:%d:1" % i, v)
    elif c == "divexact" and v != 0:
        k = r.choice([1, 64, 70]); s.push("shl:%d" % k, v << k); s.push("div:" + s.Y(1 << k), v)
    elif c == "assign" and (u or True):
        m = abs(v)
        s.push("assign:%s:%s" % (SIGN[sgn(v)] if not u else "+", pad_words(r, m)), v)


def pair(rng, lens):
    kind = rng.choice("ui")
    a = history(rng, kind, lens, maxlen=rng.choice([0, 3, 10, 25]))
    tries = 0
    while a.dead and tries < 20:
        a = history(rng, kind, lens, maxlen=10); tries += 1
    if a.dead:
        a = Sim(rng, kind, 5, lens)
    target = a.v
    c = rng.random()
    if c < 0.65:
        delta = 0
    elif c < 0.85:
        delta = rng.choice([1, -1, 1 << 64, -(1 << 64), 1 << (64 * (abs(target).bit_length() // 64 + 1))])
    else:
        delta = rng.choice([-2 * target, val(rand_digits(rng, rng.choice(lens))), -target])
    tv = target + delta
    if kind == "u" and tv < 0:
        tv = target + abs(delta)
    b = Sim(rng, kind, tv, lens)
    for _ in range(rng.choice([0, 1, 1, 2, 4])):
        detour(rng, b)
    if rng.random() < 0.3:
        detour(rng, a)
    STATS["pair_same" if a.v == b.v else "pair_diff"] += 1
    if rng.random() < 0.5:
        a, b = b, a
    return "hist.pair %s %s h:%s %s h:%s" % (kind, a.ctor, ";".join(a.ops), b.ctor, ";".join(b.ops))


def generate(rng, tier):
    for k in STATS:
        STATS[k] = 0
    lens = LENS_T if tier == "thorough" else LENS
    n = 15000 if tier == "thorough" else 1100
    npairs = 5000 if tier == "thorough" else 400
    cases = []
    for kind in "ui":
        for _ in range(3):
            cases += scripted(rng, kind, lens)
    for i in range(n):
        h = history(rng, "u" if i % 2 == 0 else "i", lens)
        STATS["panic"] += 1 if h.dead else 0
        cases.append(h.line())
    for _ in range(npairs):
        cases.append(pair(rng, lens))
    import extra_cases          # API-audit additions (docs/API_COVERAGE.md); produced after the original cases
    return cases + extra_cases.c04(rng, tier)


def extra_checks(ctx):
    """input distribution of exactly the cases the run evaluates (same PRNG construction as check)"""
    import random, collections
    rng = random.Random(ctx["seed"] * 1000003 + 4)
    cases = generate(rng, ctx["tier"])
    extra_ops = collections.Counter(c.split(" ")[0] for c in cases if not c.startswith("hist."))
    cases = [c for c in cases if c.startswith("hist.")]          # the distribution below is about the Hist.v machine
    ops, ctors, lens = collections.Counter(), collections.Counter(), collections.Counter()
    grow_shrink = lost = 0
    for c in cases:
        t = c.split(" ")
        scripts = [(t[1], t[2])] if t[0] != "hist.pair" else [(t[2], t[3]), (t[4], t[5])]
        for ct, h in scripts:
            ctors[t[0][5:] + ":" + ct.split(":")[0]] += 1
            names = [o.split(":")[0] for o in h[2:].split(";") if o]
            ops.update(names)
            n = len(names)
            lens["0" if n == 0 else "1-5" if n <= 5 else "6-15" if n <= 15 else "16-40"] += 1
            if "shl" in names and ("shr" in names or "zero" in names or "clone" in names or "rem" in names):
                grow_shrink += 1
    return {"coverage": {"hist_ops": dict(sorted(ops.items())), "hist_ctors": dict(sorted(ctors.items())),
                         "hist_lengths": dict(lens), "histories_growing_and_shrinking": grow_shrink,
                         "pairs_same_value": STATS["pair_same"], "pairs_different_value": STATS["pair_diff"],
                         "histories_ending_in_panic": STATS["panic"],
                         "audit_extra_ops": dict(sorted(extra_ops.items()))},
            "broken": [], "violations": []}


def nontrivial(case):
    toks = case.split(" ")
    if toks[0] == "hist.pair":
        return True
    if not toks[0].startswith("hist"):                       # audit additions: ord / sort / hash / arb / qc
        return any("," in t for t in toks[1:]) or toks[0].startswith("qc.") or any(len(t) > 20 for t in toks[1:])
    return toks[2].count(";") >= 2 or "," in toks[1]


# ---------------------------------------------------------------- in-Coq cross-check
COQ_IMPORTS = "Base Hist"
_SG = {"-": "Minus", "0": "NoSign", "+": "Plus"}


def _hl(s):
    return "[" + "; ".join(str(int(h, 16)) for h in s.split(",") if h != "") + "]"


def _bl(h):
    return "[" + "; ".join(str(int(h[2 * i:2 * i + 2], 16)) for i in range(len(h) // 2)) + "]"


def _ctor(kind, tok):
    name, rest = tok.split(":", 1)
    if kind == "u":
        c = {"vec": "CUVec", "new": "CUNew", "slice": "CUSlice", "serde": "CUSerde"}
        if name in c:
            return "%s %s" % (c[name], _hl(rest))
        if name in ("radle", "radbe"):
            r, b = rest.split(":")
            return "%s %s (%s)" % ({"radle": "CURadixLe", "radbe": "CURadixBe"}[name], _bl(b), r)
        return "%s %s" % ({"le": "CUBytesLe", "be": "CUBytesBe"}[name], _bl(rest))
    if name in ("sle", "sbe"):
        return "%s %s" % ({"sle": "CISignedLe", "sbe": "CISignedBe"}[name], _bl(rest))
    if name == "fromu":
        return "CIFromU %s" % _hl(rest)
    s, body = rest.split(":", 1)
    if name in ("radle", "radbe"):
        r, b = body.split(":")
        return "%s %s %s (%s)" % ({"radle": "CIRadixLe", "radbe": "CIRadixBe"}[name], _SG[s], _bl(b), r)
    c = {"parts": "CIParts", "new": "CINew", "slice": "CISlice", "serde": "CISerde"}
    if name in c:
        return "%s %s %s" % (c[name], _SG[s], _hl(body))
    return "%s %s %s" % ({"le": "CIBytesLe", "be": "CIBytesBe"}[name], _SG[s], _bl(body))


def _obj(tok):
    if tok.startswith("u:"):
        return "(OU %s)" % _hl(tok[2:])
    _, s, d = tok.split(":", 2)
    return "(OI (mkint %s %s))" % (_SG[s], _hl(d))


_BIG = {"mul": "OMul", "gcd": "OGcd", "lcm": "OLcm", "add": "OAdd", "sub": "OSub", "div": "ODiv", "rem": "ORem", "and": "OAnd", "or": "OOr", "xor": "OXor",
        "clone": "OCloneFrom", "divfloor": "ODivFloor", "modfloor": "OModFloor", "diveuclid": "ODivEuclid",
        "remeuclid": "ORemEuclid", "divceil": "ODivCeil"}
_SC = {"muls": "OMulS", "adds": "OAddS", "subs": "OSubS", "divs": "ODivS", "rems": "ORemS"}
_NUL = {"sqrt": "OSqrt", "cbrt": "OCbrt", "zero": "OSetZero", "one": "OSetOne", "neg": "ONeg", "not": "ONot", "abs": "OAbs", "signum": "OSignum"}


def _op(tok):
    name, _, rest = tok.partition(":")
    if name in _BIG:
        return "%s %s" % (_BIG[name], _obj(rest))
    if name in _SC:
        w, v = rest.split(":")
        return "%s S%s (%s)" % (_SC[name], w, v)
    if name in _NUL:
        return _NUL[name]
    if name in ("shl", "shr", "pow", "nthroot"):
        return "%s (%s)" % ({"shl": "OShl", "shr": "OShr", "pow": "OPow", "nthroot": "ONthRoot"}[name], rest)
    if name == "setbit":
        i, b = rest.split(":")
        return "OSetBit (%s) %s" % (i, "true" if b == "1" else "false")
    if name == "assign":
        s, w = rest.split(":")
        return "OAssign %s %s" % (_SG[s], _hl(w))
    raise ValueError(tok)


def coq_term(case, model_result):
    toks = case.split(" ")
    if toks[0] not in ("hist.u", "hist.i") or "panic" in model_result or len(case) > 700:
        return None
    if "shl:4000" in case or "shl:1000" in case or "setbit:7000" in case:
        return None
    kind = toks[0][-1]
    ops = [t for t in toks[2][2:].split(";") if t]
    lhs = "history_trace (mkHP addsub div bits mul pgr_pow pgr_gcd pgr_roots radix iter serde byteio signs) (%s) [%s]" % (_ctor(kind, toks[1]), "; ".join(_op(o) for o in ops))
    rhs = "[" + "; ".join("Ret %s" % _obj(t) for t in model_result.split(" ")[1:]) + "]"
    return lhs, rhs
