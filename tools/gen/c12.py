"""C12 — exponentiation: every exponent 0..300 and every exponent bit pattern 2^a*(2^b+...)
(square-only prefix, `exp == 1` exit, general square-and-multiply) on bases 0, +-1, +-2 and
1-3 digit values, for every exponent type (u8..u128, usize, BigUint) and every by-value /
by-reference form; BigUint exponents at the u64 / u128 conversion edges with base 0 / +-1 (and
the memory-overflow panic for |base| >= 2 beyond u128)."""
from genlib import *

TYPES = [("u8", 8), ("u16", 16), ("u32", 32), ("u64", 64), ("usize", 64), ("u128", 128)]
FORMS = ["vv", "vr", "rv", "rr"]
MAX_BITS = 60000          # keep x^e below this many bits

def small_bases(rng):
    return [0, 1, 2, 3, 10, MAXD, 1 << 63, (1 << 32) + 1]

def rand_base(rng, nd):
    return val(rand_digits(rng, nd))

def fits(base, e):
    return max(abs(base).bit_length(), 1) * e <= MAX_BITS or abs(base) <= 1

def emit(rng, cases, base, e, signed=None):
    """one case for base^e with a random exponent type that can hold e and a random form"""
    if not fits(base, e):
        return
    tys = [t for t, w in TYPES if e < (1 << w)]
    signed = (rng.random() < 0.45) if signed is None else signed
    form = rng.choice(FORMS)
    k = rng.random()
    if k < 0.12 and e < (1 << 128) * 4:
        # BigUint exponent (never in [2^64, 2^128) with |base| >= 2: that would really run)
        if abs(base) >= 2 and (1 << 64) <= e < (1 << 128):
            return
        if signed:
            cases.append("i.pow_big.%s %s %s" % (form, I(-base if rng.random() < 0.5 else base), U(e)))
        else:
            cases.append("u.pow_big.%s %s %s" % (form, U(base), U(e)))
        return
    if not tys:
        return
    ty = rng.choice(tys)
    if k < 0.17 and e < (1 << 32):
        if signed:
            cases.append("i.pow_u32 %s %s" % (I(-base if rng.random() < 0.5 else base), S("u32", e)))
        else:
            cases.append("u.pow_u32 %s %s" % (U(base), S("u32", e)))
        return
    if signed:
        cases.append("i.pow.%s %s %s" % (form, I(-base if rng.random() < 0.5 else base), S(ty, e)))
    else:
        cases.append("u.pow.%s %s %s" % (form, U(base), S(ty, e)))

def patterns():
    """exponents 2^a * m, m odd with every arrangement of up to 4 further bits"""
    out = set()
    for a in range(0, 9):
        for b in range(0, 7):
            top = 1 << b
            for low in range(0, top, max(1, top // 8)):
                m = top | low | 1 if b > 0 else 1
                out.add((1 << a) * m)
                out.add((1 << a) * (top | low))
    return sorted(x for x in out if x > 0)

def generate(rng, tier):
    cases = []
    reps = 8 if tier == "thorough" else 1
    # exponents 0..300 x base classes
    for e in range(0, 301):
        for _ in range(reps):
            emit(rng, cases, rng.choice([0, 1, 2]), e)
            emit(rng, cases, rand_base(rng, 1), e)
            emit(rng, cases, rand_base(rng, rng.choice([2, 3])), e)
            emit(rng, cases, rng.choice(small_bases(rng)), e)
    # bit patterns
    for e in patterns():
        for _ in range(reps):
            emit(rng, cases, rng.choice([2, 3, 5, 7, MAXD]), e)
            emit(rng, cases, rand_base(rng, rng.choice([1, 1, 2, 3])), e)
    # 0^0 = 1 in every type and form; 0^e, 1^e, (-1)^e
    for ty, w in TYPES:
        for form in FORMS:
            cases.append("u.pow.%s %s %s" % (form, U(0), S(ty, 0)))
            cases.append("i.pow.%s %s %s" % (form, I(0), S(ty, 0)))
        edge = [0, 1, 2, (1 << w) - 1, (1 << w) - 2, 1 << (w - 1), (1 << (w - 1)) + 1, (1 << (w - 1)) - 1]
        for e in edge:
            for base in (0, 1):
                cases.append("u.pow.%s %s %s" % (rng.choice(FORMS), U(base), S(ty, e)))
            for base in (0, 1, -1):
                cases.append("i.pow.%s %s %s" % (rng.choice(FORMS), I(base), S(ty, e)))
        # type maximum that still gives a small result: base 2 up to 2^16-1
        if w <= 16:
            cases.append("u.pow.%s %s %s" % (rng.choice(FORMS), U(2), S(ty, (1 << w) - 1)))
            cases.append("i.pow.%s %s %s" % (rng.choice(FORMS), I(-2), S(ty, (1 << w) - 1)))
    # BigUint exponents at the conversion edges
    edges = [0, 1, 2, 3, (1 << 64) - 1, 1 << 64, (1 << 64) + 1, (1 << 127), (1 << 128) - 1, (1 << 128) - 2,
             1 << 128, (1 << 128) + 1, (1 << 128) + 2, (1 << 192) + 1, 1 << 192, (1 << 200) - 1]
    for e in edges:
        for form in FORMS:
            for base in (0, 1):
                cases.append("u.pow_big.%s %s %s" % (form, U(base), U(e)))
            for base in (0, 1, -1):
                cases.append("i.pow_big.%s %s %s" % (form, I(base), U(e)))
            # |base| >= 2: fine for small e, must panic (memory overflow) beyond u128
            if e < 4 or e >= (1 << 128):
                b2 = rng.choice([2, 3, MAXD, rand_base(rng, 2)])
                cases.append("u.pow_big.%s %s %s" % (form, U(b2), U(e)))
                cases.append("i.pow_big.%s %s %s" % (form, I(-b2 if rng.random() < 0.5 else b2), U(e)))
    # non-canonical exponent digits never reach the API (BigUint is normalised); small BigUint exponents
    for _ in range(200 * reps):
        e = rng.choice([rng.randrange(0, 40), rng.randrange(0, 300)])
        emit(rng, cases, rand_base(rng, rng.choice([1, 2, 3])), e, signed=rng.random() < 0.5)
    return cases

def nontrivial(case):
    toks = case.split(" ")
    # exponent >= 2 and |base| >= 2
    e = toks[2]
    ev = int(e.split(":")[2]) if e.startswith("s:") else val(parse_digits(e))
    b = toks[1]
    bv = val(parse_digits(b)) if b.startswith("u:") else val([int(h, 16) for h in b.split(":", 2)[2].split(",") if h])
    return ev >= 2 and bv >= 2

RULE = ("C12 generator: exponents 0..300 and all patterns 2^a*(2^b+..) x bases {0,1,2,single,2-3 digit,+-}; "
        "every exponent type and form; BigUint exponents at u64/u128 edges | non-trivial: |base| >= 2 and exponent >= 2")

# ---- in-Coq cross-check of the extraction -------------------------------------------------
COQ_IMPORTS = "Base PgrLoop Pow Mul Extracted"

def coq_term(case, model):
    toks = case.split(" ")
    op, a = toks[0], toks[1:]
    if len(model) > 300 or len(case) > 200:
        return None
    kind, _, form = op.partition(".")[2].partition(".")
    ref = form in ("rv", "rr") or kind == "pow_u32"
    if op.startswith("u.pow_big"):
        f = "upow_big_ref" if ref else "upow_big"
        return "%s (Mul.umul Extracted.mul) pgr_pow %s %s" % (f, coq_list(a[0]), coq_list(a[1])), coq_result(model)
    if op.startswith("i.pow_big"):
        f = "ipow_big_ref" if ref else "ipow_big"
        return "%s (Mul.umul Extracted.mul) pgr_pow %s %s" % (f, coq_bigint(a[0]), coq_list(a[1])), coq_result(model)
    if op.startswith("u.pow"):
        f = "upow_prim_ref" if ref else "upow_prim"
        return "%s (Mul.umul Extracted.mul) pgr_pow %s %d" % (f, coq_list(a[0]), coq_scalar(a[1])[1]), coq_result(model)
    if op.startswith("i.pow"):
        f = "ipow_prim_ref" if ref else "ipow_prim"
        return "%s (Mul.umul Extracted.mul) pgr_pow %s %d" % (f, coq_bigint(a[0]), coq_scalar(a[1])[1]), coq_result(model)
    return None
