"""C17 — serde format: values with zero / non-zero top half and zero through a recording
Serializer; token streams (u32 sequences with trailing zeros, odd/even length, elements
that are not u32, inconsistent signs, invalid sign bytes, absent / wrong size hints)
through a token-replay Deserializer; round trips."""
from genlib import *
import zlib

THEOREMS = []
W = 1 << 32

def Hn(h):
    return "h:none" if h is None else "h:%d" % h

def shaped(rng, n):
    d = rand_digits(rng, n)
    if d:
        k = rng.random()
        if k < 0.35:
            d[-1] = rng.choice([1, W - 1, rng.getrandbits(32) or 1])            # top half zero
        elif k < 0.6:
            d[-1] = rng.choice([W, (rng.getrandbits(32) or 1) << 32, MAXD])     # top half non-zero
    return d

def hints(rng, n):
    return [None, n, 0, n + 1, max(n - 1, 0), 2 * n + 7, 1 << 18, (1 << 18) + 1, (1 << 64) - 1,
            rng.getrandbits(rng.choice([3, 20, 40, 63]))]

def generate(rng, tier):
    thorough = tier == "thorough"
    cases = []
    vals = [[], [1], [W - 1], [W], [W + 1], [MAXD], [0, 1], [0, W], [MAXD, MAXD], [5, 7 << 32], [0, 0, 1]]
    for _ in range(2500 if thorough else 350):
        vals.append(shaped(rng, rng.choice([1, 1, 2, 2, 3, 4, 5, 9, 16, 33])))
    for d in vals:
        v = val(d)
        cases.append("u.ser %s" % U(d))
        cases.append("u.serde_rt %s" % U(d))
        for s in (1, -1):
            cases.append("i.ser %s" % I(s * v))
            cases.append("i.serde_rt %s" % I(s * v))
    # token streams
    streams = [[], [0], [0, 0], [0, 0, 0], [1], [1, 0], [1, 0, 0], [0, 1], [0, 0, 1], [0, 0, 1, 0],
               [W - 1], [W - 1, W - 1], [W - 1, W - 1, W - 1], [W - 1] * 4 + [0] * 3]
    for _ in range(2500 if thorough else 400):
        n = rng.choice([1, 2, 3, 4, 5, 6, 7, 8, 9, 16, 17, 30, 31])
        w = [rng.choice([0, 0, 1, W - 1, 1 << 31, rng.getrandbits(32), rng.getrandbits(32)]) for _ in range(n)]
        w += [0] * rng.choice([0, 0, 0, 1, 2, 3, 4, 5])
        streams.append(w)
    for w in streams:
        hs = hints(rng, len(w))
        for h in (hs if len(w) <= 4 else [rng.choice(hs), rng.choice(hs)]):
            cases.append("u.de %s %s" % (Hn(h), D(w)))
        for sv in (-1, 0, 1):
            cases.append("i.de %s %s %s" % (S("i64", sv), Hn(rng.choice(hs)), D(w)))
        # invalid sign bytes
        bad = rng.choice([2, -2, 3, 127, -128, 128, 255, 256, -129, 1 << 40, -(1 << 40), rng.randrange(-300, 300)])
        cases.append("i.de %s %s %s" % (S("i64", bad), Hn(rng.choice(hs)), D(w)))
    # malformed elements: values that do not fit a u32
    for _ in range(400 if thorough else 60):
        n = rng.choice([1, 2, 3, 4, 7])
        w = [rng.getrandbits(32) for _ in range(n)]
        w[rng.randrange(n)] = rng.choice([W, W + 1, MAXD, rng.getrandbits(64) | W])
        cases.append("u.de %s %s" % (Hn(rng.choice([None, n])), D(w)))
        cases.append("i.de %s %s %s" % (S("i64", rng.choice([-1, 0, 1, 2])), Hn(None), D(w)))
    return cases

RULE = ("non-trivial: a value of >= 2 native digits or a token stream of >= 3 words; "
        "distinct: distinct case lines")

def nontrivial(case):
    if nontrivial_default(case):
        return True
    return any(t.startswith("d:") and t.count(",") >= 2 for t in case.split(" ")[1:])

# ---- in-Coq cross-check of the extraction -------------------------------------------------
COQ_IMPORTS = "Base Iter Serde"

def coq_hint(tok):
    return "None" if tok == "h:none" else "(Some %s)" % tok[2:]

def coq_term(case, model):
    toks = case.split(" ")
    op, a = toks[0], toks[1:]
    if len(case) > 400 or zlib.crc32(case.encode()) % 20 != 0:
        return None
    m = model.split(" ")
    if op == "u.ser":
        return ("ser_biguint serde (strip %s)" % coq_list(a[0]),
                "(%s, %s)" % (m[1][2:], coq_list(m[2])))
    if op == "i.ser":
        x = a[0].split(":")
        return ("ser_bigint serde (from_biguint %s (strip %s))" % ({"-": "Minus", "0": "NoSign", "+": "Plus"}[x[1]], coq_list("d:" + x[2])),
                "((%s), (%s, %s))" % (m[1].split(":")[2], m[2][2:], coq_list(m[3])))
    if op == "u.de":
        rhs = "None" if model == "err" else "Some %s" % coq_list(m[1])
        return "de_biguint_tokens serde %s %s" % (coq_hint(a[0]), coq_list(a[1])), rhs
    if op == "i.de":
        rhs = "None" if model == "err" else "Some %s" % coq_bigint(m[1])
        return "de_bigint serde (%s) %s %s" % (a[0].split(":")[2], coq_hint(a[1]), coq_list(a[2])), rhs
    return None
