"""C03 — division: dividends built backwards as q*b + r (q digits from the boundary alphabet,
r in {0, 1, b-1, random}), divisors of 1/2/3/5/17 digits, every normalisation shift 0..63 of the
divisor's top digit, a<b / a=b / one digit longer, constructed inputs for the rare branches of
Knuth D (q-hat decremented once/twice, a0 == b0, add-back), all sign pairs x all BigInt APIs,
a b = 0 stream (must panic / checked must be none), scalar forms, hook-level internals."""
from genlib import *

DIV_LENS = [1, 2, 3, 5, 17]
HALF = 1 << 63

U_OPS = ["u.div_rem", "u.div", "u.div_val", "u.rem", "u.rem_val", "u.div_floor", "u.mod_floor",
         "u.div_mod_floor", "u.div_ceil", "u.div_euclid", "u.rem_euclid", "u.div_rem_euclid",
         "u.checked_div", "u.checked_div_euclid", "u.checked_rem_euclid", "u.checked_div_rem_euclid"]
I_OPS = ["i.div_rem", "i.div", "i.rem", "i.div_floor", "i.mod_floor", "i.div_mod_floor", "i.div_ceil",
         "i.div_euclid", "i.rem_euclid", "i.div_rem_euclid", "i.checked_div", "i.checked_div_inherent",
         "i.checked_div_euclid", "i.checked_rem_euclid", "i.checked_div_rem_euclid"]

# ---------------------------------------------------------------- reference trace (development aid)
def knuth_events(a, b):
    """Mirror of div_rem_core on digit lists (b normalised, len(a) >= len(b) >= 2).
    Returns (q, r, events) with events = {'eq':n, 'dec1':n, 'dec2':n, 'addback':n}."""
    a = list(a)
    n = len(b)
    V = val(b)
    b0, b1 = b[-1], b[-2]
    a0 = 0
    ev = {"eq": 0, "dec1": 0, "dec2": 0, "addback": 0}
    qd = [0] * (len(a) - n + 1)
    for j in range(len(a) - n, -1, -1):
        a1, a2 = a[-1], a[-2]
        if a0 < b0:
            q0, r = divmod(a0 * B + a1, b0)
        else:
            ev["eq"] += 1
            q0, r = MAXD, a0 + a1
        decs = 0
        while r <= MAXD and r * B + a2 < q0 * b1:
            q0 -= 1
            r += b0
            decs += 1
        if decs == 1:
            ev["dec1"] += 1
        elif decs >= 2:
            ev["dec2"] += 1
        win = val(a[j:]) + a0 * B ** n
        win -= q0 * V
        if win < 0:
            ev["addback"] += 1
            q0 -= 1
            win += V
        assert 0 <= win < V
        a[j:] = (to_digits(win) + [0] * n)[:n]
        qd[j] = q0
        a0 = a.pop()
    a.append(a0)
    return val(qd), val(a), ev

# ---------------------------------------------------------------- builders
def alpha_digits(rng, n):
    return [rng.choice(DIGIT_ALPHABET + [rng.getrandbits(64)]) for _ in range(n)]

def divisor(rng, n, shift=None):
    """n-digit divisor; the top digit has exactly `shift` leading zeros when given."""
    d = rand_digits(rng, n)
    if shift is not None:
        top = (1 << (63 - shift)) | (rng.getrandbits(63 - shift) if shift < 63 else 0)
        if rng.random() < 0.3:
            top = 1 << (63 - shift)
        elif rng.random() < 0.3:
            top = (1 << (64 - shift)) - 1
        d[-1] = top
    return d

def backwards(rng, b, qlen):
    """(a, q, r) with a = q*b + r, 0 <= r < b."""
    vb = val(b)
    q = val(alpha_digits(rng, qlen)) if qlen else 0
    r = rng.choice([0, 1, vb - 1, rng.randrange(vb)])
    if r >= vb:
        r = 0
    return q * vb + r

def rare_eq(rng, n, extra):
    """top remainder digit equals the divisor's top digit in the second iteration."""
    b = rand_digits(rng, n)
    b[-1] |= HALF
    if all(x == 0 for x in b[:-1]):
        b[0] = 1
    a = [rng.getrandbits(64) for _ in range(1 + extra)] + to_digits_n(val(b) - 1 - (rng.getrandbits(32) if b[-2] else 0), n)
    return a, b

def to_digits_n(v, n):
    d = to_digits(v)
    return d + [0] * (n - len(d))

def rare_dec2(rng, n, extra):
    """[a0,a1] = (B-1)*b0 exactly with b0 = B/2, b1 = MAX: the first estimate is 2 too large."""
    lo_b = [rng.getrandbits(64) for _ in range(n - 2)]
    b = lo_b + [MAXD, HALF]
    lo_a = [rng.getrandbits(64) for _ in range(n - 2 + extra)]
    a = lo_a + [rng.choice([0, 1, MAXD, rng.getrandbits(64)]), HALF, HALF - 1]
    return a, b

def rare_dec1(rng, n, extra):
    lo_b = [rng.getrandbits(64) for _ in range(n - 2)]
    b = lo_b + [MAXD, HALF]
    lo_a = [rng.getrandbits(64) for _ in range(n - 2 + extra)]
    a = lo_a + [rng.choice([0, 1, MAXD, rng.getrandbits(64)]), MAXD, HALF - 1]
    return a, b

def rare_addback(rng, n, extra):
    """a = q*V - 1 - t with V = [.., 0, top]: the 3-by-2 estimate is q, the true digit q-1."""
    n = max(n, 3)
    b = [rng.choice([MAXD, MAXD - 1, rng.getrandbits(64) | HALF]) for _ in range(n - 2)] + [0, rng.choice([HALF, HALF + 1, HALF | rng.getrandbits(63)])]
    V = val(b)
    q = rng.choice([1, 2, 3, MAXD, HALF, rng.getrandbits(64) | 1])
    a = q * V - 1 - rng.choice([0, 0, 1, rng.getrandbits(16)])
    # push the event into a later iteration: higher quotient digits first, lower digits after
    hi = val(alpha_digits(rng, extra)) if extra else 0
    k = rng.choice([0, 1, 2])
    a = (hi * B * V + a) * B ** k + (rng.randrange(B ** k) if k else 0)
    return to_digits(a), b

def unnormalise(rng, a, b):
    """Shift a normalised pair right so that the public API has to normalise it again."""
    s = rng.randrange(64)
    if (val(b) >> s) >= B:
        return to_digits(val(a) >> s), to_digits(val(b) >> s)
    return a, b

# ---------------------------------------------------------------- generator
def generate(rng, tier):
    T = tier == "thorough"
    cases = []
    add = cases.append

    # (1) q*b + r backwards, all divisor lengths, several quotient lengths, every unsigned API
    reps = 30 if T else 1
    for _ in range(reps):
        for n in DIV_LENS:
            for qlen in [0, 1, 2, 3, 7]:
                for op in U_OPS:
                    b = divisor(rng, n)
                    a = backwards(rng, b, qlen)
                    add("%s %s %s" % (op, U(a), U(b)))
    # (2) every normalisation shift 0..63 of the top divisor digit, 2/3/5/17 digits
    for n in ([2, 3, 5, 17] if T else [2, 3, 5]):
        for s in range(64):
            b = divisor(rng, n, s)
            a = backwards(rng, b, rng.choice([1, 2, 4]))
            add("u.div_rem %s %s" % (U(a), U(b)))
            add("h.div_rem %s %s" % (U(a), U(b)))
            b = divisor(rng, n, s)
            a = backwards(rng, b, rng.choice([1, 3]))
            add("%s %s %s" % (rng.choice(["u.rem", "u.div", "u.div_ceil", "u.rem_val", "u.div_val"]), U(a), U(b)))
    # (3) a < b, a = b, a one digit longer, equal lengths
    for n in DIV_LENS + [4, 8]:
        for _ in range(4 if T else 2):
            b = divisor(rng, n)
            vb = val(b)
            for a in (vb - 1, vb, vb + 1, vb // 2, vb * B + rng.randrange(vb), vb * MAXD + vb - 1,
                      val(rand_digits(rng, n)), val(rand_digits(rng, n + 1)), 0, 1):
                add("%s %s %s" % (rng.choice(["u.div_rem", "u.div_rem", "h.div_rem", "u.div_mod_floor"]), U(a), U(b)))
    # (4) rare branches of Knuth D, by construction (both through the API and at hook level)
    nrare = 200 if T else 12
    for fam in (rare_eq, rare_dec1, rare_dec2, rare_addback):
        for i in range(nrare):
            n = rng.choice([2, 3, 3, 5, 17])
            a, b = fam(rng, n, rng.choice([0, 0, 1, 3]))
            add("h.div_rem_core %s %s" % (U(a), D(b)))
            add("u.div_rem %s %s" % (U(a), U(b)))
            a2, b2 = unnormalise(rng, a, b)
            add("%s %s %s" % (rng.choice(U_OPS), U(a2), U(b2)))
            sa, sb = rng.choice([1, -1]), rng.choice([1, -1])
            add("%s %s %s" % (rng.choice(I_OPS), I(sa * val(a2)), I(sb * val(b2))))
    # (5) all sign pairs x all BigInt APIs, exact and inexact quotients, small and large
    for op in I_OPS:
        for sa in (1, -1):
            for sb in (1, -1):
                for _ in range(12 if T else 2):
                    n = rng.choice(DIV_LENS)
                    b = divisor(rng, n)
                    a = backwards(rng, b, rng.choice([0, 1, 2, 3]))
                    add("%s %s %s" % (op, I(sa * a), I(sb * val(b))))
                # exact division (remainder 0) and the to_u32 / to_i32 short-cut boundaries
                b = rng.choice([1, 2, 3, (1 << 31) - 1, 1 << 31, (1 << 31) + 1, (1 << 32) - 1, 1 << 32, MAXD, HALF])
                a = b * val(alpha_digits(rng, rng.choice([1, 2, 3]))) + rng.choice([0, 0, 1, b - 1])
                add("%s %s %s" % (op, I(sa * a), I(sb * b)))
        add("%s %s %s" % (op, I(0), I(rng.choice([1, -1]) * rand_big(rng, [1, 2, 3]))))
    # (6) b = 0: every API must panic, every checked_* must return none
    for op in U_OPS:
        for a in (0, 1, 5, rand_big(rng, [2, 3, 5])):
            add("%s %s %s" % (op, U(a), U(0)))
    for op in I_OPS:
        for a in (0, 5, -5, rand_signed(rng, [2, 3])):
            add("%s %s %s" % (op, I(a), I(0)))
    # (7) scalar forms
    for _ in range(1500 if T else 60):
        ty = rng.choice(["u32", "u64", "u128"])
        bits = {"u32": 32, "u64": 64, "u128": 128}[ty]
        s = rng.choice([0, 1, 2, 3, (1 << bits) - 1, 1 << (bits - 1), rng.getrandbits(bits), rng.getrandbits(bits // 2),
                        1 << 32, (1 << 32) - 1, 1 << 64, (1 << 64) - 1]) % (1 << bits)
        a = rand_big(rng, [0, 1, 1, 2, 3, 5, 17])
        add("u.div_scalar %s %s" % (U(a), S(ty, s)))
        add("u.rem_scalar %s %s" % (U(a), S(ty, s)))
        small = rng.choice([0, 1, 2, s, s + 1, max(s - 1, 0), rng.getrandbits(bits) + 1, rand_big(rng, [1, 2, 3]), rng.getrandbits(31) + 1])
        add("u.scalar_div %s %s" % (S(ty, s), U(small)))
        add("u.scalar_rem %s %s" % (S(ty, s), U(small)))
    # (8) hook level
    for _ in range(1000 if T else 40):
        d = rng.choice([1, 2, 3, MAXD, HALF, HALF + 1, rng.getrandbits(64) | 1, rng.getrandbits(32) | 1])
        hi = rng.choice([0, d - 1, rng.randrange(d)])
        lo = rng.choice([0, MAXD, rng.getrandbits(64)])
        add("h.div_wide %s %s %s" % (N(hi), N(lo), N(d)))
        a = rand_digits(rng, rng.choice([0, 1, 2, 3, 5, 17]))
        add("h.div_rem_digit %s %s" % (U(a), N(d)))
        add("h.rem_digit %s %s" % (U(a), N(d)))
        n = rng.choice([0, 1, 2, 3, 5, 17])
        x = [rng.choice([0, MAXD, rng.getrandbits(64)]) for _ in range(n)]
        y = [rng.choice([0, MAXD, rng.getrandbits(64)]) for _ in range(n)]
        c = rng.choice([0, 1, MAXD, rng.getrandbits(64)])
        add("h.sub_mul_digit_same_len %s %s %s" % (D(x), D(y), N(c)))
        n = rng.choice([2, 3, 5, 17])
        b = divisor(rng, n, 0)
        aa = backwards(rng, b, rng.choice([1, 2, 3, 7]))
        if aa >= B ** (n - 1):
            add("h.div_rem_core %s %s" % (U(aa), D(b)))
    # hook-level failure stream: the documented / asserted preconditions
    add("h.div_rem_digit %s %s" % (U(5), N(0)))
    add("h.rem_digit %s %s" % (U(5), N(0)))
    add("h.div_wide %s %s %s" % (N(3), N(0), N(3)))            # hi == divisor: debug_assert (would be #DE)
    add("h.div_wide %s %s %s" % (N(0), N(1), N(0)))            # divisor 0
    add("h.sub_mul_digit_same_len %s %s %s" % (D([1, 2]), D([1]), N(1)))
    return cases

def nontrivial(case):
    toks = case.split(" ")
    if toks[0].startswith("h.div_wide"):
        return True
    return nontrivial_default(case)

RULE = ("distinct case lines; non-trivial = some operand has >= 2 digits (hook h.div_wide counts as is); "
        "probe_cases 20..25 in the evidence give the number of cases in which the real code took: "
        "20 a0<b0, 21 a0==b0 (MAX branch), 22 q-hat decrement, 23 add-back, 24 single-digit divisor, 25 shift==0")

# ---- in-Coq cross-check of the extraction -------------------------------------------------
COQ_IMPORTS = "Base X86 AddSub ShiftCore Div"

def _cu(tok):
    """u: argument as the canonical list the driver passes to the model."""
    d = parse_digits(tok)
    while d and d[-1] == 0:
        d.pop()
    return coq_list(d)

def _ci(tok):
    _, s, digs = tok.split(":", 2)
    l = [int(h, 16) for h in digs.split(",")] if digs else []
    while l and l[-1] == 0:
        l.pop()
    sg = {"-": "Minus", "0": "NoSign", "+": "Plus"}[s]
    if not l:
        sg = "NoSign"
    if sg == "NoSign":
        l = []
    return "(mkint %s %s)" % (sg, coq_list(l))

U_COQ = {"u.div_rem": "udivrem", "u.div": "udiv", "u.div_val": "udiv_val", "u.rem": "urem", "u.rem_val": "urem_val",
         "u.div_floor": "udiv_floor", "u.mod_floor": "umod_floor", "u.div_mod_floor": "udiv_mod_floor",
         "u.div_ceil": "udiv_ceil", "u.div_euclid": "udiv_euclid", "u.rem_euclid": "urem_euclid",
         "u.div_rem_euclid": "udiv_rem_euclid", "u.checked_div": "uchecked_div",
         "u.checked_div_euclid": "uchecked_div_euclid", "u.checked_rem_euclid": "uchecked_rem_euclid",
         "u.checked_div_rem_euclid": "uchecked_div_rem_euclid", "h.div_rem": "udivrem_val"}
I_COQ = {"i.div_rem": "idiv_rem", "i.div": "idiv", "i.rem": "irem", "i.div_floor": "idiv_floor",
         "i.mod_floor": "imod_floor", "i.div_mod_floor": "idiv_mod_floor", "i.div_ceil": "idiv_ceil",
         "i.div_euclid": "idiv_euclid", "i.rem_euclid": "irem_euclid", "i.div_rem_euclid": "idiv_rem_euclid",
         "i.checked_div": "ichecked_div", "i.checked_div_inherent": "ichecked_div_inherent",
         "i.checked_div_euclid": "ichecked_div_euclid", "i.checked_rem_euclid": "ichecked_rem_euclid",
         "i.checked_div_rem_euclid": "ichecked_div_rem_euclid"}

def coq_term(case, model):
    toks = case.split(" ")
    op, a = toks[0], toks[1:]
    if sum(len(x) for x in a) > 300:
        return None
    some = "checked" in op
    if op in U_COQ:
        return "%s Extracted.div %s %s" % (U_COQ[op], _cu(a[0]), _cu(a[1])), coq_result(model, some=some)
    if op in I_COQ:
        return "%s Extracted.div %s %s" % (I_COQ[op], _ci(a[0]), _ci(a[1])), coq_result(model, some=some)
    if op == "h.div_rem_core":
        return "div_rem_core Extracted.div %s %s" % (_cu(a[0]), coq_list(a[1])), coq_result(model)
    if op == "h.sub_mul_digit_same_len":
        return "sub_mul_digit_same_len %s %s (%s)" % (coq_list(a[0]), coq_list(a[1]), a[2][2:]), coq_result(model)
    if op == "h.div_wide":
        return "div_wide (%s) (%s) (%s)" % (a[0][2:], a[1][2:], a[2][2:]), coq_result(model)
    return None
