"""C07 — bitwise logic, shifts and bit queries: nine sign pairs x unequal lengths, magnitudes
whose two's-complement carry runs through whole digits (2^k, 2^k-1, B^n, B^n-1, long zero / one
runs), every primitive shift type at the digit/bit boundaries, negative and astronomically
large amounts, bit indices below / at / above the lowest set bit and beyond the top digit."""
from genlib import *

LENS = [0, 1, 2, 3, 4, 8]
UTYPES = {"u8": 8, "u16": 16, "u32": 32, "u64": 64, "u128": 128, "usize": 64}
ITYPES = {"i8": 8, "i16": 16, "i32": 32, "i64": 64, "i128": 128, "isize": 64}
TYPES = list(UTYPES) + list(ITYPES)
SHL_MAX_BITS = 1 << 17          # largest shl amount that really allocates (2048 digits)

def tmax(ty):
    return (1 << UTYPES[ty]) - 1 if ty in UTYPES else (1 << (ITYPES[ty] - 1)) - 1

def tmin(ty):
    return 0 if ty in UTYPES else -(1 << (ITYPES[ty] - 1))

# ---------------------------------------------------------------- magnitudes
def magnitude(rng, n, pat=None):
    """a positive integer with exactly n digits (n >= 1), adversarial low part"""
    pat = pat or rng.choice(["pow2", "pow2m1", "Bn", "ones", "tz", "t1", "hole", "rand", "rand"])
    top = 64 * (n - 1)
    if pat == "pow2":
        return 1 << (top + rng.choice([0, 1, 31, 62, 63]))
    if pat == "pow2m1":
        return (1 << (top + rng.choice([1, 2, 32, 63, 64]))) - 1
    if pat == "Bn":
        return 1 << top                                   # B^(n-1): all lower digits zero
    if pat == "ones":
        return (1 << (64 * n)) - 1                        # B^n - 1
    if pat == "tz":                                       # zero run through whole digits
        z = rng.choice([top, top, top + rng.randrange(64), 64 * rng.randrange(n) + rng.randrange(64)])
        hi_bits = 64 * n - z
        return (rng.getrandbits(hi_bits) | 1 | (1 << (hi_bits - 1))) << z
    if pat == "t1":                                       # one run through whole digits
        z = rng.choice([top, top + rng.randrange(64), 64 * rng.randrange(n) + rng.randrange(64)])
        hi_bits = 64 * n - z
        hi = (rng.getrandbits(hi_bits) | (1 << (hi_bits - 1))) & ~1
        if hi == 0:
            hi = 1 << (hi_bits - 1) if hi_bits > 1 else 0
        v = (hi << z) | ((1 << z) - 1)
        return v if v >> top else v | (1 << top)
    if pat == "hole":
        return ((1 << (64 * n)) - 1) ^ (1 << rng.randrange(64 * n - 1))
    return val(rand_digits(rng, n))

def signed(rng, sign, n, pat=None):
    if sign == 0 or n == 0:
        return 0
    return sign * magnitude(rng, n, pat)

def edge_values():
    out = [0, 1, -1, 2, -2]
    for n in (1, 2, 3, 4):
        Bn = 1 << (64 * n)
        for m in (Bn - 1, Bn, Bn + 1, Bn - 2, Bn >> 1, (Bn >> 1) - 1, Bn - (1 << (64 * (n - 1)))):
            out += [m, -m]
    return out

# ---------------------------------------------------------------- shifts
def shift_amounts(rng, ty, ndigits, left, nonzero):
    """interesting amounts for one type; left shifts of non-zero values stay allocatable
    (or beyond the capacity-overflow limit, where the crate panics instead of aborting)."""
    hi, lo = tmax(ty), tmin(ty)
    c = [0, 1, 2, 31, 32, 63, 64, 65, 127, 128, 129, 191, 192, 255, 256, 64 * ndigits - 1, 64 * ndigits,
         64 * ndigits + 1, 64 * (ndigits + 1), 64 * rng.randrange(1, 40), 64 * rng.randrange(1, 40) + rng.randrange(64),
         hi, hi - 1, hi // 2, hi - 63, hi - 64]
    if hi >= 1 << 64:
        c += [1 << 64, (1 << 64) - 1, (1 << 64) + 1, 1 << 66, (1 << 66) + 5, 1 << 70, (1 << 70) - 1, (1 << 70) + 64, 1 << 100]
    if hi >= 1 << 32:
        c += [1 << 32, (1 << 63) - 1, 1 << 62]
    c = [x for x in c if 0 <= x <= hi]
    if left and nonzero:
        c = [x for x in c if x <= SHL_MAX_BITS or x >= (1 << 66)]
    if lo < 0:
        c += [-1, lo, -64, -63, lo + 1]
        c = [x for x in c if lo <= x <= hi]
    return c

def generate(rng, tier):
    thorough = tier == "thorough"
    cases = []
    rep = 3 if thorough else 1
    # ---- BigInt logic: nine sign pairs x all length pairs, each op, ref-ref and assign forms
    for _ in range(rep):
        for op in ("and", "or", "xor"):
            for sa in (-1, 0, 1):
                for sb in (-1, 0, 1):
                    for la in LENS:
                        for lb in LENS:
                            if (sa == 0) != (la == 0) or (sb == 0) != (lb == 0):
                                continue
                            for k in range(2):
                                x, y = signed(rng, sa, la), signed(rng, sb, lb)
                                form = "i.%s" % op if (k + la + lb) % 2 == 0 else "i.%s_assign" % op
                                cases.append("%s %s %s" % (form, I(x), I(y)))
    # ---- carry through every digit: edge values pairwise
    ev = edge_values()
    pairs = [(x, y) for x in ev for y in ev]
    rng.shuffle(pairs)
    for (x, y) in pairs[: (len(pairs) if thorough else 700)]:
        op = rng.choice(["and", "or", "xor"])
        form = rng.choice(["i.%s", "i.%s_assign"]) % op
        cases.append("%s %s %s" % (form, I(x), I(y)))
    # ---- related operands: y = +-x, x +- 1, complement-like (results 0 / -1 / power of two)
    for _ in range(600 if thorough else 150):
        n = rng.choice(LENS[1:])
        x = signed(rng, rng.choice([-1, 1]), n)
        y = rng.choice([x, -x, x + 1, x - 1, -x - 1, -x + 1, x ^ ((1 << (64 * n)) - 1), -(x ^ ((1 << (64 * n)) - 1))])
        op = rng.choice(["and", "or", "xor"])
        form = rng.choice(["i.%s", "i.%s_assign"]) % op
        cases.append("%s %s %s" % (form, I(x), I(y)))
    # ---- BigUint logic
    for _ in range(rep):
        for op in ("and", "or", "xor"):
            for la in LENS:
                for lb in LENS:
                    for k in range(2):
                        x = magnitude(rng, la) if la else 0
                        y = magnitude(rng, lb) if lb else 0
                        if k == 1 and la == lb and la:
                            # equal high parts: xor / and must drop high zero digits
                            lowbits = 64 * rng.randrange(la)
                            y = (x >> lowbits << lowbits) | rng.getrandbits(lowbits) if lowbits else x
                        form = rng.choice(["u.%s", "u.%s_assign"]) % op
                        cases.append("%s %s %s" % (form, U(x), U(y)))
    # ---- Not
    for n in LENS:
        for s in (-1, 1):
            for pat in ("pow2", "pow2m1", "Bn", "ones", "tz", "t1", "rand"):
                if n:
                    x = signed(rng, s, n, pat)
                    cases.append("%s %s" % (rng.choice(["i.not", "i.not_ref"]), I(x)))
    for x in (0, 1, -1, 2, -2):
        cases.append("i.not %s" % I(x))
        cases.append("i.not_ref %s" % I(x))
    # ---- shifts: all 12 types
    for _ in range(rep):
        for ty in TYPES:
            for n in LENS:
                for sgn in ((0,) if n == 0 else (1, -1)):
                    x = signed(rng, sgn, n, rng.choice(["tz", "t1", "pow2", "Bn", "ones", "rand"]))
                    for left in (True, False):
                        amts = shift_amounts(rng, ty, n, left, x != 0)
                        if not thorough:
                            amts = rng.sample(amts, min(len(amts), 9))
                        for s in amts:
                            d = "shl" if left else "shr"
                            form = rng.choice(["", "_ref", "_assign"])
                            if sgn >= 0 and rng.random() < 0.4:
                                cases.append("u.%s%s %s %s" % (d, form, U(x), S(ty, s)))
                            else:
                                cases.append("i.%s%s %s %s" % (d, form, I(x), S(ty, s)))
    # ---- shr of negatives around the trailing-zero count (floor adjustment)
    for _ in range(400 if thorough else 120):
        n = rng.choice(LENS[1:])
        x = -magnitude(rng, n, rng.choice(["tz", "tz", "pow2", "Bn", "rand"]))
        tz = ((-x) & x).bit_length() - 1
        s = max(0, tz + rng.choice([-1, 0, 1, 63, 64, -64, 65]))
        ty = rng.choice([t for t in TYPES if tmax(t) >= s])
        cases.append("i.shr%s %s %s" % (rng.choice(["", "_ref", "_assign"]), I(x), S(ty, s)))
    # ---- bit queries
    for _ in range(rep):
        for n in LENS:
            for pat in ("pow2", "pow2m1", "Bn", "ones", "tz", "t1", "hole", "rand"):
                m = magnitude(rng, n, pat) if n else 0
                cases.append("u.bits %s" % U(m))
                cases.append("u.trailing_zeros %s" % U(m))
                cases.append("u.trailing_ones %s" % U(m))
                cases.append("u.count_ones %s" % U(m))
                for s in (1, -1):
                    cases.append("i.bits %s" % I(s * m))
                    cases.append("i.trailing_zeros %s" % I(s * m))
                tz = (m & -m).bit_length() - 1 if m else 0
                t1 = ((m + 1) & -(m + 1)).bit_length() - 1
                idx = [0, 1, 63, 64, 65, tz - 1, tz, tz + 1, t1 - 1, t1, t1 + 1, 64 * n - 1, 64 * n, 64 * n + 1,
                       64 * n + 64, 64 * n + 200, rng.randrange(64 * n + 1), rng.randrange(64 * n + 1),
                       (1 << 32), (1 << 63), (1 << 64) - 1, (1 << 64) - 64]
                idx = sorted(set(i for i in idx if i >= 0))
                if not thorough:
                    idx = rng.sample(idx, min(len(idx), 10))
                for i in idx:
                    cases.append("u.bit %s %s" % (U(m), N(i)))
                    cases.append("i.bit %s %s" % (I(-m), N(i)))
                    if rng.random() < 0.3:
                        cases.append("i.bit %s %s" % (I(m), N(i)))
                    for v in (0, 1):
                        for s in (1, -1):
                            x = s * m
                            grows = i >= 64 * n and ((v == 1 and x >= 0) or (v == 0 and x < 0))
                            if grows and i > 64 * n + 4096:
                                continue            # would allocate i/64 digits (or abort)
                            cases.append("i.set_bit %s %s %s" % (I(x), N(i), N(v)))
                            if s == 1:
                                cases.append("u.set_bit %s %s %s" % (U(m), N(i), N(v)))
    # ---- set_bit on negatives whose lowest set bit sits at a digit boundary / in a high digit
    for _ in range(900 if thorough else 250):
        n = rng.choice(LENS[1:])
        m = magnitude(rng, n, rng.choice(["tz", "tz", "Bn", "pow2", "ones", "rand"]))
        tz = (m & -m).bit_length() - 1
        i = max(0, rng.choice([tz, tz, tz - 1, tz + 1, tz - 64, tz - 65, tz // 64 * 64, tz // 64 * 64 - 1, 0,
                               rng.randrange(64 * n + 65)]))
        cases.append("i.set_bit %s %s %s" % (I(-m), N(i), N(rng.choice([0, 0, 1]))))
    return cases

def nontrivial(case):
    return nontrivial_default(case)

# ---- in-Coq cross-check of the extraction -------------------------------------------------
COQ_IMPORTS = "Base X86 AddSub ShiftCore Bits Extracted"

def coq_term(case, model):
    toks = case.split(" ")
    op, a = toks[0], toks[1:]
    if sum(len(x) for x in a) > 260:
        return None
    kind, name = op.split(".", 1)
    res = coq_result(model)
    if res is None:
        return None
    base = name.replace("_assign", "").replace("_ref", "")
    if base in ("and", "or", "xor") and kind == "i":
        if name.endswith("_assign"):
            f = {"and": "iand_assign", "or": "ior_assign bits", "xor": "ixor_assign bits"}[base]
        else:
            f = {"and": "iand bits", "or": "ior bits", "xor": "ixor bits"}[base]
        return "%s %s %s" % (f, coq_bigint(a[0]), coq_bigint(a[1])), res
    if base in ("and", "or", "xor") and kind == "u":
        if name.endswith("_assign"):
            f = {"and": "uand_assign", "or": "uor_assign bits", "xor": "uxor_assign bits"}[base]
        else:
            f = {"and": "uand bits", "or": "uor bits", "xor": "uxor bits"}[base]
        return "Ret (%s %s %s)" % (f, coq_list(a[0]), coq_list(a[1])), res
    if name == "not":
        return "inot addsub %s" % coq_bigint(a[0]), res
    if name == "not_ref":
        return "inot_ref addsub %s" % coq_bigint(a[0]), res
    if base in ("shl", "shr"):
        _, s = coq_scalar(a[1])
        if abs(s) > 600:
            return None
        if kind == "u":
            return "biguint_%s %s %s" % (base, coq_list(a[0]), coq_z(s)), res
        if base == "shl":
            f = "ishl_assign" if name.endswith("_assign") else "ishl"
        else:
            f = "ishr_assign bits addsub" if name.endswith("_assign") else "ishr bits addsub"
        return "%s %s %s" % (f, coq_bigint(a[0]), coq_z(s)), res
    if name == "set_bit":
        i = int(a[1][2:])
        if i > 700:
            return None
        v = "true" if a[2] == "n:1" else "false"
        if kind == "u":
            return "uset_bit bits %s %s %s" % (coq_list(a[0]), coq_z(i), v), res
        return "iset_bit bits %s %s %s" % (coq_bigint(a[0]), coq_z(i), v), res
    if name == "bits":
        f = "ubits %s" % coq_list(a[0]) if kind == "u" else "ibits %s" % coq_bigint(a[0])
        return "Ret (%s)" % f, res
    if name == "count_ones":
        return "Ret (ucount_ones %s)" % coq_list(a[0]), res
    if name == "trailing_ones":
        return "Ret (utrailing_ones %s)" % coq_list(a[0]), res
    return None
