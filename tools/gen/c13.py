"""C13 — gcd / lcm / Bezout / multiple-of helpers: zeros, equal values, one dividing the other,
large common powers of two whose trailing-zero counts differ and span several digits, co-prime
large values, all sign combinations for BigInt; next/prev_multiple_of incl. zero divisor
(must panic), is_even/odd, inc/dec around 0 and digit boundaries."""
from genlib import *
from math import gcd as pygcd

LENS = [0, 1, 1, 2, 2, 3, 4, 5, 8, 12]
LENS_T = LENS + [16, 24, 40]

def pair(rng, lens):
    """a structured pair of non-negative integers"""
    k = rng.random()
    a = rand_big(rng, lens)
    b = rand_big(rng, lens)
    if k < 0.07:
        return rng.choice([(0, 0), (a, 0), (0, b)])
    if k < 0.14:
        return (a, a)
    if k < 0.28:
        m = rand_big(rng, [1, 1, 2, 3])
        return rng.choice([(a, a * m), (a * m, a)])
    if k < 0.55:
        # common factor 2^k with trailing-zero counts differing and spanning digits
        ta = rng.choice([0, 1, 5, 63, 64, 65, 127, 128, 130, 200, 64 * rng.randrange(1, 5) + rng.randrange(64)])
        tb = rng.choice([0, 1, 5, 63, 64, 65, 127, 128, 130, 200, ta, ta, 64 * rng.randrange(1, 5) + rng.randrange(64)])
        g = rand_big(rng, [0, 1, 1, 2]) | 1
        return (((a | 1) * g) << ta, ((b | 1) * g) << tb)
    if k < 0.7:
        # co-prime large
        a, b = a | 1, b | 1
        g = pygcd(a, b)
        return (a // g if g else a, b)
    if k < 0.8:
        # consecutive Fibonacci-like (worst case for Euclid), adjacent values
        x, y = 1, 1
        for _ in range(rng.randrange(1, 400)):
            x, y = y, x + y
        return rng.choice([(x, y), (y, x), (a, a + 1), (a + 1, a)])
    if k < 0.88:
        # powers of two only
        return (1 << rng.randrange(0, 300), 1 << rng.randrange(0, 300))
    return (a, b)

def signs(rng, a, b):
    return (a if rng.random() < 0.5 else -a, b if rng.random() < 0.5 else -b)

U2 = ["u.gcd", "u.lcm", "u.gcd_lcm", "u.is_multiple_of", "u.divides", "u.next_multiple_of", "u.prev_multiple_of"]
I2 = ["i.gcd", "i.lcm", "i.gcd_lcm", "i.extended_gcd", "i.extended_gcd_lcm", "i.bezout", "i.is_multiple_of",
      "i.divides", "i.next_multiple_of", "i.prev_multiple_of"]
W_U2 = [6, 4, 4, 3, 1, 3, 3]
W_I2 = [4, 3, 3, 6, 4, 2, 3, 1, 4, 4]

def generate(rng, tier):
    lens = LENS_T if tier == "thorough" else LENS
    n = 16000 if tier == "thorough" else 1800
    cases = []
    # systematic small table: all sign combinations on a few literal pairs (incl. zeros)
    lits = [(0, 0), (0, 3), (3, 0), (3, 3), (4, 6), (6, 4), (7, 3), (3, 7), (12, 4), (4, 12), (1, 1), (1, 5),
            (1 << 64, 1 << 32), ((1 << 64) - 1, (1 << 64) + 1), (1 << 130, 3 << 67)]
    for a, b in lits:
        for sa in (1, -1):
            for sb in (1, -1):
                for op in I2:
                    cases.append("%s %s %s" % (op, I(sa * a), I(sb * b)))
        for op in U2:
            cases.append("%s %s %s" % (op, U(a), U(b)))
    for _ in range(n):
        a, b = pair(rng, lens)
        if rng.random() < 0.45:
            op = rng.choices(U2, W_U2)[0]
            cases.append("%s %s %s" % (op, U(a), U(b)))
        else:
            op = rng.choices(I2, W_I2)[0]
            sa, sb = signs(rng, a, b)
            cases.append("%s %s %s" % (op, I(sa), I(sb)))
    # unary helpers
    un = [0, 1, 2, 3, MAXD - 1, MAXD, MAXD + 1, MAXD + 2, (1 << 128) - 1, 1 << 128, (1 << 128) + 1, 1 << 191]
    for v in un + [rand_big(rng, lens) for _ in range(60)]:
        for op in ("u.is_even", "u.is_odd", "u.inc", "u.dec"):
            cases.append("%s %s" % (op, U(v)))
        for s in (1, -1):
            for op in ("i.is_even", "i.is_odd", "i.inc", "i.dec"):
                cases.append("%s %s" % (op, I(s * v)))
    return cases

def nontrivial(case):
    toks = case.split(" ")
    if len(toks) < 3:
        return nontrivial_default(case)
    def mag(t):
        s = t.split(":")[-1]
        return val([int(h, 16) for h in s.split(",")]) if s else 0
    return mag(toks[1]) >= 2 and mag(toks[2]) >= 2 and mag(toks[1]) != mag(toks[2])

RULE = ("C13 generator: zeros / equal / one divides the other / common 2^k with differing trailing-zero counts "
        "spanning digits / co-prime / Fibonacci / all signs | non-trivial: both operands >= 2 in magnitude and distinct")

# ---- in-Coq cross-check of the extraction -------------------------------------------------
COQ_IMPORTS = "Base X86 AddSub PgrLoop Pow Gcd Div Mul Extracted"

def coq_term(case, model):
    toks = case.split(" ")
    op, a = toks[0], toks[1:]
    if len(case) > 160 or len(model) > 200:
        return None
    big = "(Mul.umul Extracted.mul) (Div.udivrem Extracted.div) addsub"
    if op == "u.gcd":
        return "ugcd addsub pgr_gcd %s %s" % (coq_list(a[0]), coq_list(a[1])), coq_result(model)
    if op == "u.lcm":
        return "ulcm %s pgr_gcd %s %s" % (big, coq_list(a[0]), coq_list(a[1])), coq_result(model)
    if op == "u.gcd_lcm":
        return "ugcd_lcm %s pgr_gcd %s %s" % (big, coq_list(a[0]), coq_list(a[1])), coq_result(model)
    if op == "u.next_multiple_of":
        return "unext_multiple_of (Div.udivrem Extracted.div) addsub %s %s" % (coq_list(a[0]), coq_list(a[1])), coq_result(model)
    if op == "u.prev_multiple_of":
        return "uprev_multiple_of (Div.udivrem Extracted.div) addsub %s %s" % (coq_list(a[0]), coq_list(a[1])), coq_result(model)
    if op == "i.gcd":
        return "igcd addsub pgr_gcd %s %s" % (coq_bigint(a[0]), coq_bigint(a[1])), coq_result(model)
    if op == "i.lcm":
        return "ilcm %s pgr_gcd %s %s" % (big, coq_bigint(a[0]), coq_bigint(a[1])), coq_result(model)
    if op == "i.extended_gcd":
        return "iextended_gcd %s %s %s" % (big, coq_bigint(a[0]), coq_bigint(a[1])), coq_result(model)
    if op == "i.next_multiple_of":
        return "inext_multiple_of (Div.udivrem Extracted.div) addsub %s %s" % (coq_bigint(a[0]), coq_bigint(a[1])), coq_result(model)
    if op == "i.prev_multiple_of":
        return "iprev_multiple_of (Div.udivrem Extracted.div) addsub %s %s" % (coq_bigint(a[0]), coq_bigint(a[1])), coq_result(model)
    if op == "i.inc":
        return "iinc addsub %s" % coq_bigint(a[0]), coq_result(model)
    if op == "i.dec":
        return "idec addsub %s" % coq_bigint(a[0]), coq_result(model)
    return None
