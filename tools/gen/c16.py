"""C16 — feature configurations: build matrix of ci/test_full.sh (10 feature sets) and a
deterministic transcript of API operations produced by harness builds {std, no_std} x {debug,
release}, compared line by line; plus a cross-section of the other properties' cases run through
the standard model/implementation comparison."""
import importlib, os, sys, re
from genlib import *

CONFIGS = [
    ("default", []),
    ("std+arbitrary", ["--no-default-features", "--features", "std arbitrary"]),
    ("std+quickcheck", ["--no-default-features", "--features", "std quickcheck"]),
    ("std+rand", ["--no-default-features", "--features", "std rand"]),
    ("std+serde", ["--no-default-features", "--features", "std serde"]),
    ("std+all", ["--no-default-features", "--features", "std arbitrary quickcheck rand serde"]),
    ("no_std", ["--no-default-features"]),
    ("no_std+serde", ["--no-default-features", "--features", "serde"]),
    ("no_std+rand", ["--no-default-features", "--features", "rand"]),
    ("no_std+serde+rand", ["--no-default-features", "--features", "serde rand"]),
]

def cross_section(rng, tier, per=120, gen_tier="quick"):
    cases = []
    here = os.path.dirname(os.path.abspath(__file__))
    for f in sorted(os.listdir(here)):
        m = re.match(r"^(c\d\d)\.py$", f)
        if not m or m.group(1) in ("c16", "c14", "c15", "c04", "c20"):
            continue
        try:
            mod = importlib.import_module(m.group(1))
            cs = [c for c in mod.generate(rng, gen_tier) if not c.startswith("h.") and len(c) < 4000]
        except Exception:
            continue
        rng.shuffle(cs)
        cases += cs if per is None else cs[: per * (3 if tier == "thorough" else 1)]
    return cases

def generate(rng, tier):
    return cross_section(rng, tier)

def extra_checks(ctx):
    import random, subprocess
    out = {"coverage": {}, "broken": [], "violations": []}
    run, env = ctx["run"], dict(ctx["env"])
    env["CARGO_TARGET_DIR"] = os.path.join(ctx["cache"], "target_matrix")
    env["RUSTFLAGS"] = ""
    # 1. build matrix
    matrix = {}
    for name, flags in CONFIGS:
        rc, log = run(["cargo", "check", "--offline", "-q", "--manifest-path", os.path.join(ctx["repo"], "Cargo.toml")] + flags,
                      env=env, timeout=1800)
        matrix[name] = (rc == 0)
        if rc != 0:
            errs = "\n".join(l for l in log.splitlines() if l.startswith("error"))[:600]
            out["violations"].append({"kind": "build-matrix", "config": name, "flags": " ".join(flags),
                                      "note": "configuration does not compile: " + errs})
    out["coverage"]["build_matrix"] = matrix
    ctx["log"]("[C16] build matrix: %s" % matrix)
    # 2. transcripts std/no_std x debug/release
    rng = random.Random(ctx["seed"] * 31 + 16)
    # implementation-only runs are cheap: a large share of every property's API cases, all of the
    # thorough generators' cases when the tier is thorough or the drift sentinel escalated the budget
    if ctx.get("gen_tier", ctx["tier"]) == "thorough":
        cases = cross_section(rng, "quick", per=None, gen_tier="thorough")
    else:
        cases = cross_section(rng, "quick", per=700)
    lines = ["%d %s" % (i, c) for i, c in enumerate(cases)]
    variants = [("std-debug", dict(release=False, features=None, target=None)),
                ("std-release", dict(release=True, features=None, target=None)),
                ("nostd-debug", dict(release=False, features="", target="target_nostd")),
                ("nostd-release", dict(release=True, features="", target="target_nostd"))]
    results = {}
    for vname, kw in variants:
        ok, binp, log = ctx["build_harness"](hooks=True, **kw)
        if not ok:
            ok, binp, log = ctx["build_harness"](hooks=False, **kw)
        if not ok:
            out["violations"].append({"kind": "harness-build", "config": vname, "note": "harness does not build: " + log[:400]})
            continue
        wd = os.path.join(ctx["workdir"], vname)
        os.makedirs(wd, exist_ok=True)
        res = ctx["run_sharded"](binp, lines, "t", wd)
        results[vname] = {k: v.get("I", ["missing"])[0] for k, v in res.items()}
    base = results.get("std-debug")
    diffs = 0
    compared = 0
    if base:
        for vname, r in results.items():
            if vname == "std-debug":
                continue
            for k, v in base.items():
                w = r.get(k, "missing")
                if "unsupported" in (v, w):
                    continue          # feature-gated op (rand/serde) not built in this variant
                compared += 1
                if v != w:
                    diffs += 1
                    if diffs <= 3:
                        out["violations"].append({"kind": "transcript-diff", "config": vname, "case": cases[int(k)],
                                                  "std_debug": v[:300], "other": w[:300],
                                                  "note": "result differs between std-debug and " + vname})
    out["coverage"]["transcript_cases"] = len(cases)
    out["coverage"]["transcript_comparisons"] = compared
    out["coverage"]["transcript_variants"] = sorted(results.keys())
    ctx["log"]("[C16] transcripts: %d cases x %d variants, %d comparisons, %d diffs" % (len(cases), len(results), compared, diffs))
    return out
