"""C05 — modpow / modinv: moduli of 1..6 digits, odd (Montgomery) and even (plain), top digit in
{1, 2^63, MAX, MAX-1}, m = B^k - c, m = +-1; bases shorter / equal length >= m / longer than m;
exponents 0, 1, 2^k, zero 4-bit windows, zero low digits, 1-3 digits; all sign combinations;
zero modulus and negative exponent (must panic); modinv on coprime / non-coprime pairs, b = 0,
b >= m, m = +-1, negative operands; hook level: montgomery rows searched (with a port of the
model) for the `c != 0` branch and the final `zz >= m` subtraction."""
from genlib import *
from math import gcd

RULE = ("moduli 1..6 digits odd/even with top digit in {1,2^63,MAX,MAX-1} or B^k-c or +-1; bases shorter/equal-length>=m/longer; "
        "exponents 0,1,2^k,zero nibbles,zero low digits,1-3 digits; all signs; panic streams; modinv coprime/non-coprime/b=0/b>=m/m=+-1/negative; "
        "hook-level rows searched for c!=0 and final subtraction | non-trivial: modulus has >= 2 digits or a hook-level case with >= 2-digit operand; "
        "distinct: distinct case lines")

TOPS = [1, 1 << 63, MAXD, MAXD - 1]

# ---------------------------------------------------------------- port of the Montgomery model (search only)
def inv_mod_alt(b):
    return (-pow(b, -1, B)) % B

def montgomery_py(x, y, m, k, n):
    """x, y, m: ints < B^n.  Returns (result, took_sub)."""
    R = 1 << (64 * n)
    z = [0] * (2 * n)
    c = 0
    md = [(m >> (64 * i)) & MAXD for i in range(n)]
    xd = [(x >> (64 * i)) & MAXD for i in range(n)]
    for i in range(n):
        yi = (y >> (64 * i)) & MAXD
        c2 = 0
        for j in range(n):
            t = xd[j] * yi + z[i + j] + c2
            z[i + j] = t & MAXD
            c2 = t >> 64
        t_ = (z[i] * k) & MAXD
        c3 = 0
        for j in range(n):
            t = md[j] * t_ + z[i + j] + c3
            z[i + j] = t & MAXD
            c3 = t >> 64
        s = c + c2 + c3
        z[n + i] = s & MAXD
        c = s >> 64
    hi = val(z[n:])
    if c == 0:
        return hi, False
    return (hi - m) % R, True

def monty_trace(x, e, m):
    """Which rare branches monty_modpow(x, e, m) takes: (#c!=0 rows, final_sub)."""
    n = len(to_digits(m))
    R = 1 << (64 * n)
    k = inv_mod_alt(m & MAXD)
    if len(to_digits(x)) > n:
        x %= m
    rr = (R * R) % m
    subs = 0
    def mm(a, b):
        nonlocal subs
        r, s = montgomery_py(a, b, m, k, n)
        subs += s
        return r
    powers = [mm(1, rr), mm(x, rr)]
    for i in range(2, 16):
        powers.append(mm(powers[i - 1], powers[1]))
    z = powers[0]
    ed = to_digits(e)
    for i in reversed(range(len(ed))):
        yi = ed[i]
        for j in range(0, 64, 4):
            if i != len(ed) - 1 or j != 0:
                for _ in range(4):
                    z = mm(z, z)
            z = mm(z, powers[yi >> 60])
            yi = (yi << 4) & MAXD
    zz = mm(z, 1)
    return subs, zz >= m

# ---------------------------------------------------------------- ingredient generators
def modulus(rng, n, odd):
    kind = rng.random()
    if kind < 0.25:
        c = rng.choice([1, 2, 3, 5, 59, 189]) if n else 1
        m = (1 << (64 * n)) - c                       # B^n - c
    else:
        d = rand_digits(rng, n, rng.choice(["rand", "rand", "ones", "alpha", "runs"]))
        d[-1] = rng.choice(TOPS + [rng.getrandbits(64) | 1])
        m = val(d)
    if odd:
        m |= 1
    else:
        m &= ~1
        if m == 0:
            m = 2
    if len(to_digits(m)) != n:                        # keep the requested length
        m |= 1 << (64 * (n - 1))
    return m

def base_for(rng, m, n):
    k = rng.random()
    R = 1 << (64 * n)
    if k < 0.15:
        return rng.choice([0, 1, 2, m - 1 if m > 1 else 0, m, m + 1])
    if k < 0.3:                                       # shorter
        return val(rand_digits(rng, rng.randrange(0, n))) if n > 1 else rng.getrandbits(20)
    if k < 0.55:                                      # equal length, >= m when there is room
        lo, hi = m, R - 1
        if hi > lo:
            return rng.choice([lo, hi, lo + rng.randrange(hi - lo + 1)])
        return m
    if k < 0.7:                                       # equal length, < m
        return rng.randrange(m) if m > 1 else 0
    if k < 0.8:                                       # multiple of m (same length if it fits)
        q = rng.choice([1, 2, 3])
        return q * m
    return val(rand_digits(rng, n + rng.choice([1, 1, 2, 3])))   # longer

def exponent(rng):
    k = rng.random()
    if k < 0.08:
        return 0
    if k < 0.14:
        return 1
    if k < 0.26:
        return 1 << rng.choice([1, 2, 3, 4, 7, 8, 60, 63, 64, 65, 68, 127, 128, 129])
    if k < 0.4:                                       # zero 4-bit windows
        nd = rng.choice([1, 1, 2, 3])
        nibs = [rng.choice([0, 0, rng.randrange(16)]) for _ in range(16 * nd)]
        nibs[-1] = rng.randrange(1, 16)
        return sum(v << (4 * i) for i, v in enumerate(nibs))
    if k < 0.55:                                      # zero low digits
        lo = rng.choice([1, 2])
        hi = rng.choice([1, 3, 2, 1 << 63, MAXD, rng.getrandbits(64) | 1, rng.getrandbits(64) & ~1 or 2])
        return hi << (64 * lo)
    if k < 0.65:                                      # zero digit in the middle, last digit 1 / even / MAX
        return val([rng.getrandbits(64), 0, rng.choice([1, 2, MAXD, 1 << 63])])
    nd = rng.choice([1, 1, 1, 2, 2, 3])
    return val(rand_digits(rng, nd))

def small_exponent(rng):
    return rng.choice([0, 1, 2, 3, 5, 15, 16, 17, 255, 256, 65537, rng.getrandbits(16), rng.getrandbits(64)])

def modinv_pair(rng, n):
    k = rng.random()
    m = modulus(rng, n, rng.random() < 0.5)
    if rng.random() < 0.1:
        m = rng.choice([1, 2, 3, 4, 383, 1 << 64, (1 << 64) - 1])
    if k < 0.1:
        b = 0
    elif k < 0.2:
        b = rng.choice([1, m - 1, m, m + 1, 2 * m + 1])
    elif k < 0.45:                                    # non-coprime
        g = rng.choice([2, 3, 5, 7, 1 << 32, rng.getrandbits(30) | 2])
        m2 = m - (m % g) or g
        m = m2
        b = g * (rng.getrandbits(64 * n) // g + 1)
    elif k < 0.6:                                     # b >= m, longer
        b = val(rand_digits(rng, n + rng.choice([1, 2])))
    else:
        b = rng.randrange(m) if m > 1 else 0
    return b, m

# ---------------------------------------------------------------- searched hook-level rows
def search_rows(rng, want):
    """(x, y, m, k, n) tuples for h.montgomery: some with the `c != 0` branch (searched)."""
    out = []
    tries = 0
    got_sub = 0
    while (len(out) < want or got_sub < want // 2) and tries < 4000:
        tries += 1
        n = rng.choice([1, 1, 2, 2, 3, 4, 5, 6])
        R = 1 << (64 * n)
        m = modulus(rng, n, True)
        k = inv_mod_alt(m & MAXD)
        if rng.random() < 0.6:                        # near B^n: the carry out of the top row
            x = R - 1 - rng.randrange(1 << rng.choice([1, 8, 64]))
            y = R - 1 - rng.randrange(1 << rng.choice([1, 8, 64]))
        else:
            x, y = rng.randrange(R), rng.randrange(R)
        _, sub = montgomery_py(x, y, m, k, n)
        if sub:
            got_sub += 1
        elif len(out) >= want:
            continue
        out.append((x, y, m, k, n))
    return out

def fixed(n, v):
    d = to_digits(v)
    return d + [0] * (n - len(d))

def generate(rng, tier):
    thorough = tier == "thorough"
    cases = []
    # --- hook level: digit kernels
    for b in [1, 3, 5, MAXD, MAXD - 2, (1 << 63) + 1, (1 << 32) + 1, (1 << 32) - 1] + [rng.getrandbits(64) | 1 for _ in range(40)]:
        cases.append("h.inv_mod_alt %s" % N(b))
    cases.append("h.inv_mod_alt %s" % N(2))                     # even: assertion
    cases.append("h.inv_mod_alt %s" % N(0))
    for _ in range(300 if thorough else 60):
        lz, lx = rng.choice([0, 1, 2, 3, 5, 8]), rng.choice([0, 1, 2, 3, 5, 8])
        z = [rand_digit(rng) for _ in range(lz)]
        x = [rand_digit(rng) for _ in range(lx)]
        y = rng.choice([0, 1, MAXD, rand_digit(rng)])
        if rng.random() < 0.3:
            z, x, y = [MAXD] * lz, [MAXD] * lx, MAXD
        cases.append("h.add_mul_vvw %s %s %s" % (D(z), D(x), N(y)))
        ly = rng.choice([lx, lx, lz, 1, 4])
        yv = [rand_digit(rng) for _ in range(ly)]
        if rng.random() < 0.3 and lx:
            yv = list(x[:ly]) + [0] * max(0, ly - lx)           # equal digits: borrow chains through zeros
            if yv:
                yv[0] = (yv[0] + rng.choice([0, 1])) & MAXD
        cases.append("h.sub_vv %s %s %s" % (D(z), D(x), D(yv)))
    # --- hook level: montgomery rows (searched for the c != 0 branch)
    for (x, y, m, k, n) in search_rows(rng, 200 if thorough else 40):
        cases.append("h.montgomery %s %s %s %s %s" % (D(fixed(n, x)), D(fixed(n, y)), D(fixed(n, m)), N(k), N(n)))
    cases.append("h.montgomery %s %s %s %s %s" % (D([1, 2]), D([1]), D([3, 4]), N(1), N(2)))   # length assert
    cases.append("h.montgomery %s %s %s %s %s" % (D([]), D([]), D([]), N(1), N(0)))
    # --- API: modpow
    nmain = 12000 if thorough else 1100
    want_sub, want_fin = 0, 0
    for it in range(nmain):
        n = rng.choice([1, 1, 2, 2, 3, 3, 4, 5, 6])
        odd = rng.random() < 0.6
        m = modulus(rng, n, odd)
        if rng.random() < 0.04:
            m = 1
        b = base_for(rng, m, n)
        e = exponent(rng) if n <= 3 or rng.random() < 0.3 else small_exponent(rng)
        r = rng.random()
        if r < 0.45:
            cases.append("u.modpow %s %s %s" % (U(b), U(e), U(m)))
        elif r < 0.85:
            sb, sm = rng.choice([1, -1]), rng.choice([1, -1])
            cases.append("i.modpow %s %s %s" % (I(sb * b), I(e), I(sm * m)))
        elif r < 0.93:
            if m & 1:
                cases.append("h.monty_modpow %s %s %s" % (U(b), U(e), U(m)))
            else:
                cases.append("h.plain_modpow %s %s %s" % (U(b), D(to_digits(e)), U(m)))
        else:
            # plain_modpow called directly with an odd modulus as well (and m = 1, e = 0)
            cases.append("h.plain_modpow %s %s %s" % (U(b), D(to_digits(e)), U(m)))
    # base = multiple of m of the same length: the final `zz >= m` subtraction (probe 32)
    for n in range(1, 7):
        for top in ([1, 1 << 62, (1 << 63) - 1] if n > 1 else [3, 1 << 62 | 1, (1 << 63) - 1]):
            d = rand_digits(rng, n, "rand")
            d[-1] = top
            m = val(d) | 1
            for q in (1, 2):
                if len(to_digits(q * m)) == n:
                    e = rng.choice([1, 2, 3, 17, rng.getrandbits(70) | 1])
                    cases.append("u.modpow %s %s %s" % (U(q * m), U(e), U(m)))
                    cases.append("i.modpow %s %s %s" % (I(-q * m), I(e), I(rng.choice([1, -1]) * m)))
    # --- panic streams
    for _ in range(60 if thorough else 20):
        b, e = rand_big(rng, [0, 1, 2, 3]), rand_big(rng, [0, 1, 2])
        cases.append("u.modpow %s %s %s" % (U(b), U(e), U(0)))
        cases.append("i.modpow %s %s %s" % (I(rng.choice([1, -1]) * b), I(e), I(0)))
        m = rng.choice([0, 1, -1, 7, -8, rand_signed(rng, [1, 2])])
        cases.append("i.modpow %s %s %s" % (I(rng.choice([1, -1]) * b), I(-(e + 1)), I(m)))
        cases.append("u.modinv %s %s" % (U(b), U(0)))
        cases.append("i.modinv %s %s" % (I(rng.choice([1, -1]) * b), I(0)))
        cases.append("h.plain_modpow %s %s %s" % (U(b), D(to_digits(e)), U(0)))
    # --- m = +-1, all signs, tiny operands exhaustively
    for m in (1, -1, 2, -2, 3, -3, 4, -4):
        for b in range(-6, 7):
            cases.append("i.modinv %s %s" % (I(b), I(m)))
            for e in (0, 1, 2, 3):
                cases.append("i.modpow %s %s %s" % (I(b), I(e), I(m)))
    for m in (1, 2, 3, 4, 383):
        for b in (0, 1, 2, 3, 4, 5, 6, 271, 382, 383, 384):
            cases.append("u.modinv %s %s" % (U(b), U(m)))
    # --- modinv
    for _ in range(6000 if thorough else 500):
        n = rng.choice([1, 1, 2, 2, 3, 4, 5, 6])
        b, m = modinv_pair(rng, n)
        if rng.random() < 0.4:
            cases.append("u.modinv %s %s" % (U(b), U(m)))
        else:
            sb, sm = rng.choice([1, -1]), rng.choice([1, -1])
            if rng.random() < 0.08:
                m = 1
            cases.append("i.modinv %s %s" % (I(sb * b), I(sm * m)))
    return cases

def nontrivial(case):
    toks = case.split(" ")
    op = toks[0]
    if op in ("u.modpow", "i.modpow", "h.monty_modpow", "h.plain_modpow"):
        return "," in toks[3]
    if op in ("u.modinv", "i.modinv"):
        return "," in toks[2]
    return nontrivial_default(case)

# ---- in-Coq cross-check of the extraction (hook-level kernel only: it has no section parameters)
COQ_IMPORTS = "Base Monty"

def coq_term(case, model):
    toks = case.split(" ")
    op, a = toks[0], toks[1:]
    if sum(len(x) for x in a) > 300:
        return None
    if op == "h.inv_mod_alt":
        return "inv_mod_alt %s" % a[0][2:], coq_result(model)
    if op == "h.add_mul_vvw":
        return "add_mul_vvw %s %s %s" % (coq_list(a[0]), coq_list(a[1]), a[2][2:]), coq_result(model)
    if op == "h.sub_vv":
        return "Ret (sub_vv %s %s %s)" % (coq_list(a[0]), coq_list(a[1]), coq_list(a[2])), coq_result(model)
    if op == "h.montgomery":
        # the op normalises its operands (the harness builds them with verif::biguint_from_vec)
        return "montgomery_z modpow (strip %s) (strip %s) (strip %s) %s %s" % (coq_list(a[0]), coq_list(a[1]), coq_list(a[2]), a[3][2:], a[4][2:]), coq_result(model)
    return None
