"""C14 — failure exactly where documented: the failure streams of every property's generator
(cases whose model/spec result is a panic or `none`) plus a cross-section of successful cases,
run on the debug harness (debug assertions + overflow checks on) by the standard comparison and
on the release harness by extra_checks; worker crashes (SIGFPE/SIGSEGV/abort) and hangs are
violations."""
import importlib, os, re, random
from genlib import *

def all_cases(rng, tier, per, gen_tier="quick"):
    cases = []
    here = os.path.dirname(os.path.abspath(__file__))
    for f in sorted(os.listdir(here)):
        m = re.match(r"^(c\d\d)\.py$", f)
        if not m or m.group(1) in ("c16", "c14", "c15", "c20"):
            continue
        try:
            mod = importlib.import_module(m.group(1))
            # public API only: hook-level ops (h.*) may deliberately violate internal preconditions
            # (debug_assert!), where debug and release legitimately differ
            cs = [c for c in mod.generate(rng, gen_tier) if len(c) < 6000 and not c.startswith("h.")]
        except Exception:
            continue
        rng.shuffle(cs)
        cases += cs if per is None else cs[:per]
    return cases

def _kind(res):
    if res is None:
        return None
    if res.startswith("panic"):
        return "panic"
    if res.startswith(("crash", "hang")) or res == "missing":
        return "fault"
    if res == "none" or res.startswith("err"):
        return "none"
    return "ok"

def viol_filter(r):
    """C14 is about FAILURE behaviour only: a case counts when the implementation faults, or when it
    panics / returns None-or-error where the reference (spec, else model) does not, or vice versa.  A
    wrong VALUE is the business of the property that owns the operation."""
    ref = r["spec"] if r["spec"] is not None else r["model"]
    ki, kr = _kind(r["impl"]), _kind(ref)
    return ki == "fault" or (kr is not None and ki != kr)

def generate(rng, tier):
    return all_cases(rng, tier, 400 if tier == "thorough" else 150)

def extra_checks(ctx):
    """Same cases on the release build (no debug assertions, wrapping arithmetic): results must be
    identical to the debug build (a debug-only panic or a release-only wrong value is a violation)."""
    out = {"coverage": {}, "broken": [], "violations": []}
    rng = random.Random(ctx["seed"] * 1000003 + 14)
    # implementation-only runs are cheap: a much larger share of every property's cases than the
    # model comparison above; ALL of the thorough generators' cases when the tier is thorough or the
    # drift sentinel escalated the budget
    if ctx.get("gen_tier", ctx["tier"]) == "thorough":
        cases = all_cases(rng, ctx["tier"], None, "thorough")
    else:
        cases = all_cases(rng, ctx["tier"], 2500, "quick")
    lines = ["%d %s" % (i, c) for i, c in enumerate(cases)]
    res = {}
    for vname, kw in (("debug", dict(release=False)), ("release", dict(release=True))):
        ok, binp, log = ctx["build_harness"](hooks=True, **kw)
        if not ok:
            ok, binp, log = ctx["build_harness"](hooks=False, **kw)
        if not ok:
            out["broken"].append("corr:harness-build-" + vname)
            return out
        wd = os.path.join(ctx["workdir"], "c14_" + vname)
        os.makedirs(wd, exist_ok=True)
        r = ctx["run_sharded"](binp, lines, "r", wd)
        res[vname] = {k: v.get("I", ["missing"])[0] for k, v in r.items()}
    diffs = 0
    kinds = {"ok": 0, "none": 0, "err": 0, "panic": 0, "crash": 0}
    for i, c in enumerate(cases):
        d, r = res["debug"].get(str(i), "missing"), res["release"].get(str(i), "missing")
        k = r.split(" ")[0].split(":")[0]
        kinds[k] = kinds.get(k, 0) + 1
        if d != r or r.startswith("crash") or r in ("missing", "hang"):
            diffs += 1
            if diffs <= 3:
                out["violations"].append({"kind": "debug-vs-release", "case": c, "debug": d[:300], "release": r[:300],
                                          "note": "debug and release builds disagree, or the release worker crashed/hung"})
    out["coverage"]["release_cases"] = len(cases)
    out["coverage"]["release_result_kinds"] = kinds
    out["coverage"]["debug_release_diffs"] = diffs
    ctx["log"]("[C14] debug vs release: %d cases, %d diffs, kinds %s" % (len(cases), diffs, kinds))
    return out
