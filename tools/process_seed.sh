#!/bin/bash
# process_seed.sh <id> [--features f] <Cnn>... — collect a finished seeded change from /tmp/m/<id>,
# confirm it, evaluate the given checks against it, print a compact summary, remove the worktree.
id=$1; shift
FEAT=""
if [ "$1" = "--features" ]; then FEAT="--features $2"; shift 2; fi
cd "$(dirname "$0")/.."
mkdir -p seeded/$id
cp /tmp/m/$id/patch.diff /tmp/m/$id/tests/mutation_demo.rs /tmp/m/$id/MUTATION.md seeded/$id/ || exit 2
echo "### confirm $id"
tools/confirm_seed.sh seeded/$id $FEAT 2>&1 | grep -E "== |^test result|FAILED|does not apply" | grep -v "^ *1 test result: ok" | head -8
rm -f replays/*
echo "### evaluate $id: $*"
tools/eval_seed.sh seeded/$id "$@" 2>&1 | grep -E "coq:|cases|VIOLATION|ok in|FAIL|guard|transcripts|release" | grep -v "^VIOLATION.*-1-[2-9]"
for f in replays/*.json; do [ -f "$f" ] && python3 -c "
import json; d=json.load(open('$f')); print(' replay', '$f'.split('/')[-1], d['kind'][:60], '|', d.get('case','')[:150], '|', d.get('impl','')[:70], '|', str(d.get('spec',''))[:70], '|', (d.get('note') or '')[:60], d.get('broken') or '')"; done
rm -f replays/*
git -C /repo worktree remove --force /tmp/m/$id 2>/dev/null
