#!/usr/bin/env python3
"""api_inventory.py — mechanical inventory of the crate's items (audit tool, not part of ./check).

Re-uses the macro_rules! engine of tools/extractors/forms.py: every file under src/ is
tokenized, its item-level macro invocations are expanded (recursively), and every
`impl [Trait for] Type { fn … }` is listed with the functions it defines.  Also lists
free functions (`fn` outside impl blocks, incl. nested in modules) = the private helpers.

  tools/api_inventory.py impls     one line per impl:  file | trait | self | cfg | fns
  tools/api_inventory.py fns       one line per free / inherent fn: file | vis | owner | name
  tools/api_inventory.py summary   counts per trait
32-bit-only items (cfg_digit! first arm, target_pointer_width != 64) are marked `cfg32`.
"""
import sys, os, re, json, collections

ROOT = os.path.dirname(os.path.dirname(os.path.abspath(__file__)))
sys.path.insert(0, os.path.join(ROOT, "tools"))
from extract import SourceTree, REPO
from extractors import forms as F

def expanded(src, rel, gmacros):
    ts = F.tree(F.tokenize(src.read(rel)))
    macros = dict(gmacros)
    if rel != "src/macros.rs":
        F.collect_macros(ts, macros)
    unk = []
    return F.expand_items(ts, macros, unk), unk

def descend(ts):
    """Yield token lists of the file and of every `mod x { … }` / `cfg_digit!( … )`-like group."""
    yield ts
    i = 0
    while i < len(ts):
        t = ts[i]
        if F.is_id(t, "mod") and i + 2 < len(ts) and ts[i + 2][0] == "g" and ts[i + 2][1] == "{":
            for x in descend(ts[i + 2][2]):
                yield x
        if F.is_id(t) and i + 2 < len(ts) and F.is_p(ts[i + 1], "!") and ts[i + 2][0] == "g" and not F.is_id(t, "macro_rules"):
            for x in descend(ts[i + 2][2]):
                yield x
        if F.is_p(t, "=") and i + 1 < len(ts) and ts[i + 1][0] == "g" and ts[i + 1][1] == "{":
            for x in descend(ts[i + 1][2]):          # `const _: () = { impl … };`
                yield x
        i += 1

def impls_of(items):
    out = []
    for ts in descend(items):
        for hdr, body, attrs in F.find_impls(ts):
            h = list(hdr)
            if h and F.is_p(h[0], "<"):
                e = F.skip_angle(h, 0)
                if e is not None:
                    h = h[e:]
            k = next((i for i, t in enumerate(h) if F.is_id(t, "for")), None)
            if k is None:
                trait, selft = "(inherent)", h
            else:
                trait, selft = F.render(h[:k]), h[k + 1:]
            w = next((i for i, t in enumerate(selft) if F.is_id(t, "where")), None)
            if w is not None:
                selft = selft[:w]
            fns = []
            b = body[2]
            for idx, t in enumerate(b):
                pass
            for fn in F.find_fns(b):
                fns.append(fn[0])
            # visibility of inherent fns
            vis = {}
            for i, t in enumerate(b):
                if F.is_id(t, "fn") and i + 1 < len(b) and F.is_id(b[i + 1]):
                    pub = i > 0 and (F.is_id(b[i - 1], "pub") or (b[i - 1][0] == "g" and i > 1 and F.is_id(b[i - 2], "pub")))
                    # `pub const fn`, `pub unsafe fn`
                    if not pub and i > 1 and F.is_id(b[i - 1]) and b[i - 1][1] in ("const", "unsafe") and F.is_id(b[i - 2], "pub"):
                        pub = True
                    vis[b[i + 1][1]] = "pub" if pub else "priv"
            consts = [b[i + 2][1] for i, t in enumerate(b) if F.is_id(t, "const") and i + 2 < len(b) and i > 0 and F.is_id(b[i - 1], "pub") and F.is_id(b[i + 1]) is False] if False else \
                     [b[i + 1][1] for i, t in enumerate(b) if F.is_id(t, "const") and i + 1 < len(b) and F.is_id(b[i + 1]) and not F.is_id(b[i + 1], "fn")]
            out.append({"trait": trait, "self": F.render(selft), "attrs": [a for a in attrs if a.startswith("cfg")],
                        "fns": fns, "vis": vis, "consts": consts})
    return out

def free_fns(items):
    """fn items that are not inside an impl body."""
    out = []
    def walk(ts, owner):
        i = 0
        while i < len(ts):
            t = ts[i]
            if F.is_id(t, "impl") or F.is_id(t, "trait"):
                j = i + 1
                while j < len(ts) and not (ts[j][0] == "g" and ts[j][1] == "{"):
                    j += 1
                i = j + 1
                continue
            if F.is_id(t, "macro_rules"):
                i += 4
                continue
            if F.is_id(t, "mod") and i + 2 < len(ts) and ts[i + 2][0] == "g":
                walk(ts[i + 2][2], owner + [ts[i + 1][1]])
                i += 3
                continue
            if F.is_id(t, "fn") and i + 1 < len(ts) and F.is_id(ts[i + 1]):
                pub = "priv"
                if i > 0 and F.is_id(ts[i - 1], "pub"):
                    pub = "pub"
                if i > 1 and ts[i - 1][0] == "g" and F.is_id(ts[i - 2], "pub"):
                    pub = "pub" + F.render([ts[i - 1]])
                if i > 1 and F.is_id(ts[i - 1]) and ts[i - 1][1] in ("const", "unsafe") and F.is_id(ts[i - 2], "pub"):
                    pub = "pub"
                if i > 2 and F.is_id(ts[i - 1]) and ts[i - 1][1] in ("const", "unsafe") and ts[i - 2][0] == "g" and F.is_id(ts[i - 3], "pub"):
                    pub = "pub" + F.render([ts[i - 2]])
                out.append(("::".join(owner), pub, ts[i + 1][1]))
                # skip to body end
                j = i + 2
                while j < len(ts) and not (ts[j][0] == "g" and ts[j][1] == "{") and not F.is_p(ts[j], ";"):
                    j += 1
                i = j + 1
                continue
            if F.is_id(t) and i + 2 < len(ts) and F.is_p(ts[i + 1], "!") and ts[i + 2][0] == "g":
                walk(ts[i + 2][2], owner)          # cfg_digit!( fn … fn … )
                i += 3
                continue
            i += 1
    walk(items, [])
    return out

def main():
    what = sys.argv[1] if len(sys.argv) > 1 else "summary"
    src = SourceTree(REPO)
    gm = {}
    F.collect_macros(F.tree(F.tokenize(src.read("src/macros.rs"))), gm)
    allimpls, allfns = [], []
    for rel in src.all_files():
        items, unk = expanded(src, rel, gm)
        for im in impls_of(items):
            im["file"] = rel
            allimpls.append(im)
        for (owner, vis, name) in free_fns(items):
            allfns.append((rel, owner, vis, name))
    if what == "impls":
        for im in allimpls:
            print("%s | %s | %s | %s | %s" % (im["file"], im["trait"], im["self"], ",".join(im["attrs"]), ",".join(
                ("%s%s" % ("pub " if im["vis"].get(f) == "pub" else "", f)) for f in im["fns"]) + ("" if not im["consts"] else " ; const " + ",".join(im["consts"]))))
    elif what == "fns":
        for r in allfns:
            print("%s | %s | %s | %s" % r)
    elif what == "json":
        json.dump({"impls": allimpls, "fns": allfns}, sys.stdout)
    else:
        c = collections.Counter()
        for im in allimpls:
            c[re.sub(r"<.*", "", im["trait"])] += 1
        for k, v in sorted(c.items()):
            print("%5d %s" % (v, k))
        print("%5d impls total, %d free fns" % (len(allimpls), len(allfns)))

if __name__ == "__main__":
    main()
