(* ops_c15.ml — C15 operations.  The memory-safety observations have a constant expected
   value (true); the exact-fit asm ops reuse the AddSub model. *)
open Io
let p = Extracted.addsub
let init () =
  let open Registry in
  (* the expected observation is the property itself (C15_to_str_ascii, C15_rand_u32_view, borrowed
     operands are values): model and spec lines are both the constant `true` *)
  reg_ms "c15.preserve" (fun _ -> ok (res_bool true)) (fun _ -> ok (res_bool true));
  reg_ms "c15.ascii" (fun _ -> ok (res_bool true)) (fun _ -> ok (res_bool true));
  reg_ms "c15.gen_biguint" (fun _ -> ok (res_bool true)) (fun _ -> ok (res_bool true));
  reg_m "c15.exact_add"
    (function [a; b] -> out (fun (r, c) -> ok2 (res_d r) (res_n c)) (AddSub.add2c p (arg_d a) (arg_d b)) | _ -> failwith "arity");
  reg_m "c15.exact_sub"
    (function [a; b] -> out (fun r -> ok (res_d r)) (AddSub.sub2 p (arg_d a) (arg_d b)) | _ -> failwith "arity")
