(* ops_pgr.ml — C11 (roots), C12 (pow), C13 (gcd/lcm/Bezout/multiples): model (Roots.v, Pow.v,
   Gcd.v) and spec (SpecRoots.v, SpecPow.v, SpecGcd.v).

   The models are parameterised by the big multiplication / division they call:
     bdivrem = Div.udivrem Extracted.div   (the real division model, merged from the div area)
     bmul    = Mul.umul Extracted.mul      (the real multiplication model, merged from the mul area;
                                            exact by MulProofs5.umul_spec: PgrInst.pgr_bmul_exact)
   see docs/notes/pgr.md. *)
open Io
let v = Base.coq_val
let enc = Base.enc
let bmul = Mul.umul Extracted.mul
let bdivrem = Div.udivrem Extracted.div
let ap = Extracted.addsub
let pp = Extracted.pgr_pow
let pg = Extracted.pgr_gcd
let pr = Extracted.pgr_roots
(* C11: the public results are compared with the model run at the no_std guess 2^max_bits
   (the result is guess-independent: C11_guess_independent) *)
let gf = Roots.guess_nostd

let one f = function [a] -> f a | _ -> failwith "arity"
let two f = function [a; b] -> f a b | _ -> failwith "arity"
let u r = ok (res_u r)
let i r = ok (res_i r)
let su r = ok (res_u (enc r))
let si r = ok (res_i (Base.ienc r))
let b r = ok (res_bool r)
let ival = Base.ival
let forms = ["vv"; "vr"; "rv"; "rr"]
let by_ref f = (f = "rv" || f = "rr")

let init () =
  let open Registry in
  (* ---------------------------------------------------------------- C12 *)
  Stdlib.List.iter (fun f ->
    reg_ms ("u.pow." ^ f)
      (two (fun x e -> out u ((if by_ref f then Pow.upow_prim_ref else Pow.upow_prim) bmul pp (arg_u x) (snd (arg_s e)))))
      (two (fun x e -> out su (SpecPow.spec_upow (v (arg_u x)) (snd (arg_s e)))));
    reg_ms ("i.pow." ^ f)
      (two (fun x e -> out i ((if by_ref f then Pow.ipow_prim_ref else Pow.ipow_prim) bmul pp (arg_i x) (snd (arg_s e)))))
      (two (fun x e -> out si (SpecPow.spec_ipow (ival (arg_i x)) (snd (arg_s e)))));
    reg_ms ("u.pow_big." ^ f)
      (two (fun x e -> out u ((if by_ref f then Pow.upow_big_ref else Pow.upow_big) bmul pp (arg_u x) (arg_u e))))
      (two (fun x e -> out su (SpecPow.spec_upow_big (v (arg_u x)) (v (arg_u e)))));
    reg_ms ("i.pow_big." ^ f)
      (two (fun x e -> out i ((if by_ref f then Pow.ipow_big_ref else Pow.ipow_big) bmul pp (arg_i x) (arg_u e))))
      (two (fun x e -> out si (SpecPow.spec_ipow_big (ival (arg_i x)) (v (arg_u e)))))) forms;
  (* inherent `BigUint::pow(&self, u32)`, `BigInt::pow(&self, u32)` *)
  reg_ms "u.pow_u32"
    (two (fun x e -> out u (Pow.upow_prim_ref bmul pp (arg_u x) (snd (arg_s e)))))
    (two (fun x e -> out su (SpecPow.spec_upow (v (arg_u x)) (snd (arg_s e)))));
  reg_ms "i.pow_u32"
    (two (fun x e -> out i (Pow.ipow_prim_ref bmul pp (arg_i x) (snd (arg_s e)))))
    (two (fun x e -> out si (SpecPow.spec_ipow (ival (arg_i x)) (snd (arg_s e)))));
  (* ---------------------------------------------------------------- C13 *)
  reg_ms "u.gcd"
    (two (fun a c -> out u (Gcd.ugcd ap pg (arg_u a) (arg_u c))))
    (two (fun a c -> out su (SpecGcd.spec_gcd (v (arg_u a)) (v (arg_u c)))));
  reg_ms "u.lcm"
    (two (fun a c -> out u (Gcd.ulcm bmul bdivrem ap pg (arg_u a) (arg_u c))))
    (two (fun a c -> out su (SpecGcd.spec_lcm (v (arg_u a)) (v (arg_u c)))));
  reg_ms "u.gcd_lcm"
    (two (fun a c -> out (fun (g, l) -> ok2 (res_u g) (res_u l)) (Gcd.ugcd_lcm bmul bdivrem ap pg (arg_u a) (arg_u c))))
    (two (fun a c -> out (fun (g, l) -> ok2 (res_u (enc g)) (res_u (enc l))) (SpecGcd.spec_gcd_lcm (v (arg_u a)) (v (arg_u c)))));
  Stdlib.List.iter (fun nm ->
    reg_ms nm
      (two (fun a c -> out b (Gcd.uis_multiple_of bdivrem (arg_u a) (arg_u c))))
      (two (fun a c -> out b (SpecGcd.spec_is_multiple_of (v (arg_u a)) (v (arg_u c))))))
    ["u.is_multiple_of"; "u.divides"];
  reg_ms "u.next_multiple_of"
    (two (fun a c -> out u (Gcd.unext_multiple_of bdivrem ap (arg_u a) (arg_u c))))
    (two (fun a c -> out su (SpecGcd.spec_next_multiple_of (v (arg_u a)) (v (arg_u c)))));
  reg_ms "u.prev_multiple_of"
    (two (fun a c -> out u (Gcd.uprev_multiple_of bdivrem ap (arg_u a) (arg_u c))))
    (two (fun a c -> out su (SpecGcd.spec_prev_multiple_of (v (arg_u a)) (v (arg_u c)))));
  reg_ms "u.is_even"
    (one (fun a -> b (Pow.pgr_is_even (arg_u a))))
    (one (fun a -> out b (SpecGcd.spec_is_even (v (arg_u a)))));
  reg_ms "u.is_odd"
    (one (fun a -> b (Pow.pgr_is_odd (arg_u a))))
    (one (fun a -> out b (SpecGcd.spec_is_odd (v (arg_u a)))));
  reg_ms "u.inc"
    (one (fun a -> out u (Gcd.uinc ap (arg_u a))))
    (one (fun a -> out su (SpecGcd.spec_uinc (v (arg_u a)))));
  reg_ms "u.dec"
    (one (fun a -> out u (Gcd.udec ap (arg_u a))))
    (one (fun a -> out su (SpecGcd.spec_udec (v (arg_u a)))));
  reg_ms "i.gcd"
    (two (fun a c -> out i (Gcd.igcd ap pg (arg_i a) (arg_i c))))
    (two (fun a c -> out si (SpecGcd.spec_gcd (ival (arg_i a)) (ival (arg_i c)))));
  reg_ms "i.lcm"
    (two (fun a c -> out i (Gcd.ilcm bmul bdivrem ap pg (arg_i a) (arg_i c))))
    (two (fun a c -> out si (SpecGcd.spec_lcm (ival (arg_i a)) (ival (arg_i c)))));
  reg_ms "i.gcd_lcm"
    (two (fun a c -> out (fun (g, l) -> ok2 (res_i g) (res_i l)) (Gcd.igcd_lcm bmul bdivrem ap pg (arg_i a) (arg_i c))))
    (two (fun a c -> out (fun (g, l) -> ok2 (res_i (Base.ienc g)) (res_i (Base.ienc l))) (SpecGcd.spec_gcd_lcm (ival (arg_i a)) (ival (arg_i c)))));
  let ie = Base.ienc in
  reg_ms "i.extended_gcd"
    (two (fun a c -> out (fun ((g, x), y) -> Stdlib.Printf.sprintf "ok %s %s %s" (res_i g) (res_i x) (res_i y))
                       (Gcd.iextended_gcd bmul bdivrem ap (arg_i a) (arg_i c))))
    (two (fun a c -> out (fun ((g, x), y) -> Stdlib.Printf.sprintf "ok %s %s %s" (res_i (ie g)) (res_i (ie x)) (res_i (ie y)))
                       (SpecGcd.spec_egcd (ival (arg_i a)) (ival (arg_i c)))));
  reg_ms "i.extended_gcd_lcm"
    (two (fun a c -> out (fun (((g, x), y), l) -> Stdlib.Printf.sprintf "ok %s %s %s %s" (res_i g) (res_i x) (res_i y) (res_i l))
                       (Gcd.iextended_gcd_lcm bmul bdivrem ap (arg_i a) (arg_i c))))
    (two (fun a c -> out (fun (((g, x), y), l) -> Stdlib.Printf.sprintf "ok %s %s %s %s" (res_i (ie g)) (res_i (ie x)) (res_i (ie y)) (res_i (ie l)))
                       (SpecGcd.spec_egcd_lcm (ival (arg_i a)) (ival (arg_i c)))));
  (* Bezout identity evaluated on the implementation's own (g, x, y): `ok 1` iff
     a*x + b*y = g = gcd(a,b) and g >= 0 (the spec side is the constant verdict) *)
  reg_ms "i.bezout"
    (two (fun a c -> out (fun ((g, x), y) ->
                       b (SpecGcd.egcd_ok (ival (arg_i a)) (ival (arg_i c)) (ival g) (ival x) (ival y)))
                       (Gcd.iextended_gcd bmul bdivrem ap (arg_i a) (arg_i c))))
    (two (fun _ _ -> b true));
  Stdlib.List.iter (fun nm ->
    reg_ms nm
      (two (fun a c -> out b (Gcd.iis_multiple_of bdivrem (arg_i a) (arg_i c))))
      (two (fun a c -> out b (SpecGcd.spec_is_multiple_of (ival (arg_i a)) (ival (arg_i c))))))
    ["i.is_multiple_of"; "i.divides"];
  reg_ms "i.next_multiple_of"
    (two (fun a c -> out i (Gcd.inext_multiple_of bdivrem ap (arg_i a) (arg_i c))))
    (two (fun a c -> out si (SpecGcd.spec_next_multiple_of (ival (arg_i a)) (ival (arg_i c)))));
  reg_ms "i.prev_multiple_of"
    (two (fun a c -> out i (Gcd.iprev_multiple_of bdivrem ap (arg_i a) (arg_i c))))
    (two (fun a c -> out si (SpecGcd.spec_prev_multiple_of (ival (arg_i a)) (ival (arg_i c)))));
  reg_ms "i.is_even"
    (one (fun a -> b (Gcd.iis_even (arg_i a))))
    (one (fun a -> out b (SpecGcd.spec_is_even (ival (arg_i a)))));
  reg_ms "i.is_odd"
    (one (fun a -> b (Gcd.iis_odd (arg_i a))))
    (one (fun a -> out b (SpecGcd.spec_is_odd (ival (arg_i a)))));
  reg_ms "i.inc"
    (one (fun a -> out i (Gcd.iinc ap (arg_i a))))
    (one (fun a -> out si (SpecGcd.spec_iinc (ival (arg_i a)))));
  reg_ms "i.dec"
    (one (fun a -> out i (Gcd.idec ap (arg_i a))))
    (one (fun a -> out si (SpecGcd.spec_idec (ival (arg_i a)))));
  (* ---------------------------------------------------------------- C11 *)
  reg_ms "u.nth_root"
    (two (fun x n -> out u (Roots.unth_root bmul bdivrem ap pp pr gf (arg_u x) (arg_n n))))
    (two (fun x n -> out su (SpecRoots.spec_unth_root (v (arg_u x)) (arg_n n))));
  reg_ms "u.sqrt"
    (one (fun x -> out u (Roots.usqrt bdivrem ap pr gf (arg_u x))))
    (one (fun x -> out su (SpecRoots.spec_usqrt (v (arg_u x)))));
  reg_ms "u.cbrt"
    (one (fun x -> out u (Roots.ucbrt bmul bdivrem ap pr gf (arg_u x))))
    (one (fun x -> out su (SpecRoots.spec_ucbrt (v (arg_u x)))));
  reg_ms "i.nth_root"
    (two (fun x n -> out i (Roots.inth_root bmul bdivrem ap pp pr gf (arg_i x) (arg_n n))))
    (two (fun x n -> out si (SpecRoots.spec_inth_root (ival (arg_i x)) (arg_n n))));
  reg_ms "i.sqrt"
    (one (fun x -> out i (Roots.isqrt bdivrem ap pr gf (arg_i x))))
    (one (fun x -> out si (SpecRoots.spec_isqrt (ival (arg_i x)))));
  reg_ms "i.cbrt"
    (one (fun x -> out i (Roots.icbrt bmul bdivrem ap pr gf (arg_i x))))
    (one (fun x -> out si (SpecRoots.spec_icbrt (ival (arg_i x)))))
