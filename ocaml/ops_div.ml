(* ops_div.ml — C03 operations: model (Div.v) and spec (SpecDiv.v). *)
open Io
let p = Extracted.div
let v = Base.coq_val
(* `u:` / `i:` arguments go through the crate's normalising constructors in the harness *)
let au s = Base.strip (arg_u s)
let ai s = let x = arg_i s in Base.from_biguint x.Base.sg (Base.strip x.Base.mag)
let iv s = Base.ival (ai s)
let two f = function [a; b] -> f a b | _ -> failwith "arity"
let three f = function [a; b; c] -> f a b c | _ -> failwith "arity"

let r_u r = ok (res_u r)
let r_uu (q, r) = ok2 (res_u q) (res_u r)
let r_i r = ok (res_i r)
let r_ii (q, r) = ok2 (res_i q) (res_i r)
let s_u r = ok (res_u (Base.enc r))
let s_uu (q, r) = ok2 (res_u (Base.enc q)) (res_u (Base.enc r))
let s_i r = ok (res_i (Base.ienc r))
let s_ii (q, r) = ok2 (res_i (Base.ienc q)) (res_i (Base.ienc r))

let uu name m mr s sr =
  Registry.reg_ms name
    (two (fun a b -> out mr (m p (au a) (au b))))
    (two (fun a b -> out sr (s (v (au a)) (v (au b)))))
let ii name m mr s sr =
  Registry.reg_ms name
    (two (fun a b -> out mr (m p (ai a) (ai b))))
    (two (fun a b -> out sr (s (iv a) (iv b))))

let bits_of ty = match ty with "u32" -> 32 | "u64" -> 64 | "u128" -> 128 | _ -> failwith "scalar type"

let init () =
  let open Registry in
  (* BigUint *)
  uu "u.div_rem" Div.udivrem r_uu SpecDiv.spec_udivrem s_uu;
  uu "u.div" Div.udiv r_u SpecDiv.spec_udiv s_u;
  uu "u.div_val" Div.udiv_val r_u SpecDiv.spec_udiv s_u;
  uu "u.rem" Div.urem r_u SpecDiv.spec_urem s_u;
  uu "u.rem_val" Div.urem_val r_u SpecDiv.spec_urem s_u;
  uu "u.div_floor" Div.udiv_floor r_u SpecDiv.spec_udiv s_u;
  uu "u.mod_floor" Div.umod_floor r_u SpecDiv.spec_urem s_u;
  uu "u.div_mod_floor" Div.udiv_mod_floor r_uu SpecDiv.spec_udivrem s_uu;
  uu "u.div_ceil" Div.udiv_ceil r_u SpecDiv.spec_udiv_ceil s_u;
  uu "u.div_euclid" Div.udiv_euclid r_u SpecDiv.spec_udiv s_u;
  uu "u.rem_euclid" Div.urem_euclid r_u SpecDiv.spec_urem s_u;
  uu "u.div_rem_euclid" Div.udiv_rem_euclid r_uu SpecDiv.spec_udivrem s_uu;
  uu "u.checked_div" Div.uchecked_div (opt r_u) SpecDiv.spec_uchecked_div (opt s_u);
  uu "u.checked_div_euclid" Div.uchecked_div_euclid (opt r_u) SpecDiv.spec_uchecked_div (opt s_u);
  uu "u.checked_rem_euclid" Div.uchecked_rem_euclid (opt r_u) SpecDiv.spec_uchecked_rem (opt s_u);
  uu "u.checked_div_rem_euclid" Div.uchecked_div_rem_euclid (opt r_uu) SpecDiv.spec_uchecked_divrem (opt s_uu);
  (* scalar forms *)
  reg_ms "u.div_scalar"
    (two (fun a s ->
       let (ty, x) = arg_s s in
       out r_u (match ty with
                | "u32" -> Div.udiv_u32 p (au a) x
                | "u64" -> Div.udiv_u64 p (au a) x
                | _ -> Div.udiv_u128 p (au a) x)))
    (two (fun a s -> out s_u (SpecDiv.spec_udiv (v (au a)) (snd (arg_s s)))));
  reg_ms "u.rem_scalar"
    (two (fun a s ->
       let (ty, x) = arg_s s in
       out r_u (match ty with
                | "u32" -> Div.urem_u32 p (au a) x
                | "u64" -> Div.urem_u64 p (au a) x
                | _ -> Div.urem_u128 p (au a) x)))
    (two (fun a s -> out s_u (SpecDiv.spec_urem (v (au a)) (snd (arg_s s)))));
  reg_ms "u.scalar_div"
    (two (fun s b ->
       let (ty, x) = arg_s s in
       out r_u (if ty = "u128" then Div.u128_div_u x (au b) else Div.digit_div_u x (au b))))
    (two (fun s b -> out s_u (SpecDiv.spec_scalar_div (snd (arg_s s)) (v (au b)))));
  reg_ms "u.scalar_rem"
    (two (fun s b ->
       let (ty, x) = arg_s s in
       out r_u (match ty with
                | "u32" -> Div.u32_rem_u x (au b)
                | "u64" -> Div.u64_rem_u x (au b)
                | _ -> Div.u128_rem_u x (au b))))
    (two (fun s b -> out s_u (SpecDiv.spec_scalar_rem (snd (arg_s s)) (v (au b)))));
  (* BigInt *)
  ii "i.div_rem" Div.idiv_rem r_ii SpecDiv.spec_idivrem s_ii;
  ii "i.div" Div.idiv r_i SpecDiv.spec_idiv s_i;
  ii "i.rem" Div.irem r_i SpecDiv.spec_irem s_i;
  ii "i.div_floor" Div.idiv_floor r_i SpecDiv.spec_idiv_floor s_i;
  ii "i.mod_floor" Div.imod_floor r_i SpecDiv.spec_imod_floor s_i;
  ii "i.div_mod_floor" Div.idiv_mod_floor r_ii SpecDiv.spec_idiv_mod_floor s_ii;
  ii "i.div_ceil" Div.idiv_ceil r_i SpecDiv.spec_idiv_ceil s_i;
  ii "i.div_euclid" Div.idiv_euclid r_i SpecDiv.spec_div_euclid s_i;
  ii "i.rem_euclid" Div.irem_euclid r_i SpecDiv.spec_rem_euclid s_i;
  ii "i.div_rem_euclid" Div.idiv_rem_euclid r_ii SpecDiv.spec_div_rem_euclid s_ii;
  ii "i.checked_div" Div.ichecked_div (opt r_i) SpecDiv.spec_ichecked_div (opt s_i);
  ii "i.checked_div_inherent" Div.ichecked_div_inherent (opt r_i) SpecDiv.spec_ichecked_div (opt s_i);
  ii "i.checked_div_euclid" Div.ichecked_div_euclid (opt r_i) SpecDiv.spec_ichecked_div_euclid (opt s_i);
  ii "i.checked_rem_euclid" Div.ichecked_rem_euclid (opt r_i) SpecDiv.spec_ichecked_rem_euclid (opt s_i);
  ii "i.checked_div_rem_euclid" Div.ichecked_div_rem_euclid (opt r_ii) SpecDiv.spec_ichecked_div_rem_euclid (opt s_ii);
  (* hook level: internal functions, model only *)
  reg_m "h.div_wide"
    (three (fun hi lo d -> out (fun (q, r) -> ok2 (res_n q) (res_n r)) (Div.div_wide (arg_n hi) (arg_n lo) (arg_n d))));
  reg_m "h.div_rem_digit"
    (two (fun a b -> out (fun (q, r) -> ok2 (res_u q) (res_n r)) (Div.div_rem_digit (au a) (arg_n b))));
  reg_m "h.rem_digit"
    (two (fun a b -> out (fun r -> ok (res_n r)) (Div.rem_digit (au a) (arg_n b))));
  reg_m "h.sub_mul_digit_same_len"
    (three (fun a b c -> out (fun (r, br) -> ok2 (res_d r) (res_n br))
                           (Div.sub_mul_digit_same_len (arg_d a) (arg_d b) (arg_n c))));
  reg_m "h.div_rem_core"
    (two (fun a b -> out r_uu (Div.div_rem_core p (au a) (arg_d b))));
  reg_m "h.div_rem"
    (two (fun a b -> out r_uu (Div.udivrem_val p (au a) (au b))))
