(* ops_mul.ml — C02 / C20 operations: model (Mul.v, MulCost.v) and spec (SpecMul.v). *)
open Io
let p = Extracted.mul
let v = Base.coq_val
let two f = function [a; b] -> f a b | _ -> failwith "arity"
let three f = function [a; b; c] -> f a b c | _ -> failwith "arity"
let is_wide ty = (ty = "u128" || ty = "i128")
let nat_of_z (z : z) =
  let rec go k acc = if k <= 0 then acc else go (k - 1) (Datatypes.S acc) in go (Z.to_int z) Datatypes.O
let init () =
  let open Registry in
  let su a b = out (fun r -> ok (res_u (Base.enc r))) (SpecMul.spec_umul (v (arg_u a)) (v (arg_u b))) in
  let si a b = out (fun r -> ok (res_i (Base.ienc r))) (SpecMul.spec_imul (Base.ival (arg_i a)) (Base.ival (arg_i b))) in
  reg_ms "u.mul" (two (fun a b -> out (fun r -> ok (res_u r)) (Mul.umul p (arg_u a) (arg_u b)))) (two su);
  reg_ms "u.mul_assign" (two (fun a b -> out (fun r -> ok (res_u r)) (Mul.umul_assign p (arg_u a) (arg_u b)))) (two su);
  reg_ms "u.checked_mul"
    (two (fun a b -> out (opt (fun r -> ok (res_u r))) (Mul.uchecked_mul p (arg_u a) (arg_u b))))
    (two (fun a b -> out (opt (fun r -> ok (res_u (Base.enc r)))) (SpecMul.spec_uchecked_mul (v (arg_u a)) (v (arg_u b)))));
  let uscalar a s =
    let (ty, x) = arg_s s in
    if is_wide ty then Mul.umul_u128 p (arg_u a) x else Mul.umul_digit (arg_u a) x in
  reg_ms "u.mul_scalar"
    (two (fun a s -> out (fun r -> ok (res_u r)) (uscalar a s)))
    (two (fun a s -> out (fun r -> ok (res_u (Base.enc r))) (SpecMul.spec_umul (v (arg_u a)) (snd (arg_s s)))));
  reg_ms "i.mul" (two (fun a b -> out (fun r -> ok (res_i r)) (Mul.imul p (arg_i a) (arg_i b)))) (two si);
  reg_ms "i.mul_assign" (two (fun a b -> out (fun r -> ok (res_i r)) (Mul.imul_assign p (arg_i a) (arg_i b)))) (two si);
  reg_ms "i.checked_mul"
    (two (fun a b -> out (opt (fun r -> ok (res_i r))) (Mul.ichecked_mul p (arg_i a) (arg_i b))))
    (two (fun a b -> out (opt (fun r -> ok (res_i (Base.ienc r)))) (SpecMul.spec_ichecked_mul (Base.ival (arg_i a)) (Base.ival (arg_i b)))));
  let iscalar a s =
    let (ty, x) = arg_s s in
    if ty.[0] = 'u' then Mul.imul_uscalar p (is_wide ty) (arg_i a) x
    else Mul.imul_iscalar p (is_wide ty) (arg_i a) x in
  reg_ms "i.mul_scalar"
    (two (fun a s -> out (fun r -> ok (res_i r)) (iscalar a s)))
    (two (fun a s -> out (fun r -> ok (res_i (Base.ienc r))) (SpecMul.spec_imul (Base.ival (arg_i a)) (snd (arg_s s)))));
  (* hook level *)
  reg_m "h.mac3"
    (three (fun acc b c ->
       let b = arg_d b and c = arg_d c in
       out (fun r -> ok (res_d r)) (Mul.mac3 (Mul.fuel3 b c) p (arg_d acc) b c)));
  reg_m "h.mac_digit"
    (three (fun acc b c -> out (fun r -> ok (res_d r)) (Mul.mac_digit p (arg_d acc) (arg_d b) (snd (arg_s c)))));
  reg_m "h.mul3"
    (two (fun a b -> out (fun r -> ok (res_u r)) (Mul.mul3 p (arg_d a) (arg_d b))));
  reg_m "h.sub_sign"
    (two (fun a b -> out (fun (s, r) -> ok2 (res_sign s) (res_u r)) (Mul.sub_sign p.Mul.mp_as (arg_d a) (arg_d b))));
  reg_m "h.scalar_mul"
    (two (fun a s -> out (fun r -> ok (res_u r)) (Mul.scalar_mul (arg_u a) (snd (arg_s s)))));
  (* C20: the work counter *)
  reg_m "h.mul_cost"
    (two (fun a b -> out (fun c -> ok (res_n c)) (MulCost.cost p (arg_u a) (arg_u b))));
  reg_m "h.bank_cost"
    (two (fun la lb ->
       out (fun c -> ok (res_n c))
         (MulCost.cost p (MulCost.bank_a (nat_of_z (arg_n la))) (MulCost.bank_b (nat_of_z (arg_n lb))))))
