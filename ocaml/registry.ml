(* registry.ml — op name -> handler.  A handler maps the argument strings to a pair
   (model result line, spec result line option).  The spec line is computed directly from
   the Z-level specification (Spec.v) and is independent of the digit-level model. *)
type handler = string list -> string * string option
let table : (string, handler) Stdlib.Hashtbl.t = Stdlib.Hashtbl.create 512
let reg (name : string) (h : handler) = Stdlib.Hashtbl.replace table name h
(* convenience: model only *)
let reg_m name (h : string list -> string) = reg name (fun a -> (h a, None))
(* model + spec *)
let reg_ms name (m : string list -> string) (s : string list -> string) =
  reg name (fun a -> (m a, Some (s a)))
