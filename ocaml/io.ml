(* io.ml — wire format shared with the Rust harness (see docs/PROTOCOL.md). *)
type z = Big_int_Z.big_int

let z_of_hex (s : string) : z = if s = "" then Z.zero else Z.of_string_base 16 s
let hex_of_z (x : z) : string = Z.format "%x" x
let z_of_dec (s : string) : z = Z.of_string s
let dec_of_z (x : z) : string = Z.to_string x

let split_on c s = if s = "" then [] else Stdlib.String.split_on_char c s

(* digit lists: comma separated little-endian hex digits *)
let digits_of_string (s : string) : z list = Stdlib.List.map z_of_hex (split_on ',' s)
let string_of_digits (l : z list) : string = Stdlib.String.concat "," (Stdlib.List.map hex_of_z l)

let strip_prefix p s =
  let n = Stdlib.String.length p in
  if Stdlib.String.length s >= n && Stdlib.String.sub s 0 n = p then Stdlib.String.sub s n (Stdlib.String.length s - n)
  else failwith ("expected prefix " ^ p ^ " in " ^ s)

(* arguments *)
let arg_u s = digits_of_string (strip_prefix "u:" s)
let arg_d s = digits_of_string (strip_prefix "d:" s)
let arg_n s = z_of_dec (strip_prefix "n:" s)
let arg_i s : Base.bigint =
  let r = strip_prefix "i:" s in
  let sg = match r.[0] with '-' -> Base.Minus | '0' -> Base.NoSign | '+' -> Base.Plus
                          | _ -> failwith "bad sign" in
  { Base.sg = sg; Base.mag = digits_of_string (Stdlib.String.sub r 2 (Stdlib.String.length r - 2)) }
(* scalar "s:<type>:<dec>" -> (type, value) *)
let arg_s s : string * z =
  match Stdlib.String.split_on_char ':' s with
  | ["s"; ty; v] -> (ty, z_of_dec v)
  | _ -> failwith ("bad scalar " ^ s)
let arg_b s : z list =   (* bytes as list of small Z *)
  let h = strip_prefix "b:" s in
  Stdlib.List.init (Stdlib.String.length h / 2) (fun i -> Z.of_int (int_of_string ("0x" ^ Stdlib.String.sub h (2*i) 2)))
let arg_t s : string =    (* percent-decoded text *)
  let h = strip_prefix "t:" s in
  let b = Stdlib.Buffer.create 16 in
  let i = ref 0 in
  while !i < Stdlib.String.length h do
    if h.[!i] = '%' then begin
      Stdlib.Buffer.add_char b (Stdlib.Char.chr (int_of_string ("0x" ^ Stdlib.String.sub h (!i+1) 2))); i := !i + 3 end
    else begin Stdlib.Buffer.add_char b h.[!i]; incr i end
  done; Stdlib.Buffer.contents b
let arg_f s : z = z_of_hex (strip_prefix "f:" s)
let arg_g s : z = z_of_hex (strip_prefix "g:" s)

(* results *)
let res_u (l : z list) = "u:" ^ string_of_digits l
let res_d (l : z list) = "d:" ^ string_of_digits l
let res_n (x : z) = "n:" ^ dec_of_z x
let res_i (x : Base.bigint) =
  "i:" ^ (match x.Base.sg with Base.Minus -> "-" | Base.NoSign -> "0" | Base.Plus -> "+")
  ^ ":" ^ string_of_digits x.Base.mag
let res_s ty (x : z) = "s:" ^ ty ^ ":" ^ dec_of_z x
let res_bool b = if b then "n:1" else "n:0"
let res_b (l : z list) =
  "b:" ^ Stdlib.String.concat "" (Stdlib.List.map (fun x -> Stdlib.Printf.sprintf "%02x" (Z.to_int x)) l)
let res_t (s : string) =
  let b = Stdlib.Buffer.create 16 in
  Stdlib.String.iter (fun c ->
    let k = Stdlib.Char.code c in
    if (k >= 48 && k <= 57) || (k >= 65 && k <= 90) || (k >= 97 && k <= 122) || c = '-' || c = '_' || c = '.' || c = '+'
    then Stdlib.Buffer.add_char b c else Stdlib.Buffer.add_string b (Stdlib.Printf.sprintf "%%%02x" k)) s;
  "t:" ^ Stdlib.Buffer.contents b
let res_f (x : z) = "f:" ^ Z.format "%016x" x
let res_g (x : z) = "g:" ^ Z.format "%08x" x
let res_cmp (c : Datatypes.comparison) =
  match c with Datatypes.Lt -> "o:lt" | Datatypes.Eq -> "o:eq" | Datatypes.Gt -> "o:gt"
let res_sign (s : Base.sign) =
  match s with Base.Minus -> "z:-1" | Base.NoSign -> "z:0" | Base.Plus -> "z:1"

let panic_name (k : Base.panic_kind) : string =
  match k with
  | Base.DivZero -> "divzero" | Base.SubUnderflow -> "subunderflow" | Base.NegShift -> "negshift"
  | Base.BadRadix -> "badradix" | Base.ZeroModulus -> "zeromodulus" | Base.NegExponent -> "negexponent"
  | Base.ImagRoot -> "imagroot" | Base.ZeroRoot -> "zeroroot" | Base.EmptyRange -> "emptyrange"
  | Base.MemOverflow -> "memoverflow"
  | Base.Internal n -> "internal" ^ dec_of_z n

(* render an outcome with a payload printer *)
let out (f : 'a -> string) (o : 'a Base.outcome) : string =
  match o with
  | Base.Ret a -> f a
  | Base.Panic k -> "panic:" ^ panic_name k
  | Base.OutOfFuel -> "panic:outoffuel"
let ok s = "ok " ^ s
let ok2 a b = "ok " ^ a ^ " " ^ b
let opt (f : 'a -> string) (o : 'a option) = match o with None -> "none" | Some a -> f a
