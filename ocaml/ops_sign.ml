(* ops_sign.ml — C19 operations: model (Sign.v) and spec (SpecSign.v).
   Every value-taking op carries a leading `n:<mode>` argument that only the Rust harness
   interprets (how the operand's buffer was produced: fresh / shifted down in place / reduced in
   place from a larger value); the model ignores it — results must not depend on capacity. *)
open Io
let p = Extracted.addsub
let sp = Extracted.signs
let v = Base.coq_val

(* `z:-1|0|1` *)
let arg_z s : Base.sign =
  match strip_prefix "z:" s with
  | "-1" -> Base.Minus | "0" -> Base.NoSign | "1" -> Base.Plus
  | _ -> failwith "bad sign"
(* `r:<hex32>,<hex32>,...` little-endian base-2^32 words *)
let arg_r s = digits_of_string (strip_prefix "r:" s)
(* the harness builds `i:` arguments with from_biguint over a normalising constructor *)
let arg_ic s = let r = arg_i s in Base.from_biguint r.Base.sg (Base.strip r.Base.mag)
let arg_uc s = Base.strip (arg_u s)

let ri x = ok (res_i x)
let ru x = ok (res_u x)
let rb b = ok (res_bool b)
let ienc = Base.ienc
let enc = Base.enc

let init () =
  let open Registry in
  let i1 name m s =
    reg_ms name
      (function [_; x] -> m (arg_ic x) | _ -> failwith "arity")
      (function [_; x] -> s (Base.ival (arg_ic x)) | _ -> failwith "arity") in
  let u1 name m s =
    reg_ms name
      (function [_; x] -> m (arg_uc x) | _ -> failwith "arity")
      (function [_; x] -> s (v (arg_uc x)) | _ -> failwith "arity") in
  let c0 name m s =
    reg_ms name (fun _ -> m ()) (fun _ -> s ()) in
  (* negation *)
  i1 "sg.neg" (fun x -> ri (AddSub.ineg x)) (fun a -> ri (ienc (SpecSign.spec_neg a)));
  i1 "sg.neg_ref" (fun x -> ri (AddSub.ineg x)) (fun a -> ri (ienc (SpecSign.spec_neg a)));
  i1 "sg.neg_inverse" (fun x -> out ri (AddSub.iadd p x (AddSub.ineg x))) (fun _ -> ri (ienc Zar.zero));
  (* Signed *)
  i1 "sg.abs" (fun x -> ri (Sign.iabs sp x)) (fun a -> ri (ienc (SpecSign.spec_abs a)));
  i1 "sg.signum" (fun x -> ri (Sign.isignum sp x)) (fun a -> ri (ienc (SpecSign.spec_signum a)));
  i1 "sg.is_positive" (fun x -> rb (Sign.is_positive sp x)) (fun a -> rb (SpecSign.spec_is_positive a));
  i1 "sg.is_negative" (fun x -> rb (Sign.is_negative sp x)) (fun a -> rb (SpecSign.spec_is_negative a));
  i1 "sg.sign" (fun x -> ok (res_sign (Sign.isign x))) (fun a -> ok (res_sign (SpecSign.spec_sign a)));
  i1 "sg.magnitude" (fun x -> ru (Sign.imagnitude x)) (fun a -> ru (enc (SpecSign.spec_magnitude a)));
  i1 "sg.into_parts"
    (fun x -> let (s, m) = Sign.into_parts x in ok2 (res_sign s) (res_u m))
    (fun a -> ok2 (res_sign (SpecSign.spec_sign a)) (res_u (enc (SpecSign.spec_magnitude a))));
  i1 "sg.roundtrip"
    (fun x -> let (s, m) = Sign.into_parts x in ri (Base.from_biguint s m))
    (fun a -> ri (ienc a));
  reg_ms "sg.abs_sub"
    (function [_; x; y] -> out ri (Sign.abs_sub sp p (arg_ic x) (arg_ic y)) | _ -> failwith "arity")
    (function [_; x; y] -> out (fun r -> ri (ienc r))
                             (SpecSign.spec_abs_sub (Base.ival (arg_ic x)) (Base.ival (arg_ic y)))
            | _ -> failwith "arity");
  reg_ms "sg.cmp"
    (function [_; x; y] -> out (fun c -> ok (res_cmp c)) (Sign.icmp sp (arg_ic x) (arg_ic y)) | _ -> failwith "arity")
    (function [_; x; y] -> out (fun c -> ok (res_cmp c))
                             (SpecSign.spec_icmp (Base.ival (arg_ic x)) (Base.ival (arg_ic y)))
            | _ -> failwith "arity");
  (* from_biguint on raw (sign, magnitude) pairs, consistent or not *)
  reg_ms "sg.from_biguint"
    (function [x] -> let r = arg_i x in ri (Base.from_biguint r.Base.sg (Base.strip r.Base.mag)) | _ -> failwith "arity")
    (function [x] -> let r = arg_i x in ri (ienc (SpecSign.spec_from_biguint r.Base.sg (v r.Base.mag))) | _ -> failwith "arity");
  let slice name m =
    reg_ms name
      (function [s; w] -> ri (m (arg_z s) (arg_r w)) | _ -> failwith "arity")
      (function [s; w] -> ri (ienc (SpecSign.spec_from_biguint (arg_z s) (SpecSign.val32 (arg_r w)))) | _ -> failwith "arity") in
  slice "sg.new" Sign.i_from_slice;
  slice "sg.from_slice" Sign.i_from_slice;
  reg_ms "sg.assign_from_slice"
    (function [_; x; s; w] -> ri (Sign.i_assign_from_slice (arg_ic x) (arg_z s) (arg_r w)) | _ -> failwith "arity")
    (function [_; _; s; w] -> ri (ienc (SpecSign.spec_from_biguint (arg_z s) (SpecSign.val32 (arg_r w)))) | _ -> failwith "arity");
  reg_ms "sg.u_from_slice"
    (function [w] -> ru (Sign.u_from_slice (arg_r w)) | _ -> failwith "arity")
    (function [w] -> ru (enc (SpecSign.val32 (arg_r w))) | _ -> failwith "arity");
  (* conversions between the two types *)
  let sopt a = opt (fun r -> ru (enc r)) (SpecSign.spec_to_biguint a) in
  i1 "sg.to_biguint" (fun x -> opt ru (Sign.to_biguint sp x)) sopt;
  i1 "sg.to_biguint_trait" (fun x -> opt ru (Sign.to_biguint_trait sp x)) sopt;
  i1 "sg.try_from" (fun x -> opt ru (Sign.try_into_biguint sp x)) sopt;
  i1 "sg.try_from_ref" (fun x -> opt ru (Sign.to_biguint sp x)) sopt;
  i1 "sg.i_to_bigint" (fun x -> opt ri (Sign.i_to_bigint x)) (fun a -> ri (ienc a));
  u1 "sg.u_to_bigint" (fun m -> opt ri (Sign.u_to_bigint sp m)) (fun a -> ri (ienc a));
  u1 "sg.u_to_biguint" (fun m -> opt ru (Sign.u_to_biguint m)) (fun a -> ru (enc a));
  u1 "sg.from_u" (fun m -> ri (Sign.ifrom_u sp m)) (fun a -> ri (ienc a));
  (* identities *)
  Stdlib.List.iter (fun n -> c0 n (fun () -> ru Sign.uzero) (fun () -> ru (enc Zar.zero)))
    ["sg.u_zero"; "sg.u_const_zero"; "sg.u_default"; "sg.u_zero_trait_const"];
  c0 "sg.u_one" (fun () -> ru Sign.uone) (fun () -> ru (enc Zar.one));
  Stdlib.List.iter (fun n -> c0 n (fun () -> ri Sign.izero) (fun () -> ri (ienc Zar.zero)))
    ["sg.i_zero"; "sg.i_const_zero"; "sg.i_default"; "sg.i_zero_trait_const"];
  c0 "sg.i_one" (fun () -> ri Sign.ione) (fun () -> ri (ienc Zar.one));
  u1 "sg.u_is_zero" (fun m -> rb (Sign.uis_zero m)) (fun a -> rb (SpecSign.spec_is_zero a));
  u1 "sg.u_is_one" (fun m -> rb (Sign.uis_one m)) (fun a -> rb (SpecSign.spec_is_one a));
  i1 "sg.i_is_zero" (fun x -> rb (Sign.iis_zero sp x)) (fun a -> rb (SpecSign.spec_is_zero a));
  i1 "sg.i_is_one" (fun x -> rb (Sign.iis_one x)) (fun a -> rb (SpecSign.spec_is_one a));
  u1 "sg.u_set_zero" (fun m -> ru (Sign.uset_zero m)) (fun _ -> ru (enc Zar.zero));
  u1 "sg.u_set_one" (fun m -> ru (Sign.uset_one m)) (fun _ -> ru (enc Zar.one));
  i1 "sg.i_set_zero" (fun x -> ri (Sign.iset_zero x)) (fun _ -> ri (ienc Zar.zero));
  i1 "sg.i_set_one" (fun x -> ri (Sign.iset_one x)) (fun _ -> ri (ienc Zar.one));
  (* Sign tables *)
  reg_ms "sg.sign_neg"
    (function [s] -> ok (res_sign (Base.sign_neg (arg_z s))) | _ -> failwith "arity")
    (function [s] -> ok (res_sign (SpecSign.spec_sign_neg (arg_z s))) | _ -> failwith "arity");
  reg_ms "sg.sign_mul"
    (function [a; b] -> ok (res_sign (Base.sign_mul (arg_z a) (arg_z b))) | _ -> failwith "arity")
    (function [a; b] -> ok (res_sign (SpecSign.spec_sign_mul (arg_z a) (arg_z b))) | _ -> failwith "arity")
