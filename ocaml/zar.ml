(* zar.ml — alias of zarith's Z (the extracted code shadows the name Z). *)
include Z
