(* ops_modpow.ml — C05 operations: model (Monty.v, Modpow.v) and spec (SpecModpow.v).

   The model is parameterised by the big multiplication / division of the other areas.
   Since the merge of model/Mul.v and model/Div.v these are the REAL model functions
   (the same instantiation as proofs/ModpowInst.v):
     bmul    = Mul.umul Extracted.mul        bdivrem = Div.udivrem Extracted.div
   Subtraction, addition, comparison and the shift are the AddSub / ShiftCore models. *)
open Io
let p = Extracted.modpow
let ap = Extracted.addsub
let v = Base.coq_val
let bmul a b = Mul.umul Extracted.mul a b
let bdivrem a b = Div.udivrem Extracted.div a b

let arity () = failwith "arity"
let init () =
  let open Registry in
  reg_ms "u.modpow"
    (function [b; e; m] -> out (fun r -> ok (res_u r)) (Modpow.umodpow ap bmul bdivrem p (arg_u b) (arg_u e) (arg_u m)) | _ -> arity ())
    (function [b; e; m] -> out (fun r -> ok (res_u (Base.enc r))) (SpecModpow.spec_umodpow (v (arg_u b)) (v (arg_u e)) (v (arg_u m))) | _ -> arity ());
  reg_ms "i.modpow"
    (function [b; e; m] -> out (fun r -> ok (res_i r)) (Modpow.imodpow ap bmul bdivrem p (arg_i b) (arg_i e) (arg_i m)) | _ -> arity ())
    (function [b; e; m] -> out (fun r -> ok (res_i (Base.ienc r)))
                             (SpecModpow.spec_imodpow (Base.ival (arg_i b)) (Base.ival (arg_i e)) (Base.ival (arg_i m))) | _ -> arity ());
  reg_ms "u.modinv"
    (function [b; m] -> out (opt (fun r -> ok (res_u r))) (Modpow.umodinv ap bmul bdivrem (arg_u b) (arg_u m)) | _ -> arity ())
    (function [b; m] -> out (opt (fun r -> ok (res_u (Base.enc r)))) (SpecModpow.spec_umodinv (v (arg_u b)) (v (arg_u m))) | _ -> arity ());
  reg_ms "i.modinv"
    (function [b; m] -> out (opt (fun r -> ok (res_i r))) (Modpow.imodinv ap bmul bdivrem p (arg_i b) (arg_i m)) | _ -> arity ())
    (function [b; m] -> out (opt (fun r -> ok (res_i (Base.ienc r)))) (SpecModpow.spec_imodinv (Base.ival (arg_i b)) (Base.ival (arg_i m))) | _ -> arity ());
  (* hook level: internal functions, model only *)
  reg_m "h.inv_mod_alt"
    (function [b] -> out (fun k -> ok (res_n k)) (Monty.inv_mod_alt (arg_n b)) | _ -> arity ());
  reg_m "h.add_mul_vvw"
    (function [z; x; y] -> out (fun (r, c) -> ok2 (res_d r) (res_n c)) (Monty.add_mul_vvw (arg_d z) (arg_d x) (arg_n y)) | _ -> arity ());
  reg_m "h.sub_vv"
    (function [z; x; y] -> (let (r, c) = Monty.sub_vv (arg_d z) (arg_d x) (arg_d y) in ok2 (res_d r) (res_n c)) | _ -> arity ());
  reg_m "h.montgomery"
    (function [x; y; m; k; n] ->
       out (fun r -> ok (res_d r))
         (* the harness can only build these operands with verif::biguint_from_vec, which normalises *)
         (Monty.montgomery_z p (Base.strip (arg_d x)) (Base.strip (arg_d y)) (Base.strip (arg_d m)) (arg_n k) (arg_n n)) | _ -> arity ());
  reg_m "h.monty_modpow"
    (function [x; y; m] -> out (fun r -> ok (res_u r)) (Monty.monty_modpow ap bdivrem p (arg_u x) (arg_u y) (arg_u m)) | _ -> arity ());
  reg_m "h.plain_modpow"
    (function [b; e; m] -> out (fun r -> ok (res_u r)) (Modpow.plain_modpow bmul bdivrem (arg_u b) (arg_d e) (arg_u m)) | _ -> arity ())
