(* ops_addsub.ml — C01 operations: model (AddSub.v) and spec (SpecAddSub.v). *)
open Io
let p = Extracted.addsub
let v = Base.coq_val
let two f = function [a; b] -> f a b | _ -> failwith "arity"
let init () =
  let open Registry in
  reg_ms "u.add"
    (two (fun a b -> out (fun r -> ok (res_u r)) (AddSub.uadd p (arg_u a) (arg_u b))))
    (two (fun a b -> out (fun r -> ok (res_u (Base.enc r))) (SpecAddSub.spec_uadd (v (arg_u a)) (v (arg_u b)))));
  reg_ms "u.add_assign"
    (two (fun a b -> out (fun r -> ok (res_u r)) (AddSub.uadd p (arg_u a) (arg_u b))))
    (two (fun a b -> out (fun r -> ok (res_u (Base.enc r))) (SpecAddSub.spec_uadd (v (arg_u a)) (v (arg_u b)))));
  reg_ms "u.sub"
    (two (fun a b -> out (fun r -> ok (res_u r)) (AddSub.usub p (arg_u a) (arg_u b))))
    (two (fun a b -> out (fun r -> ok (res_u (Base.enc r))) (SpecAddSub.spec_usub (v (arg_u a)) (v (arg_u b)))));
  reg_ms "u.sub_ref_val"
    (two (fun a b -> out (fun r -> ok (res_u r)) (AddSub.usub_ref_val p (arg_u a) (arg_u b))))
    (two (fun a b -> out (fun r -> ok (res_u (Base.enc r))) (SpecAddSub.spec_usub (v (arg_u a)) (v (arg_u b)))));
  reg_ms "u.checked_sub"
    (two (fun a b -> out (opt (fun r -> ok (res_u r))) (AddSub.uchecked_sub p (arg_u a) (arg_u b))))
    (two (fun a b -> out (opt (fun r -> ok (res_u (Base.enc r)))) (SpecAddSub.spec_uchecked_sub (v (arg_u a)) (v (arg_u b)))));
  reg_ms "u.checked_add"
    (two (fun a b -> out (opt (fun r -> ok (res_u r))) (AddSub.uchecked_add p (arg_u a) (arg_u b))))
    (two (fun a b -> out (fun r -> ok (res_u (Base.enc r))) (SpecAddSub.spec_uadd (v (arg_u a)) (v (arg_u b)))));
  reg_ms "u.cmp"
    (two (fun a b -> out (fun r -> ok (res_cmp r)) (AddSub.ucmp (arg_u a) (arg_u b))))
    (two (fun a b -> out (fun r -> ok (res_cmp r)) (SpecAddSub.spec_ucmp (v (arg_u a)) (v (arg_u b)))));
  reg_ms "i.add"
    (two (fun a b -> out (fun r -> ok (res_i r)) (AddSub.iadd p (arg_i a) (arg_i b))))
    (two (fun a b -> out (fun r -> ok (res_i (Base.ienc r))) (SpecAddSub.spec_iadd (Base.ival (arg_i a)) (Base.ival (arg_i b)))));
  reg_ms "i.sub"
    (two (fun a b -> out (fun r -> ok (res_i r)) (AddSub.isub p (arg_i a) (arg_i b))))
    (two (fun a b -> out (fun r -> ok (res_i (Base.ienc r))) (SpecAddSub.spec_isub (Base.ival (arg_i a)) (Base.ival (arg_i b)))));
  (* scalar leaves *)
  let scalar_add a s =
    let (ty, x) = arg_s s in
    if ty = "u128" then AddSub.uadd_u128 p (arg_u a) x else AddSub.uadd_digit p (arg_u a) x in
  reg_ms "u.add_scalar"
    (two (fun a s -> out (fun r -> ok (res_u r)) (scalar_add a s)))
    (two (fun a s -> out (fun r -> ok (res_u (Base.enc r))) (SpecAddSub.spec_uadd (v (arg_u a)) (snd (arg_s s)))));
  let scalar_sub a s =
    let (ty, x) = arg_s s in
    if ty = "u128" then AddSub.usub_u128 p (arg_u a) x else AddSub.usub_digit p (arg_u a) x in
  reg_ms "u.sub_scalar"
    (two (fun a s -> out (fun r -> ok (res_u r)) (scalar_sub a s)))
    (two (fun a s -> out (fun r -> ok (res_u (Base.enc r))) (SpecAddSub.spec_usub (v (arg_u a)) (snd (arg_s s)))));
  let scalar_rsub s b =
    let (ty, x) = arg_s s in
    if ty = "u128" then AddSub.u128_sub_u x (arg_u b) else AddSub.digit_sub_u x (arg_u b) in
  reg_ms "u.scalar_sub"
    (two (fun s b -> out (fun r -> ok (res_u r)) (scalar_rsub s b)))
    (two (fun s b -> out (fun r -> ok (res_u (Base.enc r))) (SpecAddSub.spec_usub (snd (arg_s s)) (v (arg_u b)))));
  (* hook level: internal functions, model only *)
  reg_m "h.add2c"
    (two (fun a b -> out (fun (r, c) -> ok2 (res_d r) (res_n c)) (AddSub.add2c p (arg_d a) (arg_d b))));
  reg_m "h.sub2"
    (two (fun a b -> out (fun r -> ok (res_d r)) (AddSub.sub2 p (arg_d a) (arg_d b))));
  reg_m "h.sub2rev"
    (two (fun a b -> out (fun r -> ok (res_d r)) (AddSub.sub2rev (arg_d a) (arg_d b))));
  reg_m "h.schoolbook_add"
    (function [a; b; n] ->
       out (fun ((r, c), d) -> Stdlib.Printf.sprintf "ok %s %s %s" (res_d r) (res_n c) (res_n d))
         (AddSub.schoolbook AddSub.adc_zip p.AddSub.ap_blk (arg_d a) (arg_d b) (arg_n n))
     | _ -> failwith "arity");
  reg_m "h.schoolbook_sub"
    (function [a; b; n] ->
       out (fun ((r, c), d) -> Stdlib.Printf.sprintf "ok %s %s %s" (res_d r) (res_n c) (res_n d))
         (AddSub.schoolbook AddSub.sbb_zip p.AddSub.ap_blk (arg_d a) (arg_d b) (arg_n n))
     | _ -> failwith "arity")
