(* ops_prim.ml — C08 operations: model (Prim.v) and spec (SpecPrim.v). *)
open Io
let p = Extracted.prim
let v = Base.coq_val
let one f = function [a] -> f a | _ -> failwith "arity"
let two f = function [a; b] -> f a b | _ -> failwith "arity"

let ptype_of = function
  | "u8" -> Prim.U8 | "u16" -> Prim.U16 | "u32" -> Prim.U32 | "u64" -> Prim.U64
  | "usize" -> Prim.Usize | "u128" -> Prim.U128
  | "i8" -> Prim.I8 | "i16" -> Prim.I16 | "i32" -> Prim.I32 | "i64" -> Prim.I64
  | "isize" -> Prim.Isize | "i128" -> Prim.I128
  | s -> failwith ("bad type " ^ s)
(* (signed, bits) — stated here independently of the model's table *)
let shape_of = function
  | "u8" -> (false, 8) | "u16" -> (false, 16) | "u32" -> (false, 32) | "u64" -> (false, 64)
  | "usize" -> (false, 64) | "u128" -> (false, 128)
  | "i8" -> (true, 8) | "i16" -> (true, 16) | "i32" -> (true, 32) | "i64" -> (true, 64)
  | "isize" -> (true, 64) | "i128" -> (true, 128)
  | s -> failwith ("bad type " ^ s)
let zi = Zar.of_int
let spec_to ty x = let (s, b) = shape_of ty in SpecPrim.spec_to_int s (zi b) x
let is_signed ty = fst (shape_of ty)

let r_scalar ty = opt (fun x -> ok (res_s ty x))
let r_u_opt = opt (fun r -> ok (res_u r))
let r_i_opt = opt (fun r -> ok (res_i r))
let s_u_opt = opt (fun r -> ok (res_u (Base.enc r)))
let s_i_opt = opt (fun r -> ok (res_i (Base.ienc r)))
let or_err = function "none" -> "err" | s -> s
let f53 = zi 53 and f11 = zi 11 and f24 = zi 24 and f8 = zi 8

let init () =
  let open Registry in
  (* ---- big -> integer *)
  reg_ms "u.to"
    (two (fun t a -> let ty = arg_t t in out (r_scalar ty) (Prim.uto p (ptype_of ty) (arg_u a))))
    (two (fun t a -> let ty = arg_t t in r_scalar ty (spec_to ty (v (arg_u a)))));
  reg_ms "i.to"
    (two (fun t a -> let ty = arg_t t in out (r_scalar ty) (Prim.ito p (ptype_of ty) (arg_i a))))
    (two (fun t a -> let ty = arg_t t in r_scalar ty (spec_to ty (Base.ival (arg_i a)))));
  reg_ms "u.try_into"
    (two (fun t a -> let ty = arg_t t in or_err (out (r_scalar ty) (Prim.utry_into p (ptype_of ty) (arg_u a)))))
    (two (fun t a -> let ty = arg_t t in or_err (r_scalar ty (spec_to ty (v (arg_u a))))));
  reg_ms "i.try_into"
    (two (fun t a -> let ty = arg_t t in or_err (out (r_scalar ty) (Prim.itry_into p (ptype_of ty) (arg_i a)))))
    (two (fun t a -> let ty = arg_t t in or_err (r_scalar ty (spec_to ty (Base.ival (arg_i a))))));
  reg_ms "u.try_into_owned"
    (two (fun t a -> let ty = arg_t t in
       out (function Datatypes.Coq_inl x -> ok (res_s ty x) | Datatypes.Coq_inr o -> "err " ^ res_u o)
         (Prim.utry_into_owned p (ptype_of ty) (arg_u a))))
    (two (fun t a -> let ty = arg_t t in let x = v (arg_u a) in
       match spec_to ty x with Some y -> ok (res_s ty y) | None -> "err " ^ res_u (Base.enc x)));
  reg_ms "i.try_into_owned"
    (two (fun t a -> let ty = arg_t t in
       out (function Datatypes.Coq_inl x -> ok (res_s ty x) | Datatypes.Coq_inr o -> "err " ^ res_i o)
         (Prim.itry_into_owned p (ptype_of ty) (arg_i a))))
    (two (fun t a -> let ty = arg_t t in let x = Base.ival (arg_i a) in
       match spec_to ty x with Some y -> ok (res_s ty y) | None -> "err " ^ res_i (Base.ienc x)));
  (* ---- integer -> big *)
  reg_ms "u.from"
    (one (fun s -> let (ty, x) = arg_s s in out (fun r -> ok (res_u r)) (Prim.ufrom (ptype_of ty) x)))
    (one (fun s -> let (_, x) = arg_s s in ok (res_u (Base.enc x))));
  reg_ms "u.from_bool"
    (one (fun n -> ok (res_u (Prim.ufrom_bool (Zar.sign (arg_n n) <> 0)))))
    (one (fun n -> ok (res_u (Base.enc (arg_n n)))));
  let ufrom_prim_m s = let (ty, x) = arg_s s in Prim.ufrom_prim (ptype_of ty) x in
  let ufrom_prim_s s = let (_, x) = arg_s s in SpecPrim.spec_ufrom_int x in
  reg_ms "u.from_prim"
    (one (fun s -> out r_u_opt (ufrom_prim_m s))) (one (fun s -> s_u_opt (ufrom_prim_s s)));
  reg_ms "u.try_from_prim"
    (one (fun s -> or_err (out r_u_opt (ufrom_prim_m s)))) (one (fun s -> or_err (s_u_opt (ufrom_prim_s s))));
  reg_ms "i.from"
    (one (fun s -> let (ty, x) = arg_s s in out (fun r -> ok (res_i r)) (Prim.ifrom (ptype_of ty) x)))
    (one (fun s -> let (_, x) = arg_s s in ok (res_i (Base.ienc x))));
  reg_ms "i.from_bool"
    (one (fun n -> ok (res_i (Prim.ifrom_bool (Zar.sign (arg_n n) <> 0)))))
    (one (fun n -> ok (res_i (Base.ienc (arg_n n)))));
  reg_ms "i.from_prim"
    (one (fun s -> let (ty, x) = arg_s s in out r_i_opt (Prim.ifrom_prim (ptype_of ty) x)))
    (one (fun s -> let (_, x) = arg_s s in ok (res_i (Base.ienc x))));
  (* ---- ToBigUint / ToBigInt for primitives (ints and floats) *)
  let kind s = Stdlib.String.sub s 0 2 in
  reg_ms "p.to_biguint"
    (one (fun s -> match kind s with
       | "s:" -> out r_u_opt (ufrom_prim_m s)
       | "f:" -> out r_u_opt (Prim.ufrom_f64 (arg_f s))
       | _ -> out r_u_opt (Prim.ufrom_f32 (arg_g s))))
    (one (fun s -> match kind s with
       | "s:" -> s_u_opt (ufrom_prim_s s)
       | "f:" -> s_u_opt (SpecPrim.spec_ufrom_float f53 f11 (arg_f s))
       | _ -> s_u_opt (SpecPrim.spec_ufrom_float f24 f8 (arg_g s))));
  reg_ms "p.to_bigint"
    (one (fun s -> match kind s with
       | "s:" -> let (ty, x) = arg_s s in out r_i_opt (Prim.ifrom_prim (ptype_of ty) x)
       | "f:" -> out r_i_opt (Prim.ifrom_f64 (arg_f s))
       | _ -> out r_i_opt (Prim.ifrom_f32 (arg_g s))))
    (one (fun s -> match kind s with
       | "s:" -> let (_, x) = arg_s s in ok (res_i (Base.ienc x))
       | "f:" -> s_i_opt (SpecPrim.spec_ifrom_float f53 f11 (arg_f s))
       | _ -> s_i_opt (SpecPrim.spec_ifrom_float f24 f8 (arg_g s))));
  (* ---- BigUint <-> BigInt *)
  reg_ms "i.from_biguint"
    (one (fun a -> ok (res_i (Prim.ifrom_biguint (arg_u a)))))
    (one (fun a -> ok (res_i (Base.ienc (v (arg_u a))))));
  reg_ms "u.to_bigint"
    (one (fun a -> ok (res_i (Prim.ifrom_biguint (arg_u a)))))
    (one (fun a -> ok (res_i (Base.ienc (v (arg_u a))))));
  reg_ms "i.to_biguint"
    (one (fun a -> r_u_opt (Prim.ito_biguint (arg_i a))))
    (one (fun a -> s_u_opt (SpecPrim.spec_ufrom_int (Base.ival (arg_i a)))));
  reg_ms "i.try_into_biguint"
    (one (fun a -> or_err (r_u_opt (Prim.ito_biguint (arg_i a)))))
    (one (fun a -> or_err (s_u_opt (SpecPrim.spec_ufrom_int (Base.ival (arg_i a))))));
  reg_ms "i.try_into_biguint_owned"
    (one (fun a -> match Prim.itry_into_biguint_owned (arg_i a) with
       | Datatypes.Coq_inl r -> ok (res_u r) | Datatypes.Coq_inr o -> "err " ^ res_i o))
    (one (fun a -> let x = Base.ival (arg_i a) in
       match SpecPrim.spec_ufrom_int x with Some r -> ok (res_u (Base.enc r)) | None -> "err " ^ res_i (Base.ienc x)));
  (* ---- big -> float *)
  reg_ms "u.to_f64"
    (one (fun a -> out (fun r -> ok (res_f r)) (Prim.uto_f64 p (arg_u a))))
    (one (fun a -> ok (res_f (SpecPrim.spec_to_float f53 f11 (v (arg_u a))))));
  reg_ms "u.to_f32"
    (one (fun a -> out (fun r -> ok (res_g r)) (Prim.uto_f32 p (arg_u a))))
    (one (fun a -> ok (res_g (SpecPrim.spec_to_float f24 f8 (v (arg_u a))))));
  reg_ms "i.to_f64"
    (one (fun a -> out (fun r -> ok (res_f r)) (Prim.ito_f64 p (arg_i a))))
    (one (fun a -> ok (res_f (SpecPrim.spec_ito_float f53 f11 (Base.ival (arg_i a))))));
  reg_ms "i.to_f32"
    (one (fun a -> out (fun r -> ok (res_g r)) (Prim.ito_f32 p (arg_i a))))
    (one (fun a -> ok (res_g (SpecPrim.spec_ito_float f24 f8 (Base.ival (arg_i a))))));
  (* ---- float -> big *)
  reg_ms "u.from_f64"
    (one (fun a -> out r_u_opt (Prim.ufrom_f64 (arg_f a))))
    (one (fun a -> s_u_opt (SpecPrim.spec_ufrom_float f53 f11 (arg_f a))));
  reg_ms "u.from_f32"
    (one (fun a -> out r_u_opt (Prim.ufrom_f32 (arg_g a))))
    (one (fun a -> s_u_opt (SpecPrim.spec_ufrom_float f24 f8 (arg_g a))));
  reg_ms "i.from_f64"
    (one (fun a -> out r_i_opt (Prim.ifrom_f64 (arg_f a))))
    (one (fun a -> s_i_opt (SpecPrim.spec_ifrom_float f53 f11 (arg_f a))));
  reg_ms "i.from_f32"
    (one (fun a -> out r_i_opt (Prim.ifrom_f32 (arg_g a))))
    (one (fun a -> s_i_opt (SpecPrim.spec_ifrom_float f24 f8 (arg_g a))));
  (* ---- hook level *)
  reg_m "h.high_bits_to_u64"
    (one (fun a -> out (fun r -> ok (res_n r)) (Prim.high_bits_to_u64 p (arg_d a))))
