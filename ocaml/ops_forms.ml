(* ops_forms.ml — C10 operations.
   spec line  : `ok n:<number of rows of Extracted.forms for this operator and operand types>`
   model line : `ok n:<number of those rows whose eval_form agrees with the Z-level ref-ref
                 semantics>` (or `err t:<first row that disagrees>`), with the leaf models of
                 FormsLeaves.v instantiated by the Z-level unsigned operations.
   forms.list : the names of all rows, derived from the rows' fields. *)
open Io
module F = Forms

let sty_name = function
  | F.Tu8 -> "u8" | F.Tu16 -> "u16" | F.Tu32 -> "u32" | F.Tu64 -> "u64" | F.Tu128 -> "u128" | F.Tusize -> "usize"
  | F.Ti8 -> "i8" | F.Ti16 -> "i16" | F.Ti32 -> "i32" | F.Ti64 -> "i64" | F.Ti128 -> "i128" | F.Tisize -> "isize"
let sty_of_name = function
  | "u8" -> F.Tu8 | "u16" -> F.Tu16 | "u32" -> F.Tu32 | "u64" -> F.Tu64 | "u128" -> F.Tu128 | "usize" -> F.Tusize
  | "i8" -> F.Ti8 | "i16" -> F.Ti16 | "i32" -> F.Ti32 | "i64" -> F.Ti64 | "i128" -> F.Ti128 | "isize" -> F.Tisize
  | s -> failwith ("scalar type " ^ s)
let big_name = function F.FamU -> "BigUint" | F.FamI -> "BigInt"
let op_name = function
  | F.OpAdd -> "Add" | F.OpSub -> "Sub" | F.OpMul -> "Mul" | F.OpDiv -> "Div" | F.OpRem -> "Rem"
  | F.OpBitAnd -> "BitAnd" | F.OpBitOr -> "BitOr" | F.OpBitXor -> "BitXor" | F.OpShl -> "Shl" | F.OpShr -> "Shr"
  | F.OpPow -> "Pow"
let kind_name (k : F.okind) =
  (if k.F.k_ref then "r" else "") ^ (match k.F.k_ty with F.OBig b -> big_name b | F.OSc s -> sty_name s)
let form_name (f : F.form) : string =
  match f.F.f_role with
  | F.RBinop -> op_name f.F.f_op ^ "." ^ kind_name f.F.f_lhs ^ "." ^ kind_name f.F.f_rhs
  | F.RAssign -> op_name f.F.f_op ^ "Assign." ^ kind_name f.F.f_lhs ^ "." ^ kind_name f.F.f_rhs
  | F.RChecked -> "Checked" ^ op_name f.F.f_op ^ "." ^ big_name (F.fam f) ^ ".-"
  | F.RFold -> (match f.F.f_op with F.OpAdd -> "Sum" | F.OpMul -> "Product" | o -> "Fold" ^ op_name o)
               ^ "." ^ kind_name f.F.f_lhs ^ ".T"

let tbl = Extracted.forms
let leaf = FormsLeaves.leaf_z
let leafc = FormsLeaves.leafc_z
let op_of = function
  | "add" -> F.OpAdd | "sub" -> F.OpSub | "mul" -> F.OpMul | "div" -> F.OpDiv | "rem" -> F.OpRem
  | "and" -> F.OpBitAnd | "or" -> F.OpBitOr | "xor" -> F.OpBitXor | "shl" -> F.OpShl | "shr" -> F.OpShr
  | "pow" -> F.OpPow | s -> failwith ("op " ^ s)
let is_big s = Stdlib.String.length s > 1 && (s.[0] = 'u' || s.[0] = 'i') && s.[1] = ':'
let big_arg s : F.bigty * z =
  if s.[0] = 'u' then (F.FamU, Base.coq_val (arg_u s)) else (F.FamI, Base.ival (arg_i s))
let arith r = (r = F.RBinop || r = F.RAssign)
let same_out (a : z Base.outcome) (b : z Base.outcome) =
  match a, b with
  | Base.Ret x, Base.Ret y -> Z.equal x y
  | Base.Panic _, Base.Panic _ -> true
  | _ -> false
let same_outc (a : z option Base.outcome) (b : z option Base.outcome) =
  match a, b with
  | Base.Ret (Some x), Base.Ret (Some y) -> Z.equal x y
  | Base.Ret None, Base.Ret None -> true
  | _ -> false

let count rows = Stdlib.Printf.sprintf "ok n:%d" (Stdlib.List.length rows)
(* run rows with both capacity-oracle answers *)
let model rows (agrees : (F.form -> z -> z -> bool) -> F.form -> bool) =
  match Stdlib.List.find_opt (fun f -> not (agrees (fun _ _ _ -> true) f && agrees (fun _ _ _ -> false) f)) rows with
  | None -> count rows
  | Some f -> "err t:" ^ form_name f

let handle (opn : string) (args : string list) : string * string option =
  match opn, args with
  | ("sum" | "product"), (a0 :: _) ->
      let (fm, _) = big_arg a0 in
      let o = if opn = "sum" then F.OpAdd else F.OpMul in
      let vals = Stdlib.List.map (fun a -> snd (big_arg a)) args in
      let lows = Stdlib.List.map (fun v -> Z.logand (Z.abs v) (Z.pred (Z.shift_left Z.one 64))) vals in
      let rows = Stdlib.List.filter (fun f -> f.F.f_role = F.RFold && f.F.f_op = o && f.F.f_lhs.F.k_ty = F.OBig fm) tbl in
      let expect l = Stdlib.List.fold_left (fun acc v -> match acc with Base.Ret a -> F.zsem fm o a v | e -> e)
                       (Base.Ret (if opn = "sum" then Z.zero else Z.one)) l in
      let agrees orc f =
        Stdlib.List.for_all (fun (kt, l) -> same_out (F.eval_fold leaf tbl orc f kt l) (expect l))
          [ (F.kb fm false, vals); (F.kb fm true, vals); (F.ks F.Tu64 false, lows); (F.ks F.Tu64 true, lows) ] in
      (model rows agrees, Some (count rows))
  | "checked", [a; b] ->
      let (fm, x) = big_arg a and (_, y) = big_arg b in
      let rows = Stdlib.List.filter (fun f -> f.F.f_role = F.RChecked && F.fam f = fm) tbl in
      let agrees orc f = same_outc (F.eval_checked leaf tbl orc leafc f x y) (F.checked_of (F.zsem fm f.F.f_op x y)) in
      (model rows agrees, Some (count rows))
  | _, [a; b] ->
      let o = op_of opn in
      let (fm, bv) = big_arg a in
      let (sel, sv) =
        if is_big b then (let (fm2, v2) = big_arg b in (FormsLeaves.sel_big fm fm2 o, v2))
        else (let (ty, v) = arg_s b in (FormsLeaves.sel_scalar fm o (sty_of_name ty), v)) in
      let (n, good) = FormsLeaves.run_sel tbl sel bv sv in
      let m =
        if Z.equal n good then "ok n:" ^ dec_of_z n
        else (match Stdlib.List.find_opt (fun f -> sel f && not (FormsLeaves.agree tbl bv sv f)) tbl with
              | Some f -> "err t:" ^ form_name f | None -> "err") in
      (m, Some ("ok n:" ^ dec_of_z n))
  | _ -> failwith "arity"

let init () =
  let open Registry in
  reg_m "forms.list" (fun _ ->
    "ok t:" ^ Stdlib.String.concat "+" (Stdlib.List.sort_uniq Stdlib.compare (Stdlib.List.map form_name tbl)));
  Stdlib.List.iter (fun o -> reg ("f." ^ o) (handle o))
    ["add"; "sub"; "mul"; "div"; "rem"; "and"; "or"; "xor"; "shl"; "shr"; "pow"; "checked"; "sum"; "product"]
