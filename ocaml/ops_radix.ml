(* ops_radix.ml — C06 operations: model (Radix.v, RadixText.v via RadixApi.v) and spec
   (SpecRadix.v).  Text travels as `t:` tokens (bytes), digit vectors as `b:` tokens. *)
open Io
let p = Extracted.radix
let v = Base.coq_val
let two f = function [a; b] -> f a b | _ -> failwith "arity"
let three f = function [a; b; c] -> f a b c | _ -> failwith "arity"

let bytes_of_string (s : string) : z list =
  Stdlib.List.init (Stdlib.String.length s) (fun i -> Z.of_int (Stdlib.Char.code s.[i]))
let string_of_bytes (l : z list) : string =
  let b = Stdlib.Buffer.create 16 in
  Stdlib.List.iter (fun x -> Stdlib.Buffer.add_char b (Stdlib.Char.chr ((Z.to_int x) land 255))) l;
  Stdlib.Buffer.contents b
let arg_text s = bytes_of_string (arg_t s)
let res_text l = res_t (string_of_bytes l)
let arg_sign s = match s with "z:-1" -> Base.Minus | "z:0" -> Base.NoSign | "z:1" -> Base.Plus
                            | _ -> failwith "sign"

let parse_res f = function
  | RadixText.POk a -> ok (f a)
  | RadixText.PErr RadixText.PEmpty -> "err:empty"
  | RadixText.PErr RadixText.PInvalid -> "err:invalid"

(* format spec token: t:<kind>.<flags>.<width>.<fill code>.<align>
   kind d|b|o|x|X ; flags subset of "paz" or "-" ; align l|c|r|n *)
let arg_fmt s : RadixText.fmt_kind * RadixText.fmt_flags =
  match Stdlib.String.split_on_char '.' (arg_t s) with
  | [k; fl; w; fill; al] ->
      let kind = match k with
        | "d" -> RadixText.FDisplay | "b" -> RadixText.FBinary | "o" -> RadixText.FOctal
        | "x" -> RadixText.FLowerHex | "X" -> RadixText.FUpperHex | _ -> failwith "kind" in
      let has c = Stdlib.String.contains fl c in
      let align = match al with
        | "l" -> Some RadixText.ALeft | "c" -> Some RadixText.ACenter | "r" -> Some RadixText.ARight
        | "n" -> None | _ -> failwith "align" in
      (kind, { RadixText.ff_plus = has 'p'; ff_alt = has 'a'; ff_zero = has 'z';
               ff_width = z_of_dec w; ff_fill = z_of_dec fill; ff_align = align })
  | _ -> failwith "fmt spec"

let init () =
  let open Registry in
  (* ---- digit vectors ---- *)
  reg_ms "u.to_radix_le"
    (two (fun a r -> out (fun x -> ok (res_b x)) (RadixApi.u_to_radix_le p (arg_u a) (arg_n r))))
    (two (fun a r -> ok (res_b (SpecRadix.spec_to_radix_le (v (arg_u a)) (arg_n r)))));
  reg_ms "u.to_radix_be"
    (two (fun a r -> out (fun x -> ok (res_b x)) (RadixApi.u_to_radix_be p (arg_u a) (arg_n r))))
    (two (fun a r -> ok (res_b (SpecRadix.spec_to_radix_be (v (arg_u a)) (arg_n r)))));
  let sgn_digits (s, x) = ok2 (res_sign s) (res_b x) in
  reg_ms "i.to_radix_le"
    (two (fun a r -> out sgn_digits (RadixApi.i_to_radix_le p (arg_i a) (arg_n r))))
    (two (fun a r -> let z = Base.ival (arg_i a) in
                     sgn_digits (Base.z_sign z, SpecRadix.spec_to_radix_le (Z.abs z) (arg_n r))));
  reg_ms "i.to_radix_be"
    (two (fun a r -> out sgn_digits (RadixApi.i_to_radix_be p (arg_i a) (arg_n r))))
    (two (fun a r -> let z = Base.ival (arg_i a) in
                     sgn_digits (Base.z_sign z, SpecRadix.spec_to_radix_be (Z.abs z) (arg_n r))));
  reg_ms "u.from_radix_le"
    (two (fun b r -> out (opt (fun x -> ok (res_u x))) (RadixApi.u_from_radix_le p (arg_b b) (arg_n r))))
    (two (fun b r -> out (opt (fun x -> ok (res_u (Base.enc x)))) (SpecRadix.spec_from_radix_le (arg_b b) (arg_n r))));
  reg_ms "u.from_radix_be"
    (two (fun b r -> out (opt (fun x -> ok (res_u x))) (RadixApi.u_from_radix_be p (arg_b b) (arg_n r))))
    (two (fun b r -> out (opt (fun x -> ok (res_u (Base.enc x)))) (SpecRadix.spec_from_radix_be (arg_b b) (arg_n r))));
  reg_ms "i.from_radix_le"
    (three (fun s b r -> out (opt (fun x -> ok (res_i x))) (RadixApi.i_from_radix_le p (arg_sign s) (arg_b b) (arg_n r))))
    (three (fun s b r -> out (opt (fun x -> ok (res_i (Base.ienc x)))) (SpecRadix.spec_ifrom_radix_le (arg_sign s) (arg_b b) (arg_n r))));
  reg_ms "i.from_radix_be"
    (three (fun s b r -> out (opt (fun x -> ok (res_i x))) (RadixApi.i_from_radix_be p (arg_sign s) (arg_b b) (arg_n r))))
    (three (fun s b r -> out (opt (fun x -> ok (res_i (Base.ienc x)))) (SpecRadix.spec_ifrom_radix_be (arg_sign s) (arg_b b) (arg_n r))));
  (* ---- text ---- *)
  reg_ms "u.to_str"
    (two (fun a r -> out (fun x -> ok (res_text x)) (RadixApi.u_to_str_radix p (arg_u a) (arg_n r))))
    (two (fun a r -> out (fun x -> ok (res_text x)) (SpecRadix.spec_to_str (v (arg_u a)) (arg_n r))));
  reg_ms "i.to_str"
    (two (fun a r -> out (fun x -> ok (res_text x)) (RadixApi.i_to_str_radix p (arg_i a) (arg_n r))))
    (two (fun a r -> out (fun x -> ok (res_text x)) (SpecRadix.spec_to_str (Base.ival (arg_i a)) (arg_n r))));
  reg_ms "u.from_str_radix"
    (two (fun t r -> out (parse_res res_u) (RadixApi.u_from_str_radix p (arg_text t) (arg_n r))))
    (two (fun t r -> out (parse_res (fun x -> res_u (Base.enc x))) (SpecRadix.spec_from_str false (arg_text t) (arg_n r))));
  reg_ms "i.from_str_radix"
    (two (fun t r -> out (parse_res res_i) (RadixApi.i_from_str_radix p (arg_text t) (arg_n r))))
    (two (fun t r -> out (parse_res (fun x -> res_i (Base.ienc x))) (SpecRadix.spec_from_str true (arg_text t) (arg_n r))));
  reg_ms "u.from_str"
    (function [t] -> out (parse_res res_u) (RadixApi.u_from_str p (arg_text t)) | _ -> failwith "arity")
    (function [t] -> out (parse_res (fun x -> res_u (Base.enc x))) (SpecRadix.spec_from_str false (arg_text t) (Z.of_int 10)) | _ -> failwith "arity");
  reg_ms "i.from_str"
    (function [t] -> out (parse_res res_i) (RadixApi.i_from_str p (arg_text t)) | _ -> failwith "arity")
    (function [t] -> out (parse_res (fun x -> res_i (Base.ienc x))) (SpecRadix.spec_from_str true (arg_text t) (Z.of_int 10)) | _ -> failwith "arity");
  reg_ms "u.parse_bytes"
    (two (fun b r -> out (opt (fun x -> ok (res_u x))) (RadixApi.u_parse_bytes p (arg_b b) (arg_n r))))
    (two (fun b r -> out (opt (fun x -> ok (res_u (Base.enc x)))) (SpecRadix.spec_parse_bytes false (arg_b b) (arg_n r))));
  reg_ms "i.parse_bytes"
    (two (fun b r -> out (opt (fun x -> ok (res_i x))) (RadixApi.i_parse_bytes p (arg_b b) (arg_n r))))
    (two (fun b r -> out (opt (fun x -> ok (res_i (Base.ienc x)))) (SpecRadix.spec_parse_bytes true (arg_b b) (arg_n r))));
  (* ---- formatters ---- *)
  reg_ms "u.fmt"
    (two (fun f a -> let (k, fl) = arg_fmt f in
                     out (fun x -> ok (res_text x)) (RadixApi.u_fmt p k fl (arg_u a))))
    (two (fun f a -> let (k, fl) = arg_fmt f in
                     out (fun x -> ok (res_text x)) (SpecRadix.spec_fmt k fl (v (arg_u a)))));
  reg_ms "i.fmt"
    (two (fun f a -> let (k, fl) = arg_fmt f in
                     out (fun x -> ok (res_text x)) (RadixApi.i_fmt p k fl (arg_i a))))
    (two (fun f a -> let (k, fl) = arg_fmt f in
                     out (fun x -> ok (res_text x)) (SpecRadix.spec_fmt k fl (Base.ival (arg_i a)))));
  (* ---- round trips ---- *)
  reg_ms "u.rt_str"
    (two (fun a r -> out (parse_res res_u) (RadixApi.u_rt_str p (arg_u a) (arg_n r))))
    (two (fun a r -> ok (res_u (Base.enc (v (arg_u a))))));
  reg_ms "i.rt_str"
    (two (fun a r -> out (parse_res res_i) (RadixApi.i_rt_str p (arg_i a) (arg_n r))))
    (two (fun a r -> ok (res_i (Base.ienc (Base.ival (arg_i a))))));
  reg_ms "u.rt_radix_le"
    (two (fun a r -> out (opt (fun x -> ok (res_u x))) (RadixApi.u_rt_radix_le p (arg_u a) (arg_n r))))
    (two (fun a r -> ok (res_u (Base.enc (v (arg_u a))))));
  reg_ms "u.rt_radix_be"
    (two (fun a r -> out (opt (fun x -> ok (res_u x))) (RadixApi.u_rt_radix_be p (arg_u a) (arg_n r))))
    (two (fun a r -> ok (res_u (Base.enc (v (arg_u a))))));
  (* ---- hook level ---- *)
  reg_m "h.to_radix_digits_le"
    (two (fun a r -> out (fun x -> ok (res_b x)) (RadixApi.u_to_radix_digits_le p (arg_u a) (arg_n r))));
  reg_m "h.from_radix_digits_be"
    (two (fun b r -> out (fun x -> ok (res_u x)) (RadixApi.u_from_radix_digits_be p (arg_b b) (arg_n r))));
  reg_m "h.get_radix_base"
    (function [r] -> out (fun (b, pw) -> ok2 (res_n b) (res_n pw)) (Radix.get_radix_base p (arg_n r))
            | _ -> failwith "arity")
