(* ops_extra.ml — operations added by the API audit (docs/API_COVERAGE.md); the Rust side is
   harness/src/ops_extra.rs.  Models: ExtraOrd.v, ExtraText.v, ExtraHist.v (+ the owning areas'
   models, called directly for one-line forwards); specs: SpecExtra.v and the owning areas' specs.
   `u:` / `i:` operands are built by the harness through biguint_from_vec / from_biguint, so the
   driver normalises them the same way (arg_uc / arg_ic). *)
open Io
let v = Base.coq_val
let one f = function [a] -> f a | _ -> failwith "arity"
let two f = function [a; b] -> f a b | _ -> failwith "arity"
let arg_ic s = let r = arg_i s in Base.from_biguint r.Base.sg (Base.strip r.Base.mag)
let arg_uc s = Base.strip (arg_u s)
let arg_z s : Base.sign =
  match strip_prefix "z:" s with
  | "-1" -> Base.Minus | "0" -> Base.NoSign | "1" -> Base.Plus | _ -> failwith "bad sign"
let b2s b = if b then "n:1" else "n:0"
let bytes_of_string (s : string) : z list =
  Stdlib.List.init (Stdlib.String.length s) (fun i -> Z.of_int (Stdlib.Char.code s.[i]))
let string_of_bytes (l : z list) : string =
  let b = Stdlib.Buffer.create 16 in
  Stdlib.List.iter (fun x -> Stdlib.Buffer.add_char b (Stdlib.Char.chr ((Z.to_int x) land 255))) l;
  Stdlib.Buffer.contents b
let res_text l = res_t (string_of_bytes l)
let pcmp = function None -> "none" | Some c -> res_cmp c
let line l = "ok " ^ Stdlib.String.concat " " l

(* lazily forward to an op registered by another ops_*.ml (initialisation order is alphabetical) *)
let alias name target =
  Registry.reg name (fun args ->
    match Stdlib.Hashtbl.find_opt Registry.table target with
    | Some h -> h args
    | None -> ("unsupported", None))

(* ---- C04 comparison layer ---- *)
let ord_line (o : ExtraOrd.ord_obs) ne =
  line [pcmp o.ExtraOrd.oo_pcmp; b2s o.ExtraOrd.oo_lt; b2s o.ExtraOrd.oo_le; b2s o.ExtraOrd.oo_gt; b2s o.ExtraOrd.oo_ge; b2s ne]
let both (a : 'a Base.outcome) (b : 'b Base.outcome) (f : 'a -> 'b -> string) : string =
  match a, b with
  | Base.Ret x, Base.Ret y -> f x y
  | Base.Ret _, e -> out (fun _ -> "") e
  | e, _ -> out (fun _ -> "") e

(* ---- C04 extended histories ---- *)
let ptype_of = Ops_prim.ptype_of
let parse_xctor (kind : string) (s : string) : ExtraHist.xctor =
  let (name, rest) = Ops_hist.cut s in
  let pct t = bytes_of_string (arg_t ("t:" ^ t)) in
  let hexb = Ops_hist.hexbytes in
  match name, kind with
  | "str", "u" -> let (r, t) = Ops_hist.cut rest in ExtraHist.XUStr (pct t, z_of_dec r)
  | "str", _ -> let (r, t) = Ops_hist.cut rest in ExtraHist.XIStr (pct t, z_of_dec r)
  | "pb", "u" -> let (r, b) = Ops_hist.cut rest in ExtraHist.XUParse (hexb b, z_of_dec r)
  | "pb", _ -> let (r, b) = Ops_hist.cut rest in ExtraHist.XIParse (hexb b, z_of_dec r)
  | "prim", "u" -> let (ty, x) = Ops_hist.cut rest in ExtraHist.XUPrim (ptype_of ty, z_of_dec x)
  | "prim", _ -> let (ty, x) = Ops_hist.cut rest in ExtraHist.XIPrim (ptype_of ty, z_of_dec x)
  | "arb", "u" -> ExtraHist.XUArb (hexb rest)
  | "arb", _ -> ExtraHist.XIArb (hexb rest)
  | "arbrest", "u" -> ExtraHist.XUArbRest (hexb rest)
  | "arbrest", _ -> ExtraHist.XIArbRest (hexb rest)
  | _ -> ExtraHist.XC (Ops_hist.parse_ctor kind s)
let parse_xop (s : string) : ExtraHist.xop =
  let (name, rest) = Ops_hist.cut s in
  let sc k = let (ty, x) = Ops_hist.cut rest in ExtraHist.XIScalar (k, ptype_of ty, z_of_dec x) in
  match name with
  | "addp" -> sc ExtraHist.SAdd
  | "subp" -> sc ExtraHist.SSub
  | "mulp" -> sc ExtraHist.SMul
  | "divp" -> sc ExtraHist.SDiv
  | "remp" -> sc ExtraHist.SRem
  | _ -> ExtraHist.XO (Ops_hist.parse_op s)
let parse_xops (s : string) : ExtraHist.xop list =
  Stdlib.List.map parse_xop (split_on ';' (strip_prefix "h:" s))

let hint (lo, hi) = res_n lo ^ " " ^ (if Z.lt hi Z.zero then "none" else res_n hi)

let init () =
  let open Registry in
  let ap = Extracted.addsub in
  (* ---- C01 ---- *)
  reg_ms "i.checked_add"
    (two (fun a b -> out (opt (fun r -> ok (res_i r))) (ExtraOrd.ichecked_add ap (arg_ic a) (arg_ic b))))
    (two (fun a b -> out (fun r -> ok (res_i (Base.ienc r))) (SpecAddSub.spec_iadd (Base.ival (arg_ic a)) (Base.ival (arg_ic b)))));
  reg_ms "i.checked_sub"
    (two (fun a b -> out (opt (fun r -> ok (res_i r))) (ExtraOrd.ichecked_sub ap (arg_ic a) (arg_ic b))))
    (two (fun a b -> out (fun r -> ok (res_i (Base.ienc r))) (SpecAddSub.spec_isub (Base.ival (arg_ic a)) (Base.ival (arg_ic b)))));
  (* ---- C04 ---- *)
  let spec_ord x y = ord_line (SpecExtra.spec_ord x y) (not (Z.equal x y)) in
  reg_ms "ord.u"
    (two (fun a b -> let (x, y) = (arg_uc a, arg_uc b) in both (ExtraOrd.uord x y) (ExtraHist.une x y) ord_line))
    (two (fun a b -> spec_ord (v (arg_uc a)) (v (arg_uc b))));
  reg_ms "ord.i"
    (two (fun a b -> let (x, y) = (arg_ic a, arg_ic b) in both (ExtraOrd.iord Extracted.signs x y) (ExtraHist.ine x y) ord_line))
    (two (fun a b -> spec_ord (Base.ival (arg_ic a)) (Base.ival (arg_ic b))));
  let sort_spec enc vals = line (Stdlib.List.map enc (Stdlib.List.sort Z.compare vals)) in
  reg_ms "sort.u"
    (fun args -> out (fun l -> line (Stdlib.List.map Ops_hist.res_obj l)) (Hist.osort Extracted.signs (Stdlib.List.map (fun a -> Hist.OU (arg_uc a)) args)))
    (fun args -> sort_spec (fun x -> res_u (Base.enc x)) (Stdlib.List.map (fun a -> v (arg_uc a)) args));
  reg_ms "sort.i"
    (fun args -> out (fun l -> line (Stdlib.List.map Ops_hist.res_obj l)) (Hist.osort Extracted.signs (Stdlib.List.map (fun a -> Hist.OI (arg_ic a)) args)))
    (fun args -> sort_spec (fun x -> res_i (Base.ienc x)) (Stdlib.List.map (fun a -> Base.ival (arg_ic a)) args));
  (* the hashed word stream as a function of the integer (HistProofs.hash_stream_spec) *)
  let zl l = Z.of_int (Stdlib.List.length l) in
  reg_ms "hash.u"
    (one (fun a -> out (fun w -> ok (res_d w)) (Hist.hash_stream (Hist.OU (arg_uc a)))))
    (one (fun a -> let d = Base.enc (v (arg_uc a)) in ok (res_d (zl d :: d))));
  reg_ms "hash.i"
    (one (fun a -> out (fun w -> ok (res_d w)) (Hist.hash_stream (Hist.OI (arg_ic a)))))
    (one (fun a -> let x = Base.ival (arg_ic a) in
                   let d = Base.enc (Z.abs x) in
                   ok (res_d (if Z.equal x Z.zero then [Z.one]
                              else (if Z.lt x Z.zero then Z.zero else Z.of_int 2) :: zl d :: d))));
  let model_histx kind = function
    | [c; h] -> line (Stdlib.List.map (Ops_hist.obs Ops_hist.res_obj)
                        (ExtraHist.xhistory_trace Ops_hist.p (parse_xctor kind c) (parse_xops h)))
    | _ -> failwith "arity" in
  let spec_histx kind = function
    | [c; h] -> let (k, tr) = SpecExtra.sxhistory_trace (parse_xctor kind c) (parse_xops h) in
                line (Stdlib.List.map (Ops_hist.obs (Ops_hist.enc_obj k)) tr)
    | _ -> failwith "arity" in
  reg_ms "histx.u" (model_histx "u") (spec_histx "u");
  reg_ms "histx.i" (model_histx "i") (spec_histx "i");
  (* two extended histories, then the observations of hist.pair (same rendering as Ops_hist.model_pair) *)
  let model_xpair = function
    | [kind; ca; ha; cb; hb] ->
      (match ExtraHist.xhistory Ops_hist.p (parse_xctor kind ca) (parse_xops ha),
             ExtraHist.xhistory Ops_hist.p (parse_xctor kind cb) (parse_xops hb) with
       | Base.Ret a, Base.Ret b ->
         (match Hist.observe_pair Ops_hist.p a b with
          | Base.Ret o ->
            line ([b2s o.Hist.po_eq; res_cmp o.Hist.po_cmp; b2s o.Hist.po_hash]
                  @ Stdlib.List.map b2s o.Hist.po_exports
                  @ [b2s o.Hist.po_max; b2s o.Hist.po_min; b2s o.Hist.po_nosign_a; b2s o.Hist.po_nosign_b;
                     Ops_hist.res_obj a; Ops_hist.res_obj b])
          | e -> Ops_hist.obs (fun _ -> "") e)
       | (Base.Ret _, e) | (e, _) -> Ops_hist.obs (fun _ -> "") e)
    | _ -> failwith "arity" in
  let spec_xpair = function
    | [kind; ca; ha; cb; hb] ->
      let (k, ra) = SpecExtra.sxhistory (parse_xctor kind ca) (parse_xops ha) in
      let (_, rb) = SpecExtra.sxhistory (parse_xctor kind cb) (parse_xops hb) in
      (match ra, rb with
       | Base.Ret a, Base.Ret b ->
         let o = SpecHist.sobserve_pair a b in
         let same = b2s o.SpecHist.spo_same in
         line ([b2s o.SpecHist.spo_eq; res_cmp o.SpecHist.spo_cmp; same]
               @ Stdlib.List.map b2s (SpecHist.sexports_eq k a b)
               @ [b2s o.SpecHist.spo_max; b2s o.SpecHist.spo_min; "n:1"; "n:1"; Ops_hist.enc_obj k a; Ops_hist.enc_obj k b])
       | (Base.Ret _, e) | (e, _) -> Ops_hist.obs (fun _ -> "") e)
    | _ -> failwith "arity" in
  reg_ms "histx.pair" model_xpair spec_xpair;
  (* arbitrary::Arbitrary: value and number of bytes left *)
  reg_ms "arb.u"
    (one (fun b -> let (x, r) = ExtraHist.arb_biguint (arg_b b) in ok2 (res_u x) (res_n (zl r))))
    (one (fun b -> let bs = arg_b b in
                   let (_, r) = ExtraHist.arb_biguint bs in
                   ok2 (res_u (Base.enc (SpecExtra.arb_val bs))) (res_n (zl r))));
  let spec_arb_i bs =
    let (pos, r) = ExtraHist.arb_bool bs in
    Z.mul (if pos then Z.one else Z.minus_one) (SpecExtra.arb_val r) in
  reg_ms "arb.i"
    (one (fun b -> let (x, r) = ExtraHist.arb_bigint (arg_b b) in ok2 (res_i x) (res_n (zl r))))
    (one (fun b -> let bs = arg_b b in
                   let (_, r) = ExtraHist.arb_bigint bs in
                   ok2 (res_i (Base.ienc (spec_arb_i bs))) (res_n (zl r))));
  reg_ms "arb.u_rest"
    (one (fun b -> ok (res_u (fst (ExtraHist.arb_biguint (arg_b b))))))
    (one (fun b -> ok (res_u (Base.enc (SpecExtra.arb_val (arg_b b))))));
  reg_ms "arb.i_rest"
    (one (fun b -> ok (res_i (fst (ExtraHist.arb_bigint (arg_b b))))))
    (one (fun b -> ok (res_i (Base.ienc (spec_arb_i (arg_b b))))));
  reg_m "arb.hint"
    (fun _ -> "ok " ^ hint ExtraHist.arb_size_hint_u ^ " " ^ hint ExtraHist.arb_size_hint_i);
  (* quickcheck::Arbitrary: the harness checks that every generated value and every shrink candidate is
     canonical (what C04_construct_spec states of biguint_from_vec / from_biguint on ANY vector); both
     lines are the constant "all of them were" *)
  reg_ms "qc.u" (function [_; _; n] -> ok (res_n (arg_n n)) | _ -> failwith "arity")
                (function [_; _; n] -> ok (res_n (arg_n n)) | _ -> failwith "arity");
  reg_ms "qc.i" (function [_; _; n] -> ok (res_n (arg_n n)) | _ -> failwith "arity")
                (function [_; _; n] -> ok (res_n (arg_n n)) | _ -> failwith "arity");
  reg_ms "qc.shrink_u" (fun _ -> "ok n:1") (fun _ -> "ok n:1");
  reg_ms "qc.shrink_i" (fun _ -> "ok n:1") (fun _ -> "ok n:1");
  (* ---- C06 ---- *)
  let rp = Extracted.radix in
  reg_ms "u.fmt_debug"
    (two (fun f a -> let (_, fl) = Ops_radix.arg_fmt f in
                     out (fun x -> ok (res_text x)) (ExtraText.u_fmt_debug rp fl (arg_uc a))))
    (two (fun f a -> let (_, fl) = Ops_radix.arg_fmt f in
                     out (fun x -> ok (res_text x)) (SpecRadix.spec_fmt RadixText.FDisplay fl (v (arg_uc a)))));
  reg_ms "i.fmt_debug"
    (two (fun f a -> let (_, fl) = Ops_radix.arg_fmt f in
                     out (fun x -> ok (res_text x)) (ExtraText.i_fmt_debug rp fl (arg_ic a))))
    (two (fun f a -> let (_, fl) = Ops_radix.arg_fmt f in
                     out (fun x -> ok (res_text x)) (SpecRadix.spec_fmt RadixText.FDisplay fl (Base.ival (arg_ic a)))));
  (* `#[derive(Debug)] struct ParseBigIntError { kind }` over the private two-variant enum *)
  let err_line msg =
    let m = string_of_bytes msg in
    let variant = if m = string_of_bytes (ExtraText.parse_err_text RadixText.PEmpty) then "Empty" else "InvalidDigit" in
    line [res_t m; "n:1"; res_t ("ParseBigIntError { kind: " ^ variant ^ " }"); "n:1"; "n:1"] in
  let err_opt = function None -> "none" | Some msg -> err_line msg in
  let spec_err signed t r =
    out (fun x -> err_opt (ExtraText.err_text_of x)) (SpecRadix.spec_from_str signed t r) in
  reg_ms "u.parse_err"
    (two (fun t r -> out err_opt (ExtraText.u_from_str_radix_err rp (bytes_of_string (arg_t t)) (arg_n r))))
    (two (fun t r -> spec_err false (bytes_of_string (arg_t t)) (arg_n r)));
  reg_ms "i.parse_err"
    (two (fun t r -> out err_opt (ExtraText.i_from_str_radix_err rp (bytes_of_string (arg_t t)) (arg_n r))))
    (two (fun t r -> spec_err true (bytes_of_string (arg_t t)) (arg_n r)));
  (* ---- C08 ---- *)
  let pp = Extracted.prim in
  let try_line = line [res_text ExtraText.try_from_err_text; "n:1"; "n:1"; "n:1"] in
  reg_ms "u.try_err"
    (one (fun a -> out (function Some _ -> "none" | None -> try_line) (Prim.utry_into pp Prim.U8 (arg_uc a))))
    (one (fun a -> match SpecPrim.spec_to_int false (Z.of_int 8) (v (arg_uc a)) with Some _ -> "none" | None -> try_line));
  reg_ms "i.try_err"
    (one (fun a -> out (function Some _ -> "none" | None -> try_line) (Prim.itry_into pp Prim.I8 (arg_ic a))))
    (one (fun a -> match SpecPrim.spec_to_int true (Z.of_int 8) (Base.ival (arg_ic a)) with Some _ -> "none" | None -> try_line));
  (* ---- C10: folds over the empty iterator ---- *)
  Stdlib.List.iter (fun (nm, o, init) ->
    reg nm (function
      | [t] ->
        let fm = if arg_t t = "u" then Forms.FamU else Forms.FamI in
        let tbl = Extracted.forms in
        let rows = Stdlib.List.filter (fun f -> f.Forms.f_role = Forms.RFold && f.Forms.f_op = o && f.Forms.f_lhs.Forms.k_ty = Forms.OBig fm) tbl in
        let agrees orc f =
          Stdlib.List.for_all (fun kt -> Ops_forms.same_out (Forms.eval_fold Ops_forms.leaf tbl orc f kt []) (Base.Ret init))
            [ Forms.kb fm false; Forms.kb fm true; Forms.ks Forms.Tu64 false; Forms.ks Forms.Tu64 true;
              Forms.ks Forms.Tu8 false; Forms.ks Forms.Tu128 true ] in
        (Ops_forms.model rows agrees, Some (Ops_forms.count rows))
      | _ -> failwith "arity"))
    [ ("f.sum0", Forms.OpAdd, Z.zero); ("f.product0", Forms.OpMul, Z.one) ];
  (* ---- C11: the inherent sqrt / cbrt / nth_root are one-line forwards to the Roots methods ---- *)
  Stdlib.List.iter (fun (n, t) -> alias n t)
    [ ("u.sqrt_inh", "u.sqrt"); ("u.cbrt_inh", "u.cbrt"); ("u.nth_root_inh", "u.nth_root");
      ("i.sqrt_inh", "i.sqrt"); ("i.cbrt_inh", "i.cbrt"); ("i.nth_root_inh", "i.nth_root") ];
  (* ---- C19: derives of Sign ---- *)
  let sz = Base.sign_z in
  reg_ms "sg.sign_eq"
    (two (fun a b -> let e = ExtraOrd.sign_eq (arg_z a) (arg_z b) in ok2 (b2s e) (b2s (not e))))
    (two (fun a b -> let e = Z.equal (sz (arg_z a)) (sz (arg_z b)) in ok2 (b2s e) (b2s (not e))));
  reg_ms "sg.sign_cmp"
    (two (fun a b -> let (x, y) = (arg_z a, arg_z b) in
                     let o = ExtraOrd.ord_of (ExtraOrd.sign_partial_cmp x y) in
                     line [res_cmp (Sign.sign_cmp x y); pcmp o.ExtraOrd.oo_pcmp; b2s o.ExtraOrd.oo_lt; b2s o.ExtraOrd.oo_le;
                           b2s o.ExtraOrd.oo_gt; b2s o.ExtraOrd.oo_ge]))
    (two (fun a b -> let (x, y) = (sz (arg_z a), sz (arg_z b)) in
                     let o = SpecExtra.spec_ord x y in
                     line [pcmp o.ExtraOrd.oo_pcmp; pcmp o.ExtraOrd.oo_pcmp; b2s o.ExtraOrd.oo_lt; b2s o.ExtraOrd.oo_le;
                           b2s o.ExtraOrd.oo_gt; b2s o.ExtraOrd.oo_ge]));
  reg_m "sg.sign_debug" (one (fun a -> ok (res_text (ExtraOrd.sign_debug (arg_z a)))));
  reg_m "sg.sign_hash" (one (fun a -> ok (res_d [Hist.sign_disc (arg_z a)])));
  reg_ms "sg.sign_copy" (one (fun a -> ok2 (res_sign (arg_z a)) (res_sign (arg_z a))))
                        (one (fun a -> ok2 (res_sign (arg_z a)) (res_sign (arg_z a))))
