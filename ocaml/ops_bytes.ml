(* ops_bytes.ml — C09 (bytes / digit vectors / iterators) and C17 (serde) operations:
   model (BitDigits.v, Bytes.v, Iter.v, Serde.v) and spec (SpecBytes.v).
   Extra token forms (no spaces inside a token):
     h:<script>   iterator call script, ';'-separated: next back len hint nth<k> last count
     h:<n>|h:none serde size hint
     w:<words>    u32 word list in a result (comma separated hex, like d:)
     l:<n>        a length observation (len / count / declared serde length)
     h:<lo>,<hi>  a size_hint observation (hi may be "none")
   iterator results: "ok" followed by one token per executed call. *)
open Io
let ip = Extracted.iter
let sp = Extracted.serde
let bp = Extracted.byteio
let v = Base.coq_val
let w32 = Zar.shift_left Zar.one 32
let b256 = Zar.of_int 256
let one f = function [a] -> f a | _ -> failwith "arity"
let two f = function [a; b] -> f a b | _ -> failwith "arity"
let three f = function [a; b; c] -> f a b c | _ -> failwith "arity"

(* arguments are normalised exactly like the harness does (mk_biguint / from_biguint) *)
let uarg s = Base.strip (arg_u s)
let iarg s = let x = arg_i s in Base.from_biguint x.Base.sg (Base.strip x.Base.mag)
let arg_z s = match strip_prefix "z:" s with
  | "-1" -> Base.Minus | "0" -> Base.NoSign | "1" -> Base.Plus | _ -> failwith "bad sign"
let arg_hint s = match strip_prefix "h:" s with "none" -> None | k -> Some (z_of_dec k)

let rec nat_of_int n = if n <= 0 then Datatypes.O else Datatypes.S (nat_of_int (n - 1))

let parse_script s : Iter.call list =
  let items = split_on ';' (strip_prefix "h:" s) in
  Stdlib.List.map (fun it ->
    match it with
    | "next" -> Iter.CNext | "back" -> Iter.CBack | "len" -> Iter.CLen | "hint" -> Iter.CHint
    | "last" -> Iter.CLast | "count" -> Iter.CCount
    | _ when Stdlib.String.length it > 3 && Stdlib.String.sub it 0 3 = "nth" ->
        Iter.CNth (nat_of_int (int_of_string (Stdlib.String.sub it 3 (Stdlib.String.length it - 3))))
    | _ -> failwith ("bad call " ^ it)) items

let render_obs (l : Iter.obs list) : string =
  let panic = Stdlib.List.fold_left (fun acc o ->
    match acc, o with None, Iter.OPanic k -> Some k | _ -> acc) None l in
  match panic with
  | Some k -> "panic:" ^ panic_name k
  | None ->
    let tok = function
      | Iter.OItem None -> "none"
      | Iter.OItem (Some x) -> "n:" ^ dec_of_z x
      | Iter.OLen n -> "l:" ^ dec_of_z n
      | Iter.OHint (lo, hi) -> "h:" ^ dec_of_z lo ^ "," ^ (match hi with None -> "none" | Some h -> dec_of_z h)
      | Iter.OPanic _ -> "panic" in
    Stdlib.String.concat " " ("ok" :: Stdlib.List.map tok l)

let res_w l = "w:" ^ string_of_digits l
let res_l n = "l:" ^ dec_of_z n
let uz f = fun r -> ok (res_u (f r))
let ienc = Base.ienc
let sign_pair (s, l) pr = ok2 (res_sign s) (pr l)
let zsign s = Base.sign_z s

let init () =
  let open Registry in
  (* ---- u32 words -> BigUint / BigInt *)
  let words_spec a = ok (res_u (Base.enc (SpecBytes.spec_from_words (arg_d a)))) in
  reg_ms "u.new" (one (fun a -> ok (res_u (Bytes.unew (arg_d a))))) (one words_spec);
  reg_ms "u.from_slice" (one (fun a -> ok (res_u (Bytes.ufrom_slice (arg_d a))))) (one words_spec);
  reg_ms "u.assign_from_slice"
    (two (fun s a -> ok (res_u (Bytes.uassign_from_slice (uarg s) (arg_d a)))))
    (two (fun _ a -> words_spec a));
  let iwords_spec z a =
    ok (res_i (ienc (Zar.mul (zsign (arg_z z)) (SpecBytes.spec_from_words (arg_d a))))) in
  reg_ms "i.new" (two (fun z a -> ok (res_i (Bytes.inew (arg_z z) (arg_d a))))) (two iwords_spec);
  reg_ms "i.from_slice" (two (fun z a -> ok (res_i (Bytes.ifrom_slice (arg_z z) (arg_d a))))) (two iwords_spec);
  reg_ms "i.assign_from_slice"
    (three (fun s z a -> ok (res_i (Bytes.iassign_from_slice (iarg s) (arg_z z) (arg_d a)))))
    (three (fun _ z a -> iwords_spec z a));
  (* ---- bytes *)
  let fle = one (fun a -> out (uz (fun r -> r)) (Bytes.ufrom_bytes_le bp (arg_b a))) in
  let fle_s = one (fun a -> ok (res_u (Base.enc (SpecBytes.spec_from_bytes_le (arg_b a))))) in
  let fbe = one (fun a -> out (uz (fun r -> r)) (Bytes.ufrom_bytes_be bp (arg_b a))) in
  let fbe_s = one (fun a -> ok (res_u (Base.enc (SpecBytes.spec_from_bytes_be (arg_b a))))) in
  reg_ms "u.from_bytes_le" fle fle_s; reg_ms "u.tr_from_le" fle fle_s;
  reg_ms "u.from_bytes_be" fbe fbe_s; reg_ms "u.tr_from_be" fbe fbe_s;
  let tle = one (fun a -> out (fun r -> ok (res_b r)) (Bytes.uto_bytes_le bp (uarg a))) in
  let tle_s = one (fun a -> ok (res_b (SpecBytes.spec_to_bytes_le (v (uarg a))))) in
  let tbe = one (fun a -> out (fun r -> ok (res_b r)) (Bytes.uto_bytes_be bp (uarg a))) in
  let tbe_s = one (fun a -> ok (res_b (SpecBytes.spec_to_bytes_be (v (uarg a))))) in
  reg_ms "u.to_bytes_le" tle tle_s; reg_ms "u.tr_to_le" tle tle_s;
  reg_ms "u.to_bytes_be" tbe tbe_s; reg_ms "u.tr_to_be" tbe tbe_s;
  reg_ms "u.to_u32_digits"
    (one (fun a -> out (fun r -> ok (res_d r)) (Bytes.uto_u32_digits ip (uarg a))))
    (one (fun a -> ok (res_d (SpecBytes.spec_to_u32_digits (v (uarg a))))));
  reg_ms "u.to_u64_digits"
    (one (fun a -> ok (res_d (Bytes.uto_u64_digits (uarg a)))))
    (one (fun a -> ok (res_d (SpecBytes.spec_to_u64_digits (v (uarg a))))));
  reg_ms "i.from_bytes_le"
    (two (fun z a -> out (fun r -> ok (res_i r)) (Bytes.ifrom_bytes_le bp (arg_z z) (arg_b a))))
    (two (fun z a -> ok (res_i (ienc (Zar.mul (zsign (arg_z z)) (SpecBytes.spec_from_bytes_le (arg_b a)))))));
  reg_ms "i.from_bytes_be"
    (two (fun z a -> out (fun r -> ok (res_i r)) (Bytes.ifrom_bytes_be bp (arg_z z) (arg_b a))))
    (two (fun z a -> ok (res_i (ienc (Zar.mul (zsign (arg_z z)) (SpecBytes.spec_from_bytes_be (arg_b a)))))));
  let isgn x = Base.z_sign (Base.ival x) in
  let iabs x = Zar.abs (Base.ival x) in
  reg_ms "i.to_bytes_le"
    (one (fun a -> out (fun p -> sign_pair p res_b) (Bytes.ito_bytes_le bp (iarg a))))
    (one (fun a -> let x = iarg a in sign_pair (isgn x, SpecBytes.spec_to_bytes_le (iabs x)) res_b));
  reg_ms "i.to_bytes_be"
    (one (fun a -> out (fun p -> sign_pair p res_b) (Bytes.ito_bytes_be bp (iarg a))))
    (one (fun a -> let x = iarg a in sign_pair (isgn x, SpecBytes.spec_to_bytes_be (iabs x)) res_b));
  reg_ms "i.to_u32_digits"
    (one (fun a -> out (fun p -> sign_pair p res_d) (Bytes.ito_u32_digits ip (iarg a))))
    (one (fun a -> let x = iarg a in sign_pair (isgn x, SpecBytes.spec_to_u32_digits (iabs x)) res_d));
  reg_ms "i.to_u64_digits"
    (one (fun a -> sign_pair (Bytes.ito_u64_digits (iarg a)) res_d))
    (one (fun a -> let x = iarg a in sign_pair (isgn x, SpecBytes.spec_to_u64_digits (iabs x)) res_d));
  (* ---- signed bytes *)
  let sfle = one (fun a -> out (fun r -> ok (res_i r)) (Bytes.from_signed_bytes_le bp (arg_b a))) in
  let sfle_s = one (fun a -> ok (res_i (ienc (SpecBytes.spec_from_signed_bytes_le (arg_b a))))) in
  let sfbe = one (fun a -> out (fun r -> ok (res_i r)) (Bytes.from_signed_bytes_be bp (arg_b a))) in
  let sfbe_s = one (fun a -> ok (res_i (ienc (SpecBytes.spec_from_signed_bytes_be (arg_b a))))) in
  reg_ms "i.from_signed_bytes_le" sfle sfle_s; reg_ms "i.tr_from_le" sfle sfle_s;
  reg_ms "i.from_signed_bytes_be" sfbe sfbe_s; reg_ms "i.tr_from_be" sfbe sfbe_s;
  let stle = one (fun a -> out (fun r -> ok (res_b r)) (Bytes.to_signed_bytes_le bp (iarg a))) in
  let stle_s = one (fun a -> ok (res_b (SpecBytes.spec_to_signed_bytes_le (Base.ival (iarg a))))) in
  let stbe = one (fun a -> out (fun r -> ok (res_b r)) (Bytes.to_signed_bytes_be bp (iarg a))) in
  let stbe_s = one (fun a -> ok (res_b (SpecBytes.spec_to_signed_bytes_be (Base.ival (iarg a))))) in
  reg_ms "i.to_signed_bytes_le" stle stle_s; reg_ms "i.tr_to_le" stle stle_s;
  reg_ms "i.to_signed_bytes_be" stbe stbe_s; reg_ms "i.tr_to_be" stbe stbe_s;
  (* ---- iterators *)
  reg_ms "u.iter32"
    (two (fun a s -> render_obs (Iter.it_run ip (parse_script s) (Iter.it_new ip (uarg a)))))
    (two (fun a s -> render_obs (SpecBytes.spec_iter32 (v (uarg a)) (parse_script s))));
  reg_ms "u.iter64"
    (two (fun a s -> render_obs (Iter.it64_run (parse_script s) (uarg a))))
    (two (fun a s -> render_obs (SpecBytes.spec_iter64 (v (uarg a)) (parse_script s))));
  reg_ms "i.iter32"
    (two (fun a s -> render_obs (Iter.it_run ip (parse_script s) (Iter.it_new ip (iarg a).Base.mag))))
    (two (fun a s -> render_obs (SpecBytes.spec_iter32 (iabs (iarg a)) (parse_script s))));
  reg_ms "i.iter64"
    (two (fun a s -> render_obs (Iter.it64_run (parse_script s) (iarg a).Base.mag)))
    (two (fun a s -> render_obs (SpecBytes.spec_iter64 (iabs (iarg a)) (parse_script s))));
  (* ---- hook level: the bit-regrouping routines for every width (model only) *)
  reg_m "h.bd_from"
    (two (fun a n -> out (fun r -> ok (res_u r)) (BitDigits.from_bitwise_digits_le (arg_b a) (arg_n n))));
  reg_m "h.bd_from_inexact"
    (two (fun a n -> out (fun r -> ok (res_u r)) (BitDigits.from_inexact_bitwise_digits_le (arg_b a) (arg_n n))));
  reg_m "h.bd_to"
    (two (fun a n -> out (fun r -> ok (res_b r)) (BitDigits.to_bitwise_digits_le (uarg a) (arg_n n))));
  reg_m "h.bd_to_inexact"
    (two (fun a n -> out (fun r -> ok (res_b r)) (BitDigits.to_inexact_bitwise_digits_le (uarg a) (arg_n n))));
  (* ---- serde (C17) *)
  let ser_line (l, ws) = res_l l ^ " " ^ res_w ws in
  reg_ms "u.ser"
    (one (fun a -> "ok " ^ ser_line (Serde.ser_biguint sp (uarg a))))
    (one (fun a -> "ok " ^ ser_line (SpecBytes.spec_ser (v (uarg a)))));
  reg_ms "i.ser"
    (one (fun a -> let (s, p) = Serde.ser_bigint sp (iarg a) in "ok " ^ res_s "i8" s ^ " " ^ ser_line p))
    (one (fun a -> let (s, p) = SpecBytes.spec_iser (Base.ival (iarg a)) in "ok " ^ res_s "i8" s ^ " " ^ ser_line p));
  let de_res pr = function None -> "err" | Some x -> ok (pr x) in
  reg_ms "u.de"
    (two (fun h a -> de_res res_u (Serde.de_biguint_tokens sp (arg_hint h) (arg_d a))))
    (two (fun _ a -> de_res (fun z -> res_u (Base.enc z)) (SpecBytes.spec_de (arg_d a))));
  reg_ms "i.de"
    (three (fun s h a -> de_res res_i (Serde.de_bigint sp (snd (arg_s s)) (arg_hint h) (arg_d a))))
    (three (fun s _ a -> de_res (fun z -> res_i (ienc z)) (SpecBytes.spec_ide (snd (arg_s s)) (arg_d a))));
  reg_ms "u.serde_rt"
    (one (fun a -> let (l, ws) = Serde.ser_biguint sp (uarg a) in
                   de_res res_u (Serde.de_biguint_tokens sp (Some l) ws)))
    (one (fun a -> ok (res_u (Base.enc (v (uarg a))))));
  reg_ms "i.serde_rt"
    (one (fun a -> let (s, (l, ws)) = Serde.ser_bigint sp (iarg a) in
                   de_res res_i (Serde.de_bigint sp s (Some l) ws)))
    (one (fun a -> ok (res_i (ienc (Base.ival (iarg a))))))
