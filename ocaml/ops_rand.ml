(* ops_rand.ml — C18 operations: model (Rand.v) and spec (SpecRand.v) over a scripted word
   stream `r:<hex32>,<hex32>,...`.  Results: `ok <value> n:<words consumed>`; a stream that ends
   before the operation completes is `err` on both sides (the harness RNG reports exhaustion). *)
open Io
let p = Extracted.addsub
let sp = Extracted.signs
let rp = Extracted.rand
let v = Base.coq_val
let arg_r s = digits_of_string (strip_prefix "r:" s)
let arg_ic s = let r = arg_i s in Base.from_biguint r.Base.sg (Base.strip r.Base.mag)
let arg_uc s = Base.strip (arg_u s)

(* render an outcome (value, remaining stream) *)
let outr (f : 'a -> string) (s : Big_int_Z.big_int list) (o : ('a * Big_int_Z.big_int list) Base.outcome) : string =
  match o with
  | Base.Ret (a, r) ->
      Stdlib.Printf.sprintf "ok %s n:%d" (f a) (Stdlib.List.length s - Stdlib.List.length r)
  | Base.Panic k -> "panic:" ^ panic_name k
  | Base.OutOfFuel -> "err"
let bindo o f = match o with Base.Ret a -> f a | Base.Panic k -> Base.Panic k | Base.OutOfFuel -> Base.OutOfFuel

let init () =
  let open Registry in
  let su z = res_u (Base.enc z) and si z = res_i (Base.ienc z) in
  let bits2 name m sp rs =
    reg_ms name
      (function [n; s] -> let s = arg_r s in outr rs s (m (arg_n n) s) | _ -> failwith "arity")
      (function [n; s] -> let s = arg_r s in outr (fun z -> z) s (sp (arg_n n) s) | _ -> failwith "arity") in
  bits2 "rnd.gen_biguint" (Rand.gen_biguint rp) (fun n s -> bindo (SpecRand.spec_gen_biguint n s) (fun (z, r) -> Base.Ret (su z, r))) res_u;
  bits2 "rnd.bits_u" (Rand.random_bits_u rp) (fun n s -> bindo (SpecRand.spec_gen_biguint n s) (fun (z, r) -> Base.Ret (su z, r))) res_u;
  bits2 "rnd.gen_bigint" (Rand.gen_bigint rp) (fun n s -> bindo (SpecRand.spec_gen_bigint n s) (fun (z, r) -> Base.Ret (si z, r))) res_i;
  bits2 "rnd.bits_i" (Rand.random_bits_i rp) (fun n s -> bindo (SpecRand.spec_gen_bigint n s) (fun (z, r) -> Base.Ret (si z, r))) res_i;
  reg_ms "rnd.below"
    (function [b; s] -> let s = arg_r s in outr res_u s (Rand.gen_biguint_below rp (arg_uc b) s) | _ -> failwith "arity")
    (function [b; s] -> let s = arg_r s in outr su s (SpecRand.spec_below (v (arg_uc b)) s) | _ -> failwith "arity");
  (* BigUint ranges *)
  let urange name m sp =
    reg_ms name
      (function [lo; hi; s] -> let s = arg_r s in outr res_u s (m (arg_uc lo) (arg_uc hi) s) | _ -> failwith "arity")
      (function [lo; hi; s] -> let s = arg_r s in outr su s (sp (v (arg_uc lo)) (v (arg_uc hi)) s) | _ -> failwith "arity") in
  urange "rnd.urange" (Rand.gen_biguint_range rp p) SpecRand.spec_range;
  urange "rnd.uu_single" (Rand.uu_sample_single rp p) SpecRand.spec_range;
  urange "rnd.u_gen_range" (Rand.uu_sample_single rp p) SpecRand.spec_range;
  urange "rnd.uu_new" (fun lo hi s -> bindo (Rand.uu_new rp p lo hi) (fun u -> Rand.uu_sample rp p u s)) SpecRand.spec_range;
  urange "rnd.uu_incl" (fun lo hi s -> bindo (Rand.uu_new_inclusive rp p lo hi) (fun u -> Rand.uu_sample rp p u s)) SpecRand.spec_range_inclusive;
  urange "rnd.u_gen_range_incl" (fun lo hi s -> bindo (Rand.uu_new_inclusive rp p lo hi) (fun u -> Rand.uu_sample rp p u s)) SpecRand.spec_range_inclusive;
  (* BigInt ranges *)
  let irange name m sp =
    reg_ms name
      (function [lo; hi; s] -> let s = arg_r s in outr res_i s (m (arg_ic lo) (arg_ic hi) s) | _ -> failwith "arity")
      (function [lo; hi; s] -> let s = arg_r s in outr si s (sp (Base.ival (arg_ic lo)) (Base.ival (arg_ic hi)) s) | _ -> failwith "arity") in
  irange "rnd.irange" (Rand.gen_bigint_range rp sp p) SpecRand.spec_range;
  irange "rnd.ui_single" (Rand.ui_sample_single rp sp p) SpecRand.spec_range;
  irange "rnd.i_gen_range" (Rand.ui_sample_single rp sp p) SpecRand.spec_range;
  irange "rnd.ui_new" (fun lo hi s -> bindo (Rand.ui_new rp sp p lo hi) (fun u -> Rand.ui_sample rp sp p u s)) SpecRand.spec_range;
  irange "rnd.ui_incl" (fun lo hi s -> bindo (Rand.ui_new_inclusive rp sp p lo hi) (fun u -> Rand.ui_sample rp sp p u s)) SpecRand.spec_range_inclusive;
  irange "rnd.i_gen_range_incl" (fun lo hi s -> bindo (Rand.ui_new_inclusive rp sp p lo hi) (fun u -> Rand.ui_sample rp sp p u s)) SpecRand.spec_range_inclusive;
  (* one sampler, two samples: the sampler is not consumed / mutated by sampling *)
  let twice sample render s u =
    bindo (sample u s) (fun (a, r) -> bindo (sample u r) (fun (b, r2) -> Base.Ret (render a ^ " " ^ render b, r2))) in
  let spec_twice sp render lo hi s =
    bindo (sp lo hi s) (fun (a, r) -> bindo (sp lo hi r) (fun (b, r2) -> Base.Ret (render a ^ " " ^ render b, r2))) in
  reg_ms "rnd.uu_new2"
    (function [lo; hi; s] -> let s = arg_r s in
       outr (fun x -> x) s (bindo (Rand.uu_new rp p (arg_uc lo) (arg_uc hi)) (twice (Rand.uu_sample rp p) res_u s)) | _ -> failwith "arity")
    (function [lo; hi; s] -> let s = arg_r s in
       outr (fun x -> x) s (spec_twice SpecRand.spec_range su (v (arg_uc lo)) (v (arg_uc hi)) s) | _ -> failwith "arity");
  reg_ms "rnd.ui_new2"
    (function [lo; hi; s] -> let s = arg_r s in
       outr (fun x -> x) s (bindo (Rand.ui_new rp sp p (arg_ic lo) (arg_ic hi)) (twice (Rand.ui_sample rp sp p) res_i s)) | _ -> failwith "arity")
    (function [lo; hi; s] -> let s = arg_r s in
       outr (fun x -> x) s (spec_twice SpecRand.spec_range si (Base.ival (arg_ic lo)) (Base.ival (arg_ic hi)) s) | _ -> failwith "arity")
