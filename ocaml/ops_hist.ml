(* ops_hist.ml — C04 history machine: model (Hist.v) and Z-level spec (SpecHist.v).

   hist.u <ctor> h:<op;op;...>      one BigUint object, observed after the constructor and every op
   hist.i <ctor> h:<op;op;...>      one BigInt object
   hist.pair <u|i> <ctorA> h:<opsA> <ctorB> h:<opsB>   two histories, then ==, cmp, hash, exports, max, min

   ctor (BigUint):  vec:<u64 digits>  new:<u32 words>  slice:<u32 words>  le:<hexbytes>  be:<hexbytes>  serde:<u32 words>
                    radle:<radix>:<hex digit bytes>  radbe:<radix>:<hex digit bytes>      (BigInt: radle:<s>:<radix>:<..>)
   ctor (BigInt):   parts:<s>:<u64 digits>  new:<s>:<words>  slice:<s>:<words>  le:<s>:<bytes>  be:<s>:<bytes>
                    sle:<bytes>  sbe:<bytes>  serde:<s>:<words>  fromu:<u64 digits>          (<s> in - 0 +)
   op:  add|sub|div|rem|and|or|xor|clone|divfloor|modfloor|diveuclid|remeuclid|divceil :<Y>
          with <Y> = u:<digits> | i:<s>:<digits>   (built with biguint_from_vec / from_biguint)
        shl:<dec>  shr:<dec>  setbit:<dec>:<0|1>  zero  one  assign:<s>:<words>
        adds|subs|divs|rems|muls :<32|64|128>:<dec>      neg  not  abs  signum
        mul:<Y>  gcd:<Y>  lcm:<Y>  pow:<dec u32>  sqrt  cbrt  nthroot:<dec u32>
   digits and words are comma separated little-endian hex.  Result: `ok <obj> <obj> ...`, one
   observation per step, `panic` as the last one when a step panics. *)
open Io
let p : Hist.hist_params =
  { Hist.hp_as = Extracted.addsub; Hist.hp_div = Extracted.div; Hist.hp_bits = Extracted.bits;
    Hist.hp_mul = Extracted.mul; Hist.hp_pow = Extracted.pgr_pow; Hist.hp_gcd = Extracted.pgr_gcd;
    Hist.hp_roots = Extracted.pgr_roots; Hist.hp_radix = Extracted.radix;
    Hist.hp_iter = Extracted.iter; Hist.hp_serde = Extracted.serde;
    Hist.hp_bytes = Extracted.byteio; Hist.hp_sign = Extracted.signs }

let sign_of = function
  | "-" -> Base.Minus | "0" -> Base.NoSign | "+" -> Base.Plus | s -> failwith ("bad sign " ^ s)
let hexbytes h = arg_b ("b:" ^ h)
(* split "name:rest" at the first colon *)
let cut s =
  match Stdlib.String.index_opt s ':' with
  | None -> (s, "")
  | Some i -> (Stdlib.String.sub s 0 i, Stdlib.String.sub s (i + 1) (Stdlib.String.length s - i - 1))

let parse_ctor (kind : string) (s : string) : Hist.ctor =
  let (name, rest) = cut s in
  if kind = "u" then
    match name with
    | "vec" -> Hist.CUVec (digits_of_string rest)
    | "new" -> Hist.CUNew (digits_of_string rest)
    | "slice" -> Hist.CUSlice (digits_of_string rest)
    | "le" -> Hist.CUBytesLe (hexbytes rest)
    | "be" -> Hist.CUBytesBe (hexbytes rest)
    | "serde" -> Hist.CUSerde (digits_of_string rest)
    | "radle" -> let (r, b) = cut rest in Hist.CURadixLe (hexbytes b, z_of_dec r)
    | "radbe" -> let (r, b) = cut rest in Hist.CURadixBe (hexbytes b, z_of_dec r)
    | _ -> failwith ("bad ctor " ^ s)
  else
    match name with
    | "sle" -> Hist.CISignedLe (hexbytes rest)
    | "sbe" -> Hist.CISignedBe (hexbytes rest)
    | "fromu" -> Hist.CIFromU (digits_of_string rest)
    | _ ->
      let (sg, body) = cut rest in
      let sg = sign_of sg in
      (match name with
       | "parts" -> Hist.CIParts (sg, digits_of_string body)
       | "new" -> Hist.CINew (sg, digits_of_string body)
       | "slice" -> Hist.CISlice (sg, digits_of_string body)
       | "le" -> Hist.CIBytesLe (sg, hexbytes body)
       | "be" -> Hist.CIBytesBe (sg, hexbytes body)
       | "serde" -> Hist.CISerde (sg, digits_of_string body)
       | "radle" -> let (r, b) = cut body in Hist.CIRadixLe (sg, hexbytes b, z_of_dec r)
       | "radbe" -> let (r, b) = cut body in Hist.CIRadixBe (sg, hexbytes b, z_of_dec r)
       | _ -> failwith ("bad ctor " ^ s))

let parse_operand (s : string) : Hist.obj =
  if Stdlib.String.length s >= 2 && Stdlib.String.sub s 0 2 = "u:" then Hist.OU (arg_u s)
  else Hist.OI (arg_i s)

let width = function
  | "32" -> Hist.S32 | "64" -> Hist.S64 | "128" -> Hist.S128 | w -> failwith ("bad width " ^ w)

let parse_op (s : string) : Hist.op =
  let (name, rest) = cut s in
  match name with
  | "add" -> Hist.OAdd (parse_operand rest)
  | "sub" -> Hist.OSub (parse_operand rest)
  | "div" -> Hist.ODiv (parse_operand rest)
  | "rem" -> Hist.ORem (parse_operand rest)
  | "and" -> Hist.OAnd (parse_operand rest)
  | "or" -> Hist.OOr (parse_operand rest)
  | "xor" -> Hist.OXor (parse_operand rest)
  | "clone" -> Hist.OCloneFrom (parse_operand rest)
  | "divfloor" -> Hist.ODivFloor (parse_operand rest)
  | "modfloor" -> Hist.OModFloor (parse_operand rest)
  | "diveuclid" -> Hist.ODivEuclid (parse_operand rest)
  | "remeuclid" -> Hist.ORemEuclid (parse_operand rest)
  | "divceil" -> Hist.ODivCeil (parse_operand rest)
  | "shl" -> Hist.OShl (z_of_dec rest)
  | "shr" -> Hist.OShr (z_of_dec rest)
  | "setbit" -> let (i, v) = cut rest in Hist.OSetBit (z_of_dec i, v = "1")
  | "zero" -> Hist.OSetZero
  | "one" -> Hist.OSetOne
  | "assign" -> let (sg, w) = cut rest in Hist.OAssign (sign_of sg, digits_of_string w)
  | "adds" -> let (w, v) = cut rest in Hist.OAddS (width w, z_of_dec v)
  | "subs" -> let (w, v) = cut rest in Hist.OSubS (width w, z_of_dec v)
  | "divs" -> let (w, v) = cut rest in Hist.ODivS (width w, z_of_dec v)
  | "rems" -> let (w, v) = cut rest in Hist.ORemS (width w, z_of_dec v)
  | "neg" -> Hist.ONeg
  | "not" -> Hist.ONot
  | "abs" -> Hist.OAbs
  | "signum" -> Hist.OSignum
  | "mul" -> Hist.OMul (parse_operand rest)
  | "muls" -> let (w, v) = cut rest in Hist.OMulS (width w, z_of_dec v)
  | "pow" -> Hist.OPow (z_of_dec rest)
  | "sqrt" -> Hist.OSqrt
  | "cbrt" -> Hist.OCbrt
  | "nthroot" -> Hist.ONthRoot (z_of_dec rest)
  | "gcd" -> Hist.OGcd (parse_operand rest)
  | "lcm" -> Hist.OLcm (parse_operand rest)
  | _ -> failwith ("bad op " ^ s)

let parse_ops (s : string) : Hist.op list =
  Stdlib.List.map parse_op (split_on ';' (strip_prefix "h:" s))

let res_obj = function Hist.OU d -> res_u d | Hist.OI x -> res_i x
let enc_obj (k : Hist.kind) (v : z) =
  match k with Hist.KU -> res_u (Base.enc v) | Hist.KI -> res_i (Base.ienc v)

(* one observation; documented panics print as the harness does, model-internal ones stay visible *)
let obs (f : 'a -> string) (o : 'a Base.outcome) : string =
  match o with
  | Base.Ret a -> f a
  | Base.Panic (Base.Internal n) -> "panic:internal" ^ dec_of_z n
  | Base.Panic _ -> "panic"
  | Base.OutOfFuel -> "panic:outoffuel"

let line (l : string list) = "ok " ^ Stdlib.String.concat " " l
let b2s b = if b then "n:1" else "n:0"

let model_hist kind = function
  | [c; h] ->
    line (Stdlib.List.map (obs res_obj) (Hist.history_trace p (parse_ctor kind c) (parse_ops h)))
  | _ -> failwith "arity"
let spec_hist kind = function
  | [c; h] ->
    let (k, tr) = SpecHist.shistory_trace (parse_ctor kind c) (parse_ops h) in
    line (Stdlib.List.map (obs (enc_obj k)) tr)
  | _ -> failwith "arity"

let model_pair = function
  | [kind; ca; ha; cb; hb] ->
    (match Hist.history p (parse_ctor kind ca) (parse_ops ha), Hist.history p (parse_ctor kind cb) (parse_ops hb) with
     | Base.Ret a, Base.Ret b ->
       (match Hist.observe_pair p a b with
        | Base.Ret o ->
          line ([b2s o.Hist.po_eq; res_cmp o.Hist.po_cmp; b2s o.Hist.po_hash]
                @ Stdlib.List.map b2s o.Hist.po_exports
                @ [b2s o.Hist.po_max; b2s o.Hist.po_min; b2s o.Hist.po_nosign_a; b2s o.Hist.po_nosign_b;
                   res_obj a; res_obj b])
        | e -> obs (fun _ -> "") e)
     | (Base.Ret _, e) | (e, _) -> obs (fun _ -> "") e)
  | _ -> failwith "arity"
let spec_pair = function
  | [kind; ca; ha; cb; hb] ->
    let (k, ra) = SpecHist.shistory (parse_ctor kind ca) (parse_ops ha) in
    let (_, rb) = SpecHist.shistory (parse_ctor kind cb) (parse_ops hb) in
    (match ra, rb with
     | Base.Ret a, Base.Ret b ->
       let o = SpecHist.sobserve_pair a b in
       let same = b2s o.SpecHist.spo_same in
       line ([b2s o.SpecHist.spo_eq; res_cmp o.SpecHist.spo_cmp; same]
             @ Stdlib.List.map b2s (SpecHist.sexports_eq k a b)
             @ [b2s o.SpecHist.spo_max; b2s o.SpecHist.spo_min; "n:1"; "n:1"; enc_obj k a; enc_obj k b])
     | (Base.Ret _, e) | (e, _) -> obs (fun _ -> "") e)
  | _ -> failwith "arity"

let init () =
  let open Registry in
  reg_ms "hist.u" (model_hist "u") (spec_hist "u");
  reg_ms "hist.i" (model_hist "i") (spec_hist "i");
  reg_ms "hist.pair" model_pair spec_pair
