(* driver.ml — run the extracted model (and the Z-level spec) on a case file.
   usage: driver <cases> <out>     — one line per case:  <id> M <model line> [ S <spec line> ]
   Output lines:  "<id>\tM\t<model>"  and  "<id>\tS\t<spec>". *)
let () =
  Ops_all.init ();
  let ic = open_in Sys.argv.(1) in
  let oc = open_out Sys.argv.(2) in
  (try
     while true do
       let line = input_line ic in
       if line <> "" && line.[0] <> '#' then begin
         match Stdlib.String.split_on_char ' ' line with
         | id :: op :: args ->
             (match Stdlib.Hashtbl.find_opt Registry.table op with
              | None -> Stdlib.Printf.fprintf oc "%s\tM\tunsupported\n" id
              | Some h ->
                  let (m, s) =
                    try h args with
                    | Stack_overflow -> ("driver-error:stack", None)
                    | e -> ("driver-error:" ^ Stdlib.Printexc.to_string e, None) in
                  Stdlib.Printf.fprintf oc "%s\tM\t%s\n" id m;
                  (match s with Some s -> Stdlib.Printf.fprintf oc "%s\tS\t%s\n" id s | None -> ()))
         | _ -> ()
       end
     done
   with End_of_file -> ());
  close_in ic; close_out oc
