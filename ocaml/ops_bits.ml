(* ops_bits.ml — C07 operations: model (Bits.v, ShiftCore.v) and spec (SpecBits.v). *)
open Io
let p = Extracted.bits
let ap = Extracted.addsub
let v = Base.coq_val
let iv = Base.ival
let one f = function [a] -> f a | _ -> failwith "arity"
let two f = function [a; b] -> f a b | _ -> failwith "arity"
let three f = function [a; b; c] -> f a b c | _ -> failwith "arity"
let ru r = ok (res_u r)
let ri r = ok (res_i r)
let su r = ok (res_u (Base.enc r))
let si r = ok (res_i (Base.ienc r))
let rn r = ok (res_n r)
let rb b = ok (res_bool b)
let ro o = match o with None -> "none" | Some k -> ok (res_n k)
let sh s = snd (arg_s s)
let flag n = Zar.sign (arg_n n) <> 0
let init () =
  let open Registry in
  (* BigUint logic: ref-ref and val-ref (assign) forms *)
  let ulogic name m mas spec =
    reg_ms ("u." ^ name)
      (two (fun a b -> ru (m p (arg_u a) (arg_u b))))
      (two (fun a b -> out su (spec (v (arg_u a)) (v (arg_u b)))));
    reg_ms ("u." ^ name ^ "_assign")
      (two (fun a b -> ru (mas (arg_u a) (arg_u b))))
      (two (fun a b -> out su (spec (v (arg_u a)) (v (arg_u b))))) in
  ulogic "and" Bits.uand Bits.uand_assign SpecBits.spec_and;
  ulogic "or" Bits.uor (Bits.uor_assign p) SpecBits.spec_or;
  ulogic "xor" Bits.uxor (Bits.uxor_assign p) SpecBits.spec_xor;
  (* BigInt logic *)
  let ilogic name m mas spec =
    reg_ms ("i." ^ name)
      (two (fun a b -> out ri (m p (arg_i a) (arg_i b))))
      (two (fun a b -> out si (spec (iv (arg_i a)) (iv (arg_i b)))));
    reg_ms ("i." ^ name ^ "_assign")
      (two (fun a b -> out ri (mas (arg_i a) (arg_i b))))
      (two (fun a b -> out si (spec (iv (arg_i a)) (iv (arg_i b))))) in
  ilogic "and" Bits.iand Bits.iand_assign SpecBits.spec_and;
  ilogic "or" Bits.ior (Bits.ior_assign p) SpecBits.spec_or;
  ilogic "xor" Bits.ixor (Bits.ixor_assign p) SpecBits.spec_xor;
  reg_ms "i.not"
    (one (fun a -> out ri (Bits.inot ap (arg_i a))))
    (one (fun a -> out si (SpecBits.spec_not (iv (arg_i a)))));
  reg_ms "i.not_ref"
    (one (fun a -> out ri (Bits.inot_ref ap (arg_i a))))
    (one (fun a -> out si (SpecBits.spec_not (iv (arg_i a)))));
  (* shifts: every primitive type goes through the same front end *)
  let ushift name m spec =
    Stdlib.List.iter (fun form ->
      reg_ms ("u." ^ name ^ form)
        (two (fun a s -> out ru (m (arg_u a) (sh s))))
        (two (fun a s -> out su (spec (v (arg_u a)) (sh s))))) [""; "_ref"; "_assign"] in
  ushift "shl" Bits.biguint_shl SpecBits.spec_shl;
  ushift "shr" Bits.biguint_shr SpecBits.spec_shr_exec;
  let ishift name m spec =
    reg_ms ("i." ^ name)
      (two (fun a s -> out ri (m (arg_i a) (sh s))))
      (two (fun a s -> out si (spec (iv (arg_i a)) (sh s)))) in
  ishift "shl" Bits.ishl SpecBits.spec_shl;
  ishift "shl_ref" Bits.ishl SpecBits.spec_shl;
  ishift "shl_assign" Bits.ishl_assign SpecBits.spec_shl;
  ishift "shr" (Bits.ishr p ap) SpecBits.spec_shr_exec;
  ishift "shr_ref" (Bits.ishr p ap) SpecBits.spec_shr_exec;
  ishift "shr_assign" (Bits.ishr_assign p ap) SpecBits.spec_shr_exec;
  (* bit queries *)
  reg_ms "u.bits"
    (one (fun a -> rn (Bits.ubits (arg_u a))))
    (one (fun a -> rn (SpecBits.spec_bits (v (arg_u a)))));
  reg_ms "i.bits"
    (one (fun a -> rn (Bits.ibits (arg_i a))))
    (one (fun a -> rn (SpecBits.spec_bits (iv (arg_i a)))));
  reg_ms "u.trailing_zeros"
    (one (fun a -> ro (Bits.utrailing_zeros (arg_u a))))
    (one (fun a -> ro (SpecBits.spec_trailing_zeros (v (arg_u a)))));
  reg_ms "i.trailing_zeros"
    (one (fun a -> ro (Bits.itrailing_zeros (arg_i a))))
    (one (fun a -> ro (SpecBits.spec_trailing_zeros (iv (arg_i a)))));
  reg_ms "u.trailing_ones"
    (one (fun a -> rn (Bits.utrailing_ones (arg_u a))))
    (one (fun a -> rn (SpecBits.spec_trailing_ones (v (arg_u a)))));
  reg_ms "u.count_ones"
    (one (fun a -> rn (Bits.ucount_ones (arg_u a))))
    (one (fun a -> rn (SpecBits.spec_count_ones (v (arg_u a)))));
  reg_ms "u.bit"
    (two (fun a n -> rb (Bits.ubit (arg_u a) (arg_n n))))
    (two (fun a n -> out rb (SpecBits.spec_bit_exec (v (arg_u a)) (arg_n n))));
  reg_ms "i.bit"
    (two (fun a n -> out rb (Bits.ibit p (arg_i a) (arg_n n))))
    (two (fun a n -> out rb (SpecBits.spec_bit_exec (iv (arg_i a)) (arg_n n))));
  reg_ms "u.set_bit"
    (three (fun a n b -> out ru (Bits.uset_bit p (arg_u a) (arg_n n) (flag b))))
    (three (fun a n b -> out su (SpecBits.spec_set_bit_exec (v (arg_u a)) (arg_n n) (flag b))));
  reg_ms "i.set_bit"
    (three (fun a n b -> out ri (Bits.iset_bit p (arg_i a) (arg_n n) (flag b))))
    (three (fun a n b -> out si (SpecBits.spec_set_bit_exec (iv (arg_i a)) (arg_n n) (flag b))))
