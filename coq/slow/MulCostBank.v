(* MulCostBank.v — C20: the work counter of the model on the fixed operand bank, evaluated by
   the kernel's VM (each product once), and the cost criteria on it.
   Quick part (about 100 s): balanced n = 256, 512, 1024 and the unbalanced shapes n x (2n-1),
   n x 2n for n = 256, 512.  The larger shapes are in MulCostBankBig.v (about 12 min; thorough tier).

   These two files live in coq/slow/, which is NOT part of _CoqProject: every `./check` builds the
   whole project, and the thorough tier re-checks props/*.vo with coqchk, whose lazy machine cannot
   redo a VM evaluation of this size (it timed out after 50 min).  They are compiled by
   `./check C20` itself (tools/gen/c20.py: extra_checks; this file in every tier, cached under the
   hash of the model sources and gen/Extracted.v; the big one in the thorough tier) with
     cd coq && coqc -noglob <-Q flags of _CoqProject> -Q slow BigNum slow/MulCostBank.v
   and the output must say "Closed under the global context". *)
From BigNum Require Import Base AddSub Mul MulCost Extracted.
Open Scope Z_scope.

(** cost of the bank product with operand lengths [n] x [m] *)
Definition bank_cost (p : mul_params) (n m : Z) : outcome Z :=
  cost p (bank_a (Z.to_nat n)) (bank_b (Z.to_nat m)).

(** the criteria: doubling multiplies the work by at most 3.25; unbalanced products cost no
    more than the schoolbook count *)
Definition le_325 (c1 c2 : Z) : bool := 4 * c2 <=? 13 * c1.
Definition le_school (n m c : Z) : bool := c <=? n * m.

Definition quick_pred (o1 o2 o3 o4 o5 o6 o7 : outcome Z) : bool :=
  match o1, o2, o3, o4, o5, o6, o7 with
  | Ret c256, Ret c512, Ret c1024, Ret u1, Ret u2, Ret u3, Ret u4 =>
      le_325 c256 c512 && le_325 c512 c1024
      && le_school 256 256 c256 && le_school 512 512 c512 && le_school 1024 1024 c1024
      && le_school 256 511 u1 && le_school 256 512 u2 && le_school 512 1023 u3 && le_school 512 1024 u4
  | _, _, _, _, _, _, _ => false
  end.

(* The statement is syntactically the one [quick_pred_inv] consumes, so that no conversion
   problem (which the kernel might attack by lazily evaluating a product) ever arises.
   [vm_cast_no_check]: the VM runs once, when the kernel checks the proof term at Qed
   (with [vm_compute; reflexivity] it would run twice). *)
Lemma quick_ok_true :
  quick_pred (bank_cost mul 256 256) (bank_cost mul 512 512) (bank_cost mul 1024 1024)
             (bank_cost mul 256 511) (bank_cost mul 256 512) (bank_cost mul 512 1023)
             (bank_cost mul 512 1024) = true.
Proof. vm_cast_no_check (@eq_refl bool true). Qed.

Lemma le_325_spec c1 c2 : le_325 c1 c2 = true -> 4 * c2 <= 13 * c1.
Proof. unfold le_325; lia. Qed.
Lemma le_school_spec n m c : le_school n m c = true -> c <= n * m.
Proof. unfold le_school; lia. Qed.

(** the readable form, for abstract outcomes (so that no proof step evaluates a product) *)
Lemma quick_pred_inv o1 o2 o3 o4 o5 o6 o7 : quick_pred o1 o2 o3 o4 o5 o6 o7 = true ->
  exists c256 c512 c1024 u1 u2 u3 u4,
    o1 = Ret c256 /\ o2 = Ret c512 /\ o3 = Ret c1024 /\
    o4 = Ret u1 /\ o5 = Ret u2 /\ o6 = Ret u3 /\ o7 = Ret u4 /\
    4 * c512 <= 13 * c256 /\ 4 * c1024 <= 13 * c512 /\
    c256 <= 256 * 256 /\ c512 <= 512 * 512 /\ c1024 <= 1024 * 1024 /\
    u1 <= 256 * 511 /\ u2 <= 256 * 512 /\ u3 <= 512 * 1023 /\ u4 <= 512 * 1024.
Proof.
  intros H. unfold quick_pred in H.
  destruct o1 as [c256| |]; try discriminate H. destruct o2 as [c512| |]; try discriminate H.
  destruct o3 as [c1024| |]; try discriminate H. destruct o4 as [u1| |]; try discriminate H.
  destruct o5 as [u2| |]; try discriminate H. destruct o6 as [u3| |]; try discriminate H.
  destruct o7 as [u4| |]; try discriminate H.
  repeat (apply andb_prop in H as [H ?]).
  exists c256, c512, c1024, u1, u2, u3, u4.
  repeat match goal with
         | H : le_325 _ _ = true |- _ => apply le_325_spec in H
         | H : le_school _ _ _ = true |- _ => apply le_school_spec in H
         end.
  repeat split; auto.
Qed.

Theorem bank_quick :
  exists c256 c512 c1024 u1 u2 u3 u4,
    bank_cost mul 256 256 = Ret c256 /\ bank_cost mul 512 512 = Ret c512 /\
    bank_cost mul 1024 1024 = Ret c1024 /\
    bank_cost mul 256 511 = Ret u1 /\ bank_cost mul 256 512 = Ret u2 /\
    bank_cost mul 512 1023 = Ret u3 /\ bank_cost mul 512 1024 = Ret u4 /\
    4 * c512 <= 13 * c256 /\ 4 * c1024 <= 13 * c512 /\
    c256 <= 256 * 256 /\ c512 <= 512 * 512 /\ c1024 <= 1024 * 1024 /\
    u1 <= 256 * 511 /\ u2 <= 256 * 512 /\ u3 <= 512 * 1023 /\ u4 <= 512 * 1024.
Proof.
  exact (quick_pred_inv (bank_cost mul 256 256) (bank_cost mul 512 512) (bank_cost mul 1024 1024)
           (bank_cost mul 256 511) (bank_cost mul 256 512) (bank_cost mul 512 1023) (bank_cost mul 512 1024)
           quick_ok_true).
Qed.
Print Assumptions bank_quick.
