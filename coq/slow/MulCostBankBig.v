(* MulCostBankBig.v — C20: the larger bank shapes, evaluated by the kernel's VM.  SLOW (about
   12 minutes): lives in coq/slow/, which is NOT part of _CoqProject; compiled by the thorough
   tier of `./check C20` (tools/gen/c20.py) with
     cd coq && coqc -noglob <-Q flags of _CoqProject> -Q slow BigNum slow/MulCostBankBig.v
   props/C20.v does not depend on it.
   Balanced 1024 -> 2048 -> 4096 (doubling criterion, and cost(4096) < 4096^2/4), unbalanced
   1024 x 2047, 1024 x 2048 and 256 x 16384 (n x 64n). *)
From BigNum Require Import Base AddSub Mul MulCost Extracted MulCostBank.
Open Scope Z_scope.

Definition big_pred (o1 o2 o3 o4 o5 o6 : outcome Z) : bool :=
  match o1, o2, o3, o4, o5, o6 with
  | Ret c1024, Ret c2048, Ret c4096, Ret u1, Ret u2, Ret u3 =>
      le_325 c1024 c2048 && le_325 c2048 c4096 && (4 * c4096 <? 4096 * 4096)
      && le_school 2048 2048 c2048 && le_school 4096 4096 c4096
      && le_school 1024 2047 u1 && le_school 1024 2048 u2 && le_school 256 16384 u3
  | _, _, _, _, _, _ => false
  end.

Lemma big_ok_true :
  big_pred (bank_cost mul 1024 1024) (bank_cost mul 2048 2048) (bank_cost mul 4096 4096)
           (bank_cost mul 1024 2047) (bank_cost mul 1024 2048) (bank_cost mul 256 16384) = true.
Proof. vm_cast_no_check (@eq_refl bool true). Qed.

Lemma big_pred_inv o1 o2 o3 o4 o5 o6 : big_pred o1 o2 o3 o4 o5 o6 = true ->
  exists c1024 c2048 c4096 u1 u2 u3,
    o1 = Ret c1024 /\ o2 = Ret c2048 /\ o3 = Ret c4096 /\
    o4 = Ret u1 /\ o5 = Ret u2 /\ o6 = Ret u3 /\
    4 * c2048 <= 13 * c1024 /\ 4 * c4096 <= 13 * c2048 /\ 4 * c4096 < 4096 * 4096 /\
    c2048 <= 2048 * 2048 /\ c4096 <= 4096 * 4096 /\
    u1 <= 1024 * 2047 /\ u2 <= 1024 * 2048 /\ u3 <= 256 * 16384.
Proof.
  intros H. unfold big_pred in H.
  destruct o1 as [c1024| |]; try discriminate H. destruct o2 as [c2048| |]; try discriminate H.
  destruct o3 as [c4096| |]; try discriminate H. destruct o4 as [u1| |]; try discriminate H.
  destruct o5 as [u2| |]; try discriminate H. destruct o6 as [u3| |]; try discriminate H.
  repeat (apply andb_prop in H as [H ?]).
  exists c1024, c2048, c4096, u1, u2, u3.
  repeat match goal with
         | H : le_325 _ _ = true |- _ => apply le_325_spec in H
         | H : le_school _ _ _ = true |- _ => apply le_school_spec in H
         | H : (_ <? _) = true |- _ => apply Z.ltb_lt in H
         end.
  repeat split; auto.
Qed.

Theorem bank_big :
  exists c1024 c2048 c4096 u1 u2 u3,
    bank_cost mul 1024 1024 = Ret c1024 /\ bank_cost mul 2048 2048 = Ret c2048 /\
    bank_cost mul 4096 4096 = Ret c4096 /\
    bank_cost mul 1024 2047 = Ret u1 /\ bank_cost mul 1024 2048 = Ret u2 /\
    bank_cost mul 256 16384 = Ret u3 /\
    4 * c2048 <= 13 * c1024 /\ 4 * c4096 <= 13 * c2048 /\ 4 * c4096 < 4096 * 4096 /\
    c2048 <= 2048 * 2048 /\ c4096 <= 4096 * 4096 /\
    u1 <= 1024 * 2047 /\ u2 <= 1024 * 2048 /\ u3 <= 256 * 16384.
Proof.
  exact (big_pred_inv (bank_cost mul 1024 1024) (bank_cost mul 2048 2048) (bank_cost mul 4096 4096)
           (bank_cost mul 1024 2047) (bank_cost mul 1024 2048) (bank_cost mul 256 16384) big_ok_true).
Qed.
Print Assumptions bank_big.
