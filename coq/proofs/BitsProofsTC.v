(* BitsProofsTC.v — the running two's complement of src/bigint/bits.rs: [negate_carry] chains
   ([two_compl_prefix]), closed forms of the two loop combinators of model/Bits.v, and the nine
   sign-pair routines:   routine |x| |y|  =  digits of |x op y|   with the sign the caller fixes. *)
From BigNum Require Import Base BaseLemmas X86 AddSub AddSubProofs ShiftCore ShiftCoreProofs
  Bits SpecBits BitsLemmas BitsProofsU.
Open Scope Z_scope.

Lemma negate_carry_spec x c : digit x -> bit c ->
  match negate_carry x c with (t, c') => digit t /\ bit c' /\ t + B * c' = B - 1 - x + c end.
Proof.
  unfold negate_carry, dnot, digit, bit. intros Hx Hc. pose proof B_pos.
  set (s := c + (B - 1 - x)). assert (0 <= s < 2 * B) by (unfold s; lia).
  pose proof (Z.div_mod s B ltac:(lia)). pose proof (Z.mod_pos_bound s B ltac:(lia)).
  assert (0 <= s / B < 2) by (split; [apply Z.div_pos; lia|apply Z.div_lt_upper_bound; lia]).
  split; [lia|]. split; [lia|]. unfold s in *. lia.
Qed.

(** value of a (possibly) negated k-digit block: carry in [c], carry out [c'] *)
Definition negv (neg : bool) (M v c c' : Z) : Z := if neg then M - 1 - v + c - M * c' else v.

Lemma ncf_spec neg x c : digit x -> bit c ->
  match ncf neg x c with (t, c') =>
    digit t /\ bit c' /\ (neg = false -> c' = c) /\ t = negv neg B x c c' end.
Proof.
  intros Hx Hc. unfold ncf, negv. destruct neg.
  - pose proof (negate_carry_spec x c Hx Hc) as H. destruct (negate_carry x c) as [t c'].
    destruct H as (Ht & Hc' & E). split; [exact Ht|]. split; [exact Hc'|]. split; [discriminate|lia].
  - split; [exact Hx|]. split; [exact Hc|]. split; reflexivity.
Qed.

(** ** two_compl_prefix: one negation pass over a digit list *)
Fixpoint neg_digits (c : Z) (l : list Z) : list Z * Z :=
  match l with
  | [] => ([], c)
  | x :: r => let '(o, c') := negate_carry x c in
              let '(os, c'') := neg_digits c' r in (o :: os, c'')
  end.

Theorem two_compl_prefix l : forall c, wf l -> bit c ->
  match neg_digits c l with (o, c') =>
    wf o /\ length o = length l /\ bit c' /\
    val o + B ^ Z.of_nat (length l) * c' = B ^ Z.of_nat (length l) - 1 - val l + c end.
Proof.
  induction l as [|x l IH]; intros c Hl Hc; cbn [neg_digits].
  - cbn [length Z.of_nat val]. rewrite Z.pow_0_r. repeat split; auto using wf_nil. lia.
  - apply wf_cons in Hl as [Hx Hl]. pose proof (negate_carry_spec x c Hx Hc) as H.
    destruct (negate_carry x c) as [o c1]. destruct H as (Ho & Hc1 & E).
    specialize (IH c1 Hl Hc1). destruct (neg_digits c1 l) as [os c2]. destruct IH as (Hos & Hlen & Hc2 & Ev).
    split; [apply wf_cons; auto|]. split; [cbn [length]; congruence|]. split; [exact Hc2|].
    change (length (x :: l)) with (S (length l)). rewrite B_pow_S, !val_cons.
    set (P := B ^ Z.of_nat (length l)) in *. nia.
Qed.

(** with carry-in 1: the block is the low digits of the negated value, and the carry survives
    exactly when everything so far was zero *)
Corollary two_compl_prefix_neg l : wf l ->
  match neg_digits 1 l with (o, c') =>
    val o = (- val l) mod B ^ Z.of_nat (length l) /\ (c' = 1 <-> val l = 0) end.
Proof.
  intros Hl. pose proof (two_compl_prefix l 1 Hl (or_intror eq_refl)) as H.
  destruct (neg_digits 1 l) as [o c']. destruct H as (Ho & Hlen & Hc & E).
  pose proof (val_bound l Hl) as Hb. pose proof (val_bound o Ho) as Hbo. rewrite Hlen in Hbo.
  set (M := B ^ Z.of_nat (length l)) in *. destruct Hc as [-> | ->].
  - split; [|lia]. apply Z.mod_unique_pos with (-1); lia.
  - assert (val l = 0) by lia. split; [|tauto]. replace (val l) with 0 by lia. rewrite Z.mod_0_l by lia. lia.
Qed.

Lemma lxor_ones_digit t : digit t -> Z.lxor t (B - 1) = B - 1 - t.
Proof.
  intros Ht. pose proof Ht as Ht'. unfold digit in Ht'. rewrite B_as_pow2 in *.
  change (2 ^ 64 - 1) with (Z.pred (2 ^ 64)). rewrite <- Z.ones_equiv.
  assert (L : Z.ldiff t (Z.ones 64) = 0).
  { apply Z.bits_inj'; intros n Hn. rewrite Z.ldiff_spec, Z.bits_0.
    destruct (Z.lt_ge_cases n 64); [rewrite Z.ones_spec_low by lia; apply andb_false_r|].
    rewrite (digit_high_bits t n) by (auto; rewrite B_as_pow2; auto). reflexivity. }
  rewrite (Z.sub_nocarry_ldiff _ _ L).
  apply Z.bits_inj'; intros n Hn. rewrite Z.lxor_spec, Z.ldiff_spec.
  destruct (Z.lt_ge_cases n 64).
  - rewrite Z.ones_spec_low by lia. destruct (Z.testbit t n); reflexivity.
  - rewrite Z.ones_spec_high by lia. rewrite (digit_high_bits t n) by (auto; rewrite B_as_pow2; auto). reflexivity.
Qed.

Lemma negv_cons neg M' x v c c1 c' :
  negv neg B x c c1 + B * negv neg M' v c1 c' = negv neg (B * M') (x + B * v) c c'.
Proof. unfold negv; destruct neg; ring. Qed.

Lemma negv_nil neg c : negv neg 1 0 c c = 0.
Proof. unfold negv; destruct neg; ring. Qed.

(** ** closed form of the zip loop *)
Lemma zip_loop_spec f g (Hf : bitop f g) na nb nr : forall a b ca cb cr,
  wf a -> wf b -> bit ca -> bit cb -> bit cr ->
  match zip_loop f na nb nr ca cb cr a b with (o, ra, rb, (ca', cb', cr')) =>
    exists a1 b1 m,
      a = a1 ++ ra /\ b = b1 ++ rb /\ length a1 = length o /\ length b1 = length o /\
      (ra = [] \/ rb = []) /\
      wf o /\ bit ca' /\ bit cb' /\ bit cr' /\
      (na = false -> ca' = ca) /\ (nb = false -> cb' = cb) /\ (nr = false -> cr' = cr) /\
      let M := B ^ Z.of_nat (length o) in
      let ta := negv na M (val a1) ca ca' in
      let tb := negv nb M (val b1) cb cb' in
      0 <= ta < M /\ 0 <= tb < M /\ 0 <= m < M /\
      (forall u v, f (ta + M * u) (tb + M * v) = m + M * f u v) /\
      val o = negv nr M m cr cr'
  end.
Proof.
  induction a as [|x a IH]; intros b ca cb cr Ha Hb Hca Hcb Hcr.
  - cbn [zip_loop]. exists [], [], 0. cbn [app length Z.of_nat val]. rewrite Z.pow_0_r, !negv_nil.
    repeat split; auto using wf_nil; try lia. intros u v. replace (0 + 1 * u) with u by ring. replace (0 + 1 * v) with v by ring. ring.
  - destruct b as [|y b].
    + cbn [zip_loop]. exists [], [], 0. cbn [app length Z.of_nat val]. rewrite Z.pow_0_r, !negv_nil.
      repeat split; auto using wf_nil; try lia. intros u v. replace (0 + 1 * u) with u by ring. replace (0 + 1 * v) with v by ring. ring.
    + apply wf_cons in Ha as [Hx Ha], Hb as [Hy Hb]. cbn [zip_loop].
      pose proof (ncf_spec na x ca Hx Hca) as H1. destruct (ncf na x ca) as [tx ca1].
      destruct H1 as (Htx & Hca1 & Hna & Etx).
      pose proof (ncf_spec nb y cb Hy Hcb) as H2. destruct (ncf nb y cb) as [ty cb1].
      destruct H2 as (Hty & Hcb1 & Hnb & Ety).
      pose proof (bitop_digit f g Hf tx ty Htx Hty) as Hm0.
      pose proof (ncf_spec nr (f tx ty) cr Hm0 Hcr) as H3. destruct (ncf nr (f tx ty) cr) as [o0 cr1].
      destruct H3 as (Ho0 & Hcr1 & Hnr & Eo0).
      specialize (IH b ca1 cb1 cr1 Ha Hb Hca1 Hcb1 Hcr1).
      destruct (zip_loop f na nb nr ca1 cb1 cr1 a b) as [[[o ra] rb] [[ca' cb'] cr']].
      destruct IH as (a1 & b1 & m & Ea & Eb & La & Lb & Hr & Hwo & Hca' & Hcb' & Hcr' & Ia & Ib & Ir & IHv).
      cbn zeta in IHv. destruct IHv as (Hta & Htb & Hm & Hfm & Hvo).
      exists (x :: a1), (y :: b1), (f tx ty + B * m).
      split; [cbn [app]; congruence|]. split; [cbn [app]; congruence|].
      split; [cbn [length]; congruence|]. split; [cbn [length]; congruence|].
      split; [exact Hr|]. split; [apply wf_cons; auto|]. split; [exact Hca'|]. split; [exact Hcb'|].
      split; [exact Hcr'|].
      split; [intros E; rewrite (Ia E); auto|]. split; [intros E; rewrite (Ib E); auto|].
      split; [intros E; rewrite (Ir E); auto|].
      change (length (o0 :: o)) with (S (length o)). rewrite B_pow_S. cbn zeta.
      set (M' := B ^ Z.of_nat (length o)) in *. rewrite !val_cons.
      rewrite <- (negv_cons na M' x (val a1) ca ca1 ca'), <- (negv_cons nb M' y (val b1) cb cb1 cb').
      rewrite <- Etx, <- Ety.
      set (ta := negv na M' (val a1) ca1 ca') in *. set (tb := negv nb M' (val b1) cb1 cb') in *.
      unfold digit in Htx, Hty, Hm0. pose proof B_pos.
      split; [nia|]. split; [nia|]. split; [nia|]. split.
      * intros u v. replace (tx + B * ta + B * M' * u) with (tx + B * (ta + M' * u)) by ring.
        replace (ty + B * tb + B * M' * v) with (ty + B * (tb + M' * v)) by ring.
        rewrite (bitop_cons f g Hf) by assumption. rewrite Hfm. ring.
      * rewrite Hvo, Eo0. apply negv_cons.
Qed.

(** ** closed form of the tail loop *)
Lemma tail_loop_spec pre flip post : forall l c1 c2, wf l -> bit c1 -> bit c2 ->
  match tail_loop pre flip post c1 c2 l with (o, (c1', c2')) =>
    wf o /\ length o = length l /\ bit c1' /\ bit c2' /\
    (pre = false -> c1' = c1) /\ (post = false -> c2' = c2) /\
    let M := B ^ Z.of_nat (length l) in
    let t := negv pre M (val l) c1 c1' in
    0 <= t < M /\ val o = negv post M (if flip then M - 1 - t else t) c2 c2'
  end.
Proof.
  induction l as [|x l IH]; intros c1 c2 Hl Hc1 Hc2; cbn [tail_loop].
  - cbn [length Z.of_nat val]. rewrite Z.pow_0_r, !negv_nil. repeat split; auto using wf_nil; try lia.
    destruct flip; replace (1 - 1 - 0) with 0 by ring; rewrite negv_nil; reflexivity.
  - apply wf_cons in Hl as [Hx Hl].
    pose proof (ncf_spec pre x c1 Hx Hc1) as H1. destruct (ncf pre x c1) as [t c1a].
    destruct H1 as (Ht & Hc1a & Hpre & Et).
    set (t' := if flip then Z.lxor t (B - 1) else t).
    assert (Ht' : digit t' /\ t' = if flip then B - 1 - t else t).
    { unfold t'. destruct flip; [rewrite lxor_ones_digit by exact Ht; split; [unfold digit in *; lia|reflexivity]|auto]. }
    destruct Ht' as [Ht'd Et'].
    pose proof (ncf_spec post t' c2 Ht'd Hc2) as H2. destruct (ncf post t' c2) as [o0 c2a].
    destruct H2 as (Ho0 & Hc2a & Hpost & Eo0).
    specialize (IH c1a c2a Hl Hc1a Hc2a). destruct (tail_loop pre flip post c1a c2a l) as [o [c1' c2']].
    destruct IH as (Hwo & Hlen & Hc1' & Hc2' & Ipre & Ipost & IHv). cbn zeta in IHv. destruct IHv as (Hb & Hvo).
    split; [apply wf_cons; auto|]. split; [cbn [length]; congruence|]. split; [exact Hc1'|]. split; [exact Hc2'|].
    split; [intros E; rewrite (Ipre E); auto|]. split; [intros E; rewrite (Ipost E); auto|].
    change (length (x :: l)) with (S (length l)). rewrite B_pow_S. cbn zeta.
    set (M' := B ^ Z.of_nat (length l)) in *. rewrite !val_cons.
    rewrite <- (negv_cons pre M' x (val l) c1 c1a c1'). rewrite <- Et.
    set (tl := negv pre M' (val l) c1a c1') in *. unfold digit in Ht. pose proof B_pos.
    split; [nia|]. rewrite Hvo, Eo0, Et'.
    destruct flip.
    + rewrite negv_cons. f_equal. ring.
    + apply negv_cons.
Qed.

(** ** the nine routines *)
Lemma bit0 : bit 0. Proof. left; reflexivity. Qed.
Lemma bit1 : bit 1. Proof. right; reflexivity. Qed.

Lemma cmp_app_eq {A} (a1 b1 : list A) : length a1 = length b1 ->
  Nat.compare (length (a1 ++ [])) (length (b1 ++ [])) = Eq /\
  nat_ltb (length (a1 ++ [])) (length (b1 ++ [])) = false /\
  nat_ltb (length (b1 ++ [])) (length (a1 ++ [])) = false.
Proof.
  intros E. rewrite !app_nil_r, E. unfold nat_ltb. rewrite Nat.compare_refl, Nat.ltb_irrefl. auto.
Qed.
Lemma cmp_app_lt {A} (a1 b1 : list A) s rb : length a1 = length b1 ->
  Nat.compare (length (a1 ++ [])) (length (b1 ++ s :: rb)) = Lt /\
  nat_ltb (length (a1 ++ [])) (length (b1 ++ s :: rb)) = true /\
  nat_ltb (length (b1 ++ s :: rb)) (length (a1 ++ [])) = false.
Proof.
  intros E. rewrite !app_length, E. cbn [length]. unfold nat_ltb. split; [apply Nat.compare_lt_iff; lia|].
  split; [apply Nat.ltb_lt; lia|apply Nat.ltb_ge; lia].
Qed.
Lemma cmp_app_gt {A} (a1 b1 : list A) r ra : length a1 = length b1 ->
  Nat.compare (length (a1 ++ r :: ra)) (length (b1 ++ [])) = Gt /\
  nat_ltb (length (a1 ++ r :: ra)) (length (b1 ++ [])) = false /\
  nat_ltb (length (b1 ++ [])) (length (a1 ++ r :: ra)) = true.
Proof.
  intros E. rewrite !app_length, E. cbn [length]. unfold nat_ltb. split; [apply Nat.compare_gt_iff; lia|].
  split; [apply Nat.ltb_ge; lia|apply Nat.ltb_lt; lia].
Qed.

Lemma zip_open f g (Hf : bitop f g) na nb nr a b ca cb cr :
  wf a -> wf b -> bit ca -> bit cb -> bit cr ->
  match zip_loop f na nb nr ca cb cr a b with (o, ra, rb, (ca', cb', cr')) =>
    exists a1 b1 m M,
      a = a1 ++ ra /\ b = b1 ++ rb /\ length a1 = length o /\ length b1 = length o /\
      (ra = [] \/ rb = []) /\
      wf o /\ bit ca' /\ bit cb' /\ bit cr' /\
      (na = false -> ca' = ca) /\ (nb = false -> cb' = cb) /\ (nr = false -> cr' = cr) /\
      M = B ^ Z.of_nat (length o) /\ 0 <= val o < M /\
      0 < M /\ val a = val a1 + M * val ra /\ val b = val b1 + M * val rb /\
      (forall l, val (o ++ l) = val o + M * val l) /\
      wf ra /\ wf rb /\ 0 <= val ra /\ 0 <= val rb /\ 0 <= val a1 < M /\ 0 <= val b1 < M /\
      0 <= negv na M (val a1) ca ca' < M /\ 0 <= negv nb M (val b1) cb cb' < M /\ 0 <= m < M /\
      (forall u v, f (negv na M (val a1) ca ca' + M * u) (negv nb M (val b1) cb cb' + M * v) = m + M * f u v) /\
      val o = negv nr M m cr cr'
  end.
Proof.
  intros Ha Hb Hca Hcb Hcr. pose proof (zip_loop_spec f g Hf na nb nr a b ca cb cr Ha Hb Hca Hcb Hcr) as Z.
  destruct (zip_loop f na nb nr ca cb cr a b) as [[[o ra] rb] [[ca' cb'] cr']].
  destruct Z as (a1 & b1 & m & Ea & Eb & La & Lb & Hr & Hwo & Hca' & Hcb' & Hcr' & Ia & Ib & Ir & Hv).
  cbn zeta in Hv. destruct Hv as (Hta & Htb & Hm & Hfm & Hvo).
  exists a1, b1, m, (B ^ Z.of_nat (length o)).
  pose proof Ha as Hwa. pose proof Hb as Hwb. rewrite Ea in Hwa. rewrite Eb in Hwb.
  apply wf_app in Hwa as [Hwa1 Hwra]. apply wf_app in Hwb as [Hwb1 Hwrb].
  pose proof (val_bound a1 Hwa1) as Ba1. pose proof (val_bound b1 Hwb1) as Bb1. rewrite La in Ba1. rewrite Lb in Bb1.
  pose proof (val_bound o Hwo) as Bo.
  repeat match goal with |- _ /\ _ => split end; try assumption; try (apply val_nonneg; assumption); try lia;
    try solve [apply B_pow; lia | intros; rewrite val_app; reflexivity].
  - rewrite Ea at 1. rewrite val_app, La. reflexivity.
  - rewrite Eb at 1. rewrite val_app, Lb. reflexivity.
Qed.

Ltac tc_start f g Hfg na nb nr ca cb cr a b Ha Hb :=
  let Z := fresh "Z" in
  pose proof (zip_open f g Hfg na nb nr a b ca cb cr (proj1 Ha) (proj1 Hb)
                ltac:(first [exact bit0|exact bit1]) ltac:(first [exact bit0|exact bit1])
                ltac:(first [exact bit0|exact bit1])) as Z;
  destruct (zip_loop f na nb nr ca cb cr a b) as [[[?o ?ra] ?rb] [[?ca' ?cb'] ?cr']];
  destruct Z as (a1 & b1 & m & M & Ea & Eb & La & Lb & Hr & Hwo & Hca & Hcb & Hcr & Ia & Ib & Ir &
                 EM & Bo & HM & Va & Vb & Vol & Hwra & Hwrb & Pra & Prb & Ba1 & Bb1 & Hta & Htb & Hm & Hfm & Hvo);
  cbv beta iota delta [negv] in *.

(* split on which operand is longer; rewrites the length tests of the model *)
Ltac tc_lens a1 b1 Ea Eb La Lb Hr ra rb :=
  rewrite Ea, Eb;
  destruct ra as [|?r0 ?ra], rb as [|?s0 ?rb];
  [ let C := fresh "C" in
    pose proof (cmp_app_eq a1 b1 ltac:(congruence)) as C;
    destruct C as (?C1 & ?C2 & ?C3); rewrite ?C1, ?C2, ?C3
  | let C := fresh "C" in
    match goal with |- context [length (b1 ++ ?s :: ?r)] =>
      pose proof (cmp_app_lt a1 b1 s r ltac:(congruence)) as C end;
    destruct C as (?C1 & ?C2 & ?C3); rewrite ?C1, ?C2, ?C3
  | let C := fresh "C" in
    match goal with |- context [length (a1 ++ ?s :: ?r)] =>
      pose proof (cmp_app_gt a1 b1 s r ltac:(congruence)) as C end;
    destruct C as (?C1 & ?C2 & ?C3); rewrite ?C1, ?C2, ?C3
  | exfalso; destruct Hr; discriminate ];
  rewrite ?val_nil, ?Z.mul_0_r, ?Z.add_0_r, ?app_nil_r in *.

(* instantiate the digit-block equation at the integers the two remainders stand for *)
Ltac tc_fin Hfm u v :=
  specialize (Hfm u v);
  match goal with |- _ = ?f ?X ?Y =>
    match type of Hfm with f ?A ?B = _ =>
      replace A with X in Hfm by lia; replace B with Y in Hfm by lia end end;
  rewrite Hfm;
  rewrite ?Z.land_0_l, ?Z.land_0_r, ?Z.land_m1_r, ?Z.land_m1_l, ?Z.lor_0_l, ?Z.lor_0_r, ?Z.lor_m1_r,
          ?Z.lor_m1_l, ?Z.lxor_0_l, ?Z.lxor_0_r, ?Z.lxor_m1_r, ?Z.lxor_m1_l.
(* a carry that must have died because the operand is non-zero *)
Ltac tc_dead H c := destruct H as [H | H]; [|exfalso; subst c; lia]; subst c.

Theorem bitand_pos_neg_spec a b : canon a -> canon b -> a <> [] -> b <> [] ->
  exists d, bitand_pos_neg a b = Ret d /\ wf d /\ val d = Z.land (val a) (- val b).
Proof.
  intros Ha Hb Na Nb. pose proof (canon_val_pos a Ha Na) as Pa. pose proof (canon_val_pos b Hb Nb) as Pb.
  unfold bitand_pos_neg. tc_start Z.land andb bitop_land false true false 0 1 0 a b Ha Hb.
  rewrite Va, Vb in *. tc_lens a1 b1 Ea Eb La Lb Hr ra rb.
  - tc_dead Hcb cb'. cbn [orb Z.eqb assert_ bind]. exists o. split; [reflexivity|]. split; [exact Hwo|].
    tc_fin Hfm 0 (-1). lia.
  - cbn [orb Z.eqb assert_ bind]. exists o. split; [reflexivity|]. split; [exact Hwo|].
    tc_fin Hfm 0 (- val (s0 :: rb) - 1 + cb'). lia.
  - tc_dead Hcb cb'. cbn [orb Z.eqb assert_ bind]. exists (o ++ r0 :: ra). split; [reflexivity|].
    split; [apply wf_app; auto|]. rewrite Vol.
    tc_fin Hfm (val (r0 :: ra)) (-1). lia.
Qed.

Lemma push1_spec c l : wf l -> bit c ->
  wf (push1 c l) /\ val (push1 c l) = val l + B ^ Z.of_nat (length l) * c.
Proof.
  intros Hl [-> | ->]; unfold push1; cbn [Z.eqb negb].
  - split; [exact Hl|ring].
  - split; [apply wf_app; split; [exact Hl|apply wf_cons; split; [unfold digit; pose proof B_gt1; lia|apply wf_nil]]|].
    rewrite val_snoc. reflexivity.
Qed.

Lemma pow_app_len (o t : list Z) :
  B ^ Z.of_nat (length (o ++ t)) = B ^ Z.of_nat (length o) * B ^ Z.of_nat (length t).
Proof. rewrite app_length, Nat2Z.inj_add, Z.pow_add_r by lia. reflexivity. Qed.

Ltac tc_tail pre flip post c1 c2 l Hw Hb1 Hb2 :=
  let T := fresh "T" in
  pose proof (tail_loop_spec pre flip post l c1 c2 Hw Hb1 Hb2) as T;
  pose proof (val_bound l Hw) as Bl;
  destruct (tail_loop pre flip post c1 c2 l) as [?t [?c1' ?c2']];
  destruct T as (Hwt & Llt & Hc1' & Hc2' & I1 & I2 & Hvt); cbn zeta in Hvt; destruct Hvt as (Htl & Hvt);
  pose proof (val_bound t Hwt) as Bt; rewrite Llt in Bt;
  set (M' := B ^ Z.of_nat (length l)) in *;
  assert (HM' : 0 < M') by (apply B_pow; lia);
  cbv beta iota delta [negv] in *.

Ltac tc_bits := repeat match goal with H : bit _ |- _ => destruct H as [H | H]; subst end.

Theorem bitand_neg_pos_spec a b : canon a -> canon b -> a <> [] -> b <> [] ->
  exists d, bitand_neg_pos a b = Ret d /\ wf d /\ val d = Z.land (- val a) (val b).
Proof.
  intros Ha Hb Na Nb. pose proof (canon_val_pos a Ha Na) as Pa. pose proof (canon_val_pos b Hb Nb) as Pb.
  unfold bitand_neg_pos. tc_start Z.land andb bitop_land true false false 1 0 0 a b Ha Hb.
  rewrite Va, Vb in *. tc_lens a1 b1 Ea Eb La Lb Hr ra rb.
  - tc_dead Hca ca'. cbn [orb Z.eqb assert_ bind]. exists o. split; [reflexivity|]. split; [exact Hwo|].
    tc_fin Hfm (-1) 0. lia.
  - tc_dead Hca ca'. cbn [orb Z.eqb assert_ bind app]. exists (o ++ s0 :: rb). split; [reflexivity|].
    split; [apply wf_app; auto|]. rewrite Vol. tc_fin Hfm (-1) (val (s0 :: rb)). lia.
  - cbn [orb Z.eqb assert_ bind]. exists o. split; [rewrite firstn_app_exact by congruence; reflexivity|].
    split; [exact Hwo|]. tc_fin Hfm (- val (r0 :: ra) - 1 + ca') 0. lia.
Qed.

Theorem bitand_neg_neg_spec a b : canon a -> canon b -> a <> [] -> b <> [] ->
  exists d, bitand_neg_neg a b = Ret d /\ wf d /\ - val d = Z.land (- val a) (- val b).
Proof.
  intros Ha Hb Na Nb. pose proof (canon_val_pos a Ha Na) as Pa. pose proof (canon_val_pos b Hb Nb) as Pb.
  unfold bitand_neg_neg. tc_start Z.land andb bitop_land true true true 1 1 1 a b Ha Hb.
  rewrite Va, Vb in *. tc_lens a1 b1 Ea Eb La Lb Hr ra rb.
  - tc_dead Hca ca'. tc_dead Hcb cb'. cbn [orb Z.eqb assert_ bind].
    destruct (push1_spec cr' o Hwo Hcr) as [Hwp Hvp]. exists (push1 cr' o). split; [reflexivity|].
    split; [exact Hwp|]. rewrite Hvp, <- EM. tc_fin Hfm (-1) (-1). lia.
  - tc_dead Hca ca'. cbn [orb Z.eqb assert_ bind app].
    tc_tail true false true cb' cr' (s0 :: rb) Hwrb Hcb Hcr.
    assert (c1' = 0) by (clear Hfm; tc_bits; lia). subst c1'. cbn [orb Z.eqb assert_ bind].
    assert (Hwd : wf (o ++ t)) by (apply wf_app; auto).
    destruct (push1_spec c2' (o ++ t) Hwd Hc2') as [Hwp Hvp]. exists (push1 c2' (o ++ t)).
    split; [reflexivity|]. split; [exact Hwp|]. rewrite Hvp, pow_app_len, Llt, <- EM, Vol, Hvt. fold M'.
    tc_fin Hfm (-1) (- val (s0 :: rb) - 1 + cb'). lia.
  - tc_dead Hcb cb'. cbn [orb Z.eqb assert_ bind app].
    tc_tail true false true ca' cr' (r0 :: ra) Hwra Hca Hcr.
    assert (c1' = 0) by (clear Hfm; tc_bits; lia). subst c1'. cbn [orb Z.eqb assert_ bind].
    assert (Hwd : wf (o ++ t)) by (apply wf_app; auto).
    destruct (push1_spec c2' (o ++ t) Hwd Hc2') as [Hwp Hvp]. exists (push1 c2' (o ++ t)).
    split; [reflexivity|]. split; [exact Hwp|]. rewrite Hvp, pow_app_len, Llt, <- EM, Vol, Hvt. fold M'.
    tc_fin Hfm (- val (r0 :: ra) - 1 + ca') (-1). lia.
Qed.

(* the result block of an `|` with a negative operand is non-zero, so its negate-carry dies *)
Ltac tc_m_nonzero Hfm m :=
  assert (Hm0 : m <> 0) by
    (let H0 := fresh in pose proof (Hfm 0 0) as H0; rewrite ?Z.mul_0_r, ?Z.add_0_r in H0;
     change (Z.lor 0 0) with 0 in H0; rewrite ?Z.mul_0_r, ?Z.add_0_r in H0;
     intros E0; rewrite E0 in H0; apply Z.lor_eq_0_iff in H0; lia).

Theorem bitor_pos_neg_spec a b : canon a -> canon b -> a <> [] -> b <> [] ->
  exists d, bitor_pos_neg a b = Ret d /\ wf d /\ - val d = Z.lor (val a) (- val b).
Proof.
  intros Ha Hb Na Nb. pose proof (canon_val_pos a Ha Na) as Pa. pose proof (canon_val_pos b Hb Nb) as Pb.
  unfold bitor_pos_neg. tc_start Z.lor orb bitop_lor false true true 0 1 1 a b Ha Hb.
  rewrite Va, Vb in *. tc_lens a1 b1 Ea Eb La Lb Hr ra rb.
  - tc_dead Hcb cb'. tc_m_nonzero Hfm m. tc_dead Hcr cr'. cbn [orb Z.eqb assert_ bind].
    exists o. split; [reflexivity|]. split; [exact Hwo|]. tc_fin Hfm 0 (-1). lia.
  - cbn [orb Z.eqb assert_ bind app].
    tc_tail true false true cb' cr' (s0 :: rb) Hwrb Hcb Hcr.
    assert (c1' = 0) by (clear Hfm; tc_bits; lia). subst c1'. cbn [orb Z.eqb assert_ bind].
    assert (c2' = 0).
    { destruct Hcb as [E | E]; subst cb'.
      - tc_m_nonzero Hfm m. clear Hfm. tc_bits; lia.
      - clear Hfm. tc_bits; lia. }
    subst c2'. cbn [orb Z.eqb assert_ bind].
    exists (o ++ t). split; [reflexivity|]. split; [apply wf_app; auto|]. rewrite Vol, Hvt.
    tc_fin Hfm 0 (- val (s0 :: rb) - 1 + cb'). lia.
  - tc_dead Hcb cb'. tc_m_nonzero Hfm m. tc_dead Hcr cr'. cbn [orb Z.eqb assert_ bind].
    exists o. split; [rewrite firstn_app_exact by congruence; reflexivity|]. split; [exact Hwo|].
    tc_fin Hfm (val (r0 :: ra)) (-1). lia.
Qed.

Theorem bitor_neg_pos_spec a b : canon a -> canon b -> a <> [] -> b <> [] ->
  exists d, bitor_neg_pos a b = Ret d /\ wf d /\ - val d = Z.lor (- val a) (val b).
Proof.
  intros Ha Hb Na Nb. pose proof (canon_val_pos a Ha Na) as Pa. pose proof (canon_val_pos b Hb Nb) as Pb.
  unfold bitor_neg_pos. tc_start Z.lor orb bitop_lor true false true 1 0 1 a b Ha Hb.
  rewrite Va, Vb in *. tc_lens a1 b1 Ea Eb La Lb Hr ra rb.
  - tc_dead Hca ca'. tc_m_nonzero Hfm m. tc_dead Hcr cr'. cbn [orb Z.eqb assert_ bind].
    exists o. split; [reflexivity|]. split; [exact Hwo|]. tc_fin Hfm (-1) 0. lia.
  - tc_dead Hca ca'. tc_m_nonzero Hfm m. tc_dead Hcr cr'. cbn [orb Z.eqb assert_ bind].
    exists o. split; [reflexivity|]. split; [exact Hwo|]. tc_fin Hfm (-1) (val (s0 :: rb)). lia.
  - cbn [orb Z.eqb assert_ bind app].
    tc_tail true false true ca' cr' (r0 :: ra) Hwra Hca Hcr.
    assert (c1' = 0) by (clear Hfm; tc_bits; lia). subst c1'. cbn [orb Z.eqb assert_ bind].
    assert (c2' = 0).
    { destruct Hca as [E | E]; subst ca'.
      - tc_m_nonzero Hfm m. clear Hfm. tc_bits; lia.
      - clear Hfm. tc_bits; lia. }
    subst c2'. cbn [orb Z.eqb assert_ bind].
    exists (o ++ t). split; [reflexivity|]. split; [apply wf_app; auto|]. rewrite Vol, Hvt.
    tc_fin Hfm (- val (r0 :: ra) - 1 + ca') 0. lia.
Qed.

Theorem bitor_neg_neg_spec a b : canon a -> canon b -> a <> [] -> b <> [] ->
  exists d, bitor_neg_neg a b = Ret d /\ wf d /\ - val d = Z.lor (- val a) (- val b).
Proof.
  intros Ha Hb Na Nb. pose proof (canon_val_pos a Ha Na) as Pa. pose proof (canon_val_pos b Hb Nb) as Pb.
  unfold bitor_neg_neg. tc_start Z.lor orb bitop_lor true true true 1 1 1 a b Ha Hb.
  rewrite Va, Vb in *. tc_lens a1 b1 Ea Eb La Lb Hr ra rb.
  - tc_dead Hca ca'. tc_dead Hcb cb'. tc_m_nonzero Hfm m. tc_dead Hcr cr'. cbn [orb Z.eqb assert_ bind].
    exists o. split; [reflexivity|]. split; [exact Hwo|]. tc_fin Hfm (-1) (-1). lia.
  - tc_dead Hca ca'. tc_m_nonzero Hfm m. tc_dead Hcr cr'. cbn [orb Z.eqb assert_ bind].
    exists o. split; [reflexivity|]. split; [exact Hwo|].
    tc_fin Hfm (-1) (- val (s0 :: rb) - 1 + cb'). lia.
  - tc_dead Hcb cb'. tc_m_nonzero Hfm m. tc_dead Hcr cr'. cbn [orb Z.eqb assert_ bind].
    exists o. split; [rewrite firstn_app_exact by congruence; reflexivity|]. split; [exact Hwo|].
    tc_fin Hfm (- val (r0 :: ra) - 1 + ca') (-1). lia.
Qed.

Theorem bitxor_pos_neg_spec a b : canon a -> canon b -> a <> [] -> b <> [] ->
  exists d, bitxor_pos_neg a b = Ret d /\ wf d /\ - val d = Z.lxor (val a) (- val b).
Proof.
  intros Ha Hb Na Nb. pose proof (canon_val_pos a Ha Na) as Pa. pose proof (canon_val_pos b Hb Nb) as Pb.
  unfold bitxor_pos_neg. tc_start Z.lxor xorb bitop_lxor false true true 0 1 1 a b Ha Hb.
  rewrite Va, Vb in *. tc_lens a1 b1 Ea Eb La Lb Hr ra rb.
  - tc_dead Hcb cb'. cbn [orb Z.eqb assert_ bind].
    destruct (push1_spec cr' o Hwo Hcr) as [Hwp Hvp]. exists (push1 cr' o). split; [reflexivity|].
    split; [exact Hwp|]. rewrite Hvp, <- EM. tc_fin Hfm 0 (-1). unfold Z.lnot. lia.
  - cbn [orb Z.eqb assert_ bind app].
    tc_tail true false true cb' cr' (s0 :: rb) Hwrb Hcb Hcr.
    assert (c1' = 0) by (clear Hfm; tc_bits; lia). subst c1'. cbn [orb Z.eqb assert_ bind].
    assert (Hwd : wf (o ++ t)) by (apply wf_app; auto).
    destruct (push1_spec c2' (o ++ t) Hwd Hc2') as [Hwp Hvp]. exists (push1 c2' (o ++ t)).
    split; [reflexivity|]. split; [exact Hwp|]. rewrite Hvp, pow_app_len, Llt, <- EM, Vol, Hvt. fold M'.
    tc_fin Hfm 0 (- val (s0 :: rb) - 1 + cb'). lia.
  - tc_dead Hcb cb'. cbn [orb Z.eqb assert_ bind app].
    tc_tail false true true 0 cr' (r0 :: ra) Hwra bit0 Hcr. cbn [orb Z.eqb assert_ bind].
    assert (Hwd : wf (o ++ t)) by (apply wf_app; auto).
    destruct (push1_spec c2' (o ++ t) Hwd Hc2') as [Hwp Hvp]. exists (push1 c2' (o ++ t)).
    split; [reflexivity|]. split; [exact Hwp|]. rewrite Hvp, pow_app_len, Llt, <- EM, Vol, Hvt. fold M'.
    tc_fin Hfm (val (r0 :: ra)) (-1). unfold Z.lnot. lia.
Qed.

Theorem bitxor_neg_pos_spec a b : canon a -> canon b -> a <> [] -> b <> [] ->
  exists d, bitxor_neg_pos a b = Ret d /\ wf d /\ - val d = Z.lxor (- val a) (val b).
Proof.
  intros Ha Hb Na Nb. pose proof (canon_val_pos a Ha Na) as Pa. pose proof (canon_val_pos b Hb Nb) as Pb.
  unfold bitxor_neg_pos. tc_start Z.lxor xorb bitop_lxor true false true 1 0 1 a b Ha Hb.
  rewrite Va, Vb in *. tc_lens a1 b1 Ea Eb La Lb Hr ra rb.
  - tc_dead Hca ca'. cbn [orb Z.eqb assert_ bind].
    destruct (push1_spec cr' o Hwo Hcr) as [Hwp Hvp]. exists (push1 cr' o). split; [reflexivity|].
    split; [exact Hwp|]. rewrite Hvp, <- EM. tc_fin Hfm (-1) 0. unfold Z.lnot. lia.
  - tc_dead Hca ca'. cbn [orb Z.eqb assert_ bind app].
    tc_tail false true true 0 cr' (s0 :: rb) Hwrb bit0 Hcr. cbn [orb Z.eqb assert_ bind].
    assert (Hwd : wf (o ++ t)) by (apply wf_app; auto).
    destruct (push1_spec c2' (o ++ t) Hwd Hc2') as [Hwp Hvp]. exists (push1 c2' (o ++ t)).
    split; [reflexivity|]. split; [exact Hwp|]. rewrite Hvp, pow_app_len, Llt, <- EM, Vol, Hvt. fold M'.
    tc_fin Hfm (-1) (val (s0 :: rb)). unfold Z.lnot. lia.
  - cbn [orb Z.eqb assert_ bind app].
    tc_tail true false true ca' cr' (r0 :: ra) Hwra Hca Hcr.
    assert (c1' = 0) by (clear Hfm; tc_bits; lia). subst c1'. cbn [orb Z.eqb assert_ bind].
    assert (Hwd : wf (o ++ t)) by (apply wf_app; auto).
    destruct (push1_spec c2' (o ++ t) Hwd Hc2') as [Hwp Hvp]. exists (push1 c2' (o ++ t)).
    split; [reflexivity|]. split; [exact Hwp|]. rewrite Hvp, pow_app_len, Llt, <- EM, Vol, Hvt. fold M'.
    tc_fin Hfm (- val (r0 :: ra) - 1 + ca') 0. lia.
Qed.

Theorem bitxor_neg_neg_spec a b : canon a -> canon b -> a <> [] -> b <> [] ->
  exists d, bitxor_neg_neg a b = Ret d /\ wf d /\ val d = Z.lxor (- val a) (- val b).
Proof.
  intros Ha Hb Na Nb. pose proof (canon_val_pos a Ha Na) as Pa. pose proof (canon_val_pos b Hb Nb) as Pb.
  unfold bitxor_neg_neg. tc_start Z.lxor xorb bitop_lxor true true false 1 1 0 a b Ha Hb.
  rewrite Va, Vb in *. tc_lens a1 b1 Ea Eb La Lb Hr ra rb.
  - tc_dead Hca ca'. tc_dead Hcb cb'. cbn [orb Z.eqb assert_ bind].
    exists o. split; [reflexivity|]. split; [exact Hwo|]. tc_fin Hfm (-1) (-1).
    change (Z.lnot (-1)) with 0. lia.
  - tc_dead Hca ca'. cbn [orb Z.eqb assert_ bind app].
    tc_tail true true false cb' 0 (s0 :: rb) Hwrb Hcb bit0.
    assert (c1' = 0) by (clear Hfm; tc_bits; lia). subst c1'. cbn [orb Z.eqb assert_ bind].
    exists (o ++ t). split; [reflexivity|]. split; [apply wf_app; auto|]. rewrite Vol, Hvt.
    tc_fin Hfm (-1) (- val (s0 :: rb) - 1 + cb'). unfold Z.lnot. lia.
  - tc_dead Hcb cb'. cbn [orb Z.eqb assert_ bind app].
    tc_tail true true false ca' 0 (r0 :: ra) Hwra Hca bit0.
    assert (c1' = 0) by (clear Hfm; tc_bits; lia). subst c1'. cbn [orb Z.eqb assert_ bind].
    exists (o ++ t). split; [reflexivity|]. split; [apply wf_app; auto|]. rewrite Vol, Hvt.
    tc_fin Hfm (- val (r0 :: ra) - 1 + ca') (-1). unfold Z.lnot. lia.
Qed.
