(* MulCostProofs.v — C20: erasure.  The instrumented model of MulCost.v computes exactly the
   values of the un-instrumented model of Mul.v (same result, same panics, same fuel
   behaviour); the second component is the work counter. *)
From BigNum Require Import Base BaseLemmas X86 AddSub ShiftCore Mul MulCost.
Open Scope Z_scope.

Definition erases (rec : mrec) (recc : mrec_c) : Prop :=
  forall a b c, rec a b c = omap fst (recc a b c).

Lemma mac_digit_erase p acc b c : mac_digit p acc b c = omap fst (mac_digit_c p acc b c).
Proof.
  unfold mac_digit_c. destruct (Z.eqb_spec c 0) as [->|H].
  - unfold mac_digit. cbn. reflexivity.
  - destruct (mac_digit p acc b c); reflexivity.
Qed.

Lemma long_mul_erase p y : forall x acc, long_mul p acc x y = omap fst (long_mul_c p acc x y).
Proof.
  induction x as [|xi x IH]; intros acc; [reflexivity|].
  cbn [long_mul long_mul_c]. rewrite mac_digit_erase.
  destruct (mac_digit_c p acc y xi) as [[a1 w1]| |]; cbn [omap bind fst snd]; try reflexivity.
  destruct x as [|x2 x']; [reflexivity|].
  destruct a1 as [|d rest]; [reflexivity|].
  rewrite IH. destruct (long_mul_c p rest (x2 :: x') y) as [[r w]| |]; reflexivity.
Qed.

Lemma on_slice_erase k s acc f fc : (forall a, f a = omap fst (fc a)) ->
  on_slice k s acc f = omap fst (on_slice_c k s acc fc).
Proof.
  intros H. unfold on_slice, on_slice_c. destruct (k <=? length acc)%nat; cbn [assert_ bind omap]; [|reflexivity].
  rewrite H. destruct (fc (skipn k acc)) as [[t w]| |]; reflexivity.
Qed.

Lemma half_kara_erase rec recc p acc x y : erases rec recc ->
  half_kara rec p acc x y = omap fst (half_kara_c recc p acc x y).
Proof.
  intros H. unfold half_kara, half_kara_c. rewrite H.
  destruct (recc acc x (firstn (half_split p y) y)) as [[a1 w1]| |]; cbn [omap bind fst snd]; try reflexivity.
  rewrite (on_slice_erase _ _ _ _ (fun s => recc s x (skipn (half_split p y) y))) by (intros; apply H).
  destruct (on_slice_c (half_split p y) 208 a1 (fun s => recc s x (skipn (half_split p y) y))) as [[r w]| |]; reflexivity.
Qed.

Lemma karatsuba_erase rec recc p acc x y : erases rec recc ->
  karatsuba rec p acc x y = omap fst (karatsuba_c recc p acc x y).
Proof.
  intros H. unfold karatsuba, karatsuba_c.
  destruct (kara_split p x <=? length y)%nat; cbn [assert_ bind omap]; [|reflexivity].
  rewrite H. destruct (recc _ (skipn (kara_split p x) x) (skipn (kara_split p x) y)) as [[p2 w2]| |];
    cbn [omap bind fst snd]; try reflexivity.
  destruct (kara_add_p2 _ _ acc p2) as [acc2| |]; cbn [bind]; try reflexivity.
  rewrite H. destruct (recc _ (firstn (kara_split p x) x) (firstn (kara_split p x) y)) as [[p0 w0]| |];
    cbn [omap bind fst snd]; try reflexivity.
  destruct (kara_add_p0 _ _ acc2 p0) as [acc4| |]; cbn [bind]; try reflexivity.
  destruct (sub_sign _ (skipn _ x) (firstn _ x)) as [j0| |]; cbn [bind]; try reflexivity.
  destruct (sub_sign _ (skipn _ y) (firstn _ y)) as [j1| |]; cbn [bind]; try reflexivity.
  destruct (sign_mul (fst j0) (fst j1)).
  - rewrite (on_slice_erase _ _ _ _ (fun s => recc s (snd j0) (snd j1))) by (intros; apply H).
    destruct (on_slice_c _ 212 acc4 _) as [[r w]| |]; reflexivity.
  - reflexivity.
  - rewrite H. destruct (recc _ (snd j0) (snd j1)) as [[p1 w1]| |]; cbn [omap bind fst snd]; try reflexivity.
    destruct (on_slice _ 212 acc4 _) as [r| |]; reflexivity.
Qed.

Lemma umul_with_erase rec recc p a b : erases rec recc ->
  umul_with rec p a b = omap fst (umul_with_c recc p a b).
Proof.
  intros H. unfold umul_with, umul_with_c, mul3_with, mul3_with_c.
  destruct a as [|a0 [|a1 a']]; destruct b as [|b0 [|b1 b']]; try reflexivity;
    try (match goal with |- context [scalar_mul ?u ?v] => destruct (scalar_mul u v) end; reflexivity).
  rewrite H. match goal with |- context [recc ?u ?v ?w] => destruct (recc u v w) as [[r w']| |] end; reflexivity.
Qed.

Lemma imul_with_erase rec recc p x y : erases rec recc ->
  imul_with rec p x y = omap fst (imul_with_c recc p x y).
Proof.
  intros H. unfold imul_with, imul_with_c. rewrite (umul_with_erase rec recc) by auto.
  destruct (umul_with_c recc p (mag x) (mag y)) as [[m w]| |]; reflexivity.
Qed.

Lemma mapM_erase {A C} (f : A -> outcome C) (fc : A -> outcome (C * Z)) :
  (forall a, f a = omap fst (fc a)) -> forall l, mapM f l = omap fst (mapM_c fc l).
Proof.
  intros H. induction l as [|a l IH]; [reflexivity|].
  cbn [mapM mapM_c]. rewrite H. destruct (fc a) as [[c w]| |]; cbn [omap bind fst snd]; try reflexivity.
  rewrite IH. destruct (mapM_c fc l) as [[cs ws]| |]; reflexivity.
Qed.

Lemma toom3_erase rec recc p acc x y : erases rec recc ->
  toom3 rec p acc x y = omap fst (toom3_c recc p acc x y).
Proof.
  intros H. unfold toom3, toom3_c.
  destruct (toom3_eval p x y) as [pts| |]; cbn [bind omap]; try reflexivity.
  rewrite (mapM_erase _ (fun xy => imul_with_c recc p (fst xy) (snd xy))) by (intros; apply imul_with_erase; auto).
  destruct (mapM_c _ pts) as [[rs w]| |]; cbn [omap bind fst snd]; try reflexivity.
  destruct (toom3_finish p acc y rs); reflexivity.
Qed.

Lemma mac3_body_erase rec recc p acc b c : erases rec recc ->
  mac3_body rec p acc b c = omap fst (mac3_body_c recc p acc b c).
Proof.
  intros H. unfold mac3_body, mac3_body_c.
  destruct (cmp_eval (mp_swap_cmp p) (lenZ b) (lenZ c));
    (destruct (cmp_eval (mp_long_cmp p) _ _); [apply long_mul_erase|];
     destruct (cmp_eval (mp_half_cmp p) _ _); [apply half_kara_erase; auto|];
     destruct (cmp_eval (mp_kara_cmp p) _ _); [apply karatsuba_erase; auto|apply toom3_erase; auto]).
Qed.

Lemma mac3_strip_erase body bodyc acc b c : (forall a x y, body a x y = omap fst (bodyc a x y)) ->
  mac3_strip body acc b c = omap fst (mac3_strip_c bodyc acc b c).
Proof.
  intros H. unfold mac3_strip, mac3_strip_c.
  destruct (low_zeros b) as [nb|]; [|reflexivity].
  apply on_slice_erase. intros acc1.
  destruct (low_zeros c) as [nc|]; [|reflexivity].
  apply on_slice_erase. intros acc2. apply H.
Qed.

Theorem mac3_erase p : forall fuel, erases (mac3 fuel p) (mac3_c fuel p).
Proof.
  induction fuel as [|f IH]; intros a b c; [reflexivity|].
  cbn [mac3 mac3_c]. apply mac3_strip_erase. intros. apply mac3_body_erase. exact IH.
Qed.

(** the instrumented product returns the value of the plain product *)
Theorem umul_erase p a b : umul p a b = omap fst (umul_c p a b).
Proof. unfold umul, umul_c. apply umul_with_erase. apply mac3_erase. Qed.

(** hence, on canonical operands, the instrumented product is exact and [cost] is defined *)
Lemma cost_defined p a b r : umul p a b = Ret r -> exists w, umul_c p a b = Ret (r, w) /\ cost p a b = Ret w.
Proof.
  rewrite umul_erase. unfold cost. destruct (umul_c p a b) as [[r' w]| |]; cbn; try discriminate.
  intros E. injection E as ->. exists w. split; reflexivity.
Qed.
