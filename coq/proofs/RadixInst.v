(* RadixInst.v — the kernel hypotheses of RadixProofs*.v / RadixTextProofs.v discharged with
   the theorems of the other areas, giving statements about the entry points of RadixApi.v:
     mac_with_carry        MulProofs.mac_with_carry_spec
     udivrem               DivProofsApi.udivrem_spec
     div_rem_digit         DivProofs.div_rem_digit_spec
     the four bit-regrouping routines   BitDigitsProofs.*_spec (exact and inexact widths)
     umul                  MulProofs5.umul_spec   (C02; [umul_spec_holds] at the end of this file)
   `&BigUint * &BigUint` ([umul]) is used only by the big-base path of to_radix_digits_le
   (operands of >= 64 digits).  The output-side theorems [inst_*] were proved before C02 landed
   and carry the premise [small_or_umul u] = "u has fewer than 64 digits, or umul meets its
   specification"; [small_or_umul_holds] discharges it for every u, and props/C06.v states the
   theorems without it. *)
From BigNum Require Import Base BaseLemmas AddSub AddSubProofs Mul MulProofs MulProofs5 Div DivProofs DivProofsApi
  BitDigits BitDigitsProofs SpecBytes BytesLemmas
  Radix RadixText RadixKernels RadixApi SpecRadix RadixProofs RadixProofs2 RadixProofs3 RadixTextProofs.
Open Scope Z_scope.

(** the statement of C02's umul_spec *)
Definition umul_spec_statement : Prop :=
  forall mp a b, mul_ok mp = true -> canon a -> canon b -> umul mp a b = Ret (enc (val a * val b)).
Definition small_or_umul (u : list Z) : Prop := zlen u < 64 \/ umul_spec_statement.

(** * kernels *)
Lemma K_mac p b c acc : digit b -> digit c -> digit acc ->
  k_mac p 0 b c acc = Ret ((b * c + acc) mod B, (b * c + acc) / B).
Proof.
  intros Hb Hc Ha. unfold k_mac.
  destruct (mac_with_carry_spec 0 b c acc) as (lo & hi & E & Dl & Dh & V); auto.
  { unfold digit; pose proof B_pos; lia. }
  rewrite E. unfold digit in *. pose proof B_pos.
  assert (Hq : (b * c + acc) / B = hi) by (symmetry; apply Z.div_unique with lo; lia).
  assert (Hm : (b * c + acc) mod B = lo) by (symmetry; apply Z.mod_unique with hi; lia).
  rewrite Hq, Hm. reflexivity.
Qed.
Lemma K_divrem p : radix_std p -> forall a b, canon a -> canon b ->
  k_divrem p a b = if val b =? 0 then Panic DivZero else Ret (enc (val a / val b), enc (val a mod val b)).
Proof. intros S a b Ca Cb. unfold k_divrem. apply udivrem_spec; auto. apply (rs_div p S). Qed.
Lemma K_divdig p a b : wf a -> 0 < b < B -> k_divdig p a b = Ret (enc (val a / b), val a mod b).
Proof. intros. unfold k_divdig. apply div_rem_digit_spec; auto. Qed.
Lemma K_from_bits p v bits : (bits = 1 \/ bits = 2 \/ bits = 4 \/ bits = 8) -> v <> [] ->
  inb (2 ^ bits) v -> k_from_bits p v bits = Ret (enc (le_value (2 ^ bits) v)).
Proof. intros. apply from_bitwise_digits_le_spec; auto. Qed.
Lemma K_from_inexact p v bits : (bits = 3 \/ bits = 5 \/ bits = 6 \/ bits = 7) -> v <> [] ->
  inb (2 ^ bits) v -> k_from_inexact p v bits = Ret (enc (le_value (2 ^ bits) v)).
Proof. intros. apply from_inexact_bitwise_digits_le_spec; auto. Qed.
Lemma K_to_bits p u bits : (bits = 1 \/ bits = 2 \/ bits = 4 \/ bits = 8) -> canon u -> u <> [] ->
  k_to_bits p u bits = Ret (le_digits (2 ^ bits) (val u)).
Proof. intros. apply to_bitwise_digits_le_spec; auto. Qed.
Lemma K_to_inexact p u bits : (bits = 3 \/ bits = 5 \/ bits = 6 \/ bits = 7) -> canon u -> u <> [] ->
  k_to_inexact p u bits = Ret (le_digits (2 ^ bits) (val u)).
Proof. intros. apply to_inexact_bitwise_digits_le_spec; auto. Qed.

(** a multiplication that meets the specification by definition (proof device only) *)
Definition mul_ref (a b : list Z) : outcome (list Z) := Ret (enc (val a * val b)).
Lemma mul_ref_spec a b : canon a -> canon b -> mul_ref a b = Ret (enc (val a * val b)).
Proof. reflexivity. Qed.
Lemma K_mul p : radix_std p -> umul_spec_statement -> forall a b, canon a -> canon b ->
  k_mul p a b = Ret (enc (val a * val b)).
Proof. intros S H a b Ca Cb. unfold k_mul. apply H; auto. apply (rs_mul p S). Qed.

(** * input side (closed) *)
Theorem inst_from_radix_digits_be p v radix : radix_std p -> 3 <= radix < 256 -> rpow2 radix = false ->
  v <> [] -> inb radix v ->
  u_from_radix_digits_be p v radix = Ret (enc (be_value radix v)).
Proof. intros. apply from_radix_digits_be_spec; auto. apply (K_mac p). Qed.

Theorem inst_from_radix_le p buf radix : radix_std p -> bytes buf ->
  u_from_radix_le p buf radix = omap (option_map enc) (spec_from_radix_le buf radix).
Proof. intros. apply from_radix_le_spec; auto using (K_mac p), (K_from_bits p), (K_from_inexact p). Qed.
Theorem inst_from_radix_be p buf radix : radix_std p -> bytes buf ->
  u_from_radix_be p buf radix = omap (option_map enc) (spec_from_radix_be buf radix).
Proof. intros. apply from_radix_be_spec; auto using (K_mac p), (K_from_bits p), (K_from_inexact p). Qed.
Theorem inst_ifrom_radix_le p s buf radix : radix_std p -> bytes buf ->
  i_from_radix_le p s buf radix = omap (option_map ienc) (spec_ifrom_radix_le s buf radix).
Proof. intros. apply ifrom_radix_le_spec; auto using (K_mac p), (K_from_bits p), (K_from_inexact p). Qed.
Theorem inst_ifrom_radix_be p s buf radix : radix_std p -> bytes buf ->
  i_from_radix_be p s buf radix = omap (option_map ienc) (spec_ifrom_radix_be s buf radix).
Proof. intros. apply ifrom_radix_be_spec; auto using (K_mac p), (K_from_bits p), (K_from_inexact p). Qed.

Theorem inst_from_str_radix p s radix : radix_std p ->
  u_from_str_radix p s radix = omap (pr_map enc) (spec_from_str false s radix).
Proof. intros. apply from_str_radix_spec; auto using (K_mac p), (K_from_bits p), (K_from_inexact p). Qed.
Theorem inst_ifrom_str_radix p s radix : radix_std p ->
  i_from_str_radix p s radix = omap (pr_map ienc) (spec_from_str true s radix).
Proof. intros. apply ifrom_str_radix_spec; auto using (K_mac p), (K_from_bits p), (K_from_inexact p). Qed.
Theorem inst_parse_bytes p buf radix : radix_std p ->
  u_parse_bytes p buf radix = omap (option_map enc) (spec_parse_bytes false buf radix).
Proof. intros. apply parse_bytes_spec; auto using (K_mac p), (K_from_bits p), (K_from_inexact p). Qed.
Theorem inst_iparse_bytes p buf radix : radix_std p ->
  i_parse_bytes p buf radix = omap (option_map ienc) (spec_parse_bytes true buf radix).
Proof. intros. apply iparse_bytes_spec; auto using (K_mac p), (K_from_bits p), (K_from_inexact p). Qed.

(** * output side *)
Theorem inst_to_radix_digits_le p u radix : radix_std p -> small_or_umul u ->
  3 <= radix < 256 -> rpow2 radix = false -> canon u -> u <> [] ->
  u_to_radix_digits_le p u radix = Ret (le_digits radix (val u)).
Proof.
  intros S [Hs|Hm] Hr Hp Cu Hu; unfold u_to_radix_digits_le.
  - rewrite (to_radix_digits_le_irrel (k_mul p) mul_ref) by auto.
    apply to_radix_digits_le_spec; auto using mul_ref_spec, (K_divrem p), (K_divdig p); exact (k_to_bits p).
  - apply to_radix_digits_le_spec; auto using (K_mul p), (K_divrem p), (K_divdig p); exact (k_to_bits p).
Qed.

Theorem inst_to_radix_le p u radix : radix_std p -> small_or_umul u -> 2 <= radix <= 256 -> canon u ->
  u_to_radix_le p u radix = Ret (spec_to_radix_le (val u) radix).
Proof.
  intros S [Hs|Hm] Hr Cu; unfold u_to_radix_le.
  - rewrite (to_radix_le_irrel (k_mul p) mul_ref) by auto.
    apply to_radix_le_spec; auto using mul_ref_spec, (K_divrem p), (K_divdig p), (K_to_bits p), (K_to_inexact p).
  - apply to_radix_le_spec; auto using (K_mul p), (K_divrem p), (K_divdig p), (K_to_bits p), (K_to_inexact p).
Qed.
Theorem inst_to_radix_be p u radix : radix_std p -> small_or_umul u -> 2 <= radix <= 256 -> canon u ->
  u_to_radix_be p u radix = Ret (spec_to_radix_be (val u) radix).
Proof.
  intros S H Hr Cu. unfold u_to_radix_be, to_radix_be.
  change (to_radix_le (k_mul p) (k_divrem p) (k_divdig p) (k_to_bits p) (k_to_inexact p) p u radix)
    with (u_to_radix_le p u radix).
  rewrite inst_to_radix_le by auto. reflexivity.
Qed.

Theorem inst_to_str_radix p u radix : radix_std p -> small_or_umul u -> canon u ->
  u_to_str_radix p u radix = spec_to_str (val u) radix.
Proof.
  intros S [Hs|Hm] Cu; unfold u_to_str_radix.
  - rewrite (to_str_radix_irrel (k_mul p) mul_ref) by auto.
    apply to_str_radix_spec; auto using mul_ref_spec, (K_divrem p), (K_divdig p), (K_to_bits p), (K_to_inexact p).
  - apply to_str_radix_spec; auto using (K_mul p), (K_divrem p), (K_divdig p), (K_to_bits p), (K_to_inexact p).
Qed.
Theorem inst_ito_str_radix p x radix : radix_std p -> small_or_umul (mag x) -> icanon x ->
  i_to_str_radix p x radix = spec_to_str (ival x) radix.
Proof.
  intros S [Hs|Hm] Cx; unfold i_to_str_radix.
  - rewrite (ito_str_radix_irrel (k_mul p) mul_ref) by auto.
    apply ito_str_radix_spec; auto using mul_ref_spec, (K_divrem p), (K_divdig p), (K_to_bits p), (K_to_inexact p).
  - apply ito_str_radix_spec; auto using (K_mul p), (K_divrem p), (K_divdig p), (K_to_bits p), (K_to_inexact p).
Qed.

Theorem inst_fmt_u p k fl u : radix_std p -> small_or_umul u -> canon u ->
  u_fmt p k fl u = spec_fmt k fl (val u).
Proof.
  intros S [Hs|Hm] Cu; unfold u_fmt.
  - rewrite (fmt_u_irrel (k_mul p) mul_ref) by auto.
    apply fmt_u_spec; auto using mul_ref_spec, (K_divrem p), (K_divdig p), (K_to_bits p), (K_to_inexact p).
  - apply fmt_u_spec; auto using (K_mul p), (K_divrem p), (K_divdig p), (K_to_bits p), (K_to_inexact p).
Qed.
Theorem inst_fmt_i p k fl x : radix_std p -> small_or_umul (mag x) -> icanon x ->
  i_fmt p k fl x = spec_fmt k fl (ival x).
Proof.
  intros S [Hs|Hm] Cx; unfold i_fmt.
  - rewrite (fmt_i_irrel (k_mul p) mul_ref) by auto.
    apply fmt_i_spec; auto using mul_ref_spec, (K_divrem p), (K_divdig p), (K_to_bits p), (K_to_inexact p).
  - apply fmt_i_spec; auto using (K_mul p), (K_divrem p), (K_divdig p), (K_to_bits p), (K_to_inexact p).
Qed.

(** * round trips *)
Theorem inst_rt_str p u radix : radix_std p -> small_or_umul u -> 2 <= radix <= 36 -> canon u ->
  u_rt_str p u radix = Ret (POk u).
Proof.
  intros S H Hr Cu. unfold u_rt_str. rewrite inst_to_str_radix by auto.
  destruct (spec_to_str (val u) radix) as [s| |] eqn:E.
  - cbn [bind]. rewrite inst_from_str_radix by auto.
    rewrite (spec_str_roundtrip false (val u) radix s Hr (or_intror (val_nonneg u (proj1 Cu))) E).
    cbn [omap bind pr_map]. rewrite enc_of_canon by auto. reflexivity.
  - unfold spec_to_str, radix_in in E.
    replace ((2 <=? radix) && (radix <=? 36)) with true in E
      by (symmetry; apply andb_true_iff; split; apply Z.leb_le; lia). discriminate.
  - unfold spec_to_str in E. destruct (radix_in 2 36 radix); discriminate.
Qed.
Theorem inst_irt_str p x radix : radix_std p -> small_or_umul (mag x) -> 2 <= radix <= 36 -> icanon x ->
  i_rt_str p x radix = Ret (POk x).
Proof.
  intros S H Hr Cx. unfold i_rt_str. rewrite inst_ito_str_radix by auto.
  destruct (spec_to_str (ival x) radix) as [s| |] eqn:E.
  - cbn [bind]. rewrite inst_ifrom_str_radix by auto.
    rewrite (spec_str_roundtrip true (ival x) radix s Hr (or_introl eq_refl) E).
    cbn [omap bind pr_map]. rewrite ienc_of_icanon by auto. reflexivity.
  - unfold spec_to_str, radix_in in E.
    replace ((2 <=? radix) && (radix <=? 36)) with true in E
      by (symmetry; apply andb_true_iff; split; apply Z.leb_le; lia). discriminate.
  - unfold spec_to_str in E. destruct (radix_in 2 36 radix); discriminate.
Qed.
Theorem inst_rt_radix_le p u radix : radix_std p -> small_or_umul u -> 2 <= radix <= 256 -> canon u ->
  u_rt_radix_le p u radix = Ret (Some u).
Proof.
  intros S H Hr Cu. unfold u_rt_radix_le. rewrite inst_to_radix_le by auto. cbn [bind].
  pose proof (val_nonneg u (proj1 Cu)) as Hv.
  rewrite inst_from_radix_le by (auto; apply spec_to_radix_le_bytes; auto).
  rewrite spec_radix_roundtrip_le by auto. cbn [omap bind option_map]. rewrite enc_of_canon by auto. reflexivity.
Qed.
Theorem inst_rt_radix_be p u radix : radix_std p -> small_or_umul u -> 2 <= radix <= 256 -> canon u ->
  u_rt_radix_be p u radix = Ret (Some u).
Proof.
  intros S H Hr Cu. unfold u_rt_radix_be. rewrite inst_to_radix_be by auto. cbn [bind].
  pose proof (val_nonneg u (proj1 Cu)) as Hv.
  rewrite inst_from_radix_be by (auto; unfold spec_to_radix_be; apply bytes_rev, spec_to_radix_le_bytes; auto).
  rewrite spec_radix_roundtrip_be by auto. cbn [omap bind option_map]. rewrite enc_of_canon by auto. reflexivity.
Qed.

(** * the multiplication premise, discharged (C02: MulProofs5.umul_spec) *)
Lemma umul_spec_holds : umul_spec_statement.
Proof. intros mp a b Hp Ca Cb. apply umul_spec; assumption. Qed.
Lemma small_or_umul_holds u : small_or_umul u.
Proof. right. exact umul_spec_holds. Qed.
