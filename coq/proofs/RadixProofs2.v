(* RadixProofs2.v — C06: to_radix_digits_le (per-digit chunks, big-base path, head),
   to_radix_le / to_radix_be, from_radix_le / from_radix_be.  Kernels are Section variables. *)
From BigNum Require Import Base BaseLemmas AddSub AddSubProofs Div DivProofs SpecBytes BytesLemmas
  Radix SpecRadix RadixProofs.
Open Scope Z_scope.

Ltac splits := repeat match goal with |- _ /\ _ => split end.

(** * small helpers *)
Lemma strip_app_keep X t : strip t = t -> t <> [] -> strip (X ++ t) = X ++ t.
Proof.
  intros Ht Hne. induction X as [|x X IH]; [exact Ht|].
  change ((x :: X) ++ t) with (x :: (X ++ t)). rewrite strip_cons, IH.
  destruct (X ++ t) eqn:E; [|reflexivity]. apply app_eq_nil in E as [_ ?]. congruence.
Qed.

Lemma digits_char b l n : 1 < b -> inb b l -> strip l = l -> le_value b l = n -> le_digits b n = l.
Proof. intros Hb H Hs <-. apply le_digits_of_list; auto. Qed.

Lemma enc_length_le n k : 0 <= n < B ^ Z.of_nat k -> (length (enc n) <= k)%nat.
Proof.
  intros Hn. destruct (le_lt_dec (length (enc n)) k) as [|Hgt]; [auto|exfalso].
  assert (Hne : enc n <> []) by (intros E; rewrite E in Hgt; cbn in Hgt; lia).
  pose proof (canon_lower (enc n) (enc_canon n) Hne) as L. rewrite enc_val in L by lia.
  assert (B ^ Z.of_nat k <= B ^ (Z.of_nat (length (enc n)) - 1))
    by (apply Z.pow_le_mono_r; [apply B_pos|lia]).
  lia.
Qed.
Lemma enc_length_gt n k : B ^ Z.of_nat k <= n -> (k < length (enc n))%nat.
Proof.
  intros Hn. pose proof (B_pow_nat k).
  pose proof (val_bound (enc n) (enc_wf n)) as Bd. rewrite enc_val in Bd by lia.
  destruct (le_lt_dec (length (enc n)) k) as [Hle|]; [exfalso|auto].
  assert (B ^ Z.of_nat (length (enc n)) <= B ^ Z.of_nat k)
    by (apply Z.pow_le_mono_r; [apply B_pos|lia]).
  lia.
Qed.
Lemma enc_nonnil n : 0 < n -> enc n <> [].
Proof. intros Hn E. apply enc_nil_iff in E; lia. Qed.
Lemma canon_single d : 0 < d < B -> canon [d].
Proof. intros H. apply (canon_app_last [] d); [apply wf_nil|unfold digit; lia|lia]. Qed.

Lemma emit_fixed_spec n radix r : 2 <= radix <= 256 -> emit_fixed n radix r = le_digits_n n radix r.
Proof.
  intros Hr; revert r; induction n as [|n IH]; intros r; [reflexivity|].
  cbn [emit_fixed le_digits_n]. rewrite IH. f_equal.
  apply Z.mod_small. pose proof (Z.mod_pos_bound r radix ltac:(lia)). lia.
Qed.

Lemma emit_while_char radix : 2 <= radix <= 256 -> forall f r, 0 <= r < radix ^ Z.of_nat f ->
  exists l, emit_while f radix r = Ret l /\ inb radix l /\ strip l = l /\ le_value radix l = r.
Proof.
  intros Hr; induction f as [|f IH]; intros r Hb.
  - cbn [Z.of_nat] in Hb. rewrite Z.pow_0_r in Hb. assert (r = 0) by lia. subst.
    exists []. cbn. repeat split; constructor.
  - cbn [emit_while]. destruct (Z.eqb_spec r 0) as [->|Hnz].
    { exists []. repeat split; constructor. }
    rewrite Nat2Z.inj_succ, Z.pow_succ_r in Hb by lia.
    assert (Hq : 0 <= r / radix < radix ^ Z.of_nat f)
      by (split; [apply Z.div_pos; lia|apply Z.div_lt_upper_bound; lia]).
    destruct (IH _ Hq) as (t & E & It & St & Vt). rewrite E. cbn [bind].
    pose proof (Z.mod_pos_bound r radix ltac:(lia)) as Hm.
    rewrite (Z.mod_small (r mod radix) 256) by lia.
    exists (r mod radix :: t). split; [reflexivity|].
    split; [apply inb_cons; split; auto|].
    split.
    + rewrite strip_cons, St. destruct t as [|t0 t']; [|reflexivity].
      cbn in Vt. destruct (Z.eqb_spec (r mod radix) 0) as [E0|]; [|reflexivity].
      exfalso. pose proof (Z.div_mod r radix ltac:(lia)). lia.
    + cbn [le_value]. rewrite Vt. pose proof (Z.div_mod r radix ltac:(lia)). lia.
Qed.

Lemma rpow2_cases radix : 2 <= radix <= 256 -> rpow2 radix = true ->
  exists bits, 1 <= bits <= 8 /\ radix = 2 ^ bits /\ ilog2 radix = Ret bits.
Proof.
  intros Hr Hp.
  assert (H : forallb (fun k => let r := Z.of_nat k in
                 if (2 <=? r) && rpow2 r
                 then (r =? 2 ^ Z.log2 r) && (1 <=? Z.log2 r) && (Z.log2 r <=? 8) else true) (seq 0 257) = true)
    by (vm_compute; reflexivity).
  rewrite forallb_forall in H. specialize (H (Z.to_nat radix)). rewrite Z2Nat.id in H by lia.
  specialize (H ltac:(apply in_seq; lia)). cbv zeta in H. rewrite Hp in H.
  replace (2 <=? radix) with true in H by (symmetry; apply Z.leb_le; lia). cbn [andb] in H.
  rewrite !andb_true_iff in H. destruct H as [[H1 H2] H3].
  apply Z.eqb_eq in H1. apply Z.leb_le in H2, H3.
  exists (Z.log2 radix). split; [lia|]. split; [auto|].
  unfold ilog2, fls. replace (radix <=? 0) with false by (symmetry; apply Z.leb_gt; lia).
  replace (1 <=? Z.log2 radix + 1) with true by (symmetry; apply Z.leb_le; lia).
  cbn [assert_ bind]. f_equal. lia.
Qed.

Section WithKernels.
Variable k_mul : list Z -> list Z -> outcome (list Z).
Variable k_divrem : list Z -> list Z -> outcome (list Z * list Z).
Variable k_divdig : list Z -> Z -> outcome (list Z * Z).
Variable k_to_bits k_to_inexact : list Z -> Z -> outcome (list Z).
Hypothesis H_mul : forall a b, canon a -> canon b -> k_mul a b = Ret (enc (val a * val b)).
Hypothesis H_divrem : forall a b, canon a -> canon b ->
  k_divrem a b = if val b =? 0 then Panic DivZero else Ret (enc (val a / val b), enc (val a mod val b)).
Hypothesis H_divdig : forall a b, wf a -> 0 < b < B -> k_divdig a b = Ret (enc (val a / b), val a mod b).

Section Radix.
Variables (p : radix_params) (radix base : Z) (power : nat).
Hypothesis S : radix_std p.
Hypothesis Hr : 2 <= radix <= 256.
Hypothesis Hbase : base = radix ^ Z.of_nat power.
Hypothesis Hb : 2 <= base < B.
Hypothesis Hbb : B <= base * base.

Lemma chunk_value r : 0 <= r < base -> le_value radix (le_digits_n power radix r) = r.
Proof. intros H. rewrite le_digits_n_value by lia. rewrite <- Hbase. apply Z.mod_small; auto. Qed.

Lemma inner_big_spec : forall n x, wf x ->
  exists out, inner_big k_divdig n power radix base x = Ret out /\
    length out = (n * power)%nat /\ inb radix out /\
    le_value radix out = val x mod base ^ Z.of_nat n.
Proof.
  induction n as [|n IH]; intros x Wx.
  - exists []. cbn [inner_big Z.of_nat]. rewrite Z.pow_0_r, Z.mod_1_r. repeat split; constructor.
  - cbn [inner_big]. rewrite H_divdig by (auto; lia). cbn [bind].
    destruct (IH (enc (val x / base)) (enc_wf _)) as (rest & E & L & I & V).
    rewrite E. cbn [bind]. rewrite emit_fixed_spec by auto.
    pose proof (Z.mod_pos_bound (val x) base ltac:(lia)) as Hm.
    pose proof (val_nonneg x Wx) as Hx.
    exists (le_digits_n power radix (val x mod base) ++ rest). split; [reflexivity|].
    split; [rewrite app_length, le_digits_n_length, L; cbn; lia|].
    split; [apply inb_app; split; [apply le_digits_n_inb; lia|auto]|].
    rewrite le_value_app, le_digits_n_length, chunk_value by auto. rewrite <- Hbase, V.
    rewrite enc_val by (apply Z.div_pos; lia).
    rewrite Nat2Z.inj_succ, Z.pow_succ_r by lia.
    rewrite Z.rem_mul_r by (try lia; apply Z.pow_nonzero; lia). reflexivity.
Qed.

Lemma small_loop_spec : forall f digits, canon digits -> digits <> [] ->
  val digits < B * base ^ Z.of_nat f ->
  exists res d0, small_loop k_divdig f p power radix base digits = Ret (res, [d0]) /\
    0 < d0 < B /\ inb radix res /\
    le_value radix res + radix ^ Z.of_nat (length res) * d0 = val digits.
Proof.
  induction f as [|f IH]; intros digits Cd Hn Hv.
  - (* no fuel: the value is below B, hence one digit *)
    rewrite Z.pow_0_r, Z.mul_1_r in Hv.
    assert (Hl : (length digits <= 1)%nat).
    { destruct (le_lt_dec (length digits) 1); [auto|exfalso].
      pose proof (canon_lower digits Cd Hn).
      assert (B ^ 1 <= B ^ (Z.of_nat (length digits) - 1)) by (apply Z.pow_le_mono_r; [apply B_pos|lia]).
      rewrite Z.pow_1_r in *. lia. }
    destruct digits as [|d0 [|? ?]]; [congruence| |cbn in Hl; lia].
    exists [], d0. split.
    { cbn [small_loop]. rewrite (rs_small_cmp p S), (rs_small_len p S). reflexivity. }
    apply canon_cons_inv in Cd as (Hd & _ & Hz). specialize (Hz eq_refl).
    unfold digit in Hd. split; [lia|]. split; [constructor|].
    cbn [le_value length Z.of_nat val]. rewrite Z.pow_0_r. lia.
  - cbn [small_loop]. rewrite (rs_small_cmp p S), (rs_small_len p S). cbn [cmp_eval].
    destruct (Z.gtb_spec (zlen digits) 1) as [Hgt|Hle].
    + (* at least two digits: one division step *)
      unfold zlen in Hgt.
      pose proof (canon_lower digits Cd Hn) as Lo.
      assert (B ^ 1 <= B ^ (Z.of_nat (length digits) - 1)) by (apply Z.pow_le_mono_r; [apply B_pos|lia]).
      rewrite Z.pow_1_r in *.
      rewrite H_divdig by (try apply Cd; lia). cbn [bind].
      set (v := val digits) in *.
      assert (Hq : 1 <= v / base) by (apply Z.div_le_lower_bound; lia).
      assert (Hq2 : v / base < B * base ^ Z.of_nat f).
      { rewrite Nat2Z.inj_succ, Z.pow_succ_r in Hv by lia.
        apply Z.div_lt_upper_bound; [lia|]. nia. }
      assert (Hne : enc (v / base) <> []) by (apply enc_nonnil; lia).
      destruct (IH (enc (v / base)) (enc_canon _) Hne)
        as (res & d0 & E & Hd0 & I & V); [rewrite enc_val by lia; auto|].
      rewrite E. cbn [bind]. rewrite emit_fixed_spec by auto.
      pose proof (Z.mod_pos_bound v base ltac:(lia)) as Hm.
      exists (le_digits_n power radix (v mod base) ++ res), d0. split; [reflexivity|].
      split; [auto|]. split; [apply inb_app; split; [apply le_digits_n_inb; lia|auto]|].
      rewrite le_value_app, app_length, le_digits_n_length, chunk_value by auto.
      rewrite Nat2Z.inj_add, Z.pow_add_r, <- Hbase by lia.
      rewrite enc_val in V by lia.
      pose proof (Z.div_mod v base ltac:(lia)). nia.
    + unfold zlen in Hle.
      destruct digits as [|d0 [|? ?]]; [congruence| |cbn [length] in Hle; lia].
      exists [], d0. split; [reflexivity|].
      apply canon_cons_inv in Cd as (Hd & _ & Hz). specialize (Hz eq_refl).
      unfold digit in Hd. split; [lia|]. split; [constructor|].
      cbn [le_value length Z.of_nat val]. rewrite Z.pow_0_r. lia.
Qed.

Section Big.
Variables (bb : list Z) (bp : nat).
Hypothesis Cbb : canon bb.
Hypothesis Vbb : val bb = base ^ Z.of_nat bp.
Hypothesis Lbb : B <= val bb.

Lemma outer_big_spec : forall f digits, canon digits -> digits <> [] -> (length digits <= f)%nat ->
  exists res d, outer_big k_divrem k_divdig f p bp power radix base bb digits = Ret (res, d) /\
    canon d /\ d <> [] /\ (length d <= length digits)%nat /\ inb radix res /\
    le_value radix res + radix ^ Z.of_nat (length res) * val d = val digits.
Proof.
  induction f as [|f IH]; intros digits Cd Hn Hf.
  - destruct digits; [congruence|cbn in Hf; lia].
  - cbn [outer_big]. rewrite cmp_slice_spec by auto. cbn [bind].
    rewrite (rs_big_cmp p S).
    destruct (Z.compare_spec (val digits) (val bb)) as [He|Hlt|Hgt]; cbn [cmp_eval_c].
    1,2: exists [], digits; split; [reflexivity|]; split; [auto|]; split; [auto|]; split; [lia|];
      split; [constructor|]; cbn [le_value length Z.of_nat]; rewrite Z.pow_0_r; lia.
    rewrite H_divrem by auto.
    replace (val bb =? 0) with false by (symmetry; apply Z.eqb_neq; pose proof B_pos; lia).
    cbn [bind]. set (v := val digits) in *. set (vb := val bb) in *.
    pose proof B_pos as HB.
    pose proof (Z.mod_pos_bound v vb ltac:(lia)) as Hm.
    destruct (inner_big_spec bp (enc (v mod vb)) (enc_wf _)) as (out & Eo & Lo & Io & Vo).
    rewrite Eo. cbn [bind]. rewrite enc_val in Vo by lia.
    fold vb in Vbb. rewrite <- Vbb, Z.mod_mod in Vo by lia.
    assert (Hq : 1 <= v / vb) by (apply Z.div_le_lower_bound; lia).
    assert (Hql : (length (enc (v / vb)) <= f)%nat).
    { assert (Hl1 : (length (enc (v / vb)) <= length digits - 1)%nat).
      { apply enc_length_le. split; [lia|].
        pose proof (val_bound digits (proj1 Cd)) as Bd. fold v in Bd.
        assert (Hl0 : (0 < length digits)%nat) by (destruct digits; [congruence|cbn; lia]).
        replace (Z.of_nat (length digits)) with (Z.succ (Z.of_nat (length digits - 1))) in Bd by lia.
        rewrite Z.pow_succ_r in Bd by lia.
        pose proof (B_pow_nat (length digits - 1)).
        apply Z.div_lt_upper_bound; [lia|]. nia. }
      lia. }
    assert (Hne : enc (v / vb) <> []) by (apply enc_nonnil; lia).
    destruct (IH (enc (v / vb)) (enc_canon _) Hne Hql)
      as (res & d & E & Cd' & Nd & Ld & Ir & Vr).
    rewrite E. cbn [bind].
    exists (out ++ res), d. split; [reflexivity|]. split; [auto|]. split; [auto|].
    split.
    { assert ((length (enc (v / vb)) <= length digits)%nat); [|lia].
      apply enc_length_le. split; [lia|].
      pose proof (val_bound digits (proj1 Cd)) as Bd. fold v in Bd.
      assert (v / vb <= v) by (apply Z.div_le_upper_bound; nia). lia. }
    split; [apply inb_app; auto|].
    rewrite le_value_app, app_length, Nat2Z.inj_add, Z.pow_add_r by lia.
    assert (Hpow : radix ^ Z.of_nat (length out) = vb).
    { rewrite Lo, Nat2Z.inj_mul, (Z.mul_comm (Z.of_nat bp)), Z.pow_mul_r, <- Hbase by lia. symmetry; exact Vbb. }
    rewrite Hpow.
    rewrite enc_val in Vr by lia. rewrite Vo.
    pose proof (Z.div_mod v vb ltac:(lia)). nia.
Qed.
End Big.

Lemma square_step bb : canon bb -> base <= val bb ->
  (length bb < length (enc (val bb * val bb)))%nat.
Proof.
  intros Cb Hv. assert (Hn : bb <> []) by (intros ->; cbn in Hv; lia).
  apply enc_length_gt.
  pose proof (canon_lower bb Cb Hn) as Lo.
  assert (Hl0 : (0 < length bb)%nat) by (destruct bb; [congruence|cbn; lia]).
  destruct (Nat.eq_dec (length bb) 1) as [E1|N1].
  - rewrite E1. cbn [Z.of_nat Pos.of_succ_nat]. rewrite Z.pow_1_r. nia.
  - set (m := Z.of_nat (length bb) - 1) in *. assert (1 <= m) by lia.
    replace (Z.of_nat (length bb)) with (m + 1) by lia.
    pose proof (B_pow m ltac:(lia)) as Pm.
    assert (B ^ (m + 1) <= B ^ m * B ^ m).
    { rewrite <- Z.pow_add_r by lia. apply Z.pow_le_mono_r; [apply B_pos|lia]. }
    nia.
Qed.

Lemma square_loop_spec target : forall f bb bp, canon bb -> val bb = base ^ Z.of_nat bp -> (1 <= bp)%nat ->
  target - zlen bb <= Z.of_nat f ->
  exists bb' bp', square_loop k_mul f p target bb bp = Ret (bb', bp') /\ canon bb' /\
    val bb' = base ^ Z.of_nat bp' /\ (1 <= bp')%nat /\ target <= zlen bb'.
Proof.
  induction f as [|f IH]; intros bb bp Cb Vb Hbp Hf.
  - exists bb, bp. cbn [square_loop]. rewrite (rs_target_cmp p S). cbn [cmp_eval].
    replace (zlen bb <? target) with false by (symmetry; apply Z.ltb_ge; cbn in Hf; lia).
    splits; auto. cbn in Hf; lia.
  - cbn [square_loop]. rewrite (rs_target_cmp p S). cbn [cmp_eval].
    destruct (Z.ltb_spec (zlen bb) target) as [Hlt|Hge]; [|exists bb, bp; splits; auto].
    rewrite H_mul by auto. cbn [bind].
    assert (Hge : base <= val bb).
    { rewrite Vb. replace base with (base ^ 1) at 1 by apply Z.pow_1_r. apply Z.pow_le_mono_r; lia. }
    pose proof (square_step bb Cb Hge) as Hs.
    destruct (IH (enc (val bb * val bb)) (2 * bp)%nat (enc_canon _)) as (bb' & bp' & E & C' & V' & P' & T').
    + rewrite enc_val by nia. rewrite Vb, <- Z.pow_add_r by lia. f_equal. lia.
    + lia.
    + unfold zlen in *. lia.
    + exists bb', bp'. splits; auto.
Qed.

End Radix.

(** * to_radix_digits_le *)
Theorem to_radix_digits_le_spec p u radix : radix_std p -> 3 <= radix < 256 -> rpow2 radix = false ->
  canon u -> u <> [] ->
  to_radix_digits_le k_mul k_divrem k_divdig p u radix = Ret (le_digits radix (val u)).
Proof.
  intros S Hr Hp Cu Hu. unfold to_radix_digits_le.
  assert (Hz : zlen u =? 0 = false) by (apply Z.eqb_neq; unfold zlen; destruct u; [congruence|cbn; lia]).
  rewrite Hz, Hp. cbn [negb andb assert_ bind].
  destruct (get_radix_base_spec p radix S Hr Hp) as (base & power & E & Hbase & Hpw & Hb & Hbr).
  rewrite E. cbn [bind].
  assert (Hbase' : base = radix ^ Z.of_nat (Z.to_nat power)) by (rewrite Z2Nat.id by lia; auto).
  assert (Hb2 : 2 <= base < B).
  { split; [|lia]. subst base. replace 2 with (2 ^ 1) by reflexivity.
    transitivity (radix ^ 1); [rewrite !Z.pow_1_r; lia|apply Z.pow_le_mono_r; lia]. }
  assert (Hbb : B <= base * base).
  { assert (radix <= base); [|nia]. rewrite Hbase. replace radix with (radix ^ 1) at 1 by apply Z.pow_1_r.
    apply Z.pow_le_mono_r; lia. }
  assert (Hr2 : 2 <= radix <= 256) by lia.
  set (pw := Z.to_nat power) in *.
  (* first stage: the big-base path or nothing *)
  match goal with |- bind ?X _ = _ => assert (St1 : exists res1 d1, X = Ret (res1, d1) /\
    canon d1 /\ d1 <> [] /\ (length d1 <= length u)%nat /\ inb radix res1 /\
    le_value radix res1 + radix ^ Z.of_nat (length res1) * val d1 = val u) end.
  { rewrite (rs_big_len_cmp p S), (rs_big_len p S). cbn [cmp_eval].
    destruct (Z.geb_spec (zlen u) 64) as [Hge|Hlt].
    - replace (base =? 0) with false by (symmetry; apply Z.eqb_neq; lia). cbv zeta.
      assert (Hsq : 8 <= Z.sqrt (zlen u)) by (change 8 with (Z.sqrt 64); apply Z.sqrt_le_mono; lia).
      assert (Hsq2 : Z.sqrt (zlen u) <= zlen u) by (apply Z.sqrt_le_lin; lia).
      destruct (square_loop_spec p radix base pw S Hr2 Hb2 Hbb (Z.sqrt (zlen u)) (length u) [base] 1%nat)
        as (bb & bp & Es & Cbb & Vbb & Pbp & Tbb).
      + apply canon_single; lia.
      + rewrite val_single. change (Z.of_nat 1) with 1. rewrite Z.pow_1_r. reflexivity.
      + lia.
      + unfold zlen in *. cbn [length]. lia.
      + rewrite Es. cbn [bind].
        assert (Lbb : B <= val bb).
        { assert (Hn : bb <> []) by (intros ->; unfold zlen in *; cbn [length Z.of_nat] in *; lia).
          pose proof (canon_lower bb Cbb Hn).
          assert (B ^ 1 <= B ^ (Z.of_nat (length bb) - 1)) by (apply Z.pow_le_mono_r; [apply B_pos|unfold zlen in *; lia]).
          rewrite Z.pow_1_r in *. lia. }
        destruct (outer_big_spec p radix base pw S Hr2 Hbase' Hb2 bb bp Cbb Vbb Lbb (length u) u Cu Hu (le_n _))
          as (res & d & Eo & Cd & Nd & Ld & Ir & Vr).
        exists res, d. splits; auto.
    - exists [], u. splits; auto; try constructor. cbn [le_value length Z.of_nat]. rewrite Z.pow_0_r. lia. }
  destruct St1 as (res1 & d1 & E1 & Cd1 & Nd1 & Ld1 & I1 & V1).
  rewrite E1. cbn [bind].
  assert (Hfuel : val d1 < B * base ^ Z.of_nat (2 * length d1)).
  { pose proof (val_bound d1 (proj1 Cd1)) as Bd.
    rewrite Nat2Z.inj_mul, Z.pow_mul_r by lia. change (Z.of_nat 2) with 2.
    replace (base ^ 2) with (base * base) by ring.
    assert (B ^ Z.of_nat (length d1) <= (base * base) ^ Z.of_nat (length d1))
      by (apply Z.pow_le_mono_l; pose proof B_pos; lia).
    pose proof B_gt1. nia. }
  destruct (small_loop_spec p radix base pw S Hr2 Hbase' Hb2 (2 * length d1) d1 Cd1 Nd1 Hfuel)
    as (res2 & d0 & E2 & Hd0 & I2 & V2).
  rewrite E2. cbn [bind].
  assert (Hd64 : 0 <= d0 < radix ^ Z.of_nat 64).
  { split; [lia|]. rewrite B_val in Hd0. change 18446744073709551616 with (2 ^ 64) in Hd0.
    assert (2 ^ 64 <= radix ^ 64) by (apply Z.pow_le_mono_l; lia). change (Z.of_nat 64) with 64. lia. }
  destruct (emit_while_char radix Hr2 64 d0 Hd64) as (hd & Eh & Ih & Sh & Vh).
  rewrite Eh. cbn [bind]. f_equal. symmetry. apply digits_char; [lia| | |].
  - apply inb_app; split; [auto|apply inb_app; auto].
  - rewrite app_assoc. apply strip_app_keep; [auto|]. intros ->. cbn in Vh. lia.
  - rewrite !le_value_app, Vh. rewrite <- V1, <- V2. ring.
Qed.

(** * to_radix_le / to_radix_be *)
Hypothesis H_to_bits : forall u bits, (bits = 1 \/ bits = 2 \/ bits = 4 \/ bits = 8) -> canon u -> u <> [] ->
  k_to_bits u bits = Ret (le_digits (2 ^ bits) (val u)).
Hypothesis H_to_inexact : forall u bits, (bits = 3 \/ bits = 5 \/ bits = 6 \/ bits = 7) -> canon u -> u <> [] ->
  k_to_inexact u bits = Ret (le_digits (2 ^ bits) (val u)).

Theorem to_radix_le_spec p u radix : radix_std p -> 2 <= radix <= 256 -> canon u ->
  to_radix_le k_mul k_divrem k_divdig k_to_bits k_to_inexact p u radix
  = Ret (spec_to_radix_le (val u) radix).
Proof.
  intros S Hr Cu. unfold to_radix_le, spec_to_radix_le.
  destruct u as [|u0 u']; [reflexivity|].
  set (u := u0 :: u') in *. assert (Hu : u <> []) by discriminate.
  pose proof (canon_val_pos u Cu Hu) as Hv.
  replace (val u =? 0) with false by (symmetry; apply Z.eqb_neq; lia).
  destruct (rpow2 radix) eqn:Hp.
  - destruct (rpow2_cases radix Hr Hp) as (bits & Hb & -> & ->). cbn [bind].
    replace (bits =? 0) with false by (symmetry; apply Z.eqb_neq; lia). cbn [negb assert_ bind].
    assert (Hc : bits = 1 \/ bits = 2 \/ bits = 3 \/ bits = 4 \/ bits = 5 \/ bits = 6 \/ bits = 7 \/ bits = 8) by lia.
    destruct Hc as [->|[->|[->|[->|[->|[->|[->| ->]]]]]]]; cbn [Z.modulo Z.eqb Z.div_eucl Z.pos_div_eucl Z.ltb Z.leb Z.compare Pos.compare Pos.compare_cont Z.mul Z.sub Z.add Z.opp Z.pos_sub Pos.mul Pos.add Pos.succ Z.succ_double Z.pred_double Z.double Pos.pred_double fst snd];
      first [apply H_to_bits; auto; tauto | apply H_to_inexact; auto; tauto].
  - assert (Hr3 : 3 <= radix < 256).
    { destruct (Z.eq_dec radix 2) as [->|]; [discriminate|].
      destruct (Z.eq_dec radix 256) as [->|]; [discriminate|]. lia. }
    apply to_radix_digits_le_spec; auto.
Qed.

Theorem to_radix_be_spec p u radix : radix_std p -> 2 <= radix <= 256 -> canon u ->
  to_radix_be k_mul k_divrem k_divdig k_to_bits k_to_inexact p u radix
  = Ret (spec_to_radix_be (val u) radix).
Proof. intros. unfold to_radix_be. rewrite to_radix_le_spec by auto. reflexivity. Qed.

End WithKernels.

(** Below the big-base threshold the multiplication kernel is never called. *)
Lemma to_radix_digits_le_irrel k1 k2 kd kg p u radix : radix_std p -> zlen u < 64 ->
  to_radix_digits_le k1 kd kg p u radix = to_radix_digits_le k2 kd kg p u radix.
Proof.
  intros S Hl. unfold to_radix_digits_le.
  rewrite (rs_big_len_cmp p S), (rs_big_len p S). cbn [cmp_eval].
  replace (zlen u >=? 64) with false by (symmetry; rewrite Z.geb_leb; apply Z.leb_gt; lia).
  reflexivity.
Qed.
Lemma to_radix_le_irrel k1 k2 kd kg kb ki p u radix : radix_std p -> zlen u < 64 ->
  to_radix_le k1 kd kg kb ki p u radix = to_radix_le k2 kd kg kb ki p u radix.
Proof.
  intros S Hl. unfold to_radix_le. destruct u; [reflexivity|].
  destruct (rpow2 radix); [reflexivity|]. apply to_radix_digits_le_irrel; auto.
Qed.
