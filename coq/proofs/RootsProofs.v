(* RootsProofs.v — C11: the two-phase `fixpoint` driver reaches the floor root from EVERY
   initial guess >= 1 (hence the result does not depend on the guess: std / no_std agree), the
   three Newton steps compute RootsMath.newton, the pre-checks are right, BigInt wrappers.
   Generic in the extracted parameters (roots_ok, pow_ok, addsub_ok) and in exact big
   multiplication / division. *)
From BigNum Require Import Base BaseLemmas X86 AddSub AddSubProofs ShiftCore ShiftCoreProofs
  PgrLoop PgrLoopProofs Pow PowProofs Gcd GcdProofs SpecRoots RootsMath Roots.
Open Scope Z_scope.

Definition roots_ok (p : roots_params) : bool :=
  cmpop_eqb (rt_climb_cmp p) Clt && cmpop_eqb (rt_sat_cmp p) Cgt && cmpop_eqb (rt_descend_cmp p) Cgt &&
  cmpop_eqb (rt_bits_cmp p) Cle && (rt_nth_add p =? 1) && (rt_sqrt_div p =? 2) && (rt_sqrt_add p =? 1) &&
  (rt_cbrt_div p =? 3) && (rt_cbrt_add p =? 1) && (rt_nm1 p =? 1) && (rt_sqrt_shr p =? 1) &&
  (rt_cbrt_shl p =? 1) && (rt_cbrt_den p =? 3).

Lemma roots_ok_inv p : roots_ok p = true ->
  rt_climb_cmp p = Clt /\ rt_sat_cmp p = Cgt /\ rt_descend_cmp p = Cgt /\ rt_bits_cmp p = Cle /\
  rt_nth_add p = 1 /\ rt_sqrt_div p = 2 /\ rt_sqrt_add p = 1 /\ rt_cbrt_div p = 3 /\ rt_cbrt_add p = 1 /\
  rt_nm1 p = 1 /\ rt_sqrt_shr p = 1 /\ rt_cbrt_shl p = 1 /\ rt_cbrt_den p = 3.
Proof.
  unfold roots_ok. rewrite !andb_true_iff, !Z.eqb_eq.
  intros [[[[[[[[[[[[H1 H2] H3] H4] H5] H6] H7] H8] H9] H10] H11] H12] H13].
  apply cmpop_eqb_eq in H1, H2, H3, H4. repeat split; assumption.
Qed.

Lemma of_u64_enc v : 0 <= v < B -> pgr_of_u64 v = enc v.
Proof.
  intros Hv. unfold pgr_of_u64. destruct (Z.eqb_spec v 0) as [->|N]; [now rewrite enc_0|].
  rewrite <- (enc_of_canon [v]); [now rewrite val_single|].
  apply canon_of_lower; [constructor; [exact Hv|constructor]|discriminate|].
  cbn [length]. rewrite val_single. change (Z.of_nat 1 - 1) with 0. rewrite Z.pow_0_r. lia.
Qed.

Lemma zbits_lt v mb : 0 <= v -> zbits v <= mb -> v < 2 ^ mb.
Proof.
  intros Hv Hb. unfold zbits in Hb. destruct (Z.eqb_spec v 0) as [->|N].
  - apply Z.pow_pos_nonneg; lia.
  - destruct (Z.log2_spec v ltac:(lia)) as [_ L].
    assert (2 ^ Z.succ (Z.log2 v) <= 2 ^ mb) by (apply Z.pow_le_mono_r; lia). lia.
Qed.

Section WithBigOps.
Variable bmul : list Z -> list Z -> outcome (list Z).
Variable bdivrem : list Z -> list Z -> outcome (list Z * list Z).
Hypothesis bmul_spec : bmul_exact bmul.
Hypothesis bdivrem_spec : bdivrem_exact bdivrem.
Variable ap : addsub_params.
Hypothesis Hap : addsub_ok ap = true.
Variable pp : pow_params.
Hypothesis Hpp : pow_ok pp = true.
Variable p : roots_params.
Hypothesis Hok : roots_ok p = true.

Lemma bdiv_spec a b : canon a -> canon b -> val b <> 0 ->
  bdiv bdivrem a b = Ret (enc (val a / val b)).
Proof.
  intros Ca Cb Hb. unfold bdiv. rewrite bdivrem_spec by auto.
  destruct (Z.eqb_spec (val b) 0); [contradiction|]. reflexivity.
Qed.

(** * the driver *)
Section FixDriver.
Variable F : Z -> Z.
Variable f : list Z -> outcome (list Z).
Variables r mb : Z.
Hypothesis Hf : forall s, canon s -> 1 <= val s -> f s = Ret (enc (F (val s))).
Hypothesis Hge : forall s, 1 <= s -> r <= F s.
Hypothesis Hlt : forall s, r < s -> F s < s.
Hypothesis Hr : 1 <= r.
Hypothesis Hcap : r < 2 ^ mb.
Hypothesis Hmb : 0 <= mb.

Lemma cap_enc : ushl [1] mb = enc (2 ^ mb).
Proof. rewrite ushl_spec by (apply canon_1 || lia). rewrite val_single, Z.mul_1_l. reflexivity. Qed.

Theorem fixpoint_spec g fuel : canon g -> 1 <= val g ->
  Z.max (val g) (2 ^ mb) + 3 <= Z.pos fuel ->
  fixpoint p fuel g mb f = Ret (enc r).
Proof.
  intros Cg Hg Hfuel.
  destruct (roots_ok_inv p Hok) as (Ec & Es & Ed & _).
  set (M := Z.max (val g) (2 ^ mb)) in *.
  unfold fixpoint. rewrite Hf by auto. cbn [bind].
  (* phase 1: climb *)
  pose (Inv1 := fun st : list Z * list Z =>
     canon (fst st) /\ 1 <= val (fst st) <= M /\ snd st = enc (F (val (fst st)))).
  pose (mu1 := fun st : list Z * list Z =>
     if val (fst st) <? r then 2 else if val (fst st) =? r then 1 else 0).
  pose (Post1 := fun st : list Z * list Z =>
     canon (fst st) /\ r <= val (fst st) <= M /\ snd st = enc (F (val (fst st)))).
  destruct (run_loop_rule (climb_step p mb f) Inv1 mu1 Post1) with (fuel := fuel) (s := (g, enc (F (val g))))
    as ([x1 xn1] & -> & Hp1).
  { intros [x xn] (Cx & Hx & Exn); cbn [fst snd] in *. subst xn. split.
    { unfold mu1; cbn [fst]. destruct (val x <? r); [lia|]. destruct (val x =? r); lia. }
    pose proof (Hge (val x) ltac:(lia)) as HF.
    unfold climb_step. rewrite cmp_slice_spec by (auto using enc_canon). cbn [bind].
    rewrite enc_val by lia. rewrite Ec, Es.
    destruct (Z.compare_spec (val x) (F (val x))) as [E|L|G]; cbn [cmpop_ord cmp_eval Z.ltb Z.compare].
    - unfold Post1; cbn [fst snd]. split; [exact Cx|]. split; [lia|reflexivity].
    - (* continue: x' = saturated xn *)
      cbn [Z.gtb]. rewrite pgr_bits_spec by apply enc_canon. rewrite enc_val by lia.
      destruct (Z.gtb_spec (zbits (F (val x))) mb) as [Hs|Hs].
      + rewrite cap_enc. rewrite Hf by (try apply enc_canon; rewrite enc_val; lia). cbn [bind].
        rewrite enc_val by lia. split.
        * unfold Inv1; cbn [fst snd]. rewrite enc_val by lia. split; [apply enc_canon|]. split; [unfold M; lia|reflexivity].
        * unfold mu1; cbn [fst]. rewrite enc_val by lia.
          destruct (Z.ltb_spec (2 ^ mb) r); [lia|]. destruct (Z.eqb_spec (2 ^ mb) r); [lia|].
          assert (Hnlt : ~ r < val x) by (intros C; specialize (Hlt _ C); lia).
          destruct (Z.ltb_spec (val x) r); [lia|]. destruct (Z.eqb_spec (val x) r); lia.
      + pose proof (zbits_lt (F (val x)) mb ltac:(lia) Hs) as Hb.
        rewrite Hf by (try apply enc_canon; rewrite enc_val; lia). cbn [bind].
        rewrite enc_val by lia. split.
        * unfold Inv1; cbn [fst snd]. rewrite enc_val by lia. split; [apply enc_canon|]. split; [unfold M; lia|reflexivity].
        * unfold mu1; cbn [fst]. rewrite enc_val by lia.
          assert (Hnlt : ~ r < val x) by (intros C; specialize (Hlt _ C); lia).
          destruct (Z.ltb_spec (val x) r) as [Hxr|Hxr].
          -- destruct (Z.ltb_spec (F (val x)) r); [lia|]. destruct (Z.eqb_spec (F (val x)) r); lia.
          -- assert (val x = r) by lia. destruct (Z.eqb_spec (val x) r); [|lia].
             destruct (Z.ltb_spec (F (val x)) r); [lia|]. destruct (Z.eqb_spec (F (val x)) r); lia.
    - unfold Post1; cbn [fst snd]. split; [exact Cx|]. split; [lia|reflexivity]. }
  { unfold Inv1; cbn [fst snd]. split; [exact Cg|]. split; [unfold M; lia|reflexivity]. }
  { unfold mu1; cbn [fst]. destruct (val g <? r); [lia|]. destruct (val g =? r); lia. }
  cbn [bind]. destruct Hp1 as (Cx1 & Hx1 & Exn1); cbn [fst snd] in *.
  (* phase 2: descend *)
  pose (Inv2 := fun st : list Z * list Z =>
     canon (fst st) /\ r <= val (fst st) <= M /\ snd st = enc (F (val (fst st)))).
  destruct (run_loop_rule (descend_step p f) Inv2 (fun st => val (fst st) - r) (fun res => res = enc r))
    with (fuel := fuel) (s := (x1, xn1)) as (res & -> & ->); [| | |reflexivity].
  - intros [x xn] (Cx & Hx & Exn); cbn [fst snd] in *. subst xn. split; [lia|].
    pose proof (Hge (val x) ltac:(lia)) as HF.
    unfold descend_step. rewrite cmp_slice_spec by (auto using enc_canon). cbn [bind].
    rewrite enc_val by lia. rewrite Ed.
    destruct (Z.compare_spec (val x) (F (val x))) as [E|L|G]; cbn [cmpop_ord cmp_eval Z.gtb Z.compare].
    + assert (val x = r) by (destruct (Z.eq_dec (val x) r); [auto|]; assert (C : r < val x) by lia; specialize (Hlt _ C); lia).
      subst r. symmetry. apply enc_of_canon, Cx.
    + assert (val x = r) by (destruct (Z.eq_dec (val x) r); [auto|]; assert (C : r < val x) by lia; specialize (Hlt _ C); lia).
      subst r. symmetry. apply enc_of_canon, Cx.
    + rewrite Hf by (try apply enc_canon; rewrite enc_val; lia). cbn [bind]. rewrite enc_val by lia.
      split; [|cbn [fst]; rewrite enc_val by lia; lia].
      unfold Inv2; cbn [fst snd]. rewrite enc_val by lia. split; [apply enc_canon|]. split; [lia|reflexivity].
  - unfold Inv2; cbn [fst snd]. auto.
  - cbn [fst]. lia.
Qed.
End FixDriver.

(** * the Newton steps compute RootsMath.newton *)
Lemma nth_step_spec x n s : canon x -> canon s -> 1 <= val s -> 1 <= n < B ->
  nth_step bmul bdivrem ap pp p x n s = Ret (enc (newton n (val x) (val s))).
Proof.
  intros Cx Cs Hs Hn. destruct (roots_ok_inv p Hok) as (_ & _ & _ & _ & _ & _ & _ & _ & _ & En & _).
  pose proof (val_nonneg x (proj1 Cx)) as Hx0.
  assert (HB : B = 2 ^ 64) by (rewrite B_val; reflexivity).
  unfold nth_step, newton. rewrite En.
  assert (Hrange : 0 <= n - 1 < 2 ^ 128) by (assert (2 ^ 64 < 2 ^ 128) by reflexivity; lia).
  rewrite (upow_prim_ref_spec bmul bmul_spec pp Hpp) by auto.
  cbn [bind].
  assert (Hp : 0 < val s ^ (n - 1)) by (apply Z.pow_pos_nonneg; lia).
  rewrite bdiv_spec by (auto using enc_canon; rewrite enc_val; lia). rewrite enc_val by lia. cbn [bind].
  rewrite !of_u64_enc by lia.
  rewrite bmul_spec by (auto using enc_canon). rewrite enc_val by lia. cbn [bind].
  assert (Hq : 0 <= val x / val s ^ (n - 1)) by (apply Z.div_pos; lia).
  rewrite uadd_spec by (auto using enc_canon). rewrite !enc_val by nia. cbn [bind].
  rewrite bdiv_spec by (auto using enc_canon; rewrite enc_val; lia). rewrite !enc_val by nia.
  reflexivity.
Qed.

Lemma sqrt_step_spec x s : canon x -> canon s -> 1 <= val s ->
  sqrt_step bdivrem ap p x s = Ret (enc (newton 2 (val x) (val s))).
Proof.
  intros Cx Cs Hs. destruct (roots_ok_inv p Hok) as (_ & _ & _ & _ & _ & _ & _ & _ & _ & _ & Esh & _).
  pose proof (val_nonneg x (proj1 Cx)) as Hx0.
  unfold sqrt_step, newton. rewrite Esh.
  rewrite bdiv_spec by (auto; lia). cbn [bind].
  assert (Hq : 0 <= val x / val s) by (apply Z.div_pos; lia).
  rewrite uadd_spec by (auto using enc_canon). rewrite enc_val by lia. cbn [bind].
  rewrite ushr_spec by (try apply enc_wf; lia). rewrite enc_val by lia.
  change (2 - 1) with 1. rewrite !Z.pow_1_r, Z.mul_1_l. reflexivity.
Qed.

Lemma cbrt_step_spec x s : canon x -> canon s -> 1 <= val s ->
  cbrt_step bmul bdivrem ap p x s = Ret (enc (newton 3 (val x) (val s))).
Proof.
  intros Cx Cs Hs.
  destruct (roots_ok_inv p Hok) as (_ & _ & _ & _ & _ & _ & _ & _ & _ & _ & _ & Eshl & Eden).
  pose proof (val_nonneg x (proj1 Cx)) as Hx0.
  assert (HB : 3 < B) by (rewrite B_val; lia).
  unfold cbrt_step, newton. rewrite Eshl, Eden.
  rewrite bmul_spec by auto. cbn [bind].
  rewrite bdiv_spec by (auto using enc_canon; rewrite enc_val; nia). rewrite enc_val by nia. cbn [bind].
  assert (Hq : 0 <= val x / (val s * val s)) by (apply Z.div_pos; nia).
  rewrite ushl_spec by (try apply Cs; lia).
  rewrite uadd_spec by (auto using enc_canon). rewrite !enc_val by lia. cbn [bind].
  rewrite of_u64_enc by lia.
  rewrite bdiv_spec by (auto using enc_canon; rewrite enc_val; lia). rewrite !enc_val by lia.
  change (3 - 1) with 2. rewrite Z.pow_2_r, Z.pow_1_r. rewrite (Z.mul_comm 2). reflexivity.
Qed.

(** * the public functions, for every guess function producing canonical values >= 1 *)
Definition guess_ok (gf : list Z -> Z -> Z -> list Z) : Prop :=
  forall x n mb, canon (gf x n mb) /\ 1 <= val (gf x n mb).

Lemma to_u64_some x v : canon x -> pgr_to_u64 x = Some v -> v = val x /\ 0 <= v < B.
Proof.
  intros Cx H. destruct x as [|d [|d2 x']]; cbn [pgr_to_u64] in H; try discriminate.
  - injection H as <-. cbn. pose proof B_pos. lia.
  - injection H as <-. rewrite val_single. destruct Cx as [W _]. apply wf_cons in W. destruct W as [Hd _].
    split; [reflexivity|exact Hd].
Qed.
Lemma to_u64_none x : canon x -> pgr_to_u64 x = None -> B <= val x.
Proof.
  intros Cx H. destruct x as [|d [|d2 x']]; cbn [pgr_to_u64] in H; try discriminate.
  pose proof (canon_lower _ Cx ltac:(discriminate)) as HL. cbn [length] in HL.
  replace (Z.of_nat (S (S (length x'))) - 1) with (Z.of_nat (S (length x'))) in HL by lia.
  rewrite B_pow_S in HL. pose proof (B_pow_nat (length x')). pose proof B_pos. nia.
Qed.

(** the Newton phase, common to the three functions *)
Lemma newton_phase gf f x n mbits : guess_ok gf -> canon x -> B <= val x -> 1 <= n < B ->
  mbits = (Z.log2 (val x) + 1) / n + 1 ->
  (forall s, canon s -> 1 <= val s -> f s = Ret (enc (newton n (val x) (val s)))) ->
  fixpoint p (root_fuel (gf x n mbits) mbits) (gf x n mbits) mbits f = Ret (enc (zroot n (val x))).
Proof.
  intros Hgf Cx Hx Hn Emb Hf. pose proof B_gt1 as HB.
  destruct (Hgf x n mbits) as [Cg Hg].
  pose proof (zroot_spec n (val x) ltac:(lia) ltac:(lia)) as HR.
  pose proof (Z.log2_nonneg (val x)) as Hl.
  assert (Hmb : 0 <= mbits) by (subst mbits; pose proof (Z.div_pos (Z.log2 (val x) + 1) n ltac:(lia) ltac:(lia)); lia).
  apply fixpoint_spec with (F := newton n (val x)); auto.
  - intros s Hs. apply newton_ge; auto; lia.
  - intros s Hs. apply newton_lt with (r := zroot n (val x)); auto; lia.
  - apply zroot_pos; lia.
  - subst mbits. apply cap_ok; auto; lia.
  - unfold root_fuel. pose proof (Z.pow_pos_nonneg 2 mbits ltac:(lia) Hmb). rewrite Z2Pos.id by lia. lia.
Qed.

Lemma bits_big x : canon x -> 1 <= val x -> pgr_bits x = Z.log2 (val x) + 1.
Proof. intros Cx Hx. rewrite pgr_bits_spec by auto. unfold zbits. destruct (Z.eqb_spec (val x) 0); [lia|reflexivity]. Qed.

Lemma zero_one_root x n : canon x -> 1 <= n -> pgr_is_zero x || pgr_is_one x = true ->
  x = enc (zroot n (val x)).
Proof.
  intros Cx Hn H. rewrite (pgr_is_zero_spec x Cx), (pgr_is_one_spec x Cx) in H.
  apply orb_true_iff in H. rewrite !Z.eqb_eq in H. symmetry.
  destruct H as [E|E]; rewrite E; [rewrite zroot_0|rewrite zroot_1]; auto; rewrite <- E; apply enc_of_canon, Cx.
Qed.

Theorem usqrt_spec gf x : guess_ok gf -> canon x ->
  usqrt bdivrem ap p gf x = Ret (enc (zroot 2 (val x))).
Proof.
  intros Hgf Cx. destruct (roots_ok_inv p Hok) as (_ & _ & _ & _ & _ & Ed & Ea & _).
  pose proof (val_nonneg x (proj1 Cx)) as Hx0. pose proof B_gt1 as HB. assert (HB2 : 2 < B) by (rewrite B_val; lia).
  unfold usqrt. destruct (pgr_is_zero x || pgr_is_one x) eqn:Z1.
  { f_equal. apply zero_one_root; auto; lia. }
  destruct (pgr_to_u64 x) as [v|] eqn:Tu.
  - destruct (to_u64_some x v Cx Tu) as [-> Hv]. rewrite of_u64_enc; [reflexivity|].
    pose proof (zroot_le 2 (val x) ltac:(lia) Hx0). pose proof (zroot_spec 2 (val x) ltac:(lia) Hx0) as [? _]. lia.
  - pose proof (to_u64_none x Cx Tu) as Hbig. rewrite Ed, Ea, bits_big by (auto; lia).
    apply newton_phase; auto; try lia. intros s Cs Hs. apply sqrt_step_spec; auto.
Qed.

Theorem ucbrt_spec gf x : guess_ok gf -> canon x ->
  ucbrt bmul bdivrem ap p gf x = Ret (enc (zroot 3 (val x))).
Proof.
  intros Hgf Cx. destruct (roots_ok_inv p Hok) as (_ & _ & _ & _ & _ & _ & _ & Ed & Ea & _).
  pose proof (val_nonneg x (proj1 Cx)) as Hx0. pose proof B_gt1 as HB. assert (HB2 : 3 < B) by (rewrite B_val; lia).
  unfold ucbrt. destruct (pgr_is_zero x || pgr_is_one x) eqn:Z1.
  { f_equal. apply zero_one_root; auto; lia. }
  destruct (pgr_to_u64 x) as [v|] eqn:Tu.
  - destruct (to_u64_some x v Cx Tu) as [-> Hv]. rewrite of_u64_enc; [reflexivity|].
    pose proof (zroot_le 3 (val x) ltac:(lia) Hx0). pose proof (zroot_spec 3 (val x) ltac:(lia) Hx0) as [? _]. lia.
  - pose proof (to_u64_none x Cx Tu) as Hbig. rewrite Ed, Ea, bits_big by (auto; lia).
    apply newton_phase; auto; try lia. intros s Cs Hs. apply cbrt_step_spec; auto.
Qed.

(** [n] ranges over u32 *)
Theorem unth_root_spec gf x n : guess_ok gf -> canon x -> 0 <= n < 2 ^ 32 ->
  unth_root bmul bdivrem ap pp p gf x n = omap enc (spec_unth_root (val x) n).
Proof.
  intros Hgf Cx Hn. destruct (roots_ok_inv p Hok) as (_ & _ & _ & Eb & Ea & _).
  pose proof (val_nonneg x (proj1 Cx)) as Hx0. pose proof B_gt1 as HB.
  assert (HB2 : 2 ^ 32 < B) by (rewrite B_val; reflexivity).
  unfold unth_root, spec_unth_root. destruct (Z.eqb_spec n 0) as [E0|N0]; [reflexivity|]. cbn [omap bind].
  destruct (pgr_is_zero x || pgr_is_one x) eqn:Z1.
  { f_equal. apply zero_one_root; auto; lia. }
  destruct (Z.eqb_spec n 1) as [E1|N1].
  { subst n. rewrite zroot_deg1 by lia. now rewrite enc_of_canon. }
  destruct (Z.eqb_spec n 2) as [E2|N2]; [subst n; apply usqrt_spec; auto|].
  destruct (Z.eqb_spec n 3) as [E3|N3]; [subst n; apply ucbrt_spec; auto|].
  assert (Hx1 : 1 <= val x).
  { rewrite (pgr_is_zero_spec x Cx) in Z1. apply orb_false_iff in Z1. destruct Z1 as [Z1 _].
    apply Z.eqb_neq in Z1. lia. }
  rewrite Eb, Ea, bits_big by auto. cbn [cmp_eval].
  destruct (Z.leb_spec (Z.log2 (val x) + 1) n) as [Hle|Hgt].
  { rewrite zroot_small; [now rewrite enc_1|lia|]. split; [lia|].
    destruct (Z.log2_spec (val x) ltac:(lia)) as [_ L].
    assert (2 ^ Z.succ (Z.log2 (val x)) <= 2 ^ n) by (apply Z.pow_le_mono_r; lia). lia. }
  destruct (pgr_to_u64 x) as [v|] eqn:Tu.
  - destruct (to_u64_some x v Cx Tu) as [-> Hv]. rewrite of_u64_enc; [reflexivity|].
    pose proof (zroot_le n (val x) ltac:(lia) Hx0). pose proof (zroot_spec n (val x) ltac:(lia) Hx0) as [? _]. lia.
  - pose proof (to_u64_none x Cx Tu) as Hbig.
    apply newton_phase; auto; try lia. intros s Cs Hs. apply nth_step_spec; auto. lia.
Qed.

(** * BigInt wrappers *)
Lemma sgn_root_enc s m v : canon m -> 0 <= v -> (val m = 0 -> v = 0) -> (s = NoSign <-> m = []) ->
  from_biguint s (enc v) = ienc (Z.sgn (sign_z s * val m) * v).
Proof.
  intros Cm Hv Hz Hs. rewrite from_biguint_ienc by apply enc_canon. rewrite enc_val by auto. f_equal.
  pose proof (val_nonneg m (proj1 Cm)) as Hm0.
  destruct s; cbn [sign_z].
  - destruct (Z.eq_dec (val m) 0) as [E|N]; [rewrite (Hz E); lia|].
    rewrite Z.sgn_neg by lia. lia.
  - rewrite Z.mul_0_l. cbn. lia.
  - destruct (Z.eq_dec (val m) 0) as [E|N]; [rewrite (Hz E); lia|].
    rewrite Z.sgn_pos by lia. lia.
Qed.

Lemma zroot_zero_of_zero n x : 1 <= n -> x = 0 -> zroot n x = 0.
Proof. intros Hn ->. apply zroot_0; auto. Qed.

Theorem inth_root_spec gf x n : guess_ok gf -> icanon x -> 0 <= n < 2 ^ 32 ->
  inth_root bmul bdivrem ap pp p gf x n = omap ienc (spec_inth_root (ival x) n).
Proof.
  intros Hgf Cx Hn. pose proof (icanon_mag x Cx) as Cm.
  destruct (icanon_sign x Cx) as [Hsg Hab].
  unfold inth_root, spec_inth_root.
  assert (Hneg : sign_eqb (sg x) Minus = (ival x <? 0)).
  { rewrite Hsg. destruct (ival x); reflexivity. }
  rewrite Hneg. destruct ((ival x <? 0) && Z.even n); [reflexivity|].
  rewrite unth_root_spec by auto. unfold spec_unth_root.
  destruct (Z.eqb_spec n 0); [reflexivity|]. cbn [omap bind]. f_equal.
  rewrite <- Hab. unfold ival. apply sgn_root_enc; auto.
  - pose proof (zroot_spec n (val (mag x)) ltac:(lia) (val_nonneg _ (proj1 Cm))) as [? _]. lia.
  - apply zroot_zero_of_zero; lia.
  - apply Cx.
Qed.

Theorem isqrt_spec gf x : guess_ok gf -> icanon x ->
  isqrt bdivrem ap p gf x = omap ienc (spec_isqrt (ival x)).
Proof.
  intros Hgf Cx. pose proof (icanon_mag x Cx) as Cm.
  destruct (icanon_sign x Cx) as [Hsg Hab].
  unfold isqrt, spec_isqrt.
  assert (Hneg : sign_eqb (sg x) Minus = (ival x <? 0)).
  { rewrite Hsg. destruct (ival x); reflexivity. }
  rewrite Hneg. destruct (Z.ltb_spec (ival x) 0); [reflexivity|].
  rewrite usqrt_spec by auto. cbn [omap bind]. f_equal.
  pose proof (zroot_spec 2 (val (mag x)) ltac:(lia) (val_nonneg _ (proj1 Cm))) as [Hr0 _].
  rewrite (sgn_root_enc (sg x) (mag x)); auto; [| intros E; apply zroot_zero_of_zero; lia | apply Cx].
  fold (ival x). rewrite Hab, Z.abs_eq by lia. f_equal.
  destruct (Z.eq_dec (ival x) 0) as [E|N]; [rewrite E, zroot_0 by lia; reflexivity|].
  rewrite Z.sgn_pos by lia. lia.
Qed.

Theorem icbrt_spec gf x : guess_ok gf -> icanon x ->
  icbrt bmul bdivrem ap p gf x = omap ienc (spec_icbrt (ival x)).
Proof.
  intros Hgf Cx. pose proof (icanon_mag x Cx) as Cm.
  destruct (icanon_sign x Cx) as [Hsg Hab].
  unfold icbrt, spec_icbrt. rewrite ucbrt_spec by auto. cbn [omap bind]. f_equal.
  pose proof (zroot_spec 3 (val (mag x)) ltac:(lia) (val_nonneg _ (proj1 Cm))) as [Hr0 _].
  rewrite <- Hab. unfold ival. apply sgn_root_enc; auto.
  - intros E; apply zroot_zero_of_zero; lia.
  - apply Cx.
Qed.
End WithBigOps.
