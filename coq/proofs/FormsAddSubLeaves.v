(* FormsAddSubLeaves.v — C10: the BigUint scalar add/sub leaves modelled at digit level in
   model/AddSub.v (uadd_digit, uadd_u128, usub_digit, usub_u128, digit_sub_u, u128_sub_u) compute
   the ref-ref semantics; this discharges H_uadd_scalar, H_usub_scalar, H_scalar_usub of
   InstForms.big_ops_ok for the digit-level instance. *)
From Coq Require Import ZArith List Bool Lia.
From BigNum Require Import Base BaseLemmas X86 AddSub AddSubProofs Forms.
Import ListNotations.
Open Scope Z_scope.

Lemma length_zeros k : length (zeros k) = k.
Proof. unfold zeros; apply repeat_length. Qed.

Lemma add_finish a' c n v :
  wf a' -> bit c -> length a' = n -> val a' + B ^ Z.of_nat n * c = v -> n <> 0%nat ->
  B ^ (Z.of_nat n - 1) <= v ->
  (if c =? 0 then a' else a' ++ [c]) = enc v.
Proof.
  intros Wa Bc Ln Hv Hn Hlow.
  pose proof (val_nonneg a' Wa) as Hnn.
  assert (Hc : canon (if c =? 0 then a' else a' ++ [c]) /\ val (if c =? 0 then a' else a' ++ [c]) = v).
  { destruct Bc as [-> | ->]; simpl.
    - split; [|lia]. apply canon_of_lower; auto.
      + destruct a'; [simpl in Ln; congruence|discriminate].
      + rewrite Ln. lia.
    - split.
      + apply canon_of_lower.
        * apply wf_app; split; auto. apply wf_single. unfold digit. pose proof B_gt1. lia.
        * destruct a'; discriminate.
        * rewrite app_length, val_app, val_single, Ln. cbn [length].
          replace (Z.of_nat (n + 1) - 1) with (Z.of_nat n) by lia. lia.
      + rewrite val_app, val_single, Ln. lia. }
  destruct Hc as [Hc Hval]. rewrite <- Hval. symmetry. apply enc_of_canon; assumption.
Qed.

Section AddSubLeaves.
  Variable p : addsub_params.
  Hypothesis Hp : addsub_ok p = true.

  Lemma leaf_uadd_digit_spec a s : canon a -> 0 <= s < B ->
    uadd_digit p a s = Ret (enc (val a + s)).
  Proof.
    intros Ca Hs. unfold uadd_digit.
    destruct (Z.eqb_spec s 0) as [->|Hs0].
    - rewrite Z.add_0_r. f_equal. symmetry. apply enc_of_canon; assumption.
    - set (a0 := match a with [] => [0] | _ => a end).
      assert (Wa0 : wf a0) by (destruct a; [apply wf_single; unfold digit; pose proof B_pos; lia | apply Ca]).
      assert (Va0 : val a0 = val a) by (destruct a; reflexivity).
      assert (La0 : (1 <= length a0)%nat) by (destruct a; simpl; lia).
      assert (Ws : wf [s]) by (apply wf_single; exact Hs).
      destruct (add2c_spec p a0 [s] Hp Wa0 Ws La0) as (a' & c & E & Wa' & La' & Bc & V).
      rewrite E. cbn [bind]. f_equal.
      rewrite Va0, val_single in V.
      apply add_finish with (n := length a0); auto; try lia.
      destruct a as [|d a1] eqn:Ea.
      + simpl. lia.
      + subst a0. rewrite <- Ea in *. pose proof (canon_lower a Ca ltac:(rewrite Ea; discriminate)). lia.
  Qed.

  Lemma leaf_uadd_u128_spec a s : canon a -> 0 <= s < B * B ->
    uadd_u128 p a s = Ret (enc (val a + s)).
  Proof.
    intros Ca Hs. unfold uadd_u128. pose proof B_pos as HB.
    destruct (Z.ltb_spec s B) as [Hlt|Hge]; [apply leaf_uadd_digit_spec; auto; lia|].
    set (a0 := a ++ zeros (2 - length a)).
    assert (Wa0 : wf a0) by (apply wf_app; split; [apply Ca|apply wf_zeros]).
    assert (Va0 : val a0 = val a) by (unfold a0; rewrite val_app, val_zeros; lia).
    assert (La0 : length a0 = Nat.max 2 (length a)) by (unfold a0; rewrite app_length, length_zeros; lia).
    assert (Wlh : wf [s mod B; s / B]).
    { apply wf_cons; split; [unfold digit; apply Z.mod_pos_bound; lia|].
      apply wf_single. unfold digit. split; [apply Z.div_pos; lia | apply Z.div_lt_upper_bound; lia]. }
    assert (Vlh : val [s mod B; s / B] = s).
    { cbn [val]. pose proof (Z.div_mod s B ltac:(lia)). lia. }
    destruct (add2c_spec p a0 [s mod B; s / B] Hp Wa0 Wlh ltac:(rewrite La0; cbn [length]; lia)) as (a' & c & E & Wa' & La' & Bc & V).
    rewrite E. cbn [bind]. f_equal.
    rewrite Va0, Vlh in V.
    apply add_finish with (n := length a0); auto; try lia.
    pose proof (val_nonneg a (proj1 Ca)).
    destruct (Nat.le_gt_cases (length a) 2) as [Hl|Hl].
    - replace (length a0) with 2%nat by lia. change (Z.of_nat 2 - 1) with 1. rewrite Z.pow_1_r. lia.
    - replace (length a0) with (length a) by lia.
      pose proof (canon_lower a Ca ltac:(destruct a; [simpl in Hl; lia|discriminate])). lia.
  Qed.

  Lemma sub_finish (r : outcome (list Z)) v w :
    (w <= v -> exists l, r = Ret l /\ wf l /\ val l = v - w) -> (v < w -> r = Panic SubUnderflow) ->
    (do x <- r; Ret (strip x)) = if v <? w then Panic SubUnderflow else Ret (enc (v - w)).
  Proof.
    intros H1 H2. destruct (Z.ltb_spec v w) as [Hlt|Hge].
    - rewrite (H2 Hlt). reflexivity.
    - destruct (H1 Hge) as (l & -> & Wl & Vl). cbn [bind]. f_equal. rewrite <- Vl. symmetry. apply enc_strip; assumption.
  Qed.

  Lemma leaf_usub_digit_spec a s : canon a -> 0 <= s < B ->
    usub_digit p a s = if val a <? s then Panic SubUnderflow else Ret (enc (val a - s)).
  Proof.
    intros Ca Hs. unfold usub_digit.
    assert (Ws : wf [s]) by (apply wf_single; exact Hs).
    destruct (sub2_spec p a [s] Hp (proj1 Ca) Ws) as [H1 H2]. rewrite val_single in *.
    apply sub_finish.
    - intros H. destruct (H1 H) as (r & E & Wr & _ & Vr). eauto.
    - exact H2.
  Qed.

  Lemma wf_lohi s : 0 <= s < B * B -> wf [s mod B; s / B] /\ val [s mod B; s / B] = s.
  Proof.
    intros Hs. pose proof B_pos as HB. split.
    - apply wf_cons; split; [unfold digit; apply Z.mod_pos_bound; lia|].
      apply wf_single. unfold digit. split; [apply Z.div_pos; lia | apply Z.div_lt_upper_bound; lia].
    - cbn [val]. pose proof (Z.div_mod s B ltac:(lia)). lia.
  Qed.

  Lemma leaf_usub_u128_spec a s : canon a -> 0 <= s < B * B ->
    usub_u128 p a s = if val a <? s then Panic SubUnderflow else Ret (enc (val a - s)).
  Proof.
    intros Ca Hs. unfold usub_u128. destruct (wf_lohi s Hs) as [Wlh Vlh].
    destruct (sub2_spec p a [s mod B; s / B] Hp (proj1 Ca) Wlh) as [H1 H2]. rewrite Vlh in *.
    apply sub_finish.
    - intros H. destruct (H1 H) as (r & E & Wr & _ & Vr). eauto.
    - exact H2.
  Qed.

  Lemma leaf_digit_sub_u_spec s b : canon b -> 0 <= s < B ->
    digit_sub_u s b = if s <? val b then Panic SubUnderflow else Ret (enc (s - val b)).
  Proof.
    intros Cb Hs. unfold digit_sub_u.
    assert (Ws : wf [s]) by (apply wf_single; exact Hs).
    destruct b as [|d b1] eqn:Eb.
    - cbn [val]. destruct (Z.ltb_spec s 0); [lia|]. f_equal. rewrite Z.sub_0_r.
      rewrite <- (val_single s) at 2. symmetry. apply enc_strip; assumption.
    - rewrite <- Eb in *.
      destruct (sub2rev_spec [s] b Ws (proj1 Cb) ltac:(rewrite Eb; simpl; lia)) as [H1 H2].
      rewrite val_single in *.
      apply sub_finish.
      + intros H. destruct (H1 H) as (r & E & Wr & Vr). eauto.
      + exact H2.
  Qed.

  Lemma leaf_u128_sub_u_spec s b : canon b -> 0 <= s < B * B ->
    u128_sub_u s b = if s <? val b then Panic SubUnderflow else Ret (enc (s - val b)).
  Proof.
    intros Cb Hs. unfold u128_sub_u. destruct (wf_lohi s Hs) as [Wlh Vlh].
    set (b0 := b ++ zeros (2 - length b)).
    assert (Wb0 : wf b0) by (apply wf_app; split; [apply Cb|apply wf_zeros]).
    assert (Vb0 : val b0 = val b) by (unfold b0; rewrite val_app, val_zeros; lia).
    assert (Lb0 : (2 <= length b0)%nat) by (unfold b0; rewrite app_length, length_zeros; lia).
    destruct (sub2rev_spec [s mod B; s / B] b0 Wlh Wb0 ltac:(simpl; lia)) as [H1 H2].
    rewrite Vlh, Vb0 in *.
    apply sub_finish.
    - intros H. destruct (H1 H) as (r & E & Wr & Vr). eauto.
    - exact H2.
  Qed.

  (* ---- value-level view: exactly the hypotheses H_uadd_scalar, H_usub_scalar, H_scalar_usub ---- *)
  Definition uadd_s_val (x s : Z) : outcome Z :=
    omap val (if s <? B then uadd_digit p (enc x) s else uadd_u128 p (enc x) s).
  Definition usub_s_val (x s : Z) : outcome Z :=
    omap val (if s <? B then usub_digit p (enc x) s else usub_u128 p (enc x) s).
  Definition s_usub_val (s x : Z) : outcome Z :=
    omap val (if s <? B then digit_sub_u s (enc x) else u128_sub_u s (enc x)).

  Theorem H_uadd_scalar_discharged x s : 0 <= x -> 0 <= s < B * B -> uadd_s_val x s = zsem FamU OpAdd x s.
  Proof.
    intros Hx Hs. unfold uadd_s_val. pose proof (enc_canon x) as Cx. pose proof (enc_val x Hx) as Vx.
    destruct (Z.ltb_spec s B).
    - rewrite leaf_uadd_digit_spec by (auto; lia). simpl. rewrite Vx, enc_val by lia. reflexivity.
    - rewrite leaf_uadd_u128_spec by (auto; lia). simpl. rewrite Vx, enc_val by lia. reflexivity.
  Qed.
  Theorem H_usub_scalar_discharged x s : 0 <= x -> 0 <= s < B * B -> usub_s_val x s = zsem FamU OpSub x s.
  Proof.
    intros Hx Hs. unfold usub_s_val. pose proof (enc_canon x) as Cx. pose proof (enc_val x Hx) as Vx.
    destruct (Z.ltb_spec s B).
    - rewrite leaf_usub_digit_spec by (auto; lia). rewrite Vx. simpl.
      destruct (Z.ltb_spec x s); [reflexivity|]. simpl. rewrite enc_val by lia. reflexivity.
    - rewrite leaf_usub_u128_spec by (auto; lia). rewrite Vx. simpl.
      destruct (Z.ltb_spec x s); [reflexivity|]. simpl. rewrite enc_val by lia. reflexivity.
  Qed.
  Theorem H_scalar_usub_discharged s x : 0 <= x -> 0 <= s < B * B -> s_usub_val s x = zsem FamU OpSub s x.
  Proof.
    intros Hx Hs. unfold s_usub_val. pose proof (enc_canon x) as Cx. pose proof (enc_val x Hx) as Vx.
    destruct (Z.ltb_spec s B).
    - rewrite leaf_digit_sub_u_spec by (auto; lia). rewrite Vx. simpl.
      destruct (Z.ltb_spec s x); [reflexivity|]. simpl. rewrite enc_val by lia. reflexivity.
    - rewrite leaf_u128_sub_u_spec by (auto; lia). rewrite Vx. simpl.
      destruct (Z.ltb_spec s x); [reflexivity|]. simpl. rewrite enc_val by lia. reflexivity.
  Qed.
End AddSubLeaves.
