(* SrcLitLemmas.v — boolean equality tests on the source-literal vocabulary (SrcLit.v) reflect
   equality; [pin_fields] turns a conjunction of such tests into equations and substitutes them
   (used by the `<area>_ok_inv` lemmas of the iter / serde / bytes / rand / sign areas). *)
From BigNum Require Import Base SrcLit.
Open Scope Z_scope.

Lemma cmpop_eqb_true a b : cmpop_eqb a b = true -> a = b.
Proof. destruct a, b; try discriminate; reflexivity. Qed.
Lemma sign_eqb_true a b : sign_eqb a b = true -> a = b.
Proof. destruct a, b; try discriminate; reflexivity. Qed.
Lemma comparison_eqb_true a b : comparison_eqb a b = true -> a = b.
Proof. destruct a, b; try discriminate; reflexivity. Qed.
Lemma btest_eqb_true s t : btest_eqb s t = true -> s = t.
Proof.
  destruct s as [a b c], t as [a' b' c']. unfold btest_eqb. cbn [bt_neg1 bt_and bt_neg2].
  rewrite !andb_true_iff. intros [[H1 H2] H3].
  apply Bool.eqb_prop in H1, H2, H3. congruence.
Qed.

Ltac pin_fields_in H :=
  rewrite ?andb_true_iff in H;
  repeat match goal with H : _ /\ _ |- _ => destruct H end;
  repeat match goal with
  | H : cmpop_eqb _ _ = true |- _ => apply cmpop_eqb_true in H
  | H : sign_eqb _ _ = true |- _ => apply sign_eqb_true in H
  | H : comparison_eqb _ _ = true |- _ => apply comparison_eqb_true in H
  | H : btest_eqb _ _ = true |- _ => apply btest_eqb_true in H
  | H : Bool.eqb _ _ = true |- _ => apply Bool.eqb_prop in H
  | H : Nat.eqb _ _ = true |- _ => apply Nat.eqb_eq in H
  | H : Z.eqb _ _ = true |- _ => apply Z.eqb_eq in H
  end.
