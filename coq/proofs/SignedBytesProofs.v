(* SignedBytesProofs.v — two's complement and the signed-bytes forms (C09):
   from_signed_bytes_* accepts any sign-extended encoding; to_signed_bytes_* produces the
   shortest two's-complement encoding (the -2^(8k-1) exception included). *)
From BigNum Require Import Base BaseLemmas SpecBytes BytesLemmas BitDigits BitDigitsProofs
  SrcLit Iter IterProofs Bytes BytesProofs.
Open Scope Z_scope.

(** ** two's complement *)
Lemma tc_false_spec l : inb 256 l ->
  inb 256 (twos_complement false l) /\ length (twos_complement false l) = length l /\
  le_value 256 (twos_complement false l) = 256 ^ Z.of_nat (length l) - 1 - le_value 256 l.
Proof.
  induction l as [|d r IH]; intros H; [repeat split; constructor|].
  apply inb_cons in H as [Hd Hr]. destruct (IH Hr) as (I1 & I2 & I3).
  cbn [twos_complement length le_value]. rewrite I2, I3, Nat2Z.inj_succ, Z.pow_succ_r by lia.
  repeat split; [apply inb_cons; split; [lia|auto]|ring].
Qed.

Lemma tc_true_spec l : inb 256 l ->
  inb 256 (twos_complement true l) /\ length (twos_complement true l) = length l /\
  le_value 256 (twos_complement true l) =
    (256 ^ Z.of_nat (length l) - le_value 256 l) mod 256 ^ Z.of_nat (length l).
Proof.
  induction l as [|d r IH]; intros H; [repeat split; constructor|].
  apply inb_cons in H as [Hd Hr]. destruct (IH Hr) as (I1 & I2 & I3).
  pose proof (le_value_bound 256 r ltac:(lia) Hr) as Hbd.
  assert (HP : 0 < 256 ^ Z.of_nat (length r)) by (apply Z.pow_pos_nonneg; lia).
  cbn [twos_complement length le_value]. rewrite Nat2Z.inj_succ, Z.pow_succ_r by lia.
  set (P := 256 ^ Z.of_nat (length r)) in *.
  destruct (Z.eqb_spec d 0) as [->|Hnz].
  - change ((255 - 0 + 1) mod 256) with 0. cbn [Z.eqb]. cbn [length le_value]. rewrite I2, I3.
    repeat split; [apply inb_cons; split; [lia|auto]|].
    replace (256 * P - (0 + 256 * le_value 256 r)) with (256 * (P - le_value 256 r)) by ring.
    rewrite Z.mul_mod_distr_l by lia. ring.
  - assert (Hm : (255 - d + 1) mod 256 = 256 - d) by (replace (255 - d + 1) with (256 - d) by ring; apply Z.mod_small; lia).
    rewrite Hm. destruct (Z.eqb_spec (256 - d) 0); [lia|].
    destruct (tc_false_spec r Hr) as (F1 & F2 & F3).
    cbn [length le_value]. rewrite F2, F3. fold P.
    repeat split; [apply inb_cons; split; [lia|auto]|].
    rewrite Z.mod_small by nia. ring.
Qed.

(** ** from_signed_bytes *)
Lemma ufrom_bytes_be_rev l : ufrom_bytes_be bytes_std l = ufrom_bytes_le bytes_std (rev l).
Proof. unfold ufrom_bytes_be. destruct l; reflexivity. Qed.

Lemma ienc_0 : ienc 0 = mkint NoSign [].
Proof. unfold ienc. cbn [Z.abs z_sign]. rewrite enc_0. reflexivity. Qed.

Theorem from_signed_bytes_le_spec p bs : bytes_ok p = true -> inb 256 bs ->
  from_signed_bytes_le p bs = Ret (ienc (spec_from_signed_bytes_le bs)).
Proof.
  intros Hok. pose proof Hok as Hok'. by_std p Hok. rename Hok' into Hok.
  intros H. unfold from_signed_bytes_le, spec_from_signed_bytes_le. by_red.
  destruct (snoc_cases bs) as [->|(r & t & ->)]; [cbn; rewrite ienc_0; reflexivity|].
  rewrite last_opt_snoc. rewrite Z.gtb_ltb.
  pose proof H as H'. apply inb_app in H' as [Hr Ht]. apply inb_cons in Ht as [Ht _].
  pose proof (le_value_bound 256 r ltac:(lia) Hr) as Hbr.
  pose proof (le_value_bound 256 (r ++ [t]) ltac:(lia) H) as Hb.
  assert (Hv : le_value 256 (r ++ [t]) = le_value 256 r + 256 ^ Z.of_nat (length r) * t).
  { rewrite le_value_app. cbn [le_value]. ring. }
  destruct (Z.ltb_spec 127 t); cbn [sign_eqb].
  - unfold twos_complement_le. destruct (tc_true_spec (r ++ [t]) H) as (T1 & T2 & T3).
    rewrite ufrom_bytes_le_spec by auto. cbn [bind]. unfold spec_from_signed_bytes_le, spec_from_bytes_le.
    rewrite from_biguint_enc by (rewrite T3; apply Z.mod_pos_bound; lia).
    rewrite T3. do 2 f_equal. cbn [sign_z].
    assert (0 < 256 ^ Z.of_nat (length r)) by (apply Z.pow_pos_nonneg; lia).
    rewrite Z.mod_small by nia. ring.
  - rewrite ufrom_bytes_le_spec by auto. cbn [bind]. unfold spec_from_bytes_le.
    rewrite from_biguint_enc by lia. do 2 f_equal. cbn [sign_z]. ring.
Qed.

Lemma from_signed_bytes_be_le bs :
  from_signed_bytes_be bytes_std bs = from_signed_bytes_le bytes_std (rev bs).
Proof.
  unfold from_signed_bytes_be, from_signed_bytes_le. by_red. destruct bs as [|v r]; [reflexivity|].
  cbn [rev]. rewrite last_opt_snoc. rewrite !ufrom_bytes_be_rev.
  unfold twos_complement_be, twos_complement_le. cbn [rev]. rewrite rev_involutive. reflexivity.
Qed.
Theorem from_signed_bytes_be_spec p bs : bytes_ok p = true -> inb 256 bs ->
  from_signed_bytes_be p bs = Ret (ienc (spec_from_signed_bytes_be bs)).
Proof.
  intros Hok. pose proof Hok as Hok'. by_std p Hok. intros H. rewrite from_signed_bytes_be_le.
  apply from_signed_bytes_le_spec; [exact Hok'|apply inb_rev, H].
Qed.

(** ** the number of bytes of the shortest encoding *)
Lemma bitlen_range y j : 0 <= j -> 2 ^ j <= y < 2 ^ (j + 1) -> bitlen y = j + 1.
Proof.
  intros Hj [H1 H2]. unfold bitlen.
  assert (0 < 2 ^ j) by (apply Z.pow_pos_nonneg; lia).
  destruct (Z.leb_spec y 0); [lia|].
  assert (j <= Z.log2 y) by (apply Z.log2_le_pow2; lia).
  assert (Z.log2 y < j + 1) by (apply Z.log2_lt_pow2; lia). lia.
Qed.
Lemma bitlen_bounds y lo hi : 0 <= lo <= hi -> 2 ^ lo <= y < 2 ^ hi -> lo + 1 <= bitlen y <= hi.
Proof.
  intros Hj [H1 H2]. unfold bitlen.
  assert (0 < 2 ^ lo) by (apply Z.pow_pos_nonneg; lia).
  destruct (Z.leb_spec y 0); [lia|].
  assert (lo <= Z.log2 y) by (apply Z.log2_le_pow2; lia).
  assert (Z.log2 y < hi) by (apply Z.log2_lt_pow2; lia). lia.
Qed.

(** [signed_len x] is the least k >= 1 with -2^(8k-1) <= x < 2^(8k-1) *)
Theorem signed_len_char x k : 1 <= k -> - 2 ^ (8 * k - 1) <= x < 2 ^ (8 * k - 1) ->
  (k = 1 \/ ~ (- 2 ^ (8 * (k - 1) - 1) <= x < 2 ^ (8 * (k - 1) - 1))) ->
  signed_len x = k.
Proof.
  intros Hk Hr Hmin. unfold signed_len.
  set (y := if x <? 0 then - x - 1 else x).
  assert (Hy : 0 <= y < 2 ^ (8 * k - 1)) by (subst y; destruct (Z.ltb_spec x 0); lia).
  assert (Hy2 : k = 1 \/ 2 ^ (8 * (k - 1) - 1) <= y) by (subst y; destruct (Z.ltb_spec x 0); lia).
  clearbody y. clear Hr Hmin.
  assert (k = 1 \/ 2 <= k) as [->|Hk2] by lia.
  - change (2 ^ (8 * 1 - 1)) with 128 in Hy.
    destruct (Z.eq_dec y 0) as [->|Hnz]; [reflexivity|].
    pose proof (bitlen_bounds y 0 7 ltac:(lia) ltac:(change (2 ^ 0) with 1; change (2 ^ 7) with 128; lia)). lia.
  - destruct Hy2 as [->|Hy2]; [lia|].
    pose proof (bitlen_bounds y (8 * (k - 1) - 1) (8 * k - 1) ltac:(lia) ltac:(lia)). lia.
Qed.
Theorem signed_len_range x : let k := signed_len x in
  1 <= k /\ - 2 ^ (8 * k - 1) <= x < 2 ^ (8 * k - 1).
Proof.
  cbv zeta. unfold signed_len. set (y := if x <? 0 then - x - 1 else x).
  assert (Hy : 0 <= y) by (subst y; destruct (Z.ltb_spec x 0); lia).
  assert (Hb : 0 <= bitlen y) by (unfold bitlen; destruct (y <=? 0); [lia|pose proof (Z.log2_nonneg y); lia]).
  assert (Hlt : y < 2 ^ bitlen y).
  { unfold bitlen. destruct (Z.leb_spec y 0); [simpl; lia|]. apply Z.log2_spec; lia. }
  set (k := bitlen y / 8 + 1). assert (bitlen y <= 8 * k - 1) by (subst k; lia).
  assert (2 ^ bitlen y <= 2 ^ (8 * k - 1)) by (apply Z.pow_le_mono_r; lia).
  split; [subst k; lia|]. subst y. destruct (Z.ltb_spec x 0); lia.
Qed.

(** ** to_signed_bytes *)
Lemma all_zero_iff b l : 0 < b -> inb b l -> (all_zero l = true <-> le_value b l = 0).
Proof.
  intros Hb. induction l as [|d r IH]; intros H; [split; reflexivity|].
  apply inb_cons in H as [Hd Hr]. specialize (IH Hr).
  pose proof (le_value_bound b r Hb Hr). cbn [all_zero forallb le_value]. fold (all_zero r).
  rewrite andb_true_iff, IH, Z.eqb_eq. nia.
Qed.
Lemma all_zero_rev l : all_zero (rev l) = all_zero l.
Proof.
  unfold all_zero. destruct (forallb (fun d => d =? 0) l) eqn:E.
  - rewrite forallb_forall in *. intros x Hx. apply E, in_rev, Hx.
  - destruct (forallb (fun d => d =? 0) (rev l)) eqn:E2; [|reflexivity].
    rewrite <- E. symmetry. rewrite forallb_forall in *. intros x Hx. apply E2. rewrite <- in_rev. exact Hx.
Qed.

Lemma pow256 j : 0 <= j -> 256 ^ j = 2 ^ (8 * j).
Proof. intros. rewrite Z.pow_mul_r by lia. reflexivity. Qed.

Lemma le_digits_n_unique l n x : inb 256 l -> Z.of_nat (length l) = n ->
  le_value 256 l = x mod 2 ^ (8 * n) ->
  l = le_digits_n (Z.to_nat n) 256 (x mod 2 ^ (8 * n)).
Proof.
  intros H Hl Hv. rewrite <- Hv, <- Hl, Nat2Z.id. symmetry. apply le_digits_n_of_list; [lia|auto].
Qed.

(** shape of the magnitude bytes *)
Lemma to_bytes_shape m : 0 <= m ->
  exists r t, spec_to_bytes_le m = r ++ [t] /\ inb 256 r /\ 0 <= t < 256 /\
              le_value 256 r + 256 ^ Z.of_nat (length r) * t = m /\ (0 < m -> 0 < t) /\ (m = 0 -> r = []).
Proof.
  intros Hm. unfold spec_to_bytes_le. destruct (Z.eqb_spec m 0) as [->|Hnz].
  - exists [], 0. repeat split; try constructor; try reflexivity; lia.
  - destruct (le_digits_spec 256 m ltac:(lia) Hm) as (Hi & Hs & Hv).
    destruct (snoc_cases (le_digits 256 m)) as [E|(r & t & E)].
    + rewrite E in Hv. simpl in Hv. lia.
    + rewrite E in *. exists r, t. apply inb_app in Hi as [Hr Ht]. apply inb_cons in Ht as [Ht _].
      pose proof (strip_fix_snoc _ _ Hs).
      rewrite le_value_app in Hv. cbn [le_value] in Hv.
      repeat split; auto; try lia.
Qed.

Theorem to_signed_bytes_le_spec p x : bytes_ok p = true -> icanon x ->
  to_signed_bytes_le p x = Ret (spec_to_signed_bytes_le (ival x)).
Proof.
  intros Hok. pose proof Hok as Hok'. by_std p Hok. rename Hok' into Hok.
  intros Hx. destruct (icanon_parts x Hx) as (Hc & Hs & Hv).
  unfold to_signed_bytes_le. by_red. rewrite uto_bytes_le_spec by auto. cbn [bind]. rewrite Hv, Hs.
  set (z := ival x) in *. clearbody z. clear x Hx Hc Hs Hv.
  destruct (to_bytes_shape (Z.abs z) ltac:(lia)) as (r & t & E & Hr & Ht & Hm & Hpos & Hzero).
  rewrite E, last_opt_snoc, rev_unit. cbn [skipn]. rewrite all_zero_rev, Z.gtb_ltb.
  pose proof (le_value_bound 256 r ltac:(lia) Hr) as Hbr.
  set (k := Z.of_nat (length r) + 1).
  assert (Hk : 1 <= k) by lia.
  assert (HQ : 256 ^ Z.of_nat (length r) = 2 ^ (8 * k - 8)).
  { rewrite pow256 by lia. f_equal. lia. }
  set (Q := 2 ^ (8 * k - 8)) in *. assert (0 < Q) by (apply Z.pow_pos_nonneg; lia).
  rewrite HQ in *.
  assert (P1 : 2 ^ (8 * k - 1) = 128 * Q).
  { replace (8 * k - 1) with (8 * k - 8 + 7) by lia. rewrite Z.pow_add_r by lia. fold Q. lia. }
  assert (P2 : 2 ^ (8 * k) = 256 * Q).
  { replace (8 * k) with (8 * k - 8 + 8) by lia. rewrite Z.pow_add_r by lia. fold Q. lia. }
  assert (P3 : 2 ^ (8 * (k + 1) - 1) = 32768 * Q).
  { replace (8 * (k + 1) - 1) with (8 * k - 8 + 15) by lia. rewrite Z.pow_add_r by lia. fold Q. lia. }
  assert (P4 : 2 ^ (8 * (k + 1)) = 65536 * Q).
  { replace (8 * (k + 1)) with (8 * k - 8 + 16) by lia. rewrite Z.pow_add_r by lia. fold Q. lia. }
  assert (P5 : 2 <= k -> Q = 2 * 2 ^ (8 * (k - 1) - 1)).
  { intros. subst Q. replace (8 * k - 8) with (1 + (8 * (k - 1) - 1)) by lia. rewrite Z.pow_add_r by lia. reflexivity. }
  assert (Hin : inb 256 (r ++ [t])) by (apply inb_app; split; [auto|apply inb_cons; split; [auto|constructor]]).
  assert (Hlen : Z.of_nat (length (r ++ [t])) = k) by (rewrite app_length; simpl; lia).
  assert (Hval : le_value 256 (r ++ [t]) = Z.abs z) by (rewrite le_value_app; cbn [le_value]; rewrite HQ; lia).
  pose proof (all_zero_iff 256 r ltac:(lia) Hr) as Haz.
  f_equal. unfold spec_to_signed_bytes_le.
  destruct z as [|p|p]; cbn [z_sign sign_eqb andb negb].
  - (* zero *)
    specialize (Hzero eq_refl). subst r. simpl Z.abs in Hm. cbn [le_value length Z.of_nat] in Hm.
    assert (t = 0) by (subst Q k; simpl in *; lia). subst t. reflexivity.
  - (* positive *)
    rewrite andb_false_r. cbn [negb]. rewrite andb_true_r.
    simpl Z.abs in *. specialize (Hpos ltac:(lia)).
    destruct (Z.ltb_spec 127 t).
    + rewrite (signed_len_char (Z.pos p) (k + 1)); [|lia|rewrite P3; nia|right; replace (k + 1 - 1) with k by lia; rewrite P1; nia].
      apply le_digits_n_unique.
      * apply inb_app; split; [auto|apply inb_cons; split; [lia|constructor]].
      * rewrite app_length. simpl length. lia.
      * rewrite le_value_app. cbn [le_value]. rewrite Hval, P4, Z.mod_small by nia. lia.
    + rewrite (signed_len_char (Z.pos p) k); [|lia|rewrite P1; nia|].
      * apply le_digits_n_unique; auto. rewrite Hval, P2, Z.mod_small by nia. reflexivity.
      * assert (k = 1 \/ 2 <= k) as [?|Hk2] by lia; [auto|right]. rewrite (P5 Hk2) in *. nia.
  - (* negative *)
    rewrite !andb_true_r. simpl Z.abs in *. specialize (Hpos ltac:(lia)).
    unfold twos_complement_le.
    destruct (Z.ltb_spec 127 t); cbn [andb negb].
    + destruct (Z.eqb_spec t 128) as [->|Hne]; cbn [andb negb].
      * destruct (all_zero r) eqn:Ez; cbn [negb].
        -- (* exactly -2^(8k-1): no extension byte *)
           assert (Hr0 : le_value 256 r = 0) by (apply Haz; reflexivity).
           destruct (tc_true_spec (r ++ [128]) Hin) as (T1 & T2 & T3).
           rewrite (signed_len_char (Z.neg p) k); [|lia|rewrite P1; nia|].
           ++ apply le_digits_n_unique; auto; [rewrite T2; auto|].
              rewrite T3, Hval, Hlen, pow256, P2 by lia.
              rewrite Z.mod_small by nia.
              apply Z.mod_unique with (q := -1); nia.
           ++ assert (k = 1 \/ 2 <= k) as [?|Hk2] by lia; [auto|right]. rewrite (P5 Hk2) in *. nia.
        -- assert (Hr0 : le_value 256 r <> 0) by (intros E0; apply Haz in E0; congruence).
           assert (Hin2 : inb 256 ((r ++ [128]) ++ [0])) by (apply inb_app; split; [auto|apply inb_cons; split; [lia|constructor]]).
           destruct (tc_true_spec _ Hin2) as (T1 & T2 & T3).
           assert (Hlen2 : Z.of_nat (length ((r ++ [128]) ++ [0])) = k + 1) by (rewrite app_length; simpl length; lia).
           rewrite (signed_len_char (Z.neg p) (k + 1)); [|lia|rewrite P3; nia|right; replace (k + 1 - 1) with k by lia; rewrite P1; nia].
           apply le_digits_n_unique; auto; [rewrite T2; auto|].
           rewrite T3, Hlen2, pow256, P4 by lia. rewrite le_value_app. cbn [le_value]. rewrite Hval.
           rewrite Z.mod_small by nia.
           apply Z.mod_unique with (q := -1); nia.
      * assert (Hin2 : inb 256 ((r ++ [t]) ++ [0])) by (apply inb_app; split; [auto|apply inb_cons; split; [lia|constructor]]).
        destruct (tc_true_spec _ Hin2) as (T1 & T2 & T3).
        assert (Hlen2 : Z.of_nat (length ((r ++ [t]) ++ [0])) = k + 1) by (rewrite app_length; simpl length; lia).
        rewrite (signed_len_char (Z.neg p) (k + 1)); [|lia|rewrite P3; nia|right; replace (k + 1 - 1) with k by lia; rewrite P1; nia].
        apply le_digits_n_unique; auto; [rewrite T2; auto|].
        rewrite T3, Hlen2, pow256, P4 by lia. rewrite le_value_app. cbn [le_value]. rewrite Hval.
        rewrite Z.mod_small by nia.
        apply Z.mod_unique with (q := -1); nia.
    + destruct (tc_true_spec (r ++ [t]) Hin) as (T1 & T2 & T3).
      rewrite (signed_len_char (Z.neg p) k); [|lia|rewrite P1; nia|].
      * apply le_digits_n_unique; auto; [rewrite T2; auto|].
        rewrite T3, Hval, Hlen, pow256, P2 by lia.
        rewrite Z.mod_small by nia.
        apply Z.mod_unique with (q := -1); nia.
      * assert (k = 1 \/ 2 <= k) as [?|Hk2] by lia; [auto|right]. rewrite (P5 Hk2) in *. nia.
Qed.

Theorem signed_len_minimal x j : 1 <= j -> - 2 ^ (8 * j - 1) <= x < 2 ^ (8 * j - 1) ->
  signed_len x <= j.
Proof.
  intros Hj Hr. unfold signed_len. set (y := if x <? 0 then - x - 1 else x).
  assert (Hy : 0 <= y < 2 ^ (8 * j - 1)) by (subst y; destruct (Z.ltb_spec x 0); lia).
  clearbody y. unfold bitlen. destruct (Z.leb_spec y 0); [simpl; lia|].
  assert (Z.log2 y < 8 * j - 1) by (apply Z.log2_lt_pow2; lia). lia.
Qed.

(** big-endian = the reversed little-endian encoding *)
Lemma to_signed_bytes_be_le x :
  to_signed_bytes_be bytes_std x = do l <- to_signed_bytes_le bytes_std x; Ret (rev l).
Proof.
  unfold to_signed_bytes_be, to_signed_bytes_le, uto_bytes_be. by_red.
  destruct (uto_bytes_le bytes_std (mag x)) as [bytes| |]; cbn [bind]; try reflexivity.
  assert (Hfb : match rev bytes with b :: _ => b | [] => 0 end
                = match last_opt bytes with Some b => b | None => 0 end).
  { destruct (snoc_cases bytes) as [->|(r & t & ->)]; [reflexivity|].
    rewrite rev_unit, last_opt_snoc. reflexivity. }
  rewrite Hfb. f_equal.
  set (c := (_ >? 127) && _). destruct c.
  - destruct (sign_eqb (sg x) Minus).
    + unfold twos_complement_be, twos_complement_le. f_equal. f_equal.
      change (0 :: rev bytes) with (rev [0] ++ rev bytes). rewrite <- rev_app_distr, rev_involutive. reflexivity.
    + rewrite rev_unit. reflexivity.
  - destruct (sign_eqb (sg x) Minus).
    + unfold twos_complement_be, twos_complement_le. rewrite rev_involutive. reflexivity.
    + reflexivity.
Qed.
Theorem to_signed_bytes_be_spec p x : bytes_ok p = true -> icanon x ->
  to_signed_bytes_be p x = Ret (spec_to_signed_bytes_be (ival x)).
Proof.
  intros Hok. pose proof Hok as Hok'. by_std p Hok. intros Hx.
  rewrite to_signed_bytes_be_le, to_signed_bytes_le_spec by auto. reflexivity.
Qed.

(** round trip: importing the exported encoding gives the value back *)
Theorem from_to_signed_bytes_le p x : bytes_ok p = true -> icanon x ->
  (do l <- to_signed_bytes_le p x; from_signed_bytes_le p l) = Ret x.
Proof.
  intros Hok Hx. rewrite to_signed_bytes_le_spec by auto. cbn [bind].
  set (z := ival x). pose proof (signed_len_range z) as [Hk Hr]. cbv zeta in Hk, Hr.
  unfold spec_to_signed_bytes_le. set (k := signed_len z) in *.
  assert (Hb : 2 ^ (8 * k) = 2 * 2 ^ (8 * k - 1)).
  { transitivity (2 ^ (1 + (8 * k - 1))); [f_equal; lia|]. rewrite Z.pow_add_r by lia. reflexivity. }
  assert (0 < 2 ^ (8 * k - 1)) by (apply Z.pow_pos_nonneg; lia).
  set (l := le_digits_n (Z.to_nat k) 256 (z mod 2 ^ (8 * k))).
  assert (Hl : inb 256 l) by (apply le_digits_n_inb; lia).
  assert (Hlen : Z.of_nat (length l) = k) by (subst l; rewrite le_digits_n_length; lia).
  assert (Hv : le_value 256 l = z mod 2 ^ (8 * k)).
  { subst l. rewrite le_digits_n_value by lia. rewrite Z2Nat.id, pow256 by lia.
    apply Z.mod_mod. lia. }
  rewrite from_signed_bytes_le_spec by auto. f_equal.
  rewrite <- (ienc_of_icanon x Hx). f_equal. fold z.
  unfold spec_from_signed_bytes_le.
  destruct (snoc_cases l) as [E|(r & t & E)].
  - rewrite E in Hlen. simpl in Hlen. lia.
  - rewrite E, last_opt_snoc, <- E, Hlen, Hv, pow256, Z.gtb_ltb by lia.
    (* t is the top byte: t > 127 iff the residue is >= 2^(8k-1) *)
    pose proof Hl as Hl'. rewrite E in Hl'. apply inb_app in Hl' as [Hr' Ht]. apply inb_cons in Ht as [Ht _].
    pose proof (le_value_bound 256 r ltac:(lia) Hr') as Hbr.
    assert (Hlr : Z.of_nat (length r) = k - 1) by (rewrite E, app_length in Hlen; simpl in Hlen; lia).
    assert (Hsplit : z mod 2 ^ (8 * k) = le_value 256 r + 256 ^ (k - 1) * t).
    { rewrite <- Hv, E, le_value_app, Hlr. cbn [le_value]. ring. }
    assert (HQ : 2 ^ (8 * k - 1) = 128 * 256 ^ (k - 1)).
    { rewrite pow256 by lia. replace (8 * k - 1) with (7 + 8 * (k - 1)) by lia. rewrite Z.pow_add_r by lia. reflexivity. }
    assert (0 < 256 ^ (k - 1)) by (apply Z.pow_pos_nonneg; lia).
    rewrite Hlr in Hbr.
    destruct (Z.ltb_spec 127 t).
    + assert (z < 0) by (destruct (Z.lt_ge_cases z 0); [auto|rewrite Z.mod_small in Hsplit by lia; nia]).
      assert (z mod 2 ^ (8 * k) = z + 2 ^ (8 * k)) by (symmetry; apply Z.mod_unique with (q := -1); lia). lia.
    + assert (0 <= z).
      { destruct (Z.lt_ge_cases z 0); [|auto].
        assert (z mod 2 ^ (8 * k) = z + 2 ^ (8 * k)) by (symmetry; apply Z.mod_unique with (q := -1); lia). nia. }
      apply Z.mod_small. lia.
Qed.
