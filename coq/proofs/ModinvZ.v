(* ModinvZ.v — pure Z-level facts about the modular inverse spec (spec/SpecModpow.v):
   [modinv_rel] determines its result, and the executable [zmodinv_pos]/[zmodinv]
   (extended Euclid) satisfy it. *)
From BigNum Require Import Base BaseLemmas SpecModpow.
From Coq Require Import Znumtheory.
Open Scope Z_scope.

Lemma cong_iff_divide a c m : m <> 0 -> (a mod m = c mod m <-> (m | a - c)).
Proof.
  intros Hm. split.
  - intros E. apply Z.mod_divide; [auto|]. rewrite Zminus_mod, E, Z.sub_diag. apply Z.mod_0_l; auto.
  - intros [q Eq]. replace a with (c + q * m) by lia. apply Z.mod_add; auto.
Qed.

Theorem modinv_rel_unique b m r1 r2 : m <> 0 ->
  modinv_rel b m r1 -> modinv_rel b m r2 -> r1 = r2.
Proof.
  intros Hm H1 H2. destruct r1 as [x1|], r2 as [x2|]; cbn [modinv_rel] in *; try tauto; try reflexivity.
  destruct H1 as (R1 & E1 & G), H2 as (R2 & E2 & _).
  assert (D : (m | b * (x1 - x2))).
  { replace (b * (x1 - x2)) with (b * x1 - b * x2) by ring. apply cong_iff_divide; [auto|congruence]. }
  apply Z.gauss in D; [|rewrite Z.gcd_comm; auto]. destruct D as [q Eq]. f_equal.
  unfold in_range in *. destruct R1 as [R1|R1], R2 as [R2|R2]; try lia; assert (q = 0) by nia; lia.
Qed.

(** the Euclid loop *)
Definition EInv (b m r0 r1 t0 t1 : Z) : Prop :=
  0 <= r1 < r0 /\ 0 <= t0 < m /\ 0 <= t1 < m /\
  (t0 * b) mod m = r0 mod m /\ (t1 * b) mod m = r1 mod m /\ Z.gcd r0 r1 = Z.gcd b m.

Lemma zinv_loop_S f m r0 r1 t0 t1 :
  zinv_loop (S f) m r0 r1 t0 t1 =
  if r1 =? 0 then Ret (if r0 =? 1 then Some t0 else None)
  else zinv_loop f m r1 (r0 mod r1) t1 ((t0 - (r0 / r1) * t1) mod m).
Proof. reflexivity. Qed.

Lemma EInv_step b m r0 r1 t0 t1 : 0 < m -> r1 <> 0 -> EInv b m r0 r1 t0 t1 ->
  EInv b m r1 (r0 mod r1) t1 ((t0 - (r0 / r1) * t1) mod m) /\ 2 * (r0 mod r1) < r0.
Proof.
  intros Hm Hr1 (Hr & Ht0 & Ht1 & E0 & E1 & G).
  assert (Hr2 : 0 <= r0 mod r1 < r1) by (apply Z.mod_pos_bound; lia).
  split; [|pose proof (Z.div_mod r0 r1 Hr1); assert (1 <= r0 / r1) by (apply Z.div_le_lower_bound; lia); nia].
  split; [lia|]. split; [auto|]. split; [apply Z.mod_pos_bound; auto|]. split; [auto|]. split.
  - rewrite Z.mul_mod_idemp_l by lia.
    replace ((t0 - r0 / r1 * t1) * b) with (t0 * b - (r0 / r1) * (t1 * b)) by ring.
    rewrite Zminus_mod, E0. rewrite (Z.mul_mod (r0 / r1) (t1 * b)), E1 by lia.
    rewrite <- Z.mul_mod, <- Zminus_mod by lia. f_equal. rewrite Z.mod_eq by auto. ring.
  - rewrite <- G. rewrite (Z.gcd_comm r1 (r0 mod r1)), Z.gcd_mod by auto. apply Z.gcd_comm.
Qed.

Lemma EInv_final b m r0 t0 t1 : 0 < m -> EInv b m r0 0 t0 t1 ->
  modinv_rel b m (if r0 =? 1 then Some t0 else None).
Proof.
  intros Hm (Hr & Ht0 & Ht1 & E0 & E1 & G). rewrite Z.gcd_0_r, Z.abs_eq in G by lia.
  destruct (Z.eqb_spec r0 1) as [->|N]; cbn [modinv_rel].
  - split; [left; lia|]. split; [rewrite Z.mul_comm; exact E0|auto].
  - congruence.
Qed.

Lemma zinv_loop_ok b m : 0 < m -> forall f r0 r1 t0 t1, EInv b m r0 r1 t0 t1 ->
  r0 * r1 < 2 ^ Z.of_nat f ->
  exists r, zinv_loop (S f) m r0 r1 t0 t1 = Ret r /\ modinv_rel b m r.
Proof.
  intros Hm. induction f as [|f IH]; intros r0 r1 t0 t1 HI Hf; rewrite zinv_loop_S.
  - change (2 ^ Z.of_nat 0) with 1 in Hf. assert (r1 = 0) by (destruct HI as (Hr & _); nia). subst r1.
    cbn [Z.eqb]. eexists; split; [reflexivity|]. eapply EInv_final; eauto.
  - destruct (Z.eqb_spec r1 0) as [->|N].
    + eexists; split; [reflexivity|]. eapply EInv_final; eauto.
    + destruct (EInv_step b m r0 r1 t0 t1 Hm N HI) as (HI' & H2). apply IH; [exact HI'|].
      rewrite Nat2Z.inj_succ, Z.pow_succ_r in Hf by lia. destruct HI as (Hr & _). nia.
Qed.

Lemma EInv_init b m : 0 < m -> EInv b m m (b mod m) 0 (1 mod m).
Proof.
  intros Hm. pose proof (Z.mod_pos_bound b m Hm). pose proof (Z.mod_pos_bound 1 m Hm).
  split; [lia|]. split; [lia|]. split; [lia|]. split; [rewrite Z.mul_0_l, Z.mod_same, Z.mod_0_l; lia|].
  split; [rewrite Z.mul_mod_idemp_l, Z.mul_1_l, Z.mod_mod by lia; reflexivity|].
  rewrite (Z.gcd_comm m (b mod m)), Z.gcd_mod by lia. apply Z.gcd_comm.
Qed.

Lemma sq_lt_pow_log2 m : 0 < m -> m * m < 2 ^ (2 * (Z.log2 m + 1)).
Proof.
  intros Hm. pose proof (Z.log2_spec m Hm) as [_ H]. pose proof (Z.log2_nonneg m).
  replace (2 * (Z.log2 m + 1)) with (Z.succ (Z.log2 m) + Z.succ (Z.log2 m)) by lia.
  rewrite Z.pow_add_r by lia. nia.
Qed.

Theorem zmodinv_pos_char b m : 0 < m ->
  exists r, zmodinv_pos b m = Ret r /\ modinv_rel b m r.
Proof.
  intros Hm. unfold zmodinv_pos, zinv_fuel. pose proof (Z.log2_nonneg m).
  replace (Z.to_nat (2 * (Z.log2 m + 1) + 2)) with (S (Z.to_nat (2 * (Z.log2 m + 1) + 1))) by lia.
  apply zinv_loop_ok; [auto|apply EInv_init; auto|].
  rewrite Z2Nat.id by lia. pose proof (sq_lt_pow_log2 m Hm). pose proof (Z.mod_pos_bound b m Hm).
  rewrite Z.pow_add_r by lia. change (2 ^ 1) with 2.
  assert (0 < 2 ^ (2 * (Z.log2 m + 1))) by (apply Z.pow_pos_nonneg; lia). nia.
Qed.

Theorem zmodinv_char b m : m <> 0 ->
  exists r, zmodinv b m = Ret r /\ modinv_rel b m r.
Proof.
  intros Hm. unfold zmodinv.
  destruct (zmodinv_pos_char b (Z.abs m) ltac:(lia)) as (r & E & Hr). rewrite E. cbn [omap bind].
  eexists; split; [reflexivity|]. destruct r as [x|]; cbn [option_map modinv_rel] in *.
  - destruct Hr as (R & Ex & G). rewrite Z.gcd_abs_r in G.
    split; [|split; [|auto]].
    + unfold in_range. destruct (Z.lt_ge_cases m 0).
      * right. pose proof (Z.mod_neg_bound x m ltac:(lia)). lia.
      * left. apply Z.mod_pos_bound. lia.
    + rewrite Z.mul_mod_idemp_r by auto. apply cong_iff_divide; [auto|].
      apply cong_iff_divide in Ex; [|lia]. apply (proj1 (Z.divide_abs_l _ _)) in Ex. exact Ex.
  - rewrite Z.gcd_abs_r in Hr. exact Hr.
Qed.

(** spec-level corollaries used by props/C05.v *)
Theorem spec_umodinv_char b m : 0 < m ->
  exists r, spec_umodinv b m = Ret r /\ modinv_rel b m r.
Proof.
  intros Hm. unfold spec_umodinv. replace (m =? 0) with false by (symmetry; apply Z.eqb_neq; lia).
  apply zmodinv_pos_char; auto.
Qed.
Theorem spec_imodinv_char b m : m <> 0 ->
  exists r, spec_imodinv b m = Ret r /\ modinv_rel b m r.
Proof.
  intros Hm. unfold spec_imodinv. replace (m =? 0) with false by (symmetry; apply Z.eqb_neq; lia).
  apply zmodinv_char; auto.
Qed.
