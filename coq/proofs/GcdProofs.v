(* GcdProofs.v — C13, part 1: trailing_zeros / bits, Stein's binary gcd (loop invariant
   gcd(m,n) * 2^shift = gcd(a,b), fuel bits a + bits b + 2 suffices), lcm, gcd_lcm,
   is_multiple_of, next/prev_multiple_of, inc/dec for BigUint and the BigInt delegations.
   Generic in the extracted parameters (gcd_ok, addsub_ok) and in exact big operations. *)
From BigNum Require Import Base BaseLemmas X86 AddSub AddSubProofs ShiftCore ShiftCoreProofs
  PgrLoop PgrLoopProofs Pow PowProofs Gcd SpecGcd.
Open Scope Z_scope.

Definition gcd_ok (p : gcd_params) : bool :=
  cmpop_eqb (gc_swap_cmp p) Cgt && gc_shift_min p.
Lemma gcd_ok_inv p : gcd_ok p = true -> gc_swap_cmp p = Cgt /\ gc_shift_min p = true.
Proof. unfold gcd_ok. rewrite andb_true_iff. intros [H1 H2]. apply cmpop_eqb_eq in H1. auto. Qed.

(** * Z-level facts *)
Definition zbits (v : Z) : Z := if v =? 0 then 0 else Z.log2 v + 1.

Lemma zbits_nonneg v : 0 <= zbits v.
Proof. unfold zbits. destruct (v =? 0); [lia|]. pose proof (Z.log2_nonneg v). lia. Qed.
Lemma zbits_mono x y : 0 <= x <= y -> zbits x <= zbits y.
Proof.
  intros H. unfold zbits. destruct (Z.eqb_spec x 0), (Z.eqb_spec y 0); try lia.
  - pose proof (Z.log2_nonneg y). lia.
  - pose proof (Z.log2_le_mono x y ltac:(lia)). lia.
Qed.
Lemma zbits_half x : 2 <= x -> zbits (x / 2) = zbits x - 1.
Proof.
  intros H. unfold zbits. destruct (Z.eqb_spec (x / 2) 0); [lia|]. destruct (Z.eqb_spec x 0); [lia|].
  rewrite log2_half by lia. lia.
Qed.

Lemma odd_mod2 x : Z.odd x = true <-> x mod 2 = 1.
Proof. rewrite Zmod_odd. destruct (Z.odd x); split; intros; try reflexivity; lia. Qed.

Lemma odd_divide_2 g : Z.odd g = true -> Z.gcd g 2 = 1.
Proof.
  intros Ho. pose proof (Z.gcd_nonneg g 2) as Hn.
  pose proof (Z.gcd_divide_r g 2) as H2. pose proof (Z.gcd_divide_l g 2) as Hg.
  assert (Hle : Z.gcd g 2 <= 2) by (apply Z.divide_pos_le; [lia|auto]).
  assert (Hne0 : Z.gcd g 2 <> 0) by (intros E; apply Z.gcd_eq_0_r in E; lia).
  assert (Hc : Z.gcd g 2 = 1 \/ Z.gcd g 2 = 2) by lia. destruct Hc as [|E]; [auto|].
  rewrite E in Hg. destruct Hg as [k Hk]. apply odd_mod2 in Ho. lia.
Qed.

(** an odd number is coprime to 2, so a factor 2 can be dropped *)
Lemma gcd_double_odd a n : Z.odd n = true -> Z.gcd (2 * a) n = Z.gcd a n.
Proof.
  intros Ho.
  apply Z.divide_antisym_nonneg; try apply Z.gcd_nonneg.
  - apply Z.gcd_greatest; [|apply Z.gcd_divide_r].
    pose proof (Z.gcd_divide_l (2 * a) n) as H1. pose proof (Z.gcd_divide_r (2 * a) n) as H2.
    set (g := Z.gcd (2 * a) n) in *.
    assert (Og : Z.odd g = true).
    { destruct H2 as [k Hk]. destruct (Z.odd g) eqn:E; [reflexivity|].
      assert (Ev : Z.even g = true) by (rewrite <- Z.negb_odd, E; reflexivity).
      apply Z.even_spec in Ev. destruct Ev as [j Hj]. apply odd_mod2 in Ho. lia. }
    apply Z.gauss with (m := 2); [exact H1|]. apply odd_divide_2, Og.
  - apply Z.gcd_greatest; [|apply Z.gcd_divide_r].
    apply Z.divide_mul_r, Z.gcd_divide_l.
Qed.

Lemma gcd_pow2_odd k a n : 0 <= k -> Z.odd n = true -> Z.gcd (a * 2 ^ k) n = Z.gcd a n.
Proof.
  intros Hk Ho. revert a. pattern k. apply natlike_ind; [| |exact Hk].
  - intros a. rewrite Z.pow_0_r, Z.mul_1_r. reflexivity.
  - intros j Hj IH a. rewrite Z.pow_succ_r by lia.
    replace (a * (2 * 2 ^ j)) with (2 * (a * 2 ^ j)) by ring.
    rewrite gcd_double_odd by auto. apply IH.
Qed.

Lemma odd_sub_even x y : Z.odd x = true -> Z.odd y = true -> Z.even (x - y) = true.
Proof. intros Hx Hy. rewrite Z.even_sub, <- !Z.negb_odd, Hx, Hy. reflexivity. Qed.

(** gcd of two numbers with their powers of two split off *)
Lemma gcd_split_pow2 a' b' ta tb : 0 <= ta -> 0 <= tb -> Z.odd a' = true -> Z.odd b' = true ->
  Z.gcd (a' * 2 ^ ta) (b' * 2 ^ tb) = Z.gcd a' b' * 2 ^ Z.min ta tb.
Proof.
  intros Ha Hb Oa Ob.
  destruct (Z.le_ge_cases ta tb) as [H|H].
  - rewrite Z.min_l by lia. replace tb with ((tb - ta) + ta) at 1 by lia.
    rewrite Z.pow_add_r by lia. rewrite Z.mul_assoc.
    rewrite Z.gcd_mul_mono_r_nonneg by (apply Z.pow_nonneg; lia).
    f_equal. rewrite (Z.gcd_comm a'), gcd_pow2_odd by (auto; lia). apply Z.gcd_comm.
  - rewrite Z.min_r by lia. replace ta with ((ta - tb) + tb) at 1 by lia.
    rewrite Z.pow_add_r by lia. rewrite Z.mul_assoc.
    rewrite Z.gcd_mul_mono_r_nonneg by (apply Z.pow_nonneg; lia).
    f_equal. apply gcd_pow2_odd; auto; lia.
Qed.

(** * trailing_zeros, bits *)
Lemma tz_digit_spec fuel : forall d, 0 < d < 2 ^ Z.of_nat fuel ->
  exists q, 0 <= tz_digit fuel d /\ d = q * 2 ^ tz_digit fuel d /\ Z.odd q = true.
Proof.
  induction fuel as [|f IH]; intros d Hd.
  - cbn in Hd. lia.
  - cbn [tz_digit]. destruct (Z.even d) eqn:Ev.
    + apply Z.even_spec in Ev. destruct Ev as [h ->].
      rewrite Nat2Z.inj_succ, Z.pow_succ_r in Hd by lia.
      replace (2 * h / 2) with h by (rewrite Z.mul_comm, Z.div_mul; lia).
      destruct (IH h ltac:(lia)) as (q & H0 & Hq & Oq).
      exists q. split; [lia|]. split; [|exact Oq].
      rewrite Z.pow_add_r, Z.pow_1_r by lia. rewrite Hq at 1. ring.
    + exists d. split; [lia|]. rewrite Z.pow_0_r, Z.mul_1_r. split; [reflexivity|].
      rewrite <- Z.negb_even, Ev. reflexivity.
Qed.

Lemma pgr_tz_spec a : wf a -> 0 < val a ->
  exists k q, pgr_tz a = Some k /\ 0 <= k /\ val a = q * 2 ^ k /\ Z.odd q = true.
Proof.
  induction a as [|d r IH]; intros W Hp.
  - cbn in Hp. lia.
  - apply wf_cons in W. destruct W as [[Hd0 Hd1] Wr]. cbn [pgr_tz val] in *.
    destruct (Z.eqb_spec d 0) as [->|Hn].
    + pose proof B_pos. destruct (IH Wr ltac:(nia)) as (k & q & -> & Hk & Hv & Oq).
      exists (64 + k), q. cbn [option_map]. split; [reflexivity|]. split; [lia|]. split; [|exact Oq].
      rewrite Z.pow_add_r, B_as_pow2, Hv by lia. ring.
    + rewrite B_as_pow2 in Hd1. destruct (tz_digit_spec 64 d ltac:(cbn; lia)) as (q & H0 & Hq & Oq).
      set (k := tz_digit 64 d) in *.
      assert (Hq0 : 0 < q) by (pose proof (Z.pow_pos_nonneg 2 k ltac:(lia) H0); nia).
      assert (Hk64 : k < 64).
      { destruct (Z.lt_ge_cases k 64); [auto|].
        pose proof (Z.pow_le_mono_r 2 64 k ltac:(lia) ltac:(lia)). nia. }
      exists k, (q + 2 ^ (64 - k) * val r). split; [reflexivity|]. split; [exact H0|]. split.
      * rewrite (B_split k) by lia. rewrite Hq at 1. ring.
      * replace (64 - k) with (Z.succ (63 - k)) by lia. rewrite Z.pow_succ_r by lia.
        replace (q + 2 * 2 ^ (63 - k) * val r) with (q + 2 * (2 ^ (63 - k) * val r)) by ring.
        rewrite Z.odd_add_mul_2. exact Oq.
Qed.

Lemma twos_spec a : wf a -> 0 < val a ->
  exists q, 0 <= twos a /\ val a = q * 2 ^ twos a /\ Z.odd q = true.
Proof.
  intros W Hp. destruct (pgr_tz_spec a W Hp) as (k & q & E & Hk & Hv & Oq).
  unfold twos. rewrite E. exists q; auto.
Qed.

Lemma canon_last_nz l d : canon (l ++ [d]) -> d <> 0.
Proof.
  intros C Ed. subst d. pose proof (canon_lower _ C ltac:(destruct l; discriminate)) as HL.
  rewrite app_length in HL. cbn [length] in HL.
  replace (Z.of_nat (length l + 1) - 1) with (Z.of_nat (length l)) in HL by lia.
  destruct C as [W _]. apply wf_app in W. destruct W as [Wl _].
  rewrite val_app in HL. cbn [val] in HL. pose proof (val_bound l Wl). lia.
Qed.

Theorem pgr_bits_spec a : canon a -> pgr_bits a = zbits (val a).
Proof.
  intros C. destruct a as [|d0 r]; [reflexivity|].
  destruct (exists_last (l := d0 :: r) ltac:(discriminate)) as (l & d & E). rewrite E in *.
  pose proof (canon_last_nz l d C) as Hnz.
  destruct C as [W _]. apply wf_app in W. destruct W as [Wl Wd]. apply wf_cons in Wd. destruct Wd as [[Hd0 Hd1] _].
  unfold pgr_bits. destruct (l ++ [d]) eqn:El; [destruct l; discriminate|]. rewrite <- El. clear El.
  rewrite last_last, app_length. cbn [length]. rewrite val_app. cbn [val]. rewrite Z.mul_0_r, Z.add_0_r.
  pose proof (val_bound l Wl) as Hb. set (n := Z.of_nat (length l)) in *.
  unfold zbits. pose proof (B_pow n ltac:(lia)) as HBn.
  destruct (Z.eqb_spec (val l + B ^ n * d) 0) as [E0|_]; [nia|].
  replace (Z.of_nat (length l + 1)) with (n + 1) by lia.
  assert (HL : Z.log2 (val l + B ^ n * d) = 64 * n + Z.log2 d).
  { apply Z.log2_unique; [pose proof (Z.log2_nonneg d); lia|].
    destruct (Z.log2_spec d ltac:(lia)) as [L1 L2].
    rewrite B_pow_pow2 in * by lia.
    replace (Z.succ (64 * n + Z.log2 d)) with (64 * n + Z.succ (Z.log2 d)) by lia.
    rewrite !Z.pow_add_r by (pose proof (Z.log2_nonneg d); lia).
    set (P := 2 ^ (64 * n)) in *. nia. }
  rewrite HL. lia.
Qed.

(** * Stein *)
Section WithBigOps.
Variable bmul : list Z -> list Z -> outcome (list Z).
Variable bdivrem : list Z -> list Z -> outcome (list Z * list Z).
Hypothesis bmul_spec : bmul_exact bmul.
Hypothesis bdivrem_spec : bdivrem_exact bdivrem.
Variable ap : addsub_params.
Hypothesis Hap : addsub_ok ap = true.
Variable p : gcd_params.
Hypothesis Hok : gcd_ok p = true.

Definition stein_mu (st : list Z * list Z) : Z :=
  zbits (val (fst st)) + zbits (val (snd st)) + (if Z.odd (val (fst st)) then 1 else 0).

(** loop invariant: both canonical, n odd, gcd(m,n) unchanged *)
Definition stein_inv (G : Z) (st : list Z * list Z) : Prop :=
  canon (fst st) /\ canon (snd st) /\ Z.odd (val (snd st)) = true /\
  Z.gcd (val (fst st)) (val (snd st)) = G.

Lemma stein_step_ok G :
  step_ok (stein_step ap p) (stein_inv G) stein_mu (fun r => canon r /\ val r = G).
Proof.
  destruct (gcd_ok_inv p Hok) as [Ec _].
  intros [m n] (Cm & Cn & On & Hg). cbn [fst snd] in *.
  pose proof (val_nonneg m (proj1 Cm)) as Hm0. pose proof (val_nonneg n (proj1 Cn)) as Hn0.
  split.
  { unfold stein_mu; cbn [fst snd]. pose proof (zbits_nonneg (val m)). pose proof (zbits_nonneg (val n)).
    destruct (Z.odd (val m)); lia. }
  unfold stein_step. rewrite (pgr_is_zero_spec m Cm).
  destruct (Z.eqb_spec (val m) 0) as [E0|Hne].
  - split; [exact Cn|]. rewrite E0 in Hg. rewrite Z.gcd_0_l in Hg. lia.
  - destruct (twos_spec m (proj1 Cm) ltac:(lia)) as (q & Hk & Hv & Oq).
    set (k := twos m) in *.
    assert (Hq0 : 0 < q) by (pose proof (Z.pow_pos_nonneg 2 k ltac:(lia) Hk); nia).
    rewrite ushr_spec by (try apply Cm; lia).
    assert (Eq : val m / 2 ^ k = q) by (rewrite Hv; apply Z.div_mul; pose proof (Z.pow_pos_nonneg 2 k ltac:(lia) Hk); lia).
    rewrite Eq.
    assert (Cq : canon (enc q)) by apply enc_canon.
    assert (Vq : val (enc q) = q) by (apply enc_val; lia).
    rewrite cmp_slice_spec by auto. cbn [bind]. rewrite Vq, Ec.
    assert (Hgq : Z.gcd q (val n) = G) by (rewrite <- Hg, Hv; symmetry; apply gcd_pow2_odd; auto).
    (* the bit-count of the odd part *)
    assert (Hbq : zbits q + (if Z.odd (val m) then 0 else 1) <= zbits (val m)).
    { destruct (Z.odd (val m)) eqn:Om.
      - assert (k = 0).
        { destruct (Z.eq_dec k 0); [auto|]. exfalso.
          replace k with (Z.succ (k - 1)) in Hv by lia. rewrite Z.pow_succ_r in Hv by lia.
          replace (q * (2 * 2 ^ (k - 1))) with (2 * (q * 2 ^ (k - 1))) in Hv by ring.
          rewrite Hv in Om. rewrite Z.odd_mul in Om. cbn in Om. discriminate. }
        subst k. replace (twos m) with 0 in Hv by auto. rewrite Z.pow_0_r, Z.mul_1_r in Hv. rewrite Hv. lia.
      - assert (Ev : Z.even (val m) = true) by (rewrite <- Z.negb_odd, Om; reflexivity).
        apply Z.even_spec in Ev. destruct Ev as [h Hh].
        assert (1 <= k).
        { destruct (Z.eq_dec k 0) as [E|]; [|lia]. exfalso. rewrite E, Z.pow_0_r in Hv.
          apply odd_mod2 in Oq. lia. }
        assert (q <= val m / 2).
        { rewrite <- Eq. apply Z.div_le_compat_l; [lia|]. split; [lia|].
          replace 2 with (2 ^ 1) at 1 by reflexivity. apply Z.pow_le_mono_r; lia. }
        pose proof (zbits_mono q (val m / 2) ltac:(lia)).
        rewrite zbits_half in * by lia. lia. }
    assert (Hzq : 1 <= zbits q).
    { unfold zbits. destruct (Z.eqb_spec q 0); [lia|]. pose proof (Z.log2_nonneg q). lia. }
    destruct (val n ?= q) eqn:Cmp; cbn [cmpop_ord cmp_eval].
    + (* n = q *)
      apply Z.compare_eq in Cmp. cbn [Z.gtb Z.compare].
      rewrite usub_spec by (auto; apply Cq || apply Cn). rewrite Vq.
      destruct (Z.ltb_spec q (val n)); [lia|]. cbn [bind]. split.
      * unfold stein_inv; cbn [fst snd]. split; [apply enc_canon|]. split; [exact Cn|]. split; [exact On|].
        rewrite enc_val by lia. rewrite Z.gcd_comm, Z.gcd_sub_diag_r, Z.gcd_comm. exact Hgq.
      * unfold stein_mu; cbn [fst snd]. rewrite enc_val by lia.
        replace (q - val n) with 0 by lia. cbn [zbits Z.eqb Z.odd]. destruct (Z.odd (val m)); lia.
    + (* n < q *)
      assert (Hlt : val n < q) by (apply Z.compare_lt_iff; exact Cmp). cbn [Z.gtb Z.compare].
      rewrite usub_spec by (auto; apply Cq || apply Cn). rewrite Vq.
      destruct (Z.ltb_spec q (val n)); [lia|]. cbn [bind]. split.
      * unfold stein_inv; cbn [fst snd]. split; [apply enc_canon|]. split; [exact Cn|]. split; [exact On|].
        rewrite enc_val by lia. rewrite Z.gcd_comm, Z.gcd_sub_diag_r, Z.gcd_comm. exact Hgq.
      * unfold stein_mu; cbn [fst snd]. rewrite enc_val by lia.
        pose proof (odd_sub_even q (val n) Oq On) as Ev. rewrite <- Z.negb_odd in Ev.
        destruct (Z.odd (q - val n)); [discriminate|].
        pose proof (zbits_mono (q - val n) q ltac:(lia)). destruct (Z.odd (val m)); lia.
    + (* n > q: swap *)
      assert (Hgt : q < val n) by (apply Z.compare_gt_iff; exact Cmp). cbn [Z.gtb Z.compare].
      rewrite usub_spec by (auto; apply Cq || apply Cn). rewrite Vq.
      destruct (Z.ltb_spec (val n) q); [lia|]. cbn [bind]. split.
      * unfold stein_inv; cbn [fst snd]. split; [apply enc_canon|]. split; [exact Cq|]. rewrite Vq.
        split; [exact Oq|]. rewrite enc_val by lia. rewrite Z.gcd_comm, Z.gcd_sub_diag_r. exact Hgq.
      * unfold stein_mu; cbn [fst snd]. rewrite enc_val, Vq by lia.
        pose proof (odd_sub_even (val n) q On Oq) as Ev. rewrite <- Z.negb_odd in Ev.
        destruct (Z.odd (val n - q)); [discriminate|].
        pose proof (zbits_mono (val n - q) (val n) ltac:(lia)). destruct (Z.odd (val m)); lia.
Qed.

Theorem ugcd_spec a b : canon a -> canon b ->
  ugcd ap p a b = Ret (enc (Z.gcd (val a) (val b))).
Proof.
  intros Ca Cb. destruct (gcd_ok_inv p Hok) as [_ Em].
  pose proof (val_nonneg a (proj1 Ca)) as Ha0. pose proof (val_nonneg b (proj1 Cb)) as Hb0.
  unfold ugcd. rewrite (pgr_is_zero_spec a Ca), (pgr_is_zero_spec b Cb), Em.
  destruct (Z.eqb_spec (val a) 0) as [Ea|Na].
  { rewrite Ea, Z.gcd_0_l, Z.abs_eq by lia. now rewrite enc_of_canon. }
  destruct (Z.eqb_spec (val b) 0) as [Eb|Nb].
  { rewrite Eb, Z.gcd_0_r, Z.abs_eq by lia. now rewrite enc_of_canon. }
  destruct (twos_spec a (proj1 Ca) ltac:(lia)) as (qa & Hka & Hva & Oqa).
  destruct (twos_spec b (proj1 Cb) ltac:(lia)) as (qb & Hkb & Hvb & Oqb).
  set (ta := twos a) in *. set (tb := twos b) in *.
  assert (Hqb0 : 0 < qb) by (pose proof (Z.pow_pos_nonneg 2 tb ltac:(lia) Hkb); nia).
  rewrite ushr_spec by (try apply Cb; lia).
  assert (Eq : val b / 2 ^ tb = qb) by (rewrite Hvb; apply Z.div_mul; pose proof (Z.pow_pos_nonneg 2 tb ltac:(lia) Hkb); lia).
  rewrite Eq.
  set (G := Z.gcd (val a) qb).
  destruct (run_loop_rule (stein_step ap p) (stein_inv G) stein_mu (fun r => canon r /\ val r = G) (stein_step_ok G))
    with (fuel := gcd_fuel a b) (s := (a, enc qb)) as (r & -> & Cr & Vr).
  - unfold stein_inv; cbn [fst snd]. rewrite enc_val by lia. split; [exact Ca|]. split; [apply enc_canon|]. auto.
  - unfold stein_mu, gcd_fuel; cbn [fst snd]. rewrite enc_val by lia.
    rewrite (pgr_bits_spec a Ca), (pgr_bits_spec b Cb).
    pose proof (zbits_nonneg (val a)). pose proof (zbits_nonneg (val b)).
    rewrite Z2Pos.id by lia.
    assert (qb <= val b) by (pose proof (Z.pow_pos_nonneg 2 tb ltac:(lia) Hkb); nia).
    pose proof (zbits_mono qb (val b) ltac:(lia)). destruct (Z.odd (val a)); lia.
  - cbn [bind]. rewrite ushl_spec by (try apply Cr; lia). rewrite Vr. f_equal. f_equal.
    transitivity (Z.gcd (qa * 2 ^ ta) (qb * 2 ^ tb)); [|rewrite <- Hva, <- Hvb; reflexivity].
    rewrite gcd_split_pow2 by auto. rewrite Z.min_comm. f_equal.
    unfold G. rewrite Hva. apply gcd_pow2_odd; auto.
Qed.
End WithBigOps.
