(* MulProofs2.v — C02, part 2: half-Karatsuba and Karatsuba, given a recursive
   multiply-accumulate that is correct for operands of smaller total length. *)
From BigNum Require Import Base BaseLemmas X86 AddSub AddSubProofs ShiftCore ShiftCoreProofs Mul MulProofs.
Open Scope Z_scope.

Lemma sign_mul_z_sign u v : sign_mul (z_sign u) (z_sign v) = z_sign (u * v).
Proof. destruct u, v; reflexivity. Qed.

Lemma mul_abs_bound a b A C : - A < a < A -> - C < b < C -> a * b < A * C.
Proof. intros Ha Hb. nia. Qed.

Lemma rec_zeros rec n len b c : rec_ok rec n -> wf b -> wf c ->
  (length b + length c < n)%nat -> (length b + length c + 1 <= len)%nat ->
  exists r, rec (zeros len) b c = Ret r /\ wf r /\ length r = len /\ val r = val b * val c.
Proof.
  intros Hrec Wb Wc Hn Hl.
  destruct (Hrec (zeros len) b c (wf_zeros len) Wb Wc Hn (room_zeros len b c Wb Wc Hl))
    as (r & E & W & L & V).
  exists r. rewrite length_zeros in L. rewrite val_zeros in V. repeat split; auto.
Qed.

Lemma strip_facts l k : wf l -> 0 <= k -> val l < B ^ k ->
  wf (strip l) /\ val (strip l) = val l /\ lenZ (strip l) <= k.
Proof. intros. split; [apply wf_strip; auto|]. split; [apply val_strip|apply strip_len_bound; auto]. Qed.

Lemma B_pow_add a b : 0 <= a -> 0 <= b -> B ^ (a + b) = B ^ a * B ^ b.
Proof. intros; apply Z.pow_add_r; auto. Qed.

(** * Half-Karatsuba *)
Lemma half_kara_spec rec p acc x y : mul_ok p = true -> rec_ok rec (length x + length y) ->
  wf acc -> wf x -> wf y -> (2 <= length y)%nat -> room acc x y ->
  exists r, half_kara rec p acc x y = Ret r /\ adds acc r (val x * val y).
Proof.
  intros Hp Hrec Wa Wx Wy Hy Hr.
  pose proof (mul_ok_inv p Hp) as (Hap & _ & _ & _ & _ & _ & _ & _ & Hhs & _).
  pose proof (room_len acc x y Wa Wx Wy Hr) as Hlen.
  unfold half_kara, half_split. rewrite Hhs.
  set (m2 := Z.to_nat (lenZ y / 2)).
  assert (Hm : (1 <= m2 < length y)%nat) by (unfold m2, lenZ; lia).
  destruct (val_skipn m2 y Wy ltac:(lia)) as [Hvy Hlo].
  assert (Ll : length (firstn m2 y) = m2) by (apply firstn_length_le; lia).
  assert (Lh : length (skipn m2 y) = (length y - m2)%nat) by apply skipn_length.
  pose proof (wf_firstn m2 y Wy) as Wl. pose proof (wf_skipn m2 y Wy) as Wh.
  set (low2 := firstn m2 y) in *. set (high2 := skipn m2 y) in *.
  pose proof (val_nonneg x Wx) as Hx0. pose proof (val_nonneg high2 Wh) as Hh0.
  pose proof (val_nonneg acc Wa) as Ha0.
  pose proof (B_pow_nat m2) as HP.
  assert (Hly : lenZ y = Z.of_nat m2 + lenZ high2) by (unfold lenZ; lia).
  (* first call *)
  destruct (Hrec acc x low2 Wa Wx Wl ltac:(lia)) as (a1 & E1 & W1 & L1 & V1).
  { unfold room, fits in *.
    assert (B ^ (lenZ x + lenZ low2) <= B ^ (lenZ x + lenZ y))
      by (apply pow_le_mono; unfold lenZ; lia).
    assert (val x * val low2 <= val x * val y) by (rewrite Hvy; nia). lia. }
  rewrite E1. cbn [bind].
  (* second call on the slice *)
  assert (Hf : fits a1 (B ^ Z.of_nat m2 * (val x * val high2)) (Z.of_nat m2 + (lenZ x + lenZ high2))).
  { unfold room, fits in *. unfold lenZ at 3. rewrite L1. fold (lenZ acc).
    replace (Z.of_nat m2 + (lenZ x + lenZ high2)) with (lenZ x + lenZ y) by lia.
    rewrite V1. rewrite Hvy in Hr. nia. }
  apply fits_skipn in Hf; auto.
  2:{ pose proof (lenZ_nonneg x); pose proof (lenZ_nonneg high2); lia. }
  2:{ nia. }
  destruct (Hrec (skipn m2 a1) x high2 (wf_skipn m2 a1 W1) Wx Wh ltac:(lia) Hf) as (t & Et & Ht).
  destruct (on_slice_adds m2 208 a1 (fun s => rec s x high2) _ t W1 ltac:(lia) Et Ht) as (r & Er & W & L & V).
  exists r; split; auto. split; [auto|]. split; [lia|].
  rewrite V, V1, Hvy. ring.
Qed.

(** * Karatsuba *)
Lemma karatsuba_spec rec p acc x y : mul_ok p = true -> rec_ok rec (length x + length y) ->
  wf acc -> wf x -> wf y -> (2 <= length x <= length y)%nat -> room acc x y ->
  exists r, karatsuba rec p acc x y = Ret r /\ adds acc r (val x * val y).
Proof.
  intros Hp Hrec Wa Wx Wy Hxy Hr.
  pose proof (mul_ok_inv p Hp) as (Hap & _ & _ & _ & _ & _ & _ & _ & _ & Hks & Hke & _).
  pose proof (room_len acc x y Wa Wx Wy Hr) as Hlen.
  unfold karatsuba, kara_split, kara_len. rewrite Hks.
  remember (Z.to_nat (lenZ x / 2)) as b eqn:Eb.
  assert (Hb : (1 <= b /\ b + b <= length x /\ length x <= b + b + 1)%nat) by (unfold lenZ in Eb; lia).
  clear Eb.
  replace (b <=? length y)%nat with true by (symmetry; apply Nat.leb_le; lia).
  cbn [assert_ bind].
  destruct (val_skipn b x Wx ltac:(lia)) as [Hvx Hx0b].
  destruct (val_skipn b y Wy ltac:(lia)) as [Hvy Hy0b].
  assert (Lx0 : length (firstn b x) = b) by (apply firstn_length_le; lia).
  assert (Ly0 : length (firstn b y) = b) by (apply firstn_length_le; lia).
  assert (Lx1 : length (skipn b x) = (length x - b)%nat) by apply skipn_length.
  assert (Ly1 : length (skipn b y) = (length y - b)%nat) by apply skipn_length.
  pose proof (wf_firstn b x Wx) as Wx0. pose proof (wf_skipn b x Wx) as Wx1.
  pose proof (wf_firstn b y Wy) as Wy0. pose proof (wf_skipn b y Wy) as Wy1.
  set (x0 := firstn b x) in *. set (x1 := skipn b x) in *.
  set (y0 := firstn b y) in *. set (y1 := skipn b y) in *.
  pose proof (val_bound x1 Wx1) as Hx1b. pose proof (val_bound y1 Wy1) as Hy1b.
  rewrite Lx1 in Hx1b. rewrite Ly1 in Hy1b.
  remember (Z.to_nat (lenZ x1 + lenZ y1 + mp_kara_extra p)) as len eqn:Elen.
  assert (Hlen1 : (length x1 + length y1 + 1 <= len)%nat) by (unfold lenZ in Elen; lia).
  clear Elen.
  (* names for the powers *)
  set (P := B ^ Z.of_nat b) in *.
  set (Qx := B ^ Z.of_nat (length x - b)) in *. set (Qy := B ^ Z.of_nat (length y - b)) in *.
  assert (HP : 0 < P) by apply B_pow_nat.
  assert (HPQx : P <= Qx) by (apply pow_le_mono; lia).
  assert (HPQy : P <= Qy) by (apply pow_le_mono; lia).
  assert (HBx : B ^ lenZ x = P * Qx).
  { unfold P, Qx, lenZ. rewrite <- Z.pow_add_r by lia. f_equal; lia. }
  assert (HBy : B ^ lenZ y = P * Qy).
  { unfold P, Qy, lenZ. rewrite <- Z.pow_add_r by lia. f_equal; lia. }
  assert (HBxy : B ^ (lenZ x + lenZ y) = P * Qx * (P * Qy)).
  { rewrite B_pow_add, HBx, HBy by apply lenZ_nonneg. ring. }
  assert (HQQ : B ^ (lenZ x1 + lenZ y1) = Qx * Qy).
  { unfold Qx, Qy, lenZ. rewrite Lx1, Ly1. apply Z.pow_add_r; apply Nat2Z.is_nonneg. }
  clearbody P Qx Qy.
  set (X0 := val x0) in *. set (X1 := val x1) in *. set (Y0 := val y0) in *. set (Y1 := val y1) in *.
  pose proof (val_nonneg acc Wa) as Ha0.
  (* the key inequality: the transient maximum fits *)
  set (A := B ^ lenZ acc) in *.
  assert (Hpos2 : 0 <= X1 * Y1) by (apply Z.mul_nonneg_nonneg; lia).
  assert (Hpos0 : 0 <= X0 * Y0) by (apply Z.mul_nonneg_nonneg; lia).
  assert (Hu : - Qx < X1 - X0 < Qx) by lia. assert (Hv : - Qy < Y1 - Y0 < Qy) by lia.
  pose proof (mul_abs_bound _ _ _ _ Hu Hv) as Hmid.
  assert (Hid : P * (X1 * Y1) + P * P * (X1 * Y1) + X0 * Y0 + P * (X0 * Y0)
                = val x * val y + P * ((X1 - X0) * (Y1 - Y0))) by (rewrite Hvx, Hvy; ring).
  assert (HQQ0 : 0 < Qx * Qy) by (apply Z.mul_pos_pos; lia).
  assert (Hmid2 : P * ((X1 - X0) * (Y1 - Y0)) < P * Qx * (P * Qy)).
Show. 
