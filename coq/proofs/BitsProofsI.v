(* BitsProofsI.v — C07 for BigInt: & | ^ over the nine sign pairs, !, << >>, bit, set_bit. *)
From BigNum Require Import Base BaseLemmas X86 AddSub AddSubProofs ShiftCore ShiftCoreProofs
  Bits SpecBits BitsLemmas BitsProofsU BitsProofsTC.
Open Scope Z_scope.

(** ** signs *)
Lemma isplit x : icanon x ->
  (sg x = NoSign /\ mag x = [] /\ ival x = 0) \/
  (sg x = Plus /\ mag x <> [] /\ ival x = val (mag x) /\ 0 < val (mag x)) \/
  (sg x = Minus /\ mag x <> [] /\ ival x = - val (mag x) /\ 0 < val (mag x)).
Proof.
  destruct x as [s m]. unfold icanon, ival. cbn [sg mag]. intros [Hc Hs].
  destruct s; cbn [sign_z].
  - right; right. assert (m <> []) by (intros E; apply Hs in E; discriminate).
    split; [reflexivity|]. split; [assumption|]. split; [lia|apply canon_val_pos; auto].
  - left. assert (m = []) by (apply Hs; reflexivity). subst m. auto.
  - right; left. assert (m <> []) by (intros E; apply Hs in E; discriminate).
    split; [reflexivity|]. split; [assumption|]. split; [lia|apply canon_val_pos; auto].
Qed.

Lemma is_nil_enc n : 0 <= n -> is_nil (enc n) = (n =? 0).
Proof.
  intros Hn. destruct (Z.eqb_spec n 0) as [->|Hne]; [reflexivity|].
  destruct (enc n) eqn:E; [|reflexivity]. apply enc_nil_iff in E; [lia|exact Hn].
Qed.

Lemma mk_plus_enc n : 0 <= n -> mkint (if is_nil (enc n) then NoSign else Plus) (enc n) = ienc n.
Proof.
  intros Hn. rewrite is_nil_enc by exact Hn. unfold ienc. rewrite Z.abs_eq by lia.
  destruct (Z.eqb_spec n 0) as [->|Hne]; [reflexivity|]. destruct n; try lia; reflexivity.
Qed.
Lemma mk_sign_enc s n : 0 < n -> s <> NoSign -> mkint s (enc n) = ienc (sign_z s * n).
Proof.
  intros Hn Hs. unfold ienc. destruct s; try congruence; cbn [sign_z].
  - replace (-1 * n) with (- n) by ring. rewrite Z.abs_neq by lia. rewrite Z.opp_involutive.
    destruct n; try lia; reflexivity.
  - rewrite Z.mul_1_l, Z.abs_eq by lia. destruct n; try lia; reflexivity.
Qed.
Lemma of_biguint_enc n : 0 <= n -> of_biguint (enc n) = ienc n.
Proof. intros Hn. unfold of_biguint. rewrite <- mk_plus_enc by exact Hn. destruct (is_nil (enc n)) eqn:E; [|reflexivity].
  destruct (enc n); [reflexivity|discriminate]. Qed.

Lemma inormalize_plus d : wf d -> inormalize Plus d = ienc (val d).
Proof.
  intros Hd. unfold inormalize. cbn zeta. rewrite <- enc_strip by exact Hd.
  apply mk_plus_enc. apply val_nonneg; exact Hd.
Qed.
Lemma inormalize_minus d : wf d -> inormalize Minus d = ienc (- val d).
Proof.
  intros Hd. unfold inormalize. cbn zeta. rewrite <- enc_strip by exact Hd.
  pose proof (val_nonneg d Hd) as Hn. rewrite is_nil_enc by exact Hn.
  destruct (Z.eqb_spec (val d) 0) as [E|Hne]; [rewrite E; reflexivity|].
  rewrite (mk_sign_enc Minus) by (lia || discriminate). f_equal; cbn [sign_z]; ring.
Qed.

Lemma ienc_icanon_zero x : icanon x -> ival x = 0 -> x = ienc 0.
Proof. intros Hx E. rewrite <- E. symmetry. apply ienc_of_icanon. exact Hx. Qed.

(** ** & | ^ *)
Ltac isplit3 x Hx :=
  let S := fresh "S" in let M0 := fresh "M" in let V := fresh "V" in let P := fresh "P" in
  destruct (isplit x Hx) as [(S & M0 & V) | [(S & M0 & V & P) | (S & M0 & V & P)]].

Theorem iand_assign_spec x y : icanon x -> icanon y ->
  iand_assign x y = Ret (ienc (Z.land (ival x) (ival y))).
Proof.
  intros Hx Hy. unfold iand_assign.
  destruct (isplit x Hx) as [(Sx & Mx & Vx) | [(Sx & Mx & Vx & Px) | (Sx & Mx & Vx & Px)]];
  destruct (isplit y Hy) as [(Sy & My & Vy) | [(Sy & My & Vy & Py) | (Sy & My & Vy & Py)]];
  rewrite Sx, ?Sy, Vx, Vy; rewrite ?Z.land_0_l, ?Z.land_0_r;
  try (f_equal; apply ienc_icanon_zero; assumption); try reflexivity.
  - f_equal. rewrite uand_assign_spec by (apply Hx || apply Hy). apply mk_plus_enc.
    apply (bitop_nonneg _ _ bitop_land); lia.
  - destruct (bitand_pos_neg_spec _ _ (proj1 Hx) (proj1 Hy) Mx My) as (d & E & Hd & V). rewrite E. cbn [bind].
    f_equal. rewrite inormalize_plus by exact Hd. f_equal. exact V.
  - destruct (bitand_neg_pos_spec _ _ (proj1 Hx) (proj1 Hy) Mx My) as (d & E & Hd & V). rewrite E. cbn [bind].
    f_equal. rewrite inormalize_plus by exact Hd. f_equal. exact V.
  - destruct (bitand_neg_neg_spec _ _ (proj1 Hx) (proj1 Hy) Mx My) as (d & E & Hd & V). rewrite E. cbn [bind].
    f_equal. rewrite inormalize_minus by exact Hd. f_equal. exact V.
Qed.

Theorem iand_spec p x y : bits_ok p = true -> icanon x -> icanon y ->
  iand p x y = Ret (ienc (Z.land (ival x) (ival y))).
Proof.
  intros Hp Hx Hy. unfold iand.
  pose proof (iand_assign_spec x y Hx Hy) as A1. pose proof (iand_assign_spec y x Hy Hx) as A2.
  rewrite Z.land_comm in A2.
  destruct (isplit x Hx) as [(Sx & Mx & Vx) | [(Sx & Mx & Vx & Px) | (Sx & Mx & Vx & Px)]];
  destruct (isplit y Hy) as [(Sy & My & Vy) | [(Sy & My & Vy & Py) | (Sy & My & Vy & Py)]];
  rewrite Sx, ?Sy; try assumption;
  try (rewrite Vx, ?Z.land_0_l; reflexivity); try (rewrite Vy, ?Z.land_0_r; reflexivity).
  - rewrite Vx, Vy. f_equal. rewrite uand_spec by (auto; apply Hx || apply Hy). apply of_biguint_enc.
    apply (bitop_nonneg _ _ bitop_land); lia.
  - destruct (cmp_eval _ _ _); assumption.
Qed.

Theorem ior_assign_spec p x y : bits_ok p = true -> icanon x -> icanon y ->
  ior_assign p x y = Ret (ienc (Z.lor (ival x) (ival y))).
Proof.
  intros Hp Hx Hy. unfold ior_assign.
  destruct (isplit x Hx) as [(Sx & Mx & Vx) | [(Sx & Mx & Vx & Px) | (Sx & Mx & Vx & Px)]];
  destruct (isplit y Hy) as [(Sy & My & Vy) | [(Sy & My & Vy & Py) | (Sy & My & Vy & Py)]];
  rewrite Sx, ?Sy;
  try (rewrite Vy, Z.lor_0_r; f_equal; symmetry; apply ienc_of_icanon; assumption);
  try (rewrite Vx, Z.lor_0_l; f_equal; symmetry; apply ienc_of_icanon; assumption);
  rewrite Vx, Vy.
  - f_equal. rewrite uor_assign_spec by (auto; apply Hx || apply Hy).
    assert (0 < Z.lor (val (mag x)) (val (mag y))).
    { assert (0 <= Z.lor (val (mag x)) (val (mag y))) by (apply Z.lor_nonneg; lia).
      destruct (Z.eq_dec (Z.lor (val (mag x)) (val (mag y))) 0) as [E|]; [apply Z.lor_eq_0_iff in E|]; lia. }
    rewrite (mk_sign_enc Plus) by (lia || discriminate). f_equal; cbn [sign_z]; ring.
  - destruct (bitor_pos_neg_spec _ _ (proj1 Hx) (proj1 Hy) Mx My) as (d & E & Hd & V). rewrite E. cbn [bind].
    f_equal. rewrite inormalize_minus by exact Hd. f_equal. exact V.
  - destruct (bitor_neg_pos_spec _ _ (proj1 Hx) (proj1 Hy) Mx My) as (d & E & Hd & V). rewrite E. cbn [bind].
    f_equal. rewrite inormalize_minus by exact Hd. f_equal. exact V.
  - destruct (bitor_neg_neg_spec _ _ (proj1 Hx) (proj1 Hy) Mx My) as (d & E & Hd & V). rewrite E. cbn [bind].
    f_equal. rewrite inormalize_minus by exact Hd. f_equal. exact V.
Qed.

Theorem ior_spec p x y : bits_ok p = true -> icanon x -> icanon y ->
  ior p x y = Ret (ienc (Z.lor (ival x) (ival y))).
Proof.
  intros Hp Hx Hy. unfold ior.
  pose proof (ior_assign_spec p x y Hp Hx Hy) as A1. pose proof (ior_assign_spec p y x Hp Hy Hx) as A2.
  rewrite Z.lor_comm in A2.
  destruct (isplit x Hx) as [(Sx & Mx & Vx) | [(Sx & Mx & Vx & Px) | (Sx & Mx & Vx & Px)]];
  destruct (isplit y Hy) as [(Sy & My & Vy) | [(Sy & My & Vy & Py) | (Sy & My & Vy & Py)]];
  rewrite Sx, ?Sy; try assumption;
  try (rewrite Vx, Z.lor_0_l; f_equal; symmetry; apply ienc_of_icanon; assumption);
  try (rewrite Vy, Z.lor_0_r; f_equal; symmetry; apply ienc_of_icanon; assumption).
  - rewrite Vx, Vy. f_equal. rewrite uor_spec by (auto; apply Hx || apply Hy). apply of_biguint_enc.
    apply Z.lor_nonneg; lia.
  - destruct (cmp_eval _ _ _); assumption.
Qed.

Theorem ixor_assign_spec p x y : bits_ok p = true -> icanon x -> icanon y ->
  ixor_assign p x y = Ret (ienc (Z.lxor (ival x) (ival y))).
Proof.
  intros Hp Hx Hy. unfold ixor_assign.
  destruct (isplit x Hx) as [(Sx & Mx & Vx) | [(Sx & Mx & Vx & Px) | (Sx & Mx & Vx & Px)]];
  destruct (isplit y Hy) as [(Sy & My & Vy) | [(Sy & My & Vy & Py) | (Sy & My & Vy & Py)]];
  rewrite Sx, ?Sy;
  try (rewrite Vy, Z.lxor_0_r; f_equal; symmetry; apply ienc_of_icanon; assumption);
  try (rewrite Vx, Z.lxor_0_l; f_equal; symmetry; apply ienc_of_icanon; assumption);
  rewrite Vx, Vy.
  - f_equal. rewrite uxor_assign_spec by (auto; apply Hx || apply Hy). apply mk_plus_enc.
    apply Z.lxor_nonneg; lia.
  - destruct (bitxor_pos_neg_spec _ _ (proj1 Hx) (proj1 Hy) Mx My) as (d & E & Hd & V). rewrite E. cbn [bind].
    f_equal. rewrite inormalize_minus by exact Hd. f_equal. exact V.
  - destruct (bitxor_neg_pos_spec _ _ (proj1 Hx) (proj1 Hy) Mx My) as (d & E & Hd & V). rewrite E. cbn [bind].
    f_equal. rewrite inormalize_minus by exact Hd. f_equal. exact V.
  - destruct (bitxor_neg_neg_spec _ _ (proj1 Hx) (proj1 Hy) Mx My) as (d & E & Hd & V). rewrite E. cbn [bind].
    f_equal. rewrite inormalize_plus by exact Hd. f_equal. exact V.
Qed.

Theorem ixor_spec p x y : bits_ok p = true -> icanon x -> icanon y ->
  ixor p x y = Ret (ienc (Z.lxor (ival x) (ival y))).
Proof.
  intros Hp Hx Hy. unfold ixor. destruct (_ >=? _).
  - apply ixor_assign_spec; auto.
  - rewrite Z.lxor_comm. apply ixor_assign_spec; auto.
Qed.

(** ** scalar +1 / -1 used by Not and by the floor adjustment of >> *)
Lemma uadd_digit_spec ap a s : addsub_ok ap = true -> canon a -> 0 < s < B ->
  uadd_digit ap a s = Ret (enc (val a + s)).
Proof.
  intros Hp Hc Hs. unfold uadd_digit. destruct (Z.eqb_spec s 0); [lia|].
  set (a0 := match a with [] => [0] | _ => a end).
  assert (Ha0 : wf a0 /\ val a0 = val a /\ (1 <= length a0)%nat /\ (a <> [] -> a0 = a) /\ (a = [] -> a0 = [0])).
  { unfold a0. destruct a as [|d a'].
    - split; [apply wf_cons; split; [unfold digit; pose proof B_pos; lia|apply wf_nil]|].
      split; [reflexivity|]. split; [cbn; lia|]. split; [congruence|reflexivity].
    - split; [apply Hc|]. split; [reflexivity|]. split; [cbn; lia|]. split; [intros _; reflexivity|intros E; discriminate]. }
  destruct Ha0 as (Hw0 & Hv0 & Hl0 & En & Ee).
  assert (Hws : wf [s]) by (apply wf_cons; split; [unfold digit; lia|apply wf_nil]).
  destruct (add2c_spec ap a0 [s] Hp Hw0 Hws ltac:(cbn [length]; lia)) as (a' & c & E & Hw' & Hl' & Hc' & Hv').
  rewrite E. cbn [bind]. f_equal. rewrite val_single in Hv'.
  set (P := B ^ Z.of_nat (length a0)) in *. assert (HP : 0 < P) by (apply B_pow; lia).
  destruct Hc' as [-> | ->]; cbn [Z.eqb].
  - symmetry. replace (val a + s) with (val a') by lia. apply enc_of_canon.
    apply canon_of_lower; [exact Hw'|destruct a'; [cbn in Hl'; lia|discriminate]|].
    rewrite Hl'. destruct a as [|d a2].
    + rewrite (Ee eq_refl) in *. cbn [length Z.of_nat]. replace (1 - 1) with 0 by ring. rewrite Z.pow_0_r.
      cbn [val] in *. lia.
    + rewrite (En ltac:(discriminate)) in *. pose proof (canon_lower _ Hc ltac:(discriminate)). lia.
  - symmetry. replace (val a + s) with (val (a' ++ [1])) by (rewrite val_snoc, Hl'; fold P; lia).
    apply enc_of_canon. apply canon_app_last; [exact Hw'|unfold digit; pose proof B_gt1; lia|lia].
Qed.

Lemma usub_digit_spec ap a s : addsub_ok ap = true -> wf a -> 0 <= s < B -> s <= val a ->
  usub_digit ap a s = Ret (enc (val a - s)).
Proof.
  intros Hp Ha Hs Hle. unfold usub_digit.
  assert (Hws : wf [s]) by (apply wf_cons; split; [unfold digit; lia|apply wf_nil]).
  destruct (sub2_spec ap a [s] Hp Ha Hws) as [Hge _]. rewrite val_single in Hge.
  destruct (Hge Hle) as (r & E & Hw & _ & Hv). rewrite E. cbn [bind]. f_equal.
  rewrite <- Hv. symmetry. apply enc_strip. exact Hw.
Qed.

(** ** Not *)
Theorem inot_spec ap x : addsub_ok ap = true -> icanon x -> inot ap x = Ret (ienc (- ival x - 1)).
Proof.
  intros Hp Hx. unfold inot. pose proof B_gt1.
  destruct (isplit x Hx) as [(Sx & Mx & Vx) | [(Sx & Mx & Vx & Px) | (Sx & Mx & Vx & Px)]]; rewrite Sx, Vx.
  - rewrite uadd_digit_spec by (auto; apply Hx || lia). cbn [bind]. f_equal.
    rewrite Mx, val_nil. reflexivity.
  - rewrite uadd_digit_spec by (auto; apply Hx || lia). cbn [bind]. f_equal.
    rewrite (mk_sign_enc Minus) by (lia || discriminate). f_equal; cbn [sign_z]; ring.
  - rewrite usub_digit_spec by (auto; apply Hx || lia). cbn [bind]. f_equal.
    rewrite mk_plus_enc by lia. f_equal; ring.
Qed.
Theorem inot_ref_spec ap x : addsub_ok ap = true -> icanon x -> inot_ref ap x = Ret (ienc (- ival x - 1)).
Proof.
  intros Hp Hx. unfold inot_ref. pose proof B_gt1.
  destruct (isplit x Hx) as [(Sx & Mx & Vx) | [(Sx & Mx & Vx & Px) | (Sx & Mx & Vx & Px)]]; rewrite Sx, Vx.
  - reflexivity.
  - rewrite uadd_digit_spec by (auto; apply Hx || lia). cbn [bind]. f_equal.
    rewrite of_biguint_enc by lia. rewrite ineg_spec by apply ienc_canon. rewrite ienc_val. f_equal; ring.
  - rewrite usub_digit_spec by (auto; apply Hx || lia). cbn [bind]. f_equal.
    rewrite of_biguint_enc by lia. f_equal; ring.
Qed.

(** ** shifts *)
Lemma zdigits_ival x : icanon x -> zdigits (ival x) = zlen (mag x).
Proof.
  intros Hx. rewrite <- (zdigits_val (mag x)) by apply Hx. unfold zdigits.
  isplit3 x Hx; rewrite V; rewrite ?M, ?val_nil; try reflexivity.
  rewrite Z.abs_opp. destruct (Z.eqb_spec (- val (mag x)) 0), (Z.eqb_spec (val (mag x)) 0); try lia; reflexivity.
Qed.

Lemma spec_shl_ival x s : icanon x ->
  spec_shl (ival x) s = omap (fun v => sign_z (sg x) * v) (spec_shl (val (mag x)) s).
Proof.
  intros Hx. unfold spec_shl. destruct (s <? 0); [reflexivity|].
  rewrite (zdigits_ival x Hx), (zdigits_val (mag x)) by apply Hx.
  isplit3 x Hx; rewrite V, S; rewrite ?M, ?val_nil; cbn [sign_z Z.eqb omap bind]; try reflexivity.
  - destruct (Z.eqb_spec (val (mag x)) 0); [lia|]. destruct (_ && _); cbn [omap bind]; [reflexivity|]. f_equal. ring.
  - destruct (Z.eqb_spec (val (mag x)) 0), (Z.eqb_spec (- val (mag x)) 0); try lia.
    destruct (_ && _); cbn [omap bind]; [reflexivity|]. f_equal. ring.
Qed.

Lemma shl_nonneg v s : 0 <= v -> match spec_shl v s with Ret r => 0 <= r /\ (0 < v -> 0 < r) | _ => True end.
Proof.
  intros Hv. unfold spec_shl. destruct (Z.ltb_spec s 0); [exact I|]. destruct (Z.eqb_spec v 0); [split; lia|].
  destruct (_ && _); [exact I|]. assert (0 < 2 ^ s) by (apply Z.pow_pos_nonneg; lia). split; nia.
Qed.

Theorem ishl_spec x s : icanon x -> ishl x s = omap ienc (spec_shl (ival x) s).
Proof.
  intros Hx. unfold ishl. rewrite biguint_shl_spec by apply Hx. rewrite (spec_shl_ival x s Hx).
  pose proof (shl_nonneg (val (mag x)) s (val_nonneg _ (proj1 (proj1 Hx)))) as H.
  destruct (spec_shl (val (mag x)) s) as [r| |]; cbn [omap bind]; try reflexivity.
  f_equal. rewrite from_biguint_ienc by apply enc_canon. rewrite enc_val by apply H. reflexivity.
Qed.

Theorem ishl_assign_spec x s : icanon x -> ishl_assign x s = omap ienc (spec_shl (ival x) s).
Proof.
  intros Hx. unfold ishl_assign. rewrite biguint_shl_spec by apply Hx. rewrite (spec_shl_ival x s Hx).
  pose proof (shl_nonneg (val (mag x)) s (val_nonneg _ (proj1 (proj1 Hx)))) as H.
  destruct (spec_shl (val (mag x)) s) as [r| |] eqn:E; cbn [omap bind]; try reflexivity.
  f_equal. isplit3 x Hx; rewrite S.
  - unfold spec_shl in E. rewrite M, val_nil in E. destruct (s <? 0); [discriminate|].
    cbn [Z.eqb] in E. injection E as <-. reflexivity.
  - apply mk_sign_enc; [apply H; exact P|discriminate].
  - apply mk_sign_enc; [apply H; exact P|discriminate].
Qed.

(** floor division of a negative value *)
Lemma floor_neg v k : 0 < k -> 0 <= v -> (- v) / k = - (v / k + (if v mod k =? 0 then 0 else 1)).
Proof.
  intros Hk Hv. pose proof (Z.div_mod v k ltac:(lia)) as D. pose proof (Z.mod_pos_bound v k Hk) as M.
  destruct (Z.eqb_spec (v mod k) 0) as [E|E].
  - symmetry. apply Z.div_unique with 0; nia.
  - symmetry. apply Z.div_unique with (k - v mod k); [lia|nia].
Qed.

Lemma is_tz_mod v z s : is_tz v z -> 0 <= s -> (v mod 2 ^ s = 0 <-> s <= z).
Proof.
  intros (H0 & T & L) Hs. split.
  - intros E. destruct (Z.le_gt_cases s z) as [|Hlt]; [assumption|].
    assert (Z.testbit (v mod 2 ^ s) z = true) by (rewrite Z.mod_pow2_bits_low by lia; exact T).
    rewrite E, Z.bits_0 in H. discriminate.
  - intros Hle. apply Z.bits_inj'; intros n Hn. rewrite Z.bits_0.
    destruct (Z.lt_ge_cases n s); [rewrite Z.mod_pow2_bits_low by lia; apply L; lia|apply Z.mod_pow2_bits_high; lia].
Qed.

Lemma tz_bound a z : wf a -> utrailing_zeros a = Some z -> 0 <= z < 64 * zlen a.
Proof.
  intros Ha E. pose proof (utrailing_zeros_meaning a z Ha E) as (H0 & T & _). split; [exact H0|].
  destruct (Z.lt_ge_cases z (64 * zlen a)); [assumption|].
  pose proof (val_bound a Ha) as Hb. rewrite B_pow_pow2 in Hb by lia. fold (zlen a) in Hb.
  rewrite (testbit_small (val a) (64 * zlen a) z) in T by (unfold zlen in *; lia). discriminate.
Qed.

Lemma shr_round_down_spec p x s : bits_ok p = true -> icanon x -> vec_ok (mag x) -> 0 <= s ->
  shr_round_down p x s = Ret (if sign_eqb (sg x) Minus then negb (val (mag x) mod 2 ^ s =? 0) else false).
Proof.
  intros Hp Hx Hv Hs. apply bits_ok_inv in Hp; subst p. unfold shr_round_down.
  isplit3 x Hx; rewrite S; cbn [sign_eqb]; try reflexivity.
  rewrite utrailing_zeros_spec by apply Hx. unfold spec_trailing_zeros.
  destruct (Z.eqb_spec (val (mag x)) 0); [lia|].
  pose proof (utrailing_zeros_spec (mag x) (proj1 (proj1 Hx))) as E. unfold spec_trailing_zeros in E.
  destruct (Z.eqb_spec (val (mag x)) 0); [lia|].
  pose proof (utrailing_zeros_meaning _ _ (proj1 (proj1 Hx)) E) as T.
  pose proof (tz_bound _ _ (proj1 (proj1 Hx)) E) as Bz.
  pose proof (is_tz_mod _ _ s T Hs) as Hm. f_equal. cbn [bp_round_pos bp_round bits_default cmp_eval].
  unfold vec_ok in Hv. pose proof B_val. change (2 ^ 58) with 288230376151711744 in Hv.
  destruct (Z.eqb_spec (val (mag x) mod 2 ^ s) 0) as [E0|E0]; cbn [negb].
  - assert (s <= ztz (val (mag x))) by (apply Hm; exact E0).
    destruct (Z.gtb_spec s 0); cbn [andb]; [|reflexivity].
    destruct (Z.leb_spec s (B - 1)); [|lia]. destruct (Z.ltb_spec (ztz (val (mag x))) s); [lia|reflexivity].
  - assert (~ s <= ztz (val (mag x))) by (intros H'; apply Hm in H'; contradiction).
    destruct (Z.gtb_spec s 0); cbn [andb]; [|lia].
    destruct (Z.leb_spec s (B - 1)); [|reflexivity]. destruct (Z.ltb_spec (ztz (val (mag x))) s); [reflexivity|lia].
Qed.

Lemma shr_sem x s : icanon x -> 0 <= s ->
  ival x / 2 ^ s =
  sign_z (sg x) * (val (mag x) / 2 ^ s +
                   (if sign_eqb (sg x) Minus && negb (val (mag x) mod 2 ^ s =? 0) then 1 else 0)).
Proof.
  intros Hx Hs. assert (0 < 2 ^ s) by (apply Z.pow_pos_nonneg; lia).
  isplit3 x Hx; rewrite V, S; cbn [sign_z sign_eqb andb].
  - rewrite M, val_nil. rewrite Z.div_0_l by lia. reflexivity.
  - ring.
  - rewrite floor_neg by lia. destruct (_ =? 0); cbn [negb]; ring.
Qed.

Lemma tz_some a : wf a -> 0 < val a -> utrailing_zeros a = Some (ztz (val a)).
Proof.
  intros Ha Hp. rewrite utrailing_zeros_spec by exact Ha. unfold spec_trailing_zeros.
  destruct (Z.eqb_spec (val a) 0); [lia|reflexivity].
Qed.

Lemma from_biguint_enc sgn n : 0 <= n -> from_biguint sgn (enc n) = ienc (sign_z sgn * n).
Proof. intros Hn. rewrite from_biguint_ienc by apply enc_canon. rewrite enc_val by exact Hn. reflexivity. Qed.

Lemma shr_round_down_ret p x s : bits_ok p = true -> icanon x -> exists r, shr_round_down p x s = Ret r.
Proof.
  intros Hp Hx. unfold shr_round_down. isplit3 x Hx; rewrite S; eauto.
  rewrite tz_some by (apply Hx || exact P). eauto.
Qed.

Theorem ishr_spec p ap x s : bits_ok p = true -> addsub_ok ap = true -> icanon x -> vec_ok (mag x) ->
  ishr p ap x s = omap ienc (spec_shr (ival x) s).
Proof.
  intros Hp Hap Hx Hv. unfold ishr, spec_shr. destruct (Z.ltb_spec s 0) as [Hs|Hs].
  - destruct (shr_round_down_ret p x s Hp Hx) as [r ->]. cbn [bind].
    unfold biguint_shr. destruct (Z.ltb_spec s 0); [reflexivity|lia].
  - rewrite shr_round_down_spec by assumption. cbn [bind omap].
    rewrite biguint_shr_spec by (apply Hx || exact Hv). unfold spec_shr. destruct (Z.ltb_spec s 0); [lia|].
    cbn [omap bind]. assert (0 < 2 ^ s) by (apply Z.pow_pos_nonneg; lia).
    assert (Hn : 0 <= val (mag x) / 2 ^ s) by (apply Z.div_pos; [apply val_nonneg; apply Hx|lia]).
    rewrite (shr_sem x s Hx Hs). pose proof B_gt1.
    destruct (sign_eqb (sg x) Minus); cbn [andb].
    + destruct (negb _).
      * rewrite uadd_digit_spec by (auto using enc_canon; lia). cbn [bind]. rewrite enc_val by exact Hn.
        f_equal. apply from_biguint_enc. lia.
      * cbn [bind]. f_equal. rewrite Z.add_0_r. apply from_biguint_enc. exact Hn.
    + cbn [bind]. f_equal. rewrite Z.add_0_r. apply from_biguint_enc. exact Hn.
Qed.

Theorem ishr_assign_spec p ap x s : bits_ok p = true -> addsub_ok ap = true -> icanon x -> vec_ok (mag x) ->
  ishr_assign p ap x s = omap ienc (spec_shr (ival x) s).
Proof.
  intros Hp Hap Hx Hv. unfold ishr_assign, spec_shr. destruct (Z.ltb_spec s 0) as [Hs|Hs].
  - destruct (shr_round_down_ret p x s Hp Hx) as [r ->]. cbn [bind].
    unfold biguint_shr. destruct (Z.ltb_spec s 0); [reflexivity|lia].
  - rewrite shr_round_down_spec by assumption. cbn [bind omap].
    rewrite biguint_shr_spec by (apply Hx || exact Hv). unfold spec_shr. destruct (Z.ltb_spec s 0); [lia|].
    cbn [omap bind]. assert (0 < 2 ^ s) by (apply Z.pow_pos_nonneg; lia).
    assert (Hn : 0 <= val (mag x) / 2 ^ s) by (apply Z.div_pos; [apply val_nonneg; apply Hx|lia]).
    rewrite (shr_sem x s Hx Hs). pose proof B_gt1.
    assert (Hplain : {| sg := if is_nil (enc (val (mag x) / 2 ^ s)) then NoSign else sg x;
                        mag := enc (val (mag x) / 2 ^ s) |} = ienc (sign_z (sg x) * (val (mag x) / 2 ^ s))).
    { rewrite is_nil_enc by exact Hn. destruct (Z.eqb_spec (val (mag x) / 2 ^ s) 0) as [E|E].
      - rewrite E, Z.mul_0_r. reflexivity.
      - apply mk_sign_enc; [lia|]. intros S0. isplit3 x Hx; try congruence.
        rewrite M, val_nil, Z.div_0_l in E by lia. lia. }
    destruct (sign_eqb (sg x) Minus) eqn:Es; cbn [andb].
    + destruct (negb _).
      * rewrite uadd_digit_spec by (auto using enc_canon; lia). cbn [bind]. rewrite enc_val by exact Hn.
        f_equal. apply mk_sign_enc; [lia|]. destruct (sg x); discriminate.
      * f_equal. rewrite Z.add_0_r. exact Hplain.
    + f_equal. rewrite Z.add_0_r. exact Hplain.
Qed.

(** ** bit *)
Lemma testbit_neg v k i : is_tz v k -> 0 <= i ->
  Z.testbit (- v) i = if i <? k then false else if i =? k then true else negb (Z.testbit v i).
Proof.
  intros T Hi. pose proof T as (H0 & _ & _). destruct (is_tz_decomp v k T) as [q ->].
  replace (- ((2 * q + 1) * 2 ^ k)) with ((2 * (- q - 1) + 1) * 2 ^ k) by ring.
  destruct (Z.ltb_spec i k); [apply Z.mul_pow2_bits_low; lia|].
  rewrite !Z.mul_pow2_bits by lia. destruct (Z.eqb_spec i k) as [->|Hne].
  - rewrite Z.sub_diag. apply Z.testbit_odd_0.
  - replace (i - k) with (Z.succ (i - k - 1)) by lia. rewrite !Z.testbit_odd_succ by lia.
    replace (- q - 1) with (Z.lnot q) by (unfold Z.lnot; lia). apply Z.lnot_spec. lia.
Qed.

Theorem ibit_spec p x i : bits_ok p = true -> icanon x -> 0 <= i ->
  ibit p x i = Ret (Z.testbit (ival x) i).
Proof.
  intros Hp Hx Hi. apply bits_ok_inv in Hp; subst p. unfold ibit.
  isplit3 x Hx; rewrite S, V.
  - rewrite ubit_spec by (apply Hx || lia). rewrite M, val_nil. reflexivity.
  - rewrite ubit_spec by (apply Hx || lia). reflexivity.
  - cbn [bp_ibit_hi bits_default cmp_eval]. pose proof (proj1 (proj1 Hx)) as Hw.
    pose proof (tz_some _ Hw P) as Et. pose proof (utrailing_zeros_meaning _ _ Hw Et) as T.
    pose proof (tz_bound _ _ Hw Et) as Bz. rewrite Et. f_equal.
    rewrite (testbit_neg _ _ i T Hi). rewrite ubit_spec by (exact Hw || lia).
    destruct (Z.geb_spec i (64 * zlen (mag x))) as [Hge|Hlt].
    + destruct (Z.ltb_spec i (ztz (val (mag x)))); [lia|]. destruct (Z.eqb_spec i (ztz (val (mag x)))); [lia|].
      pose proof (val_bound _ Hw) as Hb. rewrite B_pow_pow2 in Hb by lia.
      rewrite (testbit_small (val (mag x)) (64 * zlen (mag x)) i) by (unfold zlen in *; lia). reflexivity.
    + destruct (Z.compare_spec i (ztz (val (mag x)))) as [E|E|E].
      * subst i. rewrite Z.ltb_irrefl, Z.eqb_refl. reflexivity.
      * destruct (Z.ltb_spec i (ztz (val (mag x)))); [reflexivity|lia].
      * destruct (Z.ltb_spec i (ztz (val (mag x)))); [lia|]. destruct (Z.eqb_spec i (ztz (val (mag x)))); [lia|reflexivity].
Qed.

(** ** set_bit *)
Lemma setbit_nonneg v i : 0 <= v -> 0 <= i -> 0 <= Z.setbit v i.
Proof. intros. unfold Z.setbit. apply Z.lor_nonneg. split; [lia|]. rewrite Z.shiftl_1_l. apply Z.pow_nonneg; lia. Qed.
Lemma clearbit_nonneg v i : 0 <= v -> 0 <= Z.clearbit v i.
Proof. intros. unfold Z.clearbit. apply Z.ldiff_nonneg. left; lia. Qed.

Theorem uset_bit_spec p a bit value : bits_ok p = true -> canon a -> 0 <= bit < B ->
  uset_bit p a bit value = Ret (enc (if value then Z.setbit (val a) bit else Z.clearbit (val a) bit)).
Proof.
  intros Hp Hc Hb. destruct value; [apply uset_bit_set_spec|apply uset_bit_clear_spec]; auto; lia.
Qed.

Lemma inormalize_plus_enc n : 0 <= n -> inormalize Plus (enc n) = ienc n.
Proof. intros Hn. rewrite inormalize_plus by apply enc_wf. rewrite enc_val by exact Hn. reflexivity. Qed.

Theorem iset_bit_nonneg_spec p x bit value : bits_ok p = true -> icanon x -> sg x <> Minus -> 0 <= bit < B ->
  iset_bit p x bit value = Ret (ienc (if value then Z.setbit (ival x) bit else Z.clearbit (ival x) bit)).
Proof.
  intros Hp Hx Hs Hb. unfold iset_bit. isplit3 x Hx; try congruence; rewrite S, V.
  - destruct value.
    + rewrite uset_bit_spec by (auto; apply Hx). cbn [bind]. f_equal. rewrite M, val_nil.
      apply inormalize_plus_enc. apply setbit_nonneg; lia.
    + cbn [bind]. f_equal. rewrite M. rewrite clearbit_clear by (lia || apply Z.bits_0). reflexivity.
  - rewrite uset_bit_spec by (auto; apply Hx). cbn [bind]. f_equal. apply inormalize_plus_enc.
    destruct value; [apply setbit_nonneg|apply clearbit_nonneg]; lia.
Qed.

(** two's-complement view of one bit above the lowest set bit *)
Lemma neg_bit_above v k i : is_tz v k -> k < i ->
  Z.setbit (- v) i = - Z.clearbit v i /\ Z.clearbit (- v) i = - Z.setbit v i.
Proof.
  intros T Hi. pose proof T as (H0 & _ & _). assert (Hi0 : 0 <= i) by lia.
  pose proof (testbit_neg v k i T Hi0) as E.
  destruct (Z.ltb_spec i k); [lia|]. destruct (Z.eqb_spec i k); [lia|].
  destruct (Z.testbit v i) eqn:Ev; cbn [negb] in E.
  - rewrite (setbit_clear (- v) i Hi0 E), (clearbit_set v i Hi0 Ev),
            (clearbit_clear (- v) i Hi0 E), (setbit_set v i Hi0 Ev). split; ring.
  - rewrite (setbit_set (- v) i Hi0 E), (clearbit_clear v i Hi0 Ev),
            (clearbit_set (- v) i Hi0 E), (setbit_clear v i Hi0 Ev). split; ring.
Qed.

(** which sub-cases of `set_negative_bit` are covered by the theorem below: everything except
    clearing the lowest set bit (the carry walk) and setting a bit below it (the mask flip) *)
Definition snb_covered (data : list Z) (bit : Z) (value : bool) : Prop :=
  let tz := ztz (val data) in
  64 * zlen data <= bit \/ tz < bit \/ (bit = tz /\ value = true) \/ (bit < tz /\ value = false).

Theorem set_negative_bit_partial p data bit value :
  bits_ok p = true -> canon data -> data <> [] -> 0 <= bit < B -> snb_covered data bit value ->
  exists d, set_negative_bit p data bit value = Ret d /\ wf d /\
            - val d = if value then Z.setbit (- val data) bit else Z.clearbit (- val data) bit.
Proof.
  intros Hp Hc Hn Hb Hcov. pose proof (canon_val_pos _ Hc Hn) as P. pose proof (proj1 Hc) as Hw.
  pose proof (tz_some _ Hw P) as Et. pose proof (utrailing_zeros_meaning _ _ Hw Et) as T.
  pose proof (tz_bound _ _ Hw Et) as Bz. set (tz := ztz (val data)) in *.
  apply bits_ok_inv in Hp. subst p. assert (Hp : bits_ok bits_default = true) by reflexivity.
  unfold set_negative_bit. cbn [bp_snb_hi bits_default cmp_eval].
  assert (Hhi : 64 * zlen data <= bit -> Z.testbit (val data) bit = false /\ Z.testbit (- val data) bit = true).
  { intros Hge. pose proof (val_bound _ Hw) as Hbd. rewrite B_pow_pow2 in Hbd by lia.
    assert (E : Z.testbit (val data) bit = false) by (apply (testbit_small _ (64 * zlen data)); unfold zlen in *; lia).
    split; [exact E|]. rewrite (testbit_neg _ _ bit T ltac:(lia)).
    destruct (Z.ltb_spec bit tz); [lia|]. destruct (Z.eqb_spec bit tz); [lia|]. rewrite E. reflexivity. }
  destruct (Z.geb_spec bit (64 * zlen data)) as [Hge|Hlt].
  - destruct (Hhi Hge) as [E1 E2]. destruct value; cbn [negb].
    + exists data. split; [reflexivity|]. split; [exact Hw|]. rewrite setbit_set by (lia || exact E2). reflexivity.
    + rewrite uset_bit_set_spec by (auto; lia). eexists. split; [reflexivity|]. split; [apply enc_wf|].
      rewrite enc_val by (apply setbit_nonneg; lia).
      rewrite setbit_clear by (lia || exact E1). rewrite clearbit_set by (lia || exact E2). ring.
  - rewrite Et. cbn [bp_snb_gt bits_default cmp_eval].
    destruct (Z.gtb_spec bit tz) as [Hgt|Hle].
    + destruct (neg_bit_above _ _ bit T Hgt) as [N1 N2].
      rewrite uset_bit_spec by (auto; lia). eexists. split; [reflexivity|]. split; [apply enc_wf|].
      destruct value; cbn [negb].
      * rewrite enc_val by (apply clearbit_nonneg; lia). rewrite N1. reflexivity.
      * rewrite enc_val by (apply setbit_nonneg; lia). rewrite N2. reflexivity.
    + cbn [bp_snb_eq bp_snb_lt bits_default cmp_eval].
      unfold snb_covered in Hcov. fold tz in Hcov.
      destruct Hcov as [H|[H|[[H1 H2]|[H1 H2]]]]; try lia; subst value; cbn [negb andb].
      * subst bit. rewrite Z.eqb_refl, Z.ltb_irrefl. cbn [andb].
        exists data. split; [reflexivity|]. split; [exact Hw|].
        rewrite setbit_set; [reflexivity|lia|]. rewrite (testbit_neg _ _ tz T ltac:(lia)).
        rewrite Z.ltb_irrefl, Z.eqb_refl. reflexivity.
      * destruct (Z.eqb_spec bit tz); [lia|]. rewrite andb_false_r. cbn [andb].
        exists data. split; [reflexivity|]. split; [exact Hw|].
        rewrite clearbit_clear; [reflexivity|lia|]. rewrite (testbit_neg _ _ bit T ltac:(lia)).
        destruct (Z.ltb_spec bit tz); [reflexivity|lia].
Qed.

Theorem iset_bit_neg_partial p x bit value :
  bits_ok p = true -> icanon x -> sg x = Minus -> 0 <= bit < B -> snb_covered (mag x) bit value ->
  iset_bit p x bit value = Ret (ienc (if value then Z.setbit (ival x) bit else Z.clearbit (ival x) bit)).
Proof.
  intros Hp Hx Hs Hb Hcov. unfold iset_bit. isplit3 x Hx; try congruence. rewrite S, V.
  destruct (set_negative_bit_partial p (mag x) bit value Hp (proj1 Hx) M Hb Hcov) as (d & E & Hd & Vd).
  rewrite E. cbn [bind]. f_equal. rewrite inormalize_minus by exact Hd. f_equal. exact Vd.
Qed.

(** ** bits / trailing_zeros of a BigInt look at the magnitude *)
Theorem ibits_spec x : icanon x -> ibits x = spec_bits (ival x).
Proof.
  intros Hx. unfold ibits. rewrite ubits_spec by apply Hx. unfold spec_bits.
  isplit3 x Hx; rewrite V; try (rewrite M, val_nil); try reflexivity. rewrite Z.abs_opp.
  destruct (Z.eqb_spec (val (mag x)) 0), (Z.eqb_spec (- val (mag x)) 0); try lia; reflexivity.
Qed.

Lemma ztz_opp v : ztz (- v) = ztz v.
Proof. unfold ztz. rewrite Z.opp_involutive, Z.land_comm. reflexivity. Qed.

Theorem itrailing_zeros_spec x : icanon x -> itrailing_zeros x = spec_trailing_zeros (ival x).
Proof.
  intros Hx. unfold itrailing_zeros. rewrite utrailing_zeros_spec by apply Hx. unfold spec_trailing_zeros.
  isplit3 x Hx; rewrite V; try (rewrite M, val_nil); try reflexivity. rewrite ztz_opp.
  destruct (Z.eqb_spec (val (mag x)) 0), (Z.eqb_spec (- val (mag x)) 0); try lia; reflexivity.
Qed.

(** the executable [ztz] is the index of the lowest set bit *)
Theorem ztz_meaning x : x <> 0 -> is_tz x (ztz x).
Proof.
  intros Hx.
  assert (H : forall p, is_tz (Zpos p) (ztz (Zpos p))).
  { intros p. pose proof (ptz_is_tz p) as T. rewrite (ztz_is_tz _ _ T). exact T. }
  destruct x as [|p|p]; [congruence|apply H|].
  change (Z.neg p) with (- Z.pos p). rewrite ztz_opp. pose proof (H p) as T.
  set (k := ztz (Z.pos p)) in *. pose proof T as (H0 & _ & _).
  split; [exact H0|]. split.
  - rewrite (testbit_neg _ _ k T H0). rewrite Z.ltb_irrefl, Z.eqb_refl. reflexivity.
  - intros j Hj. rewrite (testbit_neg _ _ j T ltac:(lia)). destruct (Z.ltb_spec j k); [reflexivity|lia].
Qed.
