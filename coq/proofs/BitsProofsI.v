(* BitsProofsI.v — C07 for BigInt: & | ^ over the nine sign pairs, !, << >>, bit, set_bit. *)
From BigNum Require Import Base BaseLemmas X86 AddSub AddSubProofs ShiftCore ShiftCoreProofs
  Bits SpecBits BitsLemmas BitsProofsU BitsProofsTC.
Open Scope Z_scope.

(** ** signs *)
Lemma isplit x : icanon x ->
  (sg x = NoSign /\ mag x = [] /\ ival x = 0) \/
  (sg x = Plus /\ mag x <> [] /\ ival x = val (mag x) /\ 0 < val (mag x)) \/
  (sg x = Minus /\ mag x <> [] /\ ival x = - val (mag x) /\ 0 < val (mag x)).
Proof.
  destruct x as [s m]. unfold icanon, ival. cbn [sg mag]. intros [Hc Hs].
  destruct s; cbn [sign_z].
  - right; right. assert (m <> []) by (intros E; apply Hs in E; discriminate).
    split; [reflexivity|]. split; [assumption|]. split; [lia|apply canon_val_pos; auto].
  - left. assert (m = []) by (apply Hs; reflexivity). subst m. auto.
  - right; left. assert (m <> []) by (intros E; apply Hs in E; discriminate).
    split; [reflexivity|]. split; [assumption|]. split; [lia|apply canon_val_pos; auto].
Qed.

Lemma is_nil_enc n : 0 <= n -> is_nil (enc n) = (n =? 0).
Proof.
  intros Hn. destruct (Z.eqb_spec n 0) as [->|Hne]; [reflexivity|].
  destruct (enc n) eqn:E; [|reflexivity]. apply enc_nil_iff in E; [lia|exact Hn].
Qed.

Lemma mk_plus_enc n : 0 <= n -> mkint (if is_nil (enc n) then NoSign else Plus) (enc n) = ienc n.
Proof.
  intros Hn. rewrite is_nil_enc by exact Hn. unfold ienc. rewrite Z.abs_eq by lia.
  destruct (Z.eqb_spec n 0) as [->|Hne]; [reflexivity|]. destruct n; try lia; reflexivity.
Qed.
Lemma mk_sign_enc s n : 0 < n -> s <> NoSign -> mkint s (enc n) = ienc (sign_z s * n).
Proof.
  intros Hn Hs. unfold ienc. destruct s; try congruence; cbn [sign_z].
  - replace (-1 * n) with (- n) by ring. rewrite Z.abs_neq by lia. rewrite Z.opp_involutive.
    destruct n; try lia; reflexivity.
  - rewrite Z.mul_1_l, Z.abs_eq by lia. destruct n; try lia; reflexivity.
Qed.
Lemma of_biguint_enc n : 0 <= n -> of_biguint (enc n) = ienc n.
Proof. intros Hn. unfold of_biguint. rewrite <- mk_plus_enc by exact Hn. destruct (is_nil (enc n)) eqn:E; [|reflexivity].
  destruct (enc n); [reflexivity|discriminate]. Qed.

Lemma inormalize_plus d : wf d -> inormalize Plus d = ienc (val d).
Proof.
  intros Hd. unfold inormalize. cbn zeta. rewrite <- enc_strip by exact Hd.
  apply mk_plus_enc. apply val_nonneg; exact Hd.
Qed.
Lemma inormalize_minus d : wf d -> inormalize Minus d = ienc (- val d).
Proof.
  intros Hd. unfold inormalize. cbn zeta. rewrite <- enc_strip by exact Hd.
  pose proof (val_nonneg d Hd) as Hn. rewrite is_nil_enc by exact Hn.
  destruct (Z.eqb_spec (val d) 0) as [E|Hne]; [rewrite E; reflexivity|].
  rewrite (mk_sign_enc Minus) by (lia || discriminate). f_equal; cbn [sign_z]; ring.
Qed.

Lemma ienc_icanon_zero x : icanon x -> ival x = 0 -> x = ienc 0.
Proof. intros Hx E. rewrite <- E. symmetry. apply ienc_of_icanon. exact Hx. Qed.

(** ** & | ^ *)
Ltac isplit3 x Hx :=
  let S := fresh "S" in let M0 := fresh "M" in let V := fresh "V" in let P := fresh "P" in
  destruct (isplit x Hx) as [(S & M0 & V) | [(S & M0 & V & P) | (S & M0 & V & P)]].

Theorem iand_assign_spec x y : icanon x -> icanon y ->
  iand_assign x y = Ret (ienc (Z.land (ival x) (ival y))).
Proof.
  intros Hx Hy. unfold iand_assign.
  destruct (isplit x Hx) as [(Sx & Mx & Vx) | [(Sx & Mx & Vx & Px) | (Sx & Mx & Vx & Px)]];
  destruct (isplit y Hy) as [(Sy & My & Vy) | [(Sy & My & Vy & Py) | (Sy & My & Vy & Py)]];
  rewrite Sx, ?Sy, Vx, Vy; rewrite ?Z.land_0_l, ?Z.land_0_r;
  try (f_equal; apply ienc_icanon_zero; assumption); try reflexivity.
  - f_equal. rewrite uand_assign_spec by (apply Hx || apply Hy). apply mk_plus_enc.
    apply (bitop_nonneg _ _ bitop_land); lia.
  - destruct (bitand_pos_neg_spec _ _ (proj1 Hx) (proj1 Hy) Mx My) as (d & E & Hd & V). rewrite E. cbn [bind].
    f_equal. rewrite inormalize_plus by exact Hd. f_equal. exact V.
  - destruct (bitand_neg_pos_spec _ _ (proj1 Hx) (proj1 Hy) Mx My) as (d & E & Hd & V). rewrite E. cbn [bind].
    f_equal. rewrite inormalize_plus by exact Hd. f_equal. exact V.
  - destruct (bitand_neg_neg_spec _ _ (proj1 Hx) (proj1 Hy) Mx My) as (d & E & Hd & V). rewrite E. cbn [bind].
    f_equal. rewrite inormalize_minus by exact Hd. f_equal. exact V.
Qed.

Theorem iand_spec p x y : bits_ok p = true -> icanon x -> icanon y ->
  iand p x y = Ret (ienc (Z.land (ival x) (ival y))).
Proof.
  intros Hp Hx Hy. unfold iand.
  pose proof (iand_assign_spec x y Hx Hy) as A1. pose proof (iand_assign_spec y x Hy Hx) as A2.
  rewrite Z.land_comm in A2.
  destruct (isplit x Hx) as [(Sx & Mx & Vx) | [(Sx & Mx & Vx & Px) | (Sx & Mx & Vx & Px)]];
  destruct (isplit y Hy) as [(Sy & My & Vy) | [(Sy & My & Vy & Py) | (Sy & My & Vy & Py)]];
  rewrite Sx, ?Sy; try assumption;
  try (rewrite Vx, ?Z.land_0_l; reflexivity); try (rewrite Vy, ?Z.land_0_r; reflexivity).
  - rewrite Vx, Vy. f_equal. rewrite uand_spec by (auto; apply Hx || apply Hy). apply of_biguint_enc.
    apply (bitop_nonneg _ _ bitop_land); lia.
  - destruct (cmp_eval _ _ _); assumption.
Qed.

Theorem ior_assign_spec p x y : bits_ok p = true -> icanon x -> icanon y ->
  ior_assign p x y = Ret (ienc (Z.lor (ival x) (ival y))).
Proof.
  intros Hp Hx Hy. unfold ior_assign.
  destruct (isplit x Hx) as [(Sx & Mx & Vx) | [(Sx & Mx & Vx & Px) | (Sx & Mx & Vx & Px)]];
  destruct (isplit y Hy) as [(Sy & My & Vy) | [(Sy & My & Vy & Py) | (Sy & My & Vy & Py)]];
  rewrite Sx, ?Sy;
  try (rewrite Vy, Z.lor_0_r; f_equal; symmetry; apply ienc_of_icanon; assumption);
  try (rewrite Vx, Z.lor_0_l; f_equal; symmetry; apply ienc_of_icanon; assumption);
  rewrite Vx, Vy.
  - f_equal. rewrite uor_assign_spec by (auto; apply Hx || apply Hy).
    assert (0 < Z.lor (val (mag x)) (val (mag y))).
    { assert (0 <= Z.lor (val (mag x)) (val (mag y))) by (apply Z.lor_nonneg; lia).
      destruct (Z.eq_dec (Z.lor (val (mag x)) (val (mag y))) 0) as [E|]; [apply Z.lor_eq_0_iff in E|]; lia. }
    rewrite (mk_sign_enc Plus) by (lia || discriminate). f_equal; cbn [sign_z]; ring.
  - destruct (bitor_pos_neg_spec _ _ (proj1 Hx) (proj1 Hy) Mx My) as (d & E & Hd & V). rewrite E. cbn [bind].
    f_equal. rewrite inormalize_minus by exact Hd. f_equal. exact V.
  - destruct (bitor_neg_pos_spec _ _ (proj1 Hx) (proj1 Hy) Mx My) as (d & E & Hd & V). rewrite E. cbn [bind].
    f_equal. rewrite inormalize_minus by exact Hd. f_equal. exact V.
  - destruct (bitor_neg_neg_spec _ _ (proj1 Hx) (proj1 Hy) Mx My) as (d & E & Hd & V). rewrite E. cbn [bind].
    f_equal. rewrite inormalize_minus by exact Hd. f_equal. exact V.
Qed.

Theorem ior_spec p x y : bits_ok p = true -> icanon x -> icanon y ->
  ior p x y = Ret (ienc (Z.lor (ival x) (ival y))).
Proof.
  intros Hp Hx Hy. unfold ior.
  pose proof (ior_assign_spec p x y Hp Hx Hy) as A1. pose proof (ior_assign_spec p y x Hp Hy Hx) as A2.
  rewrite Z.lor_comm in A2.
  destruct (isplit x Hx) as [(Sx & Mx & Vx) | [(Sx & Mx & Vx & Px) | (Sx & Mx & Vx & Px)]];
  destruct (isplit y Hy) as [(Sy & My & Vy) | [(Sy & My & Vy & Py) | (Sy & My & Vy & Py)]];
  rewrite Sx, ?Sy; try assumption;
  try (rewrite Vx, Z.lor_0_l; f_equal; symmetry; apply ienc_of_icanon; assumption);
  try (rewrite Vy, Z.lor_0_r; f_equal; symmetry; apply ienc_of_icanon; assumption).
  - rewrite Vx, Vy. f_equal. rewrite uor_spec by (auto; apply Hx || apply Hy). apply of_biguint_enc.
    apply Z.lor_nonneg; lia.
  - destruct (cmp_eval _ _ _); assumption.
Qed.

Theorem ixor_assign_spec p x y : bits_ok p = true -> icanon x -> icanon y ->
  ixor_assign p x y = Ret (ienc (Z.lxor (ival x) (ival y))).
Proof.
  intros Hp Hx Hy. unfold ixor_assign.
  destruct (isplit x Hx) as [(Sx & Mx & Vx) | [(Sx & Mx & Vx & Px) | (Sx & Mx & Vx & Px)]];
  destruct (isplit y Hy) as [(Sy & My & Vy) | [(Sy & My & Vy & Py) | (Sy & My & Vy & Py)]];
  rewrite Sx, ?Sy;
  try (rewrite Vy, Z.lxor_0_r; f_equal; symmetry; apply ienc_of_icanon; assumption);
  try (rewrite Vx, Z.lxor_0_l; f_equal; symmetry; apply ienc_of_icanon; assumption);
  rewrite Vx, Vy.
  - f_equal. rewrite uxor_assign_spec by (auto; apply Hx || apply Hy). apply mk_plus_enc.
    apply Z.lxor_nonneg; lia.
  - destruct (bitxor_pos_neg_spec _ _ (proj1 Hx) (proj1 Hy) Mx My) as (d & E & Hd & V). rewrite E. cbn [bind].
    f_equal. rewrite inormalize_minus by exact Hd. f_equal. exact V.
  - destruct (bitxor_neg_pos_spec _ _ (proj1 Hx) (proj1 Hy) Mx My) as (d & E & Hd & V). rewrite E. cbn [bind].
    f_equal. rewrite inormalize_minus by exact Hd. f_equal. exact V.
  - destruct (bitxor_neg_neg_spec _ _ (proj1 Hx) (proj1 Hy) Mx My) as (d & E & Hd & V). rewrite E. cbn [bind].
    f_equal. rewrite inormalize_plus by exact Hd. f_equal. exact V.
Qed.

Theorem ixor_spec p x y : bits_ok p = true -> icanon x -> icanon y ->
  ixor p x y = Ret (ienc (Z.lxor (ival x) (ival y))).
Proof.
  intros Hp Hx Hy. unfold ixor. destruct (_ >=? _).
  - apply ixor_assign_spec; auto.
  - rewrite Z.lxor_comm. apply ixor_assign_spec; auto.
Qed.
