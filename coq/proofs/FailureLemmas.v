(* FailureLemmas.v — C14: reading "fails exactly when ..." off a refinement theorem.
   Every Z-level spec of a partial operation is `if <condition> then Panic k else Ret v`
   (checked variants: `Ret (if <condition> then None else Some v)`); these lemmas turn
   `model = <that>` into the per-operation statements of props/C14.v. *)
From Coq Require Import ZArith Bool.
From BigNum Require Import Base.
Open Scope Z_scope.

Lemma omap_ite {A C} (f : A -> C) (c : bool) k (v : A) :
  omap f (if c then Panic k else Ret v) = if c then Panic k else Ret (f v).
Proof. destruct c; reflexivity. Qed.

Lemma omap_ite2 {A C} (f : A -> C) (c1 c2 : bool) k1 k2 (v : A) :
  omap f (if c1 then Panic k1 else if c2 then Panic k2 else Ret v) =
  if c1 then Panic k1 else if c2 then Panic k2 else Ret (f v).
Proof. destruct c1, c2; reflexivity. Qed.

Lemma omap_chk {A C} (f : A -> C) (c : bool) (v : A) :
  omap (option_map f) (Ret (if c then None else Some v)) = Ret (if c then None else Some (f v)).
Proof. destruct c; reflexivity. Qed.

(* one documented failure *)
Lemma panics_iff_ite {A} (m : outcome A) (c : bool) k (v : A) (P : Prop) :
  m = (if c then Panic k else Ret v) -> (c = true <-> P) ->
  (m = Panic k <-> P) /\ (~ P -> exists r, m = Ret r).
Proof.
  intros -> H. destruct c.
  - split; [split; [intros _; apply H; reflexivity | reflexivity] | intros N; exfalso; apply N, H; reflexivity].
  - split; [split; [discriminate | intros HP; apply H in HP; discriminate] | intros _; eexists; reflexivity].
Qed.

(* two documented failures, tested in this order *)
Lemma panics_iff_ite2 {A} (m : outcome A) (c1 c2 : bool) k1 k2 (v : A) (P1 P2 : Prop) :
  k1 <> k2 ->
  m = (if c1 then Panic k1 else if c2 then Panic k2 else Ret v) ->
  (c1 = true <-> P1) -> (c2 = true <-> P2) ->
  (m = Panic k1 <-> P1) /\ (m = Panic k2 <-> ~ P1 /\ P2) /\ (~ P1 -> ~ P2 -> exists r, m = Ret r).
Proof.
  intros Hk -> H1 H2. destruct c1.
  - split; [split; [intros _; apply H1; reflexivity | reflexivity]|].
    split; [split; [intros E; inversion E; congruence | intros [N _]; exfalso; apply N, H1; reflexivity]|].
    intros N; exfalso; apply N, H1; reflexivity.
  - assert (N1 : ~ P1) by (intros HP; apply H1 in HP; discriminate).
    split; [split; [destruct c2; [intros E; inversion E; congruence | discriminate] | intros HP; contradiction]|].
    destruct c2.
    + split; [split; [intros _; split; [exact N1 | apply H2; reflexivity] | reflexivity]|].
      intros _ N; exfalso; apply N, H2; reflexivity.
    + split; [split; [discriminate | intros [_ HP]; apply H2 in HP; discriminate]|].
      intros _ _; eexists; reflexivity.
Qed.

(* checked variants: never a panic, None exactly on the failure condition *)
Lemma checked_iff_ite {A} (m : outcome (option A)) (c : bool) (v : A) (P : Prop) :
  m = Ret (if c then None else Some v) -> (c = true <-> P) ->
  exists r, m = Ret r /\ (r = None <-> P).
Proof.
  intros -> H. eexists; split; [reflexivity|]. destruct c.
  - split; [intros _; apply H; reflexivity | reflexivity].
  - split; [discriminate | intros HP; apply H in HP; discriminate].
Qed.

Lemma ret_never_panics {A} (m : outcome A) (v : A) : m = Ret v -> exists r, m = Ret r.
Proof. intros ->; eexists; reflexivity. Qed.

Lemma eqb0_iff z : (z =? 0) = true <-> z = 0.
Proof. apply Z.eqb_eq. Qed.
Lemma ltb0_iff z : (z <? 0) = true <-> z < 0.
Proof. apply Z.ltb_lt. Qed.

(* `if c then Ret v else Panic k` (the radix range tests) *)
Lemma omap_eti {A C} (f : A -> C) (c : bool) k (v : A) :
  omap f (if c then Ret v else Panic k) = if c then Ret (f v) else Panic k.
Proof. destruct c; reflexivity. Qed.
Lemma panics_iff_eti {A} (m : outcome A) (c : bool) k (v : A) (P : Prop) :
  m = (if c then Ret v else Panic k) -> (c = false <-> P) ->
  (m = Panic k <-> P) /\ (~ P -> exists r, m = Ret r).
Proof.
  intros -> H. destruct c.
  - split; [split; [discriminate | intros HP; apply H in HP; discriminate] | intros _; eexists; reflexivity].
  - split; [split; [intros _; apply H; reflexivity | reflexivity] | intros N; exfalso; apply N, H; reflexivity].
Qed.

Lemma omap_panic_iff {A C} (f : A -> C) (m : outcome A) k : omap f m = Panic k <-> m = Panic k.
Proof. destruct m; cbn; split; intros E; try discriminate; inversion E; reflexivity. Qed.
Lemma outcome_cases {A} (m : outcome A) : (forall k, m <> Panic k) -> (exists r, m = Ret r) \/ m = OutOfFuel.
Proof. destruct m as [a|k|]; intros H; [left; eexists; reflexivity | exfalso; apply (H k); reflexivity | right; reflexivity]. Qed.

(* radix ranges as propositions *)
Lemma radix_in_false lo hi r : ((lo <=? r) && (r <=? hi)) = false <-> ~ lo <= r <= hi.
Proof.
  destruct (Z.leb_spec lo r); destruct (Z.leb_spec r hi); cbn; split; intros; try discriminate; try lia; reflexivity.
Qed.

(* split a conjunction of per-operation statements into its members (the members themselves —
   `(_ <-> _) /\ (~ _ -> _)` — are left whole) *)
Ltac split_ops :=
  repeat match goal with
         | |- (_ <-> _) /\ (~ _ -> _) => fail 1
         | |- _ /\ _ => split
         end.

Lemma omap_bind_eti {A B C} (f : B -> C) (g : A -> B) (c : bool) k (v : A) :
  omap f (do x <- (if c then Ret v else Panic k); Ret (g x)) = if c then Ret (f (g v)) else Panic k.
Proof. destruct c; reflexivity. Qed.

(* an operation that fails with exactly one kind and may otherwise run out of script (the
   scripted RNG stream of C18) *)
Lemma only_panic_cases {A} (m : outcome A) k0 (P : Prop) :
  (forall k, m = Panic k <-> P /\ k = k0) -> ~ P -> (exists r, m = Ret r) \/ m = OutOfFuel.
Proof. intros H N. apply outcome_cases. intros k E. apply H in E. tauto. Qed.
