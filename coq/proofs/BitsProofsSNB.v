(* BitsProofsSNB.v — the two remaining arms of `set_negative_bit`: clearing the lowest set bit of a
   negative value (carry walk with early exit) and setting a bit below it (mask flip). *)
From BigNum Require Import Base BaseLemmas X86 AddSub AddSubProofs ShiftCore ShiftCoreProofs
  Bits SpecBits BitsLemmas BitsProofsU BitsProofsTC BitsProofsI.
Open Scope Z_scope.

(** ** where the lowest set bit lives *)
Lemma position_struct f a : forall i j d, position f i a = Some (j, d) ->
  exists l1 l2, a = l1 ++ d :: l2 /\ j = i + zlen l1 /\ f d = true /\ Forall (fun x => f x = false) l1.
Proof.
  induction a as [|x a IH]; intros i j d E; cbn [position] in E; [discriminate|].
  destruct (f x) eqn:Ef.
  - injection E as <- <-. exists [], a. unfold zlen. cbn. repeat split; auto. lia.
  - destruct (IH _ _ _ E) as (l1 & l2 & -> & -> & Hd & Hall). exists (x :: l1), l2.
    unfold zlen. cbn [length app]. repeat split; auto. lia.
Qed.

Lemma all_zero_zeros l : Forall (fun x => negb (x =? 0) = false) l -> l = zeros (length l).
Proof.
  induction 1 as [|x l Hx _ IH]; [reflexivity|]. cbn [length zeros repeat]. fold (zeros (length l)).
  rewrite <- IH. f_equal. destruct (Z.eqb_spec x 0); [assumption|discriminate].
Qed.

Lemma tz_struct a k : wf a -> utrailing_zeros a = Some k ->
  exists d l2, a = zeros (Z.to_nat (k / 64)) ++ d :: l2 /\ 0 <= k / 64 /\
               digit d /\ d <> 0 /\ is_tz d (k mod 64) /\ 0 <= k mod 64 < 64 /\ wf l2.
Proof.
  intros Ha E. unfold utrailing_zeros in E.
  destruct (position _ 0 a) as [[j d]|] eqn:Ep; [|discriminate]. injection E as <-.
  destruct (position_struct _ _ _ _ _ Ep) as (l1 & l2 & -> & -> & Hd & Hall).
  apply wf_app in Ha as [_ Ha]. apply wf_cons in Ha as [Hdd Hl2].
  assert (Hd0 : d <> 0) by (destruct (Z.eqb_spec d 0); [discriminate|assumption]).
  destruct (tz64_is_tz d Hdd Hd0) as [T R]. unfold zlen. rewrite Z.add_0_l.
  assert (E1 : (Z.of_nat (length l1) * 64 + tz64 d) / 64 = Z.of_nat (length l1)) by lia.
  assert (E2 : (Z.of_nat (length l1) * 64 + tz64 d) mod 64 = tz64 d) by lia.
  rewrite E1, E2, Nat2Z.id. exists d, l2. rewrite <- (all_zero_zeros l1 Hall).
  split; [reflexivity|]. split; [lia|]. split; [exact Hdd|]. split; [exact Hd0|]. split; [exact T|]. split; [exact R|exact Hl2].
Qed.

Lemma skipn_zeros_app n (l : list Z) : skipn n (zeros n ++ l) = l.
Proof. apply skipn_app_exact. apply length_zeros. Qed.
Lemma firstn_zeros_app n (l : list Z) : firstn n (zeros n ++ l) = zeros n.
Proof. apply firstn_app_exact. apply length_zeros. Qed.

(** ** the carry walk: once [carry_in] is dead the loop just propagates [carry_out] *)
Lemma snb_walk_spec l : forall c, wf l -> bit c ->
  match snb_walk 0 c l with (o, (cin', cout')) =>
    wf o /\ length o = length l /\ cin' = 0 /\ bit cout' /\
    val o + B ^ Z.of_nat (length l) * cout' = val l + c end.
Proof.
  induction l as [|x l IH]; intros c Hl Hc; cbn [snb_walk].
  - cbn [length Z.of_nat val]. rewrite Z.pow_0_r. repeat split; auto. lia.
  - cbn [Z.eqb andb]. destruct (Z.eqb_spec c 0) as [->|Hn].
    + repeat split; auto. lia.
    + assert (c = 1) by (destruct Hc; lia). subst c. apply wf_cons in Hl as [Hx Hl].
      pose proof (negate_carry_spec x 0 Hx bit0) as H1. destruct (negate_carry x 0) as [t cin1].
      destruct H1 as (Ht & Hc1 & E1).
      assert (cin1 = 0) by (unfold digit in *; destruct Hc1; subst; lia). subst cin1.
      pose proof (negate_carry_spec t 1 Ht bit1) as H2. destruct (negate_carry t 1) as [o0 c2].
      destruct H2 as (Ho0 & Hc2 & E2).
      specialize (IH c2 Hl Hc2). destruct (snb_walk 0 c2 l) as [os [cin' cout']].
      destruct IH as (Hos & Hlen & Hcin & Hcout & Ev).
      split; [apply wf_cons; auto|]. split; [cbn [length]; congruence|]. split; [exact Hcin|]. split; [exact Hcout|].
      change (length (x :: l)) with (S (length l)). rewrite B_pow_S, !val_cons.
      set (P := B ^ Z.of_nat (length l)) in *. nia.
Qed.

Lemma testbit_twos d j : digit d -> d <> 0 -> is_tz d j -> 0 <= j < 64 -> Z.testbit (B - d) j = true.
Proof.
  intros Hd Hn T Hj. unfold digit in Hd.
  replace (B - d) with ((- d) mod 2 ^ 64).
  - rewrite Z.mod_pow2_bits_low by lia. rewrite (testbit_neg d j j T ltac:(lia)).
    rewrite Z.ltb_irrefl, Z.eqb_refl. reflexivity.
  - rewrite <- B_as_pow2. symmetry. apply Z.mod_unique_pos with (-1); lia.
Qed.

Theorem snb_clear_lowest data : canon data -> data <> [] -> vec_ok data ->
  let tz := ztz (val data) in
  exists d, set_negative_bit bits_default data tz false = Ret d /\ wf d /\
            - val d = Z.clearbit (- val data) tz.
Proof.
  intros Hc Hn Hv tz. pose proof (canon_val_pos _ Hc Hn) as P. pose proof (proj1 Hc) as Hw.
  pose proof (tz_some _ Hw P) as Et. fold tz in Et. pose proof (utrailing_zeros_meaning _ _ Hw Et) as T.
  pose proof (tz_bound _ _ Hw Et) as Bz.
  destruct (tz_struct _ _ Hw Et) as (d & l2 & Ed & Hk & Hd & Hd0 & Td & Hj & Hl2).
  unfold set_negative_bit. cbn [bp_snb_hi bp_snb_gt bp_snb_eq bits_default cmp_eval negb].
  destruct (Z.geb_spec tz (64 * zlen data)); [lia|]. rewrite Et.
  destruct (Z.gtb_spec tz tz); [lia|]. rewrite Z.eqb_refl. cbn [andb].
  set (hi := tz / 64) in *. set (j := tz mod 64) in *.
  assert (Etz : tz = 64 * hi + j) by (unfold hi, j; lia). clearbody hi j. clearbody tz.
  assert (Es : skipn (Z.to_nat hi) data = d :: l2) by (rewrite Ed; apply skipn_zeros_app).
  assert (Ef : firstn (Z.to_nat hi) data = zeros (Z.to_nat hi)) by (rewrite Ed; apply firstn_zeros_app).
  rewrite Es, Ef.
  pose proof (negate_carry_spec d 1 Hd bit1) as H1. destruct (negate_carry d 1) as [tin cin].
  destruct H1 as (Htin & Hcin & E1).
  assert (cin = 0) by (unfold digit in *; destruct Hcin; subst; lia). subst cin.
  assert (Etin : tin = B - d) by lia.
  assert (Eout : Z.land tin (dnot (2 ^ j)) = B - d - 2 ^ j).
  { rewrite land_dnot_pow2 by (auto; lia). rewrite Etin. apply clearbit_set; [lia|].
    apply testbit_twos; auto. }
  rewrite Eout.
  assert (Hpj : 0 < 2 ^ j) by (apply Z.pow_pos_nonneg; lia).
  assert (Hdj : 2 ^ j <= d).
  { destruct Td as (_ & Tb & _). destruct (Z.le_gt_cases (2 ^ j) d); [assumption|].
    rewrite (testbit_small d j j) in Tb by (unfold digit in *; lia). discriminate. }
  assert (Hdj2 : d + 2 ^ j <= B).
  { destruct (is_tz_decomp d j Td) as [q Eq]. pose proof Hd as Hd2. unfold digit in Hd2.
    rewrite (B_split j) in * by lia. set (S := 2 ^ j) in *. set (T' := 2 ^ (64 - j)) in *.
    assert (2 * q + 1 < T') by (apply Z.mul_lt_mono_pos_r with S; lia).
    assert ((2 * q + 2) * S <= T' * S) by (apply Z.mul_le_mono_nonneg_r; lia). lia. }
  assert (Hout : digit (B - d - 2 ^ j)) by (unfold digit in *; lia).
  pose proof (negate_carry_spec _ 1 Hout bit1) as H2. destruct (negate_carry (B - d - 2 ^ j) 1) as [d' cout].
  destruct H2 as (Hd' & Hcout & E2).
  pose proof (snb_walk_spec l2 cout Hl2 Hcout) as H3. destruct (snb_walk 0 cout l2) as [rest' [cin' cout']].
  destruct H3 as (Hr & Hlr & Hci & Hco & E3). subst cin'.
  set (r := zeros (Z.to_nat hi) ++ d' :: rest').
  assert (Hwr : wf r) by (apply wf_app; split; [apply wf_zeros|apply wf_cons; auto]).
  assert (Hvd : val data = B ^ hi * (d + B * val l2)).
  { rewrite Ed. rewrite val_app, val_zeros, length_zeros, Z2Nat.id, val_cons by lia. ring. }
  assert (Hvr : val r = B ^ hi * (d' + B * val rest')).
  { unfold r. rewrite val_app, val_zeros, length_zeros, Z2Nat.id, val_cons by lia. ring. }
  assert (Hpk : 2 ^ tz = B ^ hi * 2 ^ j).
  { rewrite Etz. apply pow2_index; lia. }
  assert (Hbitk : Z.testbit (- val data) tz = true).
  { rewrite (testbit_neg _ _ tz T ltac:(lia)). rewrite Z.ltb_irrefl, Z.eqb_refl. reflexivity. }
  rewrite clearbit_set by (lia || exact Hbitk). rewrite Hpk, Hvd.
  set (PH := B ^ hi) in *. set (PL := B ^ Z.of_nat (length l2)) in *.
  destruct Hco as [-> | ->]; cbn [Z.eqb negb].
  - exists r. split; [reflexivity|]. split; [exact Hwr|]. rewrite Hvr. nia.
  - cbn [assert_ bind Z.eqb]. exists (r ++ [1]). split; [reflexivity|].
    split; [apply wf_app; split; [exact Hwr|apply wf_cons; split; [unfold digit; pose proof B_gt1; lia|apply wf_nil]]|].
    rewrite val_snoc, Hvr. unfold r. rewrite app_length, length_zeros. cbn [length].
    rewrite Hlr. rewrite Nat2Z.inj_add, Z2Nat.id, Z.pow_add_r by lia. fold PH.
    rewrite Nat2Z.inj_succ, Z.pow_succ_r by lia. fold PL. nia.
Qed.

(** ** the mask flip *)
Lemma add_disjoint_lxor x y s : 0 <= s -> x mod 2 ^ s = 0 -> 0 <= y < 2 ^ s -> x + y = Z.lxor x y.
Proof. intros Hs Hx Hy. apply Z.add_nocarry_lxor. apply (land_disjoint x y s); assumption. Qed.

Lemma lxor_run d jt j : is_tz d jt -> 0 <= j <= jt ->
  Z.lxor d (2 ^ (jt + 1) - 2 ^ j) = d - 2 ^ j.
Proof.
  intros T Hj. destruct (is_tz_decomp d jt T) as [q Eq].
  assert (Hjt : 0 <= jt) by lia.
  assert (E2 : 2 ^ (jt + 1) = 2 * 2 ^ jt) by (rewrite Z.pow_add_r by lia; change (2 ^ 1) with 2; ring).
  set (P := 2 ^ jt) in *. assert (HP : 0 < P) by (apply Z.pow_pos_nonneg; lia).
  assert (Hpj : 0 < 2 ^ j <= P) by (split; [apply Z.pow_pos_nonneg; lia|apply Z.pow_le_mono_r; lia]).
  set (hi := 2 ^ (jt + 1) * q). set (r := P - 2 ^ j).
  assert (Hhi1 : hi mod 2 ^ (jt + 1) = 0) by (unfold hi; rewrite Z.mul_comm; apply Z.mod_mul; lia).
  assert (Ed : d = Z.lxor hi P).
  { rewrite <- (add_disjoint_lxor hi P (jt + 1)); [unfold hi; lia|lia|exact Hhi1|lia]. }
  assert (EW : 2 ^ (jt + 1) - 2 ^ j = Z.lxor P r).
  { rewrite <- (add_disjoint_lxor P r jt); [unfold r; lia|lia|apply Z.mod_same; lia|unfold r; lia]. }
  assert (Er : hi + r = Z.lxor hi r).
  { apply (add_disjoint_lxor hi r (jt + 1)); [lia|exact Hhi1|unfold r; lia]. }
  rewrite EW. rewrite Ed at 1. rewrite Z.lxor_assoc, <- (Z.lxor_assoc P P r), Z.lxor_nilpotent, Z.lxor_0_l.
  rewrite <- Er. unfold hi, r. lia.
Qed.

Lemma mask_lo_val j : 0 <= j < 64 -> ((B - 1) * 2 ^ j) mod B = B - 2 ^ j.
Proof.
  intros Hj. assert (0 < 2 ^ j) by (apply Z.pow_pos_nonneg; lia).
  assert (2 ^ j < B) by (rewrite B_as_pow2; apply Z.pow_lt_mono_r; lia).
  symmetry. apply Z.mod_unique_pos with (2 ^ j - 1); lia.
Qed.
Lemma mask_hi_val jt : 0 <= jt < 64 -> (B - 1) / 2 ^ (64 - 1 - jt) = 2 ^ (jt + 1) - 1.
Proof.
  intros Hj. set (T := 2 ^ (64 - 1 - jt)). assert (0 < T) by (apply Z.pow_pos_nonneg; lia).
  assert (E : B = 2 ^ (jt + 1) * T).
  { unfold T. rewrite <- Z.pow_add_r by lia. rewrite B_as_pow2. f_equal. lia. }
  symmetry. apply Z.div_unique with (T - 1); [lia|]. rewrite E. ring.
Qed.
Lemma mask_and_val j jt : 0 <= j <= jt -> jt < 64 ->
  Z.land (B - 2 ^ j) (2 ^ (jt + 1) - 1) = 2 ^ (jt + 1) - 2 ^ j.
Proof.
  intros Hj Hjt. change (2 ^ (jt + 1) - 1) with (Z.pred (2 ^ (jt + 1))). rewrite <- Z.ones_equiv.
  rewrite Z.land_ones by lia. set (T := 2 ^ (64 - 1 - jt)). assert (0 < T) by (apply Z.pow_pos_nonneg; lia).
  assert (E : B = 2 ^ (jt + 1) * T).
  { unfold T. rewrite <- Z.pow_add_r by lia. rewrite B_as_pow2. f_equal. lia. }
  assert (0 < 2 ^ j) by (apply Z.pow_pos_nonneg; lia).
  assert (2 ^ j <= 2 ^ (jt + 1)) by (apply Z.pow_le_mono_r; lia).
  symmetry. apply Z.mod_unique_pos with (T - 1); [lia|]. rewrite E. ring.
Qed.

Lemma zeros_split n k : (k < n)%nat -> zeros n = zeros k ++ 0 :: zeros (n - k - 1).
Proof.
  intros H. unfold zeros. replace n with (k + S (n - k - 1))%nat at 1 by lia.
  rewrite repeat_app. reflexivity.
Qed.
Lemma map_const_zeros (c : Z) n : map (fun _ => c) (zeros n) = repeat c n.
Proof. induction n; cbn; [reflexivity|]. f_equal. exact IHn. Qed.
Lemma val_repeat_max n : val (repeat (B - 1) n) = B ^ Z.of_nat n - 1.
Proof.
  induction n as [|n IH]; [reflexivity|]. cbn [repeat]. rewrite val_cons, IH, B_pow_S. ring.
Qed.
Lemma wf_repeat_max n : wf (repeat (B - 1) n).
Proof. apply Forall_forall. intros x Hx. apply repeat_spec in Hx. subst. unfold digit. pose proof B_gt1. lia. Qed.

Theorem snb_set_below data bit : canon data -> data <> [] -> 0 <= bit < ztz (val data) ->
  exists d, set_negative_bit bits_default data bit true = Ret d /\ wf d /\
            - val d = Z.setbit (- val data) bit.
Proof.
  intros Hc Hn Hb. pose proof (canon_val_pos _ Hc Hn) as P. pose proof (proj1 Hc) as Hw.
  pose proof (tz_some _ Hw P) as Et. set (tz := ztz (val data)) in *.
  pose proof (utrailing_zeros_meaning _ _ Hw Et) as T. pose proof (tz_bound _ _ Hw Et) as Bz.
  destruct (tz_struct _ _ Hw Et) as (d & l2 & Ed & Hk & Hd & Hd0 & Td & Hjt & Hl2).
  unfold set_negative_bit. cbn [bp_snb_hi bp_snb_gt bp_snb_eq bp_snb_lt bits_default cmp_eval negb].
  destruct (Z.geb_spec bit (64 * zlen data)); [lia|]. rewrite Et.
  destruct (Z.gtb_spec bit tz); [lia|]. destruct (Z.eqb_spec bit tz) as [|Nbt]; [lia|].
  destruct (Z.ltb_spec bit tz); [|lia]. cbn [andb].
  set (hi := tz / 64) in *. set (jt := tz mod 64) in *.
  set (lo := bit / 64). set (j := bit mod 64).
  assert (Etz : tz = 64 * hi + jt) by (unfold hi, jt; lia).
  assert (Ebit : bit = 64 * lo + j /\ 0 <= j < 64 /\ 0 <= lo <= hi) by (unfold lo, j, hi; lia).
  destruct Ebit as (Ebit & Hj & Hlo). clearbody hi jt lo j. clearbody tz.
  rewrite mask_lo_val by lia. rewrite mask_hi_val by lia.
  assert (Hbitf : Z.testbit (- val data) bit = false).
  { rewrite (testbit_neg _ _ bit T ltac:(lia)). destruct (Z.ltb_spec bit tz); [reflexivity|lia]. }
  rewrite setbit_clear by (lia || exact Hbitf).
  assert (Hvd : val data = B ^ hi * (d + B * val l2)).
  { rewrite Ed. rewrite val_app, val_zeros, length_zeros, Z2Nat.id, val_cons by lia. ring. }
  assert (Hpj : 0 < 2 ^ j) by (apply Z.pow_pos_nonneg; lia).
  assert (Hpjt : 0 < 2 ^ jt) by (apply Z.pow_pos_nonneg; lia).
  assert (Hdjt : 2 ^ jt <= d).
  { destruct Td as (_ & Tb & _). destruct (Z.le_gt_cases (2 ^ jt) d); [assumption|].
    rewrite (testbit_small d jt jt) in Tb by (unfold digit in *; lia). discriminate. }
  destruct (Z.eqb_spec lo hi) as [Elh|Nlh].
  - (* same digit *)
    subst lo. assert (Hjlt : j < jt) by lia.
    rewrite mask_and_val by lia.
    assert (Eu : upd data hi (fun d0 => Z.lxor d0 (2 ^ (jt + 1) - 2 ^ j)) 754
                 = Ret (zeros (Z.to_nat hi) ++ Z.lxor d (2 ^ (jt + 1) - 2 ^ j) :: l2)).
    { rewrite Ed at 1. replace hi with (zlen (zeros (Z.to_nat hi))) at 2 by (unfold zlen; rewrite length_zeros; lia).
      apply (upd_mid (zeros (Z.to_nat hi)) d l2 (fun d0 => Z.lxor d0 (2 ^ (jt + 1) - 2 ^ j)) 754). }
    rewrite Eu. rewrite lxor_run by (auto; lia).
    assert (2 ^ j <= 2 ^ jt) by (apply Z.pow_le_mono_r; lia).
    eexists. split; [reflexivity|]. split.
    + apply wf_app; split; [apply wf_zeros|]. apply wf_cons; split; [unfold digit in *; lia|exact Hl2].
    + rewrite val_app, val_zeros, length_zeros, Z2Nat.id, val_cons by lia. rewrite Hvd, Ebit, pow2_index by lia.
      ring.
  - (* several digits *)
    assert (Hlt : lo < hi) by lia.
    set (ln := Z.to_nat lo). set (n := (Z.to_nat hi - ln - 1)%nat).
    assert (Ez : zeros (Z.to_nat hi) = zeros ln ++ 0 :: zeros n) by (apply zeros_split; unfold ln; lia).
    assert (Hn1 : Z.of_nat ln = lo) by (unfold ln; lia).
    assert (Hn2 : Z.of_nat n = hi - lo - 1) by (unfold n, ln; lia).
    assert (E1 : upd data lo (fun _ => B - 2 ^ j) 755 = Ret (zeros ln ++ (B - 2 ^ j) :: zeros n ++ d :: l2)).
    { rewrite Ed at 1. rewrite Ez, <- app_assoc. cbn [app].
      replace lo with (zlen (zeros ln)) at 1 by (unfold zlen; rewrite length_zeros; lia).
      apply (upd_mid (zeros ln) 0 (zeros n ++ d :: l2) (fun _ => B - 2 ^ j) 755). }
    rewrite E1. cbn [bind]. destruct (Z.leb_spec (lo + 1) hi); [|lia]. cbn [assert_ bind].
    set (d1 := zeros ln ++ (B - 2 ^ j) :: zeros n ++ d :: l2).
    assert (L1 : Z.to_nat (lo + 1) = S ln) by (unfold ln; lia).
    assert (L2 : Z.to_nat hi = (S ln + n)%nat) by (unfold n, ln; lia).
    assert (F1 : firstn (Z.to_nat (lo + 1)) d1 = zeros ln ++ [B - 2 ^ j]).
    { rewrite L1. unfold d1. replace (zeros ln ++ (B - 2 ^ j) :: zeros n ++ d :: l2)
        with ((zeros ln ++ [B - 2 ^ j]) ++ zeros n ++ d :: l2) by (rewrite <- app_assoc; reflexivity).
      apply firstn_app_exact. rewrite app_length, length_zeros. cbn; lia. }
    assert (S1 : skipn (Z.to_nat (lo + 1)) d1 = zeros n ++ d :: l2).
    { rewrite L1. unfold d1. replace (zeros ln ++ (B - 2 ^ j) :: zeros n ++ d :: l2)
        with ((zeros ln ++ [B - 2 ^ j]) ++ zeros n ++ d :: l2) by (rewrite <- app_assoc; reflexivity).
      apply skipn_app_exact. rewrite app_length, length_zeros. cbn; lia. }
    assert (S2 : skipn (Z.to_nat hi) d1 = d :: l2).
    { rewrite L2. unfold d1. replace (zeros ln ++ (B - 2 ^ j) :: zeros n ++ d :: l2)
        with ((zeros ln ++ [B - 2 ^ j] ++ zeros n) ++ d :: l2) by (rewrite <- !app_assoc; reflexivity).
      apply skipn_app_exact. rewrite !app_length, !length_zeros. cbn; lia. }
    rewrite F1, S1, S2.
    replace (Z.to_nat hi - Z.to_nat (lo + 1))%nat with n by (unfold n, ln; lia).
    rewrite firstn_zeros_app, map_const_zeros.
    set (pre := zeros ln ++ (B - 2 ^ j) :: repeat (B - 1) n).
    assert (Ep : (zeros ln ++ [B - 2 ^ j]) ++ repeat (B - 1) n ++ d :: l2 = pre ++ d :: l2).
    { unfold pre. rewrite <- !app_assoc. reflexivity. }
    rewrite Ep.
    assert (Lp : zlen pre = hi).
    { unfold zlen, pre. rewrite app_length, length_zeros. cbn [length]. rewrite repeat_length. lia. }
    assert (Eu2 : upd (pre ++ d :: l2) hi (fun d2 => Z.lxor d2 (2 ^ (jt + 1) - 1)) 757
                  = Ret (pre ++ Z.lxor d (2 ^ (jt + 1) - 1) :: l2)).
    { rewrite <- Lp. apply (upd_mid pre d l2 (fun d2 => Z.lxor d2 (2 ^ (jt + 1) - 1)) 757). }
    rewrite Eu2.
    change (2 ^ (jt + 1) - 1) with (2 ^ (jt + 1) - 2 ^ 0). rewrite lxor_run by (auto; lia).
    change (2 ^ 0) with 1.
    assert (Hwp : wf pre).
    { unfold pre. apply wf_app; split; [apply wf_zeros|]. apply wf_cons; split; [|apply wf_repeat_max].
      unfold digit. assert (2 ^ j < B) by (rewrite B_as_pow2; apply Z.pow_lt_mono_r; lia). lia. }
    eexists. split; [reflexivity|]. split.
    + apply wf_app; split; [exact Hwp|]. apply wf_cons; split; [unfold digit in *; lia|exact Hl2].
    + rewrite val_app. fold (zlen pre). rewrite Lp, val_cons.
      unfold pre. rewrite val_app, val_zeros, length_zeros, val_cons, val_repeat_max, Hn1, Hn2.
      rewrite Hvd, Ebit, pow2_index by lia.
      assert (EH : B ^ hi = B ^ lo * B * B ^ (hi - lo - 1)).
      { replace hi with (lo + 1 + (hi - lo - 1)) at 1 by ring. rewrite !Z.pow_add_r by lia. rewrite Z.pow_1_r. ring. }
      rewrite EH. set (PL := B ^ lo). set (PN := B ^ (hi - lo - 1)). ring.
Qed.

(** ** all five arms together *)
Theorem set_negative_bit_spec p data bit value :
  bits_ok p = true -> canon data -> data <> [] -> vec_ok data -> 0 <= bit < B ->
  exists d, set_negative_bit p data bit value = Ret d /\ wf d /\
            - val d = if value then Z.setbit (- val data) bit else Z.clearbit (- val data) bit.
Proof.
  intros Hp Hc Hn Hv Hb.
  destruct (Z.lt_trichotomy bit (ztz (val data))) as [Hlt|[Heq|Hgt]].
  - destruct value.
    + apply bits_ok_inv in Hp. subst p. apply snb_set_below; auto. lia.
    + apply set_negative_bit_partial; auto. unfold snb_covered. right; right; right. auto.
  - destruct value.
    + apply set_negative_bit_partial; auto. unfold snb_covered. right; right; left. auto.
    + apply bits_ok_inv in Hp. subst p. rewrite Heq. apply snb_clear_lowest; auto.
  - apply set_negative_bit_partial; auto. unfold snb_covered. right; left. lia.
Qed.

Theorem iset_bit_spec p x bit value :
  bits_ok p = true -> icanon x -> vec_ok (mag x) -> 0 <= bit < B ->
  iset_bit p x bit value = Ret (ienc (if value then Z.setbit (ival x) bit else Z.clearbit (ival x) bit)).
Proof.
  intros Hp Hx Hv Hb. destruct (sg x) eqn:Es.
  - unfold iset_bit. isplit3 x Hx; try congruence. rewrite S, V.
    destruct (set_negative_bit_spec p (mag x) bit value Hp (proj1 Hx) M Hv Hb) as (d & E & Hd & Vd).
    rewrite E. cbn [bind]. f_equal. rewrite inormalize_minus by exact Hd. f_equal. exact Vd.
  - apply iset_bit_nonneg_spec; auto. congruence.
  - apply iset_bit_nonneg_spec; auto. congruence.
Qed.
