(* BitsProofsSNB.v — the two remaining arms of `set_negative_bit`: clearing the lowest set bit of a
   negative value (carry walk with early exit) and setting a bit below it (mask flip). *)
From BigNum Require Import Base BaseLemmas X86 AddSub AddSubProofs ShiftCore ShiftCoreProofs
  Bits SpecBits BitsLemmas BitsProofsU BitsProofsTC BitsProofsI.
Open Scope Z_scope.

(** ** where the lowest set bit lives *)
Lemma position_struct f a : forall i j d, position f i a = Some (j, d) ->
  exists l1 l2, a = l1 ++ d :: l2 /\ j = i + zlen l1 /\ f d = true /\ Forall (fun x => f x = false) l1.
Proof.
  induction a as [|x a IH]; intros i j d E; cbn [position] in E; [discriminate|].
  destruct (f x) eqn:Ef.
  - injection E as <- <-. exists [], a. unfold zlen. cbn. repeat split; auto. lia.
  - destruct (IH _ _ _ E) as (l1 & l2 & -> & -> & Hd & Hall). exists (x :: l1), l2.
    unfold zlen. cbn [length app]. repeat split; auto. lia.
Qed.

Lemma all_zero_zeros l : Forall (fun x => negb (x =? 0) = false) l -> l = zeros (length l).
Proof.
  induction 1 as [|x l Hx _ IH]; [reflexivity|]. cbn [length zeros repeat]. fold (zeros (length l)).
  rewrite <- IH. f_equal. destruct (Z.eqb_spec x 0); [assumption|discriminate].
Qed.

Lemma tz_struct a k : wf a -> utrailing_zeros a = Some k ->
  exists d l2, a = zeros (Z.to_nat (k / 64)) ++ d :: l2 /\ 0 <= k / 64 /\
               digit d /\ d <> 0 /\ is_tz d (k mod 64) /\ 0 <= k mod 64 < 64 /\ wf l2.
Proof.
  intros Ha E. unfold utrailing_zeros in E.
  destruct (position _ 0 a) as [[j d]|] eqn:Ep; [|discriminate]. injection E as <-.
  destruct (position_struct _ _ _ _ _ Ep) as (l1 & l2 & -> & -> & Hd & Hall).
  apply wf_app in Ha as [_ Ha]. apply wf_cons in Ha as [Hdd Hl2].
  assert (Hd0 : d <> 0) by (destruct (Z.eqb_spec d 0); [discriminate|assumption]).
  destruct (tz64_is_tz d Hdd Hd0) as [T R]. unfold zlen. rewrite Z.add_0_l.
  assert (E1 : (Z.of_nat (length l1) * 64 + tz64 d) / 64 = Z.of_nat (length l1)) by lia.
  assert (E2 : (Z.of_nat (length l1) * 64 + tz64 d) mod 64 = tz64 d) by lia.
  rewrite E1, E2, Nat2Z.id. exists d, l2. rewrite <- (all_zero_zeros l1 Hall).
  split; [reflexivity|]. split; [lia|]. split; [exact Hdd|]. split; [exact Hd0|]. split; [exact T|]. split; [exact R|exact Hl2].
Qed.

Lemma skipn_zeros_app n (l : list Z) : skipn n (zeros n ++ l) = l.
Proof. apply skipn_app_exact. apply length_zeros. Qed.
Lemma firstn_zeros_app n (l : list Z) : firstn n (zeros n ++ l) = zeros n.
Proof. apply firstn_app_exact. apply length_zeros. Qed.

(** ** the carry walk: once [carry_in] is dead the loop just propagates [carry_out] *)
Lemma snb_walk_spec l : forall c, wf l -> bit c ->
  match snb_walk 0 c l with (o, (cin', cout')) =>
    wf o /\ length o = length l /\ cin' = 0 /\ bit cout' /\
    val o + B ^ Z.of_nat (length l) * cout' = val l + c end.
Proof.
  induction l as [|x l IH]; intros c Hl Hc; cbn [snb_walk].
  - cbn [length Z.of_nat val]. rewrite Z.pow_0_r. repeat split; auto. lia.
  - cbn [Z.eqb andb]. destruct (Z.eqb_spec c 0) as [->|Hn].
    + repeat split; auto. lia.
    + assert (c = 1) by (destruct Hc; lia). subst c. apply wf_cons in Hl as [Hx Hl].
      pose proof (negate_carry_spec x 0 Hx bit0) as H1. destruct (negate_carry x 0) as [t cin1].
      destruct H1 as (Ht & Hc1 & E1).
      assert (cin1 = 0) by (unfold digit in *; destruct Hc1; subst; lia). subst cin1.
      pose proof (negate_carry_spec t 1 Ht bit1) as H2. destruct (negate_carry t 1) as [o0 c2].
      destruct H2 as (Ho0 & Hc2 & E2).
      specialize (IH c2 Hl Hc2). destruct (snb_walk 0 c2 l) as [os [cin' cout']].
      destruct IH as (Hos & Hlen & Hcin & Hcout & Ev).
      split; [apply wf_cons; auto|]. split; [cbn [length]; congruence|]. split; [exact Hcin|]. split; [exact Hcout|].
      change (length (x :: l)) with (S (length l)). rewrite B_pow_S, !val_cons.
      set (P := B ^ Z.of_nat (length l)) in *. nia.
Qed.

Lemma testbit_twos d j : digit d -> d <> 0 -> is_tz d j -> 0 <= j < 64 -> Z.testbit (B - d) j = true.
Proof.
  intros Hd Hn T Hj. unfold digit in Hd.
  replace (B - d) with ((- d) mod 2 ^ 64).
  - rewrite Z.mod_pow2_bits_low by lia. rewrite (testbit_neg d j j T ltac:(lia)).
    rewrite Z.ltb_irrefl, Z.eqb_refl. reflexivity.
  - rewrite <- B_as_pow2. symmetry. apply Z.mod_unique_pos with (-1); lia.
Qed.

Theorem snb_clear_lowest data : canon data -> data <> [] -> vec_ok data ->
  let tz := ztz (val data) in
  exists d, set_negative_bit bits_default data tz false = Ret d /\ wf d /\
            - val d = Z.clearbit (- val data) tz.
Proof.
  intros Hc Hn Hv tz. pose proof (canon_val_pos _ Hc Hn) as P. pose proof (proj1 Hc) as Hw.
  pose proof (tz_some _ Hw P) as Et. fold tz in Et. pose proof (utrailing_zeros_meaning _ _ Hw Et) as T.
  pose proof (tz_bound _ _ Hw Et) as Bz.
  destruct (tz_struct _ _ Hw Et) as (d & l2 & Ed & Hk & Hd & Hd0 & Td & Hj & Hl2).
  unfold set_negative_bit. cbn [bp_snb_hi bp_snb_gt bp_snb_eq bits_default cmp_eval negb].
  destruct (Z.geb_spec tz (64 * zlen data)); [lia|]. rewrite Et.
  destruct (Z.gtb_spec tz tz); [lia|]. rewrite Z.eqb_refl. cbn [andb].
  set (hi := tz / 64) in *. set (j := tz mod 64) in *.
  assert (Etz : tz = 64 * hi + j) by (unfold hi, j; lia). clearbody hi j. clearbody tz.
  assert (Es : skipn (Z.to_nat hi) data = d :: l2) by (rewrite Ed; apply skipn_zeros_app).
  assert (Ef : firstn (Z.to_nat hi) data = zeros (Z.to_nat hi)) by (rewrite Ed; apply firstn_zeros_app).
  rewrite Es, Ef.
  pose proof (negate_carry_spec d 1 Hd bit1) as H1. destruct (negate_carry d 1) as [tin cin].
  destruct H1 as (Htin & Hcin & E1).
  assert (cin = 0) by (unfold digit in *; destruct Hcin; subst; lia). subst cin.
  assert (Etin : tin = B - d) by lia.
  assert (Eout : Z.land tin (dnot (2 ^ j)) = B - d - 2 ^ j).
  { rewrite land_dnot_pow2 by (auto; lia). rewrite Etin. apply clearbit_set; [lia|].
    apply testbit_twos; auto. }
  rewrite Eout.
  assert (Hpj : 0 < 2 ^ j) by (apply Z.pow_pos_nonneg; lia).
  assert (Hdj : 2 ^ j <= d).
  { destruct Td as (_ & Tb & _). destruct (Z.le_gt_cases (2 ^ j) d); [assumption|].
    rewrite (testbit_small d j j) in Tb by (unfold digit in *; lia). discriminate. }
  assert (Hdj2 : d + 2 ^ j <= B).
  { destruct (is_tz_decomp d j Td) as [q Eq]. pose proof Hd as Hd2. unfold digit in Hd2.
    rewrite (B_split j) in * by lia. set (S := 2 ^ j) in *. set (T' := 2 ^ (64 - j)) in *.
    assert (2 * q + 1 < T') by (apply Z.mul_lt_mono_pos_r with S; lia).
    assert ((2 * q + 2) * S <= T' * S) by (apply Z.mul_le_mono_nonneg_r; lia). lia. }
  assert (Hout : digit (B - d - 2 ^ j)) by (unfold digit in *; lia).
  pose proof (negate_carry_spec _ 1 Hout bit1) as H2. destruct (negate_carry (B - d - 2 ^ j) 1) as [d' cout].
  destruct H2 as (Hd' & Hcout & E2).
  pose proof (snb_walk_spec l2 cout Hl2 Hcout) as H3. destruct (snb_walk 0 cout l2) as [rest' [cin' cout']].
  destruct H3 as (Hr & Hlr & Hci & Hco & E3). subst cin'.
  set (r := zeros (Z.to_nat hi) ++ d' :: rest').
  assert (Hwr : wf r) by (apply wf_app; split; [apply wf_zeros|apply wf_cons; auto]).
  assert (Hvd : val data = B ^ hi * (d + B * val l2)).
  { rewrite Ed. rewrite val_app, val_zeros, length_zeros, Z2Nat.id, val_cons by lia. ring. }
  assert (Hvr : val r = B ^ hi * (d' + B * val rest')).
  { unfold r. rewrite val_app, val_zeros, length_zeros, Z2Nat.id, val_cons by lia. ring. }
  assert (Hpk : 2 ^ tz = B ^ hi * 2 ^ j).
  { rewrite Etz. apply pow2_index; lia. }
  assert (Hbitk : Z.testbit (- val data) tz = true).
  { rewrite (testbit_neg _ _ tz T ltac:(lia)). rewrite Z.ltb_irrefl, Z.eqb_refl. reflexivity. }
  rewrite clearbit_set by (lia || exact Hbitk). rewrite Hpk, Hvd.
  set (PH := B ^ hi) in *. set (PL := B ^ Z.of_nat (length l2)) in *.
  destruct Hco as [-> | ->]; cbn [Z.eqb negb].
  - exists r. split; [reflexivity|]. split; [exact Hwr|]. rewrite Hvr. nia.
  - cbn [assert_ bind Z.eqb]. exists (r ++ [1]). split; [reflexivity|].
    split; [apply wf_app; split; [exact Hwr|apply wf_cons; split; [unfold digit; pose proof B_gt1; lia|apply wf_nil]]|].
    rewrite val_snoc, Hvr. unfold r. rewrite app_length, length_zeros. cbn [length].
    rewrite Hlr. rewrite Nat2Z.inj_add, Z2Nat.id, Z.pow_add_r by lia. fold PH.
    rewrite Nat2Z.inj_succ, Z.pow_succ_r by lia. fold PL. nia.
Qed.
